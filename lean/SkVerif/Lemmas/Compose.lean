/-
Helper lemmas for C09: the writer/except monad `W`, member tuples, column-wise aggregation.
-/
import SkVerif.Spec.Compose
import SkVerif.Lemmas.Sort
namespace SkVerif.Compose
open SkVerif

namespace W
variable {α β γ : Type}

@[simp] theorem run_pure (a : α) : (Pure.pure a : W α).run = .ok (a, []) := rfl
theorem run_bind (x : W α) (f : α → W β) : (x >>= f).run =
    (match x.run with
     | .error e => .error e
     | .ok (a, l) => match (f a).run with
        | .error e => .error e
        | .ok (b, l') => .ok (b, l ++ l')) := by
  show (W.bind x f).run = _
  unfold W.bind
  cases hx : x.run with
  | error e => rfl
  | ok p =>
    obtain ⟨a, l⟩ := p
    cases hf : (f a).run with
    | error e => simp [hf]
    | ok q => obtain ⟨b, l'⟩ := q; simp [hf]

theorem bind_eq_ok {x : W α} {f : α → W β} {b : β} {l : Log} :
    (x >>= f).run = .ok (b, l) ↔ ∃ a l1 l2, x.run = .ok (a, l1) ∧ (f a).run = .ok (b, l2) ∧ l = l1 ++ l2 := by
  rw [run_bind]
  cases hx : x.run with
  | error e => simp
  | ok p =>
    obtain ⟨a, l1⟩ := p
    cases hf : (f a).run with
    | error e =>
      simp only [hf]
      constructor
      · intro h; cases h
      · rintro ⟨a', l1', l2, h1, h2, _⟩
        cases h1; rw [hf] at h2; cases h2
    | ok q =>
      obtain ⟨b', l2⟩ := q
      simp only [hf]
      constructor
      · intro h; cases h; exact ⟨a, l1, l2, rfl, hf, rfl⟩
      · rintro ⟨a', l1', l2', h1, h2, rfl⟩
        cases h1; rw [hf] at h2; cases h2; rfl

@[ext] theorem ext' {x y : W α} (h : x.run = y.run) : x = y := by
  cases x; cases y; simp_all

instance : LawfulMonad W := LawfulMonad.mk' W
  (id_map := by
    intro α x; apply ext'
    show (W.bind x (fun a => W.pure (id a))).run = x.run
    unfold W.bind W.pure
    cases hx : x.run with
    | error e => rfl
    | ok p => obtain ⟨a, l⟩ := p; simp)
  (pure_bind := by
    intro α β a f; apply ext'
    show (W.bind (W.pure a) f).run = (f a).run
    unfold W.bind W.pure
    cases hf : (f a).run with
    | error e => simp [hf]
    | ok q => obtain ⟨b, l⟩ := q; simp [hf])
  (bind_assoc := by
    intro α β γ x f g; apply ext'
    show (W.bind (W.bind x f) g).run = (W.bind x (fun a => W.bind (f a) g)).run
    unfold W.bind
    cases hx : x.run with
    | error e => rfl
    | ok p =>
      obtain ⟨a, l⟩ := p
      cases hf : (f a).run with
      | error e => simp [hf]
      | ok q =>
        obtain ⟨b, l'⟩ := q
        cases hg : (g b).run with
        | error e => simp [hf, hg]
        | ok r => obtain ⟨c, l''⟩ := r; simp [hf, hg, List.append_assoc])

@[simp] theorem run_fail (e : Err) : (W.fail e : W α).run = .error e := rfl
@[simp] theorem run_tell (l : Log) : (W.tell l).run = .ok ((), l) := rfl
@[simp] theorem run_lift_ok (a : α) : (W.lift (.ok a) : W α).run = .ok (a, []) := rfl
@[simp] theorem run_lift_error (e : Err) : (W.lift (.error e) : W α).run = .error e := rfl

theorem lift_eq_ok {x : Except Err α} {a : α} {l : Log} :
    (W.lift x).run = .ok (a, l) ↔ x = .ok a ∧ l = [] := by
  cases x with
  | error e => simp
  | ok a' => simp [eq_comm]

theorem lift_bind_eq_ok {x : Except Err α} {f : α → W β} {b : β} {l : Log} :
    (W.lift x >>= f).run = .ok (b, l) ↔ ∃ a, x = .ok a ∧ (f a).run = .ok (b, l) := by
  rw [bind_eq_ok]
  constructor
  · rintro ⟨a, l1, l2, h1, h2, rfl⟩
    obtain ⟨rfl, rfl⟩ := lift_eq_ok.mp h1
    exact ⟨a, rfl, by simpa using h2⟩
  · rintro ⟨a, rfl, h2⟩
    exact ⟨a, [], l, rfl, h2, by simp⟩

theorem tell_bind_eq_ok {l0 : Log} {f : Unit → W β} {b : β} {l : Log} :
    (W.tell l0 >>= f).run = .ok (b, l) ↔ ∃ l2, (f ()).run = .ok (b, l2) ∧ l = l0 ++ l2 := by
  rw [bind_eq_ok]
  constructor
  · rintro ⟨a, l1, l2, h1, h2, rfl⟩
    simp only [run_tell, Except.ok.injEq, Prod.mk.injEq] at h1
    obtain ⟨_, rfl⟩ := h1
    exact ⟨l2, h2, rfl⟩
  · rintro ⟨l2, h2, rfl⟩
    exact ⟨(), l0, l2, rfl, h2, rfl⟩

theorem fail_bind (e : Err) (f : α → W β) : (W.fail e >>= f).run = .error e := by
  rw [run_bind]; rfl

theorem pure_eq_ok {a b : α} {l : Log} : (Pure.pure a : W α).run = .ok (b, l) ↔ a = b ∧ l = [] := by
  simp [eq_comm]

end W

open W (bind_eq_ok pure_eq_ok lift_bind_eq_ok lift_eq_ok tell_bind_eq_ok fail_bind run_bind)

/-! ### bookkeeping -/

theorem effFh_some_of_checkFh {cur : Option Horizon} {raw f : Horizon} (h : checkFh raw = .ok f) :
    effFh cur (some raw) = some f := by simp [effFh, h]

theorem Base.setYX_ok {b b' : Base} {y : Series} (h : b.setYX y = .ok b') :
    b' = { b with y := y, cutoff := lastLabel y } ∧ y ≠ [] := by
  unfold Base.setYX at h
  by_cases hy : y.isEmpty
  · simp [hy] at h
  · simp only [hy, Bool.false_eq_true, ↓reduceIte, Except.ok.injEq] at h
    exact ⟨h.symm, by intro h0; simp [h0] at hy⟩

theorem Base.setFhOpt_ok {b b' : Base} {fh : Option Horizon} (h : b.setFhOpt fh = .ok b') :
    b' = { b with fh := effFh b.fh fh } ∧ (b.fitted = true → (effFh b.fh fh).isSome) := by
  unfold Base.setFhOpt at h
  cases fh with
  | none =>
    by_cases hc : (b.fitted && b.fh.isNone) = true
    · simp [hc] at h
    · simp only [hc, Bool.false_eq_true, ↓reduceIte, Except.ok.injEq] at h
      subst h
      refine ⟨by simp [effFh], ?_⟩
      intro hf
      simp only [hf, Bool.true_and, Option.isNone_iff_eq_none] at hc
      simp only [effFh]
      cases hb : b.fh with
      | none => exact absurd hb hc
      | some _ => rfl
  | some raw =>
    cases hr : checkFh raw with
    | error e => simp [hr, Except.map] at h
    | ok f =>
      simp only [hr, Except.map, Except.ok.injEq] at h
      subst h
      simp [effFh, hr]

theorem Base.getFh_ok {b : Base} {f : Horizon} (h : b.getFh = .ok f) : b.fh = some f := by
  unfold Base.getFh at h
  cases hb : b.fh with
  | none => simp [hb] at h
  | some g => simp only [hb, Except.ok.injEq] at h; rw [h]

/-! ### single calls and histories -/

namespace Forecaster
variable (F : Forecaster)

theorem step_fit_eq_ok {s s1 : F.S} {y fh o l} :
    (F.step s (.fit y fh)).run = .ok ((s1, o), l) ↔ (F.fit s y fh).run = .ok (s1, l) ∧ o = none := by
  simp only [step]
  rw [bind_eq_ok]
  constructor
  · rintro ⟨a, l1, l2, h1, h2, rfl⟩
    obtain ⟨h3, rfl⟩ := pure_eq_ok.mp h2
    cases h3
    exact ⟨by simpa using h1, rfl⟩
  · rintro ⟨h1, rfl⟩
    exact ⟨s1, l, [], h1, rfl, by simp⟩

theorem step_update_eq_ok {s s1 : F.S} {y up o l} :
    (F.step s (.update y up)).run = .ok ((s1, o), l) ↔ (F.update s y up).run = .ok (s1, l) ∧ o = none := by
  simp only [step]
  rw [bind_eq_ok]
  constructor
  · rintro ⟨a, l1, l2, h1, h2, rfl⟩
    obtain ⟨h3, rfl⟩ := pure_eq_ok.mp h2
    cases h3
    exact ⟨by simpa using h1, rfl⟩
  · rintro ⟨h1, rfl⟩
    exact ⟨s1, l, [], h1, rfl, by simp⟩

theorem step_predict_eq_ok {s s1 : F.S} {fh o l} :
    (F.step s (.predict fh)).run = .ok ((s1, o), l) ↔ ∃ p, (F.predict s fh).run = .ok ((s1, p), l) ∧ o = some p := by
  simp only [step]
  rw [bind_eq_ok]
  constructor
  · rintro ⟨⟨s', p⟩, l1, l2, h1, h2, rfl⟩
    obtain ⟨h3, rfl⟩ := pure_eq_ok.mp h2
    cases h3
    exact ⟨p, by simpa using h1, rfl⟩
  · rintro ⟨p, h1, rfl⟩
    exact ⟨(s1, p), l, [], h1, rfl, by simp⟩

theorem step_setCutoff_eq_ok {s s1 : F.S} {c o l} :
    (F.step s (.setCutoff c)).run = .ok ((s1, o), l) ↔ s1 = F.setCutoff s c ∧ o = none ∧ l = [] := by
  simp only [step]
  rw [pure_eq_ok]
  constructor
  · intro ⟨h, hl⟩; cases h; exact ⟨rfl, rfl, hl⟩
  · rintro ⟨rfl, rfl, rfl⟩; exact ⟨rfl, rfl⟩

theorem run_nil_eq_ok {s s2 : F.S} {outs l} :
    (F.run s []).run = .ok ((s2, outs), l) ↔ s2 = s ∧ outs = [] ∧ l = [] := by
  simp only [run]
  rw [pure_eq_ok]
  constructor
  · intro ⟨h, hl⟩; cases h; exact ⟨rfl, rfl, hl⟩
  · rintro ⟨rfl, rfl, rfl⟩; exact ⟨rfl, rfl⟩

theorem run_cons_eq_ok {s s2 : F.S} {op ops outs l} :
    (F.run s (op :: ops)).run = .ok ((s2, outs), l) ↔
      ∃ s1 o l1 os l2, (F.step s op).run = .ok ((s1, o), l1) ∧ (F.run s1 ops).run = .ok ((s2, os), l2) ∧
        outs = o :: os ∧ l = l1 ++ l2 := by
  simp only [run]
  rw [bind_eq_ok]
  constructor
  · rintro ⟨⟨s1, o⟩, l1, l2, h1, h2, rfl⟩
    obtain ⟨⟨s2', os⟩, l3, l4, h3, h4, rfl⟩ := bind_eq_ok.mp h2
    obtain ⟨h5, rfl⟩ := pure_eq_ok.mp h4
    cases h5
    exact ⟨s1, o, l1, os, l3, h1, h3, rfl, by simp⟩
  · rintro ⟨s1, o, l1, os, l2, h1, h2, rfl, rfl⟩
    refine ⟨(s1, o), l1, l2, h1, ?_, rfl⟩
    exact bind_eq_ok.mpr ⟨(s2, os), l2, [], h2, rfl, by simp⟩
end Forecaster

/-! ### member tuples: every member is handled on its own -/

theorem fitAll_get : ∀ (Fs : List Forecaster) (y : Series) (fh : Option Horizon) (ss : States Fs) (log : Log),
    (fitAll Fs y fh).run = .ok (ss, log) → ∀ i, i < Fs.length →
    ∃ l, ((member Fs i).fit (member Fs i).init y fh).run = .ok (ss.get Fs i, l)
  | [], _, _, _, _, _, i, hi => by simp at hi
  | F :: Fs, y, fh, ss, log, h, i, hi => by
    simp only [fitAll] at h
    obtain ⟨s, l1, l2, h1, h2, rfl⟩ := bind_eq_ok.mp h
    obtain ⟨ss', l3, l4, h3, h4, rfl⟩ := bind_eq_ok.mp h2
    obtain ⟨rfl, rfl⟩ := pure_eq_ok.mp h4
    cases i with
    | zero => exact ⟨l1, h1⟩
    | succ i =>
      obtain ⟨l, hl⟩ := fitAll_get Fs y fh ss' l3 h3 i (by simpa using hi)
      exact ⟨l, hl⟩

theorem updateAll_get : ∀ (Fs : List Forecaster) (ss : States Fs) (y : Series) (up : Bool) (ss' : States Fs) (log : Log),
    (updateAll Fs ss y up).run = .ok (ss', log) → ∀ i, i < Fs.length →
    ∃ l, ((member Fs i).update (ss.get Fs i) y up).run = .ok (ss'.get Fs i, l)
  | [], _, _, _, _, _, _, i, hi => by simp at hi
  | F :: Fs, (s, ss), y, up, ss', log, h, i, hi => by
    simp only [updateAll] at h
    obtain ⟨s1, l1, l2, h1, h2, rfl⟩ := bind_eq_ok.mp h
    obtain ⟨ss1, l3, l4, h3, h4, rfl⟩ := bind_eq_ok.mp h2
    obtain ⟨rfl, rfl⟩ := pure_eq_ok.mp h4
    cases i with
    | zero => exact ⟨l1, h1⟩
    | succ i =>
      obtain ⟨l, hl⟩ := updateAll_get Fs ss y up ss1 l3 h3 i (by simpa using hi)
      exact ⟨l, hl⟩

theorem predictAll_get : ∀ (Fs : List Forecaster) (ss : States Fs) (fh : Option Horizon) (ss' : States Fs)
    (ps : List Series) (log : Log),
    (predictAll Fs ss fh).run = .ok ((ss', ps), log) → ps.length = Fs.length ∧ ∀ i, i < Fs.length →
    ∃ p l, ps[i]? = some p ∧ ((member Fs i).predict (ss.get Fs i) fh).run = .ok ((ss'.get Fs i, p), l)
  | [], _, _, _, ps, _, h => by
    simp only [predictAll] at h
    obtain ⟨h1, _⟩ := pure_eq_ok.mp h
    cases h1
    exact ⟨rfl, by intro i hi; simp at hi⟩
  | F :: Fs, (s, ss), fh, ss', ps, log, h => by
    simp only [predictAll] at h
    obtain ⟨⟨s1, p⟩, l1, l2, h1, h2, rfl⟩ := bind_eq_ok.mp h
    obtain ⟨⟨ss1, ps1⟩, l3, l4, h3, h4, rfl⟩ := bind_eq_ok.mp h2
    obtain ⟨h5, rfl⟩ := pure_eq_ok.mp h4
    cases h5
    obtain ⟨hlen, ih⟩ := predictAll_get Fs ss fh ss1 ps1 l3 h3
    refine ⟨by simp [hlen], ?_⟩
    intro i hi
    cases i with
    | zero => exact ⟨p, l1, rfl, h1⟩
    | succ i =>
      obtain ⟨q, l, hq, hl⟩ := ih i (by simpa using hi)
      exact ⟨q, l, by simpa using hq, hl⟩

theorem setCutoffAll_get : ∀ (Fs : List Forecaster) (ss : States Fs) (c : Option Int) (i : Nat),
    (setCutoffAll Fs ss c).get Fs i = (member Fs i).setCutoff (ss.get Fs i) c
  | [], _, _, _ => rfl
  | _ :: _, (_, _), _, 0 => rfl
  | _ :: Fs, (_, ss), c, i + 1 => setCutoffAll_get Fs ss c i

/-! ### rows and columns of the member-forecast matrix -/

theorem column_zero (ps : List Series) : column ps 0 = heads ps := by
  unfold column heads
  congr 1
  funext p
  cases p <;> rfl

theorem column_tails (ps : List Series) (i : Nat) : column (tails ps) i = column ps (i + 1) := by
  unfold column tails
  rw [List.filterMap_map]
  congr 1
  funext p
  cases p <;> simp

theorem rowsOf_length (n : Nat) (ps : List Series) : (rowsOf n ps).length = n := by
  induction n generalizing ps with
  | zero => rfl
  | succ n ih => simp [rowsOf, ih]

theorem rowsOf_getElem (n : Nat) (ps : List Series) (i : Nat) (hi : i < n) :
    (rowsOf n ps)[i]? = some (column ps i) := by
  induction n generalizing ps i with
  | zero => omega
  | succ n ih =>
    cases i with
    | zero => simp [rowsOf, column_zero]
    | succ i =>
      simp only [rowsOf, List.getElem?_cons_succ]
      rw [ih (tails ps) i (by omega), column_tails]

theorem firstLabels_length (ps : List Series) : (firstLabels ps).length = nRows ps := by
  unfold firstLabels nRows labels
  cases ps with
  | nil => rfl
  | cons p _ => simp

/-- row `i` of the aggregated forecast: the first member's i-th label, and the aggregate of the
members' i-th forecast values -/
theorem aggregate_getElem (agg : Agg) (ps : List Series) (i : Nat) (hi : i < nRows ps) :
    ∃ l, (firstLabels ps)[i]? = some l ∧ (aggregate agg ps)[i]? = some (l, aggVals agg (column ps i)) := by
  have hl : i < (firstLabels ps).length := by rw [firstLabels_length]; exact hi
  refine ⟨(firstLabels ps)[i], by simp [hl], ?_⟩
  unfold aggregate
  rw [List.getElem?_zip_eq_some]
  refine ⟨by simp [hl], ?_⟩
  rw [List.getElem?_map, rowsOf_getElem _ _ _ hi]
  rfl

theorem weighted_getElem (ws : List Rat) (ps : List Series) (i : Nat) (hi : i < nRows ps) :
    ∃ l, (firstLabels ps)[i]? = some l ∧ (weighted ws ps)[i]? = some (l, wsumRow ws (column ps i)) := by
  have hl : i < (firstLabels ps).length := by rw [firstLabels_length]; exact hi
  refine ⟨(firstLabels ps)[i], by simp [hl], ?_⟩
  unfold weighted
  rw [List.getElem?_zip_eq_some]
  refine ⟨by simp [hl], ?_⟩
  rw [List.getElem?_map, rowsOf_getElem _ _ _ hi]
  rfl

theorem aggregate_length (agg : Agg) (ps : List Series) : (aggregate agg ps).length = nRows ps := by
  unfold aggregate
  simp [firstLabels_length, rowsOf_length]

end SkVerif.Compose
