/-
List-level lemmas for the panel model (C15): transposeW, chunks / flatten, setCol / buildCols,
allEq, mapM in `Except`.
-/
import SkVerif.Model.Panel
namespace SkVerif.Panel.Lem
open SkVerif.Panel

/-- every row of the matrix has length `w` -/
def RowsLen {β} (w : Nat) (m : List (List β)) : Prop := ∀ r ∈ m, r.length = w

theorem rowsLen_nil {β} (w : Nat) : RowsLen w ([] : List (List β)) := by
  intro r h; cases h

theorem rowsLen_cons {β} {w : Nat} {r : List β} {m : List (List β)} :
    RowsLen w (r :: m) ↔ r.length = w ∧ RowsLen w m := by
  unfold RowsLen
  constructor
  · intro h; exact ⟨h r (by simp), fun x hx => h x (by simp [hx])⟩
  · intro h x hx
    rcases List.mem_cons.mp hx with rfl | hx
    · exact h.1
    · exact h.2 x hx

/-! ### transposeW -/

theorem length_transposeW {β} (w : Nat) (m : List (List β)) (h : RowsLen w m) :
    (transposeW w m).length = w := by
  induction m with
  | nil => simp [transposeW]
  | cons r rs ih =>
    have h' := rowsLen_cons.mp h
    simp [transposeW, List.length_zipWith, h'.1, ih h'.2]

theorem rowsLen_transposeW {β} (w : Nat) (m : List (List β)) (h : RowsLen w m) :
    RowsLen m.length (transposeW w m) := by
  induction m with
  | nil =>
    intro r hr
    simp only [transposeW, List.mem_replicate] at hr
    simp [hr.2]
  | cons r rs ih =>
    have h' := rowsLen_cons.mp h
    have ih' := ih h'.2
    intro x hx
    simp only [transposeW] at hx
    rw [List.mem_iff_getElem] at hx
    obtain ⟨i, hi, rfl⟩ := hx
    simp only [List.getElem_zipWith, List.length_cons]
    have : (transposeW w rs)[i]'(by simp [List.length_zipWith] at hi; omega) ∈ transposeW w rs :=
      List.getElem_mem _
    simp [ih' _ this]

theorem zipWith_cons_transpose {β} (k : Nat) (r : List β) (T : List (List β))
    (hlen : r.length = T.length) (hT : RowsLen k T) :
    transposeW (k + 1) (List.zipWith List.cons r T) = r :: transposeW k T := by
  induction r generalizing T with
  | nil =>
    cases T with
    | nil => simp [transposeW, List.replicate_succ]
    | cons x T' => simp at hlen
  | cons a r' ih =>
    cases T with
    | nil => simp at hlen
    | cons x T' =>
      have hT' := rowsLen_cons.mp hT
      simp only [List.zipWith_cons_cons, transposeW]
      rw [ih T' (by simpa using hlen) hT'.2]
      simp [List.zipWith_cons_cons]

/-- transposing twice gives the matrix back -/
theorem transposeW_transposeW {β} (w : Nat) (m : List (List β)) (h : RowsLen w m) :
    transposeW m.length (transposeW w m) = m := by
  induction m with
  | nil =>
    simp only [transposeW, List.length_nil]
    induction w with
    | zero => simp [transposeW]
    | succ w _ => simp [List.replicate_succ, transposeW]
  | cons r rs ih =>
    have h' := rowsLen_cons.mp h
    simp only [transposeW, List.length_cons]
    rw [zipWith_cons_transpose rs.length r (transposeW w rs)
      (by rw [length_transposeW w rs h'.2, h'.1]) (rowsLen_transposeW w rs h'.2)]
    rw [ih h'.2]

/-- reading a matrix column by column with `getD` is its transpose -/
theorem cols_eq_transposeW {β} (w : Nat) (m : List (List β)) (d : β) (h : RowsLen w m) :
    (List.range w).map (fun j => m.map (fun r => r.getD j d)) = transposeW w m := by
  induction m with
  | nil => simp [transposeW, List.map_const']
  | cons r rs ih =>
    have h' := rowsLen_cons.mp h
    simp only [transposeW, List.map_cons]
    rw [← ih h'.2]
    apply List.ext_getElem
    · simp [List.length_zipWith, h'.1]
    · intro i h1 h2
      have hi : i < w := by simpa using h1
      have hir : i < r.length := by rw [h'.1]; exact hi
      simp [List.getElem_zipWith, List.getD_eq_getElem?_getD, List.getElem?_eq_getElem hir]

theorem map_transposeW {β γ} (f : β → γ) (w : Nat) (m : List (List β)) :
    (transposeW w m).map (List.map f) = transposeW w (m.map (List.map f)) := by
  induction m with
  | nil => simp [transposeW]
  | cons r rs ih =>
    simp only [transposeW, List.map_cons]
    rw [← ih, List.map_zipWith, List.zipWith_map_left, List.zipWith_map_right]
    simp

/-! ### chunks / flatten -/

theorem chunks_flatten {β} (k : Nat) (L : List (List β)) (h : RowsLen k L) :
    chunks L.length k L.flatten = L := by
  induction L with
  | nil => simp [chunks]
  | cons l L ih =>
    have h' := rowsLen_cons.mp h
    simp only [List.length_cons, chunks, List.flatten_cons]
    rw [List.take_left' h'.1, List.drop_left' h'.1, ih h'.2]

theorem flatten_chunks {β} (m k : Nat) (l : List β) (h : l.length = m * k) :
    (chunks m k l).flatten = l := by
  induction m generalizing l with
  | zero => simp at h; simp [chunks, h]
  | succ m ih =>
    simp only [chunks, List.flatten_cons]
    rw [ih (l.drop k) (by simp [h, Nat.succ_mul]), List.take_append_drop]

theorem length_chunks {β} (m k : Nat) (l : List β) : (chunks m k l).length = m := by
  induction m generalizing l with
  | zero => simp [chunks]
  | succ m ih => simp [chunks, ih]

theorem rowsLen_chunks {β} (m k : Nat) (l : List β) (h : l.length = m * k) :
    RowsLen k (chunks m k l) := by
  induction m generalizing l with
  | zero => simp [chunks]; exact rowsLen_nil k
  | succ m ih =>
    simp only [chunks]
    refine rowsLen_cons.mpr ⟨?_, ih _ (by simp [h, Nat.succ_mul])⟩
    simp [h, Nat.succ_mul]

theorem length_flatten_of_rowsLen {β} (k : Nat) (L : List (List β)) (h : RowsLen k L) :
    L.flatten.length = L.length * k := by
  induction L with
  | nil => simp
  | cons l L ih =>
    have h' := rowsLen_cons.mp h
    simp [ih h'.2, h'.1, Nat.succ_mul, Nat.add_comm]

/-! ### allEq -/

theorem allEq_of_forall {β} [DecidableEq β] (l : List β) (b : β) (h : ∀ x ∈ l, x = b) :
    allEq l = true := by
  cases l with
  | nil => rfl
  | cons a l =>
    simp only [allEq, List.all_eq_true, decide_eq_true_eq]
    intro x hx
    rw [h x (by simp [hx]), h a (by simp)]

/-! ### setCol / buildCols -/

theorem setCol_append_new {ν γ} [DecidableEq ν] (df : List (ν × γ)) (name : ν) (col : γ)
    (h : name ∉ df.map (·.1)) : setCol df name col = df ++ [(name, col)] := by
  induction df with
  | nil => simp [setCol]
  | cons p df ih =>
    obtain ⟨k, v⟩ := p
    simp only [List.map_cons, List.mem_cons, not_or] at h
    simp only [setCol]
    rw [if_neg (fun e => h.1 e.symm), ih h.2]
    simp

theorem foldl_setCol_zip {ν γ} [DecidableEq ν] (acc : List (ν × γ)) (ps : List (ν × γ))
    (hnd : (acc.map (·.1) ++ ps.map (·.1)).Nodup) :
    ps.foldl (fun df p => setCol df p.1 p.2) acc = acc ++ ps := by
  induction ps generalizing acc with
  | nil => simp
  | cons p ps ih =>
    simp only [List.foldl_cons]
    have hp : p.1 ∉ acc.map (·.1) := by
      intro hmem
      have := (List.nodup_append.mp hnd).2.2 _ hmem p.1 (by simp)
      exact this rfl
    rw [setCol_append_new acc p.1 p.2 hp, ih]
    · simp
    · simpa [List.append_assoc] using hnd

/-- with pairwise distinct labels, the column-by-column construction is just `zip` -/
theorem buildCols_eq_zip {ν γ} [DecidableEq ν] (names : List ν) (mk : Nat → γ) (hnd : names.Nodup) :
    buildCols names mk = names.zip ((List.range names.length).map mk) := by
  unfold buildCols
  have h1 : names.zipIdx.foldl (fun df p => setCol df p.1 (mk p.2)) []
      = (names.zipIdx.map (fun p => (p.1, mk p.2))).foldl (fun df p => setCol df p.1 p.2) [] := by
    rw [List.foldl_map]
  rw [h1, foldl_setCol_zip]
  · simp only [List.nil_append]
    rw [List.zipIdx_eq_zip_range', List.range_eq_range']
    rw [List.zip_map_right]
    rfl
  · simp only [List.map_nil, List.nil_append, List.map_map]
    have : (names.zipIdx.map ((fun x => x.1) ∘ fun p => (p.1, mk p.2))) = names := by
      rw [show ((fun x : ν × γ => x.1) ∘ fun p : ν × Nat => (p.1, mk p.2)) = (fun p => p.1) from rfl]
      exact List.zipIdx_map_fst ..
    rw [this]; exact hnd

/-! ### mapM in Except -/

theorem mapM_ok {ε β γ} (f : β → Except ε γ) (g : β → γ) (l : List β)
    (h : ∀ x ∈ l, f x = .ok (g x)) : l.mapM f = .ok (l.map g) := by
  induction l with
  | nil => rfl
  | cons a l ih =>
    rw [List.mapM_cons, h a (by simp), ih (fun x hx => h x (by simp [hx]))]
    rfl

end SkVerif.Panel.Lem
