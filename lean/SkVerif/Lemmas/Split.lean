import SkVerif.Model.Split
import SkVerif.Lemmas.Range
import SkVerif.Lemmas.Sort
import SkVerif.Lemmas.FH
import Mathlib.Data.List.Sort
namespace SkVerif.Lem
open SkVerif SkVerif.Split

/-- two strictly increasing integer lists with the same members are equal -/
theorem eq_of_strict_mem_iff {l₁ l₂ : List Int} (h₁ : l₁.Pairwise (· < ·)) (h₂ : l₂.Pairwise (· < ·))
    (h : ∀ a, a ∈ l₁ ↔ a ∈ l₂) : l₁ = l₂ :=
  List.Pairwise.eq_of_mem_iff h₁ h₂ h

theorem arange_pairwise_lt (a b : Int) : (arange a b).Pairwise (· < ·) :=
  pyRange_pairwise_lt a b 1 (by omega)

theorem arange_length (a b : Int) : (arange a b).length = (b - a).toNat := by
  rw [arange_eq]; simp

theorem pyRange_cons (a b s : Int) (hs : 0 < s) (hab : a < b) :
    pyRange a b s = a :: pyRange (a + s) b s := by
  apply eq_of_strict_mem_iff (pyRange_pairwise_lt a b s hs)
  · refine List.pairwise_cons.mpr ⟨?_, pyRange_pairwise_lt _ _ _ hs⟩
    intro x hx
    have := (pyRange_mem_pos (a + s) b s x hs).mp hx
    omega
  · intro x
    rw [List.mem_cons, pyRange_mem_pos a b s x hs, pyRange_mem_pos (a + s) b s x hs]
    constructor
    · rintro ⟨h1, h2, ⟨k, hk⟩⟩
      by_cases hxa : x = a
      · left; exact hxa
      · right
        have hk1 : 1 ≤ k := by
          by_contra hneg
          have : k ≤ 0 := by omega
          have : s * k ≤ 0 := by nlinarith
          omega
        refine ⟨by nlinarith, h2, ⟨k - 1, by rw [Int.mul_sub]; omega⟩⟩
    · rintro (rfl | ⟨h1, h2, ⟨k, hk⟩⟩)
      · exact ⟨by omega, hab, ⟨0, by omega⟩⟩
      · exact ⟨by omega, h2, ⟨k + 1, by rw [Int.mul_add]; omega⟩⟩

theorem pyRange_nil (a b s : Int) (hs : 0 < s) (hab : b ≤ a) : pyRange a b s = [] := by
  apply List.eq_nil_iff_forall_not_mem.mpr
  intro x hx
  have := (pyRange_mem_pos a b s x hs).mp hx
  omega

theorem nonneg_pairwise (l : List Int) (h : l.Pairwise (· < ·)) : (nonneg l).Pairwise (· < ·) :=
  h.filter _

theorem nonneg_arange (a b : Int) : nonneg (arange a b) = arange (max a 0) b := by
  apply eq_of_strict_mem_iff (nonneg_pairwise _ (arange_pairwise_lt a b)) (arange_pairwise_lt _ _)
  intro x
  simp only [nonneg, List.mem_filter, arange_mem, decide_eq_true_eq]
  omega

theorem nonneg_id (l : List Int) (h : ∀ x ∈ l, 0 ≤ x) : nonneg l = l := by
  simp only [nonneg, List.filter_eq_self, decide_eq_true_eq]
  intro x hx; have := h x hx; omega

/-- `checkFh` accepts a strictly increasing non-empty list unchanged -/
theorem checkFh_sorted (fh : List Int) (hs : fh.Pairwise (· < ·)) (hne : fh ≠ []) :
    checkFh fh = .ok fh := by
  have hnd : fh.Nodup := nodup_of_strictSorted hs
  have hsort : sortInts fh = fh := sortInts_of_sorted fh (hs.imp (by intro a b h; omega))
  have hlen : fh.length ≠ 0 := by
    intro h; exact hne (List.length_eq_zero_iff.mp h)
  simp [checkFh, FH.checkFh, FH.mk, FH.checkValues, hnd, hsort, Except.map, bind, Except.bind, pure,
    Except.pure, hlen]

theorem fhMax_mem (fh : List Int) (hne : fh ≠ []) : fhMax fh ∈ fh := by
  unfold fhMax
  cases h : fh.getLast? with
  | none => simp [List.getLast?_eq_none_iff] at h; exact absurd h hne
  | some v => simp only [Option.getD_some]; exact List.mem_of_getLast? h

theorem le_fhMax (fh : List Int) (hs : fh.Pairwise (· < ·)) (h : Int) (hh : h ∈ fh) : h ≤ fhMax fh := by
  unfold fhMax
  induction fh with
  | nil => simp at hh
  | cons a l ih =>
    have hp := List.pairwise_cons.mp hs
    cases l with
    | nil => simp at hh; simp [hh]
    | cons b l' =>
      rcases List.mem_cons.mp hh with rfl | hh'
      · have hb := ih hp.2
        have h1 : (b :: l').getLast?.getD 0 ∈ (b :: l') := fhMax_mem (b :: l') (by simp)
        have := hp.1 _ h1
        simp only [List.getLast?_cons_cons]
        omega
      · simp only [List.getLast?_cons_cons]
        exact ih hp.2 hh'

theorem fhMin_le (fh : List Int) (hs : fh.Pairwise (· < ·)) (h : Int) (hh : h ∈ fh) : fhMin fh ≤ h := by
  unfold fhMin
  cases fh with
  | nil => simp at hh
  | cons a l =>
    have hp := List.pairwise_cons.mp hs
    simp only [List.head?_cons, Option.getD_some]
    rcases List.mem_cons.mp hh with rfl | hh'
    · omega
    · have := hp.1 h hh'; omega

theorem allOut_of_pos (fh : List Int) (h : ∀ x ∈ fh, 0 < x) : allOut fh = true := by
  simp only [allOut, List.all_eq_true, decide_eq_true_eq]; exact h

theorem allIn_false_of_pos (fh : List Int) (hne : fh ≠ []) (h : ∀ x ∈ fh, 0 < x) : allIn fh = false := by
  cases fh with
  | nil => exact absurd rfl hne
  | cons a l =>
    have := h a (by simp)
    simp only [allIn, List.all_cons, Bool.and_eq_false_iff, decide_eq_false_iff_not]
    left; omega

end SkVerif.Lem
