/- The closed form of a non-overwriting run, restated in the specification's terms ("exactly the missing ones"). -/
import SkVerif.Lemmas.OrchApi
set_option linter.unusedSectionVars false
namespace SkVerif.Orch.Lem
open SkVerif.Orch SkVerif.Orch.Spec

variable {N K W : Type} [DecidableEq N] [DecidableEq K]
variable (cfg : Cfg N K) (o : Opts)

theorem owed_eq (hd : cfg.disk = true) (hP : o.owP = false) (hF : o.owF = false) (st : St N K W) (it : Item N) :
    callsOf o (flagsOf cfg st it) it = owedCalls cfg o st it ∧
    recsOf cfg o (flagsOf cfg st it) it = owedRecs cfg o st it ∧
    stratsOf cfg o (flagsOf cfg st it) it = owedStrats cfg o st it := by
  unfold callsOf recsOf stratsOf owedCalls owedRecs owedStrats CompleteItem parts skip needTrain needTest needStrat
  simp only [flags_testEx, flags_trainEx, flags_fitEx, hd, hP, hF]
  rcases Bool.eq_false_or_eq_true (has (rk cfg it .test) st.recs) with hte | hte <;>
  rcases Bool.eq_false_or_eq_true (has (rk cfg it .train) st.recs) with htr | htr <;>
  rcases Bool.eq_false_or_eq_true (has (sk cfg it) st.strats) with hs | hs <;>
  rcases Bool.eq_false_or_eq_true o.pot with hpot | hpot <;>
  rcases Bool.eq_false_or_eq_true o.saveF with hsv | hsv <;>
  simp [hte, htr, hs, hpot, hsv]

/-- with `overwrite_predictions` every item gets all its calls, whatever the store holds -/
theorem overwrite_eq (hP : o.owP = true) (f : Flags) (it : Item N) :
    callsOf o f it = allCalls o it ∧ recsOf cfg o f it = (parts o).map (rk cfg it) := by
  unfold callsOf recsOf allCalls parts skip needTrain needTest
  rcases Bool.eq_false_or_eq_true o.pot with hpot | hpot <;> simp [hP, hpot]

/-- on an empty store every item gets all its calls -/
theorem empty_eq (it : Item N) :
    callsOf o (flagsOf cfg (St.empty : St N K W) it) it = allCalls o it ∧
    recsOf cfg o (flagsOf cfg (St.empty : St N K W) it) it = (parts o).map (rk cfg it) := by
  unfold callsOf recsOf allCalls parts skip needTrain needTest flagsOf
  rcases Bool.eq_false_or_eq_true o.pot with hpot | hpot <;> simp [St.empty, has, hpot]

end SkVerif.Orch.Lem
