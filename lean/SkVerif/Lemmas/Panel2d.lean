/- C15: nested / 3-D array <-> 2-D table transport lemmas. -/
import SkVerif.Lemmas.PanelNM
namespace SkVerif.Panel.Lem
open SkVerif.Panel SkVerif.Panel.Spec

variable {ν α : Type}

theorem colMatrix_ok {t : Nat} (k : Bool) (S : List (List α)) (h : ∀ s ∈ S, s.length = t) :
    colMatrix (S.map (mkCell k)) = .ok S := by
  unfold colMatrix
  simp only [bind, Except.bind, mapM_valsE_ok]
  rw [allEq_of_forall (S.map List.length) t (by
    intro x hx
    obtain ⟨s, hs, rfl⟩ := List.mem_map.mp hx
    exact h s hs)]
  rfl

/-- C9: `from_nested_to_2d_array` lays the variables' series side by side -/
theorem fromNestedTo2d_ok (ops : NameOps ν) {n c t : Nat} {X : Arr3 α} (hX : Rect3 n c t X)
    (hn : 0 < n) (hc : 0 < c) (names : List ν) (hl : names.length = c) (k : Bool) (rn : Bool) :
    fromNestedTo2d ops (nestedOf names k X) rn =
      .ok ⟨if rn then none else some (tab2Labels ops names t), tab2Rows X⟩ := by
  have hS := length_transposeW c X (rect_rowsLen hX)
  have hSrows := rowsLen_transposeW c X (rect_rowsLen hX)
  have hcolsSnd := nestedOf_cols_snd hX hn names hl k
  have hcols : (nestedOf names k X).cols = names.zip ((transposeW c X).map (List.map (mkCell k))) := by
    unfold nestedOf; rw [rect_nCols hX hn, map_transposeW]
  have hne : (nestedOf names k X).cols.isEmpty = false := by
    have : (nestedOf names k X).cols.length = c := by rw [hcols]; simp [hS, hl]
    cases h : (nestedOf names k X).cols with
    | nil => rw [h] at this; simp at this; omega
    | cons a l => rfl
  have hmats : (nestedOf names k X).cols.mapM (fun p => colMatrix p.2) = .ok (transposeW c X) := by
    have := mapM_ok (ε := Err) (fun p : ν × List (Cell α) => colMatrix p.2)
      (fun p => p.2.map (fun cell => (cell.vals?).getD [])) (nestedOf names k X).cols (by
        intro p hp
        have hp2 : p.2 ∈ (nestedOf names k X).cols.map (·.2) := List.mem_map_of_mem hp
        rw [hcolsSnd] at hp2
        obtain ⟨Sj, hSj, he⟩ := List.mem_map.mp hp2
        have hSjt : ∀ s ∈ Sj, s.length = t := by
          intro s hs
          obtain ⟨r, hr, hsr⟩ := mem_transposeW c X Sj hSj s hs
          exact (hX.2 r hr).2 s hsr
        rw [← he, colMatrix_ok (t := t) k Sj hSjt]
        simp [List.map_map, Function.comp_def, vals_mkCell])
    rw [this]
    congr 1
    rw [show (fun p : ν × List (Cell α) => p.2.map (fun cell => (cell.vals?).getD []))
      = (fun col => col.map (fun cell => (cell.vals?).getD [])) ∘ (·.2) from rfl, ← List.map_map, hcolsSnd]
    simp [List.map_map, Function.comp_def, vals_mkCell]
  have hrows : (transposeW (nestedOf names k X).nRows (transposeW c X)).map List.flatten = tab2Rows X := by
    rw [nRows_nestedOf hX hn hc names hl k]
    have := transposeW_transposeW c X (rect_rowsLen hX)
    rw [hX.1] at this
    rw [this]; rfl
  have hlabels : (((nestedOf names k X).cols.zip (transposeW c X)).map (fun p =>
      (List.range ((p.2.headD []).length)).map (fun q => ops.sh p.1.1 ++ "__" ++ toString q))).flatten
      = tab2Labels ops names t := by
    unfold tab2Labels
    congr 1
    rw [hcols]
    apply List.ext_getElem
    · simp [hS, hl]
    · intro j h1 h2
      have hj : j < c := by simpa [hS, hl] using h1
      simp only [List.getElem_map, List.getElem_zip]
      have hmem : (transposeW c X)[j]'(by rw [hS]; exact hj) ∈ transposeW c X := List.getElem_mem _
      have hlen : ((transposeW c X)[j]'(by rw [hS]; exact hj)).length = n := by
        rw [hSrows _ hmem, hX.1]
      have hhead : (((transposeW c X)[j]'(by rw [hS]; exact hj)).headD []).length = t := by
        cases hcol : (transposeW c X)[j]'(by rw [hS]; exact hj) with
        | nil => rw [hcol] at hlen; simp at hlen; omega
        | cons s rest =>
          simp only [List.headD_cons]
          obtain ⟨r, hr, hsr⟩ := mem_transposeW c X _ hmem s (by rw [hcol]; simp)
          exact (hX.2 r hr).2 s hsr
      rw [hhead]
  unfold fromNestedTo2d
  simp only [hne, hmats, hrows, bind, Except.bind, pure, Except.pure, Bool.false_eq_true, if_false]
  cases rn with
  | true => rfl
  | false =>
    simp only [Bool.false_eq_true, if_false]
    rw [hlabels]

/-- C11: `from_2d_array_to_nested` makes one variable out of each row (Series or array cells) -/
theorem from2dToNested_ok (ops : NameOps ν) (T : Tab2 α) (hne : T.rows ≠ []) (k : Bool) :
    from2dToNested ops T none k = .ok (nestedOf [ops.zero] k (panelOfRows T.rows)) ∧
    ∀ name, from2dToNested ops T (some [name]) k =
      .ok (nestedOf [name] k (panelOfRows T.rows)) := by
  have hcols : ∀ name : ν, nestedOf [name] k (panelOfRows T.rows)
      = ⟨[(name, T.rows.map (mkCell k))]⟩ := by
    intro name
    have htr : ∀ l : List (List α), transposeW 1 (l.map ((List.map (mkCell k)) ∘ fun r => [r]))
        = [l.map (mkCell k)] := by
      intro l
      induction l with
      | nil => rfl
      | cons a l ih => simp [transposeW, ih]
    cases hr : T.rows with
    | nil => exact absurd hr hne
    | cons r rs =>
      have hnc : nCols (panelOfRows (r :: rs)) = 1 := rfl
      unfold nestedOf
      rw [hnc]
      unfold panelOfRows
      rw [List.map_map, htr (r :: rs)]
      rfl
  constructor
  · simp [from2dToNested, hcols, pure, Except.pure]
  · intro name
    simp [from2dToNested, hcols, pure, Except.pure]

end SkVerif.Panel.Lem
