/-
Lemmas about the .ts parser and writer models (SkVerif/Model/TsFile.lean): how the line loop treats
each kind of line the writer emits, and what a written case line parses to.  Core Lean only.
-/
import SkVerif.Model.TsFile
import SkVerif.Lemmas.TsStr
namespace SkVerif.TsFile.Lem
open SkVerif.TsFile

/-! ### numbers -/

/-- the value a printed token denotes (`nan` placeholder when it is not a number) -/
def tokVal (t : Str) : Num := (floatOf t).getD .nan

theorem floats_nil : floats [] = .ok [] := rfl

theorem floats_cons (t : Str) (ts : List Str) :
    floats (t :: ts) = match floatOf t with
      | none => .error .value
      | some v => match floats ts with
        | .ok vs => .ok (v :: vs)
        | .error e => .error e := by
  simp only [floats, List.mapM_cons, floatE]
  cases floatOf t with
  | none => rfl
  | some v =>
    simp only [bind, Except.bind]
    cases List.mapM floatE ts <;> rfl

/-- `float()` ignores surrounding white space and letter case -/
theorem floatOf_congr {a b : Str} (h : lower (strip a) = lower (strip b)) : floatOf a = floatOf b := by
  simp only [floatOf, h]

theorem floats_congr : ∀ (l1 l2 : List Str),
    l1.map (fun t => lower (strip t)) = l2.map (fun t => lower (strip t)) → floats l1 = floats l2
  | [], [], _ => rfl
  | [], _ :: _, h => by simp at h
  | _ :: _, [], h => by simp at h
  | a :: l1, b :: l2, h => by
    simp only [List.map_cons, List.cons.injEq] at h
    rw [floats_cons, floats_cons, floatOf_congr h.1, floats_congr l1 l2 h.2]

theorem floats_of_valid (toks : List Str) (h : ∀ t ∈ toks, (floatOf t).isSome = true) :
    floats toks = .ok (toks.map tokVal) := by
  induction toks with
  | nil => rfl
  | cons t ts ih =>
    have ht := h t (by simp)
    rw [floats_cons, ih (fun x hx => h x (by simp [hx]))]
    cases hf : floatOf t with
    | none => simp [hf] at ht
    | some v => simp [tokVal, hf]

theorem floatCore_nil : floatCore [] = none := by rfl

/-- a token that is a number is not blank -/
theorem strip_ne_nil_of_float {t : Str} (h : (floatOf t).isSome = true) : strip t ≠ [] := by
  intro e
  simp [floatOf, e, floatCore_nil] at h

/-! ### the line loop -/

theorem run_nil (st : St) : run st [] = .ok st := rfl

theorem run_cons_ok {st st' : St} {l : Str} (ls : List Str) (h : step st l = .ok st') :
    run st (l :: ls) = run st' ls := by
  simp [run, h]

theorem run_cons_error {st : St} {l : Str} {e : Err} (ls : List Str) (h : step st l = .error e) :
    run st (l :: ls) = .error e := by
  simp [run, h]

theorem run_append_ok {st st' : St} {a : List Str} (b : List Str) (h : run st a = .ok st') :
    run st (a ++ b) = run st' b := by
  induction a generalizing st with
  | nil => simp only [run] at h; cases h; rfl
  | cons l ls ih =>
    simp only [List.cons_append, run] at h ⊢
    cases hs : step st l with
    | error e => simp [hs] at h
    | ok s1 => simp only [hs] at h ⊢; exact ih h

/-- a line that is empty or starts with none of the five tags -/
def Skip (l : Str) : Prop :=
  l = [] ∨ (startsWith kwProblemName l = false ∧ startsWith kwTimestamps l = false ∧
            startsWith kwUnivariate l = false ∧ startsWith kwClassLabel l = false ∧
            startsWith kwData l = false)

/-- before `@data`, such a line changes nothing -/
theorem step_skip (st : St) (l : Str) (h : Skip l) (hd : st.dataStarted = false) : step st l = .ok st := by
  rcases h with h | ⟨h1, h2, h3, h4, h5⟩
  · simp [step, h]
  · by_cases hl : l = []
    · simp [step, hl]
    · simp [step, hl, h1, h2, h3, h4, h5, hd]

theorem run_skip (st : St) (ls : List Str) (h : ∀ l ∈ ls, Skip l) (hd : st.dataStarted = false) :
    run st ls = .ok st := by
  induction ls with
  | nil => rfl
  | cons l ls ih =>
    rw [run_cons_ok ls (step_skip st l (h l (by simp)) hd)]
    exact ih (fun x hx => h x (by simp [hx]))

theorem step_problemName (st : St) (l : Str) (hne : l ≠ []) (h1 : startsWith kwProblemName l = true)
    (ht : (splitOn ' ' l).length ≠ 1) (hd : st.dataStarted = false) :
    step st l = .ok { st with hasPN := true, metaStarted := true } := by
  simp [step, hne, h1, ht, hd]

theorem step_timestamps (st : St) (l a b : Str) (v : Bool) (hne : l ≠ [])
    (h1 : startsWith kwProblemName l = false) (h2 : startsWith kwTimestamps l = true)
    (ht : splitOn ' ' l = [a, b]) (hb : parseBoolTok b = some v) (hd : st.dataStarted = false) :
    step st l = .ok { st with timestamps := v, hasTS := true, metaStarted := true } := by
  simp [step, hne, h1, h2, ht, hb, hd]

theorem step_univariate (st : St) (l a b : Str) (v : Bool) (hne : l ≠ [])
    (h1 : startsWith kwProblemName l = false) (h2 : startsWith kwTimestamps l = false)
    (h3 : startsWith kwUnivariate l = true)
    (ht : splitOn ' ' l = [a, b]) (hb : parseBoolTok b = some v) (hd : st.dataStarted = false) :
    step st l = .ok { st with hasUni := true, metaStarted := true } := by
  simp [step, hne, h1, h2, h3, ht, hb, hd]

theorem step_classLabel_true (st : St) (l a b : Str) (rest : List Str) (hne : l ≠ [])
    (h1 : startsWith kwProblemName l = false) (h2 : startsWith kwTimestamps l = false)
    (h3 : startsWith kwUnivariate l = false) (h4 : startsWith kwClassLabel l = true)
    (ht : splitOn ' ' l = a :: b :: rest) (hr : rest ≠ []) (hb : parseBoolTok b = some true)
    (hd : st.dataStarted = false) :
    step st l = .ok { st with classLabels := true, hasCL := true, metaStarted := true } := by
  cases rest with
  | nil => exact absurd rfl hr
  | cons r rs => simp [step, hne, h1, h2, h3, h4, ht, hb, hd]

theorem step_classLabel_false (st : St) (l a b : Str) (hne : l ≠ [])
    (h1 : startsWith kwProblemName l = false) (h2 : startsWith kwTimestamps l = false)
    (h3 : startsWith kwUnivariate l = false) (h4 : startsWith kwClassLabel l = true)
    (ht : splitOn ' ' l = [a, b]) (hb : parseBoolTok b = some false)
    (hd : st.dataStarted = false) :
    step st l = .ok { st with classLabels := false, hasCL := true, metaStarted := true } := by
  simp [step, hne, h1, h2, h3, h4, ht, hb, hd]

theorem step_data (st : St) (hd : st.dataStarted = false) :
    step st kwData = .ok { st with hasData := true, dataStarted := true } := by
  have h1 : startsWith kwProblemName kwData = false := by rfl
  have h2 : startsWith kwTimestamps kwData = false := by rfl
  have h3 : startsWith kwUnivariate kwData = false := by rfl
  have h4 : startsWith kwClassLabel kwData = false := by rfl
  have h5 : startsWith kwData kwData = true := by rfl
  have hne : kwData ≠ [] := by decide
  simp [step, hne, h1, h2, h3, h4, h5, hd]

/-! ### normal form of the header lines the writer emits -/

theorem startsWith_append (p r : Str) : startsWith p (p ++ r) = true := by
  simp [startsWith, List.isPrefixOf_iff_prefix]

theorem rstrip_append_of_ne_nil (a : Str) {x : Str} (h : rstrip x ≠ []) : rstrip (a ++ x) = a ++ rstrip x := by
  induction a with
  | nil => rfl
  | cons c a ih =>
    have : rstrip (a ++ x) ≠ [] := by rw [ih]; simp [h]
    rw [List.cons_append, rstrip_cons_of_ne_nil this, ih]; rfl

theorem rstrip_nonspace_append (p x : Str) (hp : ∀ c ∈ p, isSpace c = false) :
    rstrip (p ++ x) = p ++ rstrip x := by
  induction p with
  | nil => rfl
  | cons c p ih =>
    rw [List.cons_append, rstrip_cons_of_not_space _ (hp c (by simp)), ih (fun d hd => hp d (by simp [hd]))]; rfl

/-- a line that begins with a run `p` of non-blank characters -/
theorem normLine_nonspace_append (p x : Str) (hne : p ≠ []) (hp : ∀ c ∈ p, isSpace c = false) :
    normLine (p ++ x) = lower p ++ lower (rstrip x) := by
  cases p with
  | nil => exact absurd rfl hne
  | cons c p =>
    unfold normLine strip
    rw [List.cons_append, lstrip_cons_of_not_space _ (hp c (by simp)), ← List.cons_append,
      rstrip_nonspace_append _ _ hp, lower_append]

theorem rstrip_ne_nil_of_strip {x : Str} (h : strip x ≠ []) : rstrip x ≠ [] := by
  intro e; exact h (strip_of_rstrip_eq_nil e)

theorem rstrip_space_cons {x : Str} (h : strip x ≠ []) : rstrip (' ' :: x) = ' ' :: rstrip x :=
  rstrip_cons_of_ne_nil (rstrip_ne_nil_of_strip h)

def sProblemName : Str := "@problemName".toList
def sSeriesLength : Str := "@seriesLength".toList
def sClassLabel : Str := "@classLabel".toList

theorem nonspace_sProblemName : ∀ c ∈ sProblemName, isSpace c = false := by decide
theorem nonspace_sSeriesLength : ∀ c ∈ sSeriesLength, isSpace c = false := by decide
theorem nonspace_sClassLabel : ∀ c ∈ sClassLabel, isSpace c = false := by decide

/-- comment lines -/
theorem skip_hash (r : Str) : Skip (normLine ('#' :: r)) := by
  have : normLine ('#' :: r) = '#' :: lower (rstrip r) :=
    normLine_nonspace_append ['#'] r (by simp) (by decide)
  rw [this]
  exact Or.inr ⟨by rfl, by rfl, by rfl, by rfl, by rfl⟩

/-- `@seriesLength <anything>` -/
theorem skip_seriesLength (x : Str) : Skip (normLine ("@seriesLength ".toList ++ x)) := by
  have e : "@seriesLength ".toList ++ x = sSeriesLength ++ (' ' :: x) := by rfl
  rw [e, normLine_nonspace_append _ _ (by decide) nonspace_sSeriesLength]
  exact Or.inr ⟨by rfl, by rfl, by rfl, by rfl, by rfl⟩

theorem skip_equalLength : Skip (normLine "@equalLength true".toList) :=
  Or.inr ⟨by rfl, by rfl, by rfl, by rfl, by rfl⟩

theorem step_written_problemName (st : St) (name : Str) (hn : strip name ≠ []) (hd : st.dataStarted = false) :
    step st (normLine ("@problemName ".toList ++ name)) = .ok { st with hasPN := true, metaStarted := true } := by
  have e : "@problemName ".toList ++ name = sProblemName ++ (' ' :: name) := by rfl
  have hl : lower sProblemName = kwProblemName := by rfl
  rw [e, normLine_nonspace_append _ _ (by decide) nonspace_sProblemName, rstrip_space_cons hn, hl]
  refine step_problemName st _ ?_ (startsWith_append _ _) ?_ hd
  · exact List.append_ne_nil_of_left_ne_nil (by decide) _
  · have hs : ' ' ∉ kwProblemName := by decide
    rw [lower_cons, (show lowerChar ' ' = ' ' from rfl), splitOn_append_sep ' ' _ _ hs]
    have := length_splitOn_pos ' ' (lower (rstrip name))
    simp only [List.length_cons]; omega

theorem step_written_timestamps (st : St) (hd : st.dataStarted = false) :
    step st (normLine ("@timeStamps ".toList ++ boolStr false))
      = .ok { st with timestamps := false, hasTS := true, metaStarted := true } :=
  step_timestamps st _ kwTimestamps sFalse false (by decide) (by rfl) (by rfl) (by rfl) (by rfl) hd

theorem step_written_univariate (st : St) (hd : st.dataStarted = false) :
    step st (normLine ("@univariate ".toList ++ boolStr true))
      = .ok { st with hasUni := true, metaStarted := true } :=
  step_univariate st _ kwUnivariate sTrue true (by decide) (by rfl) (by rfl) (by rfl) (by rfl) (by rfl) hd

theorem step_written_classLabel (st : St) (J : Str) (hJ : strip J ≠ []) (hd : st.dataStarted = false) :
    step st (normLine ("@classLabel true ".toList ++ J))
      = .ok { st with classLabels := true, hasCL := true, metaStarted := true } := by
  have e : "@classLabel true ".toList ++ J = sClassLabel ++ (" true ".toList ++ J) := by rfl
  have hl : lower sClassLabel = kwClassLabel := by rfl
  have hr : rstrip (" true ".toList ++ J) = " true ".toList ++ rstrip J :=
    rstrip_append_of_ne_nil _ (rstrip_ne_nil_of_strip hJ)
  rw [e, normLine_nonspace_append _ _ (by decide) nonspace_sClassLabel, hr, hl, lower_append]
  have e2 : kwClassLabel ++ (lower " true ".toList ++ lower (rstrip J))
      = kwClassLabel ++ ' ' :: (sTrue ++ ' ' :: lower (rstrip J)) := by rfl
  rw [e2]
  have hs1 : ' ' ∉ kwClassLabel := by decide
  have hs2 : ' ' ∉ sTrue := by decide
  refine step_classLabel_true st _ kwClassLabel sTrue (splitOn ' ' (lower (rstrip J))) ?_ (by rfl) (by rfl) (by rfl)
    (startsWith_append _ _) ?_ (splitOn_ne_nil _ _) (by rfl) hd
  · exact List.append_ne_nil_of_left_ne_nil (by decide) _
  · rw [splitOn_append_sep ' ' _ _ hs1, splitOn_append_sep ' ' _ _ hs2]

theorem step_written_classLabel_false (st : St) (hd : st.dataStarted = false) :
    step st (normLine noLabelLine)
      = .ok { st with classLabels := false, hasCL := true, metaStarted := true } :=
  step_classLabel_false st _ kwClassLabel sFalse (by decide) (by rfl) (by rfl) (by rfl) (by rfl) (by rfl) (by rfl) hd

theorem normLine_data : normLine "@data".toList = kwData := by rfl

/-! ### case lines -/

/-- all five tags seen, no timestamps, class labels flag = `cl` -/
structure Ready (st : St) (cl : Bool) : Prop where
  hPN : st.hasPN = true
  hTS : st.hasTS = true
  hUni : st.hasUni = true
  hCL : st.hasCL = true
  hData : st.hasData = true
  hts : st.timestamps = false
  hcl : st.classLabels = cl
  hmeta : st.metaStarted = true
  hstarted : st.dataStarted = true

/-- `Ready` and at least one case read: one dimension holding `acc`, labels `labels` -/
structure Loaded (st : St) (cl : Bool) (acc : List Series) (labels : List Str) : Prop where
  ready : Ready st cl
  hnd : st.numDims = some 1
  hinst : st.inst = [acc]
  hlabels : st.labels = labels

/-- nothing read yet -/
structure Fresh (st : St) (cl : Bool) : Prop where
  ready : Ready st cl
  hnd : st.numDims = none
  hinst : st.inst = []
  hlabels : st.labels = []

theorem dataLine_two (st : St) (line d0 d1 : Str) (row : Series) (acc : List Series)
    (hr : Ready st true) (hq : replaceQ line = line) (hd : splitOn ':' line = [d0, d1])
    (hs : seriesOf d0 = .ok row)
    (hnd : (st.numDims = none ∧ st.inst = [] ∧ acc = []) ∨ (st.numDims = some 1 ∧ st.inst = [acc])) :
    dataLine st line = .ok { st with numDims := some 1, inst := [acc ++ [row]],
                                     labels := st.labels ++ [strip d1] } := by
  rcases hnd with ⟨h1, h2, h3⟩ | ⟨h1, h2⟩
  · subst h3
    simp [dataLine, hr.hPN, hr.hTS, hr.hUni, hr.hCL, hr.hData, hr.hts, hr.hcl, hq, hd, hs, h1,
      appendRow, bind, Except.bind, pure, Except.pure]
  · simp [dataLine, hr.hPN, hr.hTS, hr.hUni, hr.hCL, hr.hData, hr.hts, hr.hcl, hq, hd, hs, h1, h2,
      appendRow, bind, Except.bind, pure, Except.pure]

theorem dataLine_one (st : St) (line d0 : Str) (row : Series) (acc : List Series)
    (hr : Ready st false) (hq : replaceQ line = line) (hd : splitOn ':' line = [d0])
    (hs : seriesOf d0 = .ok row)
    (hnd : (st.numDims = none ∧ st.inst = [] ∧ acc = []) ∨ (st.numDims = some 1 ∧ st.inst = [acc])) :
    dataLine st line = .ok { st with numDims := some 1, inst := [acc ++ [row]] } := by
  rcases hnd with ⟨h1, h2, h3⟩ | ⟨h1, h2⟩
  · subst h3
    simp [dataLine, hr.hPN, hr.hTS, hr.hUni, hr.hCL, hr.hData, hr.hts, hr.hcl, hq, hd, hs, h1,
      appendRow, bind, Except.bind, pure, Except.pure]
  · simp [dataLine, hr.hPN, hr.hTS, hr.hUni, hr.hCL, hr.hData, hr.hts, hr.hcl, hq, hd, hs, h1, h2,
      appendRow, bind, Except.bind, pure, Except.pure]

/-- a printed token: a number, free of the characters the format reserves -/
structure ValidTok (t : Str) : Prop where
  noComma : ',' ∉ t
  noColon : ':' ∉ t
  noQ : '?' ∉ t
  noNl : '\n' ∉ t
  isNum : (floatOf t).isSome = true

/-- a class value the format can carry -/
structure ValidLabel (l : Str) : Prop where
  noColon : ':' ∉ l
  noQ : '?' ∉ l
  noNl : '\n' ∉ l

theorem isSpace_colon : isSpace ':' = false := by decide
theorem isSpace_comma : isSpace ',' = false := by decide

theorem strip_join_ne_nil {toks : List Str} (hne : toks ≠ []) (hv : ∀ t ∈ toks, ValidTok t) :
    strip (join [','] toks) ≠ [] := by
  cases toks with
  | nil => exact absurd rfl hne
  | cons t ts =>
    have h1 := strip_ne_nil_of_float (hv t (by simp)).isNum
    have : ∃ c ∈ t, isSpace c = false := by
      apply Classical.byContradiction
      intro hno
      apply h1
      apply strip_eq_nil.mpr
      intro c hc
      cases hsp : isSpace c with
      | true => rfl
      | false => exact absurd ⟨c, hc, hsp⟩ hno
    obtain ⟨c, hc, hsp⟩ := this
    exact strip_ne_nil_of_mem (mem_join_of_mem (List.mem_cons_self) hc) hsp

/-- the series part of a written case line parses to the values its tokens denote -/
theorem seriesOf_written (toks : List Str) (d0 : Str) (hne : toks ≠ []) (hv : ∀ t ∈ toks, ValidTok t)
    (hd0 : strip d0 = lower (strip (join [','] toks))) : seriesOf d0 = .ok (toks.map tokVal) := by
  have hA := strip_join_ne_nil hne hv
  have hne' : strip d0 ≠ [] := by rw [hd0]; intro e; exact hA (lower_eq_nil.mp e)
  simp only [seriesOf, hne', if_false]
  rw [hd0, ← floats_of_valid toks (fun t ht => (hv t ht).isNum)]
  apply floats_congr
  rw [splitOn_lower fixed_comma, List.map_map]
  have e1 : ((fun t => lower (strip t)) ∘ lower) = (lower ∘ strip) := by
    funext t; simp [strip_lower, lower_idem]
  rw [e1, ← List.map_map, map_strip_splitOn_strip isSpace_comma,
    splitOn_join ',' toks hne (fun t ht => (hv t ht).noComma), List.map_map]
  rfl

theorem not_mem_normLine {x : Char} (hx : Fixed x) {s : Str} (h : x ∉ s) : x ∉ normLine s := by
  intro hm
  exact h (mem_strip ((mem_lower_fixed hx _).mp hm))

theorem map_strip_map_lower (l : List Str) : (l.map lower).map strip = (l.map strip).map lower := by
  simp [List.map_map, Function.comp_def, strip_lower]

/-- what a labelled case line written by the writer looks like to the parser -/
theorem written_line_two (toks : List Str) (lab : Str) (hne : toks ≠ []) (hv : ∀ t ∈ toks, ValidTok t)
    (hl : ValidLabel lab) :
    replaceQ (normLine (join [','] toks ++ ':' :: lab)) = normLine (join [','] toks ++ ':' :: lab) ∧
    ∃ d0 d1, splitOn ':' (normLine (join [','] toks ++ ':' :: lab)) = [d0, d1] ∧
      seriesOf d0 = .ok (toks.map tokVal) ∧ strip d1 = lower (strip lab) := by
  have hcA : ':' ∉ join [','] toks := not_mem_join (by decide) (fun t ht => (hv t ht).noColon)
  have hqA : '?' ∉ join [','] toks := not_mem_join (by decide) (fun t ht => (hv t ht).noQ)
  constructor
  · apply replaceQ_of_not_mem
    apply not_mem_normLine fixed_qmark
    simp only [List.mem_append, List.mem_cons, not_or]
    exact ⟨hqA, by decide, hl.noQ⟩
  · have hD : (splitOn ':' (normLine (join [','] toks ++ ':' :: lab))).map strip
        = [lower (strip (join [','] toks)), lower (strip lab)] := by
      unfold normLine
      rw [splitOn_lower fixed_colon, map_strip_map_lower, map_strip_splitOn_strip isSpace_colon,
        splitOn_append_sep ':' _ _ hcA, splitOn_of_not_mem ':' lab hl.noColon]
      rfl
    match hS : splitOn ':' (normLine (join [','] toks ++ ':' :: lab)), hD with
    | [d0, d1], hD =>
      simp only [List.map_cons, List.map_nil, List.cons.injEq, and_true] at hD
      exact ⟨d0, d1, rfl, seriesOf_written toks d0 hne hv hD.1, hD.2⟩
    | [], hD => simp at hD
    | [_], hD => simp at hD
    | _ :: _ :: _ :: _, hD => simp at hD

/-- … and an unlabelled one -/
theorem written_line_one (toks : List Str) (hne : toks ≠ []) (hv : ∀ t ∈ toks, ValidTok t) :
    replaceQ (normLine (join [','] toks)) = normLine (join [','] toks) ∧
    ∃ d0, splitOn ':' (normLine (join [','] toks)) = [d0] ∧ seriesOf d0 = .ok (toks.map tokVal) := by
  have hcA : ':' ∉ join [','] toks := not_mem_join (by decide) (fun t ht => (hv t ht).noColon)
  have hqA : '?' ∉ join [','] toks := not_mem_join (by decide) (fun t ht => (hv t ht).noQ)
  constructor
  · exact replaceQ_of_not_mem (not_mem_normLine fixed_qmark hqA)
  · have hD : (splitOn ':' (normLine (join [','] toks))).map strip = [lower (strip (join [','] toks))] := by
      unfold normLine
      rw [splitOn_lower fixed_colon, map_strip_map_lower, map_strip_splitOn_strip isSpace_colon,
        splitOn_of_not_mem ':' _ hcA]
      rfl
    match hS : splitOn ':' (normLine (join [','] toks)), hD with
    | [d0], hD =>
      simp only [List.map_cons, List.map_nil, List.cons.injEq, and_true] at hD
      exact ⟨d0, rfl, seriesOf_written toks d0 hne hv hD⟩
    | [], hD => simp at hD
    | _ :: _ :: _, hD => simp at hD

end SkVerif.TsFile.Lem
