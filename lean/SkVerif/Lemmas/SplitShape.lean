import SkVerif.Lemmas.Split
import SkVerif.Spec.Split
namespace SkVerif.Lem
open SkVerif SkVerif.Split SkVerif.Split.Spec

theorem validate_ok {k n wl step fh iw sww} (v : Valid k n wl step fh iw sww) :
    validate n fh wl step iw = .ok fh := by
  have h1 : ¬ step < 1 := by have := v.step_pos; omega
  have h2 : ¬ wl < 1 := by have := v.wl_pos; omega
  have h3 : ¬ wl + fhMax fh > n := by have := v.fits; omega
  cases iw with
  | none =>
    simp [validate, h1, h2, h3, checkFh_sorted fh v.sorted v.nonempty, bind, Except.bind, pure, Except.pure]
  | some i =>
    obtain ⟨_, _, hi1, hi2⟩ := v.iw_ok i rfl
    have h4 : ¬ i < 1 := by have := v.wl_pos; omega
    have h5 : ¬ i + fhMax fh > n := by omega
    simp [validate, h1, h2, h3, h4, h5, checkFh_sorted fh v.sorted v.nonempty, bind, Except.bind, pure,
      Except.pure]

theorem getStart_valid {k n wl step fh iw sww} (v : Valid k n wl step fh iw sww) :
    getStart fh wl step iw sww = firstCutoff wl step iw sww + 1 := by
  have := allOut_of_pos fh v.pos
  cases sww <;> cases iw <;> simp [getStart, firstCutoff, this]

theorem getEnd_valid {k n wl step fh iw sww} (v : Valid k n wl step fh iw sww) :
    getEnd n fh = n - fhMax fh + 1 := by
  simp [getEnd, allIn_false_of_pos fh v.nonempty v.pos]

theorem firstCutoff_ge {k n wl step fh iw sww} (v : Valid k n wl step fh iw sww) :
    -1 ≤ firstCutoff wl step iw sww := by
  have := v.wl_pos; have := v.step_pos
  cases sww <;> cases iw with
  | none => simp [firstCutoff]; try omega
  | some i =>
    simp [firstCutoff]
    try (obtain ⟨_, _, hi1, _⟩ := v.iw_ok i rfl; omega)

theorem nonneg_test (fh : List Int) (hpos : ∀ h ∈ fh, 0 < h) (sp : Int) (hsp : 0 ≤ sp) :
    nonneg (fh.map (fun h => sp + h - 1)) = fh.map (fun h => sp - 1 + h) := by
  rw [nonneg_id]
  · apply List.map_congr_left; intro h _; omega
  · intro x hx
    obtain ⟨h, hh, rfl⟩ := List.mem_map.mp hx
    have := hpos h hh; omega

/-- the regular windows, filtered, are the specified folds -/
theorem windows_filtered {k n wl step fh iw sww} (v : Valid k n wl step fh iw sww) :
    filterFolds (windows k (firstCutoff wl step iw sww + 1) (n - fhMax fh + 1) step wl fh) =
      (cutoffs n wl step fh iw sww).map (fold k wl fh) := by
  unfold filterFolds windows cutoffs
  rw [List.map_map, List.map_map]
  apply List.map_congr_left
  intro sp hsp
  have hge := firstCutoff_ge v
  have hmem := (pyRange_mem_pos _ _ _ sp (by have := v.step_pos; omega)).mp hsp
  have hsp0 : 0 ≤ sp := by omega
  simp only [Function.comp, fold]
  congr 1
  · cases k with
    | sliding =>
      simp only [train]
      rw [nonneg_arange]
      have e1 : sp - 1 + 1 - wl = sp - wl := by omega
      have e2 : sp - 1 + 1 = sp := by omega
      rw [e1, e2]
    | expanding =>
      simp only [train]
      rw [nonneg_arange]
      have e2 : sp - 1 + 1 = sp := by omega
      rw [e2]
      have : max (firstCutoff wl step iw sww + 1 - wl) 0 = 0 := by
        have hwl := v.wl_pos
        cases sww <;> cases iw with
        | none => simp [firstCutoff]; try omega
        | some i =>
          first
          | (have := (v.iw_ok i rfl).1; cases this)
          | (simp [firstCutoff]; omega)
      rw [this]
  · exact nonneg_test fh v.pos sp hsp0

end SkVerif.Lem

namespace SkVerif.Lem
open SkVerif SkVerif.Split SkVerif.Split.Spec

/-- main structural lemma: a valid window splitter yields exactly the specified folds -/
theorem windowSplit_valid {k n wl step fh iw sww} (v : Valid k n wl step fh iw sww) :
    windowSplit k n fh wl step iw sww = .ok (folds k n wl step fh iw sww) := by
  unfold windowSplit windowSplitRaw
  rw [validate_ok v]
  simp only [bind, Except.bind]
  rw [getStart_valid v, getEnd_valid v]
  cases hiw : iw with
  | none =>
    subst hiw
    simp only [pure, Except.pure, Except.map, List.nil_append, folds, initialFold]
    rw [windows_filtered v]
  | some i =>
    subst hiw
    obtain ⟨hk, hs, hi1, hi2⟩ := v.iw_ok i rfl
    subst hs
    have hle : ¬ i ≤ wl := by omega
    have hout := allOut_of_pos fh v.pos
    simp only [Bool.not_true, Bool.false_eq_true, ↓reduceIte, hle, hout, Bool.false_and, pure,
      Except.pure, Except.map, Int.zero_add, folds, initialFold]
    congr 1
    have hf : filterFolds ([(arange 0 i, fh.map (fun h => i + h - 1))] ++
        windows k (firstCutoff wl step (some i) true + 1) (n - fhMax fh + 1) step wl fh) =
        filterFolds [(arange 0 i, fh.map (fun h => i + h - 1))] ++
        filterFolds (windows k (firstCutoff wl step (some i) true + 1) (n - fhMax fh + 1) step wl fh) := by
      simp [filterFolds]
    rw [hf, windows_filtered v]
    congr 1
    simp only [filterFolds, List.map_cons, List.map_nil]
    rw [nonneg_arange, nonneg_test fh v.pos i (by have := v.wl_pos; omega)]
    simp

theorem windowCutoffs_valid {k n wl step fh iw sww} (v : Valid k n wl step fh iw sww) :
    windowCutoffs n fh wl step iw sww = .ok (allCutoffs n wl step fh iw sww) := by
  unfold windowCutoffs
  rw [checkFh_sorted fh v.sorted v.nonempty]
  have h1 : ¬ step < 1 := by have := v.step_pos; omega
  simp only [bind, Except.bind, h1, ↓reduceIte, pure, Except.pure]
  rw [getEnd_valid v]
  cases hiw : iw with
  | none =>
    subst hiw
    simp only [allCutoffs, List.nil_append, cutoffs]
    rw [getStart_valid v]
  | some i =>
    subst hiw
    obtain ⟨hk, hs, hi1, hi2⟩ := v.iw_ok i rfl
    subst hs
    simp only [allCutoffs, cutoffs, firstCutoff, ↓reduceIte]
    rw [pyRange_cons i _ step (by have := v.step_pos; omega) (by omega)]
    simp only [List.map_cons, List.singleton_append]
    have : i + step - 1 + 1 = i + step := by omega
    rw [this]

end SkVerif.Lem
