/- C17 helper lemmas: STSF's alignment of a narrow tree's columns (fix 47093f5), member weights (fix 94648e4). -/
import SkVerif.Lemmas.ProbaVotes
namespace SkVerif.C17.Lem
open SkVerif.C17

theorem mapM_ok_of_forall {α β} (f : α → Except Err β) (P : β → Prop) (l : List α)
    (h : ∀ a ∈ l, ∃ b, f a = .ok b ∧ P b) : ∃ bs, l.mapM f = .ok bs ∧ bs.length = l.length ∧ ∀ b ∈ bs, P b := by
  induction l with
  | nil => exact ⟨[], rfl, rfl, by simp⟩
  | cons a l ih =>
    obtain ⟨b, hb, hP⟩ := h a (by simp)
    obtain ⟨bs, hbs, hl, hPs⟩ := ih (fun x hx => h x (List.mem_cons_of_mem _ hx))
    refine ⟨b :: bs, ?_, by simp [hl], ?_⟩
    · rw [List.mapM_cons, hb, hbs]; rfl
    · intro x hx
      rcases List.mem_cons.mp hx with rfl | hx
      · exact hP
      · exact hPs x hx

theorem set_sum (l : Row) (j : Nat) (v : Rat) (h : j < l.length) : (l.set j v).sum = l.sum - l.getD j 0 + v := by
  induction l generalizing j with
  | nil => simp at h
  | cons a l ih =>
    cases j with
    | zero => simp; ring
    | succ j =>
      have := ih j (by simpa using h)
      simp only [List.set_cons_succ, List.sum_cons, this, List.getD_cons_succ]
      ring

theorem getD_set_ne (l : Row) (i j : Nat) (v : Rat) (h : i ≠ j) : (l.set i v).getD j 0 = l.getD j 0 := by
  simp [List.getD_eq_getElem?_getD, List.getElem?_set_ne h]

theorem scatter_ok {K : Nat} (classes : List Label) (hK : classes.length = K) (mc : List Label) (vs acc : Row) (c : Rat)
    (hnd : mc.Nodup) (hsub : ∀ x ∈ mc, x ∈ classes) (hlen : vs.length = mc.length) (hvs : ∀ x ∈ vs, 0 ≤ x)
    (hacc : RowOK K c acc) (hzero : ∀ x ∈ mc, ∀ j, idxOf classes x = some j → acc.getD j 0 = 0) :
    ∃ r, scatter classes mc vs acc = .ok r ∧ RowOK K (c + vs.sum) r := by
  induction mc generalizing vs acc c with
  | nil =>
    have : vs = [] := by simpa using hlen
    subst this
    exact ⟨acc, rfl, by simpa using hacc⟩
  | cons cls mc ih =>
    cases vs with
    | nil => simp at hlen
    | cons v vs =>
      obtain ⟨j, hj⟩ := idxOf_of_mem (hsub cls (by simp))
      have hjK : j < K := hK ▸ idxOf_lt hj
      obtain ⟨hl, hnn, hs⟩ := hacc
      have hv : 0 ≤ v := hvs v (by simp)
      have hnd' := List.nodup_cons.mp hnd
      have hacc' : RowOK K (c + v) (acc.set j v) := by
        refine ⟨by simp [hl], ?_, ?_⟩
        · intro x hx
          rcases List.mem_or_eq_of_mem_set hx with hx | rfl
          · exact hnn x hx
          · exact hv
        · rw [set_sum acc j v (by omega), hs, hzero cls (by simp) j hj]; ring
      have hzero' : ∀ x ∈ mc, ∀ j', idxOf classes x = some j' → (acc.set j v).getD j' 0 = 0 := by
        intro x hx j' hj'
        have hne : j ≠ j' := by
          intro e; subst e
          have h1 := idxOf_some hj
          have h2 := idxOf_some hj'
          rw [h1] at h2
          have : cls = x := by simpa using h2
          subst this
          exact hnd'.1 hx
        rw [getD_set_ne _ _ _ _ hne]
        exact hzero x (List.mem_cons_of_mem _ hx) j' hj'
      obtain ⟨r, hr, hok⟩ := ih vs (acc.set j v) (c + v) hnd'.2 (fun x hx => hsub x (List.mem_cons_of_mem _ hx))
        (by simpa using hlen) (fun x hx => hvs x (List.mem_cons_of_mem _ hx)) hacc' hzero'
      refine ⟨r, by simp only [scatter, hj]; exact hr, ?_⟩
      have e : c + (v :: vs).sum = c + v + vs.sum := by simp only [List.sum_cons]; ring
      rw [e]; exact hok

theorem replicate_zero_ok (K : Nat) : RowOK K 0 (List.replicate K 0) := by
  have := zeros_ok K
  simpa [zeros] using this

theorem alignRow_ok (classes mc : List Label) (row : Row) (hnd : mc.Nodup) (hsub : ∀ x ∈ mc, x ∈ classes)
    (hlen : row.length = mc.length) (hd : Spec.IsDist row) :
    ∃ r, alignRow classes mc row = .ok r ∧ RowOK classes.length 1 r := by
  unfold alignRow
  split
  · rename_i h
    exact ⟨row, rfl, rowOK_of_isDist h hd⟩
  · obtain ⟨r, hr, hok⟩ := scatter_ok classes rfl mc row (List.replicate classes.length 0) 0 hnd hsub hlen
      (fun x hx => (hd.1 x hx).1) (replicate_zero_ok _) (by
        intro x _ j _
        by_cases hj : j < classes.length
        · simp [List.getD_eq_getElem?_getD, hj]
        · simp [List.getD_eq_getElem?_getD, List.getElem?_eq_none (by simpa using hj : (List.replicate classes.length (0:Rat)).length ≤ j)])
    refine ⟨r, hr, ?_⟩
    rw [hd.2, zero_add] at hok
    exact hok

theorem memberWeight_pos (acc : Rat) : 0 < memberWeight acc := by
  unfold memberWeight
  have h : 0 ≤ acc * acc * acc * acc := by
    have : acc * acc * acc * acc = (acc * acc) * (acc * acc) := by ring
    rw [this]; exact mul_self_nonneg _
  simp only
  split
  · unfold weightFloor; norm_num
  · rename_i hne
    exact lt_of_le_of_ne h (Ne.symm hne)

theorem sum_pos_of_pos (l : List Rat) (hne : l ≠ []) (h : ∀ x ∈ l, 0 < x) : 0 < l.sum := by
  cases l with
  | nil => exact absurd rfl hne
  | cons a l =>
    have ha := h a (by simp)
    have hl : 0 ≤ l.sum := sum_nonneg' (fun x hx => le_of_lt (h x (List.mem_cons_of_mem _ hx)))
    simp only [List.sum_cons]; linarith

end SkVerif.C17.Lem
