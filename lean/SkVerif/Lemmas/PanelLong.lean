/- C15: nested <-> long transport lemmas (column names in sorted order). -/
import SkVerif.Lemmas.PanelPivot
namespace SkVerif.Panel.Lem
open SkVerif SkVerif.Panel SkVerif.Panel.Spec

variable {ν α : Type}

/-- C7: `from_nested_to_long` melts the multi-index frame of the same panel -/
theorem fromNestedToLong_ok (reserved : ν → Bool) {n c t : Nat} {X : Arr3 α} (hX : Rect3 n c t X)
    (hn : 0 < n) (hc : 0 < c) (names : List ν) (hl : names.length = c) (k : Bool)
    (hres : names.any reserved = false) (i tm d : Option String) :
    fromNestedToLong reserved (nestedOf names k X) i tm d =
      .ok ⟨i.getD "index", tm.getD "time_index", d.getD "column", longRowsM names X⟩ := by
  unfold fromNestedToLong
  rw [fromNestedToMI_ok hX hn hc names hl k (some "index") (some "time_index")]
  simp only [bind, Except.bind, miOf, hres, Bool.false_eq_true, if_false, pure, Except.pure, Option.getD]
  rfl

theorem renamed_nestedOf {n c t : Nat} {X : Arr3 α} (hX : Rect3 n c t X) (hn : 0 < n)
    (names names' : List ν) (hl : names.length = c) (k : Bool) :
    (⟨names'.zip ((nestedOf names k X).cols.map (·.2))⟩ : Nested ν α) = nestedOf names' k X := by
  rw [nestedOf_cols_snd hX hn names hl k]
  unfold nestedOf
  rw [rect_nCols hX hn, map_transposeW]

theorem miRows_rowsLen {n c t : Nat} {X : Arr3 α} (hX : Rect3 n c t X) (hn : 0 < n) (hc : 0 < c) :
    ∀ r ∈ miRows X, r.2.length = c := by
  intro r hr
  have : r.2 ∈ (miRows X).map (·.2) := List.mem_map_of_mem hr
  rw [miRows_vals, rect_nTime hX hn hc] at this
  simp only [List.mem_flatten, List.mem_map] at this
  obtain ⟨l, ⟨inst, hinst, rfl⟩, hr2⟩ := this
  have h := hX.2 inst hinst
  rw [rowsLen_transposeW t inst h.2 _ hr2, h.1]

theorem miRows_ne_nil {n c t : Nat} {X : Arr3 α} (hX : Rect3 n c t X) (hn : 0 < n) (hc : 0 < c)
    (ht : 0 < t) : miRows X ≠ [] := by
  intro h
  have := congrArg (fun l => (l.map (·.1.1)).eraseDups.length) h
  simp only [instIds_miRows hX hn hc ht] at this
  simp at this; omega

/-- C8 (names in sorted order): `from_long_to_nested` on the long table of `X` gives the nested
frame (Series cells) holding `X`, labelled with the identifiers or the names supplied -/
theorem fromLongToNested_sorted_ok [DecidableEq ν] (ops : NameOps ν) {n c t : Nat} {X : Arr3 α}
    (hX : Rect3 n c t X) (hn : 0 < n) (hc : 0 < c) (ht : 0 < t) (names : List ν)
    (hl : names.length = c) (hnn : names.Nodup)
    (hns : names.Pairwise (fun a b => (!ops.lt b a) = true))
    (li ltm ld : String) (hne : li ≠ ltm) (names' : List ν) (hl' : names'.length = c) :
    fromLongToNested ops ⟨li, ltm, ld, longRowsM names X⟩ li ltm ld (some names') =
      .ok (nestedOf names' false X) ∧
    fromLongToNested ops ⟨li, ltm, ld, longRowsM names X⟩ li ltm ld none =
      .ok (nestedOf names false X) := by
  have hents : (longRowsM names X).map (fun r => (((r.1, r.2.1), r.2.2.1), r.2.2.2))
      = melt names (miRows X) := by
    unfold longRowsM
    rw [List.map_map]
    conv => rhs; rw [← List.map_id (melt names (miRows X))]
    apply List.map_congr_left
    intro e _
    rfl
  have hkeys := miRows_keys_sorted hX hn hc
  have hpiv : pivot ops.lt (longRowsM names X) = .ok (names, miRows X) := by
    unfold pivot
    rw [hents]
    apply pivotE_melt keyLe ops.lt names (miRows X)
    · intro r hr; rw [hl]; exact miRows_rowsLen hX hn hc r hr
    · exact hnn
    · exact hns
    · exact hkeys.imp (fun {a b} h => ne_of_keyLt a b h)
    · exact hkeys.imp (fun {a b} h => keyLe_of_keyLt a b h)
    · exact miRows_ne_nil hX hn hc ht
    · intro h; rw [h] at hl; simp at hl; omega
  have hmn := fromMIToNested_ok hX hn hc ht li ltm hne names hl hnn false
  have hclen : (nestedOf names false X).cols.length = c := by
    have := congrArg List.length (nestedOf_names hX hn names hl false)
    simpa [Nested.names, hl] using this
  have hmem : li ∈ [li, ltm, ld, "value"] ∧ ltm ∈ [li, ltm, ld, "value"] ∧ ld ∈ [li, ltm, ld, "value"] := by
    simp
  constructor
  · unfold fromLongToNested
    simp only [hmem, and_self, not_true_eq_false, if_false, if_true, bind, Except.bind, pure,
      Except.pure, hpiv]
    unfold miOf at hmn
    simp only [hmn, hclen, hl', if_true]
    rw [renamed_nestedOf hX hn names names' hl false]
  · unfold fromLongToNested
    simp only [hmem, and_self, not_true_eq_false, if_false, if_true, bind, Except.bind, pure,
      Except.pure, hpiv]
    unfold miOf at hmn
    simp only [hmn]

/-! ### arbitrary (distinct) names: the variables come back in sorted-name order -/

theorem sortedVars_perm (lt : ν → ν → Bool) {n c t : Nat} {X : Arr3 α} (hX : Rect3 n c t X)
    (hn : 0 < n) (names : List ν) :
    (sortedVars lt names X).Perm (names.zip (transposeW c X)) := by
  unfold sortedVars
  rw [rect_nCols hX hn]
  exact SkVerif.Lem.isortBy_perm _ _

theorem sortVarsNames_perm (lt : ν → ν → Bool) {n c t : Nat} {X : Arr3 α} (hX : Rect3 n c t X)
    (hn : 0 < n) (names : List ν) (hl : names.length = c) :
    (sortVarsNames lt names X).Perm names := by
  have := (sortedVars_perm lt hX hn names).map (·.1)
  rwa [List.map_fst_zip (by rw [length_transposeW c X (rect_rowsLen hX), hl]; exact Nat.le_refl _)] at this

theorem sortedVars_snd_mem (lt : ν → ν → Bool) {n c t : Nat} {X : Arr3 α} (hX : Rect3 n c t X)
    (hn : 0 < n) (names : List ν) :
    ∀ S ∈ (sortedVars lt names X).map (·.2), S ∈ transposeW c X := by
  intro S hS
  obtain ⟨p, hp, rfl⟩ := List.mem_map.mp hS
  exact (List.of_mem_zip ((sortedVars_perm lt hX hn names).mem_iff.mp hp)).2

/-- the rearranged panel is again an `n × c × t` panel -/
theorem rect_sortVarsPanel (lt : ν → ν → Bool) {n c t : Nat} {X : Arr3 α} (hX : Rect3 n c t X)
    (hn : 0 < n) (names : List ν) (hl : names.length = c) :
    Rect3 n c t (sortVarsPanel lt names X) := by
  have hmem := sortedVars_snd_mem lt hX hn names
  have hSrows := rowsLen_transposeW c X (rect_rowsLen hX)
  have hR : RowsLen n ((sortedVars lt names X).map (·.2)) := by
    intro S hS; rw [hSrows S (hmem S hS), hX.1]
  have hlen : ((sortedVars lt names X).map (·.2)).length = c := by
    have := (sortVarsNames_perm lt hX hn names hl).length_eq
    simpa [sortVarsNames, hl] using this
  unfold sortVarsPanel
  rw [hX.1]
  refine ⟨length_transposeW n _ hR, ?_⟩
  intro inst hinst
  refine ⟨by rw [rowsLen_transposeW n _ hR inst hinst, hlen], ?_⟩
  intro s hs
  obtain ⟨S, hS, hsS⟩ := mem_transposeW n _ inst hinst s hs
  obtain ⟨r, hr, hsr⟩ := mem_transposeW c X S (hmem S hS) s hsS
  exact (hX.2 r hr).2 s hsr

theorem transposeW_sortVarsPanel (lt : ν → ν → Bool) {n c t : Nat} {X : Arr3 α}
    (hX : Rect3 n c t X) (hn : 0 < n) (names : List ν) (hl : names.length = c) :
    transposeW c (sortVarsPanel lt names X) = (sortedVars lt names X).map (·.2) := by
  have hmem := sortedVars_snd_mem lt hX hn names
  have hSrows := rowsLen_transposeW c X (rect_rowsLen hX)
  have hR : RowsLen n ((sortedVars lt names X).map (·.2)) := by
    intro S hS; rw [hSrows S (hmem S hS), hX.1]
  have hlen : ((sortedVars lt names X).map (·.2)).length = c := by
    have := (sortVarsNames_perm lt hX hn names hl).length_eq
    simpa [sortVarsNames, hl] using this
  unfold sortVarsPanel
  rw [hX.1]
  have := transposeW_transposeW n _ hR
  rwa [hlen] at this

/-- pivoting the long table of `X` (any distinct names) gives the canonical multi-index frame of
the panel with its variables in sorted-name order -/
theorem pivot_longRowsM [DecidableEq ν] (lt : ν → ν → Bool) (hnle : TotalLE (fun a b : ν => !lt b a))
    (hkle : TotalLE keyLe) {n c t : Nat} {X : Arr3 α} (hX : Rect3 n c t X) (hn : 0 < n) (hc : 0 < c)
    (ht : 0 < t) (names : List ν) (hl : names.length = c) (hnn : names.Nodup) :
    pivot lt (longRowsM names X) =
      .ok (sortVarsNames lt names X, miRows (sortVarsPanel lt names X)) := by
  have hents : (longRowsM names X).map (fun r => (((r.1, r.2.1), r.2.2.1), r.2.2.2))
      = melt names (miRows X) := by
    unfold longRowsM
    rw [List.map_map]
    conv => rhs; rw [← List.map_id (melt names (miRows X))]
    apply List.map_congr_left
    intro e _
    rfl
  have hkeys := miRows_keys_sorted hX hn hc
  have hX' := rect_sortVarsPanel lt hX hn names hl
  unfold pivot
  rw [hents]
  have h := pivotE_melt_unsorted keyLe lt hkle hnle names (miRows X)
    (by intro r hr; rw [hl]; exact miRows_rowsLen hX hn hc r hr) hnn
    (hkeys.imp (fun {a b} h => ne_of_keyLt a b h))
    (hkeys.imp (fun {a b} h => keyLe_of_keyLt a b h))
    (miRows_ne_nil hX hn hc ht) (by intro h; rw [h] at hl; simp at hl; omega)
  simp only at h
  rw [h]
  -- identify the sorted blocks
  have hcolsT : transposeW names.length ((miRows X).map (·.2)) = (transposeW c X).map List.flatten := by
    rw [hl, miRows_vals, rect_nTime hX hn hc, cols_miRows hX]
  have hBs : isortBy (pairLE lt) (names.zip (transposeW names.length ((miRows X).map (·.2))))
      = (sortedVars lt names X).map (fun p => (p.1, p.2.flatten)) := by
    rw [hcolsT, ← zip_map_snd, isortBy_map_snd]
    unfold sortedVars
    rw [rect_nCols hX hn]
  rw [hBs]
  simp only [List.map_map, Function.comp_def]
  congr 2
  -- the rows
  have hV : transposeW c ((miRows (sortVarsPanel lt names X)).map (·.2))
      = ((sortedVars lt names X).map (·.2)).map List.flatten := by
    rw [miRows_vals, rect_nTime hX' hn hc, cols_miRows hX', transposeW_sortVarsPanel lt hX hn names hl]
  have hRV : RowsLen c ((miRows (sortVarsPanel lt names X)).map (·.2)) := by
    intro r hr
    obtain ⟨r', hr', rfl⟩ := List.mem_map.mp hr
    exact miRows_rowsLen hX' hn hc r' hr'
  have hlenrows : (miRows X).length = (miRows (sortVarsPanel lt names X)).length := by
    have h1 := congrArg List.length (miRows_keys hX hn hc)
    have h2 := congrArg List.length (miRows_keys hX' hn hc)
    rw [List.length_map] at h1 h2
    rw [h1, h2]
  have hinv := transposeW_transposeW c _ hRV
  rw [List.length_map, hV] at hinv
  rw [show (List.map (fun x : ν × List (List α) => x.2.flatten) (sortedVars lt names X))
    = ((sortedVars lt names X).map (·.2)).map List.flatten by simp [List.map_map, Function.comp_def]]
  rw [hlenrows, hinv, miRows_keys hX hn hc, ← miRows_keys hX' hn hc]
  exact (List.zip_of_prod rfl rfl).symm


theorem totalLE_keyLe : TotalLE keyLe := by
  refine ⟨?_, ?_, ?_⟩
  · intro a b c h1 h2
    simp only [keyLe, Bool.or_eq_true, Bool.and_eq_true, decide_eq_true_eq] at *
    omega
  · intro a b
    simp only [keyLe, Bool.or_eq_true, Bool.and_eq_true, decide_eq_true_eq]
    omega
  · intro a b h1 h2
    simp only [keyLe, Bool.or_eq_true, Bool.and_eq_true, decide_eq_true_eq] at h1 h2
    have : a.1 = b.1 ∧ a.2 = b.2 := by omega
    exact Prod.ext this.1 this.2

/-- C8: `from_long_to_nested` on the long table of `X` under any distinct names gives the nested
frame (Series cells) holding the panel with its variables in sorted-name order, labelled with
their identifiers (every name with its own data) or with the names supplied -/
theorem fromLongToNested_ok [DecidableEq ν] (ops : NameOps ν)
    (hnle : TotalLE (fun a b : ν => !ops.lt b a)) {n c t : Nat} {X : Arr3 α}
    (hX : Rect3 n c t X) (hn : 0 < n) (hc : 0 < c) (ht : 0 < t) (names : List ν)
    (hl : names.length = c) (hnn : names.Nodup)
    (li ltm ld : String) (hne : li ≠ ltm) :
    (∀ names' : List ν, names'.length = c →
      fromLongToNested ops ⟨li, ltm, ld, longRowsM names X⟩ li ltm ld (some names') =
        .ok (nestedOf names' false (sortVarsPanel ops.lt names X))) ∧
    fromLongToNested ops ⟨li, ltm, ld, longRowsM names X⟩ li ltm ld none =
      .ok (nestedOf (sortVarsNames ops.lt names X) false (sortVarsPanel ops.lt names X)) := by
  have hpiv := pivot_longRowsM ops.lt hnle totalLE_keyLe hX hn hc ht names hl hnn
  have hX' := rect_sortVarsPanel ops.lt hX hn names hl
  have hperm := sortVarsNames_perm ops.lt hX hn names hl
  have hl2 : (sortVarsNames ops.lt names X).length = c := by rw [hperm.length_eq, hl]
  have hnn2 : (sortVarsNames ops.lt names X).Nodup := hperm.nodup_iff.mpr hnn
  have hmn := fromMIToNested_ok hX' hn hc ht li ltm hne (sortVarsNames ops.lt names X) hl2 hnn2 false
  have hclen : (nestedOf (sortVarsNames ops.lt names X) false (sortVarsPanel ops.lt names X)).cols.length = c := by
    have := congrArg List.length (nestedOf_names hX' hn (sortVarsNames ops.lt names X) hl2 false)
    simpa [Nested.names, hl2] using this
  have hmem : li ∈ [li, ltm, ld, "value"] ∧ ltm ∈ [li, ltm, ld, "value"] ∧ ld ∈ [li, ltm, ld, "value"] := by
    simp
  constructor
  · intro names' hl'
    unfold fromLongToNested
    simp only [hmem, and_self, not_true_eq_false, if_false, if_true, bind, Except.bind, pure,
      Except.pure, hpiv]
    unfold miOf at hmn
    simp only [hmn, hclen, hl', if_true]
    rw [renamed_nestedOf hX' hn _ names' hl2 false]
  · unfold fromLongToNested
    simp only [hmem, and_self, not_true_eq_false, if_false, if_true, bind, Except.bind, pure,
      Except.pure, hpiv]
    unfold miOf at hmn
    simp only [hmn]

/-- when the names are already in sorted order nothing is rearranged -/
theorem sortVars_of_sorted (lt : ν → ν → Bool) {n c t : Nat} {X : Arr3 α} (hX : Rect3 n c t X)
    (hn : 0 < n) (names : List ν) (hl : names.length = c)
    (hns : names.Pairwise (fun a b => (!lt b a) = true)) :
    sortVarsNames lt names X = names ∧ sortVarsPanel lt names X = X := by
  have hS := length_transposeW c X (rect_rowsLen hX)
  have hsorted : sortedVars lt names X = names.zip (transposeW c X) := by
    unfold sortedVars
    rw [rect_nCols hX hn]
    apply isortBy_of_sorted
    have : (names.zip (transposeW c X)).Pairwise (fun p q => (!lt q.1 p.1) = true) := by
      have h1 : ((names.zip (transposeW c X)).map (·.1)).Pairwise (fun a b => (!lt b a) = true) := by
        rw [List.map_fst_zip (by rw [hS, hl]; exact Nat.le_refl _)]; exact hns
      rwa [List.pairwise_map] at h1
    exact this
  constructor
  · unfold sortVarsNames
    rw [hsorted, List.map_fst_zip (by rw [hS, hl]; exact Nat.le_refl _)]
  · unfold sortVarsPanel
    rw [hsorted, List.map_snd_zip (by rw [hS, hl]; exact Nat.le_refl _)]
    exact transposeW_transposeW c X (rect_rowsLen hX)

/-- the result of `from_long_to_nested` does not depend on the order of the long table's rows -/
theorem fromLongToNested_perm [DecidableEq ν] (ops : NameOps ν)
    (hnle : TotalLE (fun a b : ν => !ops.lt b a)) (li ltm ld : String)
    (rows rows' : List (Int × Int × ν × α)) (hp : rows.Perm rows') (a b d : String)
    (cn : Option (List ν)) :
    fromLongToNested ops ⟨li, ltm, ld, rows⟩ a b d cn = fromLongToNested ops ⟨li, ltm, ld, rows'⟩ a b d cn := by
  have h1 : pivot ops.lt rows = pivot ops.lt rows' := by
    unfold pivot
    exact pivotE_perm keyLe ops.lt totalLE_keyLe hnle _ _ (hp.map _)
  have h2 : pivot ops.lt (rows.map (fun r => (r.2.1, r.1, r.2.2)))
      = pivot ops.lt (rows'.map (fun r => (r.2.1, r.1, r.2.2))) := by
    unfold pivot
    exact pivotE_perm keyLe ops.lt totalLE_keyLe hnle _ _ ((hp.map _).map _)
  unfold fromLongToNested
  simp only
  split
  · rfl
  · split
    · simp only [bind, Except.bind, pure, Except.pure, h1]
    · split
      · simp only [bind, Except.bind, pure, Except.pure, h2]
      · rfl

/-- python's ordering of `str` / `int` labels, as the model uses it, is a total order -/
theorem totalLE_nameOps : TotalLE (fun a b : Name => !nameOps.lt b a) := by
  refine ⟨?_, ?_, ?_⟩
  · intro a b c h1 h2
    cases a <;> cases b <;> cases c <;>
      simp only [nameOps, Name.lt, Bool.not_eq_true', decide_eq_false_iff_not, Int.not_lt,
        String.not_lt, Bool.not_true, Bool.not_false, Bool.false_eq_true] at * <;>
      first
        | omega
        | exact String.le_trans h1 h2
        | trivial
        | contradiction
  · intro a b
    cases a <;> cases b <;>
      simp only [nameOps, Name.lt, Bool.or_eq_true, Bool.not_eq_true', decide_eq_false_iff_not,
        Int.not_lt, String.not_lt, Bool.not_true, Bool.not_false, or_true, true_or] <;>
      first
        | omega
        | exact (String.le_total _ _).symm
        | exact String.le_total _ _
        | trivial
  · intro a b h1 h2
    cases a <;> cases b <;>
      simp only [nameOps, Name.lt, Bool.not_eq_true', decide_eq_false_iff_not, Int.not_lt,
        String.not_lt, Bool.not_true, Bool.not_false, Bool.false_eq_true] at * <;>
      first
        | (congr 1; omega)
        | (congr 1; exact String.le_antisymm h1 h2)
        | contradiction

end SkVerif.Panel.Lem
