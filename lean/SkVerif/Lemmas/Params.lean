/-
Helper lemmas for C04 (SkVerif/Model/Params.lean).
-/
import SkVerif.Model.Params
namespace SkVerif.Params.Lem
open SkVerif.Params

variable {N : Type} [DecidableEq N]

/-! ### association lists -/

theorem assocGet_assocSet_same {V : Type} (k : N) (v : V) (s : List (N × V)) :
    assocGet k (assocSet k v s) = some v := by
  induction s with
  | nil => simp [assocSet, assocGet]
  | cons hd tl ih =>
    obtain ⟨k', v'⟩ := hd
    by_cases h : k' = k
    · simp [assocSet, assocGet, h]
    · simp [assocSet, assocGet, h, ih]

theorem assocGet_assocSet_ne {V : Type} (k a : N) (v : V) (s : List (N × V)) (h : k ≠ a) :
    assocGet a (assocSet k v s) = assocGet a s := by
  induction s with
  | nil =>
    simp [assocSet, assocGet, h]
  | cons hd tl ih =>
    obtain ⟨k', v'⟩ := hd
    by_cases h1 : k' = k
    · subst h1
      simp [assocSet, assocGet, h]
    · by_cases h2 : k' = a
      · subst h2
        have hne : ¬ k' = k := h1
        simp [assocSet, assocGet, hne]
      · simp [assocSet, assocGet, h1, h2, ih]

/-! ### abstract interpretation of constructor primitives is sound -/

theorem absStep_sound {V : Type} (I : Interp N V) (args : N → V) (a : N) (st : AbsVal N) (s : List (N × V))
    (h : AbsRel I args a st s) :
    (∀ b e c, (c && !I.choice 0) = false →
        AbsRel I args a (absStep a st (.write b e c)) (assocSet b (evalExpr I args e) s)) ∧
    (∀ b e, AbsRel I args a (absStep a st (.write b e true)) s) ∧
    (∀ s', AbsRel I args a (absStep a st .havoc) s') ∧
    (∀ al ex, AbsRel I args a (absStep a st (.raise al ex)) s) := by
  refine ⟨?_, ?_, ?_, ?_⟩
  · intro b e c _
    by_cases hb : b = a
    · subst hb
      cases c with
      | false => simp [absStep, AbsRel, assocGet_assocSet_same]
      | true =>
        by_cases hst : st = .is e
        · subst hst
          simp [absStep, AbsRel, assocGet_assocSet_same]
        · simp [absStep, hst, AbsRel]
    · simp only [absStep, hb, if_false]
      cases st with
      | absent => simpa [AbsRel, assocGet_assocSet_ne b a _ s hb] using h
      | is e' => simpa [AbsRel, assocGet_assocSet_ne b a _ s hb] using h
      | unknown => simp [AbsRel]
  · intro b e
    by_cases hb : b = a
    · subst hb
      by_cases hst : st = .is e
      · subst hst
        simpa [absStep] using h
      · simp [absStep, hst, AbsRel]
    · simpa [absStep, hb] using h
  · intro s'
    simp [absStep, AbsRel]
  · intro al ex
    simpa [absStep] using h

theorem absFrom_sound {V : Type} (I : Interp N V) (args : N → V) (a : N) :
    ∀ (ps : List (Prim N)) (i : Nat) (st : AbsVal N) (s s' : List (N × V)),
      AbsRel I args a st s → runPrims I args i ps s = some s' → AbsRel I args a (absFrom a st ps) s' := by
  intro ps
  induction ps with
  | nil =>
    intro i st s s' h hr
    simp [runPrims] at hr
    subst hr
    simpa [absFrom] using h
  | cons p rest ih =>
    intro i st s s' h hr
    have hfold : absFrom a st (p :: rest) = absFrom a (absStep a st p) rest := by
      simp [absFrom, List.foldl]
    rw [hfold]
    cases p with
    | write b e c =>
      by_cases hc : (c && !I.choice i) = true
      · -- skipped
        simp only [runPrims, hc, if_true] at hr
        have hcT : c = true := by
          cases c <;> simp_all
        subst hcT
        exact ih (i + 1) _ s s' (by
          by_cases hb : b = a
          · subst hb
            by_cases hst : st = .is e
            · subst hst; simpa [absStep] using h
            · simp [absStep, hst, AbsRel]
          · simpa [absStep, hb] using h) hr
      · simp only [runPrims, hc] at hr
        refine ih (i + 1) _ _ s' ?_ hr
        by_cases hb : b = a
        · subst hb
          cases c with
          | false => simp [absStep, AbsRel, assocGet_assocSet_same]
          | true =>
            by_cases hst : st = .is e
            · subst hst
              simp [absStep, AbsRel, assocGet_assocSet_same]
            · simp [absStep, hst, AbsRel]
        · simp only [absStep, hb, if_false]
          cases st with
          | absent => simpa [AbsRel, assocGet_assocSet_ne b a _ s hb] using h
          | is e' => simpa [AbsRel, assocGet_assocSet_ne b a _ s hb] using h
          | unknown => simp [AbsRel]
    | raise al ex =>
      by_cases hc : (al || I.choice i) = true
      · simp [runPrims, hc] at hr
      · simp only [runPrims, hc] at hr
        exact ih (i + 1) _ s s' (by simpa [absStep] using h) hr
    | havoc =>
      simp only [runPrims] at hr
      exact ih (i + 1) _ _ s' (by simp [absStep, AbsRel]) hr

theorem runPrims_total {V : Type} (I : Interp N V) (args : N → V) :
    ∀ (ps : List (Prim N)) (i : Nat) (s : List (N × V)), mayRaise ps = false →
      ∃ s', runPrims I args i ps s = some s' := by
  intro ps
  induction ps with
  | nil => intro i s _; exact ⟨s, rfl⟩
  | cons p rest ih =>
    intro i s h
    cases p with
    | write b e c =>
      have h' : mayRaise rest = false := by simpa [mayRaise] using h
      by_cases hc : (c && !I.choice i) = true
      · simp only [runPrims, hc, if_true]; exact ih _ _ h'
      · simp only [runPrims, hc]; exact ih _ _ h'
    | raise al ex => simp [mayRaise] at h
    | havoc =>
      have h' : mayRaise rest = false := by simpa [mayRaise] using h
      simp only [runPrims]; exact ih _ _ h'

/-! ### guards -/

omit [DecidableEq N] in
theorem guardScan_sound (choice : Nat → Bool) :
    ∀ (es : List (Eff N)) (i : Nat), guardScan es = true → runEffects false choice i es = .notFitted := by
  intro es
  induction es with
  | nil => intro i h; simp [guardScan] at h
  | cons e rest ih =>
    intro i h
    cases e with
    | check c =>
      cases c with
      | false => simp [runEffects]
      | true =>
        have h' : guardScan rest = true := by simpa [guardScan] using h
        by_cases hc : choice i = true
        · simp [runEffects, hc]
        · simp [runEffects, hc, ih (i + 1) h']
    | use a => simp [guardScan] at h
    | write a =>
      have h' : guardScan rest = true := by simpa [guardScan] using h
      simp [runEffects, ih (i + 1) h']
    | unknown => simp [guardScan] at h
    | raise c s =>
      cases c with
      | false => simp [guardScan] at h
      | true =>
        cases s with
        | true => simp [guardScan] at h
        | false =>
          have h' : guardScan rest = true := by simpa [guardScan] using h
          simp [runEffects, ih (i + 1) h']
    | ret c rs => simp [guardScan] at h

/-! ### fit frame -/

theorem runFit_frame {V : Type} (val : Nat → V) (hav : Nat → List (N × V) → List (N × V)) (p : N) :
    ∀ (es : List (Eff N)) (i : Nat) (s : List (N × V)),
      effUnknown es = false → p ∉ effWrites es → assocGet p (runFit val hav i es s) = assocGet p s := by
  intro es
  induction es with
  | nil => intro i s _ _; simp [runFit]
  | cons e rest ih =>
    intro i s hu hw
    cases e with
    | write a =>
      have hu' : effUnknown rest = false := by simpa [effUnknown] using hu
      have hne : a ≠ p := by
        intro h; apply hw; simp [effWrites, h]
      have hw' : p ∉ effWrites rest := by
        intro h; apply hw; simp [effWrites, h]
      simp only [runFit]
      rw [ih (i + 1) _ hu' hw', assocGet_assocSet_ne a p _ s hne]
    | unknown => simp [effUnknown] at hu
    | check c =>
      have hu' : effUnknown rest = false := by simpa [effUnknown] using hu
      have hw' : p ∉ effWrites rest := by simpa [effWrites] using hw
      simp only [runFit]; exact ih (i + 1) s hu' hw'
    | use a =>
      have hu' : effUnknown rest = false := by simpa [effUnknown] using hu
      have hw' : p ∉ effWrites rest := by simpa [effWrites] using hw
      simp only [runFit]; exact ih (i + 1) s hu' hw'
    | raise c st =>
      have hu' : effUnknown rest = false := by simpa [effUnknown] using hu
      have hw' : p ∉ effWrites rest := by simpa [effWrites] using hw
      simp only [runFit]; exact ih (i + 1) s hu' hw'
    | ret c rs =>
      have hu' : effUnknown rest = false := by simpa [effUnknown] using hu
      have hw' : p ∉ effWrites rest := by simpa [effWrites] using hw
      simp only [runFit]; exact ih (i + 1) s hu' hw'

end SkVerif.Params.Lem
