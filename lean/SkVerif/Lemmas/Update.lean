import SkVerif.Lemmas.Forecaster
namespace SkVerif.Lem
open SkVerif SkVerif.Fc

/-- value at a label after inserting one observation into a sorted series -/
theorem lookup_insertObs (acc : Series) (l' : Int) (v : ORat) (l : Int) (h : SSorted acc) :
    Series.lookup (Series.insertObs acc l' v) l =
      if l' = l then some (match v with
        | some x => some x
        | none => (match Series.lookup acc l with | some v' => v' | none => none))
      else Series.lookup acc l := by
  induction acc with
  | nil =>
    by_cases e : l' = l <;> simp [Series.insertObs, Series.lookup, e]
    cases v <;> rfl
  | cons a t ih =>
    obtain ⟨la, va⟩ := a
    have hp := List.pairwise_cons.mp h
    simp only [Series.insertObs]
    by_cases h1 : l' < la
    · simp only [h1, ↓reduceIte, Series.lookup]
      by_cases e : l' = l
      · subst e
        have hne : ¬ la = l' := by omega
        -- l' is smaller than every label of the series: it is not there
        have hnot : Series.lookup t l' = none := by
          clear ih
          induction t with
          | nil => rfl
          | cons b t' ih' =>
            have hb := hp.1 b List.mem_cons_self
            have hp2 := List.pairwise_cons.mp hp.2
            simp only [Series.lookup]
            have : ¬ b.1 = l' := by simp only at hb; omega
            simp only [this, ↓reduceIte]
            apply ih'
            · exact List.pairwise_cons.mpr ⟨fun p hp' => hp.1 p (List.mem_cons_of_mem _ hp'), hp2.2⟩
            · exact ⟨fun p hp' => hp.1 p (List.mem_cons_of_mem _ hp'), hp2.2⟩
        simp only [↓reduceIte, hne, hnot]
        cases v <;> rfl
      · simp [e]
    · simp only [h1, ↓reduceIte]
      by_cases h2 : l' = la
      · subst h2
        simp only [↓reduceIte, Series.lookup]
        by_cases e : l' = l
        · subst e; simp only [↓reduceIte]; cases v <;> rfl
        · simp [e]
      · simp only [h2, ↓reduceIte, Series.lookup]
        rw [ih hp.2]
        by_cases e : l' = l
        · subst e
          have : ¬ la = l' := fun x => h2 x.symm
          simp [this]
        · simp [e]

/-- what `new.combine_first(old)` holds at a label: a later finite observation wins, a later NaN
keeps the older value, labels only in one series are kept -/
def merged (new old : Series) (l : Int) : Option ORat :=
  match Series.lookup new l with
  | some (some x) => some (some x)
  | some none => (match Series.lookup old l with | some v => some v | none => some none)
  | none => Series.lookup old l

theorem lookup_none_of_lt (t : Series) (l : Int) (h : ∀ p ∈ t, l < p.1) : Series.lookup t l = none := by
  induction t with
  | nil => rfl
  | cons b t ih =>
    have hb := h b List.mem_cons_self
    simp only [Series.lookup]
    have : ¬ b.1 = l := by omega
    simp only [this, ↓reduceIte]
    exact ih (fun p hp => h p (List.mem_cons_of_mem _ hp))

theorem lookup_combineFirst (new old : Series) (l : Int) (hn : SSorted new) (ho : SSorted old) :
    Series.lookup (Series.combineFirst new old) l = merged new old l := by
  unfold Series.combineFirst
  induction new generalizing old with
  | nil => simp [merged, Series.lookup]
  | cons a t ih =>
    obtain ⟨la, va⟩ := a
    have hp := List.pairwise_cons.mp hn
    simp only [List.foldl_cons]
    rw [ih _ hp.2 (insertObs_sorted old la va ho)]
    unfold merged
    simp only [Series.lookup]
    by_cases e : la = l
    · subst e
      have hnone : Series.lookup t la = none := lookup_none_of_lt t la (fun p hp' => hp.1 p hp')
      simp only [hnone, ↓reduceIte, lookup_insertObs old la va la ho]
      cases va with
      | some x => rfl
      | none => cases Series.lookup old la <;> rfl
    · simp only [e, ↓reduceIte, lookup_insertObs old la va l ho]

/-- `update` always merges the batch into the remembered series and never un-fits -/
theorem fitWith_y_fitted (core : Core) (mode : FhMode) (s : FState) (fh : Option FH.FH) (hfit : s.fitted = true) :
    (fitWith core mode s s.y fh).1.y = s.y ∧ (fitWith core mode s s.y fh).1.fitted = true := by
  unfold fitWith
  cases hl : s.y.getLast? with
  | none => simp [hfit]
  | some o =>
    simp only
    cases setFh mode { s with y := s.y, cutoff := some o.1 } fh with
    | error e => simp [hfit]
    | ok fh' =>
      simp only
      cases core.fitWl s.y.length with
      | error e => simp [hfit]
      | ok w =>
        simp only
        split <;> simp [hfit]

theorem update_y_fitted (core : Core) (mode : FhMode) (s : FState) (y : Series) (up : Bool)
    (hfit : s.fitted = true) :
    (update core mode s y up).1.y = Series.combineFirst y s.y ∧ (update core mode s y up).1.fitted = true := by
  obtain ⟨fitted, y0, cutoff, fh0, wlen⟩ := s
  simp only at hfit
  subst hfit
  unfold update
  simp only [Bool.not_true, Bool.false_eq_true, ↓reduceIte]
  have hempty : y.getLast? = none → Series.combineFirst y y0 = y0 := by
    intro h
    have : y = [] := List.getLast?_eq_none_iff.mp h
    subst this; rfl
  cases hl : y.getLast? with
  | none =>
    simp only [hempty hl]
    cases up with
    | false => simp
    | true =>
      simp only [↓reduceIte]
      cases fh0 with
      | none => simp
      | some f => exact fitWith_y_fitted core mode ⟨true, y0, cutoff, some f, wlen⟩ (some f) rfl
  | some o =>
    simp only
    cases up with
    | false => simp
    | true =>
      simp only [↓reduceIte]
      cases fh0 with
      | none => simp
      | some f =>
        exact fitWith_y_fitted core mode ⟨true, Series.combineFirst y y0, some o.1, some f, wlen⟩ (some f) rfl

end SkVerif.Lem

namespace SkVerif.Lem
open SkVerif SkVerif.Fc

theorem fitWith_fresh_eq (core : Core) (mode : FhMode) (s : FState) (Y : Series) (f : FH.FH)
    (hfit : s.fitted = true) (hfh : s.fh = some f)
    (hdone : (fitWith core mode s Y (some f)).2 = .done) :
    (fitWith core mode s Y (some f)).1 = (fitWith core mode {} Y (some f)).1 ∧
    (fitWith core mode {} Y (some f)).2 = .done := by
  obtain ⟨fitted, y0, cutoff, fh0, wlen⟩ := s
  simp only at hfit hfh
  subst hfit; subst hfh
  unfold fitWith at hdone ⊢
  cases hl : Y.getLast? with
  | none => simp [hl] at hdone
  | some o =>
    simp only [hl] at hdone ⊢
    have hs1 : setFh mode ⟨true, Y, some o.1, some f, wlen⟩ (some f) = .ok (some f) := by
      cases mode <;> simp [setFh]
    have hs2 : setFh mode { ({} : FState) with y := Y, cutoff := some o.1 } (some f) = .ok (some f) := by
      cases mode <;> simp [setFh]
    rw [hs1] at hdone
    rw [hs1, hs2]
    simp only at hdone ⊢
    cases hw : core.fitWl Y.length with
    | error e => simp [hw] at hdone
    | ok w =>
      simp only [hw] at hdone ⊢
      split at hdone
      · simp at hdone
      · rename_i hle
        simp [hle]

theorem refit_equiv (core : Core) (mode : FhMode) (s : FState) (y2 : Series) (f : FH.FH)
    (hfit : s.fitted = true) (hfh : s.fh = some f)
    (hdone : (update core mode s y2 true).2 = .done) :
    (update core mode s y2 true).1 = (fitWith core mode {} (Series.combineFirst y2 s.y) (some f)).1 ∧
    (fitWith core mode {} (Series.combineFirst y2 s.y) (some f)).2 = .done := by
  obtain ⟨fitted, y0, cutoff, fh0, wlen⟩ := s
  simp only at hfit hfh
  subst hfit; subst hfh
  unfold update at hdone ⊢
  simp only [Bool.not_true, Bool.false_eq_true, ↓reduceIte] at hdone ⊢
  cases hl : y2.getLast? with
  | none =>
    have : y2 = [] := List.getLast?_eq_none_iff.mp hl
    subst this
    simp only [hl] at hdone ⊢
    exact fitWith_fresh_eq core mode ⟨true, y0, cutoff, some f, wlen⟩ y0 f rfl rfl hdone
  | some o =>
    simp only [hl] at hdone ⊢
    exact fitWith_fresh_eq core mode ⟨true, Series.combineFirst y2 y0, some o.1, some f, wlen⟩
      (Series.combineFirst y2 y0) f rfl rfl hdone

theorem movingCutoff_cutoff (core : Core) (mode : FhMode) (s : FState) (y : Series) (trains : List (List Int))
    (fh : FH.FH) (up : Bool) : (movingCutoff core mode s y trains fh up).1.cutoff = s.cutoff := by
  unfold movingCutoff
  cases y.head? with
  | none => rfl
  | some o =>
    simp only [Option.map_some]
    rcases movingCutoff.go core mode y fh up trains { s with cutoff := some (o.1 - 1) } [] [] with ⟨sEnd, r⟩
    cases r with
    | error e => rfl
    | ok pc => rfl

theorem updatePredict_cutoff (core : Core) (mode : FhMode) (s : FState) (y : Series) (cv : Option CvSpec)
    (up : Bool) : (updatePredict core mode s y cv up).1.cutoff = s.cutoff := by
  unfold updatePredict
  by_cases hfit : s.fitted = true
  swap
  · simp [hfit]
  simp only [hfit, Bool.not_true, Bool.false_eq_true, ↓reduceIte]
  cases cvSpecOf s cv with
  | error e => rfl
  | ok c =>
    simp only
    unfold updatePredictWith
    cases Split.checkFh c.fh with
    | error e => rfl
    | ok fhv =>
      simp only
      cases y.head? with
      | none => rfl
      | some _ =>
        simp only
        cases Split.windowSplit c.kind (↑y.length) c.fh c.wl c.step c.iw c.sww with
        | error e => rfl
        | ok folds => exact movingCutoff_cutoff core mode s y _ _ up

end SkVerif.Lem

namespace SkVerif.Lem
open SkVerif SkVerif.Fc

/-- the states reached by feeding the training windows one after the other through `update` -/
def statesAfter' (core : Core) (mode : FhMode) (y : Series) (up : Bool) : FState → List (List Int) → List FState
  | _, [] => []
  | st, w :: rest =>
    let st1 := (update core mode st (Series.iloc y w) up).1
    st1 :: statesAfter' core mode y up st1 rest

def predOf (core : Core) (fh : FH.FH) (s : FState) : Option Series :=
  match s.cutoff with
  | some c => (match predictAt core s c fh with | .ok p => some p | .error _ => none)
  | none => none

theorem movingGo_gen (core : Core) (mode : FhMode) (y : Series) (fh : FH.FH) (up : Bool)
    (ws : List (List Int)) (st : FState) (P : List Series) (C : List Int)
    (preds : List Series) (cuts : List Int) (sEnd : FState)
    (h : movingCutoff.go core mode y fh up ws st P C = (sEnd, .ok (preds, cuts))) :
    ∃ preds' cuts', preds = P ++ preds' ∧ cuts = C ++ cuts' ∧
      cuts' = (statesAfter' core mode y up st ws).filterMap (·.cutoff) ∧
      preds'.map some = (statesAfter' core mode y up st ws).map (predOf core fh) ∧
      preds'.length = ws.length := by
  induction ws generalizing st P C with
  | nil =>
    simp only [movingCutoff.go, Prod.mk.injEq, Except.ok.injEq] at h
    exact ⟨[], [], by simp [h.2.1], by simp [h.2.2], rfl, rfl, rfl⟩
  | cons w rest ih =>
    simp only [movingCutoff.go] at h
    rcases hu : update core mode st (Series.iloc y w) up with ⟨st1, o⟩
    rw [hu] at h
    have hst1 : (update core mode st (Series.iloc y w) up).1 = st1 := by rw [hu]
    have key : (match st1.cutoff with
        | none => (st1, (Except.error Err.value : Except Err (List Series × List Int)))
        | some c =>
          match predictAt core st1 c fh with
          | .error e => (st1, .error e)
          | .ok p => movingCutoff.go core mode y fh up rest st1 (P ++ [p]) (C ++ [c])) =
        (sEnd, .ok (preds, cuts)) := by
      cases o with
      | err e => simp at h
      | done => exact h
      | series x => exact h
      | frame a b => exact h
    cases hc : st1.cutoff with
    | none => rw [hc] at key; simp at key
    | some c =>
      rw [hc] at key
      simp only at key
      cases hp : predictAt core st1 c fh with
      | error e => rw [hp] at key; simp at key
      | ok p =>
        rw [hp] at key
        simp only at key
        obtain ⟨preds', cuts', e1, e2, e3, e4, e5⟩ := ih st1 (P ++ [p]) (C ++ [c]) key
        refine ⟨p :: preds', c :: cuts', by simp [e1], by simp [e2], ?_, ?_, by simp [e5]⟩
        · simp only [statesAfter', hst1, List.filterMap_cons, hc, e3]
        · simp only [statesAfter', hst1, List.map_cons, predOf, hc, hp, e4]

end SkVerif.Lem
