/-
Helper lemmas for C07, part 6: the valid splitter configurations (C01) yield folds with the
guarantees `FoldsOK`, and on them `evaluate` is the loop over the folds' data.
-/
import SkVerif.Lemmas.EvaluateTop
import SkVerif.Props.C01
namespace SkVerif.Lem.Ev
open SkVerif SkVerif.Split SkVerif.Evaluate SkVerif.Evaluate.Spec

variable {σ α ξ β : Type}

/-- a valid splitter configuration for a series of length `n`, with `start_with_window=True`
(the validity notions are C01's) -/
inductive CVValid (n : Int) : CV → Prop
  | sliding {fh wl step iw} (v : Split.Spec.Valid .sliding n wl step fh iw true) : CVValid n (.sliding fh wl step iw true)
  | expanding {fh wl step} (v : Split.Spec.Valid .expanding n wl step fh none true) : CVValid n (.expanding fh wl step true)
  | single {fh wl} (hs : fh.Pairwise (· < ·)) (hne : fh ≠ []) (hpos : ∀ h ∈ fh, 0 < h)
      (hwl : ∀ w, wl = some w → 1 ≤ w ∧ w + fhMax fh ≤ n) (hfit : fhMax fh ≤ n - 1) : CVValid n (.single fh wl)
  | cutoff {cs fh wl} (v : C01.CutoffValid n wl cs fh) : CVValid n (.cutoff cs fh wl)

/-- the series and exogenous data `evaluate` is given: distinct ordered time points, exogenous rows
on the same time points -/
structure InputOK (y : Series α) (X : Option (Series ξ)) : Prop where
  strict : StrictLabels y
  xlabels : ∀ X', X = some X' → labels X' = labels y

theorem fold_mem_shape' {k n wl step fh iw} (v : Split.Spec.Valid k n wl step fh iw true) (f : Fold)
    (hf : f ∈ Split.Spec.folds k n wl step fh iw true) :
    ∃ c a, 0 ≤ a ∧ a ≤ c ∧ c + fhMax fh ≤ n - 1 ∧ f = (arange a (c + 1), fh.map (c + ·)) := by
  have hwl := v.wl_pos
  have hst := v.step_pos
  unfold Split.Spec.folds at hf
  rcases List.mem_append.mp hf with h | h
  · cases iw with
    | none => simp [Split.Spec.initialFold] at h
    | some i =>
      simp [Split.Spec.initialFold] at h
      obtain ⟨_, _, h1, h2⟩ := v.iw_ok i rfl
      refine ⟨i - 1, 0, by omega, by omega, by omega, ?_⟩
      rw [h]; simp
  · obtain ⟨c, hc, rfl⟩ := List.mem_map.mp h
    have hm := (Lem.cutoffs_mem v c).mp hc
    have hfc : 0 ≤ Split.Spec.firstCutoff wl step iw true := by
      cases iw with
      | none => simp [Split.Spec.firstCutoff]; omega
      | some i =>
        obtain ⟨_, _, h1, _⟩ := v.iw_ok i rfl
        simp [Split.Spec.firstCutoff]; omega
    refine ⟨c, (match k with | .sliding => max (c + 1 - wl) 0 | .expanding => 0), ?_, ?_, hm.2.2, ?_⟩
    · cases k <;> simp
    · cases k <;> simp <;> omega
    · cases k <;> simp [Split.Spec.fold, Split.Spec.train]

/-- window splitters started with a full window: C01's fold shape, `train_lt_test`,
`positions_in_range` and the cutoff progression give every guarantee `evaluate` relies on -/
theorem foldsOK_window {k n wl step fh iw} (v : Split.Spec.Valid k n wl step fh iw true) (fs : List Fold)
    (h : windowSplit k n fh wl step iw true = .ok fs) : FoldsOK n (fhMin fh) fs := by
  have hshape := C01.window_fold_shape v
  have hfs : fs = Split.Spec.folds k n wl step fh iw true := by
    rw [hshape] at h; cases h; rfl
  refine ⟨?_, ?_⟩
  · intro f hf
    obtain ⟨c, a, ha, hac, hc, rfl⟩ := fold_mem_shape' v f (hfs ▸ hf)
    have base := foldOK_of_shape n fh v.sorted v.nonempty v.pos c a ha hac hc
    exact { base with
      train_lt_test := fun p hp q hq => C01.train_lt_test v fs h _ hf p q hp hq
      train_range := fun p hp => C01.positions_in_range v fs h _ hf p (Or.inl hp)
      test_range := fun q hq => C01.positions_in_range v fs h _ hf q (Or.inr hq) }
  · subst hfs
    have hwl := v.wl_pos
    have hst := v.step_pos
    unfold Split.Spec.folds
    refine List.pairwise_append.mpr ⟨?_, ?_, ?_⟩
    · cases iw <;> simp [Split.Spec.initialFold]
    · rw [List.pairwise_map]
      refine (C01.cutoffs_progression v).1.imp ?_
      intro c c' hcc p hp q hq
      obtain ⟨h', hh, rfl⟩ := List.mem_map.mp hq
      have := v.pos h' hh
      have hp' : p < c + 1 := by
        cases k
        · exact ((Lem.arange_mem _ _ p).mp hp).2
        · exact ((Lem.arange_mem _ _ p).mp hp).2
      omega
    · intro f hf g hg p hp q hq
      cases iw with
      | none => simp [Split.Spec.initialFold] at hf
      | some i =>
        simp [Split.Spec.initialFold] at hf
        subst hf
        obtain ⟨c, hc, rfl⟩ := List.mem_map.mp hg
        have hm := ((C01.cutoffs_progression v).2 c).mp hc
        simp only [Split.Spec.firstCutoff, ↓reduceIte] at hm
        obtain ⟨h', hh, rfl⟩ := List.mem_map.mp hq
        have := v.pos h' hh
        have := ((Lem.arange_mem _ _ p).mp hp).2
        omega

/-- the single-window splitter -/
theorem foldsOK_single (n : Int) (fh : List Int) (wl : Option Int)
    (hs : fh.Pairwise (· < ·)) (hne : fh ≠ []) (hpos : ∀ h ∈ fh, 0 < h)
    (hwl : ∀ w, wl = some w → 1 ≤ w ∧ w + fhMax fh ≤ n) (hfit : fhMax fh ≤ n - 1) (fs : List Fold)
    (h : singleSplit n fh wl = .ok fs) : FoldsOK n (fhMin fh) fs := by
  have h1 := (C01.single_window_fold n fh wl hs hne hpos hwl (by omega)).1
  rw [h1] at h
  cases h
  have e : n - fhMax fh = (n - fhMax fh - 1) + 1 := by omega
  refine ⟨?_, by simp⟩
  intro f hf
  simp only [List.mem_singleton] at hf
  subst hf
  rw [e]
  have e2 : n - fhMax fh - 1 + 1 - 1 = n - fhMax fh - 1 := by omega
  rw [e2]
  apply foldOK_of_shape n fh hs hne hpos
  · cases wl <;> simp
  · cases wl with
    | none => simp; omega
    | some w => have := (hwl w rfl).1; simp; omega
  · omega

/-- the cutoff splitter -/
theorem foldsOK_cutoff {n wl cs fh} (v : C01.CutoffValid n wl cs fh) (fs : List Fold)
    (h : cutoffSplit n cs fh wl = .ok fs) : FoldsOK n (fhMin fh) fs := by
  rw [(C01.cutoff_splitter_uses_given_cutoffs v).1] at h
  cases h
  have hwl := v.wl_pos
  refine ⟨?_, ?_⟩
  · intro f hf
    obtain ⟨c, hc, rfl⟩ := List.mem_map.mp hf
    have hcm := (Lem.sortInts_mem cs c).mp hc
    have h0 := v.cs_nonneg c hcm
    exact foldOK_of_shape n fh v.sorted v.nonempty v.pos c _ (by omega) (by omega) (v.feasible c hcm)
  · rw [List.pairwise_map]
    refine (Lem.sortInts_sorted cs).imp ?_
    intro c c' hcc p hp q hq
    obtain ⟨h', hh, rfl⟩ := List.mem_map.mp hq
    have := v.pos h' hh
    have := ((Lem.arange_mem _ _ p).mp hp).2
    omega

/-- what a valid splitter gives `evaluate` -/
theorem cv_split_ok {n : Int} {cv : CV} (hcv : CVValid n cv) :
    ∃ fs, cv.split n = .ok fs ∧ FoldsOK n (fhMin cv.fh) fs ∧ fs ≠ [] ∧ checkFh cv.fh = .ok cv.fh ∧
      checkCv cv = .ok () := by
  cases hcv with
  | sliding v =>
    obtain ⟨fs, h, hne⟩ := C01.window_accepts_feasible v
    exact ⟨fs, h, foldsOK_window v fs h, hne, Lem.checkFh_sorted _ v.sorted v.nonempty, rfl⟩
  | expanding v =>
    obtain ⟨fs, h, hne⟩ := C01.window_accepts_feasible v
    exact ⟨fs, h, foldsOK_window v fs h, hne, Lem.checkFh_sorted _ v.sorted v.nonempty, rfl⟩
  | @single fh wl hs hne hpos hwl hfit =>
    have h1 := (C01.single_window_fold n fh wl hs hne hpos hwl (by omega)).1
    exact ⟨_, h1, foldsOK_single n fh wl hs hne hpos hwl hfit _ h1, by simp, Lem.checkFh_sorted _ hs hne, rfl⟩
  | @cutoff cs fh wl v =>
    have h1 := (C01.cutoff_splitter_uses_given_cutoffs v).1
    refine ⟨_, h1, foldsOK_cutoff v _ h1, ?_, Lem.checkFh_sorted _ v.sorted v.nonempty, rfl⟩
    intro hnil
    have hl := congrArg List.length hnil
    simp only [List.length_map, List.length_nil] at hl
    have := (Lem.sortInts_perm cs).length_eq
    rw [hl] at this
    exact v.cs_nonempty (List.length_eq_zero_iff.mp this.symm)

/-- on valid input `evaluate` is the loop over the folds' data -/
theorem evaluate_valid_eq (m : Machine σ α ξ) (dflt : Metric α β) (st0 : σ) (cv : CV) (y : Series α) (X : Option (Series ξ))
    (strategy : Strategy) (scoring : Scoring α β) (fp : Option Int) (rd : Bool) (mt : Metric α β) (nm : String)
    (fs : List Fold) (hcv : CVValid y.length cv) (hin : InputOK y X) (hs : strategy ≠ .invalid)
    (hm : resolveScoring dflt scoring = .ok mt) (hn : mt.name = some nm) (hsp : cv.split y.length = .ok fs) :
    FoldsOK y.length (fhMin cv.fh) fs ∧ fs ≠ [] ∧
    evaluate m dflt st0 cv y X strategy scoring fp rd =
      ((loopD ⟨m, mt.fn, strategy, rd, fp, y, X, cv.fh⟩ 0 st0 (fs.map (foldData y X (fhMin cv.fh)))).1,
       tableOf nm (loopD ⟨m, mt.fn, strategy, rd, fp, y, X, cv.fh⟩ 0 st0 (fs.map (foldData y X (fhMin cv.fh)))).2) := by
  obtain ⟨fs', hsp', hok, hne, hfh, hck⟩ := cv_split_ok hcv
  rw [hsp] at hsp'
  cases hsp'
  have hyne : y ≠ [] := by
    intro hy
    obtain ⟨f, hf⟩ := List.exists_mem_of_ne_nil fs hne
    have h1 := (hok.each f hf).train_nonempty
    obtain ⟨p, hp⟩ := List.exists_mem_of_ne_nil _ h1
    have := (hok.each f hf).train_range p hp
    simp [hy] at this
    omega
  have hX : ∀ X', X = some X' → X'.length = y.length := by
    intro X' hX'
    have := congrArg List.length (hin.xlabels X' hX')
    simpa [labels] using this
  refine ⟨hok, hne, ?_⟩
  rw [evaluate_eq m dflt st0 cv y X strategy scoring fp rd mt nm fs hs hck hm
    (checkYX_ok y X hin.strict hyne hin.xlabels) hn hsp]
  rw [loop_eq ⟨m, mt.fn, strategy, rd, fp, y, X, cv.fh⟩ cv.fh hfh hin.strict hX fs (fun f hf => hok.each f hf) 0 st0]

end SkVerif.Lem.Ev
