import SkVerif.Spec.C14PAA
import Mathlib.Tactic.Linarith
import Mathlib.Tactic.Ring
import Mathlib.Tactic.FieldSimp
import Mathlib.Tactic.Positivity
import Mathlib.Algebra.Order.Field.Rat
namespace SkVerif.C14.Lem
open SkVerif SkVerif.C14

/-- overlap of sample `[M, M+1)` with frame `[a, b)`, for a rational position `M` -/
def ov (a b M : Rat) : Rat := max 0 (min b (M + 1) - max a M)

theorem overlap_eq_ov (a b : Rat) (i : Nat) : Spec.overlap a b i = ov a b i := rfl

theorem ov_inside (a b M : Rat) (h1 : a ≤ M) (h2 : M + 1 ≤ b) : ov a b M = 1 := by
  unfold ov
  rw [min_eq_right h2, max_eq_right h1]
  have : M + 1 - M = 1 := by ring
  rw [this]; exact max_eq_right (by norm_num)

theorem ov_end (a b M : Rat) (h1 : a ≤ M) (h2 : M < b) (h3 : b ≤ M + 1) : ov a b M = b - M := by
  unfold ov
  rw [min_eq_left h3, max_eq_right h1]
  exact max_eq_right (by linarith)

theorem ov_before (a b M : Rat) (h : b ≤ M) : ov a b M = 0 := by
  unfold ov
  apply max_eq_left
  have h1 : min b (M + 1) ≤ b := min_le_left _ _
  have h2 : M ≤ max a M := le_max_right _ _
  linarith

theorem ov_after (a b M : Rat) (h : M + 1 ≤ a) : ov a b M = 0 := by
  unfold ov
  apply max_eq_left
  have h1 : min b (M + 1) ≤ M + 1 := min_le_right _ _
  have h2 : a ≤ max a M := le_max_left _ _
  linarith

theorem ov_start (a b M : Rat) (h1 : M < a) (h2 : a ≤ M + 1) (h3 : M + 1 ≤ b) : ov a b M = M + 1 - a := by
  unfold ov
  rw [min_eq_right h3, max_eq_left (le_of_lt h1)]
  exact max_eq_right (by linarith)

/-- weighted sum `Σ_t overlap(a, b, off + t) · l[t]` -/
def wsum (a b : Rat) : Nat → List Rat → Rat
  | _, [] => 0
  | off, x :: l => ov a b (off : Rat) * x + wsum a b (off + 1) l

theorem wsum_append (a b : Rat) (off : Nat) (l : List Rat) (x : Rat) :
    wsum a b off (l ++ [x]) = wsum a b off l + ov a b ((off + l.length : Nat) : Rat) * x := by
  induction l generalizing off with
  | nil => simp [wsum]
  | cons y l ih =>
    simp only [List.cons_append, wsum, ih, List.length_cons]
    have : off + 1 + l.length = off + (l.length + 1) := by omega
    rw [this]; ring

theorem wsum_eq_zero (a b : Rat) (off : Nat) (l : List Rat)
    (h : ∀ i, off ≤ i → i < off + l.length → ov a b (i : Rat) = 0) : wsum a b off l = 0 := by
  induction l generalizing off with
  | nil => rfl
  | cons y l ih =>
    simp only [wsum]
    rw [h off (Nat.le_refl _) (by simp), ih (off + 1) (fun i h1 h2 => h i (by omega) (by simp at h2 ⊢; omega))]
    ring

theorem zipIdx_sum_eq_wsum (a b : Rat) (l : List Rat) (off : Nat) :
    ((l.zipIdx off).map (fun (p : Rat × Nat) => Spec.overlap a b p.2 * p.1)).sum = wsum a b off l := by
  induction l generalizing off with
  | nil => rfl
  | cons y l ih =>
    simp only [List.zipIdx_cons, List.map_cons, List.sum_cons, wsum]
    rw [ih]; rfl

/-- loop invariant of `_perform_paa_along_dim` after the prefix `pre` has been consumed -/
structure Inv (fl : Rat) (pre : List Rat) (st : PaaSt) : Prop where
  lo : (st.cur : Rat) * fl ≤ (pre.length : Rat)
  hi : (pre.length : Rat) < ((st.cur : Rat) + 1) * fl
  size : st.size = (pre.length : Rat) - (st.cur : Rat) * fl
  sum : st.sum = wsum ((st.cur : Rat) * fl) (((st.cur : Rat) + 1) * fl) 0 pre
  frames : st.frames = (List.range st.cur).map
    (fun (j : Nat) => wsum ((j : Rat) * fl) (((j : Rat) + 1) * fl) 0 pre / fl)

theorem inv_init (fl : Rat) (h : 0 < fl) : Inv fl [] paaInit := by
  refine ⟨?_, ?_, ?_, ?_, ?_⟩ <;> simp [paaInit, wsum, h]

theorem frames_extend (fl : Rat) (hfl : 0 ≤ fl) (pre : List Rat) (x : Rat) (c : Nat)
    (hlo : (c : Rat) * fl ≤ (pre.length : Rat)) :
    (List.range c).map (fun (j : Nat) => wsum ((j : Rat) * fl) (((j : Rat) + 1) * fl) 0 (pre ++ [x]) / fl) =
    (List.range c).map (fun (j : Nat) => wsum ((j : Rat) * fl) (((j : Rat) + 1) * fl) 0 pre / fl) := by
  apply List.map_congr_left
  intro j hj
  have hj' : j < c := List.mem_range.mp hj
  rw [wsum_append]
  have : ov ((j : Rat) * fl) (((j : Rat) + 1) * fl) ((0 + pre.length : Nat) : Rat) = 0 := by
    apply ov_before
    have h1 : ((j : Rat) + 1) ≤ (c : Rat) := by exact_mod_cast hj'
    have h2 : ((j : Rat) + 1) * fl ≤ (c : Rat) * fl := mul_le_mul_of_nonneg_right h1 hfl
    simp only [Nat.zero_add]
    linarith
  rw [this]; simp

theorem inv_step (fl : Rat) (hfl : 1 ≤ fl) (pre : List Rat) (st : PaaSt) (x : Rat) (h : Inv fl pre st) :
    Inv fl (pre ++ [x]) (paaStep fl st x) := by
  obtain ⟨hlo, hhi, hsize, hsum, hframes⟩ := h
  have hfl0 : 0 ≤ fl := by linarith
  have hlen : ((pre ++ [x]).length : Rat) = (pre.length : Rat) + 1 := by simp
  by_cases hrem : fl - st.size > 1
  · -- the sample lies inside the current frame
    have hne : ¬ (st.size + 1 = fl) := by intro h; linarith
    have hstep : paaStep fl st x = { st with sum := st.sum + x, size := st.size + 1 } := by
      simp only [paaStep, hrem, if_true, hne, if_false]
    rw [hstep]
    have hb : (pre.length : Rat) + 1 < ((st.cur : Rat) + 1) * fl := by rw [hsize] at hrem; linarith
    refine ⟨?_, ?_, ?_, ?_, ?_⟩
    · simp only [hlen]; linarith
    · simp only [hlen]; exact hb
    · simp only [hlen, hsize]; ring
    · simp only
      rw [wsum_append, hsum, ov_inside _ _ _ (by simpa using hlo) (by simp only [Nat.zero_add]; linarith)]
      ring
    · simp only
      rw [frames_extend fl hfl0 pre x st.cur hlo]; exact hframes
  · -- the sample closes the current frame; the rest of it opens the next one
    have hsz : st.size + (fl - st.size) = fl := by ring
    have hstep : paaStep fl st x =
        { frames := st.frames ++ [(st.sum + (fl - st.size) * x) / fl], cur := st.cur + 1,
          sum := (1 - (fl - st.size)) * x, size := 1 - (fl - st.size) } := by
      simp only [paaStep, hrem, if_false, hsz, if_true]
    rw [hstep]
    have hrem' : ((st.cur : Rat) + 1) * fl ≤ (pre.length : Rat) + 1 := by
      rw [hsize] at hrem; linarith
    have hcast : (((st.cur + 1 : Nat)) : Rat) = (st.cur : Rat) + 1 := by push_cast; ring
    refine ⟨?_, ?_, ?_, ?_, ?_⟩
    · simp only [hlen, hcast]; exact hrem'
    · simp only [hlen, hcast]; nlinarith
    · simp only [hlen, hcast, hsize]; ring
    · simp only [hcast]
      rw [wsum_append]
      have hz : wsum (((st.cur : Rat) + 1) * fl) (((st.cur : Rat) + 1 + 1) * fl) 0 pre = 0 := by
        apply wsum_eq_zero
        intro i _ hi
        apply ov_after
        have : (i : Rat) + 1 ≤ (pre.length : Rat) := by
          have : i + 1 ≤ pre.length := by omega
          exact_mod_cast this
        linarith
      rw [hz, ov_start _ _ _ (by simpa using hhi) (by simpa using hrem') (by simp only [Nat.zero_add]; nlinarith), hsize]
      simp only [Nat.zero_add]; ring
    · simp only
      rw [List.range_succ, List.map_append, frames_extend fl hfl0 pre x st.cur hlo, ← hframes]
      congr 1
      simp only [List.map_cons, List.map_nil]
      rw [wsum_append, ← hsum, ov_end _ _ _ (by simpa using hlo) (by simpa using hhi) (by simpa using hrem'), hsize]
      simp only [Nat.zero_add]
      congr 2; ring

theorem inv_fold (fl : Rat) (hfl : 1 ≤ fl) (suf pre : List Rat) (st : PaaSt) (h : Inv fl pre st) :
    Inv fl (pre ++ suf) (suf.foldl (paaStep fl) st) := by
  induction suf generalizing pre st with
  | nil => simpa using h
  | cons x suf ih =>
    have := ih (pre ++ [x]) (paaStep fl st x) (inv_step fl hfl pre st x h)
    simpa using this

theorem paaSeries_eq_spec (k : Nat) (xs : List Rat) (hk : 0 < k) (hkn : k ≤ xs.length) :
    paaSeries k xs = Spec.paaSeries k xs := by
  have hkR : (0 : Rat) < (k : Rat) := by exact_mod_cast hk
  have hnR : (k : Rat) ≤ (xs.length : Rat) := by exact_mod_cast hkn
  have hfl : (1 : Rat) ≤ (xs.length : Rat) / (k : Rat) := by
    rw [le_div_iff₀ hkR]; linarith
  have hinv := inv_fold _ hfl xs [] paaInit (inv_init _ (by linarith))
  simp only [List.nil_append] at hinv
  obtain ⟨hlo, hhi, _, _, hframes⟩ := hinv
  -- the number of completed frames is exactly k
  have hcur : (xs.foldl (paaStep ((xs.length : Rat) / (k : Rat))) paaInit).cur = k := by
    set c := (xs.foldl (paaStep ((xs.length : Rat) / (k : Rat))) paaInit).cur with hc
    have hn0 : (0 : Rat) < (xs.length : Rat) := by linarith
    have h1 : (c : Rat) ≤ (k : Rat) := by
      have := hlo
      rw [mul_div_assoc'] at this
      rw [div_le_iff₀ hkR] at this
      nlinarith
    have h2 : (k : Rat) < (c : Rat) + 1 := by
      have := hhi
      rw [mul_div_assoc', lt_div_iff₀ hkR] at this
      nlinarith
    have h1' : c ≤ k := by exact_mod_cast h1
    have h2' : k < c + 1 := by exact_mod_cast h2
    omega
  unfold paaSeries Spec.paaSeries
  simp only [hcur]
  have hne : ¬ (k + 1 = k) := by omega
  simp only [hne, if_false, hframes, hcur]
  apply List.map_congr_left
  intro j _
  unfold Spec.frameMean
  simp only
  rw [zipIdx_sum_eq_wsum]

end SkVerif.C14.Lem
