/- C15: conversion paths over all five containers. -/
import SkVerif.Lemmas.PanelPath
import SkVerif.Lemmas.Panel2d
import SkVerif.Lemmas.PanelLong
namespace SkVerif.Panel.Lem
open SkVerif SkVerif.Panel SkVerif.Panel.Spec

variable {ν α : Type}

/-- what is true of every state on a path: it holds a rectangular panel of its recorded
dimensions under a well-formed shape -/
structure Inv (n : Nat) (st : PState ν α) : Prop where
  rect : Rect3 n st.c st.t st.X
  hc : 0 < st.c
  ht : 0 < st.t
  ok : st.shape.ok st.c

theorem rect_panelOfRows {n c t : Nat} {X : Arr3 α} (hX : Rect3 n c t X) :
    Rect3 n 1 (c * t) (panelOfRows (tab2Rows X)) := by
  unfold panelOfRows tab2Rows
  refine ⟨by simp [hX.1], ?_⟩
  intro inst hinst
  simp only [List.map_map, List.mem_map, Function.comp_apply] at hinst
  obtain ⟨r, hr, rfl⟩ := hinst
  refine ⟨rfl, ?_⟩
  intro s hs
  simp only [List.mem_singleton] at hs
  subst hs
  have := hX.2 r hr
  rw [length_flatten_of_rowsLen t r this.2, this.1]

theorem triHop_holds [DecidableEq ν] (ops : NameOps ν) (reserved : ν → Bool)
    (hd : ∀ c, (defaultNames ops c).Nodup) {n : Nat} (hn : 0 < n) (h : Hop ν)
    (st st' : PState ν α) (inv : Inv n st) (hh : triHop ops h st = some st') :
    applyHop ops reserved h (holds5 st.shape st.X) = .ok (holds5 st'.shape st'.X) ∧ Inv n st' := by
  obtain ⟨shape, c, t, X⟩ := st
  cases shape with
  | tri s =>
    simp only [triHop] at hh
    cases hs : hopShape ops c h s with
    | none => rw [hs] at hh; cases hh
    | some s' =>
      rw [hs] at hh
      simp only [Option.map] at hh
      cases hh
      have := applyHop_holds ops reserved inv.rect hn inv.hc inv.ht (hd c) h s s' inv.ok hs
      exact ⟨this.1, ⟨inv.rect, inv.hc, inv.ht, this.2⟩⟩
  | long _ _ _ _ => simp [triHop] at hh
  | tab2 _ => simp [triHop] at hh

theorem applyHop5_holds [DecidableEq ν] (ops : NameOps ν) (reserved : ν → Bool)
    (hd : ∀ c, (defaultNames ops c).Nodup) (hnle : TotalLE (fun a b : ν => !ops.lt b a))
    {n : Nat} (hn : 0 < n) (h : Hop ν) (st st' : PState ν α) (inv : Inv n st)
    (hh : hop5 ops reserved h st = some st') :
    applyHop ops reserved h (holds5 st.shape st.X) = .ok (holds5 st'.shape st'.X) ∧ Inv n st' := by
  cases h with
  | n3 => exact triHop_holds ops reserved hd hn _ st st' inv hh
  | a3n _ _ => exact triHop_holds ops reserved hd hn _ st st' inv hh
  | a3m _ _ _ => exact triHop_holds ops reserved hd hn _ st st' inv hh
  | m3 _ _ => exact triHop_holds ops reserved hd hn _ st st' inv hh
  | nm _ _ => exact triHop_holds ops reserved hd hn _ st st' inv hh
  | mn _ _ => exact triHop_holds ops reserved hd hn _ st st' inv hh
  | nl i tm d =>
    obtain ⟨shape, c, t, X⟩ := st
    obtain ⟨hrect, hc, ht, hok⟩ := inv
    cases shape with
    | tri s =>
      cases s with
      | nested names k =>
        simp only [hop5] at hh
        split at hh
        · cases hh
        · rename_i hres
          cases hh
          have hres' : names.any reserved = false := by simpa using hres
          refine ⟨?_, ⟨hrect, hc, ht, hok⟩⟩
          simp only [applyHop, holds5, holds, fromNestedToLong_ok reserved hrect hn hc names hok.1 k hres' i tm d]
          rfl
      | _ => simp [hop5] at hh
    | _ => simp [hop5] at hh
  | ln i tm d cn =>
    obtain ⟨shape, c, t, X⟩ := st
    obtain ⟨hrect, hc, ht, hok⟩ := inv
    cases shape with
    | long i' t' d' names =>
      simp only [hop5] at hh
      split at hh
      · rename_i hcond
        obtain ⟨rfl, rfl, rfl, hne⟩ := hcond
        have hL := fromLongToNested_ok ops hnle hrect hn hc ht names hok.1 hok.2 i tm d hne
        have hrect' := rect_sortVarsPanel ops.lt hrect hn names hok.1
        cases cn with
        | none =>
          simp only at hh
          cases hh
          have hperm := sortVarsNames_perm ops.lt hrect hn names hok.1
          refine ⟨?_, ⟨hrect', hc, ht, ⟨by rw [hperm.length_eq]; exact hok.1, hperm.nodup_iff.mpr hok.2⟩⟩⟩
          simp only [applyHop, holds5, holds, hL.2]; rfl
        | some ns =>
          simp only at hh
          split at hh
          · rename_i hns
            cases hh
            refine ⟨?_, ⟨hrect', hc, ht, hns⟩⟩
            simp only [applyHop, holds5, holds, hL.1 ns hns.1]; rfl
          · cases hh
      · cases hh
    | _ => simp [hop5] at hh
  | n2 rn =>
    obtain ⟨shape, c, t, X⟩ := st
    obtain ⟨hrect, hc, ht, hok⟩ := inv
    cases shape with
    | tri s =>
      cases s with
      | nested names k =>
        simp only [hop5] at hh
        cases hh
        refine ⟨?_, ⟨hrect, hc, ht, trivial⟩⟩
        simp only [applyHop, holds5, holds, fromNestedTo2d_ok ops hrect hn hc names hok.1 k rn]
        rfl
      | _ => simp [hop5] at hh
    | _ => simp [hop5] at hh
  | a32 =>
    obtain ⟨shape, c, t, X⟩ := st
    obtain ⟨hrect, hc, ht, hok⟩ := inv
    cases shape with
    | tri s =>
      cases s with
      | arr3 =>
        simp only [hop5] at hh
        cases hh
        exact ⟨rfl, ⟨hrect, hc, ht, trivial⟩⟩
      | _ => simp [hop5] at hh
    | _ => simp [hop5] at hh
  | t2n cols k =>
    obtain ⟨shape, c, t, X⟩ := st
    obtain ⟨hrect, hc, ht, hok⟩ := inv
    have hne : (⟨none, tab2Rows X⟩ : Tab2 α).rows ≠ [] := by
      intro h0
      have : X.length = 0 := by simpa [tab2Rows] using congrArg List.length h0
      rw [hrect.1] at this; omega
    cases shape with
    | tab2 labels =>
      have h2 := from2dToNested_ok ops (⟨labels, tab2Rows X⟩ : Tab2 α) hne k
      cases cols with
      | none =>
        simp only [hop5] at hh
        cases hh
        refine ⟨?_, ⟨rect_panelOfRows hrect, Nat.one_pos, Nat.mul_pos hc ht, ⟨rfl, by simp⟩⟩⟩
        simp only [applyHop, holds5, holds, h2.1]; rfl
      | some ns =>
        match ns, hh with
        | [name], hh =>
          simp only [hop5] at hh
          cases hh
          refine ⟨?_, ⟨rect_panelOfRows hrect, Nat.one_pos, Nat.mul_pos hc ht, ⟨rfl, by simp⟩⟩⟩
          simp only [applyHop, holds5, holds, h2.2 name]; rfl
        | [], hh => simp [hop5] at hh
        | _ :: _ :: _, hh => simp [hop5] at hh
    | _ => simp [hop5] at hh

/-- any path over the five containers: by induction over the hops -/
theorem applyPath5_holds [DecidableEq ν] (ops : NameOps ν) (reserved : ν → Bool)
    (hd : ∀ c, (defaultNames ops c).Nodup) (hnle : TotalLE (fun a b : ν => !ops.lt b a))
    {n : Nat} (hn : 0 < n) (hs : List (Hop ν)) (st st' : PState ν α) (inv : Inv n st)
    (hp : path5 ops reserved hs st = some st') :
    applyPath ops reserved hs (holds5 st.shape st.X) = .ok (holds5 st'.shape st'.X) ∧ Inv n st' := by
  induction hs generalizing st with
  | nil => simp only [path5] at hp; cases hp; exact ⟨rfl, inv⟩
  | cons h hs ih =>
    simp only [path5] at hp
    cases hh : hop5 ops reserved h st with
    | none => rw [hh] at hp; cases hp
    | some s1 =>
      rw [hh] at hp
      have h1 := applyHop5_holds ops reserved hd hnle hn h st s1 inv hh
      simp only [applyPath, h1.1, bind, Except.bind]
      exact ih s1 h1.2 hp

end SkVerif.Panel.Lem
