/- C17 helper lemmas: the interval features (`_transform`, `_slope`) against the textbook formulas. -/
import SkVerif.Model.Proba
import SkVerif.Spec.Proba
import Mathlib.Tactic.Linarith
import Mathlib.Tactic.Ring
import Mathlib.Tactic.FieldSimp
import Mathlib.Tactic.Positivity
import Mathlib.Algebra.Order.Field.Rat
namespace SkVerif.C17.Lem
open SkVerif.C17

theorem timeIndex_eq (n : Nat) : timeIndex n = Spec.times n := rfl

theorem times_succ (n : Nat) : Spec.times (n + 1) = Spec.times n ++ [(n : Rat) + 1] := by
  simp [Spec.times, List.range_succ]

theorem times_length (n : Nat) : (Spec.times n).length = n := by simp [Spec.times]

theorem times_sum (n : Nat) : (Spec.times n).sum = (n : Rat) * ((n : Rat) + 1) / 2 := by
  induction n with
  | zero => simp [Spec.times]
  | succ n ih =>
    rw [times_succ, List.sum_append, ih]
    push_cast
    simp only [List.sum_cons, List.sum_nil]
    ring

theorem times_sq_sum (n : Nat) :
    ((Spec.times n).map (fun x => x * x)).sum = (n : Rat) * ((n : Rat) + 1) * (2 * (n : Rat) + 1) / 6 := by
  induction n with
  | zero => simp [Spec.times]
  | succ n ih =>
    rw [times_succ, List.map_append, List.sum_append, ih]
    push_cast
    simp only [List.map_cons, List.map_nil, List.sum_cons, List.sum_nil]
    ring

/-- Σ (t − c)(y − d) expanded -/
theorem cross_sum (ys ts : List Rat) (h : ys.length = ts.length) (c d : Rat) :
    (List.zipWith (fun y t => (t - c) * (y - d)) ys ts).sum =
      (List.zipWith (· * ·) ys ts).sum - d * ts.sum - c * ys.sum + (ys.length : Rat) * c * d := by
  induction ys generalizing ts with
  | nil => cases ts <;> simp_all
  | cons y ys ih =>
    cases ts with
    | nil => simp at h
    | cons t ts =>
      have := ih ts (by simpa using h)
      simp only [List.zipWith_cons_cons, List.sum_cons, List.length_cons, this]
      push_cast
      ring

theorem sq_sum (ts : List Rat) (c : Rat) :
    (ts.map (fun t => (t - c) * (t - c))).sum =
      (ts.map (fun t => t * t)).sum - 2 * c * ts.sum + (ts.length : Rat) * c * c := by
  induction ts with
  | nil => simp
  | cons t ts ih =>
    simp only [List.map_cons, List.sum_cons, List.length_cons, ih]
    push_cast
    ring

/-- the denominator of `_slope`: `mean(x²) − mean(x)²` for `x = 1..n` is `(n² − 1)/12` -/
theorem slope_den (n : Nat) (hn : 0 < n) :
    ((Spec.times n).map (fun x => x * x)).sum / (n : Rat) - (Spec.times n).sum / (n : Rat) * ((Spec.times n).sum / (n : Rat)) =
      (((n : Rat) * (n : Rat)) - 1) / 12 := by
  have hn0 : (n : Rat) ≠ 0 := by exact_mod_cast (Nat.pos_iff_ne_zero.mp hn)
  rw [times_sq_sum, times_sum]
  field_simp
  ring

theorem slope?_eq (ys : Row) (h : 2 ≤ ys.length) : slope? ys = some (Spec.olsSlope ys) := by
  have hne : ys.isEmpty = false := by cases ys <;> simp_all
  have hpos : 0 < ys.length := by omega
  have hn0 : (ys.length : Rat) ≠ 0 := by exact_mod_cast (Nat.pos_iff_ne_zero.mp hpos)
  have h2 : (2 : Rat) ≤ (ys.length : Rat) := by exact_mod_cast h
  have hden := slope_den ys.length hpos
  have hden' : ((timeIndex ys.length).map (fun x => x * x)).sum / (ys.length : Rat) -
      (timeIndex ys.length).sum / (ys.length : Rat) * ((timeIndex ys.length).sum / (ys.length : Rat)) =
      (((ys.length : Rat) * (ys.length : Rat)) - 1) / 12 := hden
  have hdpos : (0 : Rat) < (((ys.length : Rat) * (ys.length : Rat)) - 1) / 12 := by
    have : (4 : Rat) ≤ (ys.length : Rat) * (ys.length : Rat) := by nlinarith
    linarith
  unfold slope?
  simp only [hne, Bool.false_eq_true, if_false]
  split
  · rename_i h0
    rw [hden'] at h0
    linarith
  · congr 1
    rw [hden']
    simp only [timeIndex_eq]
    dsimp only [Spec.olsSlope]
    have hl : ys.length = (Spec.times ys.length).length := (times_length _).symm
    rw [cross_sum ys (Spec.times ys.length) hl, sq_sum, times_length]
    unfold Spec.mean
    rw [times_length]
    have hd' : ((Spec.times ys.length).map (fun t => t * t)).sum - 2 * ((Spec.times ys.length).sum / (ys.length : Rat)) * (Spec.times ys.length).sum
        + (ys.length : Rat) * ((Spec.times ys.length).sum / (ys.length : Rat)) * ((Spec.times ys.length).sum / (ys.length : Rat))
        = (ys.length : Rat) * ((((ys.length : Rat) * (ys.length : Rat)) - 1) / 12) := by
      rw [← hden]; field_simp; ring
    rw [hd']
    have hne2 : (((ys.length : Rat) * (ys.length : Rat)) - 1) / 12 ≠ 0 := ne_of_gt hdpos
    have hne3 : ((ys.length : Rat) * (ys.length : Rat)) - 1 ≠ 0 := by
      intro e; rw [e] at hdpos; simp at hdpos
    field_simp
    ring

theorem slope?_single (y : Rat) : slope? [y] = none := by
  simp [slope?, timeIndex]

theorem mean?_eq (xs : Row) (h : xs ≠ []) : mean? xs = some (Spec.mean xs) := by
  cases xs with
  | nil => exact absurd rfl h
  | cons a l => simp [mean?, Spec.mean]

theorem var?_eq (xs : Row) (h : xs ≠ []) : var? xs = some (Spec.variance xs) := by
  simp only [var?, mean?_eq xs h]
  rfl

theorem variance_nonneg (xs : Row) : 0 ≤ Spec.variance xs := by
  unfold Spec.variance
  apply div_nonneg
  · generalize Spec.mean xs = m
    induction xs with
    | nil => simp
    | cons a l ih =>
      simp only [List.map_cons, List.sum_cons]
      have : 0 ≤ (a - m) * (a - m) := mul_self_nonneg _
      linarith
  · exact_mod_cast Nat.zero_le _

theorem slice_length (row : Row) (a b : Nat) (hb : b ≤ row.length) : (slice row a b).length = b - a := by
  simp [slice]; omega

theorem transformRow_cons (iv : Nat × Nat) (ivs : List (Nat × Nat)) (row : Row) :
    transformRow (iv :: ivs) row =
      [mean? (slice row iv.1 iv.2), var? (slice row iv.1 iv.2), slope? (slice row iv.1 iv.2)] ++ transformRow ivs row := by
  simp [transformRow]

theorem transformRow_length (ivs : List (Nat × Nat)) (row : Row) : (transformRow ivs row).length = 3 * ivs.length := by
  induction ivs with
  | nil => simp [transformRow]
  | cons iv ivs ih => rw [transformRow_cons]; simp [ih]; omega

theorem transformRow_getElem? (ivs : List (Nat × Nat)) (row : Row) (j : Nat) (iv : Nat × Nat) (h : ivs[j]? = some iv) :
    (transformRow ivs row)[3 * j]? = some (mean? (slice row iv.1 iv.2)) ∧
    (transformRow ivs row)[3 * j + 1]? = some (var? (slice row iv.1 iv.2)) ∧
    (transformRow ivs row)[3 * j + 2]? = some (slope? (slice row iv.1 iv.2)) := by
  induction ivs generalizing j with
  | nil => simp at h
  | cons iv0 ivs ih =>
    rw [transformRow_cons]
    cases j with
    | zero =>
      simp only [List.getElem?_cons_zero, Option.some.injEq] at h
      subst h
      simp
    | succ j =>
      simp only [List.getElem?_cons_succ] at h
      obtain ⟨h0, h1, h2⟩ := ih j h
      have e0 : 3 * (j + 1) = 3 * j + 3 := by ring
      refine ⟨?_, ?_, ?_⟩
      · rw [List.getElem?_append_right (by simp)]
        simp only [List.length_cons, List.length_nil]
        rw [show 3 * (j + 1) - (0 + 1 + 1 + 1) = 3 * j by omega]; exact h0
      · rw [List.getElem?_append_right (by simp; omega)]
        simp only [List.length_cons, List.length_nil]
        rw [show 3 * (j + 1) + 1 - (0 + 1 + 1 + 1) = 3 * j + 1 by omega]; exact h1
      · rw [List.getElem?_append_right (by simp; omega)]
        simp only [List.length_cons, List.length_nil]
        rw [show 3 * (j + 1) + 2 - (0 + 1 + 1 + 1) = 3 * j + 2 by omega]; exact h2

end SkVerif.C17.Lem
