/- Helper lemmas for C11 (naive forecaster model vs textbook specification). -/
import SkVerif.Model.Naive
import SkVerif.Spec.Naive
import SkVerif.Lemmas.Sort
import Mathlib.Tactic.Ring
import Mathlib.Tactic.Linarith
namespace SkVerif.Lem.Naive
open SkVerif SkVerif.Naive

instance instDecEqExcept {ε α} [DecidableEq ε] [DecidableEq α] : DecidableEq (Except ε α) := fun a b =>
  match a, b with
  | .ok x, .ok y => if h : x = y then isTrue (congrArg _ h) else isFalse (fun h' => by cases h'; exact h rfl)
  | .error x, .error y => if h : x = y then isTrue (congrArg _ h) else isFalse (fun h' => by cases h'; exact h rfl)
  | .ok _, .error _ => isFalse (fun h => by cases h)
  | .error _, .ok _ => isFalse (fun h => by cases h)

/-! ### mapE -/

theorem mapE_ok {α β} (f : α → Except Err β) (g : α → β) (l : List α)
    (h : ∀ a ∈ l, f a = .ok (g a)) : mapE f l = .ok (l.map g) := by
  induction l with
  | nil => rfl
  | cons a l ih =>
    have ha := h a (by simp)
    have hl := ih (fun b hb => h b (by simp [hb]))
    simp [mapE, ha, hl]

/-! ### nanmean = meanOf -/

theorem present_eq (l : List Val) : Spec.Naive.present l = l.filterMap id := by
  induction l with
  | nil => rfl
  | cons a l ih => cases a <;> simp [Spec.Naive.present, ih]

theorem total_eq (l : List Rat) : Spec.Naive.total l = l.sum := by
  induction l with
  | nil => rfl
  | cons a l ih => simp [Spec.Naive.total, ih]

theorem nanmean_eq_meanOf (l : List Val) : nanmean l = Spec.Naive.meanOf l := by
  unfold nanmean Spec.Naive.meanOf
  rw [present_eq]
  cases h : l.filterMap id with
  | nil => simp
  | cons x r => simp [total_eq]

theorem allNaN_iff (w : List Val) : allNaN w = true ↔ ∀ v ∈ w, v = none := by
  simp [allNaN, List.all_eq_true, Option.isNone_iff_eq_none]

theorem present_of_allNone (l : List Val) (h : ∀ v ∈ l, v = none) : Spec.Naive.present l = [] := by
  induction l with
  | nil => rfl
  | cons a l ih =>
    have := h a (by simp); subst this
    simp [Spec.Naive.present]; exact ih (fun v hv => h v (by simp [hv]))

theorem meanOf_of_allNone (l : List Val) (h : ∀ v ∈ l, v = none) : Spec.Naive.meanOf l = none := by
  simp [Spec.Naive.meanOf, present_of_allNone l h]

/-! ### tiling and integer-array indexing -/

theorem tile_succ {α} (l : List α) (r : Nat) : tile l (r + 1) = l ++ tile l r := by
  simp [tile, List.replicate_succ]

theorem tile_length {α} (l : List α) (r : Nat) : (tile l r).length = r * l.length := by
  induction r with
  | zero => simp [tile]
  | succ r ih => rw [tile_succ, List.length_append, ih]; ring

theorem tile_getElem? {α} (l : List α) (r i : Nat) (hi : i < r * l.length) :
    (tile l r)[i]? = l[i % l.length]? := by
  induction r generalizing i with
  | zero => simp at hi
  | succ r ih =>
    rw [tile_succ]
    by_cases h : i < l.length
    · rw [List.getElem?_append_left h, Nat.mod_eq_of_lt h]
    · have hge : l.length ≤ i := Nat.le_of_not_lt h
      rw [List.getElem?_append_right hge, ih (i - l.length) (by
        have : (r + 1) * l.length = r * l.length + l.length := by ring
        omega)]
      rw [Nat.mod_eq_sub_mod hge]

theorem npGet_nat {α} (l : List α) (i : Nat) (v : α) (h : l[i]? = some v) : npGet l (i : Int) = .ok v := by
  unfold npGet
  have h0 : ¬ ((i : Int) < 0) := by omega
  simp [h0, h]

theorem ceilDiv_mul_ge (a : Int) (b : Nat) (hb : 0 < b) (ha : 0 ≤ a) : a ≤ (ceilDiv a b : Int) * (b : Int) := by
  unfold ceilDiv
  have hb' : (0 : Int) < (b : Int) := by exact_mod_cast hb
  have h1 := Int.emod_add_mul_ediv (a + b - 1) b
  have h2 := Int.emod_lt_of_pos (a + b - 1) hb'
  have h3 : 0 ≤ (a + (b : Int) - 1) / (b : Int) := Int.ediv_nonneg (by omega) (by omega)
  rw [Int.toNat_of_nonneg h3]
  nlinarith

/-- the element picked for step `h` out of a full seasonal window, tiled when the horizon needs it -/
theorem npGet_tileIfNeeded {α} (l : List α) (sp : Nat) (hlen : l.length = sp) (hsp : 0 < sp)
    (fhLast h : Int) (h1 : 1 ≤ h) (hle : h ≤ fhLast) (v : α)
    (hv : l[((h - 1) % (sp : Int)).toNat]? = some v) :
    npGet (tileIfNeeded sp fhLast l) (h - 1) = .ok v := by
  have hsp' : (0 : Int) < (sp : Int) := by exact_mod_cast hsp
  obtain ⟨i, hi⟩ : ∃ i : Nat, h - 1 = (i : Int) := ⟨(h - 1).toNat, by omega⟩
  rw [hi] at hv ⊢
  have hmod : (((i : Int) % (sp : Int)).toNat) = i % sp := by
    rw [← Int.natCast_mod, Int.toNat_natCast]
  rw [hmod] at hv
  unfold tileIfNeeded
  split
  · rename_i hgt
    apply npGet_nat
    rw [tile_getElem? l _ i, hlen]
    · exact hv
    · rw [hlen]
      have := ceilDiv_mul_ge fhLast sp hsp (by omega)
      have : (i : Int) < (ceilDiv fhLast sp : Int) * (sp : Int) := by omega
      exact_mod_cast this
  · rename_i hng
    apply npGet_nat
    have : i < sp := by omega
    rw [Nat.mod_eq_of_lt this] at hv
    exact hv

/-! ### the observation window -/
open SkVerif.Spec.Naive (window windowTimes seasonsBack)

theorem window_length (y : Int → Val) (T : Int) (L : Nat) : (window y T L).length = L := by
  simp [window, windowTimes]

theorem window_getElem? (y : Int → Val) (T : Int) (L k : Nat) (hk : k < L) :
    (window y T L)[k]? = some (y (T - (L : Int) + 1 + (k : Int))) := by
  simp [window, windowTimes, hk]

theorem window_mem (y : Int → Val) (T : Int) (L : Nat) (v : Val) (hv : v ∈ window y T L) :
    ∃ k : Nat, k < L ∧ v = y (T - (L : Int) + 1 + (k : Int)) := by
  simp [window, windowTimes] at hv
  obtain ⟨k, hk, rfl⟩ := hv
  exact ⟨k, hk, rfl⟩

theorem seasonalLast_index (T h : Int) (sp : Nat) (hsp : 0 < sp) :
    T + h - (sp : Int) * seasonsBack h sp = T - (sp : Int) + 1 + ((h - 1) % (sp : Int)) := by
  unfold seasonsBack
  have hsp' : (sp : Int) ≠ 0 := by omega
  have e : h + (sp : Int) - 1 = (h - 1) + 1 * (sp : Int) := by ring
  rw [e, Int.add_mul_ediv_right _ _ hsp']
  have := Int.emod_add_mul_ediv (h - 1) sp
  linarith

/-! ### seasonal columns -/
open SkVerif.Spec.Naive (sameSeason)

theorem filter_range_eq (n k : Nat) (hk : k < n) : (List.range n).filter (fun j => j == k) = [k] := by
  induction n with
  | zero => omega
  | succ n ih =>
    rw [List.range_succ, List.filter_append]
    by_cases h : k < n
    · rw [ih h]
      have : ¬ (n = k) := by omega
      simp [this]
    · have hk' : k = n := by omega
      subst hk'
      have : (List.range k).filter (fun j => j == k) = [] := by
        apply List.filter_eq_nil_iff.mpr
        intro a ha; simp at ha; simp; omega
      rw [this]; simp

/-- positions of one residue class in a row-major `rows × sp` layout -/
theorem filter_range_mod (rows sp k : Nat) (hk : k < sp) :
    (List.range (rows * sp)).filter (fun i => i % sp == k) = (List.range rows).map (fun r => r * sp + k) := by
  induction rows with
  | zero => simp
  | succ r ih =>
    have e : (r + 1) * sp = r * sp + sp := by ring
    rw [e, List.range_add, List.filter_append, ih, List.range_succ, List.map_append]
    congr 1
    rw [List.filter_map]
    have : (fun i => i % sp == k) ∘ (fun x => r * sp + x) = fun j => (r * sp + j) % sp == k := rfl
    rw [this]
    have hc : (List.range sp).filter (fun j => (r * sp + j) % sp == k) = (List.range sp).filter (fun j => j == k) := by
      apply List.filter_congr
      intro j hj
      simp at hj
      rw [Nat.mul_add_mod_self_right, Nat.mod_eq_of_lt hj]
    rw [hc, filter_range_eq sp k hk]
    simp

theorem column_window (y : Int → Val) (T : Int) (rows sp k : Nat) (hk : k < sp) :
    column (window y T (rows * sp)) rows sp k
      = (List.range rows).map (fun r => y (T - ((rows * sp : Nat) : Int) + 1 + ((r * sp + k : Nat) : Int))) := by
  unfold column
  apply List.map_congr_left
  intro r hr
  simp at hr
  have : r * sp + k < rows * sp := by
    have : (r + 1) * sp ≤ rows * sp := Nat.mul_le_mul_right sp hr
    have e : (r + 1) * sp = r * sp + sp := by ring
    omega
  rw [window_getElem? y T _ _ this]
  simp

/-- with a window that holds whole seasons, "same season as T+h" selects the residue class of `h-1` -/
theorem sameSeason_index (T h : Int) (rows sp : Nat) (hsp : 0 < sp) (i : Nat) :
    sameSeason T sp h (T - ((rows * sp : Nat) : Int) + 1 + (i : Int)) = (i % sp == ((h - 1) % (sp : Int)).toNat) := by
  unfold sameSeason
  have hsp' : (0 : Int) < (sp : Int) := by exact_mod_cast hsp
  have e : T - ((rows * sp : Nat) : Int) + 1 + (i : Int) - (T + h) = ((i : Int) - (h - 1)) - (rows : Int) * (sp : Int) := by
    push_cast; ring
  rw [e, Int.sub_mul_emod_self_right]
  have hm : 0 ≤ (h - 1) % (sp : Int) := Int.emod_nonneg _ (by omega)
  have key : (((i : Int) - (h - 1)) % (sp : Int) = 0) ↔ (i % sp = ((h - 1) % (sp : Int)).toNat) := by
    rw [← Int.emod_eq_emod_iff_emod_sub_eq_zero]
    constructor
    · intro hh
      have : ((i % sp : Nat) : Int) = (h - 1) % (sp : Int) := by rw [Int.natCast_mod]; exact hh
      omega
    · intro hh
      rw [← Int.natCast_mod, hh, Int.toNat_of_nonneg hm]
  by_cases c : ((i : Int) - (h - 1)) % (sp : Int) = 0
  · have := key.mp c
    simp [c, this]
  · have : ¬ (i % sp = ((h - 1) % (sp : Int)).toNat) := fun hh => c (key.mpr hh)
    simp [c, this]

/-- the same-season observations of a whole-seasons window are one column of its `rows × sp` layout -/
theorem sameSeason_column (y : Int → Val) (T h : Int) (rows sp : Nat) (hsp : 0 < sp) :
    ((windowTimes T (rows * sp)).filter (sameSeason T sp h)).map y
      = column (window y T (rows * sp)) rows sp ((h - 1) % (sp : Int)).toNat := by
  have hsp' : (0 : Int) < (sp : Int) := by exact_mod_cast hsp
  have hk : ((h - 1) % (sp : Int)).toNat < sp := by
    have := Int.emod_lt_of_pos (h - 1) hsp'
    have := Int.emod_nonneg (h - 1) (show (sp : Int) ≠ 0 by omega)
    omega
  rw [column_window y T rows sp _ hk]
  unfold windowTimes
  rw [List.filter_map, List.map_map]
  have hc : (List.range (rows * sp)).filter (sameSeason T sp h ∘ fun (i : Nat) => T - ((rows * sp : Nat) : Int) + 1 + (i : Int))
      = (List.range (rows * sp)).filter (fun i => i % sp == ((h - 1) % (sp : Int)).toNat) := by
    apply List.filter_congr
    intro i _
    exact sameSeason_index T h rows sp hsp i
  rw [hc, filter_range_mod rows sp _ hk, List.map_map]
  rfl

/-! ### label slicing of the remembered series -/

/-- the series as a function of its integer labels (`none` outside) -/
def asFn (y : List Val) (origin : Int) (t : Int) : Val :=
  if t < origin then none else (y[(t - origin).toNat]?).getD none

theorem mapE_map {α β γ} (f : β → Except Err γ) (g : α → β) (l : List α) :
    mapE f (l.map g) = mapE (fun a => f (g a)) l := by
  induction l with
  | nil => rfl
  | cons a l ih => simp [mapE, ih]

theorem mapE_congr {α β} (f g : α → Except Err β) (l : List α) (h : ∀ a ∈ l, f a = g a) :
    mapE f l = mapE g l := by
  induction l with
  | nil => rfl
  | cons a l ih =>
    simp only [mapE, h a (by simp), ih (fun b hb => h b (by simp [hb]))]

/-- `_get_last_window` on contiguous labels = the (at most `wl`) observations up to the cutoff -/
theorem lastWindow_eq_window (y : List Val) (origin : Int) (wl : Nat) (cut : Int)
    (hlo : origin ≤ cut) (hhi : cut ≤ origin + (y.length : Int) - 1) :
    lastWindow y origin wl cut = window (asFn y origin) cut (min wl (cut - origin + 1).toNat) := by
  unfold lastWindow locSlice
  have hhi' : (if cut > origin + (y.length : Int) - 1 then origin + (y.length : Int) - 1 else cut) = cut := by
    split <;> omega
  by_cases hwl : wl = 0
  · subst hwl
    have hlo0 : (if cut - ((0 : Nat) : Int) + 1 < origin then origin else cut - ((0 : Nat) : Int) + 1) = cut + 1 := by
      split <;> omega
    simp only [hlo0, hhi']
    simp [window, windowTimes]
  apply List.ext_getElem?
  intro k
  have hwlpos : 0 < wl := Nat.pos_of_ne_zero hwl
  set m := min wl (cut - origin + 1).toNat with hm
  have hm1 : 1 ≤ m := by omega
  have hmle : (m : Int) ≤ cut - origin + 1 := by omega
  have hlo' : (if cut - (wl : Int) + 1 < origin then origin else cut - (wl : Int) + 1) = cut - (m : Int) + 1 := by
    split <;> omega
  simp only [hlo', hhi']
  have hnot : ¬ (cut < cut - (m : Int) + 1) := by omega
  simp only [hnot, ↓reduceIte]
  have e1 : (cut - (cut - (m : Int) + 1) + 1).toNat = m := by omega
  rw [e1]
  by_cases hk : k < m
  · rw [List.getElem?_take_of_lt hk, List.getElem?_drop, window_getElem? _ _ _ _ hk]
    have hidx : (cut - (m : Int) + 1 - origin).toNat + k < y.length := by omega
    have hnlt : ¬ (cut - (m : Int) + 1 + (k : Int) < origin) := by omega
    have e2 : (cut - (m : Int) + 1 + (k : Int) - origin).toNat = (cut - (m : Int) + 1 - origin).toNat + k := by omega
    simp only [asFn, hnlt, ↓reduceIte, e2]
    rw [List.getElem?_eq_getElem hidx]; simp
  · have h1 : ((List.drop (cut - (m : Int) + 1 - origin).toNat y).take m)[k]? = none := by
      apply List.getElem?_eq_none
      simp; omega
    have h2 : (window (asFn y origin) cut m)[k]? = none := by
      apply List.getElem?_eq_none
      rw [window_length]; omega
    rw [h1, h2]

theorem lastWindow_before_start (y : List Val) (origin : Int) (wl : Nat) :
    lastWindow y origin wl (origin - 1) = [] := by
  unfold lastWindow locSlice
  have : (if origin - 1 > origin + (y.length : Int) - 1 then origin + (y.length : Int) - 1 else origin - 1)
      < (if origin - 1 - (wl : Int) + 1 < origin then origin else origin - 1 - (wl : Int) + 1) := by
    split <;> split <;> omega
  rw [if_pos this]

/-! ### in-sample forecasts by moving the cutoff -/

/-- the forecast `_predict_in_sample` produces for positional cutoff `q`: made one step ahead from the window that
ends at position `q` (nothing observed yet for `q < 0`: the cutoff stays just before the series) -/
def oneStepAhead (st : Strategy) (sp wl : Nat) (y : List Val) (origin : Int) (q : Int) : Except Err (Int × Val) :=
  let cut := if q < 0 then origin - 1 else origin + q
  match predictLastWindow st sp wl (lastWindow y origin wl cut) [1] with
  | .error e => .error e
  | .ok v => .ok (cut + 1, v.headD none)

theorem inSampleGo_eq (st : Strategy) (sp wl : Nat) (y : List Val) (origin : Int) (qs : List Int) (cut : Int)
    (hs : qs.Pairwise (· < ·)) (hinv : cut = origin - 1 ∨ ∀ q ∈ qs, 0 ≤ q) :
    inSampleGo st sp wl y origin qs cut = mapE (oneStepAhead st sp wl y origin) qs := by
  induction qs generalizing cut with
  | nil => rfl
  | cons q qs ih =>
    have hs' := (List.pairwise_cons.mp hs).2
    have hgt := (List.pairwise_cons.mp hs).1
    have hcut : (if q < 0 then cut else origin + q) = (if q < 0 then origin - 1 else origin + q) := by
      by_cases hq : q < 0
      · rcases hinv with h | h
        · simp [hq, h]
        · have := h q (by simp); omega
      · simp [hq]
    have hinv' : (if q < 0 then cut else origin + q) = origin - 1 ∨ ∀ q' ∈ qs, 0 ≤ q' := by
      by_cases hq : q < 0
      · left; rw [hcut]; simp [hq]
      · right; intro q' hq'; have := hgt q' hq'; omega
    have ih' := ih (if q < 0 then cut else origin + q) hs' hinv'
    rw [hcut] at ih'
    simp only [inSampleGo, mapE, oneStepAhead, ih', hcut]
    cases predictLastWindow st sp wl (lastWindow y origin wl (if q < 0 then origin - 1 else origin + q)) [1] with
    | error e => rfl
    | ok v =>
      simp only
      cases mapE (oneStepAhead st sp wl y origin) qs <;> rfl

theorem map_add_pairwise (l : List Int) (c : Int) (hs : l.Pairwise (· < ·)) :
    (l.map (fun s => s + c)).Pairwise (· < ·) := by
  rw [List.pairwise_map]
  exact hs.imp (by intro a b h; omega)

theorem getLast?_map_le (l : List Int) (c b : Int) (h : ∀ s ∈ l, s ≤ b) (mx : Int)
    (hm : (l.map (fun s => s + c)).getLast? = some mx) : mx ≤ b + c := by
  have hmem := List.mem_of_getLast? hm
  simp at hmem
  obtain ⟨a, ha, rfl⟩ := hmem
  have := h a ha; omega

/-- `_predict_in_sample`: for a sorted, non-empty list of in-sample steps the moving-cutoff loop yields, for every
step `s`, the one-step-ahead forecast from positional cutoff `s + n − 2` -/
theorem predictInSample_eq (st : Strategy) (sp wl : Nat) (y : List Val) (origin : Int) (steps : List Int)
    (hs : steps.Pairwise (· < ·)) (hne : steps ≠ []) (hle : ∀ s ∈ steps, s ≤ 0) :
    predictInSample st sp wl y origin steps
      = mapE (fun s => oneStepAhead st sp wl y origin (s + (y.length : Int) - 2)) steps := by
  unfold predictInSample
  have hmap : steps.map (fun s => s + (y.length : Int) - 2) = steps.map (fun s => s + ((y.length : Int) - 2)) := by
    apply List.map_congr_left; intro a _; omega
  have hsorted := map_add_pairwise steps ((y.length : Int) - 2) hs
  have hsort : sortInts (steps.map (fun s => s + (y.length : Int) - 2)) = steps.map (fun s => s + ((y.length : Int) - 2)) := by
    rw [hmap]
    exact Lem.sortInts_of_sorted _ (hsorted.imp (by intro a b h; omega))
  simp only [hsort]
  cases hl : (steps.map (fun s => s + ((y.length : Int) - 2))).getLast? with
  | none =>
    simp at hl; exact absurd hl hne
  | some mx =>
    have hmx := getLast?_map_le steps _ 0 hle mx hl
    have h1 : ¬ (mx ≥ (y.length : Int)) := by omega
    have h2 : ¬ (mx + 1 ≥ (y.length : Int)) := by omega
    simp only [h1, h2, ↓reduceIte]
    rw [inSampleGo_eq st sp wl y origin _ (origin - 1) hsorted (Or.inl rfl), mapE_map]
    apply mapE_congr
    intro a _
    have : a + ((y.length : Int) - 2) = a + (y.length : Int) - 2 := by omega
    rw [this]


theorem le_getLast (l : List Int) (hs : l.Pairwise (· < ·)) (h : Int) (hh : h ∈ l) : h ≤ l.getLast?.getD 0 := by
  induction l generalizing h with
  | nil => cases hh
  | cons a l ih =>
    cases l with
    | nil => simp at hh; subst hh; simp
    | cons b t =>
      have hs' : (b :: t).Pairwise (· < ·) := (List.pairwise_cons.mp hs).2
      have hlast : (a :: b :: t).getLast?.getD 0 = (b :: t).getLast?.getD 0 := by simp [List.getLast?_cons_cons]
      rw [hlast]
      rcases List.mem_cons.mp hh with rfl | hm
      · have hb := ih hs' b (by simp)
        have hab : h < b := (List.pairwise_cons.mp hs).1 b (by simp)
        omega
      · exact ih hs' h hm

theorem isEmpty_false_of_not_allNaN (w : List Val) (h : ¬ allNaN w = true) : w.isEmpty = false := by
  cases w with
  | nil => simp [allNaN] at h
  | cons a l => rfl

/-! ### NaN padding at the front of the window -/
open SkVerif.Spec.Naive (meanOf present)

/-- the series with everything before time `s` blanked -/
def blankBefore (y : Int → Val) (s : Int) : Int → Val := fun t => if t < s then none else y t

theorem windowTimes_add (T : Int) (P L : Nat) :
    windowTimes T (P + L)
      = (List.range P).map (fun (i : Nat) => T - ((P + L : Nat) : Int) + 1 + (i : Int)) ++ windowTimes T L := by
  unfold windowTimes
  rw [List.range_add, List.map_append, List.map_map]
  congr 1
  apply List.map_congr_left
  intro i _
  simp only [Function.comp]; push_cast; omega

/-- NaN padding at the front = a longer window of the series blanked before the window start -/
theorem pad_front_eq_window (y : Int → Val) (T : Int) (P L : Nat) :
    List.replicate P none ++ window y T L = window (blankBefore y (T - (L : Int) + 1)) T (P + L) := by
  unfold window
  rw [windowTimes_add, List.map_append, List.map_map]
  congr 1
  · apply List.ext_getElem?
    intro k
    by_cases hk : k < P
    · simp [hk, blankBefore]; omega
    · simp [hk]
  · apply List.map_congr_left
    intro t ht
    simp only [windowTimes, List.mem_map, List.mem_range] at ht
    obtain ⟨i, _, rfl⟩ := ht
    have : ¬ (T - (L : Int) + 1 + (i : Int) < T - (L : Int) + 1) := by omega
    simp [blankBefore, this]

theorem present_append (a b : List Val) : present (a ++ b) = present a ++ present b := by
  rw [present_eq, present_eq, present_eq, List.filterMap_append]

theorem meanOf_append_allNone (a b : List Val) (h : ∀ v ∈ a, v = none) : meanOf (a ++ b) = meanOf b := by
  unfold meanOf
  rw [present_append, present_of_allNone a h, List.nil_append]

/-- blanking the padded part does not change the same-season mean -/
theorem seasonalMean_blank (y : Int → Val) (T h : Int) (sp P L : Nat) :
    meanOf (((windowTimes T (P + L)).filter (sameSeason T sp h)).map (blankBefore y (T - (L : Int) + 1)))
      = meanOf (((windowTimes T L).filter (sameSeason T sp h)).map y) := by
  rw [windowTimes_add, List.filter_append, List.map_append, meanOf_append_allNone]
  · congr 1
    apply List.map_congr_left
    intro t ht
    have ht' := (List.mem_filter.mp ht).1
    simp only [windowTimes, List.mem_map, List.mem_range] at ht'
    obtain ⟨i, _, rfl⟩ := ht'
    have : ¬ (T - (L : Int) + 1 + (i : Int) < T - (L : Int) + 1) := by omega
    simp [blankBefore, this]
  · intro v hv
    simp only [List.mem_map] at hv
    obtain ⟨t, ht, rfl⟩ := hv
    have ht' := (List.mem_filter.mp ht).1
    simp only [List.mem_map, List.mem_range] at ht'
    obtain ⟨i, hi, rfl⟩ := ht'
    have : T - ((P + L : Nat) : Int) + 1 + (i : Int) < T - (L : Int) + 1 := by push_cast; omega
    simp only [blankBefore, this, ↓reduceIte]

/-- the pad width makes the padded length a whole number of seasons -/
theorem pad_rows (L sp : Nat) (hsp : 0 < sp) :
    ∃ rows, (if L % sp > 0 then sp - L % sp else 0) + L = rows * sp := by
  have hd := Nat.div_add_mod L sp
  have hlt := Nat.mod_lt L hsp
  by_cases h : L % sp > 0
  · refine ⟨L / sp + 1, ?_⟩
    simp only [h, ↓reduceIte]
    have : (L / sp + 1) * sp = sp * (L / sp) + sp := by ring
    omega
  · refine ⟨L / sp, ?_⟩
    simp only [h, ↓reduceIte]
    have : L / sp * sp = sp * (L / sp) := by ring
    omega

end SkVerif.Lem.Naive
