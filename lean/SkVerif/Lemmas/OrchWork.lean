/- The work list built by `_iter` (`mkWork`) has injective keys under the HDD naming scheme. -/
import SkVerif.Lemmas.OrchApi
set_option linter.unusedSectionVars false
namespace SkVerif.Orch.Lem
open SkVerif.Orch SkVerif.Orch.Spec

variable {N : Type} [DecidableEq N]

theorem inj_of_nodup_map {α β} (f : α → β) (l : List α) (h : (l.map f).Nodup) :
    ∀ x ∈ l, ∀ y ∈ l, f x = f y → x = y := by
  induction l with
  | nil => intro x hx; cases hx
  | cons a t ih =>
    rw [List.map_cons, List.nodup_cons] at h
    intro x hx y hy e
    rcases List.mem_cons.1 hx with ex | hx' <;> rcases List.mem_cons.1 hy with ey | hy'
    · rw [ex, ey]
    · exfalso; apply h.1; rw [← ex, e]; exact List.mem_map_of_mem (f := f) hy'
    · exfalso; apply h.1; rw [← ey, ← e]; exact List.mem_map_of_mem (f := f) hx'
    · exact ih h.2 x hx' y hy' e

theorem nodup_flatMap_of {α β} (l : List α) (f : α → List β) (h1 : ∀ x ∈ l, (f x).Nodup)
    (h2 : l.Pairwise (fun x y => ∀ a ∈ f x, a ∉ f y)) : (l.flatMap f).Nodup := by
  induction l with
  | nil => simp
  | cons x t ih =>
    rw [List.flatMap_cons, List.nodup_append]
    have h2' := List.pairwise_cons.1 h2
    refine ⟨h1 x List.mem_cons_self, ih (fun y hy => h1 y (List.mem_cons_of_mem _ hy)) h2'.2, ?_⟩
    intro a ha b hb e
    subst e
    obtain ⟨y, hy, hay⟩ := List.mem_flatMap.1 hb
    exact h2'.1 y hy a ha hay

theorem mem_foldItems (s : Strat N) (d : DS N) (i : Nat) (fs : List (List Nat × List Nat)) (it : Item N) :
    it ∈ foldItems s d i fs ↔
      ∃ j tr te, fs[j]? = some (tr, te) ∧ it = ⟨s.name, s.p, d.name, d.data, i + j, tr, te⟩ := by
  induction fs generalizing i with
  | nil => simp [foldItems]
  | cons a t ih =>
    obtain ⟨tr0, te0⟩ := a
    simp only [foldItems, List.mem_cons, ih]
    constructor
    · rintro (e | ⟨j, tr, te, hj, e⟩)
      · exact ⟨0, tr0, te0, by simp, by simpa using e⟩
      · exact ⟨j + 1, tr, te, by simpa using hj, by rw [e]; congr 1; omega⟩
    · rintro ⟨j, tr, te, hj, e⟩
      cases j with
      | zero => simp at hj; left; rw [e]; simp [hj.1, hj.2]
      | succ j => right; exact ⟨j, tr, te, by simpa using hj, by rw [e]; congr 1; omega⟩

theorem foldItems_nodup (s : Strat N) (d : DS N) (i : Nat) (fs : List (List Nat × List Nat)) :
    (foldItems s d i fs).Nodup := by
  induction fs generalizing i with
  | nil => simp [foldItems]
  | cons a t ih =>
    obtain ⟨tr0, te0⟩ := a
    simp only [foldItems, List.nodup_cons]
    refine ⟨?_, ih (i + 1)⟩
    intro hm
    obtain ⟨j, tr, te, _, e⟩ := (mem_foldItems s d (i + 1) t _).1 hm
    have := congrArg Item.fold e
    simp at this
    omega

theorem mem_mkWork (dss : List (DS N)) (strats : List (Strat N)) (it : Item N) :
    it ∈ mkWork dss strats ↔ ∃ d ∈ dss, ∃ s ∈ strats, it ∈ foldItems s d 0 d.folds := by
  simp [mkWork, List.mem_flatMap]

/-- items of the work list with the same strategy name, dataset name and fold number are the same item -/
theorem mkWork_inj (dss : List (DS N)) (strats : List (Strat N))
    (hd : (dss.map (·.name)).Nodup) (hs : (strats.map (·.name)).Nodup)
    (a b : Item N) (ha : a ∈ mkWork dss strats) (hb : b ∈ mkWork dss strats)
    (e1 : a.s = b.s) (e2 : a.d = b.d) (e3 : a.fold = b.fold) : a = b := by
  obtain ⟨da, hda, sa, hsa, hma⟩ := (mem_mkWork dss strats a).1 ha
  obtain ⟨db, hdb, sb, hsb, hmb⟩ := (mem_mkWork dss strats b).1 hb
  obtain ⟨ja, tra, tea, hja, ea⟩ := (mem_foldItems sa da 0 da.folds a).1 hma
  obtain ⟨jb, trb, teb, hjb, eb⟩ := (mem_foldItems sb db 0 db.folds b).1 hmb
  subst ea; subst eb
  simp only at e1 e2 e3
  have hdd := inj_of_nodup_map (·.name) dss hd da hda db hdb e2
  have hss := inj_of_nodup_map (·.name) strats hs sa hsa sb hsb e1
  subst hdd; subst hss
  have : ja = jb := by omega
  subst this
  rw [hja] at hjb
  cases hjb
  rfl

theorem mkWork_nodup (dss : List (DS N)) (strats : List (Strat N))
    (hd : (dss.map (·.name)).Nodup) (hs : (strats.map (·.name)).Nodup) : (mkWork dss strats).Nodup := by
  unfold mkWork
  apply nodup_flatMap_of
  · intro d _
    apply nodup_flatMap_of
    · intro s _; exact foldItems_nodup s d 0 d.folds
    · have := List.pairwise_map.1 hs
      refine this.imp ?_
      intro s1 s2 hne a ha1 ha2
      obtain ⟨_, _, _, _, e1⟩ := (mem_foldItems s1 d 0 d.folds a).1 ha1
      obtain ⟨_, _, _, _, e2⟩ := (mem_foldItems s2 d 0 d.folds a).1 ha2
      exact hne (by rw [e1] at e2; exact congrArg Item.s e2)
  · have := List.pairwise_map.1 hd
    refine this.imp ?_
    intro d1 d2 hne a ha1 ha2
    obtain ⟨s1, _, hm1⟩ := List.mem_flatMap.1 ha1
    obtain ⟨s2, _, hm2⟩ := List.mem_flatMap.1 ha2
    obtain ⟨_, _, _, _, e1⟩ := (mem_foldItems s1 d1 0 d1.folds a).1 hm1
    obtain ⟨_, _, _, _, e2⟩ := (mem_foldItems s2 d2 0 d2.folds a).1 hm2
    exact hne (by rw [e1] at e2; exact congrArg Item.d e2)

theorem mkWork_keyInj (dss : List (DS N)) (strats : List (Strat N))
    (hd : (dss.map (·.name)).Nodup) (hs : (strats.map (·.name)).Nodup) :
    KeyInj (hddCfg N) (mkWork dss strats) := by
  refine ⟨?_, ?_, mkWork_nodup dss strats hd hs⟩
  · intro a ha b hb p q e
    simp only [rk, hddCfg, Prod.mk.injEq] at e
    exact ⟨mkWork_inj dss strats hd hs a b ha hb e.1 e.2.1 e.2.2.2, e.2.2.1⟩
  · intro a ha b hb e
    simp only [sk, hddCfg, Prod.mk.injEq] at e
    exact mkWork_inj dss strats hd hs a b ha hb e.1 e.2.1 e.2.2.2

theorem mkWork_keyInj_ram (dss : List (DS N)) (strats : List (Strat N))
    (hd : (dss.map (·.name)).Nodup) (hs : (strats.map (·.name)).Nodup) :
    KeyInj (ramCfg N) (mkWork dss strats) := by
  refine ⟨?_, ?_, mkWork_nodup dss strats hd hs⟩
  · intro a ha b hb p q e
    simp only [rk, ramCfg, Prod.mk.injEq] at e
    exact ⟨mkWork_inj dss strats hd hs a b ha hb e.1 e.2.1 e.2.2.2, e.2.2.1⟩
  · intro a ha b hb e
    simp only [sk, ramCfg, Prod.mk.injEq] at e
    exact mkWork_inj dss strats hd hs a b ha hb e.1 e.2.1 e.2.2.2

end SkVerif.Orch.Lem
