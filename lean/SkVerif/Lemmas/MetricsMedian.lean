/- Lemmas about `median` (np.median), `wpct` (sklearn `_weighted_percentile` at 50) and `prod`. -/
import SkVerif.Model.Metrics
import SkVerif.Lemmas.Sort
import SkVerif.Lemmas.MetricsAgg
namespace SkVerif.Lem.Metrics
open SkVerif SkVerif.Metrics

theorem sortRats_perm (l : List Rat) : (sortRats l).Perm l := isortBy_perm _ l

theorem sortRats_length (l : List Rat) : (sortRats l).length = l.length := (sortRats_perm l).length_eq

theorem sortRats_sorted (l : List Rat) : (sortRats l).Pairwise (· ≤ ·) := by
  have := isortBy_pairwise (fun (a b : Rat) => decide (a ≤ b))
    (by intro a b c h1 h2; simp only [decide_eq_true_eq] at *; exact le_trans h1 h2)
    (by intro a b; simp only [Bool.or_eq_true, decide_eq_true_eq]; exact le_total a b) l
  exact this.imp (by intro a b h; simpa using h)

/-- a "mid-point" of a list: an element, or the average of two elements -/
def IsMid (m : Rat) (xs : List Rat) : Prop := ∃ a ∈ xs, ∃ b ∈ xs, m = (a + b) / 2

theorem getD_mem_of_lt (l : List Rat) (i : Nat) (h : i < l.length) : l.getD i 0 ∈ l := by
  have : l.getD i 0 = l[i] := by simp [List.getD_eq_getElem?_getD, List.getElem?_eq_getElem h]
  rw [this]; exact List.getElem_mem h

/-- `np.median` of a non-empty list is an element or the average of two elements -/
theorem median_isMid (xs : List Rat) (hne : xs ≠ []) : IsMid (median xs) xs := by
  have hlen : 0 < (sortRats xs).length := by
    rw [sortRats_length]; exact List.length_pos_of_ne_nil hne
  have hmem : ∀ i, i < (sortRats xs).length → (sortRats xs).getD i 0 ∈ xs :=
    fun i hi => (sortRats_perm xs).mem_iff.mp (getD_mem_of_lt _ i hi)
  unfold median
  simp only
  split
  · rename_i hodd
    have h1 : (sortRats xs).length / 2 < (sortRats xs).length := by omega
    refine ⟨_, hmem _ h1, _, hmem _ h1, ?_⟩
    ring
  · rename_i heven
    have h1 : (sortRats xs).length / 2 < (sortRats xs).length := by omega
    have h2 : (sortRats xs).length / 2 - 1 < (sortRats xs).length := by omega
    exact ⟨_, hmem _ h2, _, hmem _ h1, rfl⟩

theorem median_nil : median [] = 0 := by simp [median, sortRats, isortBy]

/-- the median lies in any interval (containing 0, for the empty list) that contains all elements -/
theorem median_bounds (xs : List Rat) (lo hi : Rat) (hlo : lo ≤ 0) (hhi : 0 ≤ hi)
    (h : ∀ x ∈ xs, lo ≤ x ∧ x ≤ hi) : lo ≤ median xs ∧ median xs ≤ hi := by
  by_cases hne : xs = []
  · subst hne; rw [median_nil]; exact ⟨hlo, hhi⟩
  · obtain ⟨a, ha, b, hb, hm⟩ := median_isMid xs hne
    have := h a ha; have := h b hb
    rw [hm]; constructor <;> linarith

/-! ### sorting commutes with a strictly monotone map -/
theorem insertBy_map {α} (le : α → α → Bool) (f : α → α) (hf : ∀ a b, le (f a) (f b) = le a b) (a : α) :
    ∀ l : List α, insertBy le (f a) (l.map f) = (insertBy le a l).map f := by
  intro l
  induction l with
  | nil => simp [insertBy]
  | cons b l ih =>
    simp only [List.map_cons, insertBy, hf]
    split
    · simp
    · simp [ih]

theorem isortBy_map {α} (le : α → α → Bool) (f : α → α) (hf : ∀ a b, le (f a) (f b) = le a b) :
    ∀ l : List α, isortBy le (l.map f) = (isortBy le l).map f := by
  intro l
  induction l with
  | nil => simp [isortBy]
  | cons a l ih => simp only [List.map_cons, isortBy, ih, insertBy_map le f hf]

theorem mul_le_mul_iff_of_pos (c a b : Rat) (hc : 0 < c) : (c * a ≤ c * b) ↔ a ≤ b :=
  ⟨fun h => le_of_mul_le_mul_left h hc, fun h => mul_le_mul_of_nonneg_left h (le_of_lt hc)⟩

theorem sortRats_scale (c : Rat) (hc : 0 < c) (l : List Rat) :
    sortRats (l.map (c * ·)) = (sortRats l).map (c * ·) := by
  unfold sortRats
  apply isortBy_map
  intro a b
  simp only [mul_le_mul_iff_of_pos c a b hc]

theorem getD_map_scale (c : Rat) (l : List Rat) (i : Nat) : (l.map (c * ·)).getD i 0 = c * l.getD i 0 := by
  simp only [List.getD_eq_getElem?_getD, List.getElem?_map]
  cases l[i]? <;> simp

/-- the median is homogeneous for positive factors -/
theorem median_scale (c : Rat) (hc : 0 < c) (xs : List Rat) : median (xs.map (c * ·)) = c * median xs := by
  unfold median
  simp only [sortRats_scale c hc, List.length_map, getD_map_scale]
  split <;> ring

/-! ### weighted percentile -/
theorem wpctGo_mem (target : Rat) (strict : Bool) :
    ∀ (ps : List (Rat × Rat)) (cum last : Rat),
      wpctGo target strict ps cum last = last ∨ ∃ p ∈ ps, wpctGo target strict ps cum last = p.1 := by
  intro ps
  induction ps with
  | nil => intro cum last; left; rfl
  | cons p ps ih =>
    intro cum last
    obtain ⟨x, w⟩ := p
    by_cases hc : (if strict then target < cum + w else target ≤ cum + w)
    · right; exact ⟨(x, w), by simp, by simp only [wpctGo, hc, if_true]⟩
    · rcases ih (cum + w) x with h | ⟨q, hq, h⟩
      · right; exact ⟨(x, w), by simp, by simp only [wpctGo, hc, if_false]; exact h⟩
      · right; exact ⟨q, by simp [hq], by simp only [wpctGo, hc, if_false]; exact h⟩

/-- the weighted percentile returns one of the data values (0 for empty data) -/
theorem wpct_mem (ws xs : List Rat) : wpct ws xs = 0 ∨ wpct ws xs ∈ xs := by
  unfold wpct
  simp only
  rcases wpctGo_mem (ws.sum / 2) (ws.sum / 2 == 0)
      (isortBy (fun (a b : Rat × Rat) => decide (a.1 ≤ b.1)) (xs.zip ws)) 0 0 with h | ⟨p, hp, h⟩
  · left; exact h
  · right
    rw [h]
    have hp' : p ∈ xs.zip ws := (isortBy_perm _ _).mem_iff.mp hp
    exact (List.of_mem_zip (a := p.1) (b := p.2) hp').1

theorem wpct_bounds (ws xs : List Rat) (lo hi : Rat) (hlo : lo ≤ 0) (hhi : 0 ≤ hi)
    (h : ∀ x ∈ xs, lo ≤ x ∧ x ≤ hi) : lo ≤ wpct ws xs ∧ wpct ws xs ≤ hi := by
  rcases wpct_mem ws xs with h0 | hm
  · rw [h0]; exact ⟨hlo, hhi⟩
  · exact h _ hm

def scaleFst (c : Rat) (p : Rat × Rat) : Rat × Rat := (c * p.1, p.2)

theorem zip_map_scale (c : Rat) : ∀ (xs ws : List Rat), (xs.map (c * ·)).zip ws = (xs.zip ws).map (scaleFst c) := by
  intro xs
  induction xs with
  | nil => intro ws; simp
  | cons x xs ih =>
    intro ws
    cases ws with
    | nil => simp
    | cons w ws => simp [ih, scaleFst]

theorem wpctGo_scale (c target : Rat) (strict : Bool) :
    ∀ (ps : List (Rat × Rat)) (cum last : Rat),
      wpctGo target strict (ps.map (scaleFst c)) cum (c * last) = c * wpctGo target strict ps cum last := by
  intro ps
  induction ps with
  | nil => intro cum last; rfl
  | cons p ps ih =>
    intro cum last
    obtain ⟨x, w⟩ := p
    by_cases hc : (if strict then target < cum + w else target ≤ cum + w)
    · simp only [List.map_cons, scaleFst, wpctGo, hc, if_true]
    · simp only [List.map_cons, scaleFst, wpctGo, hc, if_false]
      exact ih (cum + w) x

/-- the weighted percentile is homogeneous for positive factors -/
theorem wpct_scale (c : Rat) (hc : 0 < c) (ws xs : List Rat) : wpct ws (xs.map (c * ·)) = c * wpct ws xs := by
  unfold wpct
  simp only [zip_map_scale]
  rw [isortBy_map (fun (a b : Rat × Rat) => decide (a.1 ≤ b.1)) (scaleFst c)
    (by intro a b; simp only [scaleFst, mul_le_mul_iff_of_pos c a.1 b.1 hc])]
  have := wpctGo_scale c (ws.sum / 2) (ws.sum / 2 == 0)
    (isortBy (fun (a b : Rat × Rat) => decide (a.1 ≤ b.1)) (xs.zip ws)) 0 0
  simpa using this

theorem medianW_bounds (hw : Option (List Rat)) (xs : List Rat) (lo hi : Rat) (hlo : lo ≤ 0) (hhi : 0 ≤ hi)
    (h : ∀ x ∈ xs, lo ≤ x ∧ x ≤ hi) : lo ≤ medianW hw xs ∧ medianW hw xs ≤ hi := by
  cases hw with
  | none => exact median_bounds xs lo hi hlo hhi h
  | some w => exact wpct_bounds w xs lo hi hlo hhi h

theorem medianW_scale (c : Rat) (hc : 0 < c) (hw : Option (List Rat)) (xs : List Rat) :
    medianW hw (xs.map (c * ·)) = c * medianW hw xs := by
  cases hw with
  | none => exact median_scale c hc xs
  | some w => exact wpct_scale c hc w xs

/-- nonneg data → nonneg (weighted) median, without an upper bound -/
theorem medianW_nonneg (hw : Option (List Rat)) (xs : List Rat) (h : ∀ x ∈ xs, 0 ≤ x) : 0 ≤ medianW hw xs := by
  cases hw with
  | none =>
    by_cases hne : xs = []
    · subst hne; simp [medianW, median_nil]
    · obtain ⟨a, ha, b, hb, hm⟩ := median_isMid xs hne
      have := h a ha; have := h b hb
      simp only [medianW]; rw [hm]; linarith
  | some w =>
    rcases wpct_mem w xs with h0 | hm
    · simp [medianW, h0]
    · exact h _ hm

theorem medianW_zero (hw : Option (List Rat)) (xs : List Rat) (h : ∀ x ∈ xs, x = 0) : medianW hw xs = 0 := by
  have := medianW_bounds hw xs 0 0 (le_refl _) (le_refl _) (fun x hx => by rw [h x hx]; simp)
  linarith [this.1, this.2]

/-! ### products -/
theorem prod_pos (xs : List Rat) (h : ∀ x ∈ xs, 0 < x) : 0 < prod xs := by
  induction xs with
  | nil => simp [prod]
  | cons a l ih =>
    simp only [prod, List.foldr_cons]
    exact mul_pos (h a (by simp)) (ih (fun x hx => h x (by simp [hx])))

theorem prod_const (e : Rat) (xs : List Rat) (h : ∀ x ∈ xs, x = e) : prod xs = e ^ xs.length := by
  induction xs with
  | nil => simp [prod]
  | cons a l ih =>
    have := ih (fun x hx => h x (by simp [hx]))
    simp only [prod, List.foldr_cons, List.length_cons] at *
    rw [this, h a (by simp), pow_succ]; ring

end SkVerif.Lem.Metrics
