/- Lemmas for C05: the sliding-window transform equals its specification. -/
import SkVerif.Model.Reduce
import SkVerif.Spec.Reduce
namespace SkVerif.Lem.Reduce
open SkVerif.Reduce
open SkVerif.Spec.Reduce

variable {α : Type}

theorem concat_length (y : List α) (X : Option (List (List α))) (nc : Nat) (hr : Rect y X nc) :
    (concatYX y X).length = y.length := by
  cases X with
  | none => simp [concatYX]
  | some rows => simp [concatYX, Rect] at *; omega

theorem getZ_concat (V : Vals α) (d : α) (y : List α) (X : Option (List (List α))) (nc : Nat)
    (hr : Rect y X nc) (t v : Nat) (ht : t < y.length) (hv : v < nc + 1) :
    getZ V (concatYX y X) t v = ofLists d y X t v := by
  cases X with
  | none =>
    simp [Rect] at hr
    subst hr
    have : v = 0 := by omega
    subst this
    simp [getZ, concatYX, ofLists, ht]
  | some rows =>
    obtain ⟨hl, hrow⟩ := hr
    have ht' : t < rows.length := by omega
    cases v with
    | zero => simp [getZ, concatYX, ofLists, ht, ht', List.getElem?_zipWith]
    | succ v =>
      have hlen : (rows[t]).length = nc := hrow _ (List.getElem_mem ht')
      have hv' : v < (rows[t]).length := by omega
      simp [getZ, concatYX, ofLists, ht, ht', List.getElem?_zipWith, hv']

theorem sliceMid_map_range {β : Type} (F : Nat → β) (n E : Nat) (hE : 1 ≤ E) :
    sliceMid ((List.range (n + E)).map F) E E = (List.range (n - E)).map (fun r => F (E + r)) := by
  unfold sliceMid
  have : E ≠ 0 := by omega
  simp only [this, if_false]
  apply List.ext_getElem
  · simp
  · intro i h1 h2
    simp

theorem cubeEntry_eq (V : Vals α) (z : List (List α)) (n E r v k : Nat) (hk : k ≤ E) (hr : r + k < n) :
    cubeEntry V z n E (E + r) v k = getZ V z (r + k) v := by
  unfold cubeEntry
  have h1 : E - k ≤ E + r ∧ E + r < n + E - k := by omega
  have h2 : E + r - (E - k) = r + k := by omega
  simp only [h1, and_self, if_true, h2]

theorem headD_map_range_succ {β : Type} (G : Nat → β) (m : Nat) (d : β) :
    ((List.range (m + 1)).map G).headD d = G 0 := by
  simp [List.range_succ_eq_map]

theorem getD_map_range {β : Type} (H : Nat → β) (m i : Nat) (d : β) (hi : i < m) :
    ((List.range m).map H).getD i d = H i := by
  simp [List.getD_eq_getElem?_getD, hi]

theorem take_map_range {β : Type} (H : Nat → β) (m k : Nat) (hk : k ≤ m) :
    ((List.range m).map H).take k = (List.range k).map H := by
  rw [← List.map_take, List.take_range, Nat.min_eq_left hk]

theorem concat_nv (y : List α) (X : Option (List (List α))) (nc : Nat) (hr : Rect y X nc) (hy : y ≠ []) :
    nVars (concatYX y X) = nc + 1 := by
  unfold nVars
  cases y with
  | nil => exact absurd rfl hy
  | cons a y =>
    cases X with
    | none => simp [Rect] at hr; simp [concatYX, hr]
    | some rows =>
      obtain ⟨hl, hrow⟩ := hr
      cases rows with
      | nil => simp at hl
      | cons r rows => simp [concatYX, hrow r (by simp)]

theorem swt_unfold (V : Vals α) (y : List α) (X : Option (List (List α))) (nc wl : Nat) (fh : List Int)
    (sci : Scitype) (hm : Int) (hr : Rect y X nc) (hwl : 1 ≤ wl) (hpos : ∀ h ∈ fh, 1 ≤ h)
    (hle : ∀ h ∈ fh, h ≤ hm)
    (hlast : fh.getLast? = some hm) (hlen : wl + hm.toNat ≤ y.length) :
    swt V y (.int wl) fh X sci = .ok (
      (List.range (y.length - (wl + (hm - 1).toNat))).map (fun r => fh.map fun h =>
        cubeEntry V (concatYX y X) y.length (wl + (hm - 1).toNat) (wl + (hm - 1).toNat + r) 0 (wl + (h - 1).toNat)),
      (List.range (y.length - (wl + (hm - 1).toNat))).map (fun r =>
        (match sci with | .tabular => flattenInst | .panel => id)
          ((List.range (nc + 1)).map fun v => (List.range wl).map fun k =>
            cubeEntry V (concatYX y X) y.length (wl + (hm - 1).toNat) (wl + (hm - 1).toNat + r) v k))) := by
  have hm1 : 1 ≤ hm := hpos hm (List.mem_of_getLast? hlast)
  have hy : y ≠ [] := by
    intro h; subst h; simp at hlen; omega
  unfold swt
  have hwl' : ¬ ((wl : Int) < 1) := by omega
  have hall : (fh.all fun h => decide (0 < h)) = true := by
    simp only [List.all_eq_true, decide_eq_true_eq]
    intro h hh; have := hpos h hh; omega
  simp only [checkWindowLength, hwl', if_false, checkFhIdx, hall, if_true, bind, Except.bind,
    Int.toNat_natCast, List.getLast?_map, hlast, Option.map_some, concat_length y X nc hr,
    concat_nv y X nc hr hy]
  have hge : ¬ (wl + (hm - 1).toNat ≥ y.length) := by omega
  simp only [hge, if_false]
  unfold cube
  rw [sliceMid_map_range _ _ _ (by omega)]
  have hE : ∀ h ∈ fh, wl + (h - 1).toNat < wl + (hm - 1).toNat + 1 := by
    intro h hh; have := hle h hh; have := hpos h hh; omega
  have hT : ∀ (r : Nat), (fh.map fun h =>
      ((List.range (wl + (hm - 1).toNat + 1)).map fun k =>
        cubeEntry V (concatYX y X) y.length (wl + (hm - 1).toNat) (wl + (hm - 1).toNat + r) 0 k).getD
          (wl + (h - 1).toNat) V.zero) =
      fh.map fun h => cubeEntry V (concatYX y X) y.length (wl + (hm - 1).toNat) (wl + (hm - 1).toNat + r) 0
          (wl + (h - 1).toNat) := by
    intro r
    apply List.map_congr_left
    intro h hh
    rw [getD_map_range _ _ _ _ (hE h hh)]
  cases sci <;>
    simp only [List.map_map, Function.comp_def, headD_map_range_succ, id, hT,
      take_map_range _ _ wl (by omega : wl ≤ wl + (hm - 1).toNat + 1)]

/-- the transform equals its specification (any default `d`: no access leaves the data) -/
theorem swt_ok (V : Vals α) (d : α) (y : List α) (X : Option (List (List α))) (nc wl : Nat) (fh : List Int)
    (sci : Scitype) (hm : Int) (hr : Rect y X nc) (hwl : 1 ≤ wl) (hpos : ∀ h ∈ fh, 1 ≤ h)
    (hle : ∀ h ∈ fh, h ≤ hm)
    (hlast : fh.getLast? = some hm) (hlen : wl + hm.toNat ≤ y.length) :
    swt V y (.int wl) fh X sci = .ok (
      trainTargets (ofLists d y X) y.length wl hm.toNat (fh.map Int.toNat),
      trainRows (ofLists d y X) y.length (nc + 1) wl hm.toNat (sci == .tabular)) := by
  have hm1 : 1 ≤ hm := hpos hm (List.mem_of_getLast? hlast)
  rw [swt_unfold V y X nc wl fh sci hm hr hwl hpos hle hlast hlen]
  have hR : nRows y.length wl hm.toNat = y.length - (wl + (hm - 1).toNat) := by
    unfold nRows; omega
  unfold trainTargets trainRows
  rw [hR]
  congr 2
  · apply List.map_congr_left
    intro r hrr
    have hrr' : r < y.length - (wl + (hm - 1).toNat) := List.mem_range.mp hrr
    rw [List.map_map]
    apply List.map_congr_left
    intro h hh
    have h1 := hpos h hh
    have h2 := hle h hh
    rw [cubeEntry_eq V _ _ _ _ _ _ (by omega) (by omega),
      getZ_concat V d y X nc hr _ _ (by omega) (by omega)]
    simp only [Function.comp_def, target]
    congr 1
    omega
  · apply List.map_congr_left
    intro r hrr
    have hrr' : r < y.length - (wl + (hm - 1).toNat) := List.mem_range.mp hrr
    have hw : ((List.range (nc + 1)).map fun v => (List.range wl).map fun k =>
        cubeEntry V (concatYX y X) y.length (wl + (hm - 1).toNat) (wl + (hm - 1).toNat + r) v k) =
        window (ofLists d y X) (nc + 1) wl r := by
      unfold window
      apply List.map_congr_left
      intro v hv
      have hv' := List.mem_range.mp hv
      apply List.map_congr_left
      intro k hk
      have hk' := List.mem_range.mp hk
      rw [cubeEntry_eq V _ _ _ _ _ _ (by omega) (by omega),
        getZ_concat V d y X nc hr _ _ (by omega) hv']
    rw [hw]
    cases sci <;> simp [present, flattenInst]

/-- too short a series is rejected with ValueError -/
theorem swt_short (V : Vals α) (y : List α) (X : Option (List (List α))) (nc wl : Nat) (fh : List Int)
    (sci : Scitype) (hm : Int) (hr : Rect y X nc) (hwl : 1 ≤ wl) (hpos : ∀ h ∈ fh, 1 ≤ h)
    (hlast : fh.getLast? = some hm) (hshort : y.length < wl + hm.toNat) :
    swt V y (.int wl) fh X sci = .error .value := by
  have hm1 : 1 ≤ hm := hpos hm (List.mem_of_getLast? hlast)
  unfold swt
  have hwl' : ¬ ((wl : Int) < 1) := by omega
  have hall : (fh.all fun h => decide (0 < h)) = true := by
    simp only [List.all_eq_true, decide_eq_true_eq]
    intro h hh; have := hpos h hh; omega
  simp only [checkWindowLength, hwl', if_false, checkFhIdx, hall, if_true, bind, Except.bind,
    Int.toNat_natCast, List.getLast?_map, hlast, Option.map_some, concat_length y X nc hr]
  have hge : (wl + (hm - 1).toNat ≥ y.length) := by omega
  simp only [hge, if_true]
