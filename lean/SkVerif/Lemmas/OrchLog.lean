/- Closed form of a run in which no estimator call fails: which calls are made and which keys are written,
as a function of the store at the start. -/
import SkVerif.Lemmas.OrchDone
set_option linter.unusedSectionVars false
namespace SkVerif.Orch.Lem
open SkVerif.Orch SkVerif.Orch.Spec

variable {N K W : Type} [DecidableEq N] [DecidableEq K]
variable (cfg : Cfg N K) (L : Learner W) (o : Opts)

def callsOf (o : Opts) (f : Flags) (it : Item N) : List (Call N) :=
  if skip o f then [] else
  [Call.fit it] ++ (if needTrain o f then [Call.predict it .train] else []) ++
    (if needTest o f then [Call.predict it .test] else [])

def recsOf (cfg : Cfg N K) (o : Opts) (f : Flags) (it : Item N) : List K :=
  if skip o f then [] else
  (if needTrain o f then [rk cfg it .train] else []) ++ (if needTest o f then [rk cfg it .test] else [])

def stratsOf (cfg : Cfg N K) (o : Opts) (f : Flags) (it : Item N) : List K :=
  if skip o f then [] else if needStrat o f then [sk cfg it] else []

theorem stepItem_ok (r : Run N K W) (a : Item N) (herr : r.err = none)
    (hdisk : cfg.disk = true ∨ o.saveF = false) :
    (stepItem cfg L o none r a).err = none ∧
    (stepItem cfg L o none r a).log = r.log ++ callsOf o (flagsOf cfg r.st a) a ∧
    (stepItem cfg L o none r a).wrRecs = r.wrRecs ++ recsOf cfg o (flagsOf cfg r.st a) a ∧
    (stepItem cfg L o none r a).wrStrats = r.wrStrats ++ stratsOf cfg o (flagsOf cfg r.st a) a := by
  rw [stepItem_eq]
  have hS : needStrat o (flagsOf cfg r.st a) = true → cfg.disk = true := by
    intro h
    rcases hdisk with h' | h'
    · exact h'
    · simp [needStrat, h'] at h
  generalize flagsOf cfg r.st a = f at *
  unfold callsOf recsOf stratsOf
  cases h0 : skip o f
  · cases h1 : needStrat o f <;> cases h2 : needTrain o f <;> cases h3 : needTest o f <;>
      simp_all [cond, predictSave, callEst, savePred, saveStrat, rk, sk]
  · simp [herr]

theorem runItems_noErr (items : List (Item N)) (r : Run N K W) (herr : r.err = none)
    (hdisk : cfg.disk = true ∨ o.saveF = false) : (runItems cfg L o none items r).err = none := by
  induction items generalizing r with
  | nil => exact herr
  | cons a t ih => rw [runItems_cons]; exact ih _ (stepItem_ok cfg L o r a herr hdisk).1

/-- two items whose keys are all different -/
def Disj (cfg : Cfg N K) (a b : Item N) : Prop :=
  (∀ p q, rk cfg b p ≠ rk cfg a q) ∧ sk cfg b ≠ sk cfg a

theorem stepItem_flags (fail : Option Nat) (r : Run N K W) (a it : Item N) (hd : Disj cfg a it) :
    flagsOf cfg (stepItem cfg L o fail r a).st it = flagsOf cfg r.st it := by
  have hR : ∀ p, has (rk cfg it p) (stepItem cfg L o fail r a).st.recs = has (rk cfg it p) r.st.recs := by
    intro p
    apply stepItem_st cfg L o fail (fun st => has (rk cfg it p) st.recs = has (rk cfg it p) r.st.recs) r a
    · intro st hst; exact hst
    · intro _ _ st hst; simpa using hst
    · intro q _ st hst
      rw [writeRec_recs, has_put_ne _ _ (show rk cfg it p ≠ cfg.rkey a.s a.d q a.fold from hd.1 p q)]; exact hst
    · rfl
  have hSt : has (sk cfg it) (stepItem cfg L o fail r a).st.strats = has (sk cfg it) r.st.strats := by
    apply stepItem_st cfg L o fail (fun st => has (sk cfg it) st.strats = has (sk cfg it) r.st.strats) r a
    · intro st hst; exact hst
    · intro _ _ st hst
      rw [writeStrat_strats, has_put_ne _ _ (show sk cfg it ≠ cfg.skey a.s a.d a.fold from hd.2)]; exact hst
    · intro q _ st hst; simpa using hst
    · rfl
  unfold flagsOf
  have h1 := hR .train
  have h2 := hR .test
  unfold rk at h1 h2
  unfold sk at hSt
  rw [h1, h2, hSt]

theorem flatMap_congr' {α β} (l : List α) (f g : α → List β) (h : ∀ a ∈ l, f a = g a) :
    l.flatMap f = l.flatMap g := by
  induction l with
  | nil => rfl
  | cons a t ih =>
    simp only [List.flatMap_cons]
    rw [h a List.mem_cons_self, ih (fun b hb => h b (List.mem_cons_of_mem _ hb))]

theorem keyInj_pairwise (items : List (Item N)) (hk : KeyInj cfg items) : items.Pairwise (Disj cfg) := by
  have hn := hk.nodup
  unfold List.Nodup at hn
  refine List.Pairwise.imp_of_mem ?_ hn
  intro a b ha hb hne
  refine ⟨fun p q e => hne (hk.recs b hb a ha p q e).1.symm, fun e => hne (hk.strats b hb a ha e).symm⟩

/-- Closed form of the loop when no call fails. -/
theorem runItems_ok (items : List (Item N)) (hp : items.Pairwise (Disj cfg)) (r : Run N K W)
    (herr : r.err = none) (hdisk : cfg.disk = true ∨ o.saveF = false) :
    (runItems cfg L o none items r).err = none ∧
    (runItems cfg L o none items r).log = r.log ++ items.flatMap (fun it => callsOf o (flagsOf cfg r.st it) it) ∧
    (runItems cfg L o none items r).wrRecs =
      r.wrRecs ++ items.flatMap (fun it => recsOf cfg o (flagsOf cfg r.st it) it) ∧
    (runItems cfg L o none items r).wrStrats =
      r.wrStrats ++ items.flatMap (fun it => stratsOf cfg o (flagsOf cfg r.st it) it) := by
  induction items generalizing r with
  | nil => simp [runItems, herr]
  | cons a t ih =>
    rw [runItems_cons]
    obtain ⟨e1, e2, e3, e4⟩ := stepItem_ok cfg L o r a herr hdisk
    have hpa := List.pairwise_cons.1 hp
    obtain ⟨i1, i2, i3, i4⟩ := ih hpa.2 (stepItem cfg L o none r a) e1
    have hfl : ∀ it ∈ t, flagsOf cfg (stepItem cfg L o none r a).st it = flagsOf cfg r.st it :=
      fun it hit => stepItem_flags cfg L o none r a it (hpa.1 it hit)
    refine ⟨i1, ?_, ?_, ?_⟩
    · rw [i2, e2, List.flatMap_cons, List.append_assoc]
      congr 2
      exact flatMap_congr' t _ _ (fun it hit => by rw [hfl it hit])
    · rw [i3, e3, List.flatMap_cons, List.append_assoc]
      congr 2
      exact flatMap_congr' t _ _ (fun it hit => by rw [hfl it hit])
    · rw [i4, e4, List.flatMap_cons, List.append_assoc]
      congr 2
      exact flatMap_congr' t _ _ (fun it hit => by rw [hfl it hit])

end SkVerif.Orch.Lem
