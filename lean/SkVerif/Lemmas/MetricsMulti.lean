/- Multi-output handling: `raw_values` is column-by-column, `uniform_average` / weights average the raw values. -/
import SkVerif.Lemmas.MetricsGM
namespace SkVerif.Lem.Metrics
open SkVerif SkVerif.Metrics

/-- A metric function with the common skeleton: validate, (optionally) check the weight sum, then per-column values
`colf hw t p` handed to the shared tail with root degree `k`. -/
def IsDirect (f : Mat → Mat → Option (List Rat) → MO → Except Err Out)
    (colf : Option (List Rat) → Col → Col → Rat) (k : Nat) (needSum : Bool) : Prop :=
  ∀ yt yp hw mo out, f yt yp hw mo = .ok out ↔
    checkRegTargets yt yp mo = .ok () ∧ checkHw (nrows yt) hw = .ok () ∧ (needSum = true → checkSum hw = .ok ()) ∧
    finish k mo (List.zipWith (colf hw) yt yp) = .ok out

theorem isDirect_mae : IsDirect meanAbsoluteError (fun hw t p => npAverage hw (absErrs t p)) 1 true := by
  intro yt yp hw mo out; rw [mae_iff]; simp
theorem isDirect_mse (sqrt : Bool) : IsDirect (fun a b h m => meanSquaredError a b h m sqrt)
    (fun hw t p => npAverage hw (sqErrs t p)) (rootDeg sqrt 1) true := by
  intro yt yp hw mo out; rw [mse_iff]; simp
theorem isDirect_mdae : IsDirect medianAbsoluteError (fun hw t p => medianW hw (absErrs t p)) 1 false := by
  intro yt yp hw mo out; rw [mdae_iff]; simp
theorem isDirect_mdse (sqrt : Bool) : IsDirect (fun a b h m => medianSquaredError a b h m sqrt)
    (fun hw t p => medianW hw (sqErrs' t p)) (rootDeg sqrt 1) false := by
  intro yt yp hw mo out; rw [mdse_iff]; simp
theorem isDirect_mape (eps : Rat) (sym : Bool) : IsDirect (fun a b h m => meanAbsolutePercentageError eps a b h m sym)
    (fun hw t p => npAverage hw ((pctCol eps sym t p).map absR)) 1 true := by
  intro yt yp hw mo out; rw [mape_iff]; simp
theorem isDirect_mdape (eps : Rat) (sym : Bool) :
    IsDirect (fun a b h m => medianAbsolutePercentageError eps a b h m sym)
    (fun hw t p => medianW hw ((pctCol eps sym t p).map absR)) 1 false := by
  intro yt yp hw mo out; rw [mdape_iff]; simp
theorem isDirect_mspe (eps : Rat) (sqrt sym : Bool) :
    IsDirect (fun a b h m => meanSquaredPercentageError eps a b h m sqrt sym)
    (fun hw t p => npAverage hw ((pctCol eps sym t p).map sqr)) (rootDeg sqrt 1) true := by
  intro yt yp hw mo out; rw [mspe_iff]; simp
theorem isDirect_mdspe (eps : Rat) (sqrt sym : Bool) :
    IsDirect (fun a b h m => medianSquaredPercentageError eps a b h m sqrt sym)
    (fun hw t p => medianW hw ((pctCol eps sym t p).map sqr)) (rootDeg sqrt 1) false := by
  intro yt yp hw mo out; rw [mdspe_iff]; simp
theorem isDirect_masym (thr : Rat) (l r : EF) :
    IsDirect (fun a b h m => meanAsymmetricError a b h m thr (some l) (some r))
    (fun hw t p => npAverage hw (asymCol thr l r t p)) 1 true := by
  intro yt yp hw mo out; rw [masym_iff]; simp

theorem checkRegTargets_raw_uniform (yt yp : Mat) :
    checkRegTargets yt yp .uniform = checkRegTargets yt yp .raw := rfl

theorem checkRegTargets_of_weights {yt yp : Mat} {w : List Rat} (h : checkRegTargets yt yp (.weights w) = .ok ()) :
    checkRegTargets yt yp .raw = .ok () := by
  unfold checkRegTargets at *
  simp only [bindU_ok] at *
  exact ⟨h.1, h.2.1, h.2.2.1, trivial⟩

section
variable {f : Mat → Mat → Option (List Rat) → MO → Except Err Out}
  {colf : Option (List Rat) → Col → Col → Rat} {k : Nat} {ns : Bool}

/-- `uniform_average` returns the plain average of exactly the values `raw_values` returns -/
theorem direct_uniform_iff_raw (hd : IsDirect f colf k ns) (yt yp : Mat) (hw : Option (List Rat)) (qs : List Rat) :
    f yt yp hw .uniform = .ok (.avg k none qs) ↔ f yt yp hw .raw = .ok (.raw k qs) := by
  rw [hd, hd, checkRegTargets_raw_uniform]
  simp only [finish, Except.ok.injEq, Out.avg.injEq, Out.raw.injEq, true_and]

/-- output weights `w` return the `w`-weighted average of exactly the values `raw_values` returns -/
theorem direct_weights_of_raw (hd : IsDirect f colf k ns) (yt yp : Mat) (hw : Option (List Rat)) (w : List Rat)
    (out : Out) (h : f yt yp hw (.weights w) = .ok out) :
    ∃ qs, f yt yp hw .raw = .ok (.raw k qs) ∧ out = .avg k (some w) qs := by
  obtain ⟨h1, h2, h3, h4⟩ := (hd _ _ _ _ _).mp h
  refine ⟨List.zipWith (colf hw) yt yp, (hd _ _ _ _ _).mpr ⟨checkRegTargets_of_weights h1, h2, h3, rfl⟩, ?_⟩
  unfold finish at h4
  simp only at h4
  split at h4
  · cases h4
  · cases h4; rfl

/-- `raw_values`: the j-th value is what the metric returns for column j alone -/
theorem direct_raw_per_column (hd : IsDirect f colf k ns) (yt yp : Mat) (hw : Option (List Rat)) (qs : List Rat)
    (hRt : Rect yt) (hRp : Rect yp) (h : f yt yp hw .raw = .ok (.raw k qs))
    (j : Nat) (hjt : j < yt.length) (hjp : j < yp.length) :
    ∃ hq : j < qs.length, f [yt[j]] [yp[j]] hw .uniform = .ok (.avg k none [qs[j]]) := by
  obtain ⟨h1, h2, h3, h4⟩ := (hd _ _ _ _ _).mp h
  simp only [finish, Except.ok.injEq, Out.raw.injEq, true_and] at h4
  subst h4
  have hlen : j < (List.zipWith (colf hw) yt yp).length := by simp [hjt, hjp]
  refine ⟨hlen, (hd _ _ _ _ _).mpr ⟨?_, ?_, h3, ?_⟩⟩
  · obtain ⟨e1, e2, _⟩ := checkRegTargets_ok h1
    have ht : nrows [yt[j]] = nrows yt := hRt _ (List.getElem_mem hjt)
    have hp : nrows [yp[j]] = nrows yp := hRp _ (List.getElem_mem hjp)
    unfold checkRegTargets
    simp only [bindU_ok, guard'_ok, ht, hp, e1]
    refine ⟨by simp, ?_, by simp, trivial⟩
    simpa [e1] using e2
  · have ht : nrows [yt[j]] = nrows yt := hRt _ (List.getElem_mem hjt)
    rw [ht]; exact h2
  · simp [finish]
end

end SkVerif.Lem.Metrics
