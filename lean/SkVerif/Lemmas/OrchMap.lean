/- Lemmas about the association-list maps and small list helpers of Model/Orch.lean. -/
import SkVerif.Model.Orch
namespace SkVerif.Orch.Lem
open SkVerif.Orch

variable {K V N : Type} [DecidableEq K] [DecidableEq N]

def keys (m : List (K × V)) : List K := m.map Prod.fst

@[simp] theorem get?_nil (k : K) : get? k ([] : List (K × V)) = none := rfl

theorem get?_put_self (k : K) (v : V) (m : List (K × V)) : get? k (put k v m) = some v := by
  induction m with
  | nil => simp [put, get?]
  | cons a t ih =>
    obtain ⟨k', v'⟩ := a
    by_cases h : k' = k
    · simp [put, get?, h]
    · simp [put, get?, h, ih]

theorem get?_put_ne {k k' : K} (v : V) (m : List (K × V)) (h : k' ≠ k) :
    get? k' (put k v m) = get? k' m := by
  induction m with
  | nil => simp [put, get?, Ne.symm h]
  | cons a t ih =>
    obtain ⟨k2, v2⟩ := a
    by_cases h2 : k2 = k
    · subst h2
      simp [put, get?, Ne.symm h]
    · by_cases h3 : k2 = k'
      · subst h3
        simp [put, get?, h2]
      · simp [put, get?, h2, h3, ih]

theorem has_put_self (k : K) (v : V) (m : List (K × V)) : has k (put k v m) = true := by
  simp [has, get?_put_self]

theorem has_put_ne {k k' : K} (v : V) (m : List (K × V)) (h : k' ≠ k) :
    has k' (put k v m) = has k' m := by
  simp [has, get?_put_ne v m h]

theorem has_put_mono {k k' : K} (v : V) (m : List (K × V)) (h : has k' m = true) :
    has k' (put k v m) = true := by
  by_cases hk : k' = k
  · subst hk; exact has_put_self _ _ _
  · rw [has_put_ne v m hk]; exact h

theorem has_iff_mem_keys (k : K) (m : List (K × V)) : has k m = true ↔ k ∈ keys m := by
  induction m with
  | nil => simp [has, keys]
  | cons a t ih =>
    obtain ⟨k', v'⟩ := a
    by_cases h : k' = k
    · simp [has, get?, keys, h]
    · have : ¬ k = k' := fun e => h e.symm
      simp only [has, get?, h, if_false, keys, List.map_cons, List.mem_cons, this, false_or]
      exact ih

theorem has_put (k k' : K) (v : V) (m : List (K × V)) :
    has k' (put k v m) = true ↔ (k' = k ∨ has k' m = true) := by
  by_cases hk : k' = k
  · subst hk; simp [has_put_self]
  · rw [has_put_ne v m hk]; simp [hk]

theorem keys_put (k : K) (v : V) (m : List (K × V)) :
    keys (put k v m) = if k ∈ keys m then keys m else keys m ++ [k] := by
  induction m with
  | nil => simp [put, keys]
  | cons a t ih =>
    obtain ⟨k', v'⟩ := a
    by_cases h : k' = k
    · subst h; simp [put, keys]
    · have hne : ¬ k = k' := fun e => h e.symm
      simp only [put, h, if_false, keys, List.map_cons, List.mem_cons, hne, false_or] at ih ⊢
      rw [ih]
      split <;> simp_all

theorem nodup_keys_put (k : K) (v : V) (m : List (K × V)) (h : (keys m).Nodup) :
    (keys (put k v m)).Nodup := by
  rw [keys_put]
  split
  · exact h
  · rename_i hk
    rw [List.nodup_append]
    refine ⟨h, by simp, ?_⟩
    intro a ha b hb
    simp at hb
    subst hb
    intro e; subst e; exact hk ha

theorem get?_some_has {k : K} {v : V} {m : List (K × V)} (h : get? k m = some v) : has k m = true := by
  simp [has, h]

theorem has_false_get? {k : K} {m : List (K × V)} (h : has k m = false) : get? k m = none := by
  simpa [has] using h

/-! `addNew`, `dedup` -/

theorem mem_addNew (x y : N) (l : List N) : x ∈ addNew y l ↔ x = y ∨ x ∈ l := by
  unfold addNew
  split
  · rename_i h
    constructor
    · intro hx; exact Or.inr hx
    · rintro (rfl | hx)
      · exact h
      · exact hx
  · simp [or_comm]

theorem mem_addNew_self (y : N) (l : List N) : y ∈ addNew y l := (mem_addNew y y l).2 (Or.inl rfl)

theorem mem_addNew_of_mem {x : N} (y : N) {l : List N} (h : x ∈ l) : x ∈ addNew y l :=
  (mem_addNew x y l).2 (Or.inr h)

theorem mem_dedup (x : N) (l : List N) : x ∈ dedup l ↔ x ∈ l := by
  induction l with
  | nil => simp [dedup]
  | cons a t ih =>
    unfold dedup
    split
    · rename_i h
      rw [ih]
      constructor
      · intro hx; exact List.mem_cons_of_mem _ hx
      · intro hx
        rcases List.mem_cons.1 hx with rfl | hx
        · exact h
        · exact hx
    · simp [ih]

end SkVerif.Orch.Lem
