/- Lemmas for C05: the array `last` of the recursive strategy reads the specification's windows. -/
import SkVerif.Lemmas.ReducePredict
namespace SkVerif.Lem.Reduce
open SkVerif.Reduce
open SkVerif.Spec.Reduce

variable {α : Type}

theorem drop_take_map_range {β : Type} (g : Nat → β) (N i wl : Nat) (h : i + wl ≤ N) :
    (((List.range N).map g).drop i).take wl = (List.range wl).map fun k => g (i + k) := by
  apply List.ext_getElem
  · simp; omega
  · intro j h1 h2
    simp

/-- target-variable part of the slice `last[:, 0, i:wl+i]` -/
theorem rec_yslice (d : α) (y : List α) (Xf : Option (List (List α))) (wl : Nat) (hwl : wl ≤ y.length)
    (sofar : List α) :
    ((y.drop (y.length - wl)) ++ sofar).drop sofar.length =
      (List.range wl).map fun k => extend (ofLists d y Xf) y.length sofar d (y.length - wl + sofar.length + k) 0 := by
  apply List.ext_getElem
  · simp; omega
  · intro j h1 h2
    simp at h2
    simp only [List.getElem_drop, List.getElem_map, List.getElem_range, extend, true_and]
    rw [List.getElem_append]
    have hl : (List.drop (y.length - wl) y).length = wl := by simp; omega
    by_cases hc : sofar.length + j < wl
    · have h3 : ¬ (y.length ≤ y.length - wl + sofar.length + j) := by omega
      have h4 : y.length - wl + (sofar.length + j) < y.length := by omega
      have h5 : y.length - wl + sofar.length + j = y.length - wl + (sofar.length + j) := by omega
      have h3' : ¬ (y.length ≤ y.length - wl + (sofar.length + j)) := by omega
      simp only [hl, hc, dite_true, ofLists, List.getElem_drop, h5, h3', if_false]
      simp [List.getD_eq_getElem?_getD, h4]
    · have h3 : (y.length ≤ y.length - wl + sofar.length + j) := by omega
      have h4 : y.length - wl + sofar.length + j - y.length = sofar.length + j - wl := by omega
      have h5 : sofar.length + j - wl < sofar.length := by omega
      simp only [hl, hc, dite_false, h3, if_true, h4]
      simp [List.getD_eq_getElem?_getD, h5]

theorem bcast2_same (V : Vals α) (src : List (List α)) (a b : Nat) :
    bcast2 V src a b a b = .ok ((List.range a).map fun i => (List.range b).map fun j =>
      (src.getD i []).getD j V.zero) := by
  unfold bcast2
  simp only [true_or, and_self, if_true]
  congr 1
  apply List.map_congr_left
  intro i hi
  have hi' := List.mem_range.mp hi
  apply List.map_congr_left
  intro j hj
  have hj' := List.mem_range.mp hj
  have e1 : (if a = 1 then 0 else i) = i := by split <;> omega
  have e2 : (if b = 1 then 0 else j) = j := by split <;> omega
  rw [e1, e2]

theorem nCols_of {rows : List (List α)} {nc : Nat} (hne : rows ≠ []) (h : ∀ r ∈ rows, r.length = nc) :
    nCols rows = nc := by
  cases rows with
  | nil => exact absurd rfl hne
  | cons r rs => simp [nCols, h r (by simp)]

/-- rows `1..` of `last`: per exogenous column the observed last window followed by the future rows -/
theorem recExo_eq (V : Vals α) (d : α) (y : List α) (rows xp : List (List α)) (nc wl M : Nat)
    (hr : Rect y (some rows) nc) (hxl : xp.length = M) (hxr : ∀ r ∈ xp, r.length = nc)
    (hwl : wl ≤ y.length) (h1 : 1 ≤ wl) (hM : 1 ≤ M) :
    recExo V wl M (some (rows.drop (y.length - wl))) (some xp) =
      .ok ((List.range nc).map fun v => (List.range (wl + M)).map fun t =>
        ofLists d y (some (rows ++ xp)) (y.length - wl + t) (v + 1)) := by
  obtain ⟨hl, hrow⟩ := hr
  have hxlne : rows.drop (y.length - wl) ≠ [] := by
    intro h; have := congrArg List.length h; simp at this; omega
  have hxpne : xp ≠ [] := by
    intro h; subst h; simp at hxl; omega
  have hc : nCols (rows.drop (y.length - wl)) = nc :=
    nCols_of hxlne (fun r hr => hrow r (List.mem_of_mem_drop hr))
  have hc' : nCols xp = nc := nCols_of hxpne hxr
  have hlen : (rows.drop (y.length - wl)).length = wl := by simp; omega
  unfold recExo
  simp only [hc, hc', hlen, hxl, bcast2_same, bind, Except.bind, pure, Except.pure]
  congr 1
  apply List.ext_getElem
  · simp
  · intro v h1' h2'
    simp at h2'
    simp only [List.getElem_zipWith, List.getElem_map, List.getElem_range]
    rw [List.range_add, List.map_append, List.map_map]
    congr 1
    · apply List.map_congr_left
      intro j hj
      have hj' := List.mem_range.mp hj
      have hi : y.length - wl + j < rows.length := by omega
      have hrl : (rows[y.length - wl + j]).length = nc := hrow _ (List.getElem_mem hi)
      simp [transposeRows, ofLists, List.getD_eq_getElem?_getD, h2', hi, hrl,
        List.getElem?_append_left]
    · apply List.map_congr_left
      intro j hj
      have hj' := List.mem_range.mp hj
      have hjx : j < xp.length := by omega
      have hrl : (xp[j]).length = nc := hxr _ (List.getElem_mem hjx)
      have e : y.length - wl + (wl + j) = rows.length + j := by omega
      simp [transposeRows, ofLists, List.getD_eq_getElem?_getD, h2', hjx, hrl, e]

/-- what the recursive loop reads at step `sofar.length` is the specification's window over
(observed ++ forecasts so far), exogenous columns included -/
theorem rec_hinst (d : α) (y : List α) (Xf : Option (List (List α))) (nc wl M : Nat) (hwl : wl ≤ y.length)
    (sofar : List α) (hs : sofar.length < M) :
    ((y.drop (y.length - wl) ++ sofar).drop sofar.length) ::
        ((List.range nc).map fun v => (List.range (wl + M)).map fun t =>
          ofLists d y Xf (y.length - wl + t) (v + 1)).map (fun r => (r.drop sofar.length).take wl) =
      window (extend (ofLists d y Xf) y.length sofar d) (nc + 1) wl (y.length - wl + sofar.length) := by
  unfold window
  rw [List.range_succ_eq_map, List.map_cons, List.map_map, List.map_map]
  congr 1
  · exact rec_yslice d y Xf wl hwl sofar
  · apply List.map_congr_left
    intro v _
    simp only [Function.comp_def]
    rw [drop_take_map_range _ _ _ _ (by omega)]
    apply List.map_congr_left
    intro k _
    simp [extend, Nat.add_assoc]

theorem isPredictable_drop (V : Vals α) (y : List α) (wl : Nat) (hwl : wl ≤ y.length)
    (hp : ∀ v ∈ y.drop (y.length - wl), V.bad v = false) :
    isPredictable V wl (y.drop (y.length - wl)) = true := by
  unfold isPredictable
  have : (y.drop (y.length - wl)).length = wl := by simp; omega
  simp [this]
  intro v hv
  exact hp v hv

/-- `_RecursiveReducer._predict_last_window` on the last window of `(y, X)` with future rows `Xp`
equals the specification's recursive trace -/
theorem recursivePredict_eq (V : Vals α) (d : α) (sci : Scitype) (wl k : Nat) (e : Est α)
    (es : List (Nat × Est α)) (y : List α) (X Xp : Option (List (List α))) (nc : Nat) (fh : List Int) (hm : Int)
    (hr : Rect y X nc) (hf : FutureRect X Xp nc hm.toNat) (hwl : wl ≤ y.length) (h1 : 1 ≤ wl)
    (hlast : fh.getLast? = some hm) (hm1 : 1 ≤ hm)
    (hp : ∀ v ∈ y.drop (y.length - wl), V.bad v = false) :
    recursivePredict V sci wl ((k, e) :: es) X.isSome (y.drop (y.length - wl))
        (X.map fun rows => rows.drop (y.length - wl)) Xp fh =
      .ok ((recTraceFrom (applyEst e) (ofLists d y (fullX X Xp)) y.length (nc + 1) wl (sci == .tabular) d [] hm.toNat).map
              (fun (t : Inst α × α) => Call.predict k t.1 [t.2]),
           fh.map fun h =>
             ((recTraceFrom (applyEst e) (ofLists d y (fullX X Xp)) y.length (nc + 1) wl (sci == .tabular) d [] hm.toNat).map
               Prod.snd).getD (h - 1).toNat V.zero) := by
  have hM : 1 ≤ hm.toNat := by omega
  have hexo : recExo V wl hm.toNat (X.map fun rows => rows.drop (y.length - wl)) Xp =
      .ok ((List.range nc).map fun v => (List.range (wl + hm.toNat)).map fun t =>
        ofLists d y (fullX X Xp) (y.length - wl + t) (v + 1)) := by
    cases X with
    | none =>
      cases Xp with
      | none => simp [Rect] at hr; subst hr; simp [recExo]
      | some xp => simp [FutureRect] at hf
    | some rows =>
      cases Xp with
      | none => simp [FutureRect] at hf
      | some xp =>
        obtain ⟨hxl, hxr⟩ := hf
        simp only [Option.map_some, fullX]
        exact recExo_eq V d y rows xp nc wl hm.toNat hr hxl hxr hwl h1 hM
  have hguard : (X.isSome && Xp.isNone) = false := by
    cases X <;> cases Xp <;> simp_all [FutureRect]
  have hylen : (y.drop (y.length - wl)).length = wl := by simp; omega
  unfold recursivePredict
  simp only [hguard, isPredictable_drop V y wl hwl hp, hlast, Option.getD_some, hexo]
  have := recLoop_eq V (applyEst e) k sci wl
    ((List.range nc).map fun v => (List.range (wl + hm.toNat)).map fun t =>
        ofLists d y (fullX X Xp) (y.length - wl + t) (v + 1))
    (ofLists d y (fullX X Xp)) y.length (nc + 1) d (y.drop (y.length - wl)) hylen hm.toNat
    (fun sofar hs => rec_hinst d y (fullX X Xp) nc wl hm.toNat hwl sofar hs) hm.toNat [] (by simp)
  simp only [List.length_nil, List.append_nil] at this
  simp [this]
