import SkVerif.Spec.Params
import SkVerif.Lemmas.ParamsTree
namespace SkVerif.Params.Deep
open SkVerif.Params SkVerif.Params.Tree
variable {N : Type} [DecidableEq N]
set_option linter.unusedVariables false
set_option linter.unusedSectionVars false

/-! ### entries of a parameter list -/

theorem lookup_cons_of_tail {k k' : N} {v v' : Val N} {tl : PList N} (hk : k ∉ tl.keys)
    (h : tl.lookup k' = some v') : (PList.cons k v tl).lookup k' = some v' := by
  have : k ≠ k' := fun e => hk (e ▸ mem_keys_of_lookup tl h)
  simp [PList.lookup, this, h]

theorem mapM_id_lookup (f : N → Val N → Except Err (Val N)) : (ps : PList N) → NodupKeys ps →
    (∀ k v, ps.lookup k = some v → f k v = .ok v) → ps.mapM f = .ok ps
  | .nil, _, _ => rfl
  | .cons k v tl, hk, h => by
    rw [nodupKeys_cons] at hk
    have h1 := h k v (by simp [PList.lookup])
    have h2 := mapM_id_lookup f tl hk.2 (fun k' v' hl => h k' v' (lookup_cons_of_tail hk.1 hl))
    simp [PList.mapM, h1, h2]

theorem replace_absent (k : N) (v : Val N) : (ps : PList N) → k ∉ ps.keys → ps.replace k v = ps
  | .nil, _ => rfl
  | .cons k' v' tl, h => by
    simp only [PList.keys, List.mem_cons, not_or] at h
    simp [PList.replace, Ne.symm h.1, replace_absent k v tl h.2]

theorem wfP_lookup {k : N} {v : Val N} : (ps : PList N) → wfP ps = true → ps.lookup k = some v → wfTree v = true
  | .nil, _, h => by simp [PList.lookup] at h
  | .cons k' v' tl, hw, h => by
    simp only [wfP, Bool.and_eq_true] at hw
    by_cases e : k' = k
    · simp only [PList.lookup, e, if_true, Option.some.injEq] at h
      exact h ▸ hw.1
    · simp only [PList.lookup, e, if_false] at h
      exact wfP_lookup tl hw.2 h

theorem depth_lookup {k : N} {v : Val N} : (ps : PList N) → ps.lookup k = some v → depthVal v ≤ depthP ps
  | .nil, h => by simp [PList.lookup] at h
  | .cons k' v' tl, h => by
    simp only [depthP]
    by_cases e : k' = k
    · simp only [PList.lookup, e, if_true, Option.some.injEq] at h
      subst h; exact Nat.le_max_left _ _
    · simp only [PList.lookup, e, if_false] at h
      exact Nat.le_trans (depth_lookup tl h) (Nat.le_max_right _ _)

/-! ### members of a deep get_params -/

theorem nestedOf_mem (k : N) (v : Val N) : ∀ kv ∈ nestedOf k v, ∃ t, kv.1 = k :: t ∧ t ≠ [] := by
  intro kv hkv
  simp only [nestedOf_eq, pre, List.mem_map] at hkv
  obtain ⟨x, hx, rfl⟩ := hkv
  exact ⟨x.1, rfl, getVal_ne true v x hx⟩

theorem getPList_true_bare_mem : (ps : PList N) → NodupKeys ps →
    ∀ kv ∈ getPList true ps, ∀ n, kv.1 = [n] → ps.lookup n = some kv.2
  | .nil, _, kv, hkv, _, _ => by simp [getPList] at hkv
  | .cons k v tl, hk, kv, hkv, n, e => by
    rw [nodupKeys_cons] at hk
    simp only [getPList, if_true, List.mem_append, List.mem_cons] at hkv
    rcases hkv with hkv | hkv | hkv
    · obtain ⟨t, e', ht⟩ := nestedOf_mem k v kv hkv
      rw [e'] at e; simp only [List.cons.injEq] at e; exact absurd e.2 ht
    · subst hkv
      simp only [List.cons.injEq, and_true] at e
      simp [PList.lookup, e]
    · exact lookup_cons_of_tail hk.1 (getPList_true_bare_mem tl hk.2 kv hkv n e)

theorem itemsTop_mem_lookup : (ps : PList N) → NodupKeys ps →
    ∀ kv ∈ itemsTop ps, ∃ n, kv.1 = [n] ∧ ps.lookup n = some kv.2
  | .nil, _, kv, hkv => by simp [itemsTop] at hkv
  | .cons k v tl, hk, kv, hkv => by
    rw [nodupKeys_cons] at hk
    simp only [itemsTop, List.mem_cons] at hkv
    rcases hkv with hkv | hkv
    · subst hkv; exact ⟨k, rfl, by simp [PList.lookup]⟩
    · obtain ⟨n, e, hl⟩ := itemsTop_mem_lookup tl hk.2 kv hkv
      exact ⟨n, e, lookup_cons_of_tail hk.1 hl⟩

theorem itemsNested_mem : (ps : PList N) → ∀ kv ∈ itemsNested ps, ∃ h t, kv.1 = h :: t ∧ t ≠ [] ∧ h ∈ ps.keys
  | .nil, kv, hkv => by simp [itemsNested] at hkv
  | .cons k v tl, kv, hkv => by
    simp only [itemsNested, List.mem_append] at hkv
    rcases hkv with hkv | hkv
    · obtain ⟨t, e, ht⟩ := nestedOf_mem k v kv hkv
      exact ⟨k, t, e, ht, by simp [PList.keys]⟩
    · obtain ⟨h, t, e, ht, hm⟩ := itemsNested_mem tl kv hkv
      exact ⟨h, t, e, ht, by simp [PList.keys, hm]⟩

/-! ### groupOf -/

theorem groupOf_append (k : N) (l1 l2 : List (Path N × Val N)) :
    groupOf k (l1 ++ l2) = groupOf k l1 ++ groupOf k l2 := by
  simp [groupOf, List.filterMap_append]

theorem groupOf_cons_bare (k n : N) (v : Val N) (l : List (Path N × Val N)) :
    groupOf k (([n], v) :: l) = groupOf k l := by
  simp [groupOf]

theorem groupOf_pre (k k' : N) : (l : List (Path N × Val N)) → (∀ kv ∈ l, kv.1 ≠ []) →
    groupOf k (pre k' l) = if k' = k then l else []
  | [], _ => by simp [groupOf, pre]
  | kv :: l, h => by
    have ih := groupOf_pre k k' l (fun kv' h' => h kv' (List.mem_cons_of_mem _ h'))
    have hne := h kv List.mem_cons_self
    simp only [groupOf, pre, List.map_cons, List.filterMap_cons] at ih ⊢
    rw [ih]
    by_cases e : k' = k <;> simp [e, hne]

theorem groupOf_nestedOf (k k' : N) (v : Val N) :
    groupOf k (nestedOf k' v) = if k' = k then getVal true v else [] := by
  rw [nestedOf_eq, groupOf_pre k k' _ (getVal_ne true v)]

theorem groupOf_nil_of_heads (k : N) (l : List (Path N × Val N))
    (h : ∀ kv ∈ l, ∀ a t, kv.1 = a :: t → a ≠ k) : groupOf k l = [] := by
  simp only [groupOf, List.filterMap_eq_nil_iff]
  intro kv hkv
  split
  · next a t e => simp [h kv hkv a t e]
  · rfl

theorem groupOf_itemsTop (k : N) : (ps : PList N) → groupOf k (itemsTop ps) = []
  | .nil => rfl
  | .cons k' v tl => by rw [itemsTop, groupOf_cons_bare, groupOf_itemsTop k tl]

theorem groupOf_getPList (k : N) : (ps : PList N) → NodupKeys ps →
    groupOf k (getPList true ps) = match ps.lookup k with | some v => getVal true v | none => []
  | .nil, _ => by simp [getPList, groupOf, PList.lookup]
  | .cons k' v tl, hk => by
    rw [nodupKeys_cons] at hk
    simp only [getPList, if_true]
    rw [groupOf_append, groupOf_cons_bare, groupOf_nestedOf, groupOf_getPList k tl hk.2]
    by_cases e : k' = k
    · subst e; simp [PList.lookup, lookup_none _ tl hk.1]
    · simp [PList.lookup, e]

theorem groupOf_itemsNested (k : N) : (ps : PList N) → NodupKeys ps →
    groupOf k (itemsNested ps) = match ps.lookup k with | some v => getVal true v | none => []
  | .nil, _ => by simp [itemsNested, groupOf, PList.lookup]
  | .cons k' v tl, hk => by
    rw [nodupKeys_cons] at hk
    simp only [itemsNested]
    rw [groupOf_append, groupOf_nestedOf, groupOf_itemsNested k tl hk.2]
    by_cases e : k' = k
    · subst e; simp [PList.lookup, lookup_none _ tl hk.1]
    · simp [PList.lookup, e]

theorem groupOf_filter (k : N) (p : Path N × Val N → Bool) : (l : List (Path N × Val N)) →
    (∀ kv ∈ l, p kv = false → ∃ n, kv.1 = [n]) → groupOf k (l.filter p) = groupOf k l
  | [], _ => rfl
  | kv :: l, h => by
    have ih := groupOf_filter k p l (fun kv' h' => h kv' (List.mem_cons_of_mem _ h'))
    cases hp : p kv with
    | true =>
      rw [List.filter_cons_of_pos (by simpa using hp)]
      simp only [groupOf, List.filterMap_cons] at ih ⊢
      rw [ih]
    | false =>
      obtain ⟨n, e⟩ := h kv List.mem_cons_self hp
      rw [List.filter_cons_of_neg (by simp [hp]), ih]
      obtain ⟨p1, p2⟩ := kv
      simp only at e; subst e
      rw [groupOf_cons_bare]

/-! ### all paths of a deep get_params are distinct -/

theorem nodup_nestedOf (k : N) (v : Val N) (h : ((getVal true v).map (·.1)).Nodup) :
    ((nestedOf k v).map (·.1)).Nodup := by
  rw [nestedOf_eq, map_fst_pre]
  exact List.Pairwise.map _ (fun a b hab e => hab (List.cons.inj e).2) h

theorem nodup_getPList : (ps : PList N) → NodupKeys ps →
    (∀ k v, ps.lookup k = some v → ((getVal true v).map (·.1)).Nodup) →
    ((getPList true ps).map (·.1)).Nodup
  | .nil, _, _ => by simp [getPList]
  | .cons k v tl, hk, h => by
    rw [nodupKeys_cons] at hk
    have ih := nodup_getPList tl hk.2 (fun k' v' hl => h k' v' (lookup_cons_of_tail hk.1 hl))
    have hv := nodup_nestedOf k v (h k v (by simp [PList.lookup]))
    have htl : ∀ b ∈ (getPList true tl).map (·.1), ∃ a t, b = a :: t ∧ a ≠ k := by
      intro b hb
      obtain ⟨kv, hkv, rfl⟩ := List.mem_map.1 hb
      obtain ⟨a, t, e, hm⟩ := getPList_head true tl kv hkv
      exact ⟨a, t, e, fun e' => hk.1 (e' ▸ hm)⟩
    simp only [getPList, if_true, List.map_append, List.map_cons]
    rw [List.nodup_append]
    refine ⟨hv, ?_, ?_⟩
    · rw [List.nodup_cons]
      refine ⟨fun hm => ?_, ih⟩
      obtain ⟨a, t, e, hne⟩ := htl _ hm
      exact hne (List.cons.inj e).1.symm
    · intro a ha b hb
      obtain ⟨kv, hkv, rfl⟩ := List.mem_map.1 ha
      obtain ⟨t, e, ht⟩ := nestedOf_mem k v kv hkv
      rw [e]
      rcases List.mem_cons.1 hb with rfl | hb
      · intro e'; exact ht (List.cons.inj e').2
      · obtain ⟨a', t', e', hne⟩ := htl b hb
        rw [e']; intro e''; exact hne (List.cons.inj e'').1.symm

theorem nodup_itemsNested : (ps : PList N) → NodupKeys ps →
    (∀ k v, ps.lookup k = some v → ((getVal true v).map (·.1)).Nodup) →
    ((itemsNested ps).map (·.1)).Nodup
  | .nil, _, _ => by simp [itemsNested]
  | .cons k v tl, hk, h => by
    rw [nodupKeys_cons] at hk
    have ih := nodup_itemsNested tl hk.2 (fun k' v' hl => h k' v' (lookup_cons_of_tail hk.1 hl))
    have hv := nodup_nestedOf k v (h k v (by simp [PList.lookup]))
    simp only [itemsNested, List.map_append]
    rw [List.nodup_append]
    refine ⟨hv, ih, ?_⟩
    intro a ha b hb
    obtain ⟨kv, hkv, rfl⟩ := List.mem_map.1 ha
    obtain ⟨t, e, ht⟩ := nestedOf_mem k v kv hkv
    obtain ⟨kv', hkv', rfl⟩ := List.mem_map.1 hb
    obtain ⟨a', t', e', _, hm⟩ := itemsNested_mem tl kv' hkv'
    rw [e, e']; intro e''
    exact hk.1 ((List.cons.inj e'').1 ▸ hm)

theorem nodup_itemsTop : (ps : PList N) → NodupKeys ps → ((itemsTop ps).map (·.1)).Nodup
  | .nil, _ => by simp [itemsTop]
  | .cons k v tl, hk => by
    rw [nodupKeys_cons] at hk
    simp only [itemsTop, List.map_cons, List.nodup_cons]
    refine ⟨fun hm => ?_, nodup_itemsTop tl hk.2⟩
    obtain ⟨kv, hkv, e⟩ := List.mem_map.1 hm
    obtain ⟨n, e', hn⟩ := itemsTop_mem tl kv hkv
    rw [e'] at e
    exact hk.1 ((List.cons.inj e).1 ▸ hn)

/-! ### one level of set_params ∘ get_params -/

/-- what the induction provides for a sub-tree -/
def Good (fuel : Nat) (v : Val N) : Prop :=
  ((getVal true v).map (·.1)).Nodup ∧ (getVal true v = [] ∨ setVal fuel v (getVal true v) = .ok v)

theorem step_ok (fuel : Nat) (v : Val N) (b : Bool) (H : Good fuel v) :
    (if ((getVal true v).isEmpty || b) = true then .ok v else setVal fuel v (getVal true v)) = .ok v := by
  rcases H.2 with h | h
  · simp [h]
  · rw [h]; simp

theorem setBare_fix' (ps : PList N) : (kvs : List (Path N × Val N)) →
    (∀ kv ∈ kvs, ∀ k, kv.1 = [k] → ps.lookup k = some kv.2 ∨ k ∉ ps.keys) → setBare ps kvs = ps := by
  intro kvs h
  unfold setBare
  apply foldl_fix
  intro kv hkv
  split
  · next k e =>
    rcases h kv hkv k e with hl | hn
    · exact replace_self k kv.2 ps hl
    · exact replace_absent k kv.2 ps hn
  · rfl

theorem plain_step (fuel i : Nat) (c : N) (f : Bool) (ps : PList N) (hk : NodupKeys ps)
    (H : ∀ k v, ps.lookup k = some v → Good fuel v) :
    setVal (fuel + 1) (.est i c .plain f ps) (getPList true ps) = .ok (.est i c .plain f ps) := by
  rw [setVal_plain, dedupKw_eq_self _ (nodup_getPList ps hk (fun k v hl => (H k v hl).1))]
  split
  · rfl
  · have hinv : invalidKey ps [] (getPList true ps) = false := by
      apply invalidKey_false_of
      intro kv hkv
      obtain ⟨a, t, e, hm⟩ := getPList_head true ps kv hkv
      exact ⟨a, t, e, Or.inl hm⟩
    have hsb : setBare ps (getPList true ps) = ps :=
      setBare_fix' ps _ (fun kv hkv n e => Or.inl (getPList_true_bare_mem ps hk kv hkv n e))
    simp only [coreF, hinv, hsb]
    rw [mapM_id_lookup _ ps hk (by
      intro k v hl
      simp only [groupOf_getPList k ps hk, hl]
      exact step_ok fuel v _ (H k v hl))]
    simp

theorem step_ok' (fuel : Nat) (v : Val N) (H : Good fuel v) :
    (if (getVal true v).isEmpty = true then .ok v else setVal fuel v (getVal true v)) = .ok v := by
  have := step_ok fuel v false H
  simpa using this

theorem meta_step (fuel i : Nat) (c : N) (f : Bool) (ps items : PList N) (attr : N)
    (hk : NodupKeys ps) (hi : NodupKeys items) (hs : ps.lookup attr = some (.named items))
    (hd : ∀ n ∈ items.keys, n ∉ ps.keys)
    (H : ∀ k v, ps.lookup k = some v → Good fuel v)
    (HI : ∀ n v, items.lookup n = some v → Good fuel v) :
    ((getPList true ps ++ (itemsTop items ++ itemsNested items)).map (·.1)).Nodup ∧
    setVal (fuel + 1) (.est i c (.viaMeta attr attr) f ps) (getPList true ps ++ (itemsTop items ++ itemsNested items))
      = .ok (.est i c (.viaMeta attr attr) f ps) := by
  have hattr : attr ∈ ps.keys := mem_keys_of_lookup ps hs
  have hattr' : attr ∉ items.keys := fun h => hd attr h hattr
  -- facts about the keyword list
  have K2 : ∀ kv ∈ getPList true ps ++ (itemsTop items ++ itemsNested items),
      ∃ a t, kv.1 = a :: t ∧ (a ∈ ps.keys ∨ a ∈ items.keys) := by
    intro kv hkv
    simp only [List.mem_append] at hkv
    rcases hkv with hkv | hkv | hkv
    · obtain ⟨a, t, e, hm⟩ := getPList_head true ps kv hkv; exact ⟨a, t, e, Or.inl hm⟩
    · obtain ⟨n, e, hm⟩ := itemsTop_mem items kv hkv; exact ⟨n, [], e, Or.inr hm⟩
    · obtain ⟨a, t, e, _, hm⟩ := itemsNested_mem items kv hkv; exact ⟨a, t, e, Or.inr hm⟩
  have K3 : ∀ kv ∈ getPList true ps ++ (itemsTop items ++ itemsNested items), ∀ n, kv.1 = [n] →
      ps.lookup n = some kv.2 ∨ (n ∈ items.keys ∧ items.lookup n = some kv.2) := by
    intro kv hkv n e
    simp only [List.mem_append] at hkv
    rcases hkv with hkv | hkv | hkv
    · exact Or.inl (getPList_true_bare_mem ps hk kv hkv n e)
    · obtain ⟨n', e', hl⟩ := itemsTop_mem_lookup items hi kv hkv
      rw [e'] at e
      obtain rfl := (List.cons.inj e).1
      exact Or.inr ⟨mem_keys_of_lookup items hl, hl⟩
    · obtain ⟨a, t, e', ht, _⟩ := itemsNested_mem items kv hkv
      rw [e'] at e
      exact absurd (List.cons.inj e).2 ht
  have K4 : ∀ k, groupOf k (getPList true ps ++ (itemsTop items ++ itemsNested items))
      = (match ps.lookup k with | some v => getVal true v | none => [])
        ++ (match items.lookup k with | some v => getVal true v | none => []) := by
    intro k
    rw [groupOf_append, groupOf_append, groupOf_getPList k ps hk, groupOf_itemsNested k items hi,
      groupOf_itemsTop k items, List.nil_append]
  have K5 : dictGet [attr] (getPList true ps ++ (itemsTop items ++ itemsNested items)) = some (.named items) := by
    rw [dictGet_append, dictGet_append, dictGet_itemsNested_bare, dictGet_itemsTop_bare,
      lookupLast_none attr items hattr', dictGet_getPList_bare, lookupLast_eq_lookup attr ps hk, hs]
    rfl
  have K1 : ((getPList true ps ++ (itemsTop items ++ itemsNested items)).map (·.1)).Nodup := by
    simp only [List.map_append]
    rw [List.nodup_append, List.nodup_append]
    refine ⟨nodup_getPList ps hk (fun k v hl => (H k v hl).1),
      ⟨nodup_itemsTop items hi, nodup_itemsNested items hi (fun k v hl => (HI k v hl).1), ?_⟩, ?_⟩
    · intro a ha b hb
      obtain ⟨kv, hkv, rfl⟩ := List.mem_map.1 ha
      obtain ⟨kv', hkv', rfl⟩ := List.mem_map.1 hb
      obtain ⟨n, e, _⟩ := itemsTop_mem items kv hkv
      obtain ⟨a', t', e', ht, _⟩ := itemsNested_mem items kv' hkv'
      rw [e, e']; intro e''; exact ht (List.cons.inj e'').2.symm
    · intro a ha b hb
      obtain ⟨kv, hkv, rfl⟩ := List.mem_map.1 ha
      obtain ⟨a1, t1, e1, hm1⟩ := getPList_head true ps kv hkv
      rw [← List.map_append] at hb
      obtain ⟨kv', hkv', rfl⟩ := List.mem_map.1 hb
      have : ∃ a2 t2, kv'.1 = a2 :: t2 ∧ a2 ∈ items.keys := by
        rcases List.mem_append.1 hkv' with h | h
        · obtain ⟨n, e, hm⟩ := itemsTop_mem items kv' h; exact ⟨n, [], e, hm⟩
        · obtain ⟨a2, t2, e, _, hm⟩ := itemsNested_mem items kv' h; exact ⟨a2, t2, e, hm⟩
      obtain ⟨a2, t2, e2, hm2⟩ := this
      rw [e1, e2]; intro e''
      exact hd a2 hm2 ((List.cons.inj e'').1 ▸ hm1)
  refine ⟨K1, ?_⟩
  generalize hkvs : getPList true ps ++ (itemsTop items ++ itemsNested items) = kvs at K1 K2 K3 K4 K5
  have hcn := componentNames_of_lookup attr ps items hs
  -- steps 1 and 2 of `_set_params`
  have hmem1 : ∀ kv ∈ kvs.filter (fun kv => !isBare attr kv), kv ∈ kvs := fun kv h => (List.mem_filter.1 h).1
  have hpre : metaPre attr attr ps kvs
      = (ps, (kvs.filter (fun kv => !isBare attr kv)).filter (fun kv => !isCompKey items.keys kv)) := by
    simp only [metaPre, metaStep1, K5, replace_self attr _ ps hs, metaStep2, hcn]
    congr 1
    apply foldl_fix
    intro kv hkv
    split
    · next n e =>
      split
      · next hc =>
        have hn : n ∈ items.keys := by simpa using hc
        rcases K3 kv (hmem1 kv hkv) n e with hl | ⟨_, hl⟩
        · exact absurd (mem_keys_of_lookup ps hl) (hd n hn)
        · simp only [replaceComponent, hs, replace_self n kv.2 items hl, replace_self attr _ ps hs]
      · rfl
    · rfl
  rw [setVal_meta, dedupKw_eq_self _ K1, hpre]
  simp only []
  generalize hkvs2 : (kvs.filter (fun kv => !isBare attr kv)).filter (fun kv => !isCompKey items.keys kv) = kvs2
  have hmem2 : ∀ kv ∈ kvs2, kv ∈ kvs := by
    intro kv h; rw [← hkvs2] at h; exact hmem1 kv (List.mem_filter.1 h).1
  have hg2 : ∀ k, groupOf k kvs2 = groupOf k kvs := by
    intro k
    rw [← hkvs2, groupOf_filter, groupOf_filter]
    · intro kv _ hp
      refine ⟨attr, ?_⟩
      simpa [isBare] using hp
    · intro kv _ hp
      simp only [isCompKey, Bool.not_eq_false'] at hp
      split at hp
      · next n e => exact ⟨n, e⟩
      · exact absurd hp (by simp)
  split
  · rfl
  · have hinv : invalidKey ps items.keys kvs2 = false := by
      apply invalidKey_false_of
      intro kv hkv
      exact K2 kv (hmem2 kv hkv)
    have hsb : setBare ps kvs2 = ps := by
      apply setBare_fix'
      intro kv hkv n e
      rcases K3 kv (hmem2 kv hkv) n e with hl | ⟨hn, _⟩
      · exact Or.inl hl
      · exact Or.inr (hd n hn)
    have hb : kvs2.any (isBare attr) = false := by
      rw [List.any_eq_false]
      intro kv hkv
      rw [← hkvs2] at hkv
      simpa using (List.mem_filter.1 (List.mem_filter.1 hkv).1).2
    simp only [coreF, hcn, hinv, hsb, hs, hb, hg2, K4]
    rw [mapM_id_lookup _ ps hk (by
      intro k v hl
      have : items.lookup k = none := by
        cases h : items.lookup k with
        | none => rfl
        | some w => exact absurd (mem_keys_of_lookup ps hl) (hd k (mem_keys_of_lookup items h))
      simp only [hl, this, List.append_nil]
      exact step_ok fuel v _ (H k v hl))]
    simp only []
    rw [mapLastM_eq_mapM _ items hi, mapM_id_lookup _ items hi (by
      intro n v hl
      have : ps.lookup n = none := lookup_none n ps (hd n (mem_keys_of_lookup items hl))
      simp only [hl, this, List.nil_append]
      exact step_ok' fuel v (HI n v hl))]
    simp [replace_self attr _ ps hs]

/-! ### the induction -/

theorem roundtrip_aux : (fuel : Nat) → ∀ (i : Nat) (c : N) (impl : Impl N) (f : Bool) (ps : PList N),
    wfTree (.est i c impl f ps) = true → depthVal (.est i c impl f ps) ≤ fuel →
    ((getVal true (.est i c impl f ps)).map (·.1)).Nodup ∧
    setVal fuel (.est i c impl f ps) (getVal true (.est i c impl f ps)) = .ok (.est i c impl f ps)
  | 0, i, c, impl, f, ps, _, hd => by simp [depthVal] at hd
  | fuel + 1, i, c, impl, f, ps, hwf, hd => by
    have ih := roundtrip_aux fuel
    have good : ∀ v : Val N, wfTree v = true → depthVal v ≤ fuel → Good fuel v := by
      intro v hw hdv
      cases v with
      | atom _ => exact ⟨by simp [getVal], Or.inl (by simp [getVal])⟩
      | named _ => exact ⟨by simp [getVal], Or.inl (by simp [getVal])⟩
      | est i' c' impl' f' ps' =>
        obtain ⟨h1, h2⟩ := ih i' c' impl' f' ps' hw hdv
        exact ⟨h1, Or.inr h2⟩
    have hdp : depthP ps ≤ fuel := by simp only [depthVal] at hd; omega
    cases impl with
    | abstr => simp [wfTree] at hwf
    | custom => simp [wfTree] at hwf
    | plain =>
      simp only [wfTree, Bool.and_true, Bool.and_eq_true, Bool.not_eq_true'] at hwf
      have hk : NodupKeys ps := (hasDup_eq_false_iff _).1 hwf.1
      have H : ∀ k v, ps.lookup k = some v → Good fuel v := fun k v hl =>
        good v (wfP_lookup ps hwf.2 hl) (Nat.le_trans (depth_lookup ps hl) hdp)
      rw [getVal.eq_4 _ _ _ _ _ _ (by intro _ _ h; cases h)]
      exact ⟨nodup_getPList ps hk (fun k v hl => (H k v hl).1), plain_step fuel i c f ps hk H⟩
    | viaMeta attr store =>
      simp only [wfTree, Bool.and_eq_true, Bool.not_eq_true', decide_eq_true_eq] at hwf
      obtain ⟨⟨hdup, hwp⟩, rfl, hm⟩ := hwf
      have hk : NodupKeys ps := (hasDup_eq_false_iff _).1 hdup
      have H : ∀ k v, ps.lookup k = some v → Good fuel v := fun k v hl =>
        good v (wfP_lookup ps hwp hl) (Nat.le_trans (depth_lookup ps hl) hdp)
      split at hm
      · next items hs =>
        simp only [Bool.and_eq_true, Bool.not_eq_true', List.all_eq_true, List.contains_eq_mem,
          decide_eq_false_iff_not] at hm
        have hi : NodupKeys items := (hasDup_eq_false_iff _).1 hm.1
        have hwi : wfP items = true := by
          have := wfP_lookup ps hwp hs
          simpa [wfTree] using this
        have hdi : depthP items + 1 ≤ fuel := by
          have := Nat.le_trans (depth_lookup ps hs) hdp
          simpa [depthVal] using this
        have HI : ∀ n v, items.lookup n = some v → Good fuel v := fun n v hl =>
          good v (wfP_lookup items hwi hl) (by have := depth_lookup items hl; omega)
        rw [getVal.eq_3]
        simp only [if_true, compsOfPList_eq, hs, compsOfVal]
        exact meta_step fuel i c f ps items attr hk hi hs hm.2 H HI
      · exact absurd hm (by simp)

/-- set_params(**get_params(deep=True)) reproduces the estimator exactly, at every nesting depth -/
theorem set_get_roundtrip_deep (fuel i : Nat) (c : N) (impl : Impl N) (f : Bool) (ps : PList N)
    (hwf : wfTree (.est i c impl f ps) = true) (hfuel : depthVal (.est i c impl f ps) ≤ fuel) :
    setVal fuel (.est i c impl f ps) (getVal true (.est i c impl f ps)) = .ok (.est i c impl f ps) :=
  (roundtrip_aux fuel i c impl f ps hwf hfuel).2

end SkVerif.Params.Deep
