/-
Helper lemmas for C07, part 1: positional slicing (`iloc`, `_split`) against the specification's
`sel` / `foldData`, and the loop restated over fold data.
-/
import SkVerif.Spec.Evaluate
import SkVerif.Lemmas.Split
namespace SkVerif.Lem.Ev
open SkVerif SkVerif.Split SkVerif.Evaluate SkVerif.Evaluate.Spec

theorem ilocOne_ok {α} (s : Series α) (p : Int) (h0 : 0 ≤ p) (h1 : p < s.length) :
    ∃ e, s[p.toNat]? = some e ∧ ilocOne s p = .ok e := by
  have hlt : p.toNat < s.length := by omega
  refine ⟨s[p.toNat], List.getElem?_eq_getElem hlt, ?_⟩
  unfold ilocOne
  have h2 : ¬ p < 0 := by omega
  simp only [h2, ↓reduceIte, List.getElem?_eq_getElem hlt]

theorem iloc_eq_sel {α} (s : Series α) (ps : List Int) (h : ∀ p ∈ ps, 0 ≤ p ∧ p < s.length) :
    iloc s ps = .ok (sel s ps) := by
  induction ps with
  | nil => rfl
  | cons p ps ih =>
    have hp := h p (by simp)
    obtain ⟨e, he, hok⟩ := ilocOne_ok s p hp.1 hp.2
    have ih' := ih (fun q hq => h q (by simp [hq]))
    have h2 : ¬ p < 0 := by omega
    simp only [iloc, hok, ih', sel, List.filterMap_cons, h2, ↓reduceIte, he]

theorem sel_length {α} (s : Series α) (ps : List Int) (h : ∀ p ∈ ps, 0 ≤ p ∧ p < s.length) :
    (sel s ps).length = ps.length := by
  induction ps with
  | nil => rfl
  | cons p ps ih =>
    have hp := h p (by simp)
    obtain ⟨e, he, _⟩ := ilocOne_ok s p hp.1 hp.2
    have h2 : ¬ p < 0 := by omega
    simp only [sel, List.filterMap_cons, h2, ↓reduceIte, he, List.length_cons]
    have := ih (fun q hq => h q (by simp [hq]))
    simp only [sel] at this
    omega

theorem mem_sel {α} (s : Series α) (ps : List Int) (e : Int × α) (he : e ∈ sel s ps) :
    ∃ p ∈ ps, 0 ≤ p ∧ s[p.toNat]? = some e := by
  simp only [sel, List.mem_filterMap] at he
  obtain ⟨p, hp, hpe⟩ := he
  by_cases h : p < 0
  · simp [h] at hpe
  · simp only [h, ↓reduceIte] at hpe
    exact ⟨p, hp, by omega, hpe⟩

/-- with distinct ordered time points, a later position carries a later label -/
theorem label_lt_of_pos_lt {α} (y : Series α) (hy : StrictLabels y) (a b : Nat) (ea eb : Int × α)
    (ha : y[a]? = some ea) (hb : y[b]? = some eb) (hab : a < b) : ea.1 < eb.1 := by
  unfold StrictLabels labels at hy
  rw [List.pairwise_map] at hy
  obtain ⟨ha', rfl⟩ := List.getElem?_eq_some_iff.mp ha
  obtain ⟨hb', rfl⟩ := List.getElem?_eq_some_iff.mp hb
  exact (List.pairwise_iff_getElem.mp hy) a b ha' hb' hab

theorem labels_sel_sorted {α} (y : Series α) (hy : StrictLabels y) (ps : List Int) (hps : ps.Pairwise (· < ·)) :
    (labels (sel y ps)).Pairwise (· < ·) := by
  unfold labels sel
  rw [List.pairwise_map]
  refine List.Pairwise.filterMap _ ?_ hps
  intro p q hpq e he e' he'
  by_cases hp : p < 0
  · simp [hp] at he
  · by_cases hq : q < 0
    · simp [hq] at he'
    · simp only [hp, hq, ↓reduceIte] at he he'
      exact label_lt_of_pos_lt y hy p.toNat q.toNat e e' he he' (by omega)

theorem fhOfIndex_sorted (ls : List Int) (h : ls.Pairwise (· < ·)) : fhOfIndex ls = .ok ls := by
  have hnd : ls.Nodup := Lem.nodup_of_strictSorted h
  have hs : sortInts ls = ls := Lem.sortInts_of_sorted ls (h.imp (by intro a b hab; omega))
  simp [fhOfIndex, FH.mk, FH.checkValues, hnd, hs, Except.map]

theorem sel_ne_nil {α} (s : Series α) (ps : List Int) (h : ∀ p ∈ ps, 0 ≤ p ∧ p < s.length) (hne : ps ≠ []) :
    sel s ps ≠ [] := by
  intro hnil
  have := sel_length s ps h
  rw [hnil] at this
  exact hne (List.length_eq_zero_iff.mp this.symm)

theorem xTestPositions_eq (f : Fold) (fhMin : Int) (hne : f.2 ≠ []) :
    xTestPositions f.2 fhMin = .ok (xRows fhMin f) := by
  unfold xTestPositions xRows
  cases hf : f.2 with
  | nil => exact absurd hf hne
  | cons a l =>
    have : (a :: l).getLast? = some ((a :: l).getLast (by simp)) := List.getLast?_eq_some_getLast (by simp)
    simp only [List.head?_cons, this]

/-- a fold that satisfies the C01 guarantees is sliced without error into exactly its data -/
theorem splitYX_ok {α ξ} (y : Series α) (X : Option (Series ξ)) (fhRaw fh : List Int) (f : Fold)
    (hfh : checkFh fhRaw = .ok fh)
    (hX : ∀ X', X = some X' → X'.length = y.length)
    (htr : ∀ p ∈ f.1, 0 ≤ p ∧ p < y.length) (hte : ∀ q ∈ f.2, 0 ≤ q ∧ q < y.length)
    (hxr : ∀ p ∈ xRows (fhMin fh) f, 0 ≤ p ∧ p < y.length)
    (hne : f.1 ≠ []) (hne2 : f.2 ≠ []) :
    splitYX y X f.1 f.2 fhRaw =
      .ok ⟨sel y f.1, sel y f.2, X.map (sel · f.1), X.map (sel · (xRows (fhMin fh) f))⟩ := by
  unfold splitYX
  have h1 := iloc_eq_sel y f.1 htr
  have h2 := iloc_eq_sel y f.2 hte
  have h3 : (sel y f.1).isEmpty = false := by
    have := sel_ne_nil y f.1 htr hne
    cases h : sel y f.1 with
    | nil => exact absurd h this
    | cons a l => rfl
  simp only [h1, h2, h3, Bool.false_eq_true, ↓reduceIte, hfh]
  cases X with
  | none => rfl
  | some X' =>
    have hl := hX X' rfl
    have h4 := iloc_eq_sel X' f.1 (by rw [hl]; exact htr)
    have h5 := iloc_eq_sel X' (xRows (fhMin fh) f) (by rw [hl]; exact hxr)
    simp only [h4, xTestPositions_eq f (fhMin fh) hne2, h5, Option.map_some]

end SkVerif.Lem.Ev
