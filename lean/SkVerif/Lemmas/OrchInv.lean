/- Store invariants of `fit_predict` (Model/Orch.lean): honesty, key discipline, monotonicity, registry coverage. -/
import SkVerif.Spec.Orch
import SkVerif.Lemmas.OrchStep
set_option linter.unusedSectionVars false
namespace SkVerif.Orch.Lem
open SkVerif.Orch SkVerif.Orch.Spec

variable {N K W : Type} [DecidableEq N] [DecidableEq K]
variable (cfg : Cfg N K) (L : Learner W) (o : Opts) (fail : Option Nat)

/-! ### model data flow = specification -/

theorem strategyFit_eq (it : Item N) : strategyFit L it = honestFit L it := rfl

theorem predictPart_eq (it : Item N) (p : Part) :
    predictPart L (strategyFit L it) it p = honest L it p := by
  cases p <;> rfl

/-! ### predicates -/

/-- every record stored under the key of (item, part) is the honest record of that item and part -/
def HonestR (items : List (Item N)) (st : St N K W) : Prop :=
  ∀ it ∈ items, ∀ p r, get? (rk cfg it p) st.recs = some r → r.c = honest L it p ∧ r.s = it.s ∧ r.d = it.d

def HonestS (items : List (Item N)) (st : St N K W) : Prop :=
  ∀ it ∈ items, ∀ sr, get? (sk cfg it) st.strats = some sr → sr.w = honestFit L it

/-- only requested keys are present -/
def WithinR (items : List (Item N)) (st : St N K W) : Prop :=
  ∀ k, has k st.recs = true → ∃ it ∈ items, ∃ p ∈ parts o, k = rk cfg it p

def WithinS (items : List (Item N)) (st : St N K W) : Prop :=
  ∀ k, has k st.strats = true → o.saveF = true ∧ ∃ it ∈ items, k = sk cfg it

/-! ### preservation by the loop -/

theorem runItems_honestR (items work : List (Item N)) (hsub : ∀ it ∈ work, it ∈ items)
    (hk : KeyInj cfg items) (r : Run N K W) (h : HonestR cfg L items r.st) :
    HonestR cfg L items (runItems cfg L o fail work r).st := by
  apply runItems_st cfg L o fail (HonestR cfg L items) work _ _ _ r h
  · intro a _ st hst; exact hst
  · intro a _ _ _ st hst it hit p rr hg
    exact hst it hit p rr (by simpa using hg)
  · intro a ha pa _ st hst it hit p rr hg
    rw [writeRec_recs] at hg
    by_cases hkk : rk cfg it p = rk cfg a pa
    · obtain ⟨e1, e2⟩ := hk.recs it hit a (hsub a ha) p pa hkk
      subst e1; subst e2
      unfold rk at hg
      rw [get?_put_self] at hg
      cases hg
      exact ⟨predictPart_eq L it p, rfl, rfl⟩
    · have hne : rk cfg it p ≠ cfg.rkey a.s a.d pa a.fold := hkk
      rw [get?_put_ne _ _ hne] at hg
      exact hst it hit p rr hg

theorem runItems_honestS (items work : List (Item N)) (hsub : ∀ it ∈ work, it ∈ items)
    (hk : KeyInj cfg items) (r : Run N K W) (h : HonestS cfg L items r.st) :
    HonestS cfg L items (runItems cfg L o fail work r).st := by
  apply runItems_st cfg L o fail (HonestS cfg L items) work _ _ _ r h
  · intro a _ st hst; exact hst
  · intro a ha _ _ st hst it hit sr hg
    rw [writeStrat_strats] at hg
    by_cases hkk : sk cfg it = sk cfg a
    · have e1 := hk.strats it hit a (hsub a ha) hkk
      subst e1
      unfold sk at hg
      rw [get?_put_self] at hg
      cases hg
      exact strategyFit_eq L it
    · have hne : sk cfg it ≠ cfg.skey a.s a.d a.fold := hkk
      rw [get?_put_ne _ _ hne] at hg
      exact hst it hit sr hg
  · intro a _ pa _ st hst it hit sr hg
    exact hst it hit sr (by simpa using hg)

theorem runItems_withinR (items : List (Item N)) (r : Run N K W) (h : WithinR cfg o items r.st) :
    WithinR cfg o items (runItems cfg L o fail items r).st := by
  apply runItems_st cfg L o fail (WithinR cfg o items) items _ _ _ r h
  · intro a _ st hst; exact hst
  · intro a _ _ _ st hst k hk
    exact hst k (by simpa using hk)
  · intro a ha pa hpa st hst k hk
    rw [writeRec_recs, has_put] at hk
    rcases hk with e | hk
    · refine ⟨a, ha, pa, ?_, e⟩
      unfold parts
      cases pa
      · simp [hpa rfl]
      · split <;> simp
    · exact hst k hk

theorem runItems_withinS (items : List (Item N)) (r : Run N K W) (h : WithinS cfg o items r.st) :
    WithinS cfg o items (runItems cfg L o fail items r).st := by
  apply runItems_st cfg L o fail (WithinS cfg o items) items _ _ _ r h
  · intro a _ st hst; exact hst
  · intro a ha hs _ st hst k hk
    rw [writeStrat_strats, has_put] at hk
    rcases hk with e | hk
    · exact ⟨hs, a, ha, e⟩
    · exact hst k hk
  · intro a _ pa _ st hst k hk
    exact hst k (by simpa using hk)

theorem runItems_hasR (items : List (Item N)) (k : K) (r : Run N K W) (h : has k r.st.recs = true) :
    has k (runItems cfg L o fail items r).st.recs = true := by
  apply runItems_st cfg L o fail (fun st => has k st.recs = true) items _ _ _ r h
  · intro a _ st hst; exact hst
  · intro a _ _ _ st hst; simpa using hst
  · intro a _ pa _ st hst; rw [writeRec_recs]; exact has_put_mono _ _ hst

theorem runItems_hasS (items : List (Item N)) (k : K) (r : Run N K W) (h : has k r.st.strats = true) :
    has k (runItems cfg L o fail items r).st.strats = true := by
  apply runItems_st cfg L o fail (fun st => has k st.strats = true) items _ _ _ r h
  · intro a _ st hst; exact hst
  · intro a _ _ _ st hst; rw [writeStrat_strats]; exact has_put_mono _ _ hst
  · intro a _ pa _ st hst; simpa using hst

theorem runItems_nodupR (items : List (Item N)) (r : Run N K W) (h : (keys r.st.recs).Nodup) :
    (keys (runItems cfg L o fail items r).st.recs).Nodup := by
  apply runItems_st cfg L o fail (fun st => (keys st.recs).Nodup) items _ _ _ r h
  · intro a _ st hst; exact hst
  · intro a _ _ _ st hst; simpa using hst
  · intro a _ pa _ st hst; rw [writeRec_recs]; exact nodup_keys_put _ _ _ hst

end SkVerif.Orch.Lem
