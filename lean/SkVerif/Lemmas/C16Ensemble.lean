/- Helper lemmas for C16: batch guards, ensembles (member-major aggregation, accumulation loops),
pipelines, characterisation of row-wise maps. -/
import SkVerif.Lemmas.C16RowWise
namespace SkVerif.C16.Lem
open SkVerif SkVerif.C16

variable {α β γ : Type}

/-! ### batch guards -/

theorem listMax_le_iff (l : List Nat) (b : Nat) : listMax l ≤ b ↔ ∀ x ∈ l, x ≤ b := by
  induction l with
  | nil => simp [listMax]
  | cons a t ih => simp [listMax, Nat.max_le, ih]

theorem le_listMin_iff (l : List Nat) (b : Nat) (hne : l ≠ []) : b ≤ listMin l ↔ ∀ x ∈ l, b ≤ x := by
  induction l with
  | nil => exact absurd rfl hne
  | cons a t ih =>
    cases t with
    | nil => simp [listMin]
    | cons c u =>
      have := ih (by simp)
      simp only [listMin, Nat.le_min, this]
      simp

theorem guardMax_ok_iff (len : α → Nat) (bound : Nat) (f : α → β) (X : List α) (Y : List β) :
    guardMaxThenMap len bound f X = .ok Y ↔ (∀ x ∈ X, len x ≤ bound) ∧ Y = X.map f := by
  unfold guardMaxThenMap
  have h := listMax_le_iff (X.map len) bound
  by_cases hm : listMax (X.map len) > bound
  · simp only [hm, if_true]
    constructor
    · intro h'; cases h'
    · intro ⟨h1, _⟩
      have : listMax (X.map len) ≤ bound := h.mpr (by simpa using h1)
      omega
  · simp only [hm, if_false]
    have h2 : ∀ x ∈ X, len x ≤ bound := by simpa using h.mp (by omega)
    constructor
    · intro h'; cases h'; exact ⟨h2, rfl⟩
    · intro ⟨_, h3⟩; rw [h3]

theorem guardMin_ok_iff (len : α → Nat) (bound : Nat) (f : α → β) (X : List α) (Y : List β) (hne : X ≠ []) :
    guardMinThenMap len bound f X = .ok Y ↔ (∀ x ∈ X, bound ≤ len x) ∧ Y = X.map f := by
  unfold guardMinThenMap
  have h := le_listMin_iff (X.map len) bound (by simpa using hne)
  by_cases hm : listMin (X.map len) < bound
  · simp only [hm, if_true]
    constructor
    · intro h'; cases h'
    · intro ⟨h1, _⟩
      have : bound ≤ listMin (X.map len) := h.mpr (by simpa using h1)
      omega
  · simp only [hm, if_false]
    have h2 : ∀ x ∈ X, bound ≤ len x := by simpa using h.mp (by omega)
    constructor
    · intro h'; cases h'; exact ⟨h2, rfl⟩
    · intro ⟨_, h3⟩; rw [h3]

/-! ### member-major aggregation -/

theorem filterMap_getElem?_map_map (fs : List (α → β)) (X : List α) (i : Nat) (h : i < X.length) :
    (fs.map (fun f => X.map f)).filterMap (fun col => col[i]?) = fs.map (fun f => f X[i]) := by
  induction fs with
  | nil => rfl
  | cons f t ih =>
    simp only [List.map_cons, List.filterMap_cons, List.getElem?_map, List.getElem?_eq_getElem h, Option.map_some, ih]

theorem transposeN_members (fs : List (α → β)) (X : List α) :
    transposeN X.length (fs.map (fun f => X.map f)) = X.map (fun x => fs.map (fun f => f x)) := by
  unfold transposeN
  apply List.ext_getElem
  · simp
  · intro i h1 h2
    have hi : i < X.length := by simpa using h1
    simp only [List.getElem_map, List.getElem_range]
    exact filterMap_getElem?_map_map fs X i hi

theorem ensembleBatch_eq (fs : List (α → β)) (agg : List β → γ) (X : List α) :
    ensembleBatch (fs.map (fun f => List.map f)) agg X = X.map (fun x => agg (fs.map (fun f => f x))) := by
  unfold ensembleBatch
  rw [List.map_map]
  have : ((fun m : List α → List β => m X) ∘ fun f => List.map f) = (fun f : α → β => X.map f) := rfl
  rw [this, transposeN_members, List.map_map]
  rfl

/-- a list of row-wise members is the list of `map`s of per-instance functions -/
theorem members_rowwise (members : List (List α → List β)) (h : ∀ m ∈ members, IsRowWise m) :
    ∃ fs : List (α → β), members = fs.map (fun f => List.map f) := by
  induction members with
  | nil => exact ⟨[], rfl⟩
  | cons m t ih =>
    obtain ⟨f, hf⟩ := h m (List.mem_cons_self ..)
    obtain ⟨fs, hfs⟩ := ih (fun m' hm' => h m' (List.mem_cons_of_mem _ hm'))
    refine ⟨f :: fs, ?_⟩
    rw [List.map_cons, ← hfs]
    congr 1
    funext X; exact hf X

/-! ### accumulation loops -/

theorem accumStep_map (upd : γ → β → γ) (g : α → γ) (f : α → β) (X : List α) :
    accumStep upd (X.map g) (X.map f) = X.map (fun x => upd (g x) (f x)) := by
  unfold accumStep
  have hl : (X.map g).length = (X.map (fun x => upd (g x) (f x))).length := by simp
  rw [hl]
  have : (fun (i : Nat) => ((X.map g)[i]?).map (fun s => (((X.map f)[i]?).map (upd s)).getD s))
       = (fun (i : Nat) => (X.map (fun x => upd (g x) (f x)))[i]?) := by
    funext i
    simp only [List.getElem?_map]
    cases X[i]? <;> rfl
  rw [this]
  have h := select_range (X.map (fun x => upd (g x) (f x)))
  unfold select at h
  exact h

theorem accum_foldl (fs : List ((α → β) × Nat)) (upd : Nat → γ → β → γ) (g : α → γ) (X : List α) :
    (fs.map (fun p => ((List.map p.1 : List α → List β), p.2))).foldl
        (fun sums (p : (List α → List β) × Nat) => accumStep (upd p.2) sums (p.1 X)) (X.map g)
      = X.map (fun x => fs.foldl (fun s (p : (α → β) × Nat) => upd p.2 s (p.1 x)) (g x)) := by
  induction fs generalizing g with
  | nil => rfl
  | cons p t ih =>
    simp only [List.map_cons, List.foldl_cons]
    rw [accumStep_map]
    exact ih (fun x => upd p.2 (g x) (p.1 x))

theorem zipIdx_map_fst (fs : List (α → β)) (k : Nat) :
    (fs.map (fun f => (List.map f : List α → List β))).zipIdx k
      = (fs.zipIdx k).map (fun p => ((List.map p.1 : List α → List β), p.2)) := by
  induction fs generalizing k with
  | nil => rfl
  | cons f t ih => simp [List.zipIdx_cons, ih]

theorem accumBatch_eq (fs : List (α → β)) (upd : Nat → γ → β → γ) (init : γ) (X : List α) :
    accumBatch (fs.map (fun f => List.map f)) upd init X = X.map (accumOne fs upd init) := by
  unfold accumBatch accumOne
  rw [zipIdx_map_fst]
  exact accum_foldl fs.zipIdx upd (fun _ => init) X

/-! ### composition -/

theorem isRowWise_comp {δ : Type} (F : List α → List β) (G : List β → List δ) (hF : IsRowWise F) (hG : IsRowWise G) :
    IsRowWise (fun X => G (F X)) := by
  obtain ⟨f, hf⟩ := hF
  obtain ⟨g, hg⟩ := hG
  exact ⟨fun x => g (f x), fun X => by show G (F X) = _; rw [hf, hg, List.map_map]; rfl⟩

theorem isRowWise_foldl (steps : List (List α → List α)) (h : ∀ t ∈ steps, IsRowWise t) :
    IsRowWise (fun X => steps.foldl (fun acc t => t acc) X) := by
  induction steps with
  | nil => exact ⟨id, fun X => by simp⟩
  | cons t ts ih =>
    have ht := h t (List.mem_cons_self ..)
    have hts := ih (fun t' ht' => h t' (List.mem_cons_of_mem _ ht'))
    simp only [List.foldl_cons]
    exact isRowWise_comp t (fun Y => ts.foldl (fun acc t => t acc) Y) ht hts

/-! ### characterisation -/

theorem isRowWise_of_single (F : List α → List β) (hlen : ∀ X, (F X).length = X.length)
    (hrow : ∀ X i, i < X.length → (F X)[i]? = (X[i]?).bind (fun x => (F [x])[0]?)) : IsRowWise F := by
  have h1 : ∀ x, 0 < (F [x]).length := fun x => by rw [hlen]; simp
  refine ⟨fun x => (F [x])[0]'(h1 x), fun X => ?_⟩
  apply List.ext_getElem?
  intro i
  by_cases hi : i < X.length
  · rw [hrow X i hi, List.getElem?_map, List.getElem?_eq_getElem hi]
    simp [List.getElem?_eq_getElem (h1 _)]
  · have h2 : (F X).length ≤ i := by rw [hlen]; omega
    have h3 : (X.map fun x => (F [x])[0]'(h1 x)).length ≤ i := by simp; omega
    rw [List.getElem?_eq_none h2, List.getElem?_eq_none h3]

end SkVerif.C16.Lem
