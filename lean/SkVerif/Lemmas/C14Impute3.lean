import SkVerif.Lemmas.C14Impute2
import Mathlib.Tactic.Ring
namespace SkVerif.C14.Lem
open SkVerif SkVerif.C14

theorem getElem?_lt {α} {l : List α} {i : Nat} {x : α} (h : l[i]? = some x) : i < l.length := by
  by_contra hc
  rw [List.getElem?_eq_none (by omega)] at h; cases h

/-! ### ffill then bfill leaves nothing missing once something is observed -/

theorem findSome?_id_isSome (l : OSeries) (t : Nat) (v : Rat) (h : l[t]? = some (some v)) :
    (l.findSome? id).isSome = true := by
  induction l generalizing t with
  | nil => simp at h
  | cons x l ih =>
    cases x with
    | some w => simp [List.findSome?]
    | none =>
      cases t with
      | zero => simp at h
      | succ t => simpa [List.findSome?] using ih t (by simpa using h)

theorem bfill_ffill_complete (z : OSeries) (p : Nat) (v : Rat) (hp : z[p]? = some (some v)) :
    ∀ x ∈ bfill (ffill z), x ≠ none := by
  intro x hx
  obtain ⟨i, hi, rfl⟩ := List.mem_iff_getElem.mp hx
  have hlen : (bfill (ffill z)).length = z.length := by rw [bfill_length, ffill_length]
  have hi' : i < z.length := by omega
  have hpz := getElem?_lt hp
  have hget : (bfill (ffill z))[i]? = some (Spec.firstValidFrom (ffill z) i) :=
    bfill_getElem? _ i (by rw [ffill_length]; exact hi')
  rw [List.getElem?_eq_getElem hi] at hget
  simp only [Option.some.injEq] at hget
  rw [hget]
  intro hnone
  by_cases hip : i ≤ p
  · -- the observation at p is still there after ffill, at or after i
    have hk := ffill_keeps z p v hp
    have : ((ffill z).drop i)[p - i]? = some (some v) := by
      rw [List.getElem?_drop]
      have : i + (p - i) = p := by omega
      rw [this]; exact hk
    have := findSome?_id_isSome _ _ _ this
    unfold Spec.firstValidFrom at hnone
    rw [hnone] at this; cases this
  · -- position i itself is filled forward from p
    have hfi : (ffill z)[i]? = some (Spec.lastValidUpTo z i) := ffill_getElem? z i hi'
    have hsome : (Spec.lastValidUpTo z i).isSome = true := by
      unfold Spec.lastValidUpTo
      have : ((z.take (i + 1)).reverse)[i - p]? = some (some v) := by
        rw [List.getElem?_reverse (by simp; omega)]
        rw [List.getElem?_take]
        have e : (z.take (i + 1)).length - 1 - (i - p) = p := by simp; omega
        rw [e]
        have : p < i + 1 := by omega
        simp [this, hp]
      exact findSome?_id_isSome _ _ _ this
    obtain ⟨w, hw⟩ := Option.isSome_iff_exists.mp hsome
    rw [hw] at hfi
    have : ((ffill z).drop i)[0]? = some (some w) := by
      rw [List.getElem?_drop]; simpa using hfi
    have := findSome?_id_isSome _ _ _ this
    unfold Spec.firstValidFrom at hnone
    rw [hnone] at this; cases this

theorem final_fill_keeps (z : OSeries) (i : Nat) (v : Rat) (h : z[i]? = some (some v)) :
    (bfill (ffill z))[i]? = some (some v) := bfill_keeps _ i v (ffill_keeps z i v h)

/-! ### linear / nearest -/

theorem interpLinear_getElem? (z : OSeries) (i : Nat) :
    (interpLinear z)[i]? = (z[i]?).map (linearAt z i) := by
  unfold interpLinear
  rw [List.getElem?_map, List.getElem?_zipIdx]
  cases z[i]? <;> simp

theorem interpNearest_getElem? (z : OSeries) (i : Nat) :
    (interpNearest z)[i]? = (z[i]?).map (nearestAt z i) := by
  unfold interpNearest
  rw [List.getElem?_map, List.getElem?_zipIdx]
  cases z[i]? <;> simp

theorem isEmpty_false_of_ne {z : OSeries} (h : z ≠ []) : z.isEmpty = false := by
  cases z <;> simp_all

theorem impute_linear_eq (z : OSeries) (hz : z ≠ []) :
    impute .linear none none z = .ok (bfill (ffill (interpLinear z))) := by
  simp [impute, stage1, stage1Err, checkMethod, isEmpty_false_of_ne hz, replaceMissing, bind, Except.bind, pure, Except.pure]

theorem impute_nearest_eq (z : OSeries) (hz : z ≠ []) :
    impute .nearest none none z = .ok (bfill (ffill (interpNearest z))) := by
  simp [impute, stage1, stage1Err, checkMethod, isEmpty_false_of_ne hz, replaceMissing, bind, Except.bind, pure, Except.pure]

theorem impute_linear_interior (z : OSeries) (i j k : Nat) (a b : Rat) (hi : z[i]? = some none)
    (hp : Spec.IsPrevValid z i j a) (hn : Spec.IsNextValid z i k b) :
    (bfill (ffill (interpLinear z)))[i]? =
      some (some (a + (b - a) * (((i : Rat) - (j : Rat)) / ((k : Rat) - (j : Rat))))) := by
  apply final_fill_keeps
  rw [interpLinear_getElem?, hi]
  simp only [Option.map_some, linearAt, prevValid_spec z i j a (Nat.le_of_lt (getElem?_lt hi)) hp, nextValid_spec z i k b hn]

theorem impute_nearest_interior (z : OSeries) (i j k : Nat) (a b : Rat) (hi : z[i]? = some none)
    (hp : Spec.IsPrevValid z i j a) (hn : Spec.IsNextValid z i k b) :
    (bfill (ffill (interpNearest z)))[i]? = some (some (if i - j ≤ k - i then a else b)) := by
  apply final_fill_keeps
  rw [interpNearest_getElem?, hi]
  simp only [Option.map_some, nearestAt, prevValid_spec z i j a (Nat.le_of_lt (getElem?_lt hi)) hp, nextValid_spec z i k b hn]
  split <;> rfl

/-! ### observed values are never changed -/

theorem fillValue_keeps (w : Option Rat) (z : OSeries) (i : Nat) (v : Rat) (h : z[i]? = some (some v)) :
    (fillValue w z)[i]? = some (some v) := by
  simp [fillValue, List.getElem?_map, h]

theorem interpLinear_keeps (z : OSeries) (i : Nat) (v : Rat) (h : z[i]? = some (some v)) :
    (interpLinear z)[i]? = some (some v) := by rw [interpLinear_getElem?, h]; rfl

theorem interpNearest_keeps (z : OSeries) (i : Nat) (v : Rat) (h : z[i]? = some (some v)) :
    (interpNearest z)[i]? = some (some v) := by rw [interpNearest_getElem?, h]; rfl

theorem impute_ok_form (m : Method) (value : Option Rat) (z r : OSeries)
    (h : impute m value none z = .ok r) : r = bfill (ffill (stage1 m value z)) := by
  unfold impute at h
  simp only [replaceMissing, bind, Except.bind, pure, Except.pure] at h
  split at h
  · cases h
  · split at h
    · cases h
    · split at h
      · cases h
      · simp only [Except.ok.injEq] at h; exact h.symm

theorem stage1_keeps (m : Method) (value : Option Rat) (z : OSeries) (i : Nat) (v : Rat)
    (h : z[i]? = some (some v)) : (stage1 m value z)[i]? = some (some v) := by
  cases m <;> simp only [stage1]
  · exact ffill_keeps z i v h
  · exact bfill_keeps z i v h
  · exact fillValue_keeps _ z i v h
  · exact fillValue_keeps _ z i v h
  · exact fillValue_keeps _ z i v h
  · exact interpLinear_keeps z i v h
  · exact interpNearest_keeps z i v h
  · rw [List.getElem?_map, List.getElem?_zipIdx, h]; rfl
  · exact h

theorem stage1_length (m : Method) (value : Option Rat) (z : OSeries) : (stage1 m value z).length = z.length := by
  cases m <;> simp [stage1, ffill_length, bfill_length, fillValue, interpLinear, interpNearest]

theorem impute_keeps_observed (m : Method) (value : Option Rat) (z r : OSeries)
    (h : impute m value none z = .ok r) (i : Nat) (v : Rat) (hv : z[i]? = some (some v)) :
    r[i]? = some (some v) := by
  rw [impute_ok_form m value z r h]
  exact final_fill_keeps _ i v (stage1_keeps m value z i v hv)

theorem impute_length (m : Method) (value : Option Rat) (z r : OSeries)
    (h : impute m value none z = .ok r) : r.length = z.length := by
  rw [impute_ok_form m value z r h, bfill_length, ffill_length, stage1_length]

theorem impute_complete (m : Method) (value : Option Rat) (z r : OSeries)
    (h : impute m value none z = .ok r) (p : Nat) (v : Rat) (hp : z[p]? = some (some v)) :
    ∀ x ∈ r, x ≠ none := by
  rw [impute_ok_form m value z r h]
  exact bfill_ffill_complete _ p v (stage1_keeps m value z p v hp)

/-! ### drift, missing_values -/

theorem sq_map_sub (ts : List Rat) (m : Rat) :
    (ts.map (· - m)).map (fun t => t * t) = ts.map (fun t => (t - m) * (t - m)) := by
  simp [List.map_map, Function.comp_def]

theorem zipWith_mul_map_sub (ts ys : List Rat) (a b : Rat) :
    List.zipWith (· * ·) (ts.map (· - a)) (ys.map (· - b)) = List.zipWith (fun t y => (t - a) * (y - b)) ts ys := by
  simp [List.zipWith_map]

/-- sklearn's centred least squares is the least-squares line of the specification -/
theorem trendAt_eq_spec (ys : List Rat) (i : Nat) : trendAt ys i = Spec.olsLineAt ys i := by
  unfold trendAt Spec.olsLineAt
  simp only [sq_map_sub, zipWith_mul_map_sub]
  split_ifs <;> ring

theorem drift_stage_getElem? (z : OSeries) (i : Nat) :
    (stage1 .drift none z)[i]? = (z[i]?).map (driftAt (validValues (bfill (ffill z))) i) := by
  simp only [stage1, List.getElem?_map, List.getElem?_zipIdx]
  cases z[i]? <;> simp

theorem drift_stage_complete (z : OSeries) : ∀ x ∈ stage1 .drift none z, x ≠ none := by
  intro x hx
  simp only [stage1, List.mem_map] at hx
  obtain ⟨p, _, rfl⟩ := hx
  cases p.1 <;> simp [driftAt]

theorem impute_drift (z : OSeries) (p : Nat) (v : Rat) (hp : z[p]? = some (some v)) :
    impute .drift none none z = .ok (stage1 .drift none z) := by
  have hz : z.isEmpty = false := by
    cases z with
    | nil => simp at hp
    | cons a l => rfl
  have hc := bfill_ffill_complete z p v hp
  have hany : (bfill (ffill z)).any Option.isNone = false := by
    rw [Bool.eq_false_iff]
    intro h
    obtain ⟨x, hx, hn⟩ := List.any_eq_true.mp h
    cases x with
    | none => exact hc none hx rfl
    | some w => cases hn
  simp only [impute, checkMethod, hz, replaceMissing, bind, Except.bind, pure, Except.pure, stage1Err, hany]
  simp [final_fill_complete _ (drift_stage_complete z)]

/-- the heuristic fill the trend is fitted on has no gaps: its values are the list of all its entries -/
theorem validValues_complete (y : OSeries) (h : ∀ x ∈ y, x ≠ none) : y = (validValues y).map some := by
  induction y with
  | nil => rfl
  | cons x l ih =>
    cases x with
    | none => exact absurd rfl (h none List.mem_cons_self)
    | some v =>
      have := ih (fun a ha => h a (List.mem_cons_of_mem _ ha))
      simp only [validValues, List.filterMap_cons, id, List.map_cons] at this ⊢
      rw [← this]

theorem replaceMissing_some (m : Rat) (z : OSeries) :
    replaceMissing (some m) z = z.map (fun x => if x = some m then none else x) := rfl

end SkVerif.C14.Lem
