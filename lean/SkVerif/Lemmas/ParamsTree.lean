import SkVerif.Model.Params
namespace SkVerif.Params.Tree
open SkVerif.Params
variable {N : Type} [DecidableEq N]
set_option linter.unusedVariables false
set_option linter.unusedSectionVars false

/-- keys of a parameter list are pairwise distinct (always true for real estimators: they are the
names in the signature of `__init__`) -/
def NodupKeys (ps : PList N) : Prop := ps.keys.Nodup

/-! ### helper lemmas : association lists -/

omit [DecidableEq N] in
theorem nodupKeys_cons {k : N} {v : Val N} {tl : PList N} :
    NodupKeys (.cons k v tl) ↔ k ∉ tl.keys ∧ NodupKeys tl := by
  simp [NodupKeys, PList.keys]

theorem lookupLast_none (k : N) : (ps : PList N) → k ∉ ps.keys → ps.lookupLast k = none
  | .nil, _ => rfl
  | .cons k' v tl, h => by
    simp only [PList.keys, List.mem_cons, not_or] at h
    simp [PList.lookupLast, lookupLast_none k tl h.2, Ne.symm h.1]

theorem lookup_none (k : N) : (ps : PList N) → k ∉ ps.keys → ps.lookup k = none
  | .nil, _ => rfl
  | .cons k' v tl, h => by
    simp only [PList.keys, List.mem_cons, not_or] at h
    simp [PList.lookup, lookup_none k tl h.2, Ne.symm h.1]

theorem mem_keys_of_lookup {k : N} {w : Val N} : (ps : PList N) → ps.lookup k = some w → k ∈ ps.keys
  | .nil, h => by simp [PList.lookup] at h
  | .cons k' v tl, h => by
    by_cases e : k' = k
    · simp [PList.keys, e]
    · simp only [PList.lookup, e, if_false] at h
      simp [PList.keys, mem_keys_of_lookup tl h]

theorem lookupLast_eq_lookup_aux (k : N) : (ps : PList N) → NodupKeys ps → ps.lookupLast k = ps.lookup k
  | .nil, _ => rfl
  | .cons k' v tl, h => by
    rw [nodupKeys_cons] at h
    by_cases e : k' = k
    · subst e
      simp [PList.lookupLast, PList.lookup, lookupLast_none _ tl h.1]
    · simp [PList.lookupLast, PList.lookup, e, lookupLast_eq_lookup_aux k tl h.2]
      cases PList.lookup k tl <;> rfl


/-! ### helper lemmas : dictGet -/

theorem dictGet_cons (p q : Path N) (v : Val N) (rest : List (Path N × Val N)) :
    dictGet p ((q, v) :: rest) = (dictGet p rest).or (if q = p then some v else none) := by
  simp only [dictGet]; cases dictGet p rest <;> rfl

theorem dictGet_append (p : Path N) : (l1 l2 : List (Path N × Val N)) →
    dictGet p (l1 ++ l2) = (dictGet p l2).or (dictGet p l1)
  | [], l2 => by simp [dictGet]
  | (q, v) :: l1, l2 => by
    rw [List.cons_append, dictGet_cons, dictGet_cons, dictGet_append p l1 l2, Option.or_assoc]

theorem dictGet_none (p : Path N) : (l : List (Path N × Val N)) → (∀ kv ∈ l, kv.1 ≠ p) → dictGet p l = none
  | [], _ => rfl
  | (q, v) :: l, h => by
    rw [dictGet_cons, dictGet_none p l (fun kv hkv => h kv (List.mem_cons_of_mem _ hkv))]
    have : q ≠ p := h (q, v) List.mem_cons_self
    simp [this]

theorem dictGet_pre (a k : N) (q : Path N) : (l : List (Path N × Val N)) →
    dictGet (a :: q) (pre k l) = if k = a then dictGet q l else none
  | [] => by simp [pre, dictGet]
  | (p, v) :: l => by
    have ih := dictGet_pre a k q l
    simp only [pre, List.map_cons] at ih ⊢
    rw [dictGet_cons, dictGet_cons, ih]
    by_cases e : k = a <;> simp [e]

/-! ### helper lemmas : shape of the paths produced by get_params -/

theorem nestedOf_eq (k : N) (v : Val N) : nestedOf k v = pre k (getVal true v) := by
  cases v <;> simp [nestedOf, getVal, pre]

theorem getPList_head (deep : Bool) : (ps : PList N) → ∀ kv ∈ getPList deep ps, ∃ h t, kv.1 = h :: t ∧ h ∈ ps.keys
  | .nil, kv, hkv => by simp [getPList] at hkv
  | .cons k v tl, kv, hkv => by
    simp only [getPList, List.mem_append, List.mem_cons] at hkv
    rcases hkv with hkv | hkv | hkv
    · cases deep
      · simp at hkv
      · simp only [if_true, nestedOf_eq, pre, List.mem_map] at hkv
        obtain ⟨x, _, rfl⟩ := hkv
        exact ⟨k, x.1, rfl, by simp [PList.keys]⟩
    · subst hkv; exact ⟨k, [], rfl, by simp [PList.keys]⟩
    · obtain ⟨h, t, e, hm⟩ := getPList_head deep tl kv hkv
      exact ⟨h, t, e, by simp [PList.keys, hm]⟩

theorem itemsTop_mem : (ps : PList N) → ∀ kv ∈ itemsTop ps, ∃ k, kv.1 = [k] ∧ k ∈ ps.keys
  | .nil, kv, hkv => by simp [itemsTop] at hkv
  | .cons k v tl, kv, hkv => by
    simp only [itemsTop, List.mem_cons] at hkv
    rcases hkv with hkv | hkv
    · subst hkv; exact ⟨k, rfl, by simp [PList.keys]⟩
    · obtain ⟨h, e, hm⟩ := itemsTop_mem tl kv hkv
      exact ⟨h, e, by simp [PList.keys, hm]⟩

theorem itemsNested_head : (ps : PList N) → ∀ kv ∈ itemsNested ps, ∃ h t, kv.1 = h :: t ∧ h ∈ ps.keys
  | .nil, kv, hkv => by simp [itemsNested] at hkv
  | .cons k v tl, kv, hkv => by
    simp only [itemsNested, List.mem_append] at hkv
    rcases hkv with hkv | hkv
    · simp only [nestedOf_eq, pre, List.mem_map] at hkv
      obtain ⟨x, _, rfl⟩ := hkv
      exact ⟨k, x.1, rfl, by simp [PList.keys]⟩
    · obtain ⟨h, t, e, hm⟩ := itemsNested_head tl kv hkv
      exact ⟨h, t, e, by simp [PList.keys, hm]⟩

theorem compsOfVal_ne (v : Val N) : ∀ kv ∈ compsOfVal v, kv.1 ≠ [] := by
  intro kv hkv
  cases v with
  | atom _ => simp [compsOfVal] at hkv
  | est _ _ _ _ _ => simp [compsOfVal] at hkv
  | named items =>
    simp only [compsOfVal, List.mem_append] at hkv
    rcases hkv with hkv | hkv
    · obtain ⟨k, e, _⟩ := itemsTop_mem items kv hkv; simp [e]
    · obtain ⟨h, t, e, _⟩ := itemsNested_head items kv hkv; simp [e]

theorem compsOfPList_eq (store : N) : (ps : PList N) →
    compsOfPList store ps = match ps.lookup store with | some v => compsOfVal v | none => []
  | .nil => by simp [compsOfPList, PList.lookup]
  | .cons k v tl => by
    by_cases e : k = store
    · simp [compsOfPList, PList.lookup, e]
    · simp [compsOfPList, PList.lookup, e, compsOfPList_eq store tl]

theorem getVal_ne (deep : Bool) (v : Val N) : ∀ kv ∈ getVal deep v, kv.1 ≠ [] := by
  intro kv hkv
  have hp : ∀ ps : PList N, kv ∈ getPList deep ps → kv.1 ≠ [] := by
    intro ps h
    obtain ⟨h, t, e, _⟩ := getPList_head deep ps kv h; simp [e]
  cases v with
  | atom _ => simp [getVal] at hkv
  | named _ => simp [getVal] at hkv
  | est i c impl f ps =>
    cases impl with
    | viaMeta attr store =>
      simp only [getVal, List.mem_append] at hkv
      rcases hkv with hkv | hkv
      · exact hp ps hkv
      · cases deep
        · simp at hkv
        · simp only [if_true, compsOfPList_eq] at hkv
          cases hl : ps.lookup store with
          | none => simp [hl] at hkv
          | some w => rw [hl] at hkv; exact compsOfVal_ne w kv hkv
    | plain => simp only [getVal] at hkv; exact hp ps hkv
    | abstr => simp only [getVal] at hkv; exact hp ps hkv
    | custom => simp only [getVal] at hkv; exact hp ps hkv

theorem dictGet_nil_getVal (deep : Bool) (v : Val N) : dictGet [] (getVal deep v) = none :=
  dictGet_none _ _ (getVal_ne deep v)

theorem dictGet_bare_nestedOf (k k' : N) (v : Val N) : dictGet [k] (nestedOf k' v) = none := by
  rw [nestedOf_eq, dictGet_pre, dictGet_nil_getVal]; simp

theorem dictGet_nested_nestedOf (a k : N) (q : Path N) (v : Val N) :
    dictGet (a :: q) (nestedOf k v) = if k = a then dictGet q (getVal true v) else none := by
  rw [nestedOf_eq, dictGet_pre]

/-- bare names in a (shallow or deep) `get_params` of a parameter list -/
theorem dictGet_getPList_bare (deep : Bool) (k : N) : (ps : PList N) →
    dictGet [k] (getPList deep ps) = ps.lookupLast k
  | .nil => by simp [getPList, dictGet, PList.lookupLast]
  | .cons k' v tl => by
    rw [getPList, dictGet_append, dictGet_cons, dictGet_getPList_bare deep k tl]
    have : dictGet [k] (if deep = true then nestedOf k' v else []) = none := by
      cases deep <;> simp [dictGet, dictGet_bare_nestedOf]
    rw [this, Option.or_none]
    simp only [PList.lookupLast, List.cons.injEq, and_true]
    cases tl.lookupLast k <;> rfl

/-- `a__q` in a deep `get_params` of a parameter list -/
theorem dictGet_getPList_nested (a : N) (q : Path N) (hq : q ≠ []) : (ps : PList N) → NodupKeys ps →
    dictGet (a :: q) (getPList true ps)
      = match ps.lookup a with | some v => dictGet q (getVal true v) | none => none
  | .nil, _ => by simp [getPList, dictGet, PList.lookup]
  | .cons k' v tl, h => by
    rw [nodupKeys_cons] at h
    rw [getPList, dictGet_append, dictGet_cons, dictGet_getPList_nested a q hq tl h.2]
    simp only [if_true, dictGet_nested_nestedOf, List.cons.injEq, PList.lookup]
    by_cases e : k' = a
    · subst e; simp [lookup_none _ tl h.1, hq]
    · simp [e]

theorem dictGet_itemsTop_bare (k : N) : (ps : PList N) → dictGet [k] (itemsTop ps) = ps.lookupLast k
  | .nil => by simp [itemsTop, dictGet, PList.lookupLast]
  | .cons k' v tl => by
    rw [itemsTop, dictGet_cons, dictGet_itemsTop_bare k tl]
    simp only [PList.lookupLast, List.cons.injEq, and_true]
    cases tl.lookupLast k <;> rfl

theorem dictGet_itemsTop_nested (a : N) (q : Path N) (hq : q ≠ []) (ps : PList N) :
    dictGet (a :: q) (itemsTop ps) = none := by
  apply dictGet_none
  intro kv hkv
  obtain ⟨k, e, _⟩ := itemsTop_mem ps kv hkv
  simp [e, Ne.symm hq]

theorem dictGet_itemsNested_bare (k : N) : (ps : PList N) → dictGet [k] (itemsNested ps) = none
  | .nil => by simp [itemsNested, dictGet]
  | .cons k' v tl => by
    rw [itemsNested, dictGet_append, dictGet_itemsNested_bare k tl, dictGet_bare_nestedOf]; rfl

theorem dictGet_itemsNested_nested (a : N) (q : Path N) : (ps : PList N) → NodupKeys ps →
    dictGet (a :: q) (itemsNested ps)
      = match ps.lookup a with | some v => dictGet q (getVal true v) | none => none
  | .nil, _ => by simp [itemsNested, dictGet, PList.lookup]
  | .cons k' v tl, h => by
    rw [nodupKeys_cons] at h
    rw [itemsNested, dictGet_append, dictGet_itemsNested_nested a q tl h.2]
    simp only [dictGet_nested_nestedOf, PList.lookup]
    by_cases e : k' = a
    · subst e; simp [lookup_none _ tl h.1]
    · simp [e]

/-! ### (G) get_params -/

-- (G1) shallow get_params is exactly the parameter list
theorem getVal_shallow (i : Nat) (c : N) (impl : Impl N) (f : Bool) (ps : PList N) :
    getVal false (.est i c impl f ps) = getPList false ps := by
  cases impl <;> simp [getVal]

-- (G2) ... and looking a name up in it gives the stored value
theorem dictGet_getPList_shallow (k : N) (ps : PList N) :
    dictGet [k] (getPList false ps) = ps.lookupLast k := dictGet_getPList_bare false k ps

theorem lookupLast_eq_lookup (k : N) (ps : PList N) (h : NodupKeys ps) :
    ps.lookupLast k = ps.lookup k := lookupLast_eq_lookup_aux k ps h

-- (G3) deep get_params still contains every parameter itself under its own name
theorem dictGet_getPList_deep_bare (k : N) (ps : PList N) (h : NodupKeys ps) :
    dictGet [k] (getPList true ps) = ps.lookup k := by
  rw [dictGet_getPList_bare, lookupLast_eq_lookup k ps h]

-- (G4) nested read: `a__q` of the composite is `q` of the component stored in parameter `a` (plain estimator)
theorem nested_get_param (i : Nat) (c : N) (f : Bool) (ps : PList N) (a : N) (q : Path N)
    (ci : Nat) (cc : N) (cimpl : Impl N) (cf : Bool) (cps : PList N)
    (hk : NodupKeys ps) (hq : q ≠ [])
    (hl : ps.lookup a = some (.est ci cc cimpl cf cps)) :
    dictGet (a :: q) (getVal true (.est i c .plain f ps)) = dictGet q (getVal true (.est ci cc cimpl cf cps)) := by
  rw [getVal.eq_4 _ _ _ _ _ _ (by intro _ _ h; cases h), dictGet_getPList_nested a q hq ps hk, hl]

-- (G5) nested read through a named component of a meta-estimator
theorem nested_get_component (i : Nat) (c : N) (f : Bool) (ps : PList N) (attr store : N) (items : PList N)
    (n : N) (q : Path N) (ci : Nat) (cc : N) (cimpl : Impl N) (cf : Bool) (cps : PList N)
    (hk : NodupKeys ps) (hi : NodupKeys items) (hq : q ≠ [])
    (hn : n ∉ ps.keys)
    (hs : ps.lookup store = some (.named items))
    (hl : items.lookup n = some (.est ci cc cimpl cf cps)) :
    dictGet (n :: q) (getVal true (.est i c (.viaMeta attr store) f ps))
      = dictGet q (getVal true (.est ci cc cimpl cf cps)) := by
  rw [getVal.eq_3, dictGet_append, dictGet_getPList_nested n q hq ps hk, lookup_none n ps hn]
  simp only [if_true, compsOfPList_eq, hs, compsOfVal, Option.or_none]
  rw [dictGet_append, dictGet_itemsNested_nested n q items hi, hl, dictGet_itemsTop_nested n q hq, Option.or_none]

-- (G6) a component is readable under its name
theorem get_component_by_name (i : Nat) (c : N) (f : Bool) (ps : PList N) (attr store : N) (items : PList N)
    (n : N) (v : Val N)
    (hk : NodupKeys ps) (hi : NodupKeys items) (hn : n ∉ ps.keys)
    (hs : ps.lookup store = some (.named items)) (hl : items.lookup n = some v) :
    dictGet [n] (getVal true (.est i c (.viaMeta attr store) f ps)) = some v := by
  rw [getVal.eq_3, dictGet_append, dictGet_getPList_bare, lookupLast_none n ps hn]
  simp only [if_true, compsOfPList_eq, hs, compsOfVal, Option.or_none]
  rw [dictGet_append, dictGet_itemsNested_bare, dictGet_itemsTop_bare, lookupLast_eq_lookup n items hi, hl]
  rfl

/-! ### helper lemmas : replace / lookup / keys -/

theorem lookup_replace_same_aux (k : N) (v : Val N) : (ps : PList N) → k ∈ ps.keys → (ps.replace k v).lookup k = some v
  | .nil, h => by simp [PList.keys] at h
  | .cons k' v' tl, h => by
    by_cases e : k' = k
    · simp [PList.replace, PList.lookup, e]
    · have : k ∈ tl.keys := by
        simp only [PList.keys, List.mem_cons] at h
        rcases h with h | h
        · exact absurd h.symm e
        · exact h
      simp [PList.replace, PList.lookup, e, lookup_replace_same_aux k v tl this]

theorem lookup_replace_ne_aux (k k' : N) (v : Val N) (hne : k' ≠ k) : (ps : PList N) →
    (ps.replace k v).lookup k' = ps.lookup k'
  | .nil => rfl
  | .cons k1 v1 tl => by
    by_cases e : k1 = k
    · subst e; simp [PList.replace, PList.lookup, Ne.symm hne]
    · simp only [PList.replace, e, if_false, PList.lookup, lookup_replace_ne_aux k k' v hne tl]

theorem keys_replace_aux (k : N) (v : Val N) : (ps : PList N) → (ps.replace k v).keys = ps.keys
  | .nil => rfl
  | .cons k1 v1 tl => by
    by_cases e : k1 = k
    · simp [PList.replace, PList.keys, e]
    · simp [PList.replace, PList.keys, e, keys_replace_aux k v tl]

theorem replace_replace (k : N) (x y : Val N) : (ps : PList N) → (ps.replace k x).replace k y = ps.replace k y
  | .nil => rfl
  | .cons k1 v1 tl => by
    by_cases e : k1 = k
    · simp [PList.replace, e]
    · simp [PList.replace, e, replace_replace k x y tl]

theorem replace_self (k : N) (v : Val N) : (ps : PList N) → ps.lookup k = some v → ps.replace k v = ps
  | .nil, _ => rfl
  | .cons k1 v1 tl, h => by
    by_cases e : k1 = k
    · simp only [PList.lookup, e, if_true, Option.some.injEq] at h
      simp [PList.replace, e, h]
    · simp only [PList.lookup, e, if_false] at h
      simp [PList.replace, e, replace_self k v tl h]

/-! ### helper lemmas : mapM / mapLastM -/

omit [DecidableEq N] in
theorem mapM_id (f : N → Val N → Except Err (Val N)) : (ps : PList N) →
    (∀ k ∈ ps.keys, ∀ v, f k v = .ok v) → ps.mapM f = .ok ps
  | .nil, _ => rfl
  | .cons k v tl, h => by
    have h1 := h k (by simp [PList.keys]) v
    have h2 := mapM_id f tl (fun k' hk' v' => h k' (by simp [PList.keys, hk']) v')
    simp [PList.mapM, h1, h2]

theorem mapM_focus (f : N → Val N → Except Err (Val N)) (a : N) (comp : Val N) :
    (ps : PList N) → NodupKeys ps → ps.lookup a = some comp → (∀ k, k ≠ a → ∀ v, f k v = .ok v) →
    ps.mapM f = match f a comp with
      | .error e => .error e
      | .ok c' => .ok (ps.replace a c')
  | .nil, _, hl, _ => by simp [PList.lookup] at hl
  | .cons k v tl, hk, hl, hf => by
    rw [nodupKeys_cons] at hk
    by_cases e : k = a
    · subst e
      simp only [PList.lookup, if_true, Option.some.injEq] at hl
      subst hl
      have h2 := mapM_id f tl (fun k' hk' v' => hf k' (fun e => hk.1 (e ▸ hk')) v')
      simp only [PList.mapM, h2, PList.replace, if_true]
      cases f k v <;> rfl
    · simp only [PList.lookup, e, if_false] at hl
      have ih := mapM_focus f a comp tl hk.2 hl hf
      simp only [PList.mapM, hf k e v, ih, PList.replace, e, if_false]
      cases f a comp <;> rfl

theorem mapLastM_eq_mapM (f : N → Val N → Except Err (Val N)) : (ps : PList N) → NodupKeys ps →
    ps.mapLastM f = ps.mapM f
  | .nil, _ => rfl
  | .cons k v tl, hk => by
    rw [nodupKeys_cons] at hk
    simp [PList.mapLastM, PList.mapM, hk.1, mapLastM_eq_mapM f tl hk.2]

/-! ### helper lemmas : keyword lists -/

theorem dedupKw_eq_self : (l : List (Path N × Val N)) → (l.map (·.1)).Nodup → dedupKw l = l
  | [], _ => rfl
  | x :: l, h => by
    simp only [List.map_cons, List.nodup_cons] at h
    have ih := dedupKw_eq_self l h.2
    have : dedupKw (x :: l) = if (dedupKw l).any (fun kv' => kv'.1 = x.1) then dedupKw l else x :: dedupKw l := rfl
    rw [this, ih]
    have hx : l.any (fun kv' => decide (kv'.1 = x.1)) = false := by
      rw [List.any_eq_false]
      intro kv hkv
      simp only [decide_eq_true_eq]
      intro e
      exact h.1 (List.mem_map.2 ⟨kv, hkv, e⟩)
    simp [hx]

theorem dedupKw_single (x : Path N × Val N) : dedupKw [x] = [x] := by simp [dedupKw]

theorem groupOf_single (k a : N) (q : Path N) (v : Val N) :
    groupOf k [(a :: q, v)] = if a = k ∧ q ≠ [] then [(q, v)] else [] := by
  simp only [groupOf, List.filterMap_cons, List.filterMap_nil]
  split <;> simp_all

theorem groupOf_bare (k : N) : (kvs : List (Path N × Val N)) → (∀ kv ∈ kvs, ∃ n, kv.1 = [n]) → groupOf k kvs = []
  | [], _ => rfl
  | kv :: kvs, h => by
    obtain ⟨n, hn⟩ := h kv List.mem_cons_self
    have ih := groupOf_bare k kvs (fun kv' h' => h kv' (List.mem_cons_of_mem _ h'))
    simp only [groupOf] at ih ⊢
    rw [List.filterMap_cons, ih]
    simp [hn]

/-- the part of `setVal` shared by the plain and the meta algorithm -/
def coreF (fuel : Nat) (ps : PList N) (comps : List N) (store : Option N) (kvs : List (Path N × Val N)) :
    Except Err (PList N) :=
  if invalidKey ps comps kvs then .error .value
  else
    match (setBare ps kvs).mapM (fun k v =>
        let g := groupOf k kvs
        if g.isEmpty || comps.contains k then .ok v else setVal fuel v g) with
    | .error e => .error e
    | .ok ps2 =>
      match store with
      | none => .ok ps2
      | some st =>
        match ps.lookup st with
        | some (.named items) =>
          match items.mapLastM (fun k v =>
              let g := groupOf k kvs
              if g.isEmpty then .ok v else setVal fuel v g) with
          | .error e => .error e
          | .ok items' =>
            if kvs.any (isBare st) then .ok ps2 else .ok (ps2.replace st (.named items'))
        | _ => .ok ps2

theorem setVal_plain (fuel i : Nat) (c : N) (f : Bool) (ps : PList N) (x : List (Path N × Val N)) :
    setVal (fuel + 1) (.est i c .plain f ps) x =
      if (dedupKw x).isEmpty then .ok (.est i c .plain f ps)
      else match coreF fuel ps [] none (dedupKw x) with
        | .error e => .error e
        | .ok ps' => .ok (.est i c .plain f ps') := by
  rw [setVal.eq_6]; rfl

theorem setVal_meta (fuel i : Nat) (c : N) (f : Bool) (ps : PList N) (attr store : N) (x : List (Path N × Val N)) :
    setVal (fuel + 1) (.est i c (.viaMeta attr store) f ps) x =
      if (metaPre attr store ps (dedupKw x)).2.isEmpty then
        .ok (.est i c (.viaMeta attr store) f (metaPre attr store ps (dedupKw x)).1)
      else match coreF fuel (metaPre attr store ps (dedupKw x)).1
            (componentNames store (metaPre attr store ps (dedupKw x)).1) (some store)
            (metaPre attr store ps (dedupKw x)).2 with
        | .error e => .error e
        | .ok ps' => .ok (.est i c (.viaMeta attr store) f ps') := by
  rw [setVal.eq_7]; rfl

/-! ### (S) set_params -/

theorem getPList_false_mem : (ps : PList N) → NodupKeys ps →
    ∀ kv ∈ getPList false ps, ∃ k, kv.1 = [k] ∧ ps.lookup k = some kv.2
  | .nil, _, kv, hkv => by simp [getPList] at hkv
  | .cons k v tl, hk, kv, hkv => by
    rw [nodupKeys_cons] at hk
    simp only [getPList, Bool.false_eq_true, if_false, List.nil_append, List.mem_cons] at hkv
    rcases hkv with hkv | hkv
    · subst hkv; exact ⟨k, rfl, by simp [PList.lookup]⟩
    · obtain ⟨k', e, hl⟩ := getPList_false_mem tl hk.2 kv hkv
      refine ⟨k', e, ?_⟩
      have : k ≠ k' := fun e' => hk.1 (e' ▸ mem_keys_of_lookup tl hl)
      simp [PList.lookup, this, hl]

theorem getPList_false_nodup : (ps : PList N) → NodupKeys ps → ((getPList false ps).map (·.1)).Nodup
  | .nil, _ => by simp [getPList]
  | .cons k v tl, hk => by
    rw [nodupKeys_cons] at hk
    simp only [getPList, Bool.false_eq_true, if_false, List.nil_append, List.map_cons, List.nodup_cons]
    refine ⟨?_, getPList_false_nodup tl hk.2⟩
    intro hm
    obtain ⟨kv, hkv, e⟩ := List.mem_map.1 hm
    obtain ⟨h, t, e', hin⟩ := getPList_head false tl kv hkv
    rw [e'] at e
    simp only [List.cons.injEq] at e
    exact hk.1 (e.1 ▸ hin)

theorem setBare_fix (ps : PList N) : (kvs : List (Path N × Val N)) →
    (∀ kv ∈ kvs, ∃ k, kv.1 = [k] ∧ ps.lookup k = some kv.2) → setBare ps kvs = ps
  | [], _ => rfl
  | kv :: kvs, h => by
    obtain ⟨k, e, hl⟩ := h kv List.mem_cons_self
    have ih := setBare_fix ps kvs (fun kv' h' => h kv' (List.mem_cons_of_mem _ h'))
    simp only [setBare] at ih ⊢
    rw [List.foldl_cons]
    simp only [e, replace_self k kv.2 ps hl]
    exact ih

theorem invalidKey_false_of (ps : PList N) (comps : List N) (kvs : List (Path N × Val N))
    (h : ∀ kv ∈ kvs, ∃ a t, kv.1 = a :: t ∧ (a ∈ ps.keys ∨ a ∈ comps)) : invalidKey ps comps kvs = false := by
  simp only [invalidKey, List.any_eq_false]
  intro kv hkv
  obtain ⟨a, t, e, hin⟩ := h kv hkv
  rw [e]
  rcases hin with hin | hin <;> simp [hin]

-- (S1) set_params(**get_params(deep=False)) changes nothing (plain)
theorem set_get_roundtrip_plain (fuel i : Nat) (c : N) (f : Bool) (ps : PList N) (hk : NodupKeys ps) :
    setVal (fuel + 1) (.est i c .plain f ps) (getVal false (.est i c .plain f ps)) = .ok (.est i c .plain f ps) := by
  rw [getVal_shallow, setVal_plain, dedupKw_eq_self _ (getPList_false_nodup ps hk)]
  split
  · rfl
  · have hm := getPList_false_mem ps hk
    have hinv : invalidKey ps [] (getPList false ps) = false := by
      apply invalidKey_false_of
      intro kv hkv
      obtain ⟨k, e, hl⟩ := hm kv hkv
      exact ⟨k, [], e, Or.inl (mem_keys_of_lookup ps hl)⟩
    have hg : ∀ k, groupOf k (getPList false ps) = [] := fun k =>
      groupOf_bare k _ (fun kv hkv => let ⟨n, e, _⟩ := hm kv hkv; ⟨n, e⟩)
    simp only [coreF, hinv, setBare_fix ps _ hm, hg]
    rw [mapM_id _ ps (by intros; simp)]
    simp

-- (S2) a bare key sets exactly that parameter (plain)
theorem set_bare_plain (fuel i : Nat) (c : N) (f : Bool) (ps : PList N) (k : N) (v : Val N)
    (hk : NodupKeys ps) (hin : k ∈ ps.keys) :
    setVal (fuel + 1) (.est i c .plain f ps) [([k], v)] = .ok (.est i c .plain f (ps.replace k v)) := by
  rw [setVal_plain, dedupKw_single]
  have hinv : invalidKey ps [] [([k], v)] = false :=
    invalidKey_false_of _ _ _ (by intro kv hkv; simp at hkv; subst hkv; exact ⟨k, [], rfl, Or.inl hin⟩)
  have hg : ∀ k', groupOf k' [([k], v)] = [] := fun k' => by simp [groupOf_single]
  simp only [coreF, hinv, hg]
  rw [mapM_id _ _ (by intros; simp)]
  simp [setBare]

theorem lookup_replace_same (ps : PList N) (k : N) (v : Val N) (hin : k ∈ ps.keys) :
    (ps.replace k v).lookup k = some v := lookup_replace_same_aux k v ps hin

theorem lookup_replace_ne (ps : PList N) (k k' : N) (v : Val N) (hne : k' ≠ k) :
    (ps.replace k v).lookup k' = ps.lookup k' := lookup_replace_ne_aux k k' v hne ps

theorem keys_replace (ps : PList N) (k : N) (v : Val N) : (ps.replace k v).keys = ps.keys := keys_replace_aux k v ps

-- (S3) unknown names are rejected (plain and meta)
theorem set_unknown_rejected_plain (fuel i : Nat) (c : N) (f : Bool) (ps : PList N) (k : N) (rest : Path N) (v : Val N)
    (hnot : k ∉ ps.keys) :
    setVal (fuel + 1) (.est i c .plain f ps) [(k :: rest, v)] = .error .value := by
  rw [setVal_plain, dedupKw_single]
  simp [coreF, invalidKey, hnot]

theorem metaPre_nested (attr store : N) (ps : PList N) (k : N) (rest : Path N) (v : Val N)
    (h : k ≠ attr ∧ k ∉ componentNames store ps ∨ rest ≠ []) :
    metaPre attr store ps [(k :: rest, v)] = (ps, [(k :: rest, v)]) := by
  have h1 : dictGet [attr] [(k :: rest, v)] = none := by
    apply dictGet_none
    intro kv hkv
    simp only [List.mem_singleton] at hkv
    subst hkv
    simp only [ne_eq, List.cons.injEq, not_and]
    intro e1 e2
    rcases h with h | h
    · exact h.1 e1
    · exact h e2
  simp only [metaPre, metaStep1, h1, metaStep2, List.foldl_cons, List.foldl_nil, isCompKey]
  cases rest with
  | nil =>
    have : k ∉ componentNames store ps := by
      rcases h with h | h
      · exact h.2
      · exact absurd rfl h
    simp [this]
  | cons r rs => simp

theorem set_unknown_rejected_meta (fuel i : Nat) (c : N) (f : Bool) (ps : PList N) (attr store : N)
    (k : N) (rest : Path N) (v : Val N)
    (hnot : k ∉ ps.keys) (hattr : k ≠ attr) (hcomp : k ∉ componentNames store ps) :
    setVal (fuel + 1) (.est i c (.viaMeta attr store) f ps) [(k :: rest, v)] = .error .value := by
  rw [setVal_meta, dedupKw_single, metaPre_nested attr store ps k rest v (Or.inl ⟨hattr, hcomp⟩)]
  simp [coreF, invalidKey, hnot, hcomp]

-- (S4) nested write: `a__q = v` writes into the component stored in parameter `a`, and only there (plain)
theorem nested_set_param (fuel i : Nat) (c : N) (f : Bool) (ps : PList N) (a : N) (q : Path N) (v : Val N)
    (comp : Val N) (hk : NodupKeys ps) (hq : q ≠ []) (hl : ps.lookup a = some comp) :
    setVal (fuel + 1) (.est i c .plain f ps) [(a :: q, v)]
      = (setVal fuel comp [(q, v)]).map (fun comp' => .est i c .plain f (ps.replace a comp')) := by
  rw [setVal_plain, dedupKw_single]
  have hinv : invalidKey ps [] [(a :: q, v)] = false :=
    invalidKey_false_of _ _ _ (by
      intro kv hkv; simp at hkv; subst hkv; exact ⟨a, q, rfl, Or.inl (mem_keys_of_lookup ps hl)⟩)
  have hsb : setBare ps [(a :: q, v)] = ps := by
    cases q with
    | nil => exact absurd rfl hq
    | cons _ _ => simp [setBare]
  simp only [coreF, hinv, hsb, groupOf_single]
  rw [mapM_focus _ a comp ps hk hl (by intro k hne v'; simp [Ne.symm hne])]
  simp only [hq, ne_eq, not_false_eq_true, and_self, if_true]
  simp only [List.isEmpty_cons, List.contains_nil, Bool.or_self, Bool.false_eq_true, if_false]
  cases setVal fuel comp [(q, v)] <;> simp [Except.map]

theorem componentNames_of_lookup (store : N) (ps items : PList N) (hs : ps.lookup store = some (.named items)) :
    componentNames store ps = items.keys := by simp [componentNames, hs]

-- (S5) component replacement by name (meta)
theorem replace_component (fuel i : Nat) (c : N) (f : Bool) (ps : PList N) (attr store : N) (items : PList N)
    (n : N) (new : Val N)
    (hk : NodupKeys ps) (hattr : n ≠ attr)
    (hs : ps.lookup store = some (.named items)) (hin : n ∈ items.keys) :
    setVal (fuel + 1) (.est i c (.viaMeta attr store) f ps) [([n], new)]
      = .ok (.est i c (.viaMeta attr store) f (ps.replace store (.named (items.replace n new)))) := by
  rw [setVal_meta, dedupKw_single]
  have h1 : dictGet [attr] [([n], new)] = none := by
    apply dictGet_none; intro kv hkv; simp at hkv; subst hkv; simpa using hattr
  have hm : metaPre attr store ps [([n], new)]
      = (ps.replace store (.named (items.replace n new)), []) := by
    simp [metaPre, metaStep1, h1, metaStep2, componentNames_of_lookup store ps items hs, hin, isCompKey,
      replaceComponent, hs]
  rw [hm]; rfl

-- (S6) nested write through a named component (meta): only that component changes
theorem nested_set_component (fuel i : Nat) (c : N) (f : Bool) (ps : PList N) (attr store : N) (items : PList N)
    (n : N) (q : Path N) (v : Val N) (comp : Val N)
    (hk : NodupKeys ps) (hi : NodupKeys items) (hq : q ≠ [])
    (hn : n ∉ ps.keys) (hattr : n ≠ attr)
    (hs : ps.lookup store = some (.named items)) (hl : items.lookup n = some comp) :
    setVal (fuel + 1) (.est i c (.viaMeta attr store) f ps) [(n :: q, v)]
      = (setVal fuel comp [(q, v)]).map
          (fun comp' => .est i c (.viaMeta attr store) f (ps.replace store (.named (items.replace n comp')))) := by
  rw [setVal_meta, dedupKw_single, metaPre_nested attr store ps n q v (Or.inr hq)]
  have hnin : n ∈ items.keys := mem_keys_of_lookup items hl
  have hcn := componentNames_of_lookup store ps items hs
  have hinv : invalidKey ps items.keys [(n :: q, v)] = false :=
    invalidKey_false_of _ _ _ (by intro kv hkv; simp at hkv; subst hkv; exact ⟨n, q, rfl, Or.inr hnin⟩)
  have hsb : setBare ps [(n :: q, v)] = ps := by
    cases q with
    | nil => exact absurd rfl hq
    | cons _ _ => simp [setBare]
  simp only [coreF, hcn, hinv, hsb, groupOf_single]
  rw [mapM_id _ ps (by
    intro k _ v'
    by_cases e : n = k
    · subst e; simp [hnin]
    · simp [e])]
  simp only [List.isEmpty_cons, Bool.false_eq_true, if_false, hs]
  rw [mapLastM_eq_mapM _ items hi, mapM_focus _ n comp items hi hl (by intro k hne v'; simp [Ne.symm hne])]
  simp only [hq, ne_eq, not_false_eq_true, and_self, if_true, List.isEmpty_cons, Bool.false_eq_true, if_false]
  have hb : isBare store (n :: q, v) = false := by simp [isBare, hq]
  cases setVal fuel comp [(q, v)] <;> simp [Except.map, hb]

-- (S7) order of sktime `_set_params`: the whole list is installed first, then the component of the NEW
-- list is replaced
theorem set_order_list_then_component (fuel i : Nat) (c : N) (f : Bool) (ps : PList N) (attr : N)
    (items' : PList N) (n : N) (new : Val N)
    (hk : NodupKeys ps) (hin : attr ∈ ps.keys) (hn : n ∈ items'.keys) (hne : n ≠ attr) :
    setVal (fuel + 1) (.est i c (.viaMeta attr attr) f ps) [([attr], .named items'), ([n], new)]
      = .ok (.est i c (.viaMeta attr attr) f (ps.replace attr (.named (items'.replace n new)))) := by
  rw [setVal_meta, dedupKw_eq_self _ (by simp [Ne.symm hne])]
  have h1 : dictGet [attr] [([attr], Val.named items'), ([n], new)] = some (.named items') := by
    simp [dictGet, hne]
  have hl := lookup_replace_same ps attr (.named items') hin
  have hm : metaPre attr attr ps [([attr], .named items'), ([n], new)]
      = (ps.replace attr (.named (items'.replace n new)), []) := by
    simp [metaPre, metaStep1, h1, metaStep2, componentNames_of_lookup attr _ items' hl, hn, isCompKey,
      replaceComponent, hl, isBare, hne, replace_replace]
  rw [hm]; rfl

/-! ### (C) clone -/

mutual
theorem eraseFitted_cloneVal : (v : Val N) → eraseFitted (cloneVal v) = eraseFitted v
  | .atom _ => by simp [cloneVal, eraseFitted]
  | .est _ _ _ _ ps => by simp [cloneVal, eraseFitted, eraseFittedP_clonePList ps]
  | .named items => by simp [cloneVal, eraseFitted, eraseFittedP_clonePList items]
theorem eraseFittedP_clonePList : (ps : PList N) → eraseFittedP (clonePList ps) = eraseFittedP ps
  | .nil => by simp [clonePList, eraseFittedP]
  | .cons _ v tl => by simp [clonePList, eraseFittedP, eraseFitted_cloneVal v, eraseFittedP_clonePList tl]
end

mutual
theorem anyFitted_cloneVal : (v : Val N) → anyFitted (cloneVal v) = false
  | .atom _ => by simp [cloneVal, anyFitted]
  | .est _ _ _ _ ps => by simp [cloneVal, anyFitted, anyFittedP_clonePList ps]
  | .named items => by simp [cloneVal, anyFitted, anyFittedP_clonePList items]
theorem anyFittedP_clonePList : (ps : PList N) → anyFittedP (clonePList ps) = false
  | .nil => by simp [clonePList, anyFittedP]
  | .cons _ v tl => by simp [clonePList, anyFittedP, anyFitted_cloneVal v, anyFittedP_clonePList tl]
end

/-- the key sets of everything `get_params` is made of are invariant under `clone` -/
def KeysInvV (v : Val N) : Prop :=
  (∀ deep, (getVal deep (cloneVal v)).map (·.1) = (getVal deep v).map (·.1)) ∧
  (compsOfVal (cloneVal v)).map (·.1) = (compsOfVal v).map (·.1)

def KeysInvP (ps : PList N) : Prop :=
  (∀ deep, (getPList deep (clonePList ps)).map (·.1) = (getPList deep ps).map (·.1)) ∧
  (∀ store, (compsOfPList store (clonePList ps)).map (·.1) = (compsOfPList store ps).map (·.1)) ∧
  (itemsTop (clonePList ps)).map (·.1) = (itemsTop ps).map (·.1) ∧
  (itemsNested (clonePList ps)).map (·.1) = (itemsNested ps).map (·.1)

omit [DecidableEq N] in
theorem map_fst_pre (k : N) (l : List (Path N × Val N)) : (pre k l).map (·.1) = (l.map (·.1)).map (k :: ·) := by
  simp [pre, List.map_map, Function.comp_def]

mutual
theorem keysInvV : (v : Val N) → KeysInvV v
  | .atom _ => by simp [KeysInvV, cloneVal]
  | .named items => by
    obtain ⟨_, _, h3, h4⟩ := keysInvP items
    simp [KeysInvV, cloneVal, getVal, compsOfVal, h3, h4]
  | .est i c impl f ps => by
    obtain ⟨h1, h2, _, _⟩ := keysInvP ps
    refine ⟨?_, by simp [cloneVal, compsOfVal]⟩
    intro deep
    cases impl <;> cases deep <;> simp [cloneVal, getVal, h1, h2]
theorem keysInvP : (ps : PList N) → KeysInvP ps
  | .nil => by simp [KeysInvP, clonePList, getPList, compsOfPList, itemsTop, itemsNested]
  | .cons k v tl => by
    obtain ⟨h1, h2, h3, h4⟩ := keysInvP tl
    obtain ⟨g1, g2⟩ := keysInvV v
    have hn : (nestedOf k (cloneVal v)).map (·.1) = (nestedOf k v).map (·.1) := by
      rw [nestedOf_eq, nestedOf_eq, map_fst_pre, map_fst_pre, g1 true]
    refine ⟨?_, ?_, ?_, ?_⟩
    · intro deep
      cases deep <;> simp [clonePList, getPList, h1, hn]
    · intro store
      by_cases e : k = store <;> simp [clonePList, compsOfPList, e, h2, g2]
    · simp [clonePList, itemsTop, h3]
    · simp [clonePList, itemsNested, h4, hn]
end

-- (C1) clone: equal parameters (modulo fitted flags) and nothing fitted
theorem clone_params_eq (v : Val N) : eraseFitted (cloneVal v) = eraseFitted v := eraseFitted_cloneVal v
theorem clone_unfitted (v : Val N) : anyFitted (cloneVal v) = false := anyFitted_cloneVal v
theorem clone_getParams_keys (v : Val N) (deep : Bool) :
    (getVal deep (cloneVal v)).map (·.1) = (getVal deep v).map (·.1) := (keysInvV v).1 deep

/-! ### (N) _check_names -/

theorem hasDup_eq_false_iff : (l : List N) → (hasDup l = false ↔ l.Nodup)
  | [] => by simp [hasDup]
  | x :: xs => by simp [hasDup, hasDup_eq_false_iff xs]

-- (N1) _check_names
theorem checkNames_rejects_duplicates (dunder : N → Bool) (names params : List N) (h : ¬ names.Nodup) :
    checkNames dunder names params = .error .value := by
  have : hasDup names = true := by
    rw [← hasDup_eq_false_iff] at h; simpa using h
  simp [checkNames, this]
theorem checkNames_rejects_param_clash (dunder : N → Bool) (names params : List N) (n : N)
    (hn : n ∈ names) (hp : n ∈ params) : checkNames dunder names params = .error .value := by
  have : names.any params.contains = true := List.any_eq_true.2 ⟨n, hn, by simpa using hp⟩
  simp only [checkNames, this]
  split <;> rfl
theorem checkNames_rejects_dunder (dunder : N → Bool) (names params : List N) (n : N)
    (hn : n ∈ names) (hd : dunder n = true) : checkNames dunder names params = .error .value := by
  have : names.any dunder = true := List.any_eq_true.2 ⟨n, hn, hd⟩
  simp only [checkNames, this]
  split
  · rfl
  · split <;> rfl
theorem checkNames_accepts (dunder : N → Bool) (names params : List N)
    (h1 : names.Nodup) (h2 : ∀ n ∈ names, n ∉ params) (h3 : ∀ n ∈ names, dunder n = false) :
    checkNames dunder names params = .ok () := by
  have a : hasDup names = false := (hasDup_eq_false_iff names).2 h1
  have b : names.any params.contains = false := by
    rw [List.any_eq_false]; intro n hn; simpa using h2 n hn
  have c : names.any dunder = false := by
    rw [List.any_eq_false]; intro n hn; simp [h3 n hn]
  simp [checkNames, a, b, c]

/-! ### (S8), (S9) -/

-- (S8) sklearn order: a bare key and a nested key with the same prefix in ONE call: the nested key is applied to the NEW value (plain)
theorem set_bare_then_nested_same_prefix (fuel i : Nat) (c : N) (f : Bool) (ps : PList N) (a : N) (new : Val N)
    (q : Path N) (v : Val N) (hk : NodupKeys ps) (hin : a ∈ ps.keys) (hq : q ≠ []) :
    setVal (fuel + 1) (.est i c .plain f ps) [([a], new), (a :: q, v)]
      = (setVal fuel new [(q, v)]).map (fun new' => .est i c .plain f (ps.replace a new')) := by
  rw [setVal_plain, dedupKw_eq_self _ (by simp [Ne.symm hq])]
  have hinv : invalidKey ps [] [([a], new), (a :: q, v)] = false :=
    invalidKey_false_of _ _ _ (by
      intro kv hkv
      simp only [List.mem_cons, List.not_mem_nil, or_false] at hkv
      rcases hkv with rfl | rfl
      · exact ⟨a, [], rfl, Or.inl hin⟩
      · exact ⟨a, q, rfl, Or.inl hin⟩)
  have hsb : setBare ps [([a], new), (a :: q, v)] = ps.replace a new := by
    cases q with
    | nil => exact absurd rfl hq
    | cons _ _ => simp [setBare]
  have hg : ∀ k, groupOf k [([a], new), (a :: q, v)] = if a = k then [(q, v)] else [] := by
    intro k
    simp only [groupOf, List.filterMap_cons, List.filterMap_nil]
    by_cases e : a = k <;> simp [e, hq]
  simp only [coreF, hinv, hsb, hg]
  have hk' : NodupKeys (ps.replace a new) := by simpa [NodupKeys, keys_replace] using hk
  rw [mapM_focus _ a new _ hk' (lookup_replace_same ps a new hin) (by intro k hne v'; simp [Ne.symm hne])]
  simp only [if_true, List.isEmpty_cons, List.contains_nil, Bool.or_self, Bool.false_eq_true, if_false,
    replace_replace]
  cases setVal fuel new [(q, v)] <;> simp [Except.map]

theorem mapLastM_id (f : N → Val N → Except Err (Val N)) : (ps : PList N) →
    (∀ k v, f k v = .ok v) → ps.mapLastM f = .ok ps
  | .nil, _ => rfl
  | .cons k v tl, h => by
    simp [PList.mapLastM, h, mapLastM_id f tl h]

omit [DecidableEq N] in
theorem foldl_fix {α β : Type} (g : α → β → α) (a : α) : (l : List β) → (∀ b ∈ l, g a b = a) → l.foldl g a = a
  | [], _ => rfl
  | b :: l, h => by
    rw [List.foldl_cons, h b List.mem_cons_self]
    exact foldl_fix g a l (fun b' h' => h b' (List.mem_cons_of_mem _ h'))

theorem metaStep2_noop (store : N) (ps : PList N) (kvs : List (Path N × Val N))
    (h : ∀ kv ∈ kvs, ∀ n, kv.1 = [n] → n ∉ componentNames store ps) : metaStep2 store ps kvs = (ps, kvs) := by
  have h2 : kvs.filter (fun kv => !isCompKey (componentNames store ps) kv) = kvs := by
    rw [List.filter_eq_self]
    intro kv hkv
    simp only [isCompKey]
    split
    · next n e => simp [h kv hkv n e]
    · rfl
  simp only [metaStep2, h2]
  congr 1
  apply foldl_fix
  intro kv hkv
  split
  · next n e => simp [h kv hkv n e]
  · rfl

-- (S9) set_params(**get_params(deep=False)) changes nothing for a meta-estimator whose component names
-- do not clash with its parameter names (what `_check_names` enforces)
theorem set_get_roundtrip_meta (fuel i : Nat) (c : N) (f : Bool) (ps : PList N) (attr : N) (items : PList N)
    (hk : NodupKeys ps) (hs : ps.lookup attr = some (.named items))
    (hclash : ∀ n ∈ items.keys, n ∉ ps.keys) :
    setVal (fuel + 1) (.est i c (.viaMeta attr attr) f ps) (getVal false (.est i c (.viaMeta attr attr) f ps))
      = .ok (.est i c (.viaMeta attr attr) f ps) := by
  rw [getVal_shallow, setVal_meta, dedupKw_eq_self _ (getPList_false_nodup ps hk)]
  have hm := getPList_false_mem ps hk
  have hcn := componentNames_of_lookup attr ps items hs
  have h1 : dictGet [attr] (getPList false ps) = some (.named items) := by
    rw [dictGet_getPList_shallow, lookupLast_eq_lookup attr ps hk, hs]
  -- the keywords that survive step 1
  have hsub : ∀ kv ∈ (getPList false ps).filter (fun kv => !isBare attr kv), kv ∈ getPList false ps :=
    fun kv h => (List.mem_filter.1 h).1
  have hm' : ∀ kv ∈ (getPList false ps).filter (fun kv => !isBare attr kv),
      ∃ k, kv.1 = [k] ∧ ps.lookup k = some kv.2 := fun kv h => hm kv (hsub kv h)
  have hpre : metaPre attr attr ps (getPList false ps)
      = (ps, (getPList false ps).filter (fun kv => !isBare attr kv)) := by
    simp only [metaPre, metaStep1, h1, replace_self attr _ ps hs]
    apply metaStep2_noop
    intro kv hkv n e
    obtain ⟨k, e', hl⟩ := hm' kv hkv
    rw [e'] at e
    simp only [List.cons.injEq, and_true] at e
    subst e
    rw [hcn]
    exact fun hin => hclash _ hin (mem_keys_of_lookup ps hl)
  rw [hpre]
  simp only []
  split
  · rfl
  · have hinv : invalidKey ps (componentNames attr ps)
        ((getPList false ps).filter (fun kv => !isBare attr kv)) = false := by
      apply invalidKey_false_of
      intro kv hkv
      obtain ⟨k, e, hl⟩ := hm' kv hkv
      exact ⟨k, [], e, Or.inl (mem_keys_of_lookup ps hl)⟩
    have hg : ∀ k, groupOf k ((getPList false ps).filter (fun kv => !isBare attr kv)) = [] := fun k =>
      groupOf_bare k _ (fun kv hkv => let ⟨n, e, _⟩ := hm' kv hkv; ⟨n, e⟩)
    have hb : ((getPList false ps).filter (fun kv => !isBare attr kv)).any (isBare attr) = false := by
      rw [List.any_eq_false]
      intro kv hkv
      simpa using (List.mem_filter.1 hkv).2
    simp only [coreF, hinv, setBare_fix ps _ hm', hg, hs, hb]
    rw [mapM_id _ ps (by intros; simp), mapLastM_id _ items (by intros; simp)]
    simp [replace_self attr _ ps hs]

end SkVerif.Params.Tree
