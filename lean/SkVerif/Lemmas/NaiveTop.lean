/- C11 lemmas: `NaiveForecaster.fit(y).predict(fh)` end to end (horizon handling, window resolution). -/
import SkVerif.Lemmas.Naive
import SkVerif.Lemmas.FH
namespace SkVerif.Lem.Naive
open SkVerif SkVerif.Naive
open SkVerif.Spec.Naive (window windowTimes)

theorem fitWindow_le (st : Strategy) (sp : Int) (wl : Option Int) (n w : Nat)
    (h : fitWindow st sp wl n = .ok w) : w ≤ n ∧ 1 ≤ n := by
  unfold fitWindow at h
  split at h
  · cases h
  · split at h
    · cases h
    · split at h
      · cases h
      · injection h with h; omega

/-- the horizon handling of `predict` for relative, sorted steps: split at step 0 -/
theorem fitPredict_rel (st : Strategy) (sp : Int) (wl : Option Int) (y : List Val) (origin : Int) (fh : List Int)
    (hs : fh.Pairwise (· < ·)) (hne : fh ≠ []) (w : Nat) (hfit : fitWindow st sp wl y.length = .ok w) :
    fitPredict st sp wl y origin (.ints fh) true =
      (let ins := fh.filter (fun v => decide (v ≤ 0))
       let oos := fh.filter (fun v => decide (v > 0))
       if ins.isEmpty then predictOut st sp.toNat w y origin oos
       else if oos.isEmpty then predictInSample st sp.toNat w y origin ins
       else (predictInSample st sp.toNat w y origin ins).bind (fun a =>
              (predictOut st sp.toNat w y origin oos).bind (fun b => .ok (a ++ b)))) := by
  have hnd : fh.Nodup := Lem.nodup_of_strictSorted hs
  have hsort : sortInts fh = fh := Lem.sortInts_of_sorted fh (hs.imp (by intro a b h; omega))
  have hlen : ¬ (fh.length = 0) := by
    intro h; exact hne (List.length_eq_zero_iff.mp h)
  unfold fitPredict
  simp only [hfit, FH.mk, FH.checkValues, hnd, hsort, FH.checkFh, FH.toRelative, liftFH, Except.map, bind, Except.bind,
    pure, Except.pure, Bool.not_true, Bool.false_eq_true, ↓reduceIte, hlen, Bool.and_false]

/-- end to end, out-of-sample horizon: labels `T + h`, values from `_predict_last_window` on the last `w` observations -/
theorem fitPredict_out_of_sample (st : Strategy) (sp : Int) (wl : Option Int) (y : List Val) (origin : Int) (fh : List Int)
    (hs : fh.Pairwise (· < ·)) (hne : fh ≠ []) (hpos : ∀ h ∈ fh, 1 ≤ h) (w : Nat)
    (hfit : fitWindow st sp wl y.length = .ok w) :
    fitPredict st sp wl y origin (.ints fh) true =
      match predictLastWindow st sp.toNat w (window (asFn y origin) (origin + (y.length : Int) - 1) w) fh with
      | .ok vs => .ok ((fh.map (origin + (y.length : Int) - 1 + ·)).zip vs)
      | .error e => .error e := by
  rw [fitPredict_rel st sp wl y origin fh hs hne w hfit]
  have hins : fh.filter (fun v => decide (v ≤ 0)) = [] := by
    apply List.filter_eq_nil_iff.mpr
    intro a ha; have := hpos a ha; simp; omega
  have hoos : fh.filter (fun v => decide (v > 0)) = fh := by
    apply List.filter_eq_self.mpr
    intro a ha; have := hpos a ha; simp; omega
  have hb := fitWindow_le st sp wl y.length w hfit
  have hwin : lastWindow y origin w (origin + (y.length : Int) - 1) = window (asFn y origin) (origin + (y.length : Int) - 1) w := by
    rw [lastWindow_eq_window y origin w _ (by omega) (by omega)]
    congr 1
    omega
  simp only [hins, hoos, List.isEmpty_nil, ↓reduceIte, predictOut, hwin, bind, Except.bind, pure, Except.pure]
  cases predictLastWindow st sp.toNat w (window (asFn y origin) (origin + (y.length : Int) - 1) w) fh <;> rfl

/-- an in-sample step whose moved cutoff lies inside the series: the window is the (at most `wl`) observations up to it -/
theorem oneStepAhead_eq (st : Strategy) (sp wl : Nat) (y : List Val) (origin : Int) (q : Int)
    (h0 : 0 ≤ q) (h1 : q ≤ (y.length : Int) - 1) :
    oneStepAhead st sp wl y origin q =
      match predictLastWindow st sp wl (window (asFn y origin) (origin + q) (min wl (q.toNat + 1))) [1] with
      | .error e => .error e
      | .ok v => .ok (origin + q + 1, v.headD none) := by
  unfold oneStepAhead
  have hq : ¬ (q < 0) := by omega
  simp only [hq, ↓reduceIte]
  rw [lastWindow_eq_window y origin wl (origin + q) (by omega) (by omega)]
  have : (origin + q - origin + 1).toNat = q.toNat + 1 := by omega
  rw [this]
  generalize predictLastWindow st sp wl (window (asFn y origin) (origin + q) (min wl (q.toNat + 1))) [1] = r
  cases r <;> rfl

/-- an in-sample step at or before the first observation: nothing has been observed, the forecast is NaN
(and is labelled with the first time point, because the cutoff stays just before the series) -/
theorem oneStepAhead_before_start (st : Strategy) (sp wl : Nat) (y : List Val) (origin : Int) (q : Int) (h0 : q < 0) :
    oneStepAhead st sp wl y origin q = .ok (origin, none) := by
  unfold oneStepAhead
  simp only [h0, ↓reduceIte, lastWindow_before_start]
  simp [predictLastWindow, allNaN]

end SkVerif.Lem.Naive
