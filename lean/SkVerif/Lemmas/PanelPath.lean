/- C15: every converter between nested frame / 3-D array / multi-index frame transports the
canonical container of a panel to the canonical container of the same panel. -/
import SkVerif.Lemmas.PanelNM
namespace SkVerif.Panel.Lem
open SkVerif.Panel SkVerif.Panel.Spec

variable {ν α : Type}

/-- one hop: the real converter's model, applied to the canonical container of shape `s` holding
`X`, returns the canonical container of shape `s'` holding the same `X`; and `s'` is well-formed -/
theorem applyHop_holds [DecidableEq ν] (ops : NameOps ν) (reserved : ν → Bool) {n c t : Nat}
    {X : Arr3 α} (hX : Rect3 n c t X) (hn : 0 < n) (hc : 0 < c) (ht : 0 < t)
    (hd : (defaultNames ops c).Nodup) (h : Hop ν) (s s' : Shape ν) (hs : s.ok c)
    (hh : hopShape ops c h s = some s') :
    applyHop ops reserved h (holds s X) = .ok (holds s' X) ∧ s'.ok c := by
  cases h with
  | n3 =>
    cases s with
    | nested names k =>
      simp [hopShape] at hh; subst hh
      exact ⟨by simp only [applyHop, holds, fromNestedTo3d_ok hX hn hc names hs.1 k]; rfl, trivial⟩
    | _ => simp [hopShape] at hh
  | a3n names k =>
    cases s with
    | arr3 =>
      cases names with
      | none =>
        simp [hopShape] at hh; subst hh
        exact ⟨by simp only [applyHop, holds, from3dToNested_default_ok ops hX hn hd k]; rfl,
          by simp [defaultNames], hd⟩
      | some ns =>
        simp only [hopShape] at hh
        split at hh
        · rename_i h1; cases hh
          exact ⟨by simp only [applyHop, holds, from3dToNested_ok ops hX hn ns h1.1 h1.2 k]; rfl, h1⟩
        · cases hh
    | _ => simp [hopShape] at hh
  | a3m i tm names =>
    cases s with
    | arr3 =>
      cases names with
      | none =>
        simp [hopShape] at hh; subst hh
        exact ⟨by simp only [applyHop, holds, from3dToMI_default_ok ops hX hn hc i tm]; rfl,
          by simp [Shape.ok, defaultNames]⟩
      | some ns =>
        simp only [hopShape] at hh
        split at hh
        · rename_i h1; cases hh
          exact ⟨by simp only [applyHop, holds, from3dToMI_ok ops hX hn hc i tm ns h1]; rfl, h1⟩
        · cases hh
    | _ => simp [hopShape] at hh
  | m3 i tm =>
    cases s with
    | mi i' t' ns =>
      cases i with
      | none => simp [hopShape] at hh
      | some i =>
        cases tm with
        | none => simp [hopShape] at hh
        | some tm =>
          simp only [hopShape] at hh
          split at hh
          · rename_i h1; cases hh
            obtain ⟨rfl, rfl, hne⟩ := h1
            exact ⟨by simp only [applyHop, holds, fromMITo3d_ok hX hn hc ht i tm hne ns hs]; rfl, trivial⟩
          · cases hh
    | _ => simp [hopShape] at hh
  | nm i tm =>
    cases s with
    | nested ns k =>
      simp [hopShape] at hh; subst hh
      exact ⟨by simp only [applyHop, holds, fromNestedToMI_ok hX hn hc ns hs.1 k i tm]; rfl, hs.1⟩
    | _ => simp [hopShape] at hh
  | mn i k =>
    cases s with
    | mi i' t' ns =>
      cases i with
      | none => simp [hopShape] at hh
      | some i =>
        simp only [hopShape] at hh
        split at hh
        · rename_i h1; cases hh
          obtain ⟨rfl, hne, hnd⟩ := h1
          exact ⟨by simp only [applyHop, holds, fromMIToNested_ok hX hn hc ht i t' hne ns hs hnd k]; rfl,
            hs, hnd⟩
        · cases hh
    | _ => simp [hopShape] at hh
  | nl _ _ _ => cases s <;> simp [hopShape] at hh
  | ln _ _ _ _ => cases s <;> simp [hopShape] at hh
  | n2 _ => cases s <;> simp [hopShape] at hh
  | a32 => cases s <;> simp [hopShape] at hh
  | t2n _ _ => cases s <;> simp [hopShape] at hh

/-- any path: by induction over the hops -/
theorem applyPath_holds [DecidableEq ν] (ops : NameOps ν) (reserved : ν → Bool) {n c t : Nat}
    {X : Arr3 α} (hX : Rect3 n c t X) (hn : 0 < n) (hc : 0 < c) (ht : 0 < t)
    (hd : (defaultNames ops c).Nodup) (hs : List (Hop ν)) (s s' : Shape ν) (hok : s.ok c)
    (hp : pathShape ops c hs s = some s') :
    applyPath ops reserved hs (holds s X) = .ok (holds s' X) := by
  induction hs generalizing s with
  | nil => simp only [pathShape] at hp; cases hp; rfl
  | cons h hs ih =>
    simp only [pathShape] at hp
    cases hh : hopShape ops c h s with
    | none => rw [hh] at hp; cases hp
    | some s1 =>
      rw [hh] at hp
      have h1 := applyHop_holds ops reserved hX hn hc ht hd h s s1 hok hh
      simp only [applyPath, h1.1, bind, Except.bind]
      exact ih s1 h1.2 hp

end SkVerif.Panel.Lem
