/- C15: nested <-> 3-D array transport lemmas. -/
import SkVerif.Lemmas.PanelList
import SkVerif.Spec.Panel
namespace SkVerif.Panel.Lem
open SkVerif.Panel SkVerif.Panel.Spec

variable {ν α : Type}

theorem rect_rowsLen {n c t : Nat} {X : Arr3 α} (h : Rect3 n c t X) : RowsLen c X :=
  fun r hr => (h.2 r hr).1

theorem rect_nCols {n c t : Nat} {X : Arr3 α} (h : Rect3 n c t X) (hn : 0 < n) : nCols X = c := by
  obtain ⟨hl, hr⟩ := h
  cases X with
  | nil => simp at hl; omega
  | cons a X => simpa [Panel.nCols] using (hr a (by simp)).1

theorem rect_nTime {n c t : Nat} {X : Arr3 α} (h : Rect3 n c t X) (hn : 0 < n) (hc : 0 < c) :
    nTime X = t := by
  obtain ⟨hl, hr⟩ := h
  cases X with
  | nil => simp at hl; omega
  | cons a X =>
    have ha := hr a (by simp)
    cases a with
    | nil => simp at ha; omega
    | cons s a => simpa [Panel.nTime] using ha.2 s (by simp)

theorem getD_map' {β γ} (f : β → γ) (l : List β) (j : Nat) (d : β) :
    (l.map f).getD j (f d) = f (l.getD j d) := by
  simp [List.getD_eq_getElem?_getD, List.getElem?_map]

/-- C1: `from_3d_numpy_to_nested` builds the nested frame holding `X` -/
theorem from3dToNested_ok [DecidableEq ν] (ops : NameOps ν) {n c t : Nat} {X : Arr3 α}
    (hX : Rect3 n c t X) (hn : 0 < n) (names : List ν) (hl : names.length = c)
    (hnd : names.Nodup) (k : Bool) :
    from3dToNested ops X (some names) k = .ok (nestedOf names k X) := by
  have hc := rect_nCols hX hn
  simp only [from3dToNested, hc, hl, if_true, bind, Except.bind, pure, Except.pure]
  rw [buildCols_eq_zip _ _ hnd, hl]
  unfold nestedOf
  rw [hc]
  congr 2
  have := cols_eq_transposeW c (X.map (List.map (mkCell k))) (mkCell k [])
    (by intro r hr
        obtain ⟨r', hr', rfl⟩ := List.mem_map.mp hr
        simpa using rect_rowsLen hX r' hr')
  rw [← this]
  congr 2
  funext j
  simp only [List.map_map]
  apply List.map_congr_left
  intro inst _
  simp

theorem from3dToNested_default_ok [DecidableEq ν] (ops : NameOps ν) {n c t : Nat} {X : Arr3 α}
    (hX : Rect3 n c t X) (hn : 0 < n) (hnd : (defaultNames ops c).Nodup) (k : Bool) :
    from3dToNested ops X none k = .ok (nestedOf (defaultNames ops c) k X) := by
  have h := from3dToNested_ok ops hX hn (defaultNames ops c) (by simp [defaultNames]) hnd k
  have hc := rect_nCols hX hn
  simp only [from3dToNested, hc, bind, Except.bind, pure, Except.pure] at h ⊢
  simpa [defaultNames] using h

/-! C2 -/

theorem isNested_mkCell (k : Bool) (v : List α) : (mkCell k v).isNested = true := by
  cases k <;> rfl

theorem vals_mkCell (k : Bool) (v : List α) : (mkCell k v).vals? = some v := by
  cases k <;> rfl

/-- columns of the nested frame holding `X` -/
theorem nestedOf_cols_snd {n c t : Nat} {X : Arr3 α} (hX : Rect3 n c t X) (hn : 0 < n)
    (names : List ν) (hl : names.length = c) (k : Bool) :
    (nestedOf names k X).cols.map (·.2) = (transposeW c X).map (List.map (mkCell k)) := by
  unfold nestedOf
  rw [rect_nCols hX hn, map_transposeW]
  simp only
  rw [List.map_snd_zip]
  rw [length_transposeW, hl]
  · exact Nat.le_refl _
  · intro r hr
    obtain ⟨r', hr', rfl⟩ := List.mem_map.mp hr
    simpa using rect_rowsLen hX r' hr'

theorem nestedOf_names {n c t : Nat} {X : Arr3 α} (hX : Rect3 n c t X) (hn : 0 < n)
    (names : List ν) (hl : names.length = c) (k : Bool) :
    (nestedOf names k X).names = names := by
  unfold nestedOf Nested.names
  rw [rect_nCols hX hn]
  simp only
  rw [List.map_fst_zip]
  rw [length_transposeW, hl]
  · exact Nat.le_refl _
  · intro r hr
    obtain ⟨r', hr', rfl⟩ := List.mem_map.mp hr
    simpa using rect_rowsLen hX r' hr'

theorem areColumnsNested_nestedOf {n c t : Nat} {X : Arr3 α} (hX : Rect3 n c t X) (hn : 0 < n)
    (names : List ν) (hl : names.length = c) (k : Bool) :
    areColumnsNested (nestedOf names k X) = List.replicate c true := by
  have h1 : areColumnsNested (nestedOf names k X)
      = ((nestedOf names k X).cols.map (·.2)).map (fun col => col.any Cell.isNested) := by
    simp [areColumnsNested, List.map_map, Function.comp_def]
  rw [h1, nestedOf_cols_snd hX hn names hl k]
  have hlen := length_transposeW c X (rect_rowsLen hX)
  have hrows := rowsLen_transposeW c X (rect_rowsLen hX)
  rw [List.eq_replicate_iff]
  refine ⟨by simp [hlen], ?_⟩
  intro b hb
  simp only [List.map_map, List.mem_map, Function.comp_apply] at hb
  obtain ⟨col, hcol, rfl⟩ := hb
  have hl' : col.length = n := by rw [hrows col hcol, hX.1]
  cases col with
  | nil => simp at hl'; omega
  | cons s col => simp [isNested_mkCell]

theorem isNested_nestedOf {n c t : Nat} {X : Arr3 α} (hX : Rect3 n c t X) (hn : 0 < n) (hc : 0 < c)
    (names : List ν) (hl : names.length = c) (k : Bool) :
    isNestedDataframe (nestedOf names k X) = true := by
  unfold isNestedDataframe
  rw [areColumnsNested_nestedOf hX hn names hl k]
  cases c with
  | zero => omega
  | succ c => simp [List.replicate_succ]

theorem nRows_nestedOf {n c t : Nat} {X : Arr3 α} (hX : Rect3 n c t X) (hn : 0 < n) (hc : 0 < c)
    (names : List ν) (hl : names.length = c) (k : Bool) :
    (nestedOf names k X).nRows = n := by
  have h := nestedOf_cols_snd hX hn names hl k
  have hlen := length_transposeW c X (rect_rowsLen hX)
  have hrows := rowsLen_transposeW c X (rect_rowsLen hX)
  unfold Nested.nRows
  cases hcols : (nestedOf names k X).cols with
  | nil =>
    rw [hcols] at h
    have : ((transposeW c X).map (List.map (mkCell k))).length = 0 := by rw [← h]; rfl
    simp [hlen] at this; omega
  | cons p rest =>
    obtain ⟨nm, col⟩ := p
    rw [hcols] at h
    simp only [List.map_cons] at h
    cases hT : transposeW c X with
    | nil => rw [hT] at h; simp at h
    | cons s T =>
      rw [hT] at h
      simp only [List.map_cons, List.cons.injEq] at h
      simp only
      rw [h.1, List.length_map, hrows s (by rw [hT]; simp), hX.1]

theorem rows_nestedOf {n c t : Nat} {X : Arr3 α} (hX : Rect3 n c t X) (hn : 0 < n) (hc : 0 < c)
    (names : List ν) (hl : names.length = c) (k : Bool) :
    (nestedOf names k X).rows = X.map (List.map (mkCell k)) := by
  unfold Nested.rows
  rw [nRows_nestedOf hX hn hc names hl k, nestedOf_cols_snd hX hn names hl k, map_transposeW]
  have hr : RowsLen c (X.map (List.map (mkCell k))) := by
    intro r hr
    obtain ⟨r', hr', rfl⟩ := List.mem_map.mp hr
    simpa using rect_rowsLen hX r' hr'
  have := transposeW_transposeW c (X.map (List.map (mkCell k))) hr
  rw [List.length_map, hX.1] at this
  exact this

theorem valsE_mkCell (k : Bool) (v : List α) : (mkCell k v).valsE = .ok v := by
  cases k <;> rfl

theorem mapM_valsE_ok (k : Bool) (inst : List (List α)) :
    (inst.map (mkCell k)).mapM Cell.valsE = .ok inst := by
  have := mapM_ok (ε := Err) Cell.valsE (fun c => (c.vals?).getD []) (inst.map (mkCell k)) (by
    intro x hx
    obtain ⟨v, _, rfl⟩ := List.mem_map.mp hx
    simp [valsE_mkCell, vals_mkCell])
  rw [this]
  simp [List.map_map, Function.comp_def, vals_mkCell]

theorem stackRow_ok {t : Nat} (k : Bool) (inst : List (List α)) (h : ∀ s ∈ inst, s.length = t) :
    stackRow (inst.map (mkCell k)) = .ok inst := by
  unfold stackRow
  simp only [bind, Except.bind, mapM_valsE_ok]
  rw [allEq_of_forall (inst.map List.length) t (by
    intro x hx
    obtain ⟨s, hs, rfl⟩ := List.mem_map.mp hx
    exact h s hs)]
  rfl

/-- C2: `from_nested_to_3d_numpy` reads the panel back -/
theorem fromNestedTo3d_ok {n c t : Nat} {X : Arr3 α} (hX : Rect3 n c t X) (hn : 0 < n)
    (hc : 0 < c) (names : List ν) (hl : names.length = c) (k : Bool) :
    fromNestedTo3d (nestedOf names k X) = .ok X := by
  unfold fromNestedTo3d
  have hall : (areColumnsNested (nestedOf names k X)).all id = true := by
    rw [areColumnsNested_nestedOf hX hn names hl k]; simp
  have hrows : (nestedOf names k X).rows.mapM stackRow = .ok X := by
    rw [rows_nestedOf hX hn hc names hl k]
    have := mapM_ok (ε := Err) stackRow (fun r => r.map (fun c => (c.vals?).getD []))
      (X.map (List.map (mkCell k))) (by
        intro r hr
        obtain ⟨inst, hinst, rfl⟩ := List.mem_map.mp hr
        rw [stackRow_ok (t := t) k inst (hX.2 inst hinst).2]
        simp [List.map_map, Function.comp_def, vals_mkCell])
    rw [this]
    simp [List.map_map, Function.comp_def, vals_mkCell]
  have heq : allEq (X.map (fun r => (r.headD []).length)) = true := by
    apply allEq_of_forall _ t
    intro x hx
    obtain ⟨inst, hinst, rfl⟩ := List.mem_map.mp hx
    have hi := hX.2 inst hinst
    cases inst with
    | nil => simp at hi; omega
    | cons s inst => simpa using hi.2 s (by simp)
  simp only [List.headD_eq_head?_getD] at heq
  simp [isNested_nestedOf hX hn hc names hl k, hall, hrows, heq, bind, Except.bind, pure, Except.pure]

end SkVerif.Panel.Lem
