import SkVerif.Lemmas.SplitShape
namespace SkVerif.Lem
open SkVerif SkVerif.Split SkVerif.Split.Spec

theorem cutoffs_mem {k n wl step fh iw sww} (v : Valid k n wl step fh iw sww) (c : Int) :
    c ∈ cutoffs n wl step fh iw sww ↔
      firstCutoff wl step iw sww ≤ c ∧ step ∣ (c - firstCutoff wl step iw sww) ∧ c + fhMax fh ≤ n - 1 := by
  unfold cutoffs
  simp only [List.mem_map]
  have hs : 0 < step := by have := v.step_pos; omega
  constructor
  · rintro ⟨sp, hsp, rfl⟩
    have := (pyRange_mem_pos _ _ _ sp hs).mp hsp
    refine ⟨by omega, ?_, by omega⟩
    have e : sp - 1 - firstCutoff wl step iw sww = sp - (firstCutoff wl step iw sww + 1) := by omega
    rw [e]; exact this.2.2
  · rintro ⟨h1, h2, h3⟩
    refine ⟨c + 1, ?_, by omega⟩
    rw [pyRange_mem_pos _ _ _ _ hs]
    refine ⟨by omega, by omega, ?_⟩
    have e : c + 1 - (firstCutoff wl step iw sww + 1) = c - firstCutoff wl step iw sww := by omega
    rw [e]; exact h2

theorem cutoffs_sorted {k n wl step fh iw sww} (v : Valid k n wl step fh iw sww) :
    (cutoffs n wl step fh iw sww).Pairwise (· < ·) := by
  unfold cutoffs
  rw [List.pairwise_map]
  exact (pyRange_pairwise_lt _ _ _ (by have := v.step_pos; omega)).imp (by intro a b h; omega)

theorem allCutoffs_mem_bounds {k n wl step fh iw sww} (v : Valid k n wl step fh iw sww) (c : Int)
    (hc : c ∈ allCutoffs n wl step fh iw sww) : -1 ≤ c ∧ c + fhMax fh ≤ n - 1 := by
  unfold allCutoffs at hc
  rcases List.mem_append.mp hc with h | h
  · cases iw with
    | none => simp at h
    | some i =>
      simp at h; subst h
      obtain ⟨_, _, h1, h2⟩ := v.iw_ok i rfl
      have := v.wl_pos
      omega
  · have := (cutoffs_mem v c).mp h
    have := firstCutoff_ge v
    omega

theorem fold_mem_shape {k n wl step fh iw sww} (v : Valid k n wl step fh iw sww) (f : Fold)
    (hf : f ∈ folds k n wl step fh iw sww) :
    ∃ c a, c ∈ allCutoffs n wl step fh iw sww ∧ 0 ≤ a ∧ f = (arange a (c + 1), fh.map (c + ·)) := by
  unfold folds at hf
  rcases List.mem_append.mp hf with h | h
  · cases iw with
    | none => simp [initialFold] at h
    | some i =>
      simp [initialFold] at h
      refine ⟨i - 1, 0, by simp [allCutoffs], by omega, ?_⟩
      rw [h]; simp
  · obtain ⟨c, hc, rfl⟩ := List.mem_map.mp h
    refine ⟨c, (match k with | .sliding => max (c + 1 - wl) 0 | .expanding => 0), ?_, ?_, ?_⟩
    · unfold allCutoffs; exact List.mem_append.mpr (Or.inr hc)
    · cases k <;> simp <;> omega
    · cases k <;> simp [fold, train]

theorem listMax_ge (l : List Int) (x : Int) (hx : x ∈ l) : x ≤ listMax l := by
  unfold listMax
  have gen : ∀ (l : List Int) (init : Int), (init ≤ l.foldl max init) ∧ ∀ x ∈ l, x ≤ l.foldl max init := by
    intro l
    induction l with
    | nil => intro init; simp
    | cons a l ih =>
      intro init
      simp only [List.foldl_cons]
      have := ih (max init a)
      refine ⟨by omega, ?_⟩
      intro x hx
      rcases List.mem_cons.mp hx with rfl | hx
      · omega
      · exact this.2 x hx
  exact (gen l _).2 x hx

theorem listMax_mem (l : List Int) (hne : l ≠ []) : listMax l ∈ l := by
  unfold listMax
  have gen : ∀ (l : List Int) (init : Int), l.foldl max init = init ∨ l.foldl max init ∈ l := by
    intro l
    induction l with
    | nil => intro init; simp
    | cons a l ih =>
      intro init
      simp only [List.foldl_cons]
      rcases ih (max init a) with h | h
      · rw [h]
        by_cases hia : init ≤ a
        · right; simp [Int.max_eq_right hia]
        · left; omega
      · right; exact List.mem_cons_of_mem a h
  cases l with
  | nil => exact absurd rfl hne
  | cons a l =>
    simp only [List.head?_cons, Option.getD_some]
    rcases gen (a :: l) a with h | h
    · rw [h]; simp
    · exact h

theorem arange_map_succ (a b : Int) : (arange a b).map (· + 1) = arange (a + 1) (b + 1) := by
  apply eq_of_strict_mem_iff
  · rw [List.pairwise_map]; exact (arange_pairwise_lt a b).imp (by intro x y h; omega)
  · exact arange_pairwise_lt _ _
  · intro x
    simp only [List.mem_map, arange_mem]
    constructor
    · rintro ⟨y, hy, rfl⟩; omega
    · intro h; exact ⟨x - 1, by omega, by omega⟩

theorem sortInts_mem (l : List Int) (x : Int) : x ∈ sortInts l ↔ x ∈ l := (sortInts_perm l).mem_iff

end SkVerif.Lem
