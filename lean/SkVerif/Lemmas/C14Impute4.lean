import SkVerif.Lemmas.C14Impute3
namespace SkVerif.C14.Lem
open SkVerif SkVerif.C14

theorem ffillFrom_idem (last : Option Rat) (z : OSeries) : ffillFrom last (ffillFrom last z) = ffillFrom last z := by
  induction z generalizing last with
  | nil => rfl
  | cons x l ih =>
    cases x with
    | none =>
      cases last with
      | none => simp only [ffillFrom, ih none]
      | some v => simp only [ffillFrom, ih (some v)]
    | some v => simp only [ffillFrom, ih (some v)]

theorem ffill_idem (z : OSeries) : ffill (ffill z) = ffill z := ffillFrom_idem none z

theorem findSome?_ffillFrom_none (l : OSeries) : (ffillFrom none l).findSome? id = l.findSome? id := by
  induction l with
  | nil => rfl
  | cons x l ih =>
    cases x with
    | none => simp only [ffillFrom, List.findSome?_cons, id, ih]
    | some v => simp [ffillFrom]

theorem firstValidFrom_cons_succ (x : Option Rat) (l : OSeries) (i : Nat) :
    Spec.firstValidFrom (x :: l) (i + 1) = Spec.firstValidFrom l i := by
  simp [Spec.firstValidFrom]

theorem firstValidFrom_ffillFrom (last : Option Rat) (z : OSeries) (i : Nat) (hi : i < z.length) :
    Spec.firstValidFrom (ffillFrom last z) i =
      ((Spec.lastValidUpTo z i).or last).or (Spec.firstValidFrom z i) := by
  induction z generalizing last i with
  | nil => simp at hi
  | cons x l ih =>
    cases i with
    | zero =>
      rw [lastValidUpTo_cons_zero]
      cases x with
      | some v => simp [ffillFrom, Spec.firstValidFrom]
      | none =>
        cases last with
        | some w => simp [ffillFrom, Spec.firstValidFrom]
        | none =>
          simp only [ffillFrom, Spec.firstValidFrom, List.drop_zero, List.findSome?_cons, id,
            findSome?_ffillFrom_none]
          simp
    | succ i =>
      have hi' : i < l.length := by simpa using hi
      rw [lastValidUpTo_cons_succ, firstValidFrom_cons_succ]
      cases x with
      | none =>
        simp only [ffillFrom, firstValidFrom_cons_succ, ih last i hi']
        cases Spec.lastValidUpTo l i <;> simp
      | some v =>
        simp only [ffillFrom, firstValidFrom_cons_succ, ih (some v) i hi']
        cases Spec.lastValidUpTo l i <;> simp

/-- forward fill followed by backward fill, position by position -/
theorem bfill_ffill_getElem? (z : OSeries) (i : Nat) (hi : i < z.length) :
    (bfill (ffill z))[i]? = some ((Spec.lastValidUpTo z i).or (Spec.firstValidFrom z i)) := by
  rw [bfill_getElem? _ i (by rw [ffill_length]; exact hi), ffill, firstValidFrom_ffillFrom none z i hi]
  cases Spec.lastValidUpTo z i <;> simp

theorem impute_ffill (z : OSeries) (hz : z ≠ []) : impute .ffill none none z = .ok (bfill (ffill z)) := by
  simp [impute, stage1, stage1Err, checkMethod, isEmpty_false_of_ne hz, replaceMissing, bind, Except.bind, pure,
    Except.pure, ffill_idem]

end SkVerif.C14.Lem
