/-
Helper lemmas for C07, part 3: the loop over fold data refines the honest per-fold specification
(rows under refit and update, the call trace).
-/
import SkVerif.Lemmas.EvaluateLoop
namespace SkVerif.Lem.Ev
open SkVerif SkVerif.Split SkVerif.Evaluate SkVerif.Evaluate.Spec

variable {σ α ξ β : Type}

theorem loopD_length (c : Ctx σ α ξ β) (ds : List (FoldData α ξ)) (i : Nat) (st : σ) (rows : List (Row α β))
    (h : (loopD c i st ds).2 = .ok rows) : rows.length = ds.length := by
  induction ds generalizing i st rows with
  | nil => simp only [loopD] at h; cases h; rfl
  | cons d ds ih =>
    cases hs : stepD c i st d with
    | mk tr r =>
      cases r with
      | error e => rw [loopD_cons_err c i st d ds tr e hs] at h; simp at h
      | ok v =>
        obtain ⟨st', row⟩ := v
        rw [loopD_cons_ok c i st st' d ds tr row hs] at h
        cases hr : (loopD c (i + 1) st' ds).2 with
        | error e => rw [hr] at h; simp [consOk] at h
        | ok rows' =>
          rw [hr] at h
          simp only [consOk, Except.ok.injEq] at h
          subst h
          simp [ih (i + 1) st' rows' hr]

theorem callsFit_refit (i : Nat) : callsFit .refit i = true := by simp [callsFit]
theorem callsFit_zero (s : Strategy) : callsFit s 0 = true := by simp [callsFit]
theorem callsFit_update_succ (i : Nat) (hi : i ≠ 0) : callsFit .update i = false := by
  simp [callsFit, hi]

theorem mkRow_eq (c : Ctx σ α ξ β) (d : FoldData α ξ) (st2 : σ) (yPred : Series α) :
    mkRow c d st2 yPred = rowOf c.m (applyMetric c.μ) c.retData ⟨d.yTrain, d.yTest, yPred, st2⟩ := rfl

/-- strategy refit: every row is the honest fold of a fresh forecaster -/
theorem loopD_refit (c : Ctx σ α ξ β) (st0 : σ) (hr : FitResets c.m) (hs : c.strategy = .refit)
    (ds : List (FoldData α ξ)) (i : Nat) (st : σ) :
    (loopD c i st ds).2 =
      collect (ds.map (fun d => rowE c.m (applyMetric c.μ) c.retData (honestRefit c.m st0 c.fitParams d))) := by
  induction ds generalizing i st with
  | nil => rfl
  | cons d ds ih =>
    have hop : trainOp c i st d = c.m.fit st0 d.yTrain d.xTrain d.fh c.fitParams := by
      simp only [trainOp, hs, callsFit_refit, ↓reduceIte]
      exact hr st st0 _ _ _ _
    rw [List.map_cons]
    cases hf : c.m.fit st0 d.yTrain d.xTrain d.fh c.fitParams with
    | error e =>
      have hh : honestRefit c.m st0 c.fitParams d = .error e := by simp only [honestRefit, hf]
      rw [loopD_cons_err c i st d ds _ e (stepD_train_err c i st d e (hop.trans hf)), hh]
      rfl
    | ok st1 =>
      cases hp : c.m.predict st1 d.fh d.xTest with
      | error e =>
        have hh : honestRefit c.m st0 c.fitParams d = .error e := by simp only [honestRefit, hf, predictFold, hp]
        rw [loopD_cons_err c i st d ds _ e (stepD_pred_err c i st st1 d e (hop.trans hf) hp), hh]
        rfl
      | ok v =>
        obtain ⟨st2, yPred⟩ := v
        have hh : honestRefit c.m st0 c.fitParams d = .ok ⟨d.yTrain, d.yTest, yPred, st2⟩ := by
          simp only [honestRefit, hf, predictFold, hp]
        rw [loopD_cons_ok c i st st2 d ds _ _ (stepD_ok c i st st1 st2 d yPred (hop.trans hf) hp), hh]
        simp only [ih (i + 1) st2, rowE, collect, mkRow_eq]

/-- strategy update, from the second fold on: `st` is the state left by predicting the previous
fold `dPrev` from the trained state `sPrev` -/
theorem loopD_update_gen (c : Ctx σ α ξ β) (hs : c.strategy = .update)
    (ds : List (FoldData α ξ)) (i : Nat) (hi : i ≠ 0) (sPrev : σ) (dPrev : FoldData α ξ) (st : σ) (p : Series α)
    (hp : c.m.predict sPrev dPrev.fh dPrev.xTest = .ok (st, p)) :
    (loopD c i st ds).2 =
      collect ((prefixes ds).map (fun pre => rowE c.m (applyMetric c.μ) c.retData (continueHistory c.m sPrev dPrev pre))) := by
  induction ds generalizing i sPrev dPrev st p with
  | nil => rfl
  | cons d ds ih =>
    have hop : trainOp c i st d = c.m.update st d.yTrain d.xTrain := by
      simp only [trainOp, hs, callsFit_update_succ i hi, Bool.false_eq_true, ↓reduceIte]
    simp only [prefixes, List.map_cons, List.map_map]
    cases hu : c.m.update st d.yTrain d.xTrain with
    | error e =>
      have hh : continueHistory c.m sPrev dPrev [d] = .error e := by simp only [continueHistory, hp, hu]
      rw [loopD_cons_err c i st d ds _ e (stepD_train_err c i st d e (hop.trans hu)), hh]
      rfl
    | ok st1 =>
      cases hp1 : c.m.predict st1 d.fh d.xTest with
      | error e =>
        have hh : continueHistory c.m sPrev dPrev [d] = .error e := by
          simp only [continueHistory, hp, hu, predictFold, hp1]
        rw [loopD_cons_err c i st d ds _ e (stepD_pred_err c i st st1 d e (hop.trans hu) hp1), hh]
        rfl
      | ok v =>
        obtain ⟨st2, yPred⟩ := v
        have hh : continueHistory c.m sPrev dPrev [d] = .ok ⟨d.yTrain, d.yTest, yPred, st2⟩ := by
          simp only [continueHistory, hp, hu, predictFold, hp1]
        have hfun : ((fun pre => rowE c.m (applyMetric c.μ) c.retData (continueHistory c.m sPrev dPrev pre)) ∘ fun x => d :: x)
            = fun pre => rowE c.m (applyMetric c.μ) c.retData (continueHistory c.m st1 d pre) := by
          funext pre
          simp only [Function.comp, continueHistory, hp, hu]
        rw [loopD_cons_ok c i st st2 d ds _ _ (stepD_ok c i st st1 st2 d yPred (hop.trans hu) hp1), hh, hfun]
        simp only [ih (i + 1) (by omega) st1 d st2 yPred hp1, rowE, collect, mkRow_eq]

/-- strategy update: row `i` is the honest result of the history of the first `i+1` folds -/
theorem loopD_update (c : Ctx σ α ξ β) (st0 : σ) (hs : c.strategy = .update) (ds : List (FoldData α ξ)) :
    (loopD c 0 st0 ds).2 =
      collect ((prefixes ds).map (fun hist => rowE c.m (applyMetric c.μ) c.retData (honestUpdate c.m st0 c.fitParams hist))) := by
  cases ds with
  | nil => rfl
  | cons d ds =>
    have hop : trainOp c 0 st0 d = c.m.fit st0 d.yTrain d.xTrain d.fh c.fitParams := by
      simp only [trainOp, callsFit_zero, ↓reduceIte]
    simp only [prefixes, List.map_cons, List.map_map]
    cases hf : c.m.fit st0 d.yTrain d.xTrain d.fh c.fitParams with
    | error e =>
      have hh : honestUpdate c.m st0 c.fitParams [d] = .error e := by simp only [honestUpdate, hf]
      rw [loopD_cons_err c 0 st0 d ds _ e (stepD_train_err c 0 st0 d e (hop.trans hf)), hh]
      rfl
    | ok st1 =>
      cases hp1 : c.m.predict st1 d.fh d.xTest with
      | error e =>
        have hh : honestUpdate c.m st0 c.fitParams [d] = .error e := by
          simp only [honestUpdate, hf, continueHistory, predictFold, hp1]
        rw [loopD_cons_err c 0 st0 d ds _ e (stepD_pred_err c 0 st0 st1 d e (hop.trans hf) hp1), hh]
        rfl
      | ok v =>
        obtain ⟨st2, yPred⟩ := v
        have hh : honestUpdate c.m st0 c.fitParams [d] = .ok ⟨d.yTrain, d.yTest, yPred, st2⟩ := by
          simp only [honestUpdate, hf, continueHistory, predictFold, hp1]
        have hfun : ((fun hist => rowE c.m (applyMetric c.μ) c.retData (honestUpdate c.m st0 c.fitParams hist)) ∘ fun x => d :: x)
            = fun pre => rowE c.m (applyMetric c.μ) c.retData (continueHistory c.m st1 d pre) := by
          funext pre
          simp only [Function.comp, honestUpdate, hf]
        rw [loopD_cons_ok c 0 st0 st2 d ds _ _ (stepD_ok c 0 st0 st1 st2 d yPred (hop.trans hf) hp1), hh, hfun]
        simp only [loopD_update_gen c hs ds 1 (by omega) st1 d st2 yPred hp1, rowE, collect, mkRow_eq]

theorem prefixes_length {γ} (l : List γ) : (prefixes l).length = l.length := by
  induction l with
  | nil => rfl
  | cons a l ih => simp [prefixes, ih]

/-- the `i`-th history is the first `i+1` folds -/
theorem prefixes_getElem? {γ} (l : List γ) (i : Nat) (hi : i < l.length) :
    (prefixes l)[i]? = some (l.take (i + 1)) := by
  induction l generalizing i with
  | nil => simp at hi
  | cons a l ih =>
    cases i with
    | zero => simp [prefixes]
    | succ i =>
      have hi' : i < l.length := by simpa using hi
      simp [prefixes, ih i hi']

theorem trainCall_eq (c : Ctx σ α ξ β) (i : Nat) (d : FoldData α ξ) :
    [trainCall c i d, Call.predict d.fh d.xTest] = honestCalls c.strategy c.fitParams i d := by
  have hc : (callsFit c.strategy i = true) ↔ (i = 0 ∨ c.strategy = .refit) := by simp [callsFit]
  unfold trainCall honestCalls
  by_cases h : callsFit c.strategy i = true
  · simp only [h, ↓reduceIte, hc.mp h]
  · have h' : ¬ (i = 0 ∨ c.strategy = .refit) := fun x => h (hc.mpr x)
    have h'' : callsFit c.strategy i = false := by simpa using h
    simp only [h'', Bool.false_eq_true, ↓reduceIte, h']

/-- the calls made are a prefix of the honest calls, all of them when no call raises -/
theorem loopD_trace (c : Ctx σ α ξ β) (ds : List (FoldData α ξ)) (i : Nat) (st : σ) :
    (loopD c i st ds).1 <+: honestTrace c.strategy c.fitParams i ds ∧
    (∀ rows, (loopD c i st ds).2 = .ok rows → (loopD c i st ds).1 = honestTrace c.strategy c.fitParams i ds) := by
  induction ds generalizing i st with
  | nil => exact ⟨by simp [loopD, honestTrace], by intro _ _; rfl⟩
  | cons d ds ih =>
    simp only [honestTrace, ← trainCall_eq]
    cases hs : stepD c i st d with
    | mk tr r =>
      cases r with
      | error e =>
        rw [loopD_cons_err c i st d ds tr e hs]
        refine ⟨?_, by intro _ h; simp at h⟩
        cases ht : trainOp c i st d with
        | error e' =>
          rw [stepD_train_err c i st d e' ht] at hs
          cases hs
          simp
        | ok st1 =>
          cases hp : c.m.predict st1 d.fh d.xTest with
          | error e' =>
            rw [stepD_pred_err c i st st1 d e' ht hp] at hs
            cases hs
            simp
          | ok v =>
            rw [stepD_ok c i st st1 v.1 d v.2 ht hp] at hs
            cases hs
      | ok v =>
        obtain ⟨st', row⟩ := v
        rw [loopD_cons_ok c i st st' d ds tr row hs]
        have htr : tr = [trainCall c i d, Call.predict d.fh d.xTest] := by
          cases ht : trainOp c i st d with
          | error e' => rw [stepD_train_err c i st d e' ht] at hs; cases hs
          | ok st1 =>
            cases hp : c.m.predict st1 d.fh d.xTest with
            | error e' => rw [stepD_pred_err c i st st1 d e' ht hp] at hs; cases hs
            | ok v => rw [stepD_ok c i st st1 v.1 d v.2 ht hp] at hs; cases hs; rfl
        subst htr
        obtain ⟨ih1, ih2⟩ := ih (i + 1) st'
        refine ⟨?_, ?_⟩
        · simpa using ih1
        · intro rows h
          cases hr : (loopD c (i + 1) st' ds).2 with
          | error e => simp [hr, consOk] at h
          | ok rows' => simp [ih2 rows' hr]

end SkVerif.Lem.Ev
