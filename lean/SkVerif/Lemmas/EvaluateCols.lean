/-
Helper lemmas for C07, part 7: the columns of the rows the loop returns, and extraction of the
loop from a successful `evaluate` on valid input.
-/
import SkVerif.Lemmas.EvaluateCV
import Mathlib.Data.List.Forall2
namespace SkVerif.Lem.Ev
open SkVerif SkVerif.Split SkVerif.Evaluate SkVerif.Evaluate.Spec

variable {σ α ξ β : Type}

theorem forall₂_map_eq_mem {γ δ ε : Type} (R : γ → δ → Prop) (f : γ → ε) (g : δ → ε) (l1 : List γ) (l2 : List δ)
    (h : List.Forall₂ R l1 l2) (hfg : ∀ a ∈ l1, ∀ b, R a b → f a = g b) : l1.map f = l2.map g := by
  induction h with
  | nil => rfl
  | @cons a b l1' l2' hab _ ih =>
    simp only [List.map_cons]
    rw [hfg a (by simp) b hab, ih (fun a' ha' b' => hfg a' (by simp [ha']) b')]

theorem rows_lenTrain (c : Ctx σ α ξ β) (ds : List (FoldData α ξ)) (i : Nat) (st : σ) (rows : List (Row α β))
    (h : (loopD c i st ds).2 = .ok rows) : rows.map (·.lenTrain) = ds.map (·.yTrain.length) := by
  symm
  refine forall₂_map_eq _ _ _ ds rows (loopD_forall₂ c ds i st rows h) ?_
  rintro d row ⟨j, s, s1, s2, p, _, _, rfl⟩
  rfl

/-- the time point of the last observation of a fold's training window -/
def lastTrainLabel (d : FoldData α ξ) : Int := ((labels d.yTrain).getLast?).getD 0

theorem rows_cutoff (c : Ctx σ α ξ β) (hct : CutoffTracks c.m) (ds : List (FoldData α ξ))
    (hne : ∀ d ∈ ds, d.yTrain ≠ []) (i : Nat) (st : σ) (rows : List (Row α β))
    (h : (loopD c i st ds).2 = .ok rows) : rows.map (·.cutoff) = ds.map lastTrainLabel := by
  symm
  refine forall₂_map_eq_mem _ _ _ ds rows (loopD_forall₂ c ds i st rows h) ?_
  rintro d hd row ⟨j, s, s1, s2, p, ht, hp, rfl⟩
  have hl : ∃ l, (labels d.yTrain).getLast? = some l := by
    have : labels d.yTrain ≠ [] := by simpa [labels] using hne d hd
    exact ⟨_, List.getLast?_eq_some_getLast this⟩
  obtain ⟨l, hl⟩ := hl
  have h1 : c.m.cutoff s1 = l := by
    unfold trainOp at ht
    split at ht
    · exact hct.fit _ _ _ _ _ _ ht l hl
    · exact hct.update _ _ _ _ ht l hl
  have h2 := hct.predict _ _ _ _ _ hp
  simp only [mkRow, lastTrainLabel, hl, Option.getD_some, h2, h1]

theorem rows_data (c : Ctx σ α ξ β) (ds : List (FoldData α ξ)) (i : Nat) (st : σ) (rows : List (Row α β))
    (h : (loopD c i st ds).2 = .ok rows) :
    List.Forall₂ (fun d row => ∃ p, row.score = applyMetric c.μ d.yTest p ∧
      row.data = if c.retData then some (d.yTrain, d.yTest, p) else none) ds rows := by
  refine (loopD_forall₂ c ds i st rows h).imp ?_
  rintro d row ⟨j, s, s1, s2, p, _, _, rfl⟩
  exact ⟨p, rfl, rfl⟩

/-- a table returned on valid input is the loop's rows over the folds' data -/
theorem evaluate_ok_valid (m : Machine σ α ξ) (dflt : Metric α β) (st0 : σ) (cv : CV) (y : Series α) (X : Option (Series ξ))
    (strategy : Strategy) (scoring : Scoring α β) (fp : Option Int) (rd : Bool) (fs : List Fold)
    (hcv : CVValid y.length cv) (hin : InputOK y X) (hsp : cv.split y.length = .ok fs)
    (tr : List (Call α ξ)) (t : Table α β)
    (h : evaluate m dflt st0 cv y X strategy scoring fp rd = (tr, .ok t)) :
    ∃ mt nm, resolveScoring dflt scoring = .ok mt ∧ mt.name = some nm ∧ strategy ≠ .invalid ∧
      FoldsOK y.length (fhMin cv.fh) fs ∧ t.scoreName = "test_" ++ nm ∧
      loopD ⟨m, mt.fn, strategy, rd, fp, y, X, cv.fh⟩ 0 st0 (fs.map (foldData y X (fhMin cv.fh))) = (tr, .ok t.rows) := by
  obtain ⟨mt, nm, fs', hs, _, hm, _, hn, hsp', _, hname, _⟩ :=
    evaluate_ok_inv m dflt st0 cv y X strategy scoring fp rd tr t h
  rw [hsp] at hsp'; cases hsp'
  obtain ⟨hok, _, he⟩ := evaluate_valid_eq m dflt st0 cv y X strategy scoring fp rd mt nm fs hcv hin hs hm hn hsp
  refine ⟨mt, nm, hm, hn, hs, hok, hname, ?_⟩
  rw [he] at h
  simp only [Prod.mk.injEq] at h
  obtain ⟨h1, h2⟩ := h
  cases hr : (loopD ⟨m, mt.fn, strategy, rd, fp, y, X, cv.fh⟩ 0 st0 (fs.map (foldData y X (fhMin cv.fh)))).2 with
  | error e => rw [hr] at h2; simp [tableOf] at h2
  | ok rows =>
    rw [hr] at h2
    simp only [tableOf] at h2
    split at h2
    · simp at h2
    · simp only [Except.ok.injEq] at h2
      subst h2
      rw [← h1, ← hr]

end SkVerif.Lem.Ev
