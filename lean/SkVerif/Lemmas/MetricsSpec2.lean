/- Function-level equalities with the textbook definitions (mean-type metrics, MASE / MSSE, relative errors). -/
import SkVerif.Lemmas.MetricsSpec
import SkVerif.Lemmas.MetricsMulti
namespace SkVerif.Lem.Metrics
open SkVerif SkVerif.Metrics

theorem zipWith_take_right {α β γ} (g : α → β → γ) : ∀ (l : List α) (l' : List β),
    List.zipWith g l (l'.take l.length) = List.zipWith g l l' := by
  intro l
  induction l with
  | nil => intro l'; simp
  | cons a l ih =>
    intro l'
    cases l' with
    | nil => simp
    | cons b l' => simp [ih]

theorem naive_slices (c : Col) (sp : Int) (h0 : 0 < sp) (h1 : sp < c.length) :
    naiveTrue sp c = c.drop sp.toNat ∧ naivePred sp c = c.take (c.length - sp.toNat) := by
  unfold naiveTrue naivePred sliceFrom sliceTo pyIdx
  have e1 : ¬ sp < 0 := by omega
  have e2 : -sp < 0 := by omega
  simp only [e1, e2, if_false, if_true]
  constructor
  · congr 1; omega
  · congr 1; omega

theorem naive_absErrs_eq_spec (c : Col) (sp : Int) (h0 : 0 < sp) (h1 : sp < c.length) :
    absErrs (naiveTrue sp c) (naivePred sp c) = (Spec.Metrics.naiveErr sp.toNat c).map (|·|) := by
  obtain ⟨e1, e2⟩ := naive_slices c sp h0 h1
  rw [e1, e2]
  have hl : (c.drop sp.toNat).length = c.length - sp.toNat := by simp
  unfold absErrs Spec.Metrics.naiveErr
  rw [← hl, zipWith_take_right, List.map_zipWith]
  apply zipWith_congr_mem
  intro a _ b _
  rw [absR_eq_abs, abs_sub_comm]

theorem naive_sqErrs_eq_spec (c : Col) (sp : Int) (h0 : 0 < sp) (h1 : sp < c.length) :
    sqErrs (naiveTrue sp c) (naivePred sp c) = (Spec.Metrics.naiveErr sp.toNat c).map (· ^ 2) := by
  obtain ⟨e1, e2⟩ := naive_slices c sp h0 h1
  rw [e1, e2]
  have hl : (c.drop sp.toNat).length = c.length - sp.toNat := by simp
  unfold sqErrs Spec.Metrics.naiveErr
  rw [← hl, zipWith_take_right, List.map_zipWith]
  apply zipWith_congr_mem
  intro a _ b _
  exact sqr_eq_pow _

section
variable {eps : Rat} {hw : Option (List Rat)} {out : Out} {t p c : Col} {ix : Option (Int × Int)} {sp : Int}

/-- what a direct metric returns for `raw_values` on one column -/
theorem direct_single_raw {f : Mat → Mat → Option (List Rat) → MO → Except Err Out}
    {colf : Option (List Rat) → Col → Col → Rat} {k : Nat} {ns : Bool} (hd : IsDirect f colf k ns)
    {t p : Col} {hw : Option (List Rat)} {out : Out} (h : f [t] [p] hw .raw = .ok out) :
    out = .raw k [colf hw t p] := by
  obtain ⟨_, _, _, h4⟩ := (hd _ _ _ _ _).mp h
  simp only [finish, List.zipWith_cons_cons, List.zipWith_nil_right, Except.ok.injEq] at h4
  exact h4.symm

/-- univariate MASE with `raw_values` = textbook MASE (while the naive in-sample error is at least eps) -/
theorem mase_univariate_eq_spec (h0 : 0 < sp) (h1 : sp < c.length)
    (hg : eps ≤ Spec.Metrics.wmean none ((Spec.Metrics.naiveErr sp.toNat c).map (|·|)))
    (h : meanAbsoluteScaledError eps [t] [p] (.arr [c]) ix sp hw .raw = .ok out) :
    out = .raw 1 [Spec.Metrics.MASE hw sp.toNat t p c] := by
  obtain ⟨m, naive, pred, hm, hn, hp, rfl⟩ := scaled_iff.mp h
  have : m = [c] := (scaledPrologue_arr_iff.mp hm).2.2.2.2
  subst this
  simp only [List.map_cons, List.map_nil] at hn
  rw [direct_single_raw isDirect_mae hn, direct_single_raw isDirect_mae hp]
  simp only [ratioOut, ratioVals, Out.perCol, rootDeg, List.zipWith_cons_cons, List.zipWith_nil_right,
    Bool.false_eq_true, if_false]
  rw [naive_absErrs_eq_spec c sp h0 h1, npAverage_eq_wmean, npAverage_eq_wmean, absErrs_eq_spec, maxR_of_le hg]
  rfl

/-- univariate MSSE / RMSSE with `raw_values` = textbook MSSE (radicand; degree 2 with `square_root`) -/
theorem msse_univariate_eq_spec {sqrt : Bool} (h0 : 0 < sp) (h1 : sp < c.length)
    (hg : eps ≤ Spec.Metrics.wmean none ((Spec.Metrics.naiveErr sp.toNat c).map (· ^ 2)))
    (h : meanSquaredScaledError eps [t] [p] (.arr [c]) ix sp hw .raw sqrt = .ok out) :
    out = .raw (rootDeg sqrt 1) [Spec.Metrics.MSSE hw sp.toNat t p c] := by
  obtain ⟨m, naive, pred, hm, hn, hp, rfl⟩ := scaled_iff.mp h
  have : m = [c] := (scaledPrologue_arr_iff.mp hm).2.2.2.2
  subst this
  simp only [List.map_cons, List.map_nil] at hn
  rw [direct_single_raw (isDirect_mse false) hn, direct_single_raw (isDirect_mse false) hp]
  simp only [ratioOut, ratioVals, Out.perCol, List.zipWith_cons_cons, List.zipWith_nil_right]
  rw [naive_sqErrs_eq_spec c sp h0 h1, npAverage_eq_wmean, npAverage_eq_wmean, sqErrs_eq_spec, maxR_of_le hg]
  rfl
end



theorem sqErrs'_eq_spec (t p : Col) : sqErrs' t p = Spec.Metrics.sqErr t p := by
  unfold sqErrs' Spec.Metrics.sqErr
  apply zipWith_congr_mem
  intro a _ b _
  unfold sqr; ring

section
variable {eps : Rat} {hw : Option (List Rat)} {out : Out} {t p b c : Col} {ix : Option (Int × Int)} {sp : Int}

/-- univariate MdASE with `raw_values`: (weighted) median of |errors| over the plain median of the naive |errors| -/
theorem mdase_univariate_eq_spec (h0 : 0 < sp) (h1 : sp < c.length)
    (hg : eps ≤ median ((Spec.Metrics.naiveErr sp.toNat c).map (|·|)))
    (h : medianAbsoluteScaledError eps [t] [p] (.arr [c]) ix sp hw .raw = .ok out) :
    out = .raw 1 [medianW hw (Spec.Metrics.absErr t p) / median ((Spec.Metrics.naiveErr sp.toNat c).map (|·|))] := by
  obtain ⟨m, naive, pred, hm, hn, hp, rfl⟩ := scaled_iff.mp h
  have : m = [c] := (scaledPrologue_arr_iff.mp hm).2.2.2.2
  subst this
  simp only [List.map_cons, List.map_nil] at hn
  rw [direct_single_raw isDirect_mdae hn, direct_single_raw isDirect_mdae hp]
  simp only [ratioOut, ratioVals, Out.perCol, rootDeg, List.zipWith_cons_cons, List.zipWith_nil_right,
    Bool.false_eq_true, if_false, medianW]
  rw [naive_absErrs_eq_spec c sp h0 h1, absErrs_eq_spec, maxR_of_le hg]

/-- univariate MdSSE / root MdSSE with `raw_values` -/
theorem mdsse_univariate_eq_spec {sqrt : Bool} (h0 : 0 < sp) (h1 : sp < c.length)
    (hg : eps ≤ median ((Spec.Metrics.naiveErr sp.toNat c).map (· ^ 2)))
    (h : medianSquaredScaledError eps [t] [p] (.arr [c]) ix sp hw .raw sqrt = .ok out) :
    out = .raw (rootDeg sqrt 1)
      [medianW hw (Spec.Metrics.sqErr t p) / median ((Spec.Metrics.naiveErr sp.toNat c).map (· ^ 2))] := by
  obtain ⟨m, naive, pred, hm, hn, hp, rfl⟩ := scaled_iff.mp h
  have : m = [c] := (scaledPrologue_arr_iff.mp hm).2.2.2.2
  subst this
  simp only [List.map_cons, List.map_nil] at hn
  rw [direct_single_raw (isDirect_mdse false) hn, direct_single_raw (isDirect_mdse false) hp]
  simp only [ratioOut, ratioVals, Out.perCol, List.zipWith_cons_cons, List.zipWith_nil_right, medianW]
  have e : sqErrs' (naiveTrue sp c) (naivePred sp c) = sqErrs (naiveTrue sp c) (naivePred sp c) := by
    rw [sqErrs'_eq_spec, sqErrs_eq_spec]
  rw [e, naive_sqErrs_eq_spec c sp h0 h1, sqErrs'_eq_spec, maxR_of_le hg]

/-- univariate relative loss (`raw_values`) with MAE resp. MSE as the loss: loss of the forecast over loss of the
benchmark, while the benchmark's loss is at least eps -/
theorem relloss_mae_univariate_eq_spec (hg : eps ≤ Spec.Metrics.MAE hw t b)
    (h : relativeLoss eps [t] [p] [b] .mae hw .raw = .ok out) :
    out = .raw 1 [Spec.Metrics.MAE hw t p / Spec.Metrics.MAE hw t b] := by
  obtain ⟨_, _, lp, lb, h1, h2, rfl⟩ := relativeLoss_iff.mp h
  simp only [Base.call] at h1 h2
  rw [direct_single_raw isDirect_mae h1, direct_single_raw isDirect_mae h2]
  simp only [ratioOut, ratioVals, Out.perCol, List.zipWith_cons_cons, List.zipWith_nil_right]
  rw [npAverage_eq_wmean, npAverage_eq_wmean, absErrs_eq_spec, absErrs_eq_spec]
  have : Spec.Metrics.wmean hw (Spec.Metrics.absErr t b) = Spec.Metrics.MAE hw t b := rfl
  rw [this, maxR_of_le hg]; rfl

theorem relloss_mse_univariate_eq_spec (hg : eps ≤ Spec.Metrics.MSE hw t b)
    (h : relativeLoss eps [t] [p] [b] .mse hw .raw = .ok out) :
    out = .raw 1 [Spec.Metrics.MSE hw t p / Spec.Metrics.MSE hw t b] := by
  obtain ⟨_, _, lp, lb, h1, h2, rfl⟩ := relativeLoss_iff.mp h
  simp only [Base.call] at h1 h2
  rw [direct_single_raw (isDirect_mse false) h1, direct_single_raw (isDirect_mse false) h2]
  simp only [ratioOut, ratioVals, Out.perCol, List.zipWith_cons_cons, List.zipWith_nil_right]
  rw [npAverage_eq_wmean, npAverage_eq_wmean, sqErrs_eq_spec, sqErrs_eq_spec]
  have : Spec.Metrics.wmean hw (Spec.Metrics.sqErr t b) = Spec.Metrics.MSE hw t b := rfl
  rw [this, maxR_of_le hg]; rfl
end

end SkVerif.Lem.Metrics
