import SkVerif.Lemmas.C14Impute3
import Mathlib.Algebra.BigOperators.Group.Finset.Basic
import Mathlib.Algebra.BigOperators.Ring.Finset
import Mathlib.Algebra.Order.BigOperators.Group.Finset
import Mathlib.Tactic.Ring
import Mathlib.Tactic.FieldSimp
import Mathlib.Tactic.Linarith
import Mathlib.Algebra.Order.Field.Rat
namespace SkVerif.C14.Lem
open SkVerif SkVerif.C14

theorem list_sum_eq_finset (l : List Rat) : l.sum = ∑ t ∈ Finset.range l.length, l.getD t 0 := by
  induction l with
  | nil => simp
  | cons a l ih =>
    rw [List.length_cons, Finset.sum_range_succ', List.sum_cons, ih]
    simp [add_comm]

theorem range_cast_sum (n : Nat) :
    ((List.range n).map (fun (t : Nat) => (t : Rat))).sum = ∑ t ∈ Finset.range n, (t : Rat) := by
  induction n with
  | zero => simp
  | succ n ih => rw [List.range_succ, List.map_append, List.sum_append, ih, Finset.sum_range_succ]; simp

theorem zipWith_range_sum (f : Rat → Rat → Rat) (ys : List Rat) :
    (List.zipWith f ((List.range ys.length).map (fun (t : Nat) => (t : Rat))) ys).sum =
      ∑ t ∈ Finset.range ys.length, f (t : Rat) (ys.getD t 0) := by
  have : List.zipWith f ((List.range ys.length).map (fun (t : Nat) => (t : Rat))) ys =
      (List.range ys.length).map (fun (t : Nat) => f (t : Rat) (ys.getD t 0)) := by
    apply List.ext_getElem
    · simp
    · intro i h1 h2
      have hi : i < ys.length := by simpa using h2
      simp [List.getD_eq_getElem?_getD, hi]
  rw [this]
  generalize ys.length = n
  induction n with
  | zero => simp
  | succ n ih => rw [List.range_succ, List.map_append, List.sum_append, ih, Finset.sum_range_succ]; simp

theorem map_range_sum (g : Rat → Rat) (n : Nat) :
    (((List.range n).map (fun (t : Nat) => (t : Rat))).map g).sum = ∑ t ∈ Finset.range n, g (t : Rat) := by
  rw [List.map_map]
  induction n with
  | zero => simp
  | succ n ih => rw [List.range_succ, List.map_append, List.sum_append, ih, Finset.sum_range_succ]; simp

/-- The line of the specification satisfies the normal equations of least squares: its residuals sum
to zero and are orthogonal to time.  (For a quadratic loss these first-order conditions characterise
the minimiser.) -/
theorem olsLine_normal_equations (ys : List Rat) (hn : 2 ≤ ys.length) :
    (∑ t ∈ Finset.range ys.length, (ys.getD t 0 - Spec.olsLineAt ys t)) = 0 ∧
    (∑ t ∈ Finset.range ys.length, (t : Rat) * (ys.getD t 0 - Spec.olsLineAt ys t)) = 0 := by
  have hnR : (ys.length : Rat) ≠ 0 := by
    have : 0 < ys.length := by omega
    exact_mod_cast (Nat.pos_iff_ne_zero.mp this)
  -- name the sums
  set St := ∑ t ∈ Finset.range ys.length, (t : Rat) with hSt
  set Sy := ∑ t ∈ Finset.range ys.length, ys.getD t 0 with hSy
  set mt := St / (ys.length : Rat) with hmt
  set my := Sy / (ys.length : Rat) with hmy
  set sxy := ∑ t ∈ Finset.range ys.length, ((t : Rat) - mt) * (ys.getD t 0 - my) with hsxy
  set sxx := ∑ t ∈ Finset.range ys.length, ((t : Rat) - mt) * ((t : Rat) - mt) with hsxx
  have hline : ∀ i : Nat, Spec.olsLineAt ys i = my + (if sxx = 0 then 0 else sxy / sxx) * ((i : Rat) - mt) := by
    intro i
    unfold Spec.olsLineAt
    simp only [range_cast_sum, list_sum_eq_finset ys, zipWith_range_sum, map_range_sum]
    rfl
  -- sxx > 0 for n ≥ 2 is not needed: both cases are handled
  have hcard : (∑ _t ∈ Finset.range ys.length, (1 : Rat)) = (ys.length : Rat) := by simp
  have hc1 : ∑ t ∈ Finset.range ys.length, ((t : Rat) - mt) = 0 := by
    rw [Finset.sum_sub_distrib, Finset.sum_const, Finset.card_range, nsmul_eq_mul, hmt]
    field_simp
    simp [hSt]
  have hc2 : ∑ t ∈ Finset.range ys.length, (ys.getD t 0 - my) = 0 := by
    rw [Finset.sum_sub_distrib, Finset.sum_const, Finset.card_range, nsmul_eq_mul, hmy]
    field_simp
    simp [hSy]
  set b := (if sxx = 0 then 0 else sxy / sxx) with hb
  have hres : ∀ t : Nat, ys.getD t 0 - Spec.olsLineAt ys t = (ys.getD t 0 - my) - b * ((t : Rat) - mt) := by
    intro t; rw [hline t]; ring
  have hbx : b * sxx = sxy ∨ sxx = 0 := by
    by_cases h0 : sxx = 0
    · right; exact h0
    · left; simp only [hb, h0, if_false]; field_simp
  constructor
  · simp only [hres]
    rw [Finset.sum_sub_distrib, ← Finset.mul_sum, hc1, hc2]; ring
  · -- Σ t·r = Σ (t − mt)·r + mt·Σ r
    have hsplit : ∀ t : Nat, (t : Rat) * (ys.getD t 0 - Spec.olsLineAt ys t) =
        (((t : Rat) - mt) * (ys.getD t 0 - my) - b * (((t : Rat) - mt) * ((t : Rat) - mt))) +
          mt * ((ys.getD t 0 - my) - b * ((t : Rat) - mt)) := by
      intro t; rw [hres t]; ring
    simp only [hsplit]
    rw [Finset.sum_add_distrib, Finset.sum_sub_distrib, ← Finset.mul_sum, ← Finset.mul_sum,
      Finset.sum_sub_distrib, ← Finset.mul_sum, hc1, hc2, ← hsxy, ← hsxx]
    rcases hbx with h | h
    · rw [h]; ring
    · -- sxx = 0 forces every centred time to vanish, hence sxy = 0 as well
      have hz : ∀ t ∈ Finset.range ys.length, ((t : Rat) - mt) * ((t : Rat) - mt) = 0 := by
        have hnn : ∀ t ∈ Finset.range ys.length, 0 ≤ ((t : Rat) - mt) * ((t : Rat) - mt) := fun t _ => mul_self_nonneg _
        exact (Finset.sum_eq_zero_iff_of_nonneg hnn).mp h
      have hxy : sxy = 0 := by
        rw [hsxy]
        apply Finset.sum_eq_zero
        intro t ht
        have := mul_self_eq_zero.mp (hz t ht)
        rw [this]; ring
      rw [h, hxy]; ring

end SkVerif.C14.Lem
