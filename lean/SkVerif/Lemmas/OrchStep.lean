/- Single-step lemmas for Model/Orch.lean: what one `fit_predict` iteration may do to a run / a store. -/
import SkVerif.Lemmas.OrchMap
set_option linter.unusedSectionVars false
namespace SkVerif.Orch.Lem
open SkVerif.Orch

variable {N K W : Type} [DecidableEq N] [DecidableEq K]
variable (cfg : Cfg N K) (L : Learner W) (o : Opts) (fail : Option Nat)

/-! ### primitives -/

theorem callEst_st (c : Call N) (r : Run N K W) : (callEst fail c r).st = r.st := by
  unfold callEst
  split
  · rfl
  · split <;> rfl

theorem callEst_err (c : Call N) (r : Run N K W) (h : r.err.isSome) : callEst fail c r = r := by
  simp [callEst, h]

theorem saveStrat_err (it : Item N) (w : W) (r : Run N K W) (h : r.err.isSome) : saveStrat cfg it w r = r := by
  simp [saveStrat, h]

theorem savePred_err (it : Item N) (p : Part) (c : Content) (r : Run N K W) (h : r.err.isSome) :
    savePred cfg it p c r = r := by
  simp [savePred, h]

theorem saveStrat_st (it : Item N) (w : W) (r : Run N K W) :
    (saveStrat cfg it w r).st = r.st ∨
    (cfg.disk = true ∧ (saveStrat cfg it w r).st = writeStrat cfg it w r.st) := by
  unfold saveStrat
  split
  · exact Or.inl rfl
  · split
    · rename_i h; exact Or.inr ⟨h, rfl⟩
    · exact Or.inl rfl

theorem savePred_st (it : Item N) (p : Part) (c : Content) (r : Run N K W) :
    (savePred cfg it p c r).st = r.st ∨ (savePred cfg it p c r).st = writeRec cfg it p c r.st := by
  unfold savePred
  split
  · exact Or.inl rfl
  · exact Or.inr rfl

theorem cond_induct {P : Run N K W → Prop} {b : Bool} {f : Run N K W → Run N K W} {r : Run N K W}
    (hf : b = true → P r → P (f r)) (h : P r) : P (cond b f r) := by
  unfold cond
  split
  · rename_i hb; exact hf hb h
  · exact h

theorem stepItem_eq (r : Run N K W) (it : Item N) :
    stepItem cfg L o fail r it =
      if r.err.isSome then r else
      if skip o (flagsOf cfg r.st it) then { r with st := register it.s it.d r.st } else
      cond (needTest o (flagsOf cfg r.st it)) (predictSave cfg L fail (strategyFit L it) it .test)
        (cond (needTrain o (flagsOf cfg r.st it)) (predictSave cfg L fail (strategyFit L it) it .train)
          (cond (needStrat o (flagsOf cfg r.st it)) (saveStrat cfg it (strategyFit L it))
            (callEst fail (.fit it) r))) := rfl

/-- Induction principle for one loop iteration: anything that holds before, is kept by every estimator
call, and is kept by the three possible saves *when the code's conditions for them hold* (conditions
evaluated on the store as it was at the top of the iteration), holds after the iteration. -/
theorem stepItem_induct (P : Run N K W → Prop) (r : Run N K W) (it : Item N)
    (h0 : P r)
    (hK : P r → P { r with st := register it.s it.d r.st })
    (hC : ∀ c r', P r' → P (callEst fail c r'))
    (hS : needStrat o (flagsOf cfg r.st it) = true → ∀ r', P r' → P (saveStrat cfg it (strategyFit L it) r'))
    (hTr : needTrain o (flagsOf cfg r.st it) = true → ∀ r', P r' →
      P (savePred cfg it .train (predictPart L (strategyFit L it) it .train) r'))
    (hTe : needTest o (flagsOf cfg r.st it) = true → ∀ r', P r' →
      P (savePred cfg it .test (predictPart L (strategyFit L it) it .test) r')) :
    P (stepItem cfg L o fail r it) := by
  rw [stepItem_eq]
  split
  · exact h0
  · split
    · exact hK h0
    · apply cond_induct
      · intro hb hp; exact hTe hb _ (hC _ _ hp)
      · apply cond_induct
        · intro hb hp; exact hTr hb _ (hC _ _ hp)
        · apply cond_induct
          · intro hb hp; exact hS hb _ hp
          · exact hC _ _ h0

theorem needTrain_pot {f : Flags} (h : needTrain o f = true) : o.pot = true := by
  simp [needTrain] at h; exact h.1

theorem needStrat_saveF {f : Flags} (h : needStrat o f = true) : o.saveF = true := by
  simp [needStrat] at h; exact h.1

/-- Store invariants: kept by one iteration if kept by the (option-permitted) writes of this item. -/
theorem stepItem_st (Q : St N K W → Prop) (r : Run N K W) (it : Item N)
    (hR : ∀ st, Q st → Q (register it.s it.d st))
    (hS : o.saveF = true → cfg.disk = true → ∀ st, Q st → Q (writeStrat cfg it (strategyFit L it) st))
    (hP : ∀ part, (part = .train → o.pot = true) → ∀ st, Q st →
      Q (writeRec cfg it part (predictPart L (strategyFit L it) it part) st))
    (h : Q r.st) : Q (stepItem cfg L o fail r it).st := by
  apply stepItem_induct cfg L o fail (fun r' => Q r'.st) r it h
  · intro hq; exact hR _ hq
  · intro c r' hr'; rw [callEst_st]; exact hr'
  · intro hb r' hr'
    rcases saveStrat_st cfg it (strategyFit L it) r' with e | ⟨hd, e⟩
    · rw [e]; exact hr'
    · rw [e]; exact hS (needStrat_saveF o hb) hd _ hr'
  · intro hb r' hr'
    rcases savePred_st cfg it .train (predictPart L (strategyFit L it) it .train) r' with e | e
    · rw [e]; exact hr'
    · rw [e]; exact hP .train (fun _ => needTrain_pot o hb) _ hr'
  · intro _ r' hr'
    rcases savePred_st cfg it .test (predictPart L (strategyFit L it) it .test) r' with e | e
    · rw [e]; exact hr'
    · rw [e]; exact hP .test (fun h => by cases h) _ hr'

theorem stepItem_err (r : Run N K W) (it : Item N) (h : r.err.isSome) : stepItem cfg L o fail r it = r := by
  simp [stepItem, h]

theorem runItems_err (items : List (Item N)) (r : Run N K W) (h : r.err.isSome) :
    runItems cfg L o fail items r = r := by
  induction items with
  | nil => rfl
  | cons a t ih => simp only [runItems, List.foldl_cons] at ih ⊢; rw [stepItem_err cfg L o fail r a h]; exact ih

theorem runItems_cons (a : Item N) (t : List (Item N)) (r : Run N K W) :
    runItems cfg L o fail (a :: t) r = runItems cfg L o fail t (stepItem cfg L o fail r a) := rfl

/-- Store invariants over the whole loop. -/
theorem runItems_st (Q : St N K W → Prop) (items : List (Item N))
    (hR : ∀ it ∈ items, ∀ st, Q st → Q (register it.s it.d st))
    (hS : ∀ it ∈ items, o.saveF = true → cfg.disk = true → ∀ st, Q st →
      Q (writeStrat cfg it (strategyFit L it) st))
    (hP : ∀ it ∈ items, ∀ part, (part = .train → o.pot = true) → ∀ st, Q st →
      Q (writeRec cfg it part (predictPart L (strategyFit L it) it part) st))
    (r : Run N K W) (h : Q r.st) : Q (runItems cfg L o fail items r).st := by
  induction items generalizing r with
  | nil => exact h
  | cons a t ih =>
    rw [runItems_cons]
    apply ih (fun it hit => hR it (List.mem_cons_of_mem _ hit)) (fun it hit => hS it (List.mem_cons_of_mem _ hit))
      (fun it hit => hP it (List.mem_cons_of_mem _ hit))
    exact stepItem_st cfg L o fail Q r a (hR a List.mem_cons_self) (hS a List.mem_cons_self) (hP a List.mem_cons_self) h

/-! ### effect of the two writes on the maps -/

@[simp] theorem register_recs (s d : N) (st : St N K W) : (register s d st).recs = st.recs := rfl
@[simp] theorem register_strats (s d : N) (st : St N K W) : (register s d st).strats = st.strats := rfl
@[simp] theorem register_master (s d : N) (st : St N K W) : (register s d st).master = st.master := rfl
@[simp] theorem register_regS (s d : N) (st : St N K W) : (register s d st).regS = addNew s st.regS := rfl
@[simp] theorem register_regD (s d : N) (st : St N K W) : (register s d st).regD = addNew d st.regD := rfl

@[simp] theorem writeRec_recs (it : Item N) (p : Part) (c : Content) (st : St N K W) :
    (writeRec cfg it p c st).recs = put (cfg.rkey it.s it.d p it.fold) ⟨c, st.clock, it.s, it.d⟩ st.recs := rfl

@[simp] theorem writeRec_strats (it : Item N) (p : Part) (c : Content) (st : St N K W) :
    (writeRec cfg it p c st).strats = st.strats := rfl

@[simp] theorem writeStrat_recs (it : Item N) (w : W) (st : St N K W) :
    (writeStrat cfg it w st).recs = st.recs := rfl

@[simp] theorem writeStrat_strats (it : Item N) (w : W) (st : St N K W) :
    (writeStrat cfg it w st).strats = put (cfg.skey it.s it.d it.fold) ⟨w, st.clock⟩ st.strats := rfl

@[simp] theorem writeRec_master (it : Item N) (p : Part) (c : Content) (st : St N K W) :
    (writeRec cfg it p c st).master = st.master := rfl

@[simp] theorem writeStrat_master (it : Item N) (w : W) (st : St N K W) :
    (writeStrat cfg it w st).master = st.master := rfl

@[simp] theorem writeRec_regS (it : Item N) (p : Part) (c : Content) (st : St N K W) :
    (writeRec cfg it p c st).regS = addNew it.s st.regS := rfl

@[simp] theorem writeRec_regD (it : Item N) (p : Part) (c : Content) (st : St N K W) :
    (writeRec cfg it p c st).regD = addNew it.d st.regD := rfl

@[simp] theorem writeStrat_regS (it : Item N) (w : W) (st : St N K W) :
    (writeStrat cfg it w st).regS = addNew it.s st.regS := rfl

@[simp] theorem writeStrat_regD (it : Item N) (w : W) (st : St N K W) :
    (writeStrat cfg it w st).regD = addNew it.d st.regD := rfl

end SkVerif.Orch.Lem
