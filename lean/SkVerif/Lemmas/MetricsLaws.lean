/- Per-function laws of the metric model: non-negativity, zero at a perfect forecast, bounds. -/
import SkVerif.Model.Metrics
import SkVerif.Lemmas.MetricsShape
namespace SkVerif.Lem.Metrics
open SkVerif SkVerif.Metrics

/-- radicands ≥ 0, and exact (aggregated) values ≥ 0 -/
def Out.Nonneg (out : Out) : Prop := (∀ q ∈ out.qs, 0 ≤ q) ∧ (∀ v ∈ out.perCol, 0 ≤ v)
/-- radicands = 0, and exact (aggregated) values = 0 -/
def Out.Zero (out : Out) : Prop := (∀ q ∈ out.qs, q = 0) ∧ (∀ v ∈ out.perCol, v = 0)

theorem finish_nonneg {k : Nat} {mo : MO} {qs : List Rat} {out : Out} (h : finish k mo qs = .ok out)
    (hmo : NonnegMO mo) (hq : ∀ q ∈ qs, 0 ≤ q) : Out.Nonneg out :=
  ⟨by rw [(finish_ok h).1]; exact hq, finish_perCol_nonneg h hmo hq⟩

theorem finish_zero {k : Nat} {mo : MO} {qs : List Rat} {out : Out} (h : finish k mo qs = .ok out)
    (hq : ∀ q ∈ qs, q = 0) : Out.Zero out :=
  ⟨by rw [(finish_ok h).1]; exact hq, finish_perCol_zero h hq⟩

/-! ### element lists -/
theorem absErrs_nonneg (t p : Col) : ∀ x ∈ absErrs t p, 0 ≤ x :=
  forall_zipWith _ (0 ≤ ·) (fun a b => absR_nonneg (b - a)) t p
theorem sqErrs_nonneg (t p : Col) : ∀ x ∈ sqErrs t p, 0 ≤ x :=
  forall_zipWith _ (0 ≤ ·) (fun a b => sqr_nonneg (a - b)) t p
theorem sqErrs'_nonneg (t p : Col) : ∀ x ∈ sqErrs' t p, 0 ≤ x :=
  forall_zipWith _ (0 ≤ ·) (fun a b => sqr_nonneg (b - a)) t p
theorem asymCol_nonneg (thr : Rat) (l r : EF) (t p : Col) : ∀ x ∈ asymCol thr l r t p, 0 ≤ x :=
  forall_zipWith _ (0 ≤ ·) (fun a b => asymErr_nonneg thr l r a b) t p
theorem map_absR_nonneg (xs : List Rat) : ∀ x ∈ xs.map absR, 0 ≤ x := by
  intro x hx; obtain ⟨y, _, rfl⟩ := List.mem_map.mp hx; exact absR_nonneg y
theorem map_sqr_nonneg (xs : List Rat) : ∀ x ∈ xs.map sqr, 0 ≤ x := by
  intro x hx; obtain ⟨y, _, rfl⟩ := List.mem_map.mp hx; exact sqr_nonneg y

theorem absErrs_perfect (t : Col) : ∀ x ∈ absErrs t t, x = 0 :=
  zipWith_self_forall _ (· = 0) (fun a => by simp [absR]) t
theorem sqErrs_perfect (t : Col) : ∀ x ∈ sqErrs t t, x = 0 :=
  zipWith_self_forall _ (· = 0) (fun a => by simp [sqr]) t
theorem sqErrs'_perfect (t : Col) : ∀ x ∈ sqErrs' t t, x = 0 :=
  zipWith_self_forall _ (· = 0) (fun a => by simp [sqr]) t
theorem asymCol_perfect (thr : Rat) (l r : EF) (t : Col) : ∀ x ∈ asymCol thr l r t t, x = 0 :=
  zipWith_self_forall _ (· = 0) (fun a => asymErr_perfect thr l r a) t
theorem pctCol_perfect (eps : Rat) (sym : Bool) (t : Col) : ∀ x ∈ pctCol eps sym t t, x = 0 :=
  zipWith_self_forall _ (· = 0) (fun a => pctErr_perfect eps sym a) t
theorem map_zero {f : Rat → Rat} (hf : f 0 = 0) (xs : List Rat) (h : ∀ x ∈ xs, x = 0) : ∀ x ∈ xs.map f, x = 0 := by
  intro x hx; obtain ⟨y, hy, rfl⟩ := List.mem_map.mp hx; rw [h y hy, hf]

theorem zipWith_cols {P : Rat → Prop} {f : Col → Col → Rat} (h : ∀ t p, P (f t p)) (yt yp : Mat) :
    ∀ q ∈ List.zipWith f yt yp, P q := forall_zipWith f P h yt yp

theorem zipWith_cols_self {P : Rat → Prop} {f : Col → Col → Rat} (h : ∀ t, P (f t t)) :
    ∀ (yt : Mat), ∀ q ∈ List.zipWith f yt yt, P q := by
  intro yt
  induction yt with
  | nil => intro q hq; simp at hq
  | cons t ts ih =>
    intro q hq
    simp only [List.zipWith_cons_cons, List.mem_cons] at hq
    rcases hq with rfl | hq
    · exact h t
    · exact ih q hq

theorem relCols_self {eps : Rat} {P : Rat → Prop} {f : Col → Rat} (h : ∀ t b, P (f (relCol eps t t b))) :
    ∀ (yt yb : Mat), ∀ q ∈ relCols eps f yt yt yb, P q := by
  intro yt
  induction yt with
  | nil => intro yb q hq; simp [relCols] at hq
  | cons t ts ih =>
    intro yb q hq
    cases yb with
    | nil => simp [relCols] at hq
    | cons b bs =>
      simp only [relCols, List.mem_cons] at hq
      rcases hq with rfl | hq
      · exact h t b
      · exact ih bs q hq

section
variable {eps : Rat} {yt yp yb : Mat} {hw : Option (List Rat)} {mo : MO} {out : Out} {sym sqrt : Bool}

/-! ### non-negativity, function by function -/
theorem mae_nonneg (h : meanAbsoluteError yt yp hw mo = .ok out) (hn : NonnegW hw) (hmo : NonnegMO mo) :
    Out.Nonneg out :=
  finish_nonneg (mae_iff.mp h).2.2.2 hmo
    (zipWith_cols (fun t p => npAverage_nonneg hw _ hn (absErrs_nonneg t p)) yt yp)

theorem mse_nonneg (h : meanSquaredError yt yp hw mo sqrt = .ok out) (hn : NonnegW hw) (hmo : NonnegMO mo) :
    Out.Nonneg out :=
  finish_nonneg (mse_iff.mp h).2.2.2 hmo
    (zipWith_cols (fun t p => npAverage_nonneg hw _ hn (sqErrs_nonneg t p)) yt yp)

theorem mdae_nonneg (h : medianAbsoluteError yt yp hw mo = .ok out) (hmo : NonnegMO mo) : Out.Nonneg out :=
  finish_nonneg (mdae_iff.mp h).2.2 hmo
    (zipWith_cols (fun t p => medianW_nonneg hw _ (absErrs_nonneg t p)) yt yp)

theorem mdse_nonneg (h : medianSquaredError yt yp hw mo sqrt = .ok out) (hmo : NonnegMO mo) : Out.Nonneg out :=
  finish_nonneg (mdse_iff.mp h).2.2 hmo
    (zipWith_cols (fun t p => medianW_nonneg hw _ (sqErrs'_nonneg t p)) yt yp)

theorem mape_nonneg (h : meanAbsolutePercentageError eps yt yp hw mo sym = .ok out) (hn : NonnegW hw)
    (hmo : NonnegMO mo) : Out.Nonneg out :=
  finish_nonneg (mape_iff.mp h).2.2.2 hmo
    (zipWith_cols (fun _ _ => npAverage_nonneg hw _ hn (map_absR_nonneg _)) yt yp)

theorem mdape_nonneg (h : medianAbsolutePercentageError eps yt yp hw mo sym = .ok out) (hmo : NonnegMO mo) :
    Out.Nonneg out :=
  finish_nonneg (mdape_iff.mp h).2.2 hmo
    (zipWith_cols (fun _ _ => medianW_nonneg hw _ (map_absR_nonneg _)) yt yp)

theorem mspe_nonneg (h : meanSquaredPercentageError eps yt yp hw mo sqrt sym = .ok out) (hn : NonnegW hw)
    (hmo : NonnegMO mo) : Out.Nonneg out :=
  finish_nonneg (mspe_iff.mp h).2.2.2 hmo
    (zipWith_cols (fun _ _ => npAverage_nonneg hw _ hn (map_sqr_nonneg _)) yt yp)

theorem mdspe_nonneg (h : medianSquaredPercentageError eps yt yp hw mo sqrt sym = .ok out) (hmo : NonnegMO mo) :
    Out.Nonneg out :=
  finish_nonneg (mdspe_iff.mp h).2.2 hmo
    (zipWith_cols (fun _ _ => medianW_nonneg hw _ (map_sqr_nonneg _)) yt yp)

theorem masym_nonneg {thr : Rat} {l r : Option EF} (h : meanAsymmetricError yt yp hw mo thr l r = .ok out)
    (hn : NonnegW hw) (hmo : NonnegMO mo) : Out.Nonneg out := by
  cases l with
  | none => exact absurd h (masym_bad (Or.inl rfl))
  | some l =>
    cases r with
    | none => exact absurd h (masym_bad (Or.inr rfl))
    | some r =>
      exact finish_nonneg (masym_iff.mp h).2.2.2 hmo
        (zipWith_cols (fun t p => npAverage_nonneg hw _ hn (asymCol_nonneg thr l r t p)) yt yp)

theorem mrae_nonneg (h : meanRelativeAbsoluteError eps yt yp yb hw mo = .ok out) (hn : NonnegW hw)
    (hmo : NonnegMO mo) : Out.Nonneg out :=
  finish_nonneg (mrae_iff.mp h).2.2.2.2 hmo
    (forall_relCols eps (fun re => npAverage hw (re.map absR)) (0 ≤ ·)
      (fun _ _ _ => npAverage_nonneg hw _ hn (map_absR_nonneg _)) yt yp yb)

theorem mdrae_nonneg (h : medianRelativeAbsoluteError eps yt yp yb hw mo = .ok out) (hmo : NonnegMO mo) :
    Out.Nonneg out :=
  finish_nonneg (mdrae_iff.mp h).2.2.2 hmo
    (forall_relCols eps (fun re => medianW hw (re.map absR)) (0 ≤ ·)
      (fun _ _ _ => medianW_nonneg hw _ (map_absR_nonneg _)) yt yp yb)

theorem prod_zipWith_pow_pos : ∀ (xs : List Rat) (as : List Nat), (∀ x ∈ xs, 0 < x) →
    0 < prod (List.zipWith (fun x a => x ^ a) xs as) := by
  intro xs
  induction xs with
  | nil => intro as _; simp [prod]
  | cons x xs ih =>
    intro as h
    cases as with
    | nil => simp [prod]
    | cons a as =>
      simp only [List.zipWith_cons_cons, prod, List.foldr_cons]
      exact mul_pos (pow_pos (h x (by simp)) a) (ih as (fun y hy => h y (by simp [hy])))

theorem gmFactor_pos (hw : Option (List Rat)) (xs : List Rat) (h : ∀ x ∈ xs, 0 < x) : 0 < gmFactor hw xs := by
  cases hw with
  | none => exact prod_pos xs h
  | some w => exact prod_zipWith_pow_pos xs _ h

/-- geometric-mean radicands of floored values are strictly positive -/
theorem gmProds_pos (he : 0 < eps) {g : Rat → Rat} (hg : ∀ x, 0 ≤ g x) :
    ∀ q ∈ relCols eps (fun re => gmFactor hw (re.map (fun e => floorEps eps (g e)))) yt yp yb, 0 < q :=
  forall_relCols eps (fun re => gmFactor hw (re.map (fun e => floorEps eps (g e)))) (0 < ·) (fun t p b =>
    gmFactor_pos hw _ (by
      intro x hx; obtain ⟨y, _, rfl⟩ := List.mem_map.mp hx; exact floorEps_pos eps _ he (hg y))) yt yp yb

theorem gmrae_nonneg (he : 0 < eps) (h : geometricMeanRelativeAbsoluteError eps yt yp yb hw mo = .ok out)
    (hmo : NonnegMO mo) : Out.Nonneg out :=
  finish_nonneg (gmrae_iff.mp h).2.2.2.2.2 hmo (fun q hq => le_of_lt (gmProds_pos he absR_nonneg q hq))

theorem gmrse_nonneg (he : 0 < eps) (h : geometricMeanRelativeSquaredError eps yt yp yb hw mo sqrt = .ok out)
    (hmo : NonnegMO mo) : Out.Nonneg out :=
  finish_nonneg (gmrse_iff.mp h).2.2.2.2.2 hmo (fun q hq => le_of_lt (gmProds_pos he sqr_nonneg q hq))

/-- ratio of two results: numerators ≥ 0 → ratios ≥ 0 (the denominator is clamped to ≥ eps > 0) -/
theorem ratioOut_nonneg (he : 0 < eps) (k : Nat) (num den : Out) (hnum : Out.Nonneg num) :
    Out.Nonneg (ratioOut eps k num den) := by
  have hz : ∀ q ∈ ratioVals eps num den, 0 ≤ q := by
    unfold ratioVals
    apply forall_zipWith_mem
    intro a ha b _
    have := hnum.2 a ha
    have := maxR_pos b eps he
    positivity
  unfold ratioOut
  cases num with
  | raw k' q => exact ⟨hz, hz⟩
  | avg k' ws q =>
    refine ⟨hz, ?_⟩
    intro v hv
    simp only [Out.perCol, List.mem_singleton] at hv
    rw [hv]
    exact npAverage_nonneg none _ (by intro w hw; cases hw) hz

theorem scaled_nonneg (he : 0 < eps) {inner : Mat → Mat → Option (List Rat) → MO → Except Err Out}
    (hinner : ∀ a b h m o, inner a b h m = .ok o → NonnegW h → NonnegMO m → Out.Nonneg o)
    {ytr : Train} {ix : Option (Int × Int)} {sp : Int}
    (h : scaled eps inner sqrt yt yp ytr ix sp hw mo = .ok out) (hn : NonnegW hw) (hmo : NonnegMO mo) :
    Out.Nonneg out := by
  obtain ⟨m, naive, pred, _, _, h3, rfl⟩ := scaled_iff.mp h
  exact ratioOut_nonneg he _ pred naive (hinner _ _ _ _ _ h3 hn hmo)

theorem base_nonneg {f : Base} (h : f.call eps yt yp hw mo = .ok out) (hn : NonnegW hw) (hmo : NonnegMO mo) :
    Out.Nonneg out := by
  cases f
  · exact mae_nonneg h hn hmo
  · exact mse_nonneg h hn hmo
  · exact mdae_nonneg h hmo
  · exact mdse_nonneg h hmo
  · exact mape_nonneg h hn hmo
  · exact mdape_nonneg h hmo
  · exact mspe_nonneg h hn hmo
  · exact mdspe_nonneg h hmo

theorem relativeLoss_nonneg (he : 0 < eps) {f : Base} (h : relativeLoss eps yt yp yb f hw mo = .ok out)
    (hn : NonnegW hw) (hmo : NonnegMO mo) : Out.Nonneg out := by
  obtain ⟨_, _, lp, lb, h1, _, rfl⟩ := relativeLoss_iff.mp h
  exact ratioOut_nonneg he _ lp lb (base_nonneg h1 hn hmo)

/-! ### zero for a perfect forecast -/
theorem mae_perfect (h : meanAbsoluteError yt yt hw mo = .ok out) : Out.Zero out :=
  finish_zero (mae_iff.mp h).2.2.2 (zipWith_cols_self (fun t => npAverage_zero hw _ (absErrs_perfect t)) yt)
theorem mse_perfect (h : meanSquaredError yt yt hw mo sqrt = .ok out) : Out.Zero out :=
  finish_zero (mse_iff.mp h).2.2.2 (zipWith_cols_self (fun t => npAverage_zero hw _ (sqErrs_perfect t)) yt)
theorem mdae_perfect (h : medianAbsoluteError yt yt hw mo = .ok out) : Out.Zero out :=
  finish_zero (mdae_iff.mp h).2.2 (zipWith_cols_self (fun t => medianW_zero hw _ (absErrs_perfect t)) yt)
theorem mdse_perfect (h : medianSquaredError yt yt hw mo sqrt = .ok out) : Out.Zero out :=
  finish_zero (mdse_iff.mp h).2.2 (zipWith_cols_self (fun t => medianW_zero hw _ (sqErrs'_perfect t)) yt)
theorem mape_perfect (h : meanAbsolutePercentageError eps yt yt hw mo sym = .ok out) : Out.Zero out :=
  finish_zero (mape_iff.mp h).2.2.2 (zipWith_cols_self
    (fun t => npAverage_zero hw _ (map_zero absR_zero _ (pctCol_perfect eps sym t))) yt)
theorem mdape_perfect (h : medianAbsolutePercentageError eps yt yt hw mo sym = .ok out) : Out.Zero out :=
  finish_zero (mdape_iff.mp h).2.2 (zipWith_cols_self
    (fun t => medianW_zero hw _ (map_zero absR_zero _ (pctCol_perfect eps sym t))) yt)
theorem mspe_perfect (h : meanSquaredPercentageError eps yt yt hw mo sqrt sym = .ok out) : Out.Zero out :=
  finish_zero (mspe_iff.mp h).2.2.2 (zipWith_cols_self
    (fun t => npAverage_zero hw _ (map_zero sqr_zero _ (pctCol_perfect eps sym t))) yt)
theorem mdspe_perfect (h : medianSquaredPercentageError eps yt yt hw mo sqrt sym = .ok out) : Out.Zero out :=
  finish_zero (mdspe_iff.mp h).2.2 (zipWith_cols_self
    (fun t => medianW_zero hw _ (map_zero sqr_zero _ (pctCol_perfect eps sym t))) yt)
theorem masym_perfect {thr : Rat} {l r : Option EF} (h : meanAsymmetricError yt yt hw mo thr l r = .ok out) :
    Out.Zero out := by
  cases l with
  | none => exact absurd h (masym_bad (Or.inl rfl))
  | some l =>
    cases r with
    | none => exact absurd h (masym_bad (Or.inr rfl))
    | some r =>
      exact finish_zero (masym_iff.mp h).2.2.2
        (zipWith_cols_self (fun t => npAverage_zero hw _ (asymCol_perfect thr l r t)) yt)
theorem mrae_perfect (h : meanRelativeAbsoluteError eps yt yt yb hw mo = .ok out) : Out.Zero out :=
  finish_zero (mrae_iff.mp h).2.2.2.2 (relCols_self
    (fun t b => npAverage_zero hw _ (map_zero absR_zero _ (relCol_perfect eps t b))) yt yb)
theorem mdrae_perfect (h : medianRelativeAbsoluteError eps yt yt yb hw mo = .ok out) : Out.Zero out :=
  finish_zero (mdrae_iff.mp h).2.2.2 (relCols_self
    (fun t b => medianW_zero hw _ (map_zero absR_zero _ (relCol_perfect eps t b))) yt yb)

theorem ratioOut_zero (k : Nat) (num den : Out) (hnum : Out.Zero num) : Out.Zero (ratioOut eps k num den) := by
  have hz : ∀ q ∈ ratioVals eps num den, q = 0 := by
    unfold ratioVals
    apply forall_zipWith_mem
    intro a ha b _
    rw [hnum.2 a ha]; simp
  unfold ratioOut
  cases num with
  | raw k' q => exact ⟨hz, hz⟩
  | avg k' ws q =>
    refine ⟨hz, ?_⟩
    intro v hv
    simp only [Out.perCol, List.mem_singleton] at hv
    rw [hv]; exact npAverage_zero none _ hz

theorem scaled_perfect {inner : Mat → Mat → Option (List Rat) → MO → Except Err Out}
    (hinner : ∀ a h m o, inner a a h m = .ok o → Out.Zero o)
    {ytr : Train} {ix : Option (Int × Int)} {sp : Int}
    (h : scaled eps inner sqrt yt yt ytr ix sp hw mo = .ok out) : Out.Zero out := by
  obtain ⟨m, naive, pred, _, _, h3, rfl⟩ := scaled_iff.mp h
  exact ratioOut_zero _ pred naive (hinner _ _ _ _ h3)

theorem base_perfect {f : Base} (h : f.call eps yt yt hw mo = .ok out) : Out.Zero out := by
  cases f
  · exact mae_perfect h
  · exact mse_perfect h
  · exact mdae_perfect h
  · exact mdse_perfect h
  · exact mape_perfect h
  · exact mdape_perfect h
  · exact mspe_perfect h
  · exact mdspe_perfect h

theorem relativeLoss_perfect {f : Base} (h : relativeLoss eps yt yt yb f hw mo = .ok out) : Out.Zero out := by
  obtain ⟨_, _, lp, lb, h1, _, rfl⟩ := relativeLoss_iff.mp h
  exact ratioOut_zero _ lp lb (base_perfect h1)
end

end SkVerif.Lem.Metrics
