/- Scalar lemmas for the metric model: absR / maxR / minR / sqr and the three element-wise error functions. -/
import SkVerif.Model.Metrics
import Mathlib.Tactic.Linarith
import Mathlib.Tactic.Ring
import Mathlib.Tactic.Positivity
import Mathlib.Tactic.FieldSimp
import Mathlib.Algebra.Order.Field.Rat
namespace SkVerif.Lem.Metrics
open SkVerif SkVerif.Metrics

theorem absR_eq_abs (x : Rat) : absR x = |x| := by
  unfold absR
  split
  · rw [abs_of_neg (by assumption)]
  · rw [abs_of_nonneg (by linarith)]

theorem absR_nonneg (x : Rat) : 0 ≤ absR x := by rw [absR_eq_abs]; exact abs_nonneg x
theorem absR_zero : absR 0 = 0 := by simp [absR]
theorem absR_neg (x : Rat) : absR (-x) = absR x := by simp [absR_eq_abs]
theorem absR_sub_comm (a b : Rat) : absR (a - b) = absR (b - a) := by
  simp only [absR_eq_abs]; exact abs_sub_comm a b
theorem absR_mul_of_pos (c x : Rat) (hc : 0 < c) : absR (c * x) = c * absR x := by
  simp only [absR_eq_abs, abs_mul, abs_of_pos hc]
theorem absR_eq_zero {x : Rat} (h : absR x = 0) : x = 0 := by
  rw [absR_eq_abs] at h; exact abs_eq_zero.mp h

theorem maxR_eq_max (a b : Rat) : maxR a b = max a b := by
  unfold maxR
  split
  · rw [max_eq_right (by linarith)]
  · rw [max_eq_left (by linarith)]
theorem minR_eq_min (a b : Rat) : minR a b = min a b := by
  unfold minR
  split
  · rw [min_eq_right (by linarith)]
  · rw [min_eq_left (by linarith)]

theorem le_maxR_right (a b : Rat) : b ≤ maxR a b := by rw [maxR_eq_max]; exact le_max_right a b
theorem le_maxR_left (a b : Rat) : a ≤ maxR a b := by rw [maxR_eq_max]; exact le_max_left a b
theorem maxR_pos (a eps : Rat) (h : 0 < eps) : 0 < maxR a eps := lt_of_lt_of_le h (le_maxR_right a eps)
theorem maxR_of_le {a eps : Rat} (h : eps ≤ a) : maxR a eps = a := by rw [maxR_eq_max]; exact max_eq_left h
theorem minR_of_le {a e : Rat} (h : a ≤ e) : minR a e = a := by rw [minR_eq_min]; exact min_eq_left h

theorem sqr_nonneg (x : Rat) : 0 ≤ sqr x := by unfold sqr; exact mul_self_nonneg x
theorem sqr_zero : sqr 0 = 0 := by simp [sqr]
theorem sqr_mul (c x : Rat) : sqr (c * x) = c * c * sqr x := by unfold sqr; ring
theorem sqr_sub_comm (a b : Rat) : sqr (a - b) = sqr (b - a) := by unfold sqr; ring
theorem sqr_eq_zero {x : Rat} (h : sqr x = 0) : x = 0 := by
  unfold sqr at h; exact mul_self_eq_zero.mp h

/-! ### `_percentage_error` -/

/-- symmetric percentage error: non-negative -/
theorem pctErr_sym_nonneg (eps t p : Rat) (he : 0 < eps) : 0 ≤ pctErr eps true t p := by
  simp only [pctErr, if_true]
  have := maxR_pos (absR t + absR p) eps he
  have := absR_nonneg (t - p)
  positivity

/-- symmetric percentage error: at most 2 -/
theorem pctErr_sym_le_two (eps t p : Rat) (he : 0 < eps) : pctErr eps true t p ≤ 2 := by
  simp only [pctErr, if_true]
  have hd := maxR_pos (absR t + absR p) eps he
  rw [div_le_iff₀ hd]
  have h1 : absR (t - p) ≤ absR t + absR p := by
    simp only [absR_eq_abs]; exact abs_sub t p
  have h2 := le_maxR_left (absR t + absR p) eps
  linarith

/-- symmetric percentage error: invariant under swapping truth and forecast -/
theorem pctErr_sym_swap (eps t p : Rat) : pctErr eps true t p = pctErr eps true p t := by
  simp only [pctErr, if_true]
  rw [absR_sub_comm t p, add_comm (absR t) (absR p)]

theorem pctErr_perfect (eps : Rat) (sym : Bool) (t : Rat) : pctErr eps sym t t = 0 := by
  cases sym <;> simp [pctErr, absR_zero]

/-- textbook sAPE when the denominator is not clamped -/
theorem pctErr_sym_eq_textbook (eps t p : Rat) (h : eps ≤ |t| + |p|) :
    pctErr eps true t p = 2 * |t - p| / (|t| + |p|) := by
  simp only [pctErr, if_true, absR_eq_abs]
  rw [maxR_of_le h]

/-- textbook (signed) percentage error when the denominator is not clamped -/
theorem pctErr_asym_eq_textbook (eps t p : Rat) (h : eps ≤ |t|) :
    pctErr eps false t p = (t - p) / |t| := by
  simp only [pctErr, absR_eq_abs, Bool.false_eq_true, if_false]
  rw [maxR_of_le h]

/-! ### `_relative_error` -/

theorem relDen_ne_zero (eps t b : Rat) (he : 0 < eps) : relDen eps t b ≠ 0 := by
  unfold relDen
  split
  · exact ne_of_gt (maxR_pos _ _ he)
  · have : minR (t - b) (-eps) ≤ -eps := by rw [minR_eq_min]; exact min_le_right _ _
    intro h; linarith

/-- `|denominator| ≥ eps` always; it IS `t - b` as soon as `|t - b| ≥ eps` -/
theorem relDen_eq_textbook (eps t b : Rat) (h : eps ≤ |t - b|) : relDen eps t b = t - b := by
  unfold relDen
  split
  · rename_i h0
    rw [abs_of_nonneg h0] at h
    exact maxR_of_le h
  · rename_i h0
    have h0 : t - b < 0 := not_le.mp h0
    rw [abs_of_neg h0] at h
    exact minR_of_le (by linarith)

theorem relErr_eq_textbook (eps t p b : Rat) (h : eps ≤ |t - b|) :
    relErr eps t p b = (t - p) / (t - b) := by
  unfold relErr; rw [relDen_eq_textbook eps t b h]

theorem relErr_perfect (eps t b : Rat) : relErr eps t t b = 0 := by simp [relErr]

theorem abs_relDen_ge (eps t b : Rat) (he : 0 < eps) : eps ≤ |relDen eps t b| := by
  unfold relDen
  split
  · have := le_maxR_right (t - b) eps
    rw [abs_of_pos (maxR_pos _ _ he)]; exact this
  · have h1 : minR (t - b) (-eps) ≤ -eps := by rw [minR_eq_min]; exact min_le_right _ _
    rw [abs_of_neg (by linarith)]; linarith

/-! ### `_asymmetric_error` -/
theorem EF.app_nonneg (f : EF) (x : Rat) : 0 ≤ f.app x := by
  cases f
  · exact sqr_nonneg x
  · exact absR_nonneg x
theorem EF.app_zero (f : EF) : f.app 0 = 0 := by cases f <;> simp [EF.app, sqr, absR]

theorem asymErr_nonneg (thr : Rat) (l r : EF) (t p : Rat) : 0 ≤ asymErr thr l r t p := by
  unfold asymErr; split <;> exact EF.app_nonneg _ _
theorem asymErr_perfect (thr : Rat) (l r : EF) (t : Rat) : asymErr thr l r t t = 0 := by
  unfold asymErr; simp [EF.app_zero]

/-- textbook asymmetric loss: the left function below the threshold, the right one from the threshold on -/
theorem asymErr_left (thr : Rat) (l r : EF) (t p : Rat) (h : t - p < thr) : asymErr thr l r t p = l.app (t - p) := by
  simp [asymErr, h]
theorem asymErr_right (thr : Rat) (l r : EF) (t p : Rat) (h : thr ≤ t - p) : asymErr thr l r t p = r.app (t - p) := by
  simp [asymErr, not_lt.mpr h]

/-! ### floor of the geometric-mean metrics -/
theorem floorEps_pos (eps x : Rat) (he : 0 < eps) (hx : 0 ≤ x) : 0 < floorEps eps x := by
  unfold floorEps
  split
  · exact he
  · rename_i h; exact lt_of_le_of_ne hx (Ne.symm h)
theorem floorEps_zero (eps : Rat) : floorEps eps 0 = eps := by simp [floorEps]

end SkVerif.Lem.Metrics
