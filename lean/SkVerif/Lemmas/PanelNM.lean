/- C15: nested <-> multi-index transport lemmas. -/
import SkVerif.Lemmas.PanelMI
namespace SkVerif.Panel.Lem
open SkVerif.Panel SkVerif.Panel.Spec

variable {ν α : Type}

theorem foldl_max_const (t : Nat) (l : List Nat) (hne : l ≠ []) (h : ∀ x ∈ l, x = t) (acc : Nat) :
    l.foldl max acc = max acc t := by
  induction l generalizing acc with
  | nil => exact absurd rfl hne
  | cons a l ih =>
    have ha : a = t := h a (by simp)
    subst ha
    cases l with
    | nil => simp
    | cons b l =>
      rw [List.foldl_cons, ih (by simp) (fun x hx => h x (by simp [hx]))]
      omega

theorem cellLen_mkCell (k : Bool) (v : List α) : cellLen (mkCell k v) = v.length := by
  cases k <;> rfl

theorem cellSeries_mkCell (k : Bool) (v : List α) :
    cellSeries v.length true (mkCell k v) = .ok v := by
  cases k <;> simp [mkCell, cellSeries, pure, Except.pure]

theorem instanceRows_ok {c t : Nat} (k : Bool) (i : Nat) (inst : List (List α))
    (hc : 0 < c) (hl : inst.length = c) (ht : ∀ s ∈ inst, s.length = t) :
    instanceRows (List.replicate c true) i (inst.map (mkCell k)) =
      .ok ((transposeW t inst).zipIdx.map (fun p => (((i : Int), (p.2 : Int)), p.1))) := by
  unfold instanceRows
  have hT : ((inst.map (mkCell k)).map cellLen).foldl max 0 = t := by
    rw [foldl_max_const t _ (by
      cases inst with
      | nil => simp at hl; omega
      | cons a inst => simp) (by
      intro x hx
      simp only [List.map_map, List.mem_map, Function.comp_apply] at hx
      obtain ⟨s, hs, rfl⟩ := hx
      rw [cellLen_mkCell]; exact ht s hs)]
    omega
  have hS : ((inst.map (mkCell k)).zip (List.replicate c true)).mapM
      (fun p => cellSeries t p.2 p.1) = .ok inst := by
    have := mapM_ok (ε := Err) (fun p : Cell α × Bool => cellSeries t p.2 p.1)
      (fun p => (p.1.vals?).getD []) ((inst.map (mkCell k)).zip (List.replicate c true)) (by
        intro p hp
        have h1 := List.of_mem_zip hp
        obtain ⟨s, hs, he⟩ := List.mem_map.mp h1.1
        have h2 := (List.mem_replicate.mp h1.2).2
        rw [h2, ← he, ← ht s hs, cellSeries_mkCell, vals_mkCell]
        rfl)
    rw [this]
    congr 1
    rw [show (fun p : Cell α × Bool => (p.1.vals?).getD []) = (fun c => (c.vals?).getD []) ∘ Prod.fst from rfl,
      ← List.map_map, List.map_fst_zip (by simp [hl])]
    simp [List.map_map, Function.comp_def, vals_mkCell]
  simp only [hT, hS, bind, Except.bind, pure, Except.pure]

/-- C5: `from_nested_to_multi_index` builds the multi-index frame holding the same panel -/
theorem fromNestedToMI_ok {n c t : Nat} {X : Arr3 α} (hX : Rect3 n c t X) (hn : 0 < n)
    (hc : 0 < c) (names : List ν) (hl : names.length = c) (k : Bool) (i tm : Option String) :
    fromNestedToMI (nestedOf names k X) i tm =
      .ok (miOf (i.getD "instance") (tm.getD "timepoints") names X) := by
  unfold fromNestedToMI
  have hblocks : (nestedOf names k X).rows.zipIdx.mapM
      (fun p => instanceRows (areColumnsNested (nestedOf names k X)) p.2 p.1) =
      .ok (X.zipIdx.map (fun p =>
        (transposeW t p.1).zipIdx.map (fun q => (((p.2 : Int), (q.2 : Int)), q.1)))) := by
    rw [rows_nestedOf hX hn hc names hl k, areColumnsNested_nestedOf hX hn names hl k]
    have := mapM_ok (ε := Err)
      (fun p : List (Cell α) × Nat => instanceRows (List.replicate c true) p.2 p.1)
      (fun p => (transposeW t (p.1.map (fun c => (c.vals?).getD []))).zipIdx.map
        (fun q => (((p.2 : Int), (q.2 : Int)), q.1)))
      ((X.map (List.map (mkCell k))).zipIdx) (by
        intro p hp
        have hp1 : p.1 ∈ X.map (List.map (mkCell k)) := by
          have := List.mem_map_of_mem (f := Prod.fst) hp
          rwa [List.zipIdx_map_fst] at this
        obtain ⟨inst, hinst, he⟩ := List.mem_map.mp hp1
        have h := hX.2 inst hinst
        rw [← he, instanceRows_ok k p.2 inst hc h.1 h.2]
        simp [List.map_map, Function.comp_def, vals_mkCell])
    rw [this]
    congr 1
    rw [List.zipIdx_map, List.map_map]
    apply List.map_congr_left
    intro p _
    simp [List.map_map, Function.comp_def, vals_mkCell]
  simp only [isNested_nestedOf hX hn hc names hl k, hblocks, bind, Except.bind, pure, Except.pure,
    nestedOf_names hX hn names hl k]
  simp [miOf, miRows, rect_nTime hX hn hc]

/-! ### C6 -/


theorem zipWith_append_replicate_nil {β} (c : Nat) (T : List (List β)) (h : T.length = c) :
    List.zipWith (· ++ ·) (List.replicate c ([] : List β)) T = T := by
  induction T generalizing c with
  | nil => subst h; rfl
  | cons a T ih =>
    obtain ⟨c', rfl⟩ : ∃ c', c = c' + 1 := ⟨c - 1, by simp at h; omega⟩
    simp [List.replicate_succ, ih c' (by simpa using h)]

theorem zipWith_cons_append {β} (r : List β) (TA TB : List (List β)) :
    List.zipWith (· ++ ·) (List.zipWith List.cons r TA) TB
      = List.zipWith List.cons r (List.zipWith (· ++ ·) TA TB) := by
  induction r generalizing TA TB with
  | nil => simp
  | cons a r ih =>
    cases TA with
    | nil => simp
    | cons x TA =>
      cases TB with
      | nil => simp
      | cons y TB => simp [ih]

theorem transposeW_append {β} (c : Nat) (A B : List (List β)) (hB : RowsLen c B) :
    transposeW c (A ++ B) = List.zipWith (· ++ ·) (transposeW c A) (transposeW c B) := by
  induction A with
  | nil =>
    simp only [List.nil_append, transposeW]
    rw [zipWith_append_replicate_nil c _ (length_transposeW c B hB)]
  | cons r A ih =>
    simp only [List.cons_append, transposeW]
    rw [ih, zipWith_cons_append]

/-- Claim A: the columns of the canonical multi-index frame are the per-variable series,
instance after instance -/
theorem cols_miRows {n c t : Nat} {X : Arr3 α} (hX : Rect3 n c t X) :
    transposeW c ((X.map (transposeW t)).flatten) = (transposeW c X).map List.flatten := by
  induction X generalizing n with
  | nil => simp [transposeW]
  | cons inst X ih =>
    have hi := hX.2 inst (by simp)
    have hX' : Rect3 X.length c t X := ⟨rfl, fun r hr => hX.2 r (by simp [hr])⟩
    have hB : RowsLen c ((X.map (transposeW t)).flatten) := by
      intro r hr
      simp only [List.mem_flatten, List.mem_map] at hr
      obtain ⟨l, ⟨i2, hi2, rfl⟩, hr⟩ := hr
      have h2 := hX.2 i2 (by simp [hi2])
      rw [rowsLen_transposeW t i2 h2.2 r hr, h2.1]
    simp only [List.map_cons, List.flatten_cons, transposeW]
    rw [transposeW_append c _ _ hB, ih hX']
    have := transposeW_transposeW t inst hi.2
    rw [hi.1] at this
    rw [this, List.map_zipWith, List.zipWith_map_right]
    simp


/-- `series.xs(id)`: the values whose instance label is `id` -/
def pick {ι β} [BEq ι] (labels : List ι) (vals : List β) (id : ι) : List β :=
  ((labels.zip vals).filter (fun q => q.1 == id)).map (·.2)

theorem pick_blocks {ι β} [BEq ι] [LawfulBEq ι] (t : Nat) (ids : List ι) (blocks : List (List β))
    (hlen : ids.length = blocks.length) (hblk : ∀ b ∈ blocks, b.length = t) (hnd : ids.Nodup) :
    ∀ p ∈ ids.zip blocks,
      pick ((ids.map (fun x => List.replicate t x)).flatten) blocks.flatten p.1 = p.2 := by
  induction ids generalizing blocks with
  | nil => intro p hp; simp at hp
  | cons a ids ih =>
    cases blocks with
    | nil => simp at hlen
    | cons b bs =>
      have ha : a ∉ ids := (List.nodup_cons.mp hnd).1
      have hb : b.length = t := hblk b (by simp)
      intro p hp
      simp only [List.zip_cons_cons, List.mem_cons] at hp
      unfold pick
      simp only [List.map_cons, List.flatten_cons]
      rw [List.zip_append (by simp [hb]), List.filter_append, List.map_append]
      rcases hp with rfl | hp
      · have h1 : (((List.replicate t a).zip b).filter (fun q => q.1 == a)).map (·.2) = b := by
          rw [List.filter_eq_self.mpr (by
            intro q hq
            have := (List.mem_replicate.mp (List.of_mem_zip hq).1).2
            simp [this])]
          rw [List.map_snd_zip (by simp [hb])]
        have h2 : ((((ids.map (fun x => List.replicate t x)).flatten).zip bs.flatten).filter
            (fun q => q.1 == a)) = [] := by
          rw [List.filter_eq_nil_iff]
          intro q hq
          have := (List.of_mem_zip hq).1
          simp only [List.mem_flatten, List.mem_map] at this
          obtain ⟨l, ⟨y, hy, rfl⟩, hq1⟩ := this
          have := (List.mem_replicate.mp hq1).2
          simp only [beq_iff_eq]
          intro e; exact ha (e ▸ this ▸ hy)
        simp [h1, h2]
      · have hp1 : p.1 ∈ ids := (List.of_mem_zip hp).1
        have hne : p.1 ≠ a := fun e => ha (e ▸ hp1)
        have h1 : ((List.replicate t a).zip b).filter (fun q => q.1 == p.1) = [] := by
          rw [List.filter_eq_nil_iff]
          intro q hq
          have := (List.mem_replicate.mp (List.of_mem_zip hq).1).2
          simp only [beq_iff_eq]
          intro e; exact hne (e ▸ this)
        have := ih bs (by simpa using hlen) (fun b' hb' => hblk b' (by simp [hb']))
          (List.nodup_cons.mp hnd).2 p hp
        unfold pick at this
        simp [h1, this]

theorem map_eq_of_zip {ι β} (f : ι → β) (ids : List ι) (bs : List β) (hlen : ids.length = bs.length)
    (h : ∀ p ∈ ids.zip bs, f p.1 = p.2) : ids.map f = bs := by
  induction ids generalizing bs with
  | nil => cases bs with
    | nil => rfl
    | cons b bs => simp at hlen
  | cons a ids ih =>
    cases bs with
    | nil => simp at hlen
    | cons b bs =>
      simp only [List.map_cons, List.cons.injEq]
      exact ⟨h (a, b) (by simp), ih bs (by simpa using hlen) (fun p hp => h p (by simp [hp]))⟩


theorem mem_transposeW {β} (w : Nat) (m : List (List β)) :
    ∀ col ∈ transposeW w m, ∀ x ∈ col, ∃ r ∈ m, x ∈ r := by
  induction m with
  | nil =>
    intro col hcol x hx
    simp only [transposeW, List.mem_replicate] at hcol
    rw [hcol.2] at hx; simp at hx
  | cons r rs ih =>
    intro col hcol x hx
    simp only [transposeW] at hcol
    rw [List.mem_iff_getElem] at hcol
    obtain ⟨i, hi, rfl⟩ := hcol
    simp only [List.getElem_zipWith, List.mem_cons] at hx
    rcases hx with rfl | hx
    · exact ⟨r, by simp, List.getElem_mem _⟩
    · obtain ⟨r', hr', hx'⟩ := ih _ (List.getElem_mem _) x hx
      exact ⟨r', by simp [hr'], hx'⟩

theorem zip_map_snd {A B C} (g : B → C) (l1 : List A) (l2 : List B) :
    (l1.zip l2).map (fun p => (p.1, g p.2)) = l1.zip (l2.map g) := by
  rw [List.zip_map_right]; rfl

theorem foldl_setCol_map {γ δ} [DecidableEq ν] (ps : List (ν × γ)) (g : γ → δ)
    (hnd : (ps.map (·.1)).Nodup) :
    ps.foldl (fun df p => setCol df p.1 (g p.2)) [] = ps.map (fun p => (p.1, g p.2)) := by
  have h1 : ps.foldl (fun df p => setCol df p.1 (g p.2)) []
      = (ps.map (fun p => (p.1, g p.2))).foldl (fun df p => setCol df p.1 p.2) [] := by
    rw [List.foldl_map]
  rw [h1, foldl_setCol_zip]
  · simp
  · simpa [List.map_map, Function.comp_def] using hnd

/-- C6: `from_multi_index_to_nested` builds the nested frame holding the same panel -/
theorem fromMIToNested_ok [DecidableEq ν] {n c t : Nat} {X : Arr3 α} (hX : Rect3 n c t X)
    (hn : 0 < n) (hc : 0 < c) (ht : 0 < t) (i tm : String) (hne : i ≠ tm) (names : List ν)
    (hl : names.length = c) (hnd : names.Nodup) (k : Bool) :
    fromMIToNested (miOf i tm names X) (some i) k = .ok (nestedOf names k X) := by
  have hI : levelVals (miOf i tm names X) i = .ok ((miRows X).map (·.1.1)) := by
    simp [levelVals, miOf, hne, pure, Except.pure]
  have hS := length_transposeW c X (rect_rowsLen hX)
  have hcols : transposeW (miOf i tm names X).names.length ((miOf i tm names X).rows.map (·.2))
      = (transposeW c X).map List.flatten := by
    show transposeW names.length ((miRows X).map (·.2)) = _
    rw [hl, miRows_vals, rect_nTime hX hn hc, cols_miRows hX]
  have hzipnd : ((names.zip ((transposeW c X).map List.flatten)).map (·.1)).Nodup := by
    rw [List.map_fst_zip (by simp [hS, hl])]; exact hnd
  unfold fromMIToNested
  simp only [hI, bind, Except.bind, hcols, instIds_miRows hX hn hc ht]
  rw [show (miOf i tm names X).names = names from rfl]
  rw [foldl_setCol_map (names.zip ((transposeW c X).map List.flatten)) (fun col =>
    ((List.range n).map (fun i : Nat => (i : Int))).map (fun id => mkCell k
      (((((miRows X).map (·.1.1)).zip col).filter (fun q => q.1 == id)).map (·.2)))) hzipnd]
  have hfst : ((names.zip ((transposeW c X).map List.flatten)).map (fun p => (p.1,
      ((List.range n).map (fun i : Nat => (i : Int))).map (fun id => mkCell k
        (((((miRows X).map (·.1.1)).zip p.2).filter (fun q => q.1 == id)).map (·.2)))))).map (·.1)
      = names := by
    rw [List.map_map]
    rw [show ((fun x : ν × List (Cell α) => x.1) ∘ fun p : ν × List α => (p.1,
      ((List.range n).map (fun i : Nat => (i : Int))).map (fun id => mkCell k
        (((((miRows X).map (·.1.1)).zip p.2).filter (fun q => q.1 == id)).map (·.2))))) = Prod.fst from rfl]
    exact List.map_fst_zip (by simp [hS, hl])
  rw [hfst]
  simp only [ne_eq, not_true_eq_false, if_false, pure, Except.pure]
  congr 2
  rw [rect_nCols hX hn, ← map_transposeW]
  rw [zip_map_snd (fun col => ((List.range n).map (fun i : Nat => (i : Int))).map (fun id => mkCell k
      (((((miRows X).map (·.1.1)).zip col).filter (fun q => q.1 == id)).map (·.2))))]
  congr 1
  rw [List.map_map]
  apply List.map_congr_left
  intro Sj hSj
  simp only [Function.comp_apply]
  have hSjlen : Sj.length = n := by rw [rowsLen_transposeW c X (rect_rowsLen hX) Sj hSj, hX.1]
  have hSjt : ∀ s ∈ Sj, s.length = t := by
    intro s hs
    obtain ⟨r, hr, hsr⟩ := mem_transposeW c X Sj hSj s hs
    exact (hX.2 r hr).2 s hsr
  rw [miRows_inst hX hn hc]
  have := map_eq_of_zip (fun id => pick (((List.range n).map (fun i : Nat => (i : Int))).map
      (fun x => List.replicate t x)).flatten Sj.flatten id)
    ((List.range n).map (fun i : Nat => (i : Int))) Sj (by simp [hSjlen])
    (pick_blocks t _ Sj (by simp [hSjlen]) hSjt (nodup_range_int n))
  conv => rhs; rw [← this]
  simp only [List.map_map]
  rfl

/-- a well-formed nested frame is the canonical frame of the panel it holds -/
theorem wfNested_eq_nestedOf {n c t : Nat} {k : Bool} {N : Nested ν α} (h : WFNested n c t k N)
    (hn : 0 < n) (hc : 0 < c) :
    Rect3 n c t (panelOfNested N) ∧ N = nestedOf N.names k (panelOfNested N) := by
  obtain ⟨hnd, hlen, hcols⟩ := h
  have hnr : N.nRows = n := by
    unfold Nested.nRows
    cases hC : N.cols with
    | nil => rw [hC] at hlen; simp at hlen; omega
    | cons p rest => exact (hcols p (by rw [hC]; simp)).1
  let M := N.cols.map (fun p => p.2.map (fun cell => (cell.vals?).getD []))
  have hM : RowsLen n M := by
    intro r hr
    obtain ⟨p, hp, rfl⟩ := List.mem_map.mp hr
    simpa using (hcols p hp).1
  have hMlen : M.length = c := by simp [M, hlen]
  have hrect : Rect3 n c t (panelOfNested N) := by
    unfold panelOfNested
    rw [hnr]
    refine ⟨length_transposeW n M hM, ?_⟩
    intro inst hinst
    refine ⟨by rw [rowsLen_transposeW n M hM inst hinst, hMlen], ?_⟩
    intro s hs
    obtain ⟨r, hr, hsr⟩ := mem_transposeW n M inst hinst s hs
    obtain ⟨p, hp, rfl⟩ := List.mem_map.mp hr
    obtain ⟨cell, hcell, rfl⟩ := List.mem_map.mp hsr
    obtain ⟨vs, rfl, hvs⟩ := (hcols p hp).2 cell hcell
    simpa [vals_mkCell] using hvs
  refine ⟨hrect, ?_⟩
  have hn0 : (panelOfNested N).length = n := hrect.1
  unfold nestedOf
  have hcolsEq : transposeW (nCols (panelOfNested N))
      ((panelOfNested N).map (List.map (mkCell k))) = N.cols.map (·.2) := by
    rw [rect_nCols hrect hn]
    unfold panelOfNested
    rw [hnr, map_transposeW]
    have hMc : M.map (List.map (mkCell k)) = N.cols.map (·.2) := by
      simp only [M, List.map_map]
      apply List.map_congr_left
      intro p hp
      simp only [Function.comp_apply]
      conv => rhs; rw [← List.map_id p.2]
      rw [List.map_map]
      apply List.map_congr_left
      intro cell hcell
      obtain ⟨vs, rfl, _⟩ := (hcols p hp).2 cell hcell
      simp [vals_mkCell]
    rw [hMc]
    have hR : RowsLen n (N.cols.map (·.2)) := by
      intro r hr
      obtain ⟨p, hp, rfl⟩ := List.mem_map.mp hr
      exact (hcols p hp).1
    have := transposeW_transposeW n (N.cols.map (·.2)) hR
    rwa [List.length_map, hlen] at this
  rw [hcolsEq]
  cases N with
  | mk cols =>
    simp only [Nested.names]
    congr 1
    exact List.zip_of_prod rfl rfl
/-- grouping the rows per instance leaves a frame that is already grouped (one block of `t` rows per
instance, pairwise distinct identifiers) as it is -/
theorem groupRows_blocks {β : Type} (t : Nat) (ht : 0 < t) (ids : List Int) (blocks : List (List β))
    (hlen : ids.length = blocks.length) (hblk : ∀ b ∈ blocks, b.length = t) (hnd : ids.Nodup) :
    groupRows ((ids.map (fun x => List.replicate t x)).flatten) blocks.flatten = blocks.flatten := by
  unfold groupRows
  rw [eraseDups_flatMap_replicate t ht ids hnd]
  congr 1
  exact map_eq_of_zip (fun id => pick ((ids.map (fun x => List.replicate t x)).flatten) blocks.flatten id)
    ids blocks hlen (pick_blocks t ids blocks hlen hblk hnd)

theorem groupRows_canonical {n c t : Nat} {X : Arr3 α} (hX : Rect3 n c t X) (ht : 0 < t)
    (labels : List Int) (hll : labels.length = n) (hnd : labels.Nodup) :
    groupRows ((labels.map (fun x => List.replicate t x)).flatten) (X.map (transposeW t)).flatten
      = (X.map (transposeW t)).flatten := by
  have hX' := rect_swap hX
  exact groupRows_blocks t ht labels (X.map (transposeW t)) (by rw [hll, hX'.1])
    (fun b hb => (hX'.2 b hb).1) hnd

/-- C4: `from_multi_index_to_3d_numpy` reads the panel back -/
theorem fromMITo3d_ok {n c t : Nat} {X : Arr3 α} (hX : Rect3 n c t X) (hn : 0 < n) (hc : 0 < c)
    (ht : 0 < t) (i tm : String) (hne : i ≠ tm) (names : List ν) (hl : names.length = c) :
    fromMITo3d (miOf i tm names X) (some i) (some tm) = .ok X := by
  have hX' := rect_swap hX
  have hflat : (groupRows ((miRows X).map (·.1.1)) ((miOf i tm names X).rows.map (·.2))).flatten
      = (X.map (transposeW t)).flatten.flatten := by
    show (groupRows ((miRows X).map (·.1.1)) ((miRows X).map (·.2))).flatten = _
    rw [miRows_vals, rect_nTime hX hn hc, miRows_inst hX hn hc,
      groupRows_canonical hX ht _ (by simp) (nodup_range_int n)]
  have hI : levelVals (miOf i tm names X) i = .ok ((miRows X).map (·.1.1)) := by
    simp [levelVals, miOf, hne, pure, Except.pure]
  have hT : levelVals (miOf i tm names X) tm = .ok ((miRows X).map (·.1.2)) := by
    simp [levelVals, miOf, hne, Ne.symm hne, pure, Except.pure]
  unfold fromMITo3d
  simp only [hI, hT, bind, Except.bind, hflat, instIds_miRows hX hn hc ht, timeIds_miRows hX hn hc,
    List.length_map, List.length_range, length_flatten_flatten_rect hX']
  simp only [miOf, hl, if_true]
  rw [reshape3_flatten hX', swap_swap hX]
  rfl

end SkVerif.Panel.Lem
