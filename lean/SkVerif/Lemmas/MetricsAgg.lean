/- Lemmas about the horizon reductions of the metric model: sum / mean / weighted mean / median /
weighted percentile / product, and the list combinators used to build columns. -/
import SkVerif.Model.Metrics
import SkVerif.Lemmas.Sort
import SkVerif.Lemmas.MetricsElem
namespace SkVerif.Lem.Metrics
open SkVerif SkVerif.Metrics

/-! ### list combinators -/
theorem forall_zipWith {α β γ} (f : α → β → γ) (P : γ → Prop) (h : ∀ a b, P (f a b)) :
    ∀ (as : List α) (bs : List β), ∀ x ∈ List.zipWith f as bs, P x := by
  intro as
  induction as with
  | nil => intro bs x hx; simp at hx
  | cons a as ih =>
    intro bs x hx
    cases bs with
    | nil => simp at hx
    | cons b bs =>
      simp only [List.zipWith_cons_cons, List.mem_cons] at hx
      rcases hx with rfl | hx
      · exact h a b
      · exact ih bs x hx

theorem forall_zipWith_mem {α β γ} (f : α → β → γ) (P : γ → Prop) :
    ∀ (as : List α) (bs : List β), (∀ a ∈ as, ∀ b ∈ bs, P (f a b)) → ∀ x ∈ List.zipWith f as bs, P x := by
  intro as
  induction as with
  | nil => intro bs _ x hx; simp at hx
  | cons a as ih =>
    intro bs h x hx
    cases bs with
    | nil => simp at hx
    | cons b bs =>
      simp only [List.zipWith_cons_cons, List.mem_cons] at hx
      rcases hx with rfl | hx
      · exact h a (by simp) b (by simp)
      · exact ih bs (fun a ha b hb => h a (by simp [ha]) b (by simp [hb])) x hx

theorem forall_relCol (eps : Rat) (P : Rat → Prop) (h : ∀ t p b, P (relErr eps t p b)) :
    ∀ (t p b : Col), ∀ x ∈ relCol eps t p b, P x := by
  intro t
  induction t with
  | nil => intro p b x hx; simp [relCol] at hx
  | cons t ts ih =>
    intro p b x hx
    cases p with
    | nil => simp [relCol] at hx
    | cons p ps =>
      cases b with
      | nil => simp [relCol] at hx
      | cons b bs =>
        simp only [relCol, List.mem_cons] at hx
        rcases hx with rfl | hx
        · exact h t p b
        · exact ih ps bs x hx

theorem forall_relCols (eps : Rat) (f : Col → Rat) (P : Rat → Prop) (h : ∀ t p b, P (f (relCol eps t p b))) :
    ∀ (yt yp yb : Mat), ∀ x ∈ relCols eps f yt yp yb, P x := by
  intro yt
  induction yt with
  | nil => intro p b x hx; simp [relCols] at hx
  | cons t ts ih =>
    intro p b x hx
    cases p with
    | nil => simp [relCols] at hx
    | cons p ps =>
      cases b with
      | nil => simp [relCols] at hx
      | cons b bs =>
        simp only [relCols, List.mem_cons] at hx
        rcases hx with rfl | hx
        · exact h t p b
        · exact ih ps bs x hx

theorem relCol_perfect (eps : Rat) : ∀ (t b : Col), ∀ x ∈ relCol eps t t b, x = 0 := by
  intro t
  induction t with
  | nil => intro b x hx; simp [relCol] at hx
  | cons t ts ih =>
    intro b x hx
    cases b with
    | nil => simp [relCol] at hx
    | cons b bs =>
      simp only [relCol, List.mem_cons] at hx
      rcases hx with rfl | hx
      · exact relErr_perfect eps t b
      · exact ih bs x hx

theorem zipWith_self_forall {γ} (f : Rat → Rat → γ) (P : γ → Prop) (h : ∀ a, P (f a a)) :
    ∀ (t : Col), ∀ x ∈ List.zipWith f t t, P x := by
  intro t
  induction t with
  | nil => intro x hx; simp at hx
  | cons a as ih =>
    intro x hx
    simp only [List.zipWith_cons_cons, List.mem_cons] at hx
    rcases hx with rfl | hx
    · exact h a
    · exact ih x hx

/-! ### sums -/
theorem sum_nonneg_of (xs : List Rat) (h : ∀ x ∈ xs, 0 ≤ x) : 0 ≤ xs.sum := by
  induction xs with
  | nil => simp
  | cons a l ih =>
    simp only [List.sum_cons]
    have := h a (by simp)
    have := ih (fun x hx => h x (by simp [hx]))
    linarith

theorem sum_le_of (xs : List Rat) (b : Rat) (h : ∀ x ∈ xs, x ≤ b) : xs.sum ≤ b * (xs.length : Rat) := by
  induction xs with
  | nil => simp
  | cons a l ih =>
    simp only [List.sum_cons, List.length_cons, Nat.cast_succ]
    have := h a (by simp)
    have := ih (fun x hx => h x (by simp [hx]))
    nlinarith

theorem sum_zero_of (xs : List Rat) (h : ∀ x ∈ xs, x = 0) : xs.sum = 0 := by
  induction xs with
  | nil => simp
  | cons a l ih =>
    simp only [List.sum_cons]
    rw [h a (by simp), ih (fun x hx => h x (by simp [hx]))]; simp

theorem sum_map_mul (c : Rat) (xs : List Rat) : (xs.map (c * ·)).sum = c * xs.sum := by
  induction xs with
  | nil => simp
  | cons a l ih => simp only [List.map_cons, List.sum_cons, ih]; ring

/-! ### mean and weighted mean -/
theorem mean_nonneg (xs : List Rat) (h : ∀ x ∈ xs, 0 ≤ x) : 0 ≤ mean xs := by
  unfold mean
  have := sum_nonneg_of xs h
  positivity

theorem mean_le (xs : List Rat) (b : Rat) (hb : 0 ≤ b) (h : ∀ x ∈ xs, x ≤ b) : mean xs ≤ b := by
  unfold mean
  rcases Nat.eq_zero_or_pos xs.length with h0 | h0
  · simp [h0, hb]
  · have hp : (0 : Rat) < (xs.length : Rat) := by exact_mod_cast h0
    rw [div_le_iff₀ hp]
    exact sum_le_of xs b h

theorem mean_scale (c : Rat) (xs : List Rat) : mean (xs.map (c * ·)) = c * mean xs := by
  unfold mean
  rw [sum_map_mul, List.length_map]; ring

def wsum (ws xs : List Rat) : Rat := (List.zipWith (· * ·) ws xs).sum

theorem wsum_nonneg : ∀ (ws xs : List Rat), (∀ w ∈ ws, 0 ≤ w) → (∀ x ∈ xs, 0 ≤ x) → 0 ≤ wsum ws xs := by
  intro ws xs hw hx
  unfold wsum
  apply sum_nonneg_of
  apply forall_zipWith_mem
  intro a ha b hb
  exact mul_nonneg (hw a ha) (hx b hb)

theorem wsum_le : ∀ (ws xs : List Rat) (b : Rat), 0 ≤ b → (∀ w ∈ ws, 0 ≤ w) → (∀ x ∈ xs, x ≤ b) →
    wsum ws xs ≤ b * ws.sum := by
  intro ws
  induction ws with
  | nil => intro xs b _ _ _; simp [wsum]
  | cons w ws ih =>
    intro xs b hb hw hx
    cases xs with
    | nil =>
      simp only [wsum, List.zipWith_nil_right, List.sum_nil]
      have := sum_nonneg_of (w :: ws) hw
      positivity
    | cons x xs =>
      have h1 := ih xs b hb (fun a ha => hw a (by simp [ha])) (fun a ha => hx a (by simp [ha]))
      have hw0 := hw w (by simp)
      have hxb := hx x (by simp)
      simp only [wsum, List.zipWith_cons_cons, List.sum_cons] at *
      nlinarith

theorem wsum_scale (c : Rat) : ∀ (ws xs : List Rat), wsum ws (xs.map (c * ·)) = c * wsum ws xs := by
  intro ws
  induction ws with
  | nil => intro xs; simp [wsum]
  | cons w ws ih =>
    intro xs
    cases xs with
    | nil => simp [wsum]
    | cons x xs =>
      have := ih xs
      simp only [wsum, List.map_cons, List.zipWith_cons_cons, List.sum_cons] at *
      rw [this]; ring

theorem wavg_eq (ws xs : List Rat) : wavg ws xs = wsum ws xs / ws.sum := rfl

theorem wavg_nonneg (ws xs : List Rat) (hw : ∀ w ∈ ws, 0 ≤ w) (hx : ∀ x ∈ xs, 0 ≤ x) : 0 ≤ wavg ws xs := by
  rw [wavg_eq]
  have := wsum_nonneg ws xs hw hx
  have := sum_nonneg_of ws hw
  positivity

theorem wavg_le (ws xs : List Rat) (b : Rat) (hb : 0 ≤ b) (hw : ∀ w ∈ ws, 0 ≤ w) (hx : ∀ x ∈ xs, x ≤ b) :
    wavg ws xs ≤ b := by
  rw [wavg_eq]
  have hs := sum_nonneg_of ws hw
  rcases eq_or_lt_of_le hs with h0 | h0
  · rw [← h0]; simp [hb]
  · rw [div_le_iff₀ h0]; exact wsum_le ws xs b hb hw hx

theorem wavg_scale (c : Rat) (ws xs : List Rat) : wavg ws (xs.map (c * ·)) = c * wavg ws xs := by
  rw [wavg_eq, wavg_eq, wsum_scale]; ring

/-- weights given as `Option`: all of them ≥ 0 -/
def NonnegW (hw : Option (List Rat)) : Prop := ∀ w, hw = some w → ∀ x ∈ w, 0 ≤ x

theorem npAverage_nonneg (hw : Option (List Rat)) (xs : List Rat) (hn : NonnegW hw) (hx : ∀ x ∈ xs, 0 ≤ x) :
    0 ≤ npAverage hw xs := by
  cases hw with
  | none => exact mean_nonneg xs hx
  | some w => exact wavg_nonneg w xs (hn w rfl) hx

theorem npAverage_le (hw : Option (List Rat)) (xs : List Rat) (b : Rat) (hb : 0 ≤ b) (hn : NonnegW hw)
    (hx : ∀ x ∈ xs, x ≤ b) : npAverage hw xs ≤ b := by
  cases hw with
  | none => exact mean_le xs b hb hx
  | some w => exact wavg_le w xs b hb (hn w rfl) hx

theorem npAverage_zero (hw : Option (List Rat)) (xs : List Rat) (hx : ∀ x ∈ xs, x = 0) : npAverage hw xs = 0 := by
  cases hw with
  | none => simp [npAverage, mean, sum_zero_of xs hx]
  | some w =>
    have : wsum w xs = 0 := by
      unfold wsum
      apply sum_zero_of
      apply forall_zipWith_mem
      intro a _ b hb; rw [hx b hb]; simp
    simp [npAverage, wavg_eq, this]

theorem npAverage_scale (c : Rat) (hw : Option (List Rat)) (xs : List Rat) :
    npAverage hw (xs.map (c * ·)) = c * npAverage hw xs := by
  cases hw with
  | none => exact mean_scale c xs
  | some w => exact wavg_scale c w xs

/-- unit weights give the plain mean (`np.average(x, weights=ones)` = `np.mean(x)`) -/
theorem wavg_ones (xs : List Rat) : wavg (List.replicate xs.length 1) xs = mean xs := by
  have h1 : ∀ (l : List Rat), wsum (List.replicate l.length 1) l = l.sum := by
    intro l
    induction l with
    | nil => simp [wsum]
    | cons a l ih =>
      simp only [wsum, List.length_cons, List.replicate_succ, List.zipWith_cons_cons, List.sum_cons] at *
      rw [ih]; ring
  have h2 : ∀ n : Nat, (List.replicate n (1 : Rat)).sum = (n : Rat) := by
    intro n
    induction n with
    | zero => simp
    | succ n ih => simp only [List.replicate_succ, List.sum_cons, ih, Nat.cast_succ]; ring
  rw [wavg_eq, h1, h2]; rfl

/-- rescaling all weights by a non-zero constant does not change the weighted mean -/
theorem wavg_weights_scale (c : Rat) (hc : c ≠ 0) (ws xs : List Rat) :
    wavg (ws.map (c * ·)) xs = wavg ws xs := by
  have h1 : ∀ (ws xs : List Rat), wsum (ws.map (c * ·)) xs = c * wsum ws xs := by
    intro ws
    induction ws with
    | nil => intro xs; simp [wsum]
    | cons w ws ih =>
      intro xs
      cases xs with
      | nil => simp [wsum]
      | cons x xs =>
        have := ih xs
        simp only [wsum, List.map_cons, List.zipWith_cons_cons, List.sum_cons] at *
        rw [this]; ring
  rw [wavg_eq, wavg_eq, h1, sum_map_mul]
  field_simp

end SkVerif.Lem.Metrics
