import SkVerif.Model.Sort
namespace SkVerif.Lem
open SkVerif

theorem insertBy_perm {α} (le : α → α → Bool) (a : α) (l : List α) : (insertBy le a l).Perm (a :: l) := by
  induction l with
  | nil => simp [insertBy]
  | cons b l ih =>
    simp only [insertBy]
    split
    · exact List.Perm.refl _
    · exact (List.Perm.cons b ih).trans (List.Perm.swap a b l)

theorem isortBy_perm {α} (le : α → α → Bool) (l : List α) : (isortBy le l).Perm l := by
  induction l with
  | nil => simp [isortBy]
  | cons a l ih =>
    simp only [isortBy]
    exact (insertBy_perm le a _).trans (List.Perm.cons a ih)

theorem insertBy_pairwise {α} (le : α → α → Bool)
    (trans : ∀ a b c, le a b → le b c → le a c) (total : ∀ a b, le a b || le b a)
    (a : α) (l : List α) (h : l.Pairwise (fun x y => le x y)) :
    (insertBy le a l).Pairwise (fun x y => le x y) := by
  induction l with
  | nil => simp [insertBy]
  | cons b l ih =>
    have hb := List.pairwise_cons.mp h
    simp only [insertBy]
    split
    · rename_i hab
      refine List.pairwise_cons.mpr ⟨?_, h⟩
      intro c hc
      rcases List.mem_cons.mp hc with rfl | hc
      · exact hab
      · exact trans a b c hab (hb.1 c hc)
    · rename_i hab
      have hba : le b a = true := by
        have := total a b
        simp only [Bool.or_eq_true] at this
        rcases this with h1 | h1
        · exact absurd h1 hab
        · exact h1
      refine List.pairwise_cons.mpr ⟨?_, ih hb.2⟩
      intro c hc
      have := (insertBy_perm le a l).mem_iff.mp hc
      rcases List.mem_cons.mp this with rfl | hc'
      · exact hba
      · exact hb.1 c hc'

theorem isortBy_pairwise {α} (le : α → α → Bool)
    (trans : ∀ a b c, le a b → le b c → le a c) (total : ∀ a b, le a b || le b a)
    (l : List α) : (isortBy le l).Pairwise (fun x y => le x y) := by
  induction l with
  | nil => simp [isortBy]
  | cons a l ih => exact insertBy_pairwise le trans total a _ ih

theorem sortInts_perm (l : List Int) : (sortInts l).Perm l := isortBy_perm _ l

theorem sortInts_sorted (l : List Int) : (sortInts l).Pairwise (· ≤ ·) := by
  have := isortBy_pairwise (fun (a b : Int) => decide (a ≤ b))
    (by intro a b c h1 h2; simp only [decide_eq_true_eq] at *; omega)
    (by intro a b; simp only [Bool.or_eq_true, decide_eq_true_eq]; omega) l
  exact this.imp (by intro a b h; simpa using h)

theorem sortInts_strict (l : List Int) (h : l.Nodup) : (sortInts l).Pairwise (· < ·) := by
  have hs := sortInts_sorted l
  have hn : (sortInts l).Nodup := (sortInts_perm l).nodup_iff.mpr h
  unfold List.Nodup at hn
  have := hs.and hn
  exact this.imp (by intro a b h; omega)

/-- sorting a strictly sorted list is the identity -/
theorem insertBy_of_le_all (a : Int) (l : List Int) (h : ∀ b ∈ l, a ≤ b) :
    insertBy (fun a b => decide (a ≤ b)) a l = a :: l := by
  cases l with
  | nil => rfl
  | cons b l => simp [insertBy, h b (by simp)]

theorem sortInts_of_sorted (l : List Int) (h : l.Pairwise (· ≤ ·)) : sortInts l = l := by
  induction l with
  | nil => rfl
  | cons a l ih =>
    have hp := List.pairwise_cons.mp h
    unfold sortInts at *
    simp only [isortBy]
    rw [ih hp.2]
    exact insertBy_of_le_all a l hp.1

end SkVerif.Lem
