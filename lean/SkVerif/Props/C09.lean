/-
C09  Composite forecasters mean exactly the composition of their parts.

Property theorems about SkVerif/Model/Compose.lean (EnsembleForecaster, TransformedTargetForecaster,
MultiplexForecaster, StackingForecaster as machines built from arbitrary member machines) against the
vocabulary of SkVerif/Spec/Compose.lean.  Every theorem is universally quantified over the member
machines (any state type, so members may themselves be composites of any depth), over all series,
horizons and — where a history is involved — all call histories.  `x.run = .ok (v, log)` reads
"the call succeeded with value `v` and the recording leaves were handed `log`".

Only theorems and non-vacuity examples here; helper lemmas live in SkVerif/Lemmas/Compose*.lean.
-/
import SkVerif.Lemmas.Compose
import SkVerif.Lemmas.ComposeAgg
import SkVerif.Props.C01
namespace SkVerif.C09
open SkVerif SkVerif.Compose
open W (bind_eq_ok pure_eq_ok lift_bind_eq_ok lift_eq_ok tell_bind_eq_ok fail_bind run_bind)

/-! ## 1. The aggregates -/

/-- mean: (mean of the members' values) · (number of members) = their sum -/
theorem agg_mean_spec (vs : List Rat) (h : vs ≠ []) :
    aggVals .mean vs * (vs.length : Rat) = sumR vs := by
  have : (vs.length : Rat) ≠ 0 := by
    have : vs.length ≠ 0 := by intro h0; exact h (List.length_eq_zero_iff.mp h0)
    exact_mod_cast this
  simp only [aggVals]
  field_simp

/-- min: one of the members' values, and no member's value is below it -/
theorem agg_min_spec (vs : List Rat) (h : vs ≠ []) :
    aggVals .min vs ∈ vs ∧ ∀ x ∈ vs, aggVals .min vs ≤ x := by
  cases vs with
  | nil => exact absurd rfl h
  | cons v r =>
    simp only [aggVals]
    constructor
    · rcases minR_mem v r with h1 | h1
      · rw [h1]; exact List.mem_cons_self
      · exact List.mem_cons_of_mem _ h1
    · intro x hx
      rcases List.mem_cons.mp hx with rfl | hx
      · exact minR_le_init _ _
      · exact minR_le_mem _ _ x hx

/-- max: one of the members' values, and no member's value is above it -/
theorem agg_max_spec (vs : List Rat) (h : vs ≠ []) :
    aggVals .max vs ∈ vs ∧ ∀ x ∈ vs, x ≤ aggVals .max vs := by
  cases vs with
  | nil => exact absurd rfl h
  | cons v r =>
    simp only [aggVals]
    constructor
    · rcases maxR_mem v r with h1 | h1
      · rw [h1]; exact List.mem_cons_self
      · exact List.mem_cons_of_mem _ h1
    · intro x hx
      rcases List.mem_cons.mp hx with rfl | hx
      · exact maxR_ge_init _ _
      · exact maxR_ge_mem _ _ x hx

/-- median: there is an ascending rearrangement `s` of the members' values such that the median is
its middle element (odd count) or the mean of its two middle elements (even count) -/
theorem agg_median_spec (vs : List Rat) :
    ∃ s : List Rat, s.Perm vs ∧ s.Pairwise (· ≤ ·) ∧
      aggVals .median vs =
        if s.length % 2 = 1 then s.getD (s.length / 2) 0
        else (s.getD (s.length / 2 - 1) 0 + s.getD (s.length / 2) 0) / 2 :=
  ⟨sortRats vs, sortRats_perm vs, sortRats_sorted vs, rfl⟩

/-- the online ensemble without an ensemble algorithm weighs every member by 1/count: a mean -/
theorem agg_online_spec (vs : List Rat) : aggVals .online vs = aggVals .mean vs := by
  simp only [aggVals, sumR_map_mul]
  exact (div_eq_mul_one_div _ _).symm

example : aggVals .median [3, 1, 2] = 2 ∧ aggVals .median [4, 1, 3, 2] = 5 / 2 ∧ aggVals .mean [1, 2, 4] = 7 / 3
    ∧ aggVals .min [3, 1, 2] = 1 ∧ aggVals .max [3, 1, 2] = 3 := by decide +kernel

end SkVerif.C09
