/- Property theorems for C09 (stub: not built yet). -/
namespace SkVerif.C09
end SkVerif.C09
