/-
C09  Composite forecasters mean exactly the composition of their parts.

Property theorems about SkVerif/Model/Compose.lean (EnsembleForecaster, TransformedTargetForecaster,
MultiplexForecaster, StackingForecaster as machines built from arbitrary member machines) against the
vocabulary of SkVerif/Spec/Compose.lean.  Every theorem is universally quantified over the member
machines (any state type, so members may themselves be composites of any depth), over all series,
horizons and — where a history is involved — all call histories.  `x.run = .ok (v, log)` reads
"the call succeeded with value `v` and the recording leaves were handed `log`".

Only theorems and non-vacuity examples here; helper lemmas live in SkVerif/Lemmas/Compose*.lean.
-/
import SkVerif.Lemmas.ComposeRun
import SkVerif.Lemmas.ComposeAgg
namespace SkVerif.C09
open SkVerif SkVerif.Compose
open W (bind_eq_ok pure_eq_ok lift_bind_eq_ok lift_eq_ok tell_bind_eq_ok fail_bind run_bind)

/-! ## 1. The aggregates -/

/-- mean: (mean of the members' values) · (number of members) = their sum -/
theorem agg_mean_spec (vs : List Rat) (h : vs ≠ []) :
    aggVals .mean vs * (vs.length : Rat) = sumR vs := by
  have : (vs.length : Rat) ≠ 0 := by
    have : vs.length ≠ 0 := by intro h0; exact h (List.length_eq_zero_iff.mp h0)
    exact_mod_cast this
  simp only [aggVals]
  field_simp

/-- min: one of the members' values, and no member's value is below it -/
theorem agg_min_spec (vs : List Rat) (h : vs ≠ []) :
    aggVals .min vs ∈ vs ∧ ∀ x ∈ vs, aggVals .min vs ≤ x := by
  cases vs with
  | nil => exact absurd rfl h
  | cons v r =>
    simp only [aggVals]
    constructor
    · rcases minR_mem v r with h1 | h1
      · rw [h1]; exact List.mem_cons_self
      · exact List.mem_cons_of_mem _ h1
    · intro x hx
      rcases List.mem_cons.mp hx with rfl | hx
      · exact minR_le_init _ _
      · exact minR_le_mem _ _ x hx

/-- max: one of the members' values, and no member's value is above it -/
theorem agg_max_spec (vs : List Rat) (h : vs ≠ []) :
    aggVals .max vs ∈ vs ∧ ∀ x ∈ vs, x ≤ aggVals .max vs := by
  cases vs with
  | nil => exact absurd rfl h
  | cons v r =>
    simp only [aggVals]
    constructor
    · rcases maxR_mem v r with h1 | h1
      · rw [h1]; exact List.mem_cons_self
      · exact List.mem_cons_of_mem _ h1
    · intro x hx
      rcases List.mem_cons.mp hx with rfl | hx
      · exact maxR_ge_init _ _
      · exact maxR_ge_mem _ _ x hx

/-- median: there is an ascending rearrangement `s` of the members' values such that the median is
its middle element (odd count) or the mean of its two middle elements (even count) -/
theorem agg_median_spec (vs : List Rat) :
    ∃ s : List Rat, s.Perm vs ∧ s.Pairwise (· ≤ ·) ∧
      aggVals .median vs =
        if s.length % 2 = 1 then s.getD (s.length / 2) 0
        else (s.getD (s.length / 2 - 1) 0 + s.getD (s.length / 2) 0) / 2 :=
  ⟨sortRats vs, sortRats_perm vs, sortRats_sorted vs, rfl⟩

/-- the online ensemble without an ensemble algorithm weighs every member by 1/count: a mean -/
theorem agg_online_spec (vs : List Rat) : aggVals .online vs = aggVals .mean vs := by
  simp only [aggVals, sumR_map_mul]
  exact (div_eq_mul_one_div _ _).symm

example : aggVals .median [3, 1, 2] = 2 ∧ aggVals .median [4, 1, 3, 2] = 5 / 2 ∧ aggVals .mean [1, 2, 4] = 7 / 3
    ∧ aggVals .min [3, 1, 2] = 1 ∧ aggVals .max [3, 1, 2] = 3 := by decide +kernel

/-! ## 2. EnsembleForecaster: the aggregate of independently fitted members -/

/-- `fit`, from ANY earlier state: every member is a fresh clone (started from its `init`) fitted on
exactly the series and horizon handed to the ensemble; nothing else reaches a member. -/
theorem ensemble_fit_members_fresh (agg : Option Agg) (names : List String) (Fs : List Forecaster)
    (st0 : (ensemble agg names Fs).S) (y : Series) (fh : Option Horizon)
    (b : Base) (st : Option (States Fs)) (log : Log)
    (h : ((ensemble agg names Fs).fit st0 y fh).run = .ok ((b, st), log)) :
    ∃ ss, st = some ss ∧ (fitAll Fs y fh).run = .ok (ss, log) ∧ b.fh = effFh st0.1.fh fh ∧
      ∀ i, i < Fs.length →
        ∃ l, ((member Fs i).fit (member Fs i).init y fh).run = .ok (ss.get Fs i, l) :=
  Lem.ensemble_fit_members_fresh agg names Fs st0 y fh b st log h

/-- `update`: every member is updated, on its own, with exactly the batch and flag handed to the ensemble -/
theorem ensemble_update_members (agg : Option Agg) (names : List String) (Fs : List Forecaster)
    (b : Base) (ss : States Fs) (y : Series) (up : Bool)
    (b' : Base) (st' : Option (States Fs)) (log : Log)
    (h : ((ensemble agg names Fs).update (b, some ss) y up).run = .ok ((b', st'), log)) :
    ∃ ss', st' = some ss' ∧ b' = b.updateYX y ∧ (updateAll Fs ss y up).run = .ok (ss', log) ∧
      ∀ i, i < Fs.length →
        ∃ l, ((member Fs i).update (ss.get Fs i) y up).run = .ok (ss'.get Fs i, l) :=
  Lem.ensemble_update_members agg names Fs b ss y up b' st' log h

/-- `predict`: the forecast is the chosen aggregate, row by row, of the members' forecasts for the
remembered horizon; each member forecasts on its own from its own state.  Row `i` carries the first
member's i-th label and `aggVals a` of the members' i-th values (`agg_*_spec` say what that is). -/
theorem ensemble_predict_eq_aggregate (agg : Option Agg) (names : List String) (Fs : List Forecaster)
    (b : Base) (ss : States Fs) (fh : Option Horizon)
    (b' : Base) (st' : Option (States Fs)) (out : Series) (log : Log)
    (h : ((ensemble agg names Fs).predict (b, some ss) fh).run = .ok (((b', st'), out), log)) :
    ∃ a f ss' ps, agg = some a ∧ effFh b.fh fh = some f ∧ b' = { b with fh := some f } ∧ st' = some ss' ∧
      (predictAll Fs ss (some f)).run = .ok ((ss', ps), log) ∧
      ps.length = Fs.length ∧
      (∀ i, i < Fs.length → ∃ p l, ps[i]? = some p ∧
        ((member Fs i).predict (ss.get Fs i) (some f)).run = .ok ((ss'.get Fs i, p), l)) ∧
      out = aggregate a ps ∧
      (∀ i, i < nRows ps → ∃ lab, (firstLabels ps)[i]? = some lab ∧
        out[i]? = some (lab, aggVals a (column ps i))) :=
  Lem.ensemble_predict_eq_aggregate agg names Fs b ss fh b' st' out log h

/-- INDEPENDENCE over histories.  Whatever the ensemble went through before, after `fit y fh0`
followed by ANY fit-free history `ops` (updates and predicts in any order), the state of member `i`
inside the ensemble is exactly the state member `i` reaches when it is cloned and run ON ITS OWN on
`fit y fh0` followed by `memberOps … ops` (the same updates; predicts with the horizon the ensemble
remembers).  No member influences another, and nothing but these calls reaches a member. -/
theorem ensemble_members_independent (agg : Option Agg) (names : List String) (Fs : List Forecaster)
    (st0 : (ensemble agg names Fs).S) (y : Series) (fh0 : Option Horizon) (ops : List Op) (hnf : noFit ops)
    (st : (ensemble agg names Fs).S) (outs : List (Option Series)) (log : Log)
    (h : ((ensemble agg names Fs).run st0 (.fit y fh0 :: ops)).run = .ok ((st, outs), log)) :
    ∃ b ss, st = (b, some ss) ∧ ∀ i, i < Fs.length → ∃ oi li,
      ((member Fs i).run (member Fs i).init (.fit y fh0 :: memberOps (fitFh st0.1.fh fh0) ops)).run
        = .ok ((ss.get Fs i, oi), li) := by
  obtain ⟨⟨b1, st1⟩, o, l1, os, l2, hstep, hrun, rfl, rfl⟩ := (Forecaster.run_cons_eq_ok _).mp h
  obtain ⟨hf, rfl⟩ := (Forecaster.step_fit_eq_ok _).mp hstep
  obtain ⟨ss1, rfl, _, hfh, hget⟩ := Lem.ensemble_fit_members_fresh agg names Fs st0 y fh0 b1 st1 l1 hf
  obtain ⟨b', ss', rfl, hm⟩ := Lem.ensemble_run_members agg names Fs ops hnf b1 ss1 st os l2 hrun
  refine ⟨b', ss', rfl, ?_⟩
  intro i hi
  obtain ⟨l, hl⟩ := hget i hi
  obtain ⟨oi, li, hr⟩ := hm i hi
  rw [hfh] at hr
  exact ⟨none :: oi, l ++ li, (Forecaster.run_cons_eq_ok _).mpr
    ⟨_, none, l, oi, li, (Forecaster.step_fit_eq_ok _).mpr ⟨hl, rfl⟩, hr, rfl, rfl⟩⟩

/-- THE ENSEMBLE CLAUSE.  After `fit` and any fit-free history, a forecast of the ensemble is, row by
row, the chosen aggregate of the forecasts that the members — each cloned, fitted and updated on its
own with the same history — give for the remembered horizon. -/
theorem ensemble_eq_aggregate_of_members (agg : Option Agg) (names : List String) (Fs : List Forecaster)
    (st0 : (ensemble agg names Fs).S) (y : Series) (fh0 : Option Horizon) (ops : List Op) (hnf : noFit ops)
    (st : (ensemble agg names Fs).S) (outs : List (Option Series)) (log : Log)
    (h : ((ensemble agg names Fs).run st0 (.fit y fh0 :: ops)).run = .ok ((st, outs), log))
    (fh : Option Horizon) (st' : (ensemble agg names Fs).S) (out : Series) (log' : Log)
    (hp : ((ensemble agg names Fs).predict st fh).run = .ok ((st', out), log')) :
    ∃ a f ps, agg = some a ∧ ps.length = Fs.length ∧
      (∀ i, i < Fs.length → ∃ si oi li si' p li',
        ((member Fs i).run (member Fs i).init (.fit y fh0 :: memberOps (fitFh st0.1.fh fh0) ops)).run
          = .ok ((si, oi), li) ∧
        ((member Fs i).predict si (some f)).run = .ok ((si', p), li') ∧ ps[i]? = some p) ∧
      out = aggregate a ps ∧
      (∀ i, i < nRows ps → ∃ lab, (firstLabels ps)[i]? = some lab ∧
        out[i]? = some (lab, aggVals a (column ps i))) := by
  obtain ⟨b, ss, rfl, hm⟩ := ensemble_members_independent agg names Fs st0 y fh0 ops hnf st outs log h
  obtain ⟨b', st1⟩ := st'
  obtain ⟨a, f, ss', ps, ha, _, _, _, _, hlen, hget, hout, hrows⟩ :=
    Lem.ensemble_predict_eq_aggregate agg names Fs b ss fh b' st1 out log' hp
  refine ⟨a, f, ps, ha, hlen, ?_, hout, hrows⟩
  intro i hi
  obtain ⟨oi, li, hr⟩ := hm i hi
  obtain ⟨p, l, hp1, hp2⟩ := hget i hi
  exact ⟨_, oi, li, _, p, l, hr, hp2, hp1⟩

/-! ### OnlineEnsembleForecaster with a weighting algorithm -/

/-- THE ONLINE-ENSEMBLE CLAUSE, for every weighting algorithm `A` (any state, any update rule, weights
that need not sum to 1): a forecast is, row by row, Σᵢ weightᵢ · (member i's forecast) for the weights
the algorithm holds at that moment (`A.weights a`); the members forecast on their own, the algorithm's
state is not touched by `predict`.  (Holds for `update` as coded and as repaired.) -/
theorem online_predict_eq_weighted_sum (fixed : Bool) (A : Weigher) (names : List String) (Fs : List Forecaster)
    (b : Base) (ss : States Fs) (a : A.S) (fh : Option Horizon)
    (b' : Base) (st' : Option (States Fs) × A.S) (out : Series) (log : Log)
    (h : ((onlineEnsembleG fixed A names Fs).predict (b, some ss, a) fh).run = .ok (((b', st'), out), log)) :
    ∃ f ss' ps, effFh b.fh fh = some f ∧ st' = (some ss', a) ∧
      (predictAll Fs ss (some f)).run = .ok ((ss', ps), log) ∧
      (∀ i, i < Fs.length → ∃ p l, ps[i]? = some p ∧
        ((member Fs i).predict (ss.get Fs i) (some f)).run = .ok ((ss'.get Fs i, p), l)) ∧
      out = weighted (A.weights a) ps ∧
      (∀ i, i < nRows ps → ∃ lab, (firstLabels ps)[i]? = some lab ∧
        out[i]? = some (lab, wsumRow (A.weights a) (column ps i))) := by
  simp only [onlineEnsembleG] at h
  obtain ⟨_, _, h⟩ := lift_bind_eq_ok.mp h
  obtain ⟨b1, hb1, h⟩ := lift_bind_eq_ok.mp h
  obtain ⟨f, hf, h⟩ := lift_bind_eq_ok.mp h
  obtain ⟨⟨ss', ps⟩, l1, l2, h1, h2, rfl⟩ := bind_eq_ok.mp h
  obtain ⟨heq, rfl⟩ := pure_eq_ok.mp h2
  simp only [Prod.mk.injEq] at heq
  obtain ⟨⟨rfl, rfl⟩, rfl⟩ := heq
  obtain ⟨rfl, _⟩ := Base.setFhOpt_ok hb1
  have hfh := Base.getFh_ok hf
  simp only at hfh
  have h1' : (predictAll Fs ss (some f)).run = .ok ((ss', ps), l1 ++ []) := by simpa using h1
  obtain ⟨_, hget⟩ := predictAll_get Fs ss (some f) ss' ps _ h1'
  exact ⟨f, ss', ps, hfh, rfl, h1', hget, rfl, fun i hi => weighted_getElem _ ps i hi⟩

example : wsumRow [2, 1 / 2] [3, 4] = 8 := by decide +kernel

/-! ## 3. TransformedTargetForecaster -/

/-- `fit`, from any earlier state: every transformer is a fresh clone fitted in pipeline order on the
series transformed so far (`fitChain`), the fully transformed series `yt` is the raw series pushed
through the fitted `transform`s in pipeline order, and the final forecaster is a fresh clone fitted
on `yt` (with the horizon as given). -/
theorem pipeline_fit_eq_spec (fixed : Bool) (Ts : List Transformer) (F : Forecaster)
    (st0 : (pipelineG fixed Ts F).S) (y : Series) (fh : Option Horizon)
    (b : Base) (st : Option (TStates Ts × F.S)) (log : Log)
    (h : ((pipelineG fixed Ts F).fit st0 y fh).run = .ok ((b, st), log)) :
    ∃ ts s yt l1 l2 l3, st = some (ts, s) ∧ (fitChain Ts y).run = .ok ((ts, yt), l1) ∧
      (applyAll (transforms Ts ts) y).run = .ok (yt, l3) ∧
      (F.fit F.init yt fh).run = .ok (s, l2) ∧ log = l1 ++ l2 := by
  obtain ⟨ts, s, yt, l1, l2, rfl, h1, h2, rfl, _⟩ := Lem.pipeline_fit_ok fixed Ts F st0 y fh b st log h
  obtain ⟨l3, h3⟩ := Lem.fitChain_transformed Ts y ts yt l1 h1
  exact ⟨ts, s, yt, l1, l2, l3, rfl, h1, h3, h2, rfl⟩

/-- `predict`: the forecast is the final forecaster's forecast for the remembered horizon, pushed
through the inverse transforms of the transformers not tagged `skip-inverse-transform`, in REVERSE
pipeline order.  (Holds for the current and for the original `update`.) -/
theorem pipeline_predict_eq_spec (fixed : Bool) (Ts : List Transformer) (F : Forecaster)
    (b : Base) (ts : TStates Ts) (s : F.S) (fh : Option Horizon)
    (b' : Base) (st' : Option (TStates Ts × F.S)) (out : Series) (log : Log)
    (h : ((pipelineG fixed Ts F).predict (b, some (ts, s)) fh).run = .ok (((b', st'), out), log)) :
    ∃ f s' p l1 l2, effFh b.fh fh = some f ∧ st' = some (ts, s') ∧
      (F.predict s (some f)).run = .ok ((s', p), l1) ∧
      (applyAll (inverses Ts ts).reverse p).run = .ok (out, l2) ∧ log = l1 ++ l2 := by
  obtain ⟨f, s', p, l1, l2, hf, _, rfl, h1, h2, rfl⟩ := Lem.pipeline_predict_ok fixed Ts F b ts s fh b' st' out log h
  rw [Lem.inverseChain_eq_reverse] at h2
  exact ⟨f, s', p, l1, l2, hf, rfl, h1, h2, rfl⟩

/-- THE INVARIANT, full strength (`InnerSeesOnlyTransformed`, Spec/Compose.lean), for the pipeline as
coded in /repo (`pipeline = pipelineG true`; `update` transforms the batch step by step since commit
8cf3d7f): for ALL transformers, final forecasters, earlier states, series, and ALL fit-free histories
(updates and predicts in any order) after a `fit`, the final forecaster is a fresh clone that has been
through exactly the history the transformers alone make of the calls (`reprOps`): fitted on the fully
transformed series, then only ever updated with batches in that same transformed representation. -/
theorem pipeline_inner_sees_only_transformed : InnerSeesOnlyTransformed true := by
  intro Ts F st0 ts0 y fh0 ops hnf st outs log h
  obtain ⟨⟨b1, st1⟩, o, l1, os, l2, hstep, hrun, rfl, rfl⟩ := (Forecaster.run_cons_eq_ok _).mp h
  obtain ⟨hf, rfl⟩ := (Forecaster.step_fit_eq_ok _).mp hstep
  obtain ⟨ts1, s1, yt, la, lb, rfl, hc, hF, rfl, hfh⟩ := Lem.pipeline_fit_ok true Ts F st0 y fh0 b1 st1 l1 hf
  obtain ⟨b', ts', s', iops, lt, oi, li, rfl, hr, hi⟩ :=
    Lem.pipeline_run true Ts F ops hnf (Or.inl rfl) b1 ts1 s1 st os l2 hrun
  rw [hfh] at hr
  refine ⟨b', ts', s', .fit yt fh0 :: iops, la ++ lt, none :: oi, lb ++ li, rfl, ?_, ?_⟩
  · simp only [reprOps, fitFh]
    refine W.bind_eq_ok.mpr ⟨(ts1, yt), la, lt, hc, ?_, rfl⟩
    exact W.bind_eq_ok.mpr ⟨(ts', iops), lt, [], hr, rfl, by simp⟩
  · exact (Forecaster.run_cons_eq_ok _).mpr
      ⟨_, none, lb, oi, li, (Forecaster.step_fit_eq_ok _).mpr ⟨hF, rfl⟩, hi, rfl, rfl⟩

/-- the same, spelled out for `pipeline` -/
example (Ts : List Transformer) (F : Forecaster) (st0 : (pipeline Ts F).S) (ts0 : TStates Ts)
    (y : Series) (fh0 : Option Horizon) (ops : List Op) (hnf : noFit ops)
    (st : (pipeline Ts F).S) (outs : List (Option Series)) (log : Log)
    (h : ((pipeline Ts F).run st0 (.fit y fh0 :: ops)).run = .ok ((st, outs), log)) :
    ∃ b ts s iops lt oi li, st = (b, some (ts, s)) ∧
      (reprOps Ts ts0 st0.1.fh (.fit y fh0 :: ops)).run = .ok ((ts, iops), lt) ∧
      (F.run F.init iops).run = .ok ((s, oi), li) :=
  pipeline_inner_sees_only_transformed Ts F st0 ts0 y fh0 ops hnf st outs log h

/-! The ORIGINAL code (sktime 0.6.0 before /repo commit 8cf3d7f, `pipelineG false`): `update` handed the
raw batch to every transformer and to the final forecaster.  Kept as a record of the repaired defect. -/

/-- the calls the final forecaster of the ORIGINAL pipeline `[doubler]` around the spy has received after a run -/
def innerCalls (r : Except Err (((pipelineG false [doubler] spy).S × List (Option Series)) × Log)) : Option (List Op) :=
  match r with
  | .ok ((st, _), _) => st.2.map (fun x => x.2)
  | .error _ => none

def witnessOps : List Op := [.fit [(0, 1), (1, 2)] (some [1]), .update [(2, 3)] true]

/-- THE ORIGINAL CODE violated the invariant (negation at a concrete witness).  Original pipeline
[x ↦ 2x] around the spy, `fit` on (0,1),(1,2) then `update` with (2,3): the final forecaster is fitted
on (0,2),(1,4) and then updated with the RAW (2,3); the transformed representation of the batch is (2,6). -/
theorem original_update_violated_invariant : ¬ InnerSeesOnlyTransformed false := by
  intro H
  have hp : innerCalls ((pipelineG false [doubler] spy).run (pipelineG false [doubler] spy).init witnessOps).run
      = some [Op.fit [(0, 2), (1, 4)] (some [1]), Op.update [(2, 3)] true] := by decide +kernel
  have hq : ((reprOps [doubler] ((), ()) none witnessOps).run.toOption.map (fun r => r.1.2))
      = some [Op.fit [(0, 2), (1, 4)] (some [1]), Op.update [(2, 6)] true] := by decide +kernel
  cases hx : ((pipelineG false [doubler] spy).run (pipelineG false [doubler] spy).init witnessOps).run with
  | error e => rw [hx] at hp; simp [innerCalls] at hp
  | ok r =>
    obtain ⟨⟨st, outs⟩, log⟩ := r
    rw [hx] at hp
    obtain ⟨b, ts, s, iops, lt, oi, li, rfl, hr, hi⟩ :=
      H [doubler] spy (pipelineG false [doubler] spy).init ((), ()) [(0, 1), (1, 2)] (some [1]) [.update [(2, 3)] true]
        (by intro op hop; simp only [List.mem_singleton] at hop; subst hop; rfl) st outs log hx
    have hs1 : s = [Op.fit [(0, 2), (1, 4)] (some [1]), Op.update [(2, 3)] true] := by
      exact Option.some.inj (hp : some s = some _)
    have hr' : (reprOps [doubler] ((), ()) none witnessOps).run = .ok ((ts, iops), lt) := hr
    rw [hr'] at hq
    have hq1 : iops = [Op.fit [(0, 2), (1, 4)] (some [1]), Op.update [(2, 6)] true] := by
      simpa [Except.toOption] using hq
    have hs := Lem.spy_run_state iops [] s oi li hi
    rw [List.nil_append, hs1, hq1] at hs
    exact absurd hs (by decide)

example : noFit [Op.update [(2, 3)] true] ∧ noUpdate [Op.predict none, Op.predict (some [1, 2])] := by
  constructor
  · intro op hop; simp at hop; subst hop; rfl
  · intro op hop; simp at hop; rcases hop with rfl | rfl <;> rfl

/-! ## 4. MultiplexForecaster -/

/-- selection is BY NAME: the multiplexer is the wrapper `muxOn` around the first member whose name
equals `selected_forecaster` (names are unique once `_check_forecasters` has passed) -/
theorem multiplexer_selects_by_name (sel : Option String) (names : List String) (Fs : List Forecaster)
    (F : Forecaster) (h : select sel names Fs = some F) :
    mux sel names Fs = muxOn (checkMembers names Fs.length) F ∧
    ∃ (i : Nat) (n : String), names[i]? = some n ∧ sel = some n ∧ Fs[i]? = some F ∧
      ∀ (j : Nat), j < i → ∀ m, names[j]? = some m → sel ≠ some m := by
  refine ⟨by unfold mux; rw [h], Lem.select_spec sel names Fs F h⟩

/-- THE MULTIPLEXER CLAUSE (bisimulation with the selected member).  Whatever happened before, `fit`
followed by any fit-free history on the multiplexer succeeds only if the SAME history (predicts
carrying the remembered horizon explicitly, `memberOps`) succeeds on a fresh clone of the selected
member run on its own — with the same outputs, call by call, the same log, and the member's state
inside the multiplexer equal to the stand-alone member's state. -/
theorem multiplexer_bisim_selected (chk : Except Err Unit) (F : Forecaster)
    (st0 : (muxOn chk F).S) (y : Series) (fh0 : Option Horizon) (ops : List Op) (hnf : noFit ops)
    (st : (muxOn chk F).S) (outs : List (Option Series)) (log : Log)
    (h : ((muxOn chk F).run st0 (.fit y fh0 :: ops)).run = .ok ((st, outs), log)) :
    ∃ b s, st = (b, some s) ∧
      (F.run F.init (.fit y fh0 :: memberOps (fitFh st0.1.fh fh0) ops)).run = .ok ((s, outs), log) := by
  obtain ⟨⟨b1, st1⟩, o, l1, os, l2, hstep, hrun, rfl, rfl⟩ := (Forecaster.run_cons_eq_ok _).mp h
  obtain ⟨hf, rfl⟩ := (Forecaster.step_fit_eq_ok _).mp hstep
  obtain ⟨s1, rfl, hF, hfh, _⟩ := Lem.mux_fit_ok chk F st0 y fh0 b1 st1 l1 hf
  obtain ⟨b', s', rfl, hr⟩ := Lem.mux_run chk F ops hnf b1 s1 st os l2 hrun
  rw [hfh] at hr
  exact ⟨b', s', rfl, (Forecaster.run_cons_eq_ok _).mpr
    ⟨_, none, l1, os, l2, (Forecaster.step_fit_eq_ok _).mpr ⟨hF, rfl⟩, hr, rfl, rfl⟩⟩

/-- when every `predict` carries an explicit canonical horizon, the member receives the history verbatim -/
theorem multiplexer_passes_explicit_history_verbatim (ops : List Op) (cur : Option Horizon)
    (h : ∀ fh, Op.predict fh ∈ ops → ∃ f, fh = some f ∧ checkFh f = .ok f) : memberOps cur ops = ops :=
  Lem.memberOps_explicit ops cur h

example : select (some "b") ["a", "b"] [idle, spy] = some spy := by
  simp [select]

/-! ## 5. StackingForecaster -/

/- Full-strength statement of the stacking clause: `StackTrainsOnHoldoutOnly (fun _ _ => True)`
   (Spec/Compose.lean) — for EVERY horizon the hold-out window lies after the members' training
   window.  For the code as it is this is FALSE (`stack_insample_horizon_leaks`): a horizon with a
   step ≤ 0 makes the "hold-out" positions part of the training window.  Proved: the clause for all
   out-of-sample horizons that fit into the series; missing: horizons with non-positive steps. -/

/-- the stacking clause for every out-of-sample horizon: strictly increasing steps ≥ 1, largest ≤ n -/
theorem stack_meta_trained_on_holdout_only_partial : StackTrainsOnHoldoutOnly OutOfSample := by
  intro names Fs G st0 y fh b st log h f hf hP
  obtain ⟨f', train, test, yF, yM, ss, ss', ps, g, ss2, l1, l2, l3, l4, hf', _, hsp, hyF, hyM, h1, h2, h3, _, rfl, _⟩ :=
    Lem.stack_fit_ok names Fs G st0 y fh b st log h
  rw [hf'] at hf; cases hf
  rw [Lem.holdoutSplit_outOfSample y.length f hP] at hsp
  simp only [Except.ok.injEq, Prod.mk.injEq] at hsp
  obtain ⟨rfl, rfl⟩ := hsp
  obtain ⟨ha, hb, hc⟩ := Lem.holdout_window_after_train y.length f hP
  exact ⟨_, _, yF, yM, ss, ss', ps, g, l1, l2, l3, ss2, Lem.holdoutSplit_outOfSample y.length f hP, hyF, hyM, h1, h2, h3, rfl,
    ha, hb, hc⟩

/-- what `y.iloc[train]` is: as many observations as positions, the i-th one being `y` at the i-th position -/
theorem stack_training_window_is_prefix (y : Series) (m : Int) (yF : Series)
    (h : iloc y (arange 0 m) = .ok yF) :
    yF.length = m.toNat ∧ ∀ i, i < m.toNat → yF[i]? = y[i]? := by
  obtain ⟨hlen, hget⟩ := Lem.iloc_spec y _ yF h
  rw [SkVerif.Lem.arange_length] at hlen
  refine ⟨by simpa using hlen, ?_⟩
  intro i hi
  obtain ⟨p, hp, _, _, hr⟩ := hget i (by rw [SkVerif.Lem.arange_length]; simpa using hi)
  rw [SkVerif.Lem.arange_eq] at hp
  simp only [Int.sub_zero, List.getElem?_map, List.getElem?_range hi, Option.map_some, Option.some.injEq] at hp
  rw [hr, ← hp]
  simp

/-- members are refitted on ALL data: after a successful `fit y fh` (any horizon) the members kept by
the stacking forecaster are fresh clones fitted on the whole `y` with the remembered horizon -/
theorem stack_members_refit_on_all (names : List String) (Fs : List Forecaster) (G : Regressor)
    (st0 : (stacking names Fs G).S) (y : Series) (fh : Option Horizon)
    (b : Base) (st : Option (States Fs × G.S)) (log : Log)
    (h : ((stacking names Fs G).fit st0 y fh).run = .ok ((b, st), log)) :
    ∃ f ss2 g l, b.fh = some f ∧ st = some (ss2, g) ∧ (fitAll Fs y (some f)).run = .ok (ss2, l) ∧
      ∀ i, i < Fs.length →
        ∃ li, ((member Fs i).fit (member Fs i).init y (some f)).run = .ok (ss2.get Fs i, li) := by
  obtain ⟨f, train, test, yF, yM, ss, ss', ps, g, ss2, l1, l2, l3, l4, hf, _, _, _, _, _, _, _, h4, rfl, _⟩ :=
    Lem.stack_fit_ok names Fs G st0 y fh b st log h
  exact ⟨f, ss2, g, l4, hf, rfl, h4, fitAll_get Fs y (some f) ss2 l4 h4⟩

/-- `predict`: the meta-regressor (unchanged since `fit`) applied to the rows of the members' current
forecasts, labelled cutoff + horizon -/
theorem stack_predict_eq_regressor_of_members (names : List String) (Fs : List Forecaster) (G : Regressor)
    (b : Base) (ss : States Fs) (g : G.S) (fh : Option Horizon)
    (b' : Base) (st' : Option (States Fs × G.S)) (out : Series) (log : Log)
    (h : ((stacking names Fs G).predict (b, some (ss, g)) fh).run = .ok (((b', st'), out), log)) :
    ∃ f ss' ps v l1 l2, b'.fh = some f ∧ st' = some (ss', g) ∧
      (predictAll Fs ss none).run = .ok ((ss', ps), l1) ∧
      (G.predict g (rowsOf (nRows ps) ps)).run = .ok (v, l2) ∧
      out = (predIndex b.cutoff f).zip v ∧ log = l1 ++ l2 := by
  obtain ⟨f, ss', ps, v, l1, l2, hf, _, rfl, h1, h2, rfl, rfl⟩ :=
    Lem.stack_predict_ok names Fs G b ss g fh b' st' out log h
  exact ⟨f, ss', ps, v, l1, l2, hf, rfl, h1, h2, rfl, rfl⟩

/-- NEGATION at a concrete witness: with the horizon [0] on a series of two observations the
"hold-out" position 1 is inside the training window {0, 1}: the members see the window. -/
theorem stack_insample_horizon_leaks : ¬ StackTrainsOnHoldoutOnly (fun _ _ => True) := by
  intro H
  have hb : (((stacking ["a"] [spy] nullReg).fit (stacking ["a"] [spy] nullReg).init [(0, 1), (1, 2)] (some [0])).run.toOption.map
      (fun r => r.1.1.fh)) = some (some [0]) := by decide +kernel
  cases hx : ((stacking ["a"] [spy] nullReg).fit (stacking ["a"] [spy] nullReg).init [(0, 1), (1, 2)] (some [0])).run with
  | error e => rw [hx] at hb; simp [Except.toOption] at hb
  | ok r =>
    obtain ⟨⟨b, st⟩, log⟩ := r
    rw [hx] at hb
    simp only [Except.toOption, Option.map_some, Option.some.injEq] at hb
    obtain ⟨train, test, yF, yM, ss, ss', ps, g, l1, l2, l3, ss2, hsp, _, _, _, _, _, _, hlt, _, _⟩ :=
      H ["a"] [spy] nullReg _ _ _ b st log hx [0] hb trivial
    have hd : holdoutSplit 2 [0] = .ok ([0, 1], [1]) := by decide +kernel
    have : holdoutSplit ([((0 : Int), (1 : Rat)), (1, 2)] : Series).length [0] = .ok (train, test) := hsp
    rw [show ([((0 : Int), (1 : Rat)), (1, 2)] : Series).length = 2 from rfl, hd] at this
    simp only [Except.ok.injEq, Prod.mk.injEq] at this
    obtain ⟨rfl, rfl⟩ := this
    exact absurd (hlt 1 (by simp) 1 (by simp)) (by omega)

example : OutOfSample [1, 3] 6 := by
  refine ⟨by simp, by simp, by intro h hh; simp at hh; omega, by decide⟩

/-! ## 6. Every public apply entry point is a history of primitive calls

`predict`, `update` then `predict`, `update_predict_single` (= `upsOps`) and `update_predict` with any
splitter (= `upmOps`: move the cutoff before the new data, update-then-predict per window, put the
cutoff back) are histories over `update / predict / setCutoff`.  They contain no `fit`, so the
history theorems above (`ensemble_members_independent`, `ensemble_eq_aggregate_of_members`,
`pipeline_inner_sees_only_transformed`, `multiplexer_bisim_selected`) hold on each of these paths,
and a member receives exactly ITS OWN `update_predict` / `update_predict_single` history. -/

/-- the combined entry points are fit-free histories -/
theorem combined_entry_points_are_fit_free (orig : Option Int) (y : Series) (windows : List Series)
    (fh : Horizon) (up : Bool) (fh' : Option Horizon) :
    noFit (upsOps y up fh') ∧ noFit (upmOps orig y windows fh up) := by
  constructor
  · intro op hop
    simp only [upsOps, List.mem_cons, List.mem_nil_iff, or_false] at hop
    rcases hop with rfl | rfl <;> rfl
  · intro op hop
    simp only [upmOps, List.mem_cons, List.mem_append, List.mem_flatMap, List.mem_nil_iff, or_false] at hop
    rcases hop with rfl | ⟨w, _, rfl | rfl⟩ | rfl <;> rfl

/-- moving the cutoff of an ensemble / stacking forecaster moves the cutoff of every fitted member
(and nothing else reaches a member) -/
theorem ensemble_setCutoff_members (agg : Option Agg) (names : List String) (Fs : List Forecaster)
    (b : Base) (ss : States Fs) (c : Option Int) :
    ∃ ss', (ensemble agg names Fs).setCutoff (b, some ss) c = ({ b with cutoff := c }, some ss') ∧
      ∀ i, ss'.get Fs i = (member Fs i).setCutoff (ss.get Fs i) c :=
  ⟨setCutoffAll Fs ss c, rfl, fun i => setCutoffAll_get Fs ss c i⟩

/-- what a member of an ensemble / the selected member of a multiplexer receives when the composite
runs `update_predict` with a canonical horizon: exactly the member's own `update_predict` history -/
theorem member_receives_its_own_update_predict (cur : Option Horizon) (orig : Option Int) (y : Series)
    (windows : List Series) (fh : Horizon) (up : Bool) (hfh : checkFh fh = .ok fh) :
    memberOps cur (upmOps orig y windows fh up) = upmOps orig y windows fh up := by
  apply Lem.memberOps_explicit
  intro g hg
  simp only [upmOps, List.mem_cons, List.mem_append, List.mem_flatMap, List.mem_nil_iff, or_false,
    reduceCtorEq, false_or] at hg
  rcases hg with ⟨w, _, h⟩
  simp only [Op.predict.injEq] at h
  exact ⟨fh, h, hfh⟩

/-- e.g. the ensemble clause on the `update_predict` path: after `fit` and `update_predict`, every
member is where it gets by `fit` and ITS OWN `update_predict`, run alone -/
example (agg : Option Agg) (names : List String) (Fs : List Forecaster) (y0 : Series) (f : Horizon)
    (hf : checkFh f = .ok f) (orig : Option Int) (y : Series) (ws : List Series) (up : Bool) (st outs log)
    (h : ((ensemble agg names Fs).run (ensemble agg names Fs).init (.fit y0 (some f) :: upmOps orig y ws f up)).run
      = .ok ((st, outs), log)) :
    ∃ b ss, st = (b, some ss) ∧ ∀ i, i < Fs.length → ∃ oi li,
      ((member Fs i).run (member Fs i).init (.fit y0 (some f) :: upmOps orig y ws f up)).run
        = .ok ((ss.get Fs i, oi), li) := by
  have := ensemble_members_independent agg names Fs _ y0 (some f) _
    (combined_entry_points_are_fit_free orig y ws f up none).2 st outs log h
  rwa [member_receives_its_own_update_predict _ orig y ws f up hf] at this

/-! ## 7. Nesting: members are machines and composites are machines -/

/-- every composite is again a forecaster machine, so all theorems above apply with composites as
members, to any depth: e.g. the ensemble clause for an ensemble of (a pipeline around a multiplexer)
and (a stacking forecaster of a pipeline and a leaf) -/
example (T : Transformer) (A B C : Forecaster) (G : Regressor) (y : Series) (ops : List Op) (hnf : noFit ops)
    (st outs log) :=
  ensemble_members_independent (some .median) ["p", "s"]
    [pipeline [T] (mux (some "b") ["a", "b"] [A, B]), stacking ["x", "y"] [pipeline [T] C, A] G]
    (ensemble _ _ _).init y (some [1, 2]) ops hnf st outs log

end SkVerif.C09
