/- Property theorems for C16 (stub: not built yet). -/
namespace SkVerif.C16
end SkVerif.C16
