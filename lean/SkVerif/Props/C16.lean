/-
C16  Fitted panel estimators treat instances independently and ignore the container.

"Once fitted, a panel transformer, classifier or regressor maps each instance on its own:
reordering the instances of the input reorders the rows of the output identically, the output for a
single instance equals the corresponding row of the batch output, and the number and order of
output rows equal those of the input.  Passing the same data as a nested DataFrame or as a 3D array,
at fit or at apply time, gives the same result."

The theorems are about the generic shapes of SkVerif/Model/C16RowWise.lean and are universally
quantified over the per-instance function `f`, the members, the aggregate, the selection `idx`
(permutations, sub-selections, single instances, repeats) and the panel.  PARTIAL (DESIGN §5 C16):
that a *particular* fitted member (an sklearn tree, a BOSS nearest-neighbour histogram, PCA's matrix
product) is of the form `map f` is not proved here; it is observed by the correspondence
(harness/corr/C16.py) on the real code and classified statically from the source.
Only theorems + non-vacuity examples here; helper lemmas live in SkVerif/Lemmas/C16*.lean.
-/
import SkVerif.Lemmas.C16Container
namespace SkVerif.C16
open SkVerif

variable {α β γ : Type}

/-! ## The row loops of the code are `map` -/

/-- `out = []; for x in X: out.append(f(x))` is `[f(x) for x in X]` -/
theorem loopAppend_eq_map (f : α → β) (X : List α) : loopAppend f X = X.map f := Lem.loopAppend_eq f X

/-- `for i in range(n): out[i] = f(X[i])` is `[f(x) for x in X]` -/
theorem loopIndex_eq_map (f : α → β) (X : List α) : loopIndex f X = X.map f := Lem.loopIndex_eq f X

example : loopAppend (· + 1) [3, 1, 2] = [4, 2, 3] ∧ loopIndex (· + 1) [3, 1, 2] = [4, 2, 3] := by decide

/-! ## Equivariance under selection of instances -/

/-- Reordering (or sub-selecting, or repeating) the instances reorders the output rows identically:
for every per-instance function, every index list and every panel. -/
theorem perm_equivariant (f : α → β) (idx : List Nat) (X : List α) :
    (select idx X).map f = select idx (X.map f) := (Lem.select_map f idx X).symm

/-- selecting by a permutation of the positions really is a reordering of the panel -/
theorem select_perm_is_reordering (idx : List Nat) (X : List α) (h : IsPermOf idx X.length) :
    (select idx X).Perm X := by
  have := Lem.select_perm_congr h X
  rwa [Lem.select_range] at this

example : select [2, 0, 1] ["a", "b", "c"] = ["c", "a", "b"] ∧ IsPermOf [2, 0, 1] 3 := by
  refine ⟨by decide, ?_⟩
  unfold IsPermOf; decide

/-- a sub-selection with valid positions has one output row per selected position, in that order -/
theorem subselect_rows (f : α → β) (idx : List Nat) (X : List α) (h : ∀ i ∈ idx, i < X.length) (k : Nat) :
    ((select idx X).map f).length = idx.length ∧
    ((select idx X).map f)[k]? = (idx[k]?).bind (fun i => (X[i]?).map f) := by
  refine ⟨by rw [List.length_map]; exact Lem.select_length_of_valid idx X h, ?_⟩
  rw [List.getElem?_map, Lem.select_getElem? idx X h]
  cases idx[k]? <;> rfl

example : ((select [3, 1] [10, 20, 30, 40]).map (· * 2)) = [80, 40] := by decide

/-- The output for a single instance is the corresponding row of the batch output. -/
theorem single_eq_row_of_batch (f : α → β) (X : List α) (i : Nat) (h : i < X.length) :
    [X[i]].map f = [(X.map f)[i]'(by rw [List.length_map]; exact h)] := by
  simp

/-- the same, through `select [i]` -/
theorem single_select_eq_row (f : α → β) (X : List α) (i : Nat) (h : i < X.length) :
    (select [i] X).map f = [f X[i]] ∧ select [i] (X.map f) = [f X[i]] := by
  rw [← perm_equivariant, Lem.select_single X i h]
  exact ⟨rfl, rfl⟩

example : (select [1] [5, 6, 7]).map (· + 10) = [16] := by decide

/-- The number and order of output rows equal those of the input. -/
theorem row_count_and_order (f : α → β) (X : List α) :
    (X.map f).length = X.length ∧ ∀ i (h : i < X.length), (X.map f)[i]'(by rw [List.length_map]; exact h) = f X[i] := by
  refine ⟨List.length_map .., ?_⟩
  intro i h; simp

/-! ## Row loops that may raise, and batch guards -/

/-- when the batch goes through, every selection goes through and its output is the selection of the
batch output -/
theorem raising_rows_select {ε : Type} (f : α → Except ε β) (X : List α) (Y : List β)
    (h : mapRowsE f X = .ok Y) (idx : List Nat) : mapRowsE f (select idx X) = .ok (select idx Y) :=
  Lem.mapM_select f X Y h idx

/-- when the batch is rejected, one of its instances is rejected on its own with the same error -/
theorem raising_rows_culprit {ε : Type} (f : α → Except ε β) (X : List α) (e : ε)
    (h : mapRowsE f X = .error e) : ∃ x ∈ X, f x = .error e := Lem.mapM_error_culprit f X e h

example : mapRowsE (fun n : Nat => if n = 0 then Except.error Err.value else .ok (10 / n)) [5, 2] = .ok [2, 5] := rfl

/-- PaddingTransformer's guard compares the longest series *of the batch* with the fitted length;
it is nevertheless a per-instance condition, so an accepted batch stays accepted under selection
and the outputs correspond -/
theorem guardMax_select (len : α → Nat) (bound : Nat) (f : α → β) (X : List α) (Y : List β)
    (h : guardMaxThenMap len bound f X = .ok Y) (idx : List Nat) :
    guardMaxThenMap len bound f (select idx X) = .ok (select idx Y) := by
  obtain ⟨h1, rfl⟩ := (Lem.guardMax_ok_iff len bound f X Y).mp h
  exact (Lem.guardMax_ok_iff len bound f _ _).mpr
    ⟨fun x hx => h1 x (Lem.select_mem idx X x hx), Lem.select_map f idx X⟩

/-- TruncationTransformer's guard (shortest series of the batch against the fitted bound); the
selection must be non-empty, as `check_X` demands anyway -/
theorem guardMin_select (len : α → Nat) (bound : Nat) (f : α → β) (X : List α) (Y : List β)
    (hX : X ≠ []) (h : guardMinThenMap len bound f X = .ok Y) (idx : List Nat) (hne : select idx X ≠ []) :
    guardMinThenMap len bound f (select idx X) = .ok (select idx Y) := by
  obtain ⟨h1, rfl⟩ := (Lem.guardMin_ok_iff len bound f X Y hX).mp h
  exact (Lem.guardMin_ok_iff len bound f _ _ hne).mpr
    ⟨fun x hx => h1 x (Lem.select_mem idx X x hx), Lem.select_map f idx X⟩

example : guardMaxThenMap List.length 3 (fun s : List Nat => s ++ List.replicate (3 - s.length) 0) [[1], [1, 2, 3]]
    = .ok [[1, 0, 0], [1, 2, 3]] := rfl
example : guardMinThenMap List.length 2 (fun s : List Nat => s.take 2) [[1, 5, 6], [1, 2]] = .ok [[1, 5], [1, 2]] := rfl

/-! ## Row-wise maps: characterisation and closure -/

/-- A batch function is row-wise exactly when it keeps the row count and the row it returns for
instance `i` of any batch is what it returns for that instance alone: the two metamorphic
observables of the correspondence are *equivalent* to instance independence. -/
theorem rowwise_iff_single_eq_row (F : List α → List β) :
    IsRowWise F ↔ (∀ X, (F X).length = X.length) ∧
      (∀ X i, i < X.length → (F X)[i]? = (X[i]?).bind (fun x => (F [x])[0]?)) := by
  constructor
  · rintro ⟨f, hf⟩
    refine ⟨fun X => by rw [hf, List.length_map], fun X i hi => ?_⟩
    rw [hf, List.getElem?_map, List.getElem?_eq_getElem hi]
    simp [hf]
  · rintro ⟨h1, h2⟩
    exact Lem.isRowWise_of_single F h1 h2

/-- a row-wise map commutes with every selection of instances -/
theorem rowwise_select_equivariant (F : List α → List β) (h : IsRowWise F) (idx : List Nat) (X : List α) :
    F (select idx X) = select idx (F X) := by
  obtain ⟨f, hf⟩ := h
  rw [hf, hf, perm_equivariant]

/-- Ensembles as the code builds them (every member maps the whole batch, the stacked outputs are
combined along the member axis) compute, for every instance, the aggregate of the members' outputs
for that instance. -/
theorem ensemble_eq_rowwise_aggregate (fs : List (α → β)) (agg : List β → γ) (X : List α) :
    ensembleBatch (fs.map (fun f => List.map f)) agg X = X.map (fun x => agg (fs.map (fun f => f x))) :=
  Lem.ensembleBatch_eq fs agg X

/-- Aggregating row-wise members is row-wise, for every aggregate and every list of members. -/
theorem aggregate_rowwise_of_members_rowwise (members : List (List α → List β)) (agg : List β → γ)
    (h : ∀ m ∈ members, IsRowWise m) : IsRowWise (ensembleBatch members agg) := by
  obtain ⟨fs, rfl⟩ := Lem.members_rowwise members h
  exact ⟨fun x => agg (fs.map (fun f => f x)), fun X => Lem.ensembleBatch_eq fs agg X⟩

example : ensembleBatch [List.map (· + 1), List.map (· * 2)] List.sum [1, 2, 3] = [4, 7, 10] := by decide

/-- the accumulation loop over members (`sums[i, cls(preds[i])] += w[n]`, BOSS / cBOSS / TDE /
ROCKET) computes, per instance, the fold of that instance's member outputs -/
theorem accumulate_eq_rowwise_fold (fs : List (α → β)) (upd : Nat → γ → β → γ) (init : γ) (X : List α) :
    accumBatch (fs.map (fun f => List.map f)) upd init X = X.map (accumOne fs upd init) :=
  Lem.accumBatch_eq fs upd init X

/-- … hence it is row-wise whenever the members are -/
theorem accumulate_rowwise_of_members_rowwise (members : List (List α → List β)) (upd : Nat → γ → β → γ)
    (init : γ) (h : ∀ m ∈ members, IsRowWise m) : IsRowWise (accumBatch members upd init) := by
  obtain ⟨fs, rfl⟩ := Lem.members_rowwise members h
  exact ⟨accumOne fs upd init, fun X => Lem.accumBatch_eq fs upd init X⟩

example : accumBatch [List.map (· + 1), List.map (· * 2)] (fun n s p => s + (n + 1) * p) 0 [1, 2] = [6, 11] := by decide

/-- composition of row-wise maps is row-wise -/
theorem compose_rowwise {δ : Type} (F : List α → List β) (G : List β → List δ) (hF : IsRowWise F) (hG : IsRowWise G) :
    IsRowWise (fun X => G (F X)) := Lem.isRowWise_comp F G hF hG

/-- a pipeline of row-wise steps followed by a row-wise final estimator is row-wise -/
theorem pipeline_rowwise (steps : List (List α → List α)) (final : List α → List β)
    (hs : ∀ t ∈ steps, IsRowWise t) (hf : IsRowWise final) : IsRowWise (pipeline steps final) :=
  Lem.isRowWise_comp _ final (Lem.isRowWise_foldl steps hs) hf

example : pipeline [List.map (· + 1), List.map (· * 2)] (List.map (fun n : Nat => n % 3)) [1, 2, 3] = [1, 0, 2] := by decide

/-! ## Container invariance -/

/-- `check_X` only validates and re-tags: what it returns holds the caller's instances -/
theorem checkX_keeps_instances (cfg : CheckCfg) (X X' : XIn) (h : checkX cfg X = .ok X') :
    X'.instances = X.instances := Lem.checkX_instances cfg X X' h

/-- the same data as a nested DataFrame or as a 3-D array is accepted or rejected alike, and is
turned into the same instances, whatever coercion the estimator asks for -/
theorem checkX_container_irrelevant (cfg : CheckCfg) (rows : List Inst) (hr : rectangular rows = true) :
    (checkX cfg (.nested rows)).map XIn.instances = (checkX cfg (.arr3 rows)).map XIn.instances :=
  Lem.checkX_nested_arr3 cfg rows hr

/-- Container invariance at apply time: nested DataFrame and 3-D array of the same data give the
same output (or the same rejection). -/
theorem container_invariant (cfg : CheckCfg) (f : Inst → β) (rows : List Inst) (hr : rectangular rows = true) :
    applyFitted cfg f (.nested rows) = applyFitted cfg f (.arr3 rows) := by
  unfold applyFitted
  have h := checkX_container_irrelevant cfg rows hr
  cases h1 : checkX cfg (.nested rows) with
  | error e1 =>
    cases h2 : checkX cfg (.arr3 rows) with
    | error e2 => rw [h1, h2] at h; simp only [Except.map, Except.error.injEq] at h; rw [h]
    | ok b => rw [h1, h2] at h; simp [Except.map] at h
  | ok a =>
    cases h2 : checkX cfg (.arr3 rows) with
    | error e2 => rw [h1, h2] at h; simp [Except.map] at h
    | ok b => rw [h1, h2] at h; simp only [Except.map, Except.ok.injEq] at h ⊢; rw [h]

/-- Container invariance at fit time: whatever is learned is learned from the same instances. -/
theorem container_invariant_fit {υ : Type} (cfgFit cfgApply : CheckCfg) (learn : List Inst → υ → (Inst → β))
    (rows : List Inst) (y : υ) (hr : rectangular rows = true) (X : XIn) :
    fitThenApply cfgFit cfgApply learn (.nested rows) y X = fitThenApply cfgFit cfgApply learn (.arr3 rows) y X := by
  unfold fitThenApply
  have h := checkX_container_irrelevant cfgFit rows hr
  cases h1 : checkX cfgFit (.nested rows) with
  | error e1 =>
    cases h2 : checkX cfgFit (.arr3 rows) with
    | error e2 => rw [h1, h2] at h; simp only [Except.map, Except.error.injEq] at h; rw [h]
    | ok b => rw [h1, h2] at h; simp [Except.map] at h
  | ok a =>
    cases h2 : checkX cfgFit (.arr3 rows) with
    | error e2 => rw [h1, h2] at h; simp [Except.map] at h
    | ok b =>
      rw [h1, h2] at h; simp only [Except.map, Except.ok.injEq] at h
      show applyFitted cfgApply (learn a.instances y) X = applyFitted cfgApply (learn b.instances y) X
      rw [h]

example : rectangular [[[1, 2], [3, 4]], [[5, 6], [7, 8]]] = true ∧
    applyFitted {toNumpy := true} (fun i => i.length) (.nested [[[1, 2], [3, 4]], [[5, 6], [7, 8]]]) = .ok [2, 2] :=
  ⟨by decide, rfl⟩

/-- whenever a fitted estimator accepts both the batch and a selection of its instances, the output
for the selection is the selection of the batch output (both containers, every coercion) -/
theorem applyFitted_select (cfg : CheckCfg) (f : Inst → β) (X : XIn) (idx : List Nat) (Y Y' : List β)
    (h : applyFitted cfg f X = .ok Y) (h' : applyFitted cfg f (X.select idx) = .ok Y') : Y' = select idx Y := by
  unfold applyFitted at h h'
  cases h1 : checkX cfg X with
  | error e => rw [h1] at h; cases h
  | ok X1 =>
    cases h2 : checkX cfg (X.select idx) with
    | error e => rw [h2] at h'; cases h'
    | ok X2 =>
      rw [h1] at h; rw [h2] at h'
      simp only [Except.map] at h h'
      cases h; cases h'
      rw [checkX_keeps_instances cfg _ _ h1, checkX_keeps_instances cfg _ _ h2, Lem.select_instances,
        perm_equivariant]

/-- a non-empty selection (with at least `minInstances` rows) of an accepted batch is accepted -/
theorem checkX_accepts_subbatch (cfg : CheckCfg) (rows : List Inst) (idx : List Nat) (X' : XIn) (asArr : Bool)
    (h : checkX cfg (if asArr then .arr3 rows else .nested rows) = .ok X')
    (hu : ∀ r ∈ rows, r.length = nColumns rows)
    (hn : cfg.minInstances ≤ (select idx rows).length) (hne : select idx rows ≠ []) :
    ∃ X'', checkX cfg (if asArr then .arr3 (select idx rows) else .nested (select idx rows)) = .ok X'' :=
  Lem.checkX_select_ok cfg rows idx X' asArr h hu hn hne

/-- the empty selection is rejected (`enforce_min_instances=1`) -/
theorem checkX_rejects_empty (cfg : CheckCfg) (hm : 1 ≤ cfg.minInstances) :
    checkX cfg (.nested []) = .error .value ∧ checkX cfg (.arr3 []) = .error .value := by
  unfold checkX
  have h3 : cfg.minInstances ≠ 0 := by omega
  have h2 : ¬ (nColumns ([] : List Inst) > 1) := by simp [nColumns]
  cases (cfg.toPandas && cfg.toNumpy) <;> by_cases h1 : nColumns ([] : List Inst) < cfg.minColumns <;>
    simp [h1, h2, h3]

/-! ## Static shapes -/

/-- every shape the static classifier calls row-wise denotes a row-wise map, whatever the leaves
stand for -/
theorem classified_rowwise_sound {V : Type} (env : Env V) (s : Shape) (h : s.rowWise = true) :
    IsRowWise (s.denote env) := Lem.shape_sound env s h

example : (Shape.comp (.guarded (.rows 0)) (.agg 0 (.rows 1) (.rows 2))).rowWise = true := by decide

def witnessEnv : Env Nat :=
  { f := fun _ x => x, g := fun _ a b => a + b, st := fun _ X x => x + X.sum, key := fun _ x => x, h := fun _ X => X.reverse }

/-- a statistic over the whole batch inside `transform` is not row-wise: a single instance does not
give the batch row -/
theorem stat_not_rowwise_witness :
    (Shape.stat 0).denote witnessEnv (select [1] [1, 2]) ≠ select [1] ((Shape.stat 0).denote witnessEnv [1, 2]) := by
  decide

/-- sorting the instances internally is not permutation-equivariant -/
theorem sortInst_not_rowwise_witness :
    (Shape.sortInst 0).denote witnessEnv (select [1, 0] [1, 2]) ≠ select [1, 0] ((Shape.sortInst 0).denote witnessEnv [1, 2]) := by
  decide

/-- an output rebuilt from a dict keyed by instance values loses repeated instances -/
theorem dictByValue_not_rowwise_witness :
    ((Shape.dictByValue 0).denote witnessEnv [7, 7]).length ≠ [7, 7].length := by
  decide

/-- … so none of them is a row-wise map -/
theorem flagged_shapes_not_rowwise :
    ¬ IsRowWise ((Shape.stat 0).denote witnessEnv) ∧ ¬ IsRowWise ((Shape.sortInst 0).denote witnessEnv) ∧
    ¬ IsRowWise ((Shape.dictByValue 0).denote witnessEnv) := by
  refine ⟨fun h => stat_not_rowwise_witness (rowwise_select_equivariant _ h _ _),
          fun h => sortInst_not_rowwise_witness (rowwise_select_equivariant _ h _ _), ?_⟩
  rintro ⟨f, hf⟩
  exact dictByValue_not_rowwise_witness (by rw [hf]; simp)

end SkVerif.C16

namespace SkVerif.C16

/-! ## Label prediction with a random tie-break (known finding) -/

/- FULL STATEMENT (what the property asks of `predict`; NOT provable for the code as it is):
     ∀ draws P idx, predictTie draws (select idx P) = select idx (predictTie draws P)
   BOSSEnsemble / ContractableBOSS / TemporalDictionaryEnsemble (and CIF, DrCIF, ROCKETClassifier,
   HIVECOTEV1) `predict` draw the label of an instance whose class probabilities are tied from ONE random
   stream consumed instance after instance, so that label depends on the POSITION of the instance in the
   batch.  Proved below: the statement under the excluding hypothesis "no row is tied", and its
   negation at a concrete witness. -/

/-- without ties the random stream is irrelevant: `predict` is the first-maximum rule, row by row -/
theorem predict_tie_rowwise_partial (draws : Nat → Nat) (P : List (List Rat))
    (h : ∀ p ∈ P, (argmaxSet p).length = 1) : predictTie draws P = predictFirstMax P :=
  Lem.predictTie_aux draws P 0 h

/-- … and therefore commutes with every selection of instances -/
theorem predict_tie_select_partial (draws : Nat → Nat) (P : List (List Rat)) (idx : List Nat)
    (h : ∀ p ∈ P, (argmaxSet p).length = 1) :
    predictTie draws (select idx P) = select idx (predictTie draws P) := by
  rw [predict_tie_rowwise_partial draws P h,
    predict_tie_rowwise_partial draws _ (fun p hp => h p (Lem.select_mem idx P p hp))]
  exact perm_equivariant _ idx P

example : ∀ p ∈ [[(1 : Rat), 3], [1, 0]], (argmaxSet p).length = 1 := by decide

/-- the first-maximum rule (TSF, RISE, STSF, column ensembles) is row-wise outright -/
theorem predict_first_max_rowwise : IsRowWise predictFirstMax := ⟨fun p => (argmaxSet p).headD 0, fun _ => rfl⟩

/-- NEGATION of the full statement at a witness: with a tied instance, swapping two instances does not
swap the predicted labels -/
theorem predict_tie_not_equivariant_witness :
    predictTie (fun i => i) (select [1, 0] [[(1 : Rat), 1], [2, 0]])
      ≠ select [1, 0] (predictTie (fun i => i) [[(1 : Rat), 1], [2, 0]]) := by
  decide

end SkVerif.C16

namespace SkVerif.C16

/-! ## Feature unions and the input container (repaired by /repo bec276b) -/

/-- Container invariance of a feature union, full strength: `FeatureUnion._hstack` now turns every member
output into a DataFrame before concatenating, so a union accepts its members' outputs whatever they
are, for both containers. -/
theorem union_container_invariant (members : List MemberOut) :
    unionAccepts members true = unionAccepts members false := by
  unfold unionAccepts
  rw [Lem.unionHstack_ok, Lem.unionHstack_ok]

/-- … in fact stacking never rejects -/
theorem union_accepts_always (members : List MemberOut) (asArr : Bool) : unionAccepts members asArr = .ok () :=
  Lem.unionHstack_ok _

example : unionAccepts [.alwaysFrame, .followsInput] true = .ok () := rfl

/-- About the ORIGINAL code (before bec276b, kept as the record of the finding): a row transformer next to
a Tabularizer accepted the nested frame and rejected the 3-D array of the same data -/
theorem original_union_container_witness :
    unionAcceptsOriginal [.alwaysFrame, .followsInput] false = .ok () ∧
    unionAcceptsOriginal [.alwaysFrame, .followsInput] true = .error .type := by
  constructor <;> rfl

/-! ## Feature unions stack member outputs by position (repaired by /repo bec276b) -/

/-- Instance independence of a feature union of row-wise members, full strength: whatever index labels X
carries, the union is the row-by-row pairing of the member outputs (`_hstack` re-labels every member
output 0..n-1 before `pd.concat`, which matches rows by label). -/
theorem union_rowwise {α β : Type} (fa fb : α → β) (labels : List Int) (X : List α)
    (hl : labels.length = X.length) :
    unionFreshKept fa fb labels X = .ok (X.map (fun x => (some (fa x), some (fb x)))) := by
  unfold unionFreshKept resetIndex freshLabels
  rw [Lem.freshFrom_map_snd, Lem.zip_map_snd labels (X.map fb) (by rw [List.length_map]; exact hl)]
  unfold concat2
  simp only [Lem.freshFrom_labels_map, beq_self_eq_true, if_true]
  rw [Lem.zipWith_freshFrom]

example : unionFreshKept (fun x : Nat => x) (fun x => x + 1) [1, 0] [20, 10] = .ok [(some 20, some 21), (some 10, some 11)] := rfl

/-- … hence it commutes with every selection of instances, labels kept or not -/
theorem union_select_equivariant {α β : Type} (fa fb : α → β) (labels labels' : List Int) (X : List α) (idx : List Nat)
    (hl : labels.length = X.length) (hl' : labels'.length = (select idx X).length) :
    unionFreshKept fa fb labels' (select idx X)
      = (unionFreshKept fa fb labels X).map (select idx) := by
  rw [union_rowwise fa fb labels X hl, union_rowwise fa fb labels' _ hl']
  simp only [Except.map]
  rw [perm_equivariant]

/-- About the ORIGINAL code (before bec276b): with the default RangeIndex the union was already the
row-by-row pairing … -/
theorem original_union_default_labels_rowwise {α β : Type} (fa fb : α → β) (X : List α) :
    unionFreshKeptOriginal fa fb ((freshLabels X).map (·.1)) X = .ok (X.map (fun x => (some (fa x), some (fb x)))) := by
  unfold unionFreshKeptOriginal concat2 freshLabels
  rw [Lem.zip_freshFrom fb 0 X]
  simp only [Lem.freshFrom_labels_map, beq_self_eq_true, if_true]
  rw [Lem.zipWith_freshFrom]

/-- … but the same two instances handed over in reverse order with their labels kept (`X.iloc[[1, 0]]`)
paired the first member's value of one instance with the second member's value of the OTHER one, -/
theorem original_union_label_misalignment_witness :
    unionFreshKeptOriginal (fun x : Nat => x) (fun x => x) [1, 0] [20, 10]
      = .ok [(some 20, some 10), (some 10, some 20)] := by
  rfl

/-- … and a single instance that does not carry label 0 came back as two half-empty rows -/
theorem original_union_single_instance_two_rows_witness :
    unionFreshKeptOriginal (fun x : Nat => x) (fun x => x) [2] [30] = .ok [(some 30, none), (none, some 30)] := by
  rfl

end SkVerif.C16

namespace SkVerif.C16

/-! ## Cells read by position (repaired by /repo 54be566); integer-typed cells (repaired by 5cad45f) -/

/-- Container invariance of DerivativeSlopeTransformer, full strength: whatever time index the cell Series
carries, the derivative is the positional formula a 3-D array of the same numbers gets. -/
theorem getDer_index_invariant (labels : List Int) (vals : List Rat) :
    getDer labels vals = getDerByPosition vals := by
  unfold getDer getDerByLabel getDerByPosition
  have : (fun (k : Nat) => derAt (lookupCell (labelsFrom 0 vals.length) vals) (Int.ofNat k + 1))
       = (fun (k : Nat) => derAt (cellAt vals) (Int.ofNat k + 1)) := by
    funext k
    unfold derAt
    simp only [Lem.lookupCell_labelsFrom 0 vals, Int.sub_zero]
  rw [this]

example : labelsFrom 0 4 = [0, 1, 2, 3] := by decide
example : (getDer [1, 2, 3, 4] [1, 2, 4, 8]).toBool = true := rfl

/-- about the ORIGINAL code (before 54be566, the record of the finding): the same four numbers in cells
labelled 1..4 were rejected with KeyError -/
example : getDerByLabel [1, 2, 3, 4] [1, 2, 4, 8] = .error .key ∧ (getDerByPosition [1, 2, 4, 8]).toBool = true := by
  constructor <;> rfl

/-- A series is the same series whatever dtype stores its whole numbers, full strength: the mean
SlopeTransformer works with is the exact mean for integer-typed and float-typed cells alike. -/
theorem slopeMean_dtype_invariant (ys : List Rat) :
    slopeMean true ys = slopeMean false ys ∧ slopeMean true ys = ys.sum / (ys.length : Rat) :=
  ⟨rfl, rfl⟩

example : slopeMean true [1, 2] = 3 / 2 := by decide +kernel

/-- about `statistics.mean` itself (what the ORIGINAL `_get_gradient`, before 5cad45f, called on the raw
cells): the instance (1, 2) stored as integers has "mean" 1, stored as floats 3/2 -/
example : meanAsStored true [1, 2] ≠ meanAsStored false [1, 2] := by decide +kernel

end SkVerif.C16
