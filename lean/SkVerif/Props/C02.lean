/-
C02  Forecasting-horizon conversions are exact, order-preserving and mutually inverse.
Property theorems about SkVerif/Model/FH.lean.  Only theorems + non-vacuity examples here.
-/
import SkVerif.Model.FH
import SkVerif.Lemmas.Range
import SkVerif.Lemmas.FH
namespace SkVerif.C02
open SkVerif SkVerif.FH

/-- strictly increasing -/
abbrev StrictSorted (l : List Int) : Prop := l.Pairwise (· < ·)

/-- A horizon built from any input is stored strictly sorted (hence duplicate-free). -/
theorem mk_sorted_nodup (raw : Raw) (rel : Bool) (fh : FH) (h : mk raw rel = .ok fh) :
    StrictSorted fh.vals ∧ fh.vals.Nodup ∧ fh.rel = rel := by
  have := Lem.mk_sorted raw rel fh h
  exact ⟨this.1, Lem.nodup_of_strictSorted this.1, this.2⟩

/-- … and holds exactly the steps that were passed. -/
theorem mk_perm_of_input (vs : List Int) (rel : Bool) (hnd : vs.Nodup) :
    ∃ fh, mk (.ints vs) rel = .ok fh ∧ fh.vals.Perm vs ∧ fh.rel = rel := by
  refine ⟨⟨sortInts vs, rel⟩, ?_, Lem.sortInts_perm _, rfl⟩
  simp [mk, checkValues, hnd, Except.map]

/-- absolute form = cutoff + steps -/
theorem abs_eq_cutoff_add (vals : List Int) (c : Int) :
    toAbsolute ⟨vals, true⟩ (some c) = .ok ⟨vals.map (c + ·), false⟩ := by
  simp [toAbsolute]

/-- relative → absolute → relative returns the original steps -/
theorem rel_abs_roundtrip (vals : List Int) (c : Int) :
    (toAbsolute ⟨vals, true⟩ (some c)).bind (fun a => toRelative a (some c)) = .ok ⟨vals, true⟩ := by
  simp [toAbsolute, toRelative, Except.bind, List.map_map, Function.comp_def]

/-- absolute → relative → absolute returns the original time points -/
theorem abs_rel_roundtrip (vals : List Int) (c : Int) :
    (toRelative ⟨vals, false⟩ (some c)).bind (fun a => toAbsolute a (some c)) = .ok ⟨vals, false⟩ := by
  simp [toAbsolute, toRelative, Except.bind, List.map_map, Function.comp_def]

/-- a horizon DERIVED by `to_absolute(c1)` is an ordinary absolute horizon: converted back with ANY
other cutoff `c2` it gives the steps as seen from `c2` (nothing of `c1` is remembered) -/
theorem derived_absolute_relative_to_other_cutoff (vals : List Int) (c1 c2 : Int) :
    (toAbsolute ⟨vals, true⟩ (some c1)).bind (fun a => toRelative a (some c2)) =
      .ok ⟨vals.map (fun v => v + (c1 - c2)), true⟩ := by
  simp only [toAbsolute, toRelative, Except.bind, Bool.not_true, Bool.false_eq_true, ↓reduceIte,
    List.map_map, Function.comp_def]
  congr 2
  apply List.map_congr_left
  intro v _
  omega

/-- in-sample part = steps ≤ 0 (relative horizon) -/
theorem insample_eq_filter (vals : List Int) (c : Option Int) :
    toInSample ⟨vals, true⟩ c = .ok ⟨vals.filter (fun v => decide (v ≤ 0)), true⟩ := by
  simp [toInSample, inSampleMask, toRelative, Except.map, Lem.maskSelect_map]

/-- out-of-sample part = steps > 0 (relative horizon) -/
theorem outsample_eq_filter (vals : List Int) (c : Option Int) :
    toOutOfSample ⟨vals, true⟩ c = .ok ⟨vals.filter (fun v => decide (v > 0)), true⟩ := by
  simp [toOutOfSample, outOfSampleMask, toRelative, Except.map, Lem.maskSelect_map]

/-- For a sorted horizon (which every constructed horizon is) the in-sample part followed by the
out-of-sample part is the whole horizon: they partition it at step 0.  Stated for relative and
absolute horizons alike (`relOf` = the step of a stored value). -/
theorem insample_outsample_partition (fh : FH) (c : Int) (hs : StrictSorted fh.vals)
    (i o : FH) (hi : toInSample fh (some c) = .ok i) (ho : toOutOfSample fh (some c) = .ok o) :
    i.vals ++ o.vals = fh.vals ∧
    i.vals = fh.vals.filter (fun v => decide ((if fh.rel then v else v - c) ≤ 0)) ∧
    o.vals = fh.vals.filter (fun v => decide ((if fh.rel then v else v - c) > 0)) := by
  exact Lem.partition fh c hs i o hi ho

/-- `is_all_in_sample` agrees with the partition -/
theorem all_in_iff (fh : FH) (c : Int) :
    isAllInSample fh (some c) = .ok (decide (∀ v ∈ fh.vals, (if fh.rel then v else v - c) ≤ 0)) :=
  Lem.all_in_iff fh c

/-- `is_all_out_of_sample` agrees with the partition -/
theorem all_out_iff (fh : FH) (c : Int) :
    isAllOutOfSample fh (some c) = .ok (decide (∀ v ∈ fh.vals, (if fh.rel then v else v - c) > 0)) :=
  Lem.all_out_iff fh c

/-- zero-based indexer = steps − 1 (relative horizon) -/
theorem indexer_eq_steps_sub_one (vals : List Int) (c : Option Int) :
    toIndexer ⟨vals, true⟩ c true = .ok (vals.map (· - 1)) := by
  simp [toIndexer, toRelative, bind, Except.bind, pure, Except.pure]

/-- zero-based indexer = steps − 1 for the absolute form of the same horizon -/
theorem indexer_absolute_eq_steps_sub_one (vals : List Int) (c : Int) :
    toIndexer ⟨vals.map (c + ·), false⟩ (some c) true = .ok (vals.map (· - 1)) := by
  simp [toIndexer, toRelative, bind, Except.bind, pure, Except.pure, List.map_map, Function.comp_def]

/-- ... and its zero-based indexer is (steps as seen from `c2`) - 1 -/
theorem derived_absolute_indexer_from_other_cutoff (vals : List Int) (c1 c2 : Int) :
    (toAbsolute ⟨vals, true⟩ (some c1)).bind (fun a => toIndexer a (some c2) true) =
      .ok (vals.map (fun v => v + (c1 - c2) - 1)) := by
  simp only [toAbsolute, toIndexer, toRelative, bind, Except.bind, pure, Except.pure, Bool.not_true,
    Bool.false_eq_true, ↓reduceIte, List.map_map, Function.comp_def]
  congr 1
  apply List.map_congr_left
  intro v _
  omega

/-- conversions preserve order -/
theorem order_preserved_abs (vals : List Int) (c : Int) (hs : StrictSorted vals) :
    StrictSorted (vals.map (c + ·)) := by
  unfold StrictSorted at *
  rw [List.pairwise_map]
  exact hs.imp (by intro a b h; omega)

theorem order_preserved_rel (vals : List Int) (c : Int) (hs : StrictSorted vals) :
    StrictSorted (vals.map (· - c)) := by
  unfold StrictSorted at *
  rw [List.pairwise_map]
  exact hs.imp (by intro a b h; omega)

/-- duplicates are rejected -/
theorem mk_rejects_duplicates (vs : List Int) (rel : Bool) (h : ¬ vs.Nodup) :
    mk (.ints vs) rel = .error .value := by
  simp [mk, checkValues, h, Except.map]

theorem mk_rejects_unsupported (rel : Bool) : mk .unsupported rel = .error .type := by
  simp [mk, checkValues, Except.map]

theorem mk_rejects_fractional (rel : Bool) : mk .fractional rel = .error .type := by
  simp [mk, checkValues, Except.map]

/-- floats: ANY non-integral value, however close to a whole number and however large, is rejected -/
theorem mk_rejects_any_fractional_float (qs : List Rat) (rel : Bool) (h : ∃ q ∈ qs, q.den ≠ 1) :
    mk (rawOfFloats qs) rel = .error .type := by
  obtain ⟨q, hq, hd⟩ := h
  have : qs.all (fun q => q.den == 1) = false := by
    rw [List.all_eq_false]
    exact ⟨q, hq, by simpa using hd⟩
  simp [rawOfFloats, this, mk, checkValues, Except.map]

/-- floats that are all whole numbers are the horizon of those integers -/
theorem mk_whole_floats (qs : List Rat) (rel : Bool) (h : ∀ q ∈ qs, q.den = 1) :
    mk (rawOfFloats qs) rel = mk (.ints (qs.map (·.num))) rel := by
  have : qs.all (fun q => q.den == 1) = true := by
    rw [List.all_eq_true]; intro q hq; simpa using h q hq
  simp [rawOfFloats, this]

example : mk (rawOfFloats [(100000 : Rat) + 2/5, 100001]) true = .error .type := by decide +kernel
example : mk (rawOfFloats [(3 : Rat), -4]) true = .ok ⟨[-4, 3], true⟩ := by decide +kernel

theorem checkFh_rejects_empty (rel enf : Bool) : checkFh (.ok ⟨[], rel⟩) enf = .error .value := by
  simp [checkFh, bind, Except.bind]

theorem checkFh_accepts_nonempty (v : Int) (vs : List Int) (enf : Bool) :
    checkFh (.ok ⟨v :: vs, true⟩) enf = .ok ⟨v :: vs, true⟩ := by
  simp [checkFh, bind, Except.bind, pure, Except.pure]

/-- Python `range` membership (used for RangeIndex horizons and by C01) -/
theorem pyRange_mem (a b s x : Int) (hs : 0 < s) :
    x ∈ pyRange a b s ↔ a ≤ x ∧ x < b ∧ s ∣ (x - a) := Lem.pyRange_mem_pos a b s x hs

theorem pyRange_nodup (a b s : Int) (hs : s ≠ 0) : (pyRange a b s).Nodup := Lem.pyRange_nodup a b s hs

-- non-vacuity: concrete horizons meeting the hypotheses
example : mk (.ints [3, -2, 1]) true = .ok ⟨[-2, 1, 3], true⟩ := by decide
example : StrictSorted [-2, 1, 3] := by decide
example : toInSample ⟨[8, 11, 13], false⟩ (some 10) = .ok ⟨[8], false⟩ := by decide
example : toOutOfSample ⟨[8, 11, 13], false⟩ (some 10) = .ok ⟨[11, 13], false⟩ := by decide
example : ¬ ([1, 1] : List Int).Nodup := by decide

end SkVerif.C02
