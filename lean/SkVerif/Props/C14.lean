/-
C14  Closed-form transformers compute exactly the function they document.

Property theorems about the executable models in SkVerif/Model/C14*.lean, each proved equal to an
independently written specification in SkVerif/Spec/C14*.lean, for ALL panels / series, lengths and
parameters.  Only theorems and non-vacuity examples live here; lemmas are in SkVerif/Lemmas/C14*.lean.
-/
import SkVerif.Lemmas.C14Panel
import SkVerif.Lemmas.C14Labels
import SkVerif.Lemmas.C14PAAPanel
import SkVerif.Lemmas.C14Seg
import SkVerif.Lemmas.C14Slide
import SkVerif.Lemmas.C14InterpPanel
import SkVerif.Lemmas.C14Impute3
import SkVerif.Lemmas.C14Impute4
import SkVerif.Lemmas.C14Ols
import SkVerif.Lemmas.C14Feat
import SkVerif.Lemmas.C14Slope
namespace SkVerif.C14
open SkVerif SkVerif.C14

/-- at least one instance, every instance has at least one column (what `check_X` demands) -/
abbrev WellShaped {α : Type} (X : PanelOf α) : Prop := Lem.WellShaped X
/-- every instance has `nc` columns (a DataFrame / 3-D array is rectangular in its columns) -/
abbrev Columns (X : Panel) (nc : Nat) : Prop := Lem.Columns X nc
/-- within each column all series are equally long -/
abbrev ColumnsEqualLength (X : Panel) (nc : Nat) : Prop := Lem.ColumnsEqualLength X nc

/-! ## Padding -/

/-- `_get_max_length` really is the length of the longest series of the panel. -/
theorem maxLength_is_longest {α : Type} (X : PanelOf α) (h : WellShaped X) : Spec.IsMaxLength X (maxLength X) :=
  Lem.maxLength_isMax h

/-- PaddingTransformer with a requested length `p` at least the longest series: every cell becomes
its own values followed by the fill value up to length `p`; unequal lengths allowed.  Generic in the
value type `α`: rationals, or `Option Rat` when the fill value or observations may be NaN; integer and
float32 cells are the same numbers (the code always allocates a float64 cell). -/
theorem pad_eq_spec_requested {α : Type} (p : Int) (fill : α) (Xfit X : PanelOf α)
    (hf : WellShaped Xfit) (hX : WellShaped X) (hp : (maxLength X : Int) ≤ p) :
    pad (some p) fill Xfit X = .ok (Spec.pad p.toNat fill X) := by
  simp only [pad, padFit, Lem.checkX_ok hf, bind, Except.bind, pure, Except.pure]
  exact Lem.padTransform_eq_spec p fill X hX hp

/-- PaddingTransformer without a requested length pads to the longest series seen in `fit`. -/
theorem pad_eq_spec_longest {α : Type} (fill : α) (Xfit X : PanelOf α)
    (hf : WellShaped Xfit) (hX : WellShaped X) (hp : maxLength X ≤ maxLength Xfit) :
    pad none fill Xfit X = .ok (Spec.pad (maxLength Xfit) fill X) := by
  simp only [pad, padFit, Lem.checkX_ok hf, bind, Except.bind, pure, Except.pure]
  have := Lem.padTransform_eq_spec (maxLength Xfit : Int) fill X hX (by omega)
  simpa using this

/-- a padded series is the series followed by copies of the fill value -/
theorem pad_cell_is_series_then_fill {α : Type} (L : Nat) (fill : α) (c : List α) (h : c.length ≤ L) :
    Spec.padCell L fill c = c ++ List.replicate (L - c.length) fill := Lem.padCell_prefix L fill c h

/-- a series longer than the fitted / requested length is rejected, never cut -/
theorem pad_rejects_longer {α : Type} (L : Int) (fill : α) (X : PanelOf α) (hX : WellShaped X)
    (h : L < (maxLength X : Int)) : padTransform L fill X = .error .value :=
  Lem.padTransform_rejects L fill X hX h

/- Cell containers (pd.Series cells, np.ndarray cells, 3-D array) share this one model: since the fix
cbec13a the real code treats them alike, which the correspondence checks on every run (`kind` S/A/N). -/

/-! ## Truncation -/

theorem minLength_is_shortest (X : Panel) (h : WellShaped X) : Spec.IsMinLength X (minLength X) :=
  Lem.minLength_isMin h

/-- TruncationTransformer() keeps the first `m` values of every series, `m` the shortest series seen
in `fit` (which must not be longer than the shortest series transformed). -/
theorem truncate_eq_spec_shortest (Xfit X : Panel)
    (hf : WellShaped Xfit) (hX : WellShaped X) (h : minLength Xfit ≤ minLength X) :
    truncate none none Xfit X = .ok (Spec.truncate 0 (minLength Xfit) X) := by
  simp only [truncate, truncFit, Lem.checkX_ok hf, bind, Except.bind, pure, Except.pure]
  exact Lem.truncTransform_eq_spec _ none X hX 0 (minLength Xfit) (Nat.zero_le _) h (by omega)
    (by simp [truncIdxs])

/-- TruncationTransformer(lower=l) keeps the first `l` values. -/
theorem truncate_eq_spec_lower (l : Nat) (Xfit X : Panel)
    (hf : WellShaped Xfit) (hX : WellShaped X) (h : l ≤ minLength X) :
    truncate (some l) none Xfit X = .ok (Spec.truncate 0 l X) := by
  simp only [truncate, truncFit, Lem.checkX_ok hf, bind, Except.bind, pure, Except.pure]
  exact Lem.truncTransform_eq_spec _ none X hX 0 l (Nat.zero_le _) h (by omega) (by simp [truncIdxs])

/-- TruncationTransformer(lower=l, upper=u) keeps exactly positions `l … u-1` (upper exclusive). -/
theorem truncate_eq_spec_range (l u : Nat) (Xfit X : Panel)
    (hf : WellShaped Xfit) (hX : WellShaped X) (hlu : l ≤ u) (h : u ≤ minLength X) :
    truncate (some l) (some u) Xfit X = .ok (Spec.truncate l u X) := by
  simp only [truncate, truncFit, Lem.checkX_ok hf, bind, Except.bind, pure, Except.pure]
  exact Lem.truncTransform_eq_spec _ (some (u : Int)) X hX l u hlu h (by omega) (by simp [truncIdxs])

/-- a panel with a series shorter than the fitted / requested lower bound is rejected -/
theorem truncate_rejects_shorter (lo : Int) (upper : Option Int) (X : Panel)
    (hX : WellShaped X) (h : (minLength X : Int) < lo) : truncTransform lo upper X = .error .value := by
  simp [truncTransform, Lem.checkX_ok hX, h, bind, Except.bind]

/-! ## Output lengths and rows for padding / truncation -/

/-- padding returns exactly the requested length in every cell, whatever the input lengths -/
theorem pad_output_lengths_exact {α : Type} (L : Nat) (fill : α) (X : PanelOf α) :
    ∀ inst ∈ Spec.pad L fill X, ∀ c ∈ inst, c.length = L := by
  intro inst hi c hc
  obtain ⟨i0, _, rfl⟩ := List.mem_map.mp hi
  obtain ⟨c0, _, rfl⟩ := List.mem_map.mp hc
  exact Lem.padCell_length L fill c0

/-- truncation returns exactly `hi - lo` values in every cell when the range exists in every series -/
theorem truncate_output_lengths_exact (lo hi : Nat) (X : Panel) (h : hi ≤ minLength X) :
    ∀ inst ∈ Spec.truncate lo hi X, ∀ c ∈ inst, c.length = hi - lo := by
  intro inst hi' c hc
  obtain ⟨i0, hi0, rfl⟩ := List.mem_map.mp hi'
  obtain ⟨c0, hc0, rfl⟩ := List.mem_map.mp hc
  exact Lem.slice_length lo hi c0 (Nat.le_trans h (Lem.minLength_le hi0 hc0))

/-- one output row per instance, in input order, each with the same columns: row `i` of the output is
the transformed row `i` of the input (padding). -/
theorem pad_rows_preserved_in_order {α : Type} (L : Nat) (fill : α) (X : PanelOf α) (i : Nat) :
    (Spec.pad L fill X).length = X.length ∧
    (Spec.pad L fill X)[i]? = (X[i]?).map (fun inst => inst.map (Spec.padCell L fill)) := by
  simp [Spec.pad]

theorem truncate_rows_preserved_in_order (lo hi : Nat) (X : Panel) (i : Nat) :
    (Spec.truncate lo hi X).length = X.length ∧
    (Spec.truncate lo hi X)[i]? = (X[i]?).map (fun inst => inst.map (Spec.slice lo hi)) := by
  simp [Spec.truncate]

/-! ## Tabularizer / ColumnConcatenator -/

/-- Tabularizer: row `i` is instance `i`'s columns one after the other, each in time order. -/
theorem tabularize_eq_spec (X : Panel) (nc : Nat) (hX : WellShaped X) (hc : Columns X nc)
    (heq : ColumnsEqualLength X nc) : tabularize X = .ok (Spec.tabularize X) :=
  Lem.tabularize_eq_spec X nc hX hc heq

/-- column-then-time order, by position: with all series of length `T`, value `t` of column `j` of
instance `i` is at position `j*T + t` of row `i`. -/
theorem tabularize_column_then_time (X : Panel) (T i j t : Nat) (ht : t < T)
    (hT : ∀ inst ∈ X, ∀ c ∈ inst, c.length = T) :
    ((Spec.tabularize X)[i]?).bind (fun row => row[j * T + t]?) =
      ((X[i]?).bind (fun inst => inst[j]?)).bind (fun c => c[t]?) := by
  simp only [Spec.tabularize, List.getElem?_map]
  cases hi : X[i]? with
  | none => simp
  | some inst =>
    have hmem : inst ∈ X := List.mem_of_getElem? hi
    simp only [Option.map_some, Option.bind_some]
    exact Lem.flatten_uniform_getElem? inst T (hT inst hmem) j t ht

/-- a column whose series have different lengths has no tabular form and is rejected -/
theorem tabularize_rejects_ragged (X : Panel) (nc : Nat) (hX : WellShaped X) (hc : Columns X nc)
    (j : Nat) (hj : j < nc) (a b : Inst) (ha : a ∈ X) (hb : b ∈ X)
    (hne : (a.getD j []).length ≠ (b.getD j []).length) : tabularize X = .error .value :=
  Lem.tabularize_rejects_ragged X nc hX hc j hj a b ha hb hne

/-- ColumnConcatenator: one column whose cell is the instance's columns concatenated in time. -/
theorem columnConcat_eq_spec (X : Panel) (nc : Nat) (hX : WellShaped X) (hc : Columns X nc)
    (heq : ColumnsEqualLength X nc) : columnConcat X = .ok (Spec.columnConcat X) := by
  simp only [columnConcat, Lem.tabularize_eq_spec X nc hX hc heq, bind, Except.bind, pure, Except.pure]
  simp [nestRows, Spec.tabularize, Spec.columnConcat]

/-- Columns are taken BY POSITION, whatever their labels: for a nested data frame with any column labels (of any
type, in any order, sorted or not) and any time index, the table is the table of the unlabelled panel, hence
(`tabularize_eq_spec`, `tabularize_column_then_time`) the frame's columns one after the other in frame order; two
frames that differ only in their labels give the same table, and the same concatenated series. -/
theorem tabularize_values_ignore_labels {ι κ : Type} (labels : List ι) (labels' : List κ) (t0 t0' : Nat) (X : Panel) :
    (tabularizeL labels t0 X).map Prod.snd = tabularize X ∧
    (tabularizeL labels t0 X).map Prod.snd = (tabularizeL labels' t0' X).map Prod.snd ∧
    columnConcatL labels X = columnConcat X ∧ columnConcatL labels X = columnConcatL labels' X := by
  refine ⟨?_, ?_, rfl, rfl⟩ <;>
    (simp only [tabularizeL, bind, Except.bind, pure, Except.pure]; cases tabularize X <;> rfl)

/-- The names of the tabular columns follow the same column-then-time order: with all series of length `T`,
tabular column `j*T + t` is named after (label of frame column `j`, time index `t0 + t`). -/
theorem tabularize_names_column_then_time {ι : Type} (labels : List ι) (t0 : Nat) (inst0 : Inst) (rest : Panel)
    (T j t : Nat) (hT : ∀ c ∈ inst0, c.length = T) (hl : labels.length = inst0.length) (ht : t < T) :
    (tabularNames labels t0 (inst0 :: rest))[j * T + t]? = (labels[j]?).map (fun l => (l, t0 + t)) :=
  Lem.tabularNames_getElem? labels t0 inst0 rest T j t hT hl ht

example : tabularizeL ["temp", "hum"] 2 [[[1, 2], [4, 5]], [[6, 0], [7, 8]]] =
    .ok ([("temp", 2), ("temp", 3), ("hum", 2), ("hum", 3)], [[1, 2, 4, 5], [6, 0, 7, 8]]) := by decide

theorem tabularize_rows_preserved_in_order (X : Panel) (i : Nat) :
    (Spec.tabularize X).length = X.length ∧ (Spec.columnConcat X).length = X.length ∧
    (Spec.tabularize X)[i]? = (X[i]?).map List.flatten ∧
    (Spec.columnConcat X)[i]? = (X[i]?).map (fun inst => [inst.flatten]) := by
  simp [Spec.tabularize, Spec.columnConcat]

/-! ## PAA -/

/-- The running-sum loop of `_perform_paa_along_dim` (with its fractional carries) computes, for every
series and every `1 ≤ k ≤ n` (dividing `n` or not), the mean of the step function over each of the `k`
equal frames of length `n/k`. -/
theorem paa_eq_frame_means_fractional (k : Nat) (xs : List Rat) (hk : 0 < k) (hkn : k ≤ xs.length) :
    paaSeries k xs = Spec.paaSeries k xs := Lem.paaSeries_eq_spec k xs hk hkn

/-- PAA on a panel (one or several equal-length columns): cell-wise, rows and columns in place. -/
theorem paa_eq_spec (k : Nat) (X : Panel) (nc : Nat) (hX : WellShaped X) (hc : Columns X nc)
    (heq : ColumnsEqualLength X nc) (hk : 0 < k) (hlen : ∀ inst ∈ X, ∀ c ∈ inst, k ≤ c.length) :
    paa (.int k) X = .ok (Spec.paa k X) := Lem.paa_eq_spec k X nc hX hc heq hk hlen

/-- the specification agrees with the textbook when `k` divides the length: block means -/
theorem paa_frame_mean_dividing (k q : Nat) (xs : List Rat) (hn : xs.length = k * q) (hk : 0 < k) (hq : 0 < q)
    (j : Nat) : Spec.frameMean k xs j = ((xs.drop (j * q)).take q).sum / (q : Rat) :=
  Lem.frameMean_dividing k q xs hn hk hq j

/-- exactly `k` values per series -/
theorem paa_output_lengths_exact (k : Nat) (X : Panel) :
    ∀ inst ∈ Spec.paa k X, ∀ c ∈ inst, c.length = k := by
  intro inst hi c hc
  obtain ⟨i0, _, rfl⟩ := List.mem_map.mp hi
  obtain ⟨c0, _, rfl⟩ := List.mem_map.mp hc
  exact Lem.paaSeries_spec_length k c0

theorem paa_rows_preserved_in_order (k : Nat) (X : Panel) (i : Nat) :
    (Spec.paa k X).length = X.length ∧
    (Spec.paa k X)[i]? = (X[i]?).map (fun inst => inst.map (Spec.paaSeries k)) := by
  simp [Spec.paa]

/-- `num_intervals` must be an int in `1 … n` -/
theorem paa_rejects_bad_num_intervals (n : Nat) (v : Int) (h : v ≤ 0 ∨ (n : Int) < v) :
    paaCheck (.int v) n = .error .value ∧ paaCheck .notInt n = .error .type := by
  constructor
  · rcases h with h | h
    · simp [paaCheck, h]
    · have h1 : ¬ v ≤ 0 := by omega
      have h2 : v > (n : Int) := h
      simp [paaCheck, h1, h2]
  · rfl

/-! ## IntervalSegmenter -/

/-- SPECIFICATION of fixed-interval segmentation into `k` intervals: the `k` consecutive near-equal
blocks together are the series (nothing lost, nothing repeated), and there are `k` of them. -/
theorem interval_segments_concat_eq_input (k : Nat) (xs : List Rat) (hk : 0 < k) :
    (Spec.intervalSegments k xs).flatten = xs ∧ (Spec.intervalSegments k xs).length = k := by
  refine ⟨Lem.intervalSegments_flatten k xs hk, ?_⟩
  simp [Spec.intervalSegments, Lem.blocks_length, Lem.equalSizes_length _ k hk]

/-- IntervalSegmenter(intervals=k), 1 ≤ k ≤ n/2 (the guard the code enforces), on equal-length series:
column `j` of every instance is the `j`-th of the `k` near-equal consecutive blocks of its series
(fixed by a79239a: `fit` stores `[start, end)` pairs). -/
theorem iseg_count_eq_spec (k n : Nat) (X : Panel) (tbl : List (List Rat))
    (ht : univariateTable X = .ok tbl) (hn : ∀ row ∈ tbl, row.length = n) (hk : 0 < k) (hkn : k ≤ n / 2) :
    iseg (.count (k : Int)) X X = .ok (tbl.map (Spec.intervalSegments k)) :=
  Lem.iseg_count k n X tbl ht hn hk hkn

/-- … hence the segments the code returns for an instance, put end to end, are that instance's series -/
theorem iseg_count_concat_eq_input (k n : Nat) (X : Panel) (tbl : List (List Rat))
    (ht : univariateTable X = .ok tbl) (hn : ∀ row ∈ tbl, row.length = n) (hk : 0 < k) (hkn : k ≤ n / 2) :
    ∃ out, iseg (.count (k : Int)) X X = .ok out ∧ out.map List.flatten = tbl ∧ ∀ inst ∈ out, inst.length = k := by
  refine ⟨_, Lem.iseg_count k n X tbl ht hn hk hkn, ?_, ?_⟩
  · rw [List.map_map]
    conv_rhs => rw [← List.map_id tbl]
    apply List.map_congr_left
    intro row _
    exact Lem.intervalSegments_flatten k row hk
  · intro inst hi
    obtain ⟨row, _, rfl⟩ := List.mem_map.mp hi
    simp [Spec.intervalSegments, Lem.blocks_length, Lem.equalSizes_length _ k hk]

/-- explicit `[start, end)` intervals: exactly those slices, one column per interval -/
theorem iseg_rows_eq_spec (ivs : List (Nat × Nat)) (Xfit X : Panel) (tblf tbl : List (List Rat))
    (hf : univariateTable Xfit = .ok tblf) (ht : univariateTable X = .ok tbl)
    (hin : ∀ row ∈ tbl, ∀ iv ∈ ivs, iv.2 ≤ row.length) :
    iseg (.rows (ivs.map (fun iv => [(iv.1 : Int), (iv.2 : Int)]))) Xfit X =
      .ok (tbl.map (Spec.sliceSegments ivs)) := Lem.iseg_rows ivs Xfit X tblf tbl hf ht hin

/-- explicit intervals that tile `[0, n)` (cut points `0 = c₀ ≤ … ≤ c_m = n`) give segments that
together are the series -/
theorem iseg_rows_tiling_concat_eq_input (cuts : List Nat) (xs : List Rat) (hs : cuts.Pairwise (· ≤ ·))
    (h0 : cuts.head? = some 0) (hl : cuts.getLast? = some xs.length) :
    (Spec.sliceSegments (Spec.cutsToIntervals cuts) xs).flatten = xs := by
  have hmem : ∀ c ∈ cuts, c ≤ xs.length := by
    intro c hc
    obtain ⟨l, hl'⟩ : ∃ l, cuts = l ++ [xs.length] := by
      rcases List.eq_nil_or_concat cuts with rfl | ⟨l, z, rfl⟩
      · simp at hl
      · simp at hl; exact ⟨l, by simp [hl]⟩
    subst hl'
    rcases List.mem_append.mp hc with h | h
    · exact (List.pairwise_append.mp hs).2.2 c h xs.length (by simp)
    · simp at h; omega
  rw [Lem.cuts_flatten cuts xs hs hmem, h0, hl]
  simp

/-- number of intervals must be at most half the number of time points -/
theorem iseg_count_rejects_too_many (k : Int) (X : Panel) (tbl : List (List Rat))
    (ht : univariateTable X = .ok tbl) (h : ((((tbl.head?.getD []).length / 2 : Nat)) : Int) < k) :
    isegFit (.count k) X = .error .value := by
  have : ¬ (k ≤ ((((tbl.head?.getD []).length / 2 : Nat)) : Int)) := by omega
  simp only [isegFit, ht, bind, Except.bind, this, not_false_eq_true, if_true]

/-! ## SlidingWindowSegmenter -/

/-- one window per time point; window `j`, offset `t` is the series at `j + t − ⌊w/2⌋` with positions
outside the series replaced by the nearest end value (edge padding of `⌊w/2⌋`) -/
theorem slidingWindow_eq_spec (w : Nat) (hw : 0 < w) (X : Panel) (tbl : List (List Rat))
    (ht : univariateTable X = .ok tbl) (hne : ∀ row ∈ tbl, row ≠ []) :
    slidingWindow (.int (w : Int)) X = .ok (tbl.map (Spec.slidingWindows w)) :=
  Lem.slidingWindow_eq_spec w hw X tbl ht hne

/-- exactly `n` windows of exactly `w` values -/
theorem slidingWindow_output_lengths_exact (w : Nat) (xs : List Rat) :
    (Spec.slidingWindows w xs).length = xs.length ∧ ∀ win ∈ Spec.slidingWindows w xs, win.length = w :=
  Lem.slidingWindows_shape w xs

/-- away from the ends a window is a contiguous stretch of the series -/
theorem slidingWindow_interior (xs : List Rat) (i : Nat) (h : i < xs.length) :
    Spec.clampGet xs (i : Int) = xs[i] := Lem.clampGet_inside xs i h

theorem slidingWindow_rejects_bad_window (X : Panel) (tbl : List (List Rat)) (ht : univariateTable X = .ok tbl)
    (w : Int) (hw : w ≤ 0) :
    slidingWindow (.int w) X = .error .value ∧ slidingWindow .notInt X = .error .type := by
  simp [slidingWindow, ht, bind, Except.bind, hw]

/-! ## TSInterpolator -/

/-- `interp1d` over `linspace(0,1,n)` evaluated at `q ∈ [0,1]` is the height of the polyline through
`(i, y_i)` at position `q·(n−1)` -/
theorem interp_is_polyline (ys : List Rat) (q : Rat) (hn : 2 ≤ ys.length) (h0 : 0 ≤ q) (h1 : q ≤ 1) :
    Spec.IsLinInterp ys (q * ((ys.length - 1 : Nat) : Rat)) (interp1 (linspace01 ys.length) ys q) :=
  Lem.interp1_isLinInterp ys q hn h0 h1

/-- the height of the polyline at a position is unique (the relational specification is a function) -/
theorem polyline_unique (ys : List Rat) (s v v' : Rat) (h : Spec.IsLinInterp ys s v)
    (h' : Spec.IsLinInterp ys s v') : v = v' := Lem.isLinInterp_unique ys s v v' h h'

/-- TSInterpolator(L): every cell (≥ 2 points, lengths may differ from cell to cell) becomes the `L`
equally spaced samples of its polyline; rows and columns in place -/
theorem interpolate_eq_spec (L : Nat) (hL : 0 < L) (X : Panel)
    (hX : WellShaped X) (hlen : ∀ inst ∈ X, ∀ c ∈ inst, 2 ≤ c.length) :
    interpolate (.int L) X = .ok (Spec.interpolate L X) :=
  Lem.interpolate_eq_spec L hL X hX hlen

/-- exactly the requested length in every cell, whatever the input lengths -/
theorem interpolate_output_lengths_exact (L : Nat) (X : Panel) :
    ∀ inst ∈ Spec.interpolate L X, ∀ c ∈ inst, c.length = L := by
  intro inst hi c hc
  obtain ⟨i0, _, rfl⟩ := List.mem_map.mp hi
  obtain ⟨c0, _, rfl⟩ := List.mem_map.mp hc
  exact Lem.resample_length L c0

/-- resizing to the length a series already has returns it unchanged -/
theorem interpolate_same_length_is_identity (ys : List Rat) (hn : 2 ≤ ys.length) :
    Spec.resample ys.length ys = ys := Lem.resample_same_length ys hn

/-- first and last sample are the first and last point -/
theorem interpolate_keeps_endpoints (L : Nat) (ys : List Rat) (hn : 2 ≤ ys.length) (hL : 2 ≤ L) :
    (Spec.resample L ys).head? = ys.head? ∧ (Spec.resample L ys).getLast? = ys.getLast? :=
  Lem.resample_endpoints L ys hn hL

theorem interpolate_rows_preserved_in_order (L : Nat) (X : Panel) (i : Nat) :
    (Spec.interpolate L X).length = X.length ∧
    (Spec.interpolate L X)[i]? = (X[i]?).map (fun inst => inst.map (Spec.resample L)) := by
  simp [Spec.interpolate]

theorem interpolate_rejects_bad_length (v : Int) (hv : v ≤ 0) (X : Panel) :
    interpolate (.int v) X = .error .value ∧ interpolate .notInt X = .error .value := by
  simp [interpolate, interpNew, hv, bind, Except.bind]

/-! ## Imputer (single series, `none` = missing) -/

/-- forward fill: position `i` holds the latest observation at or before `i` -/
theorem ffill_eq_spec (z : OSeries) (i : Nat) (hi : i < z.length) :
    (ffill z)[i]? = some (Spec.lastValidUpTo z i) := Lem.ffill_getElem? z i hi

/-- backward fill: position `i` holds the earliest observation at or after `i` -/
theorem bfill_eq_spec (z : OSeries) (i : Nat) (hi : i < z.length) :
    (bfill z)[i]? = some (Spec.firstValidFrom z i) := Lem.bfill_getElem? z i hi

/-- method "ffill"/"pad", position by position: the latest observation at or before `i`; positions before
the first observation take the earliest observation after them (the closing back-fill) -/
theorem impute_ffill_eq_spec (z : OSeries) (hz : z ≠ []) (i : Nat) (hi : i < z.length) :
    ∃ r, impute .ffill none none z = .ok r ∧
      r[i]? = some ((Spec.lastValidUpTo z i).or (Spec.firstValidFrom z i)) :=
  ⟨_, Lem.impute_ffill z hz, Lem.bfill_ffill_getElem? z i hi⟩

/-- method "bfill"/"backfill": backward fill (`bfill_eq_spec`), then the closing forward/backward fill
for what is still missing at the end -/
theorem impute_bfill_eq_spec (z : OSeries) (hz : z ≠ []) :
    impute .bfill none none z = .ok (bfill (ffill (bfill z))) := by
  have he := Lem.isEmpty_false_of_ne hz
  simp [impute, stage1, stage1Err, checkMethod, he, replaceMissing, bind, Except.bind, pure, Except.pure]

/-- method "constant": observed values stay, every missing one becomes `value` -/
theorem impute_constant_eq_spec (v : Rat) (z : OSeries) (hz : z ≠ []) :
    impute .constant (some v) none z = .ok (Spec.fillWith v z) := Lem.impute_constant v z hz

/-- method "mean": every missing value becomes the mean of the observed ones -/
theorem impute_mean_eq_spec (z : OSeries) (hv : Spec.observed z ≠ []) :
    impute .mean none none z = .ok (Spec.fillWith (Spec.mean (Spec.observed z)) z) := Lem.impute_mean z hv

/-- method "median": every missing value becomes the middle of the sorted observed values
(`sortRats` returns the sorted permutation, see `median_sort_is_sorted_perm`) -/
theorem impute_median_eq_spec (z : OSeries) (hv : Spec.observed z ≠ []) :
    impute .median none none z = .ok (Spec.fillWith (Spec.middle (sortRats (Spec.observed z))) z) :=
  Lem.impute_median z hv

theorem median_sort_is_sorted_perm (l : List Rat) :
    (sortRats l).Perm l ∧ (sortRats l).Pairwise (fun a b => decide (a ≤ b) = true) := by
  refine ⟨SkVerif.Lem.isortBy_perm _ l, ?_⟩
  exact SkVerif.Lem.isortBy_pairwise (fun (a b : Rat) => decide (a ≤ b))
    (by intro a b c h1 h2; simp only [decide_eq_true_eq] at *; exact le_trans h1 h2)
    (by intro a b; simp only [Bool.or_eq_true, decide_eq_true_eq]; exact le_total a b) l

/-- method "linear": a missing value between observations `(j, a)` and `(k, b)` gets the value of the
straight line through them at its own position -/
theorem impute_linear_eq_spec (z : OSeries) (hz : z ≠ []) (i j k : Nat) (a b : Rat) (hi : z[i]? = some none)
    (hp : Spec.IsPrevValid z i j a) (hn : Spec.IsNextValid z i k b) :
    ∃ r, impute .linear none none z = .ok r ∧
      r[i]? = some (some (a + (b - a) * (((i : Rat) - (j : Rat)) / ((k : Rat) - (j : Rat))))) :=
  ⟨_, Lem.impute_linear_eq z hz, Lem.impute_linear_interior z i j k a b hi hp hn⟩

/-- method "nearest": a missing value between two observations takes the closer one (the earlier one
on a tie) -/
theorem impute_nearest_eq_spec (z : OSeries) (hz : z ≠ []) (i j k : Nat) (a b : Rat) (hi : z[i]? = some none)
    (hp : Spec.IsPrevValid z i j a) (hn : Spec.IsNextValid z i k b) :
    ∃ r, impute .nearest none none z = .ok r ∧ r[i]? = some (some (if i - j ≤ k - i then a else b)) :=
  ⟨_, Lem.impute_nearest_eq z hz, Lem.impute_nearest_interior z i j k a b hi hp hn⟩

/-- every method keeps every observed value, keeps the length, and leaves nothing missing as soon as
one value is observed -/
theorem impute_keeps_observed_and_length (m : Method) (value : Option Rat) (z r : OSeries)
    (h : impute m value none z = .ok r) :
    r.length = z.length ∧ (∀ (i : Nat) (v : Rat), z[i]? = some (some v) → r[i]? = some (some v)) ∧
    (∀ (p : Nat) (v : Rat), z[p]? = some (some v) → ∀ x ∈ r, x ≠ none) :=
  ⟨Lem.impute_length m value z r h, fun i v hv => Lem.impute_keeps_observed m value z r h i v hv,
   fun p v hp => Lem.impute_complete m value z r h p v hp⟩

/-- forward fill followed by backward fill, position by position (the heuristic fill the trend is
fitted on, and the closing fill of every method) -/
theorem ffill_then_bfill_eq_spec (z : OSeries) (i : Nat) (hi : i < z.length) :
    (bfill (ffill z))[i]? = some ((Spec.lastValidUpTo z i).or (Spec.firstValidFrom z i)) :=
  Lem.bfill_ffill_getElem? z i hi

/-- method "drift" (fixed by 9ff54c2): observed values stay; a missing position `i` gets the value at
time `i` of the least-squares line fitted to the forward/backward-filled series -/
theorem impute_drift_eq_spec (z : OSeries) (p : Nat) (v : Rat) (hp : z[p]? = some (some v)) :
    ∃ r, impute .drift none none z = .ok r ∧
      (∀ (i : Nat) (w : Rat), z[i]? = some (some w) → r[i]? = some (some w)) ∧
      (∀ (i : Nat), z[i]? = some none →
        r[i]? = some (some (Spec.olsLineAt (Spec.observed (bfill (ffill z))) i))) ∧
      bfill (ffill z) = (Spec.observed (bfill (ffill z))).map some := by
  refine ⟨_, Lem.impute_drift z p v hp, ?_, ?_, ?_⟩
  · intro i w hw
    rw [Lem.drift_stage_getElem?, hw]; rfl
  · intro i hi
    rw [Lem.drift_stage_getElem?, hi]
    simp only [Option.map_some, driftAt, Lem.trendAt_eq_spec]
    rfl
  · exact Lem.validValues_complete _ (Lem.bfill_ffill_complete z p v hp)

/-- what "least-squares line" means: the residuals of `Spec.olsLineAt` sum to zero and are orthogonal to
time (the normal equations, which characterise the minimiser of the squared error) -/
theorem drift_trend_is_least_squares (ys : List Rat) (hn : 2 ≤ ys.length) :
    (∑ t ∈ Finset.range ys.length, (ys.getD t 0 - Spec.olsLineAt ys t)) = 0 ∧
    (∑ t ∈ Finset.range ys.length, (t : Rat) * (ys.getD t 0 - Spec.olsLineAt ys t)) = 0 :=
  Lem.olsLine_normal_equations ys hn

/-- `missing_values = m` (fixed by 16d6ccd: also for `m = 0`): every occurrence of `m` is treated as
missing before the method runs -/
theorem impute_missing_values_eq_spec (m : Rat) (z : OSeries) :
    replaceMissing (some m) z = z.map (fun x => if x = some m then none else x) ∧
    replaceMissing none z = z := ⟨rfl, rfl⟩

/-- `value` goes with method "constant" and only with it; unknown methods are rejected -/
theorem impute_rejects_bad_configuration (z : OSeries) (v : Rat) (mv : Option Rat) (m : Method) (hm : m ≠ .constant) :
    impute .constant none mv z = .error .value ∧ impute m (some v) mv z = .error .value ∧
    impute .unknown none mv z = .error .value := by
  refine ⟨by simp [impute, checkMethod, bind, Except.bind], by simp [impute, checkMethod, hm, bind, Except.bind], ?_⟩
  simp only [impute, checkMethod, bind, Except.bind, stage1Err]
  cases z <;> simp


/-! ## RandomIntervalFeatureExtractor (given the fitted intervals; feature functions abstract) -/

/-- one row per instance, in order; for ANY feature functions and ANY fitted intervals, column
`a · n_intervals + b` of a row is feature `a` applied to the slice `[start_b, end_b)` of that
instance's series -/
theorem rife_eq_spec {β} (fs : List (List Rat → β)) (ivs : List (Int × Int)) (X : Panel) (tbl : List (List Rat))
    (ht : univariateTable X = .ok tbl) :
    rifeWith fs ivs X = .ok (tbl.map (rifeRow fs ivs)) ∧
    (∀ row, (rifeRow fs ivs row).length = fs.length * ivs.length) ∧
    (∀ row a b, b < ivs.length → (rifeRow fs ivs row)[a * ivs.length + b]? =
      (fs[a]?).bind (fun f => (ivs[b]?).map (fun iv => f (pySlice row iv.1 iv.2)))) :=
  ⟨Lem.rifeWith_eq fs ivs X tbl ht, fun row => Lem.rifeRow_length fs ivs row,
   fun row a b hb => Lem.rifeRow_getElem? fs ivs row a b hb⟩

/-- the slice of an interval lying inside the series is its values at positions `start … end-1` -/
theorem rife_interval_slice (row : List Rat) (s e : Nat) (he : e ≤ row.length) :
    pySlice row (s : Int) (e : Int) = (row.drop s).take (e - s) := Lem.pySlice_nat row s e he

/-! ## Row transformers -/

/-- SeriesToPrimitivesRowTransformer / SeriesToSeriesRowTransformer: for ANY wrapped transformer `g`
(acting on one instance's columns), the output is `g` applied to every instance, one row per instance
in input order; with a column-wise `g = map f` every cell `(i, j)` becomes `f` of cell `(i, j)`. -/
theorem row_transformers_eq_map {β} (gp : Inst → List β) (gs : Inst → Inst) (X : Panel) (hX : WellShaped X) (T : Nat)
    (h : ∀ inst ∈ X, ∀ c ∈ inst, c.length = T) :
    rowPrimitives gp X = .ok (X.map gp) ∧ rowSeries gs X = .ok (X.map gs) := by
  simp [rowPrimitives, rowSeries, Lem.toNumpy3d_ok X hX T h, bind, Except.bind, pure, Except.pure]

theorem row_transformer_cellwise (f : Cell → Cell) (X : Panel) (i j : Nat) :
    ((X.map (fun inst => inst.map f))[i]?).bind (fun inst => inst[j]?) =
      ((X[i]?).bind (fun inst => inst[j]?)).map f := by
  simp only [List.getElem?_map]
  cases X[i]? with
  | none => rfl
  | some inst => simp [List.getElem?_map]

/-! ## AutoCorrelationTransformer -/

/-- the coefficients are `r_k = c_k / c_0` with `c_k = Σ_t (x_t − m)(x_{t+k} − m) / n` (or `/(n−k)`
when adjusted), for `k = 0 … min(n_lags, n−1)` -/
theorem acf_eq_spec (adjusted : Bool) (nlags : Nat) (xs : List Rat) (hx : xs ≠ [])
    (hvar : Spec.lagProduct (Spec.deviations xs) 0 ≠ 0) :
    acf adjusted (nlags : Int) xs =
      .ok ((List.range (min (nlags + 1) xs.length)).map (fun k => some (Spec.acfCoeff adjusted xs k))) :=
  Lem.acf_eq_spec adjusted nlags xs hx hvar

theorem acf_lag_zero_is_one (adjusted : Bool) (xs : List Rat) (hx : xs ≠ [])
    (hvar : Spec.lagProduct (Spec.deviations xs) 0 ≠ 0) : Spec.acfCoeff adjusted xs 0 = 1 :=
  Lem.acfCoeff_zero adjusted xs hx hvar

/-! ## CosineTransformer, TabularToSeriesAdaptor (library functions uninterpreted) -/

/-- for ANY function `f` (np.cos): same length, position `i` holds `f` of position `i` -/
theorem cos_elementwise (f : Rat → Rat) (z : List Rat) (i : Nat) :
    (mapSeries f z).length = z.length ∧ (mapSeries f z)[i]? = (z[i]?).map f := by
  simp [mapSeries]

/-- for ANY column transformer: column `j` of the result is the transformer fitted on column `j` of the
fit data applied to column `j` -/
theorem adaptor_columnwise {P} (t : ColTransformer P) (Zfit Z : List (List Rat)) (h : Zfit.length = Z.length)
    (j : Nat) :
    ∃ r, adaptor t Zfit Z = .ok r ∧ r.length = Z.length ∧
      r[j]? = (Zfit[j]?).bind (fun cf => (Z[j]?).map (fun c => t.apply (t.fit cf) c)) :=
  Lem.adaptor_getElem? t Zfit Z h j

/-- the MinMaxScaler instance used in the correspondence is `(x − min) / (max − min)` -/
theorem minMax_closed_form (col : List Rat) (lo hi : Rat) (hlo : min? col = some lo) (hhi : max? col = some hi)
    (hne : hi ≠ lo) (c : List Rat) :
    minMax.apply (minMax.fit col) c = c.map (fun x => (x - lo) / (hi - lo)) :=
  Lem.minMax_apply col lo hi hlo hhi hne c


/-! ## SlopeTransformer (the gradient `(w + sqrt(w²+r²))/r` is irrational: the model returns `(w, r)`) -/

/-- what the correspondence compares: `m − 1/m = 2w/r` holds exactly for the roots of the total-least-squares
quadratic `r·m² − 2w·m − r = 0` -/
theorem slope_gradient_encoding (w r m : Rat) (hr : r ≠ 0) (hm : m ≠ 0) :
    m - 1 / m = 2 * w / r ↔ r * m ^ 2 - 2 * w * m - r = 0 := Lem.tls_encoding w r m hr hm

/-- the two roots are negative reciprocals, so the sign (printed next to `2w/r`) picks the gradient; the
reciprocal of the gradient is never the other root -/
theorem slope_roots_are_negative_reciprocals (w r m m' : Rat) (hr : r ≠ 0) (hne : m ≠ m')
    (h : r * m ^ 2 - 2 * w * m - r = 0) (h' : r * m' ^ 2 - 2 * w * m' - r = 0) : m * m' = -1 :=
  Lem.tls_roots_product w r m m' hr hne h h'

/-- exactly `num_intervals` segments per series (the model's exact-arithmetic split) -/
theorem slope_number_of_segments (k : Nat) (xs : List Rat) : (slopeSegments k xs).length = k :=
  Lem.slopeSegments_length k xs


-- non-vacuity
example : WellShaped [[[1, 2, 3], [4, 5]], [[6], [7, 8, 9, 10]]] :=
  ⟨by simp, by intro i hi; simp at hi; rcases hi with rfl | rfl <;> simp⟩
example : pad none 0 [[[1, 2, 3], [4, 5]], [[6], [7, 8, 9, 10]]] [[[1, 2, 3], [4, 5]], [[6], [7, 8, 9, 10]]]
    = .ok [[[1, 2, 3, 0], [4, 5, 0, 0]], [[6, 0, 0, 0], [7, 8, 9, 10]]] := by decide
example : truncate (some 1) (some 3) [[[1, 2, 3], [4, 5, 7]]] [[[1, 2, 3], [4, 5, 7]]]
    = .ok [[[2, 3], [5, 7]]] := by decide
example : Columns [[[1, 2, 3], [4, 5]], [[6, 0, 1], [7, 8]]] 2 := by
  intro i hi; simp at hi; rcases hi with rfl | rfl <;> rfl
example : tabularize [[[1, 2, 3], [4, 5]], [[6, 0, 1], [7, 8]]] = .ok [[1, 2, 3, 4, 5], [6, 0, 1, 7, 8]] := by decide
example : paaSeries 3 [1, 2, 3, 4, 5, 6, 7] = [12 / 7, 4, 44 / 7] := by decide +kernel
example : univariateTable [[[1, 2, 3, 4]], [[5, 6, 7, 8]]] = .ok [[1, 2, 3, 4], [5, 6, 7, 8]] := by decide
example : slidingWindow (.int 3) [[[1, 2, 3, 4]]] = .ok [[[1, 1, 2], [1, 2, 3], [2, 3, 4], [3, 4, 4]]] := by decide
example : ([0, 3, 7] : List Nat).Pairwise (· ≤ ·) := by decide
example : interpolate (.int 4) [[[1, 2, 3]]] = .ok [[[1, 5 / 3, 7 / 3, 3]]] := by decide +kernel
example : Spec.IsPrevValid [none, some 1, none, none, some 4] 2 1 1 := by
  refine ⟨by omega, rfl, ?_⟩
  intro t h1 h2; omega
example : Spec.IsNextValid [none, some 1, none, none, some 4] 2 4 4 := by
  refine ⟨by omega, rfl, ?_⟩
  intro t h1 h2
  have : t = 3 := by omega
  subst this; rfl
example : impute .linear none none [none, some 1, none, none, some 4] = .ok [some 1, some 1, some 2, some 3, some 4] := by
  decide +kernel
example : rife [.mean, .max] [(1, 3), (0, 2)] [[[1, 2, 3, 4]]] = .ok [[some (5 / 2), some (3 / 2), some 3, some 2]] := by
  decide +kernel
example : Spec.lagProduct (Spec.deviations [1, 3, 2]) 0 ≠ 0 := by decide +kernel
example : acf false 1 [1, 3, 2] = .ok [some 1, some (-1 / 2)] := by decide +kernel
example : iseg (.count 3) [[[1, 2, 3, 4, 5, 6, 7]]] [[[1, 2, 3, 4, 5, 6, 7]]] = .ok [[[1, 2, 3], [4, 5], [6, 7]]] := by
  decide +kernel
example : impute .drift none none [none, some 5, some (-1)] = .ok [some 6, some 5, some (-1)] := by decide +kernel
example : impute .ffill none (some 0) [some 3, some 0, some 0] = .ok [some 3, some 3, some 3] := by decide +kernel
-- integer-valued cells padded with a NaN / fractional fill value (values in `Option Rat`, `none` = NaN)
example : pad (α := Option Rat) none none [[[some 1, some 2, some 3]], [[some 9]]] [[[some 1, some 2, some 3]], [[some 9]]]
    = .ok [[[some 1, some 2, some 3]], [[some 9, none, none]]] := by decide
example : pad (some 3) (some (1 / 2 : Rat)) [[[some 4]]] [[[some 4]]] = .ok [[[some 4, some (1 / 2), some (1 / 2)]]] := by
  decide +kernel
-- a ramp of slope 3: (w, r) = (16, 12), and m = 3 satisfies 12·m² − 32·m − 12 = 0 with m − 1/m = 8/3 = 2w/r
example : slopeWR [1, 4, 7] = (16, 12) := by decide +kernel
example : slopeSegments 3 [1, 2, 4, 8, 16, 32, 5] = [[1, 2], [4, 8], [16, 32, 5]] := by decide +kernel

end SkVerif.C14
