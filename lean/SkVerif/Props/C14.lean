/- Property theorems for C14 (stub: not built yet). -/
namespace SkVerif.C14
end SkVerif.C14
