/-
C14  Closed-form transformers compute exactly the function they document.

Property theorems about the executable models in SkVerif/Model/C14*.lean, each proved equal to an
independently written specification in SkVerif/Spec/C14*.lean, for ALL panels / series, lengths and
parameters.  Only theorems and non-vacuity examples live here; lemmas are in SkVerif/Lemmas/C14*.lean.
-/
import SkVerif.Lemmas.C14Panel
namespace SkVerif.C14
open SkVerif SkVerif.C14

/-- at least one instance, every instance has at least one column (what `check_X` demands) -/
abbrev WellShaped (X : Panel) : Prop := Lem.WellShaped X
/-- every instance has `nc` columns (a DataFrame / 3-D array is rectangular in its columns) -/
abbrev Columns (X : Panel) (nc : Nat) : Prop := Lem.Columns X nc
/-- within each column all series are equally long -/
abbrev ColumnsEqualLength (X : Panel) (nc : Nat) : Prop := Lem.ColumnsEqualLength X nc

/-! ## Padding -/

/-- `_get_max_length` really is the length of the longest series of the panel. -/
theorem maxLength_is_longest (X : Panel) (h : WellShaped X) : Spec.IsMaxLength X (maxLength X) :=
  Lem.maxLength_isMax h

/-- PaddingTransformer with a requested length `p` at least the longest series: every cell becomes
its own values followed by the fill value up to length `p`; unequal lengths allowed. -/
theorem pad_eq_spec_requested (kind : CellKind) (hk : kind ≠ .array) (p : Int) (fill : Rat) (Xfit X : Panel)
    (hf : WellShaped Xfit) (hX : WellShaped X) (hp : (maxLength X : Int) ≤ p) :
    pad kind (some p) fill Xfit X = .ok (Spec.pad p.toNat fill X) := by
  simp only [pad, padFit, Lem.checkX_ok hf, bind, Except.bind, pure, Except.pure]
  exact Lem.padTransform_eq_spec kind hk p fill X hX hp

/-- PaddingTransformer without a requested length pads to the longest series seen in `fit`. -/
theorem pad_eq_spec_longest (kind : CellKind) (hk : kind ≠ .array) (fill : Rat) (Xfit X : Panel)
    (hf : WellShaped Xfit) (hX : WellShaped X) (hp : maxLength X ≤ maxLength Xfit) :
    pad kind none fill Xfit X = .ok (Spec.pad (maxLength Xfit) fill X) := by
  simp only [pad, padFit, Lem.checkX_ok hf, bind, Except.bind, pure, Except.pure]
  have := Lem.padTransform_eq_spec kind hk (maxLength Xfit : Int) fill X hX (by omega)
  simpa using this

/-- a padded series is the series followed by copies of the fill value -/
theorem pad_cell_is_series_then_fill (L : Nat) (fill : Rat) (c : Cell) (h : c.length ≤ L) :
    Spec.padCell L fill c = c ++ List.replicate (L - c.length) fill := Lem.padCell_prefix L fill c h

/-- a series longer than the fitted / requested length is rejected, never cut -/
theorem pad_rejects_longer (kind : CellKind) (L : Int) (fill : Rat) (X : Panel) (hX : WellShaped X)
    (h : L < (maxLength X : Int)) : padTransform kind L fill X = .error .value :=
  Lem.padTransform_rejects kind L fill X hX h

/-- KNOWN FINDING (pad:array-cells-rejected): the full-strength statement is `pad_eq_spec_*` for every
cell kind; for ndarray cells the code raises AttributeError instead. -/
theorem pad_array_cells_rejected_witness :
    pad .array (some 4) 0 [[[3]]] [[[1]]] = .error .attr ∧ Spec.pad 4 0 [[[1]]] = [[[1, 0, 0, 0]]] := by
  decide

/-! ## Truncation -/

theorem minLength_is_shortest (X : Panel) (h : WellShaped X) : Spec.IsMinLength X (minLength X) :=
  Lem.minLength_isMin h

/-- TruncationTransformer() keeps the first `m` values of every series, `m` the shortest series seen
in `fit` (which must not be longer than the shortest series transformed). -/
theorem truncate_eq_spec_shortest (kind : CellKind) (hk : kind ≠ .array) (Xfit X : Panel)
    (hf : WellShaped Xfit) (hX : WellShaped X) (h : minLength Xfit ≤ minLength X) :
    truncate kind none none Xfit X = .ok (Spec.truncate 0 (minLength Xfit) X) := by
  simp only [truncate, truncFit, Lem.checkX_ok hf, bind, Except.bind, pure, Except.pure]
  exact Lem.truncTransform_eq_spec kind hk _ none X hX 0 (minLength Xfit) (Nat.zero_le _) h (by omega)
    (by simp [truncIdxs])

/-- TruncationTransformer(lower=l) keeps the first `l` values. -/
theorem truncate_eq_spec_lower (kind : CellKind) (hk : kind ≠ .array) (l : Nat) (Xfit X : Panel)
    (hf : WellShaped Xfit) (hX : WellShaped X) (h : l ≤ minLength X) :
    truncate kind (some l) none Xfit X = .ok (Spec.truncate 0 l X) := by
  simp only [truncate, truncFit, Lem.checkX_ok hf, bind, Except.bind, pure, Except.pure]
  exact Lem.truncTransform_eq_spec kind hk _ none X hX 0 l (Nat.zero_le _) h (by omega) (by simp [truncIdxs])

/-- TruncationTransformer(lower=l, upper=u) keeps exactly positions `l … u-1` (upper exclusive). -/
theorem truncate_eq_spec_range (kind : CellKind) (hk : kind ≠ .array) (l u : Nat) (Xfit X : Panel)
    (hf : WellShaped Xfit) (hX : WellShaped X) (hlu : l ≤ u) (h : u ≤ minLength X) :
    truncate kind (some l) (some u) Xfit X = .ok (Spec.truncate l u X) := by
  simp only [truncate, truncFit, Lem.checkX_ok hf, bind, Except.bind, pure, Except.pure]
  exact Lem.truncTransform_eq_spec kind hk _ (some (u : Int)) X hX l u hlu h (by omega) (by simp [truncIdxs])

/-- a panel with a series shorter than the fitted / requested lower bound is rejected -/
theorem truncate_rejects_shorter (kind : CellKind) (lo : Int) (upper : Option Int) (X : Panel)
    (hX : WellShaped X) (h : (minLength X : Int) < lo) : truncTransform kind lo upper X = .error .value := by
  simp [truncTransform, Lem.checkX_ok hX, h, bind, Except.bind]

/-- KNOWN FINDING (trunc:array-cells-rejected) -/
theorem truncate_array_cells_rejected_witness :
    truncate .array (some 1) none [[[3, 1]]] [[[3, 1]]] = .error .attr ∧ Spec.truncate 0 1 [[[3, 1]]] = [[[3]]] := by
  decide

/-! ## Output lengths and rows for padding / truncation -/

/-- padding returns exactly the requested length in every cell, whatever the input lengths -/
theorem pad_output_lengths_exact (L : Nat) (fill : Rat) (X : Panel) :
    ∀ inst ∈ Spec.pad L fill X, ∀ c ∈ inst, c.length = L := by
  intro inst hi c hc
  obtain ⟨i0, _, rfl⟩ := List.mem_map.mp hi
  obtain ⟨c0, _, rfl⟩ := List.mem_map.mp hc
  exact Lem.padCell_length L fill c0

/-- truncation returns exactly `hi - lo` values in every cell when the range exists in every series -/
theorem truncate_output_lengths_exact (lo hi : Nat) (X : Panel) (h : hi ≤ minLength X) :
    ∀ inst ∈ Spec.truncate lo hi X, ∀ c ∈ inst, c.length = hi - lo := by
  intro inst hi' c hc
  obtain ⟨i0, hi0, rfl⟩ := List.mem_map.mp hi'
  obtain ⟨c0, hc0, rfl⟩ := List.mem_map.mp hc
  exact Lem.slice_length lo hi c0 (Nat.le_trans h (Lem.minLength_le hi0 hc0))

/-- one output row per instance, in input order, each with the same columns: row `i` of the output is
the transformed row `i` of the input (padding). -/
theorem pad_rows_preserved_in_order (L : Nat) (fill : Rat) (X : Panel) (i : Nat) :
    (Spec.pad L fill X).length = X.length ∧
    (Spec.pad L fill X)[i]? = (X[i]?).map (fun inst => inst.map (Spec.padCell L fill)) := by
  simp [Spec.pad]

theorem truncate_rows_preserved_in_order (lo hi : Nat) (X : Panel) (i : Nat) :
    (Spec.truncate lo hi X).length = X.length ∧
    (Spec.truncate lo hi X)[i]? = (X[i]?).map (fun inst => inst.map (Spec.slice lo hi)) := by
  simp [Spec.truncate]

/-! ## Tabularizer / ColumnConcatenator -/

/-- Tabularizer: row `i` is instance `i`'s columns one after the other, each in time order. -/
theorem tabularize_eq_spec (X : Panel) (nc : Nat) (hX : WellShaped X) (hc : Columns X nc)
    (heq : ColumnsEqualLength X nc) : tabularize X = .ok (Spec.tabularize X) :=
  Lem.tabularize_eq_spec X nc hX hc heq

/-- column-then-time order, by position: with all series of length `T`, value `t` of column `j` of
instance `i` is at position `j*T + t` of row `i`. -/
theorem tabularize_column_then_time (X : Panel) (T i j t : Nat) (ht : t < T)
    (hT : ∀ inst ∈ X, ∀ c ∈ inst, c.length = T) :
    ((Spec.tabularize X)[i]?).bind (fun row => row[j * T + t]?) =
      ((X[i]?).bind (fun inst => inst[j]?)).bind (fun c => c[t]?) := by
  simp only [Spec.tabularize, List.getElem?_map]
  cases hi : X[i]? with
  | none => simp
  | some inst =>
    have hmem : inst ∈ X := List.mem_of_getElem? hi
    simp only [Option.map_some, Option.bind_some]
    exact Lem.flatten_uniform_getElem? inst T (hT inst hmem) j t ht

/-- a column whose series have different lengths has no tabular form and is rejected -/
theorem tabularize_rejects_ragged (X : Panel) (nc : Nat) (hX : WellShaped X) (hc : Columns X nc)
    (j : Nat) (hj : j < nc) (a b : Inst) (ha : a ∈ X) (hb : b ∈ X)
    (hne : (a.getD j []).length ≠ (b.getD j []).length) : tabularize X = .error .value :=
  Lem.tabularize_rejects_ragged X nc hX hc j hj a b ha hb hne

/-- ColumnConcatenator: one column whose cell is the instance's columns concatenated in time. -/
theorem columnConcat_eq_spec (X : Panel) (nc : Nat) (hX : WellShaped X) (hc : Columns X nc)
    (heq : ColumnsEqualLength X nc) : columnConcat X = .ok (Spec.columnConcat X) := by
  simp only [columnConcat, Lem.tabularize_eq_spec X nc hX hc heq, bind, Except.bind, pure, Except.pure]
  simp [nestRows, Spec.tabularize, Spec.columnConcat]

theorem tabularize_rows_preserved_in_order (X : Panel) (i : Nat) :
    (Spec.tabularize X).length = X.length ∧ (Spec.columnConcat X).length = X.length ∧
    (Spec.tabularize X)[i]? = (X[i]?).map List.flatten ∧
    (Spec.columnConcat X)[i]? = (X[i]?).map (fun inst => [inst.flatten]) := by
  simp [Spec.tabularize, Spec.columnConcat]

-- non-vacuity
example : WellShaped [[[1, 2, 3], [4, 5]], [[6], [7, 8, 9, 10]]] :=
  ⟨by simp, by intro i hi; simp at hi; rcases hi with rfl | rfl <;> simp⟩
example : pad .series none 0 [[[1, 2, 3], [4, 5]], [[6], [7, 8, 9, 10]]] [[[1, 2, 3], [4, 5]], [[6], [7, 8, 9, 10]]]
    = .ok [[[1, 2, 3, 0], [4, 5, 0, 0]], [[6, 0, 0, 0], [7, 8, 9, 10]]] := by decide
example : truncate .series (some 1) (some 3) [[[1, 2, 3], [4, 5, 7]]] [[[1, 2, 3], [4, 5, 7]]]
    = .ok [[[2, 3], [5, 7]]] := by decide
example : Columns [[[1, 2, 3], [4, 5]], [[6, 0, 1], [7, 8]]] 2 := by
  intro i hi; simp at hi; rcases hi with rfl | rfl <;> rfl
example : tabularize [[[1, 2, 3], [4, 5]], [[6, 0, 1], [7, 8]]] = .ok [[1, 2, 3, 4, 5], [6, 0, 1, 7, 8]] := by decide

end SkVerif.C14
