/-
C13  Series transformers are invertible, index-preserving and aligned in time.
Property theorems about SkVerif/Model/SeriesTransform.lean.  Only theorems + non-vacuity examples.

Reading guide (model names ↔ sktime):
  `desTransform s false/true`  Deseasonalizer.transform / inverse_transform   `desUpdate` .update   `desFit` .fit
  `detApply reg s false/true`  Detrender.transform / inverse_transform        `detUpdate`, `detFit`
  `colApply s f`               BoxCoxTransformer / LogTransformer / TabularToSeriesAdaptor around the library map `f`
  `stepBasic` / `step` / `run` one public call / incl. fit_transform / a history of calls on one object
Values are `Option Rat` (`none` = NaN or ±inf), so every statement covers all finite inputs under
exact arithmetic and says where non-finite values go.
-/
import SkVerif.Model.SeriesTransform
import SkVerif.Lemmas.SeriesAlign
import SkVerif.Lemmas.SeriesRound
import SkVerif.Lemmas.SeriesPhase
import SkVerif.Lemmas.SeriesShift
import SkVerif.Lemmas.SeriesMachine
import SkVerif.Lemmas.HampelPos
import SkVerif.Lemmas.SeriesRefit
namespace SkVerif.C13
open SkVerif SkVerif.ST SkVerif.Lem.ST

-- =============================================================================================
-- 1. alignment of the seasonal component

/-- `_align_seasonal`, for EVERY start label `t` of the transformed stretch (before, inside or after
the training series) and every reference `y0`: position `i` receives the seasonal value of phase
`(t + i - y0) mod sp`. -/
theorem aligned_seasonal_eq_phase (sp : Nat) (seas : List Rat) (hlen : seas.length = sp) (hsp : 0 < sp)
    (y0 t : Int) (v : Val) (rest : Series) (i : Nat) (hi : i < rest.length + 1) :
    (alignSeasonal sp seas y0 ((t, v) :: rest))[i]? = seas[((t + (i : Int) - y0) % (sp : Int)).toNat]? :=
  alignSeasonal_getElem? sp seas hlen hsp y0 t v rest i hi

/-- On a stretch of time (labels `t, t+1, …`) transform / inverse_transform remove / restore, at
each label, the seasonal value of that label's phase relative to the stored reference: a function of
`(label - y0) mod sp` only — not of where the stretch starts. -/
theorem deseason_component_depends_on_phase_only (s : Des) (hwf : DesWF s) (seas : List Rat) (y0 : Int)
    (hf : s.fitted = true) (hs : s.seasonal = some seas) (hy : s.y0 = some y0)
    (inv : Bool) (t : Int) (z : Series) (hv : checkSeries false (.series z) = .ok z) (hc : Contiguous t z) :
    desTransform s inv (.series z)
      = (s, .ser (z.map (fun p => (p.1, desOp s.mult inv p.2 (phaseVal s.sp seas y0 p.1))))) :=
  desTransform_contiguous s hwf seas y0 hf hs hy inv t z hv hc

/-- inverse_transform(transform(z)) = z for the deseasonalizer, same index, every series the
transformer accepts (any labels, NaN stay NaN): additive always; multiplicative when no seasonal
value is 0 (statsmodels' multiplicative components are positive). -/
theorem deseason_inverse_roundtrip (s : Des) (hwf : DesWF s) (seas : List Rat) (hs : s.seasonal = some seas)
    (hnz : s.mult = true → ∀ c ∈ seas, c ≠ 0) (z zt : Series)
    (h : desTransform s false (.series z) = (s, .ser zt)) :
    desTransform s true (.series zt) = (s, .ser z) := by
  unfold desTransform at h ⊢
  by_cases hf : s.fitted = true
  · simp only [hf, Bool.not_true, Bool.false_eq_true, ↓reduceIte] at h ⊢
    cases hcs : checkSeries false (.series z) with
    | error e => simp [hcs] at h
    | ok z' =>
      have hz' := checkSeries_series_ok false z z' hcs
      subst hz'
      simp only [hcs, hs] at h ⊢
      cases hy : s.y0 with
      | none => simp [hy] at h
      | some y0 =>
        simp only [hy, Prod.mk.injEq, Out.ser.injEq, true_and] at h
        have hne : seas.length ≠ 0 := by have := hwf.2 seas hs; have := hwf.1; omega
        have hal := alignSeasonal_length s.sp seas hne y0 z'
        have hl : labels zt = labels z' := by rw [← h]; exact labels_desApply _ _ _ _ hal
        rw [checkSeries_labels false z' zt hl hcs]
        simp only
        rw [alignSeasonal_congr s.sp seas y0 z' zt hl, ← h]
        rw [desApply_roundtrip s.mult z' _ hal
          (fun hm c hc => hnz hm c (mem_alignSeasonal _ _ _ _ _ hc))]
  · simp [hf] at h

-- =============================================================================================
-- 2. the phase does not depend on the history (full strength since repo commit 1ad9b8f)

/-- every call that is not a SUCCESSFUL re-fit: update / transform / inverse_transform on anything,
and `fit` / `fit_transform` calls whose fit raises -/
def KeepsTraining (s : Des) : Op → Prop
  | .fit inp d => ∃ e, (desFit s inp d).2 = .err e
  | .fitTransform inp d _ => ∃ e, (desFit s inp d).2 = .err e
  | _ => True

/-- the object after a history of calls -/
def finalState (reg : Reg) (st : TState) (ops : List Op) : TState :=
  ops.foldl (fun st op => (step reg st op).1) st

/-- none of these calls changes the deseasonalizer: `update` only validates, a failing `fit`
touches nothing, transform / inverse_transform are pure. -/
theorem keeps_training_keeps_state (reg : Reg) (s : Des) (op : Op) (h : KeepsTraining s op) :
    (step reg (.des s) op).1 = .des s := by
  cases op with
  | fit inp d =>
    obtain ⟨e, he⟩ := h
    simp only [step, stepBasic, desFit_error_state s inp d e he]
  | fitTransform inp d f =>
    obtain ⟨e, he⟩ := h
    simp only [step, stepBasic, he, desFit_error_state s inp d e he]
  | update inp u => simp only [step, stepBasic, desUpdate_state]
  | transform inp f => simp only [step, stepBasic, desTransform_state]
  | inverse inp f => simp only [step, stepBasic, desTransform_state]

theorem keeps_training_history (reg : Reg) (s : Des) (ops : List Op) (h : ∀ op ∈ ops, KeepsTraining s op) :
    finalState reg (.des s) ops = .des s := by
  induction ops with
  | nil => rfl
  | cons op ops ih =>
    simp only [finalState, List.foldl_cons]
    rw [keeps_training_keeps_state reg s op (h op List.mem_cons_self)]
    exact ih (fun o ho => h o (List.mem_cons_of_mem _ ho))

/-- **the property clause at full strength**: once the reference is the training start `t0`, after
EVERY history of update / transform / inverse_transform calls (any inputs, any batch starts) and
failing re-fits, transform / inverse_transform of a stretch of time remove / restore at label `l`
the seasonal value of phase `(l - t0) mod sp`. -/
theorem phase_independent_of_updates (reg : Reg) (s : Des) (t0 : Int) (seas : List Rat)
    (h0 : PhaseRef s t0 seas) (ops : List Op) (hops : ∀ op ∈ ops, KeepsTraining s op)
    (inv : Bool) (t : Int) (z : Series) (hv : checkSeries false (.series z) = .ok z) (hc : Contiguous t z)
    (f : List Val → List Val) :
    (step reg (finalState reg (.des s) ops)
        (if inv then .inverse (.series z) f else .transform (.series z) f)).2
      = .ser (z.map (fun p => (p.1, desOp s.mult inv p.2 (phaseVal s.sp seas t0 p.1)))) := by
  rw [keeps_training_history reg s ops hops]
  obtain ⟨hf, hs, hwf, y0, hy, hm⟩ := h0
  have := desTransform_contiguous s hwf seas y0 hf hs hy inv t z hv hc
  have e : (fun p : Int × Val => (p.1, desOp s.mult inv p.2 (phaseVal s.sp seas t0 p.1)))
      = (fun p : Int × Val => (p.1, desOp s.mult inv p.2 (phaseVal s.sp seas y0 p.1))) := by
    funext p; rw [phaseVal_congr s.sp seas y0 t0 p.1 hm]
  rw [e]
  cases inv <;> simp only [step, stepBasic, this, Bool.false_eq_true, ↓reduceIte]

/-- the same, starting from the `fit` call: `fit(z₁) [update | transform | inverse | failing fit]* transform(z')`.
`t0` is the first label of the training series, `seas` the component statsmodels returned for it. -/
theorem phase_after_fit (reg : Reg) (s : Des) (hsp : 0 < s.sp) (inp : Input) (d : FitData)
    (hd : ∀ seas, d.seasonal = some seas → seas.length = s.sp)
    (hok : (step reg (.des s) (.fit inp d)).2 = .ok) :
    ∃ t0 seas v rest, checkSeries false inp = .ok ((t0, v) :: rest) ∧
      ∀ (ops : List Op), (∀ op ∈ ops, KeepsTraining (desFit s inp d).1 op) →
      ∀ (inv : Bool) (t : Int) (z : Series), checkSeries false (.series z) = .ok z → Contiguous t z →
      ∀ (f : List Val → List Val),
        (step reg (finalState reg (step reg (.des s) (.fit inp d)).1 ops)
            (if inv then .inverse (.series z) f else .transform (.series z) f)).2
          = .ser (z.map (fun p => (p.1, desOp s.mult inv p.2 (phaseVal s.sp seas t0 p.1)))) := by
  have hok' : (desFit s inp d).2 = .ok := by simpa [step, stepBasic] using hok
  obtain ⟨z1, seas, t0, v, rest, hcs, hz1, hp, hsp', hm'⟩ := desFit_phaseRef s hsp inp d hd hok'
  subst hz1
  refine ⟨t0, seas, v, rest, hcs, ?_⟩
  intro ops hops inv t z hv hc f
  have := phase_independent_of_updates reg (desFit s inp d).1 t0 seas hp ops hops inv t z hv hc f
  rw [hsp', hm'] at this
  simpa [step, stepBasic] using this

/-- a fitted additive deseasonalizer, sp = 2, trained from label 0, seasonal component (1, -1) -/
def witnessDes : Des :=
  { sp := 2, mult := false, cond := false, y0 := some 0, seasonal := some [1, -1], fitted := true }

-- =============================================================================================
-- 3. Detrender

/-- inverse_transform(transform(z)) = z for the detrender, same index, for EVERY embedded
regression `reg`, every state (after any updates), every stretch (training, later, overlapping,
earlier); NaN stay NaN. -/
theorem detrend_roundtrip (reg : Reg) (s s1 : Det) (z zt : Series)
    (h : detApply reg s false (.series z) = (s1, .ser zt)) :
    detApply reg s1 true (.series zt) = (s1, .ser z) := by
  unfold detApply at h
  by_cases hf : s.fitted = true
  · simp only [hf, Bool.not_true, Bool.false_eq_true, ↓reduceIte] at h
    cases hcs : checkSeries false (.series z) with
    | error e => simp [hcs] at h
    | ok z' =>
      have hz' := checkSeries_series_ok false z z' hcs
      subst hz'
      simp only [hcs] at h
      cases hfc : s.fc with
      | none => simp [hfc] at h
      | some fc =>
        simp only [hfc] at h
        by_cases hnd : (labels z').Nodup
        · simp only [hnd, decide_true, Bool.not_true, Bool.false_eq_true, ↓reduceIte] at h
          cases htr : fc.train with
          | none => cases hh : fc.origin <;> simp [htr, hh] at h
          | some tv =>
            cases hh : fc.origin with
            | none => simp [htr, hh] at h
            | some o =>
              simp only [htr, hh, Prod.mk.injEq, Out.ser.injEq] at h
              obtain ⟨hs1, hzt⟩ := h
              subst hs1
              have hl : labels zt = labels z' := by
                rw [← hzt]; simp [labels, List.map_map, Function.comp_def]
              unfold detApply
              simp only [Bool.not_true, Bool.false_eq_true, ↓reduceIte]
              rw [checkSeries_labels false z' zt hl hcs]
              simp only [hl, hnd, decide_true, Bool.not_true, Bool.false_eq_true, ↓reduceIte]
              rw [← hzt]
              simp only [List.map_map, Function.comp_def, vadd_vsub, Prod.mk.eta, List.map_id']
        · simp [hnd] at h
  · simp [hf] at h

/-- the trend removed / restored at a time point is a function of that point's LABEL and of the
object's state only — not of the position inside the passed series. -/
theorem detrend_trend_is_function_of_label (reg : Reg) (s : Det) :
    ∃ trend : Int → Rat, ∀ (inv : Bool) (z : Series) (s' : Det) (out : Series),
      detApply reg s inv (.series z) = (s', .ser out) →
      out = z.map (fun p => (p.1, (if inv then vadd else vsub) p.2 (trend p.1))) := by
  cases hfc : s.fc with
  | none =>
    refine ⟨fun _ => 0, ?_⟩
    intro inv z s' out h
    unfold detApply at h
    split at h
    · simp at h
    · split at h
      · simp at h
      · simp [hfc] at h
  | some fc =>
    cases htr : fc.train with
    | none =>
      refine ⟨fun _ => 0, ?_⟩
      intro inv z s' out h
      unfold detApply at h
      split at h
      · simp at h
      · split at h
        · simp at h
        · simp only [hfc, htr] at h
          split at h
          · simp at h
          · cases fc.origin <;> simp at h
    | some tv =>
      cases hh : fc.origin with
      | none =>
        refine ⟨fun _ => 0, ?_⟩
        intro inv z s' out h
        unfold detApply at h
        split at h
        · simp at h
        · split at h
          · simp at h
          · simp only [hfc, htr, hh] at h
            split at h <;> simp at h
      | some o =>
        refine ⟨fun l => reg s.degree tv (l - o), ?_⟩
        intro inv z s' out h
        unfold detApply at h
        split at h
        · simp at h
        · split at h
          · simp at h
          · rename_i z' hcs
            have := checkSeries_series_ok false z z' hcs
            subst this
            simp only [hfc, htr, hh] at h
            split at h
            · simp at h
            · simp only [Prod.mk.injEq, Out.ser.injEq] at h
              exact h.2.symm

/-- An `update(update_params=False)` that succeeds re-estimates nothing, and it changes no later
transform / inverse_transform result of the detrender — for ANY batch (later, overlapping, earlier,
empty): a stretch detrended before it is restored exactly after it (with `detrend_roundtrip`).
Full strength since repo commit ea521a6 (the origin of the regression's time axis is remembered at fit). -/
theorem detrend_update_without_refit_keeps_trend (reg : Reg) (s s' : Det) (inp0 : Input)
    (hupd : detUpdate s inp0 false = (s', .ok)) (inv : Bool) (inp : Input) :
    (detApply reg s' inv inp).2 = (detApply reg s inv inp).2 := by
  unfold detUpdate at hupd
  by_cases hf : s.fitted = true
  · simp only [hf, Bool.not_true, Bool.false_eq_true, ↓reduceIte] at hupd
    cases hcs : checkSeries true inp0 with
    | error e => simp [hcs] at hupd
    | ok z' =>
      simp only [hcs] at hupd
      cases hfc : s.fc with
      | none => simp [hfc] at hupd
      | some fc =>
        simp only [hfc, Bool.not_false, ↓reduceIte, Prod.mk.injEq, and_true] at hupd
        subst hupd
        unfold detApply
        simp only [hf, Bool.not_true, Bool.false_eq_true, ↓reduceIte, hfc]
        cases checkSeries false inp with
        | error e => rfl
        | ok zz =>
          simp only
          split
          · rfl
          · cases fc.train with
            | none => rfl
            | some tv => cases fc.origin <;> rfl
  · simp [hf] at hupd

/-- the detrender fitted on labels 3, 4 (values 14, 16: trend 14 + 2·(t − 3)) -/
def witnessDet : Det := (detFit { degree := 1 } (.series [(3, some 14), (4, some 16)])).1

-- =============================================================================================
-- 4. Box-Cox / log / tabular adaptor around an uninterpreted library map

/-- Box-Cox / log round trip, stated for ANY element-wise pair `g`, `ginv` with
`g x = y finite → ginv y = x` (the hypothesis on scipy's `boxcox`/`inv_boxcox` at the fitted
lambda, resp. `log`/`exp`): the inverse of the transform exists, has the index of `z`, and returns
`z`'s value wherever the transformed value is finite. -/
theorem boxcox_roundtrip (g ginv : Val → Val)
    (hinv : ∀ x y, g (some x) = some y → ginv (some y) = some x)
    (s : Col) (z zt : Series) (h1 : colApply s (List.map g) (.series z) = (s, .ser zt)) :
    ∃ zb, colApply s (List.map ginv) (.series zt) = (s, .ser zb) ∧ labels zb = labels z ∧
      ∀ (i : Nat) (t : Int) (x y : Rat),
        z[i]? = some (t, some x) → zt[i]? = some (t, some y) → zb[i]? = some (t, some x) := by
  unfold colApply at h1
  by_cases hf : s.fitted = true
  · simp only [hf, Bool.not_true, Bool.false_eq_true, ↓reduceIte] at h1
    cases hcs : checkSeries false (.series z) with
    | error e => simp [hcs] at h1
    | ok z' =>
      have hz' := checkSeries_series_ok false z z' hcs
      subst hz'
      simp only [hcs, List.length_map, values, ne_eq, not_true_eq_false, ↓reduceIte, Prod.mk.injEq,
        Out.ser.injEq, true_and] at h1
      have hzt : zt = z'.map (fun p => (p.1, g p.2)) := by
        rw [← h1]; exact zip_labels_map_values z' g
      have hl : labels zt = labels z' := by
        rw [hzt]; simp [labels, List.map_map, Function.comp_def]
      refine ⟨zt.map (fun p => (p.1, ginv p.2)), ?_, ?_, ?_⟩
      · unfold colApply
        simp only [hf, Bool.not_true, Bool.false_eq_true, ↓reduceIte]
        rw [checkSeries_labels false z' zt hl hcs]
        simp only [List.length_map, values, ne_eq, not_true_eq_false, ↓reduceIte, Prod.mk.injEq,
          Out.ser.injEq, true_and]
        exact zip_labels_map_values zt ginv
      · rw [← hl]; simp [labels, List.map_map, Function.comp_def]
      · intro i t x y hz hzti
        rw [hzt, List.getElem?_map, hz] at hzti
        simp only [Option.map_some, Option.some.injEq, Prod.mk.injEq, true_and] at hzti
        rw [List.getElem?_map, hzt, List.getElem?_map, hz]
        simp only [Option.map_some, Option.some.injEq, Prod.mk.injEq, true_and]
        rw [hzti]; exact hinv x y hzti
  · simp [hf] at h1

/-- column-wise version (TabularToSeriesAdaptor): for ANY pair of column maps with
`finv (f xs) = xs` (the fitted sklearn transformer and its inverse), whenever transform returns a
series, inverse_transform of it returns `z` exactly, index included. -/
theorem adaptor_roundtrip (f finv : List Val → List Val)
    (hinv : ∀ xs, finv (f xs) = xs)
    (s : Col) (z zt : Series) (h1 : colApply s f (.series z) = (s, .ser zt)) :
    colApply s finv (.series zt) = (s, .ser z) := by
  unfold colApply at h1
  by_cases hf : s.fitted = true
  · simp only [hf, Bool.not_true, Bool.false_eq_true, ↓reduceIte] at h1
    cases hcs : checkSeries false (.series z) with
    | error e => simp [hcs] at h1
    | ok z' =>
      have hz' := checkSeries_series_ok false z z' hcs
      subst hz'
      simp only [hcs] at h1
      by_cases hlen : (f (values z')).length = z'.length
      · simp only [hlen, ne_eq, not_true_eq_false, ↓reduceIte, Prod.mk.injEq, Out.ser.injEq, true_and] at h1
        have hlen' : (f (values z')).length = (labels z').length := by simpa [labels] using hlen
        have hl : labels zt = labels z' := by rw [← h1]; exact labels_zip _ _ hlen'
        have hv : values zt = f (values z') := by rw [← h1]; exact values_zip _ _ hlen'
        unfold colApply
        simp only [hf, Bool.not_true, Bool.false_eq_true, ↓reduceIte]
        rw [checkSeries_labels false z' zt hl hcs]
        have hzl : zt.length = z'.length := by
          have := congrArg List.length hl; simpa [labels] using this
        have hvl : (values z').length = z'.length := by simp [values]
        simp only [hv, hinv, hl, hzl, hvl, ne_eq, not_true_eq_false, ↓reduceIte, zip_labels_values]
      · simp [hlen] at h1
  · simp [hf] at h1

-- =============================================================================================
-- 5. index preservation (transformers tagged "transform-returns-same-time-index")

/-- the tagged transformers: (conditional) deseasonalizer with one seasonal value per phase,
detrender, Box-Cox, log, tabular adaptor -/
def Tagged : TState → Prop
  | .des s => DesWF s
  | .det _ => True
  | .col _ => True
  | _ => False

/-- whenever transform / inverse_transform of a tagged transformer returns a series, it carries
exactly the input's index (same labels, same order, same length). -/
theorem index_preserved (reg : Reg) (st : TState) (ht : Tagged st) (inv : Bool) (z : Series)
    (f : List Val → List Val) (st' : TState) (out : Series)
    (h : stepBasic reg st (if inv then .inverse (.series z) f else .transform (.series z) f) = (st', .ser out)) :
    labels out = labels z := by
  have hcs_of : ∀ z', checkSeries false (.series z) = .ok z' → z' = z := checkSeries_series_ok false z
  cases st with
  | des s =>
    have hd : (desTransform s inv (.series z)).2 = .ser out := by
      cases inv <;> simp only [stepBasic, Bool.false_eq_true, ↓reduceIte, Prod.mk.injEq] at h <;> exact h.2
    unfold desTransform at hd
    split at hd
    · simp at hd
    · split at hd
      · simp at hd
      · rename_i z' hcs
        have := hcs_of z' hcs
        subst this
        split at hd
        · rename_i seas y0 hs hy
          simp only [Out.ser.injEq] at hd
          rw [← hd]
          apply labels_desApply
          apply alignSeasonal_length
          have := ht.2 seas hs; have := ht.1; omega
        · simp at hd
  | det s =>
    have hd : (detApply reg s inv (.series z)).2 = .ser out := by
      cases inv <;> simp only [stepBasic, Bool.false_eq_true, ↓reduceIte, Prod.mk.injEq] at h <;> exact h.2
    obtain ⟨trend, htr⟩ := detrend_trend_is_function_of_label reg s
    have := htr inv z (detApply reg s inv (.series z)).1 out (by rw [← hd])
    rw [this]
    simp [labels, List.map_map, Function.comp_def]
  | col s =>
    have hd : (colApply s f (.series z)).2 = .ser out := by
      cases inv
      · simp only [stepBasic, Bool.false_eq_true, ↓reduceIte, Prod.mk.injEq] at h; exact h.2
      · simp only [stepBasic, ↓reduceIte] at h
        split at h
        · simp at h
        · simp only [Prod.mk.injEq] at h; exact h.2
    unfold colApply at hd
    split at hd
    · simp at hd
    · split at hd
      · simp at hd
      · rename_i z' hcs
        have := hcs_of z' hcs
        subst this
        dsimp only at hd
        split at hd
        · simp at hd
        · rename_i hlen
          simp only [Out.ser.injEq] at hd
          rw [← hd]
          apply labels_zip
          simp only [ne_eq, Decidable.not_not] at hlen
          simpa [labels] using hlen
  | hampel cfg fitted => exact absurd ht (by simp [Tagged])
  | pass p i h' fl ft => exact absurd ht (by simp [Tagged])

/-- OptionalPassthrough(passthrough=True) returns the validated input itself -/
theorem passthrough_returns_input (reg : Reg) (p i : TState) (h : Bool) (inv : Bool) (z : Series)
    (f : List Val → List Val) (hi : hasInverse p = true) (hv : checkSeries false (.series z) = .ok z) :
    (stepBasic reg (.pass p i h true true) (if inv then .inverse (.series z) f else .transform (.series z) f)).2
      = .ser z := by
  cases inv <;> simp [stepBasic, hv, hi]

-- =============================================================================================
-- 6. fit_transform = fit followed by transform

/-- `BaseTransformer.fit_transform` (no series transformer overrides it): if `fit` raises, so does
`fit_transform`, leaving the object as the failed `fit` left it; … -/
theorem fit_transform_fit_error (reg : Reg) (st : TState) (inp : Input) (d : FitData)
    (f : List Val → List Val) (e : Err) (h : (step reg st (.fit inp d)).2 = .err e) :
    step reg st (.fitTransform inp d f) = ((step reg st (.fit inp d)).1, .err e) := by
  simp only [step] at h ⊢
  rw [h]

/-- … otherwise its result and the object's state are those of `fit` followed by `transform`
on the same data. -/
theorem fit_transform_eq_fit_then_transform (reg : Reg) (st : TState) (inp : Input) (d : FitData)
    (f : List Val → List Val) (h : (step reg st (.fit inp d)).2 = .ok) :
    step reg st (.fitTransform inp d f) = step reg (step reg st (.fit inp d)).1 (.transform inp f) := by
  simp only [step] at h ⊢
  rw [h]

/-- the same as a statement about histories -/
theorem fit_transform_history (reg : Reg) (st : TState) (inp : Input) (d : FitData)
    (f : List Val → List Val) (h : (step reg st (.fit inp d)).2 = .ok) :
    run reg st [.fit inp d, .transform inp f] = [.ok, (step reg st (.fitTransform inp d f)).2]
    ∧ finalState reg st [.fit inp d, .transform inp f] = finalState reg st [.fitTransform inp d f] := by
  have := fit_transform_eq_fit_then_transform reg st inp d f h
  simp only [run, finalState, List.foldl_cons, List.foldl_nil, h, this, and_self]

-- =============================================================================================
-- 7. shifting the integer time index of all inputs (full strength since repo commit bc08df8)

/-- for EVERY series transformer of the model (deseasonalizers, detrender with any regression,
Box-Cox / log / adaptor with any library map, OptionalPassthrough around any of them, HampelFilter),
every state and every call: shifting the labels of the input — and of everything the object remembers —
by `c` shifts the labels of the output by `c` and leaves values and raised errors unchanged. -/
theorem shift_equivariance (reg : Reg) (c : Int) (st : TState) (op : Op) :
    step reg (shiftState c st) (shiftOp c op)
      = (shiftState c (step reg st op).1, shiftOut c (step reg st op).2) :=
  step_shift reg c st op

/-- a freshly constructed transformer remembers no label -/
def Fresh : TState → Prop
  | .des s => s.y0 = none
  | .det s => s.fc = none
  | .col _ => True
  | .hampel _ _ => True
  | .pass p i _ _ _ => Fresh p ∧ Fresh i

theorem shiftState_fresh (c : Int) (st : TState) (h : Fresh st) : shiftState c st = st := by
  induction st with
  | des s =>
    simp only [Fresh] at h
    simp only [shiftState, shiftDes, h, Option.map_none]
    cases s; simp_all
  | det s =>
    simp only [Fresh] at h
    simp only [shiftState, shiftDet, h, Option.map_none]
    cases s; simp_all
  | col s => rfl
  | hampel cfg f => rfl
  | pass p i h' fl ft ihp ihi => simp only [shiftState, ihp h.1, ihi h.2]

/-- histories: the same calls with all labels shifted, on a fresh object, return the shifted results -/
theorem shift_equivariance_history (reg : Reg) (c : Int) (st : TState) (hfresh : Fresh st) (ops : List Op) :
    run reg st (ops.map (shiftOp c)) = (run reg st ops).map (shiftOut c) := by
  have := run_shift reg c st ops
  rwa [shiftState_fresh c st hfresh] at this

/-- HampelFilter returns exactly the input's index, with either value of `return_bool` -/
theorem hampel_index_preserved (p : HampelPar) (z out : Series) (h : hampelOut p z = .ok out) :
    labels out = labels z :=
  hampelOut_labels p z out h

/-- `return_bool=True`: the result carries, at every position, the time point of the filtered series and
the flag 1 (True) exactly where the filter removed the value (or it was missing), 0 (False) elsewhere -/
theorem hampel_flags_mark_removed (cfg : HampelCfg) (z r out : Series) (hr : hampel cfg z = .ok r)
    (ho : hampelOut ⟨cfg, true⟩ z = .ok out) :
    labels out = labels z ∧ out.length = r.length ∧
      ∀ (i : Nat) (a b : Int × Val), r[i]? = some a → out[i]? = some b →
        b.1 = a.1 ∧ (a.2 = none → b.2 = some 1) ∧ (a.2 ≠ none → b.2 = some 0) := by
  have hout : out = hampelFlags r := by
    simp only [hampelOut, hr] at ho
    injection ho with ho
    rw [← ho]; rfl
  refine ⟨hampelOut_labels _ z out ho, ?_, ?_⟩
  · simp [hout, hampelFlags]
  · intro i a b ha hb
    rw [hout] at hb
    simp only [hampelFlags, List.getElem?_map, ha, Option.map_some, Option.some.injEq] at hb
    subst hb
    refine ⟨rfl, ?_, ?_⟩
    · intro h; simp [h]
    · intro h
      cases h2 : a.2 with
      | none => exact absurd h2 h
      | some x => simp

-- =============================================================================================
-- 8. a re-fit forgets the object's history (re-used objects: other data, set_params, fit again)

/-- Two objects of the same class with the same parameters — one freshly constructed, the other used
before on other data / with other parameters and re-configured with `set_params` — give the same
outcome for `fit` on the same data, and if it succeeds every later history of calls returns the same
results on both (`SameParams`: same constructor parameters; nothing is assumed about what either
object remembered). -/
theorem refit_forgets_history (reg : Reg) (a b : TState) (h : SameParams a b) (inp : Input) (d : FitData)
    (ops : List Op) (hok : (step reg a (.fit inp d)).2 = .ok) :
    run reg a (.fit inp d :: ops) = run reg b (.fit inp d :: ops) := by
  obtain ⟨h1, h2⟩ := fit_forgets reg a b h inp d
  simp only [run, step] at hok ⊢
  rw [← h1]
  simp only [List.cons.injEq, true_and]
  exact obsEq_run reg _ _ (h2 hok) ops

/-- a failing `fit` fails on both alike -/
theorem refit_same_outcome (reg : Reg) (a b : TState) (h : SameParams a b) (inp : Input) (d : FitData) :
    (step reg a (.fit inp d)).2 = (step reg b (.fit inp d)).2 :=
  (fit_forgets reg a b h inp d).1

-- =============================================================================================
-- non-vacuity: concrete objects meeting the hypotheses

-- a fitted passthrough=False→True re-configured object vs a fresh one
example : SameParams (.pass (.des witnessDes) (.des witnessDes) true true true)
    (.pass (.des witnessDes) (.des { sp := 2, mult := false, cond := false }) false true false) := ⟨rfl, rfl⟩
example : SameParams (.des witnessDes) (.des { sp := 2, mult := false, cond := false }) := ⟨rfl, rfl, rfl⟩


example : DesWF witnessDes := ⟨by decide, by intro seas h; simp [witnessDes] at h; subst h; rfl⟩
example : PhaseRef witnessDes 0 [1, -1] :=
  ⟨rfl, rfl, ⟨by decide, by intro seas h; simp [witnessDes] at h; subst h; rfl⟩, 0, rfl, by decide⟩
example : Contiguous 7 [(7, some 1), (8, none), (9, some 3)] := by
  intro i h
  simp only [List.length_cons, List.length_nil] at h
  match i, h with
  | 0, _ => rfl
  | 1, _ => rfl
  | 2, _ => rfl
example : checkSeries false (.series [(7, some 1), (8, none), (9, some 3)]) = .ok [(7, some 1), (8, none), (9, some 3)] := by
  decide +kernel
example : KeepsTraining witnessDes (.update (.series [(3, some 5)]) none) := trivial
example : KeepsTraining witnessDes (.fit (.series [(3, some 5)]) {}) := ⟨.value, by decide +kernel⟩
-- regression: the witnesses of the two fixed defects now satisfy the property in the model
example : (step polyReg (finalState polyReg (.des witnessDes) [.update (.series [(3, some 5)]) none])
    (.transform (.series [(0, some 0)]) id)).2 = .ser [(0, some (-1))] := by decide +kernel
example : (step polyReg (finalState polyReg (.des witnessDes) [.fit (.series [(3, some 5)]) {}])
    (.transform (.series [(0, some 0)]) id)).2 = .ser [(0, some (-1))] := by decide +kernel
example : (step polyReg (.hampel ⟨⟨3, 3, 1⟩, false⟩ true)
    (shiftOp 5 (.transform (.series [(0, some 1), (1, some 90), (2, some 2), (3, some 3), (4, some 4)]) id))).2
    = .ser [(5, some 1), (6, none), (7, some 2), (8, some 3), (9, some 4)] := by decide +kernel
-- return_bool=True on an index that does not start at 0: the flags sit on the input's time points
example : (step polyReg (.hampel ⟨⟨3, 3, 1⟩, true⟩ true)
    (shiftOp 5 (.transform (.series [(0, some 1), (1, some 90), (2, some 2), (3, some 3), (4, some 4)]) id))).2
    = .ser [(5, some 0), (6, some 1), (7, some 0), (8, some 0), (9, some 0)] := by decide +kernel
example : hampelOut ⟨⟨3, 3, 1⟩, true⟩ [(5, some 1), (6, some 90), (7, some 2), (8, some 3), (9, some 4)]
    = .ok [(5, some 0), (6, some 1), (7, some 0), (8, some 0), (9, some 0)] := by decide +kernel
example : (desTransform witnessDes false (.series [(-3, some 5), (-2, some 5)])).2 = .ser [(-3, some 6), (-2, some 4)] := by
  decide +kernel
example : Fresh (.det { degree := 1 }) := rfl
example : Tagged (.col { kind := .boxcox }) := trivial
-- regression: the witness of the defect fixed by ea521a6 (an earlier batch, update_params=False) now keeps the trend
example : (detUpdate witnessDet (.series [(-1, some 30)]) false).2 = .ok := by decide +kernel
example : (detApply polyReg (detUpdate witnessDet (.series [(-1, some 30)]) false).1 false
    (.series [(5, some (-30))])).2 = .ser [(5, some (-48))] := by decide +kernel
-- the ORIGINAL code read the origin from the first remembered time point at predict time: after that update the
-- first remembered label is -1, so label 5 sat at position 6 instead of 2 and the trend removed was 26 instead of 18
example : polyReg 1 [14, 16] (5 - (-1)) = 26 ∧ polyReg 1 [14, 16] (5 - 3) = 18 := by decide +kernel
example : (step polyReg (.det { degree := 1 }) (.fit (.series [(5, some 1), (6, some 3), (7, some 2)]) {})).2 = .ok := by
  decide +kernel

end SkVerif.C13
