/- Property theorems for C13 (stub: not built yet). -/
namespace SkVerif.C13
end SkVerif.C13
