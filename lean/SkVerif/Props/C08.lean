/-
C08  Tuning selects, exposes and refits the candidate with the best CV score.
Property theorems about SkVerif/Model/Tune.lean (model of sktime/forecasting/model_selection/_tune.py).
Only theorems + non-vacuity examples here; helper lemmas live in SkVerif/Lemmas/Tune.lean.

All theorems are universally quantified over candidate lists / grids, score functions (`ev`, the
per-fold scores evaluate() returns for a parameter set, NaN allowed), metric directions, base forecasters
(any `Machine`: any state type, any fit, any operations) and call sequences.

Three clauses of the property did not hold for the code as first checked; they were repaired in /repo
(3fa437d ranking direction, 2c34b70 `cutoff` consults `refit`, 2b9e886 `update_params` defaults) and the
model's three single definitions (`rankAscending`, `cutoffChecksRefit`, `tunerDefaultUpdateParams`) now state the
repaired behaviour; the clauses are proved here at full strength (see findings/C08.md, known_findings/C08.json).
-/
import SkVerif.Lemmas.Tune
import SkVerif.Lemmas.TuneSetParams
namespace SkVerif.C08
open SkVerif SkVerif.Tune SkVerif.Lem.Tune

/-! ### Candidates: grid search evaluates every combination -/

/-- the items of a grid dict as (name, listed values) -/
def items (d : GridDict) : List (String × List Val) := d.map (fun kv => (kv.1, valsOf kv.2))

/-- A parameter set is a candidate of the grid search iff, for one of the grid's dicts, it assigns to
every name of that dict (in sorted-name order) one of the values listed for it. -/
theorem grid_enumerates_every_combination (g : List GridDict) (p : Params) :
    p ∈ gridCandidates g ↔ ∃ d ∈ g, Picks p (sortItems (items d)) := by
  simp only [gridCandidates, List.mem_flatMap, mem_product, items]

/-- sorting the items of a dict loses and invents nothing -/
theorem grid_dict_items_kept (d : GridDict) : (sortItems (items d)).Perm (items d) := sortItems_perm _

/-- the number of candidates is the sum over the dicts of the product of the numbers of listed values -/
theorem grid_candidate_count (g : List GridDict) :
    (gridCandidates g).length = (g.map (fun d => prodLen (sortItems (items d)))).sum := by
  simp only [gridCandidates, List.length_flatMap, product_length, items]

/-- … and no combination of one dict is produced twice (values listed without repetition) -/
theorem grid_each_combination_once (d : GridDict) (h : ∀ kv ∈ d, (valsOf kv.2).Nodup) :
    (gridCandidates [d]).Nodup := by
  simp only [gridCandidates, List.flatMap_cons, List.flatMap_nil, List.append_nil]
  apply product_nodup
  intro it hit
  have hmem : it ∈ items d := (sortItems_perm _).mem_iff.mp hit
  simp only [items, List.mem_map] at hmem
  obtain ⟨kv, hkv, rfl⟩ := hmem
  exact h kv hkv

/-- a grid with an empty value list or a non-sequence value is rejected (ValueError), any other grid is
searched over exactly `gridCandidates` (`_check_param_grid` is library code emulated by the harness:
modelled, not verified) -/
theorem grid_validation (g : List GridDict) :
    candidatesOf (.grid g) =
      if g.any (fun d => d.any (fun kv => badVals kv.2))
      then .error .value else .ok (gridCandidates g) := by
  simp only [candidatesOf, checkParamGrid]
  split <;> rfl

example : gridCandidates [[("b", .seq ["1", "2"]), ("a", .seq ["x", "y"])], []] =
    [[("a", "x"), ("b", "1")], [("a", "x"), ("b", "2")], [("a", "y"), ("b", "1")], [("a", "y"), ("b", "2")], []] := by
  decide

/-! ### Every candidate is evaluated, on the same temporal splits -/

/-- Every evaluate() call the search makes receives the tuner's own `cv` and the series given to `fit`
— hence the same folds `cv.split(y)` (a function of the splitter and the series length, C01) — and a
candidate of the list; when the search succeeds the calls are exactly the candidates, in order, once each. -/
theorem same_splits_for_all_candidates (cv : CvSpec) (n : Int) (ev : Params → EvalOut) (cands : List Params) :
    (∀ c ∈ evalCalls cv n ev cands, foldsOf c.1 c.2.1 = foldsOf cv n ∧ c.2.2 ∈ cands) ∧
    (∀ gib r, search cands ev gib = .ok r → (evalCalls cv n ev cands).map (·.2.2) = cands) := by
  constructor
  · intro c hc
    obtain ⟨h1, h2, h3⟩ := evalCalls_args cv n ev cands c hc
    rw [h1, h2]; exact ⟨rfl, h3⟩
  · intro gib r h
    obtain ⟨outs, _, he, _⟩ := searchDir_spec h
    rw [evalCalls_of_ok cv n he]
    simp [Function.comp_def]

/-- Each row of `cv_results_` is an independent evaluate() run of its candidate: row `i` carries candidate
`i`'s parameters and the mean (pandas `mean`, NaN folds skipped) of the scores evaluate() gives for them. -/
theorem cv_row_eq_independent_evaluate {cands : List Params} {ev : Params → EvalOut} {gib : Bool}
    {r : SearchResult} (h : search cands ev gib = .ok r) :
    r.rows.length = cands.length ∧
    ∀ (i : Nat) (p : Params), cands[i]? = some p →
      ∃ s row, ev p = .ok s ∧ r.rows[i]? = some row ∧ row.params = p ∧ row.mean = colMean s := by
  obtain ⟨outs, _, he, _, hrows, _⟩ := searchDir_spec h
  have hlen := evalAll_ok_length he
  constructor
  · rw [hrows]
    exact mkRows_length (by simp [hlen]) (by simp [rank2_length, hlen])
  · intro i p hp
    obtain ⟨s, hs, hout⟩ := evalAll_ok_get he i p hp
    have hm : (outs.map colMean)[i]? = some (colMean s) := by simp [hout]
    have hr : (rank2 (rankAscending gib) (outs.map colMean))[i]? =
        some ((colMean s).map (rank2Of (rankAscending gib) (outs.map colMean))) := by
      rw [rank2_getElem?, hm]; rfl
    exact ⟨s, _, hs, by rw [hrows]; exact mkRows_getElem? hp hm hr, rfl, rfl⟩

/-- with no NaN fold the row's score is the plain arithmetic mean of the fold scores -/
theorem row_mean_is_arithmetic_mean (xs : List Rat) (hne : xs ≠ []) :
    colMean (xs.map some) = some (ratSum xs / (xs.length : Rat)) := by
  have hfin : finite (xs.map some) = xs := by
    simp [finite, List.filterMap_map]
  unfold colMean
  simp only [hfin]
  cases xs with
  | nil => exact absurd rfl hne
  | cons a t => simp

example : colMean [some 1, none, some 2] = some (3 / 2) := by decide +kernel

/-! ### Selection -/

/-- Ranking ascending and taking `argmin` selects a candidate whose mean score is finite and the LOWEST
finite mean; ranking descending selects the HIGHEST (any candidates, any scores). -/
theorem selection_follows_ranking_direction {cands : List Params} {ev : Params → EvalOut} {asc : Bool}
    {r : SearchResult} (h : searchDir cands ev asc = .ok r) :
    ∃ v, r.bestScore = some v ∧
      ∀ row ∈ r.rows, ∀ w, row.mean = some w → if asc then v ≤ w else w ≤ v := by
  obtain ⟨v, h1, h2, _⟩ := searchDir_select h
  exact ⟨v, h1, h2⟩

/-- For a loss (`greater_is_better = False`) the reported best score is finite and the LOWEST finite mean
CV score of `cv_results_`. -/
theorem best_is_min_for_loss {cands : List Params} {ev : Params → EvalOut} {r : SearchResult}
    (h : search cands ev false = .ok r) :
    ∃ v, r.bestScore = some v ∧ ∀ row ∈ r.rows, ∀ w, row.mean = some w → v ≤ w := by
  obtain ⟨v, h1, h2⟩ := selection_follows_ranking_direction (asc := rankAscending false) h
  exact ⟨v, h1, by simpa [rankAscending] using h2⟩

/-- For a score (`greater_is_better = True`) the reported best score is finite and the HIGHEST finite mean
CV score of `cv_results_`. -/
theorem best_is_max_for_score {cands : List Params} {ev : Params → EvalOut} {r : SearchResult}
    (h : search cands ev true = .ok r) :
    ∃ v, r.bestScore = some v ∧ ∀ row ∈ r.rows, ∀ w, row.mean = some w → w ≤ v := by
  obtain ⟨v, h1, h2⟩ := selection_follows_ranking_direction (asc := rankAscending true) h
  exact ⟨v, h1, by simpa [rankAscending] using h2⟩

/-- Both directions in one statement: the reported best is best in the direction the metric declares. -/
theorem best_in_declared_direction {cands : List Params} {ev : Params → EvalOut} {gib : Bool}
    {r : SearchResult} (h : search cands ev gib = .ok r) :
    ∃ v, r.bestScore = some v ∧
      ∀ row ∈ r.rows, ∀ w, row.mean = some w → if gib then w ≤ v else v ≤ w := by
  cases gib with
  | false => simpa using best_is_min_for_loss h
  | true => simpa using best_is_max_for_score h

/-- the witness of DESIGN §5 C08: scorer −MAE (`greater_is_better = True`), candidates scoring
−1.5, −11, 0 (before fix 3fa437d the tuner reported the one scoring −11) -/
def witnessCands : List Params := [[("strategy", "last")], [("strategy", "mean")], [("strategy", "drift")]]
def witnessEv : Params → EvalOut := fun p =>
  if p = [("strategy", "last")] then .ok [some (-3 / 2)]
  else if p = [("strategy", "mean")] then .ok [some (-11)]
  else .ok [some 0]

example : (search witnessCands witnessEv true).toOption.map (fun r => (r.bestIndex, r.bestScore, r.bestParams)) =
    some (2, some 0, [("strategy", "drift")]) := by decide +kernel

/-- Ties: the reported candidate is the FIRST one attaining the selected score — no earlier row has the
same mean (pandas `rank` method "average" gives tied candidates the same rank, `argmin` takes the first). -/
theorem ties_first {cands : List Params} {ev : Params → EvalOut} {gib : Bool} {r : SearchResult}
    (h : search cands ev gib = .ok r) :
    ∀ (j : Nat) (row : Row), j < r.bestIndex → r.rows[j]? = some row → row.mean ≠ r.bestScore := by
  obtain ⟨v, h1, _, h3⟩ := searchDir_select h
  intro j row hj hrow
  rw [h1]
  exact h3 j row hj hrow

/-- `best_index_`, `best_params_` and `best_score_` belong to one and the same candidate / row. -/
theorem best_params_index_score_consistent {cands : List Params} {ev : Params → EvalOut} {gib : Bool}
    {r : SearchResult} (h : search cands ev gib = .ok r) :
    r.bestIndex < cands.length ∧ cands[r.bestIndex]? = some r.bestParams ∧
    ∃ row, r.rows[r.bestIndex]? = some row ∧ row.params = r.bestParams ∧ row.mean = r.bestScore ∧
      ∃ s, ev r.bestParams = .ok s ∧ r.bestScore = colMean s := by
  obtain ⟨outs, rk, he, _, hrows, harg, hscore, hparams⟩ := searchDir_spec h
  have hlen := evalAll_ok_length he
  obtain ⟨hget, _, _⟩ := argminFirst_spec harg
  have hlt : r.bestIndex < cands.length := by
    have : r.bestIndex < (rank2 (rankAscending gib) (outs.map colMean)).length := by
      by_contra hc
      rw [List.getElem?_eq_none (by omega)] at hget
      cases hget
    simpa [rank2_length, hlen] using this
  have hc : cands[r.bestIndex]? = some r.bestParams := by
    rw [hparams, List.getElem?_eq_getElem hlt]; rfl
  obtain ⟨_, hrow⟩ := cv_row_eq_independent_evaluate h
  obtain ⟨s, row, hs, hr, hp, hm⟩ := hrow r.bestIndex r.bestParams hc
  obtain ⟨s', hs', hout⟩ := evalAll_ok_get he r.bestIndex r.bestParams hc
  have hss : s' = s := by rw [hs] at hs'; cases hs'; rfl
  have hbs : r.bestScore = colMean s := by
    rw [hscore]; simp [hout, hss]
  exact ⟨hlt, hc, row, hr, hp, by rw [hm, hbs], s, hs, hbs⟩

example : (search witnessCands witnessEv false).toOption.map (fun r => (r.bestIndex, r.bestParams)) =
    some (1, [("strategy", "mean")]) := by decide +kernel

/-! ### Refit and delegation -/

/-- What a successful `fit` establishes: the search result is stored, the tuner is fitted, and
`best_forecaster_` is a fresh clone carrying `best_params_`, fitted on the whole `(y, X, fh)` given to
`fit` iff `refit` (otherwise left unfitted). -/
theorem fit_refits_best_on_all_data {S Op V A C Y : Type} {m : Machine S Op V A} {cfg : Config C}
    {ev : C → Y → Params → EvalOut} {st st' : TState S} {y : Y} {a : A}
    (h : fitTuner m cfg ev st y a = (st', .ok ())) :
    ∃ cands r, candidatesOf cfg.source = .ok cands ∧ search cands (ev cfg.cv y) cfg.gib = .ok r ∧
      st'.result = some r ∧ st'.isFitted = true ∧
      (cfg.refit = true → ∃ s, m.fit (m.init r.bestParams) a = .ok s ∧ st'.best = some s) ∧
      (cfg.refit = false → st'.best = some (m.init r.bestParams)) :=
  fitTuner_ok_spec h

/-- every call of the tuner class is forwarded to the best forecaster exactly as written — also when
`update_params` is left to its default (both defaults are `True`) -/
theorem tuner_call_forwarded_unchanged {Op : Type} (u : UCall Op) : u.toCall.op = u.toCall.direct := by
  cases u <;> rfl

/-- Bisimulation: after `fit` with `refit=True`, for EVERY later sequence of calls of the tuner class
(predict, update, update_predict(_single) — with `update_params` given or left to its default —, cutoff, …
in any order and number) the tuner answers exactly what a forecaster constructed directly with `best_params_`
and fitted on the same whole `(y, X, fh)` answers to the same call text — value for value, exception for
exception (`update` answering `self` on both sides).
`hwb`: the base forecaster obeys C04 (a guarded method of an unfitted forecaster raises NotFittedError and
changes nothing). -/
theorem refit_delegation_bisim {S Op V A C Y : Type} {m : Machine S Op V A} {cfg : Config C}
    {ev : C → Y → Params → EvalOut} {st st' : TState S} {y : Y} {a : A}
    (h : fitTuner m cfg ev st y a = (st', .ok ())) (hrefit : cfg.refit = true) :
    ∃ r s, st'.result = some r ∧ m.fit (m.init r.bestParams) a = .ok s ∧
      ∀ ucalls : List (UCall Op),
        (∀ u ∈ ucalls, ∀ s, m.fitted s = false → m.step s u.toCall.op = (s, .error .notFitted)) →
        runTuner m cfg st' (ucalls.map UCall.toCall) = runMachine m s (ucalls.map UCall.toCall) := by
  obtain ⟨_, r, _, _, hres, hfit, href, _⟩ := fitTuner_ok_spec h
  obtain ⟨s, hs, hbest⟩ := href hrefit
  refine ⟨r, s, hres, hs, ?_⟩
  intro ucalls hwb
  have hst : st' = ⟨true, some s, some r⟩ := by
    cases st' with
    | mk f b res => simp only at hres hfit hbest; subst hres hfit hbest; rfl
  rw [hst]
  apply runTuner_eq_runMachine m cfg hrefit (some r)
  · intro c hc
    obtain ⟨u, _, rfl⟩ := List.mem_map.mp hc
    exact tuner_call_forwarded_unchanged u
  · intro c hc _
    obtain ⟨u, hu, rfl⟩ := List.mem_map.mp hc
    exact hwb u hu

/-- a tiny forecaster for the witnesses: state = number of observations (0 = unfitted);
op 0 = cutoff (never guarded), 1 = predict, 2 = update(update_params=False), 3 = update(update_params=True) -/
def demo : Machine Nat Nat Nat Unit where
  init _ := 0
  fit _ _ := .ok 100
  fitted s := s != 0
  step s op :=
    if op == 0 then (s, .ok s)
    else if s == 0 then (s, .error .notFitted)
    else if op == 1 then (s, .ok (s + 1))
    else if op == 2 then (s + 1, .ok 0)
    else (s + 1000, .ok 0)

def demoCfg (refit : Bool) : Config Unit := ⟨.sampled [[("a", "1")]], (), false, refit⟩
def demoEv : Unit → Unit → Params → EvalOut := fun _ _ _ => .ok [some 1]
def demoFitted (refit : Bool) : TState Nat := (fitTuner demo (demoCfg refit) demoEv TState.initial () ()).1

/-- outputs as plain numbers, for `decide`: error = 0, self = 1, value v = v + 2 -/
def code : Except Err (TVal Nat) → Nat
  | .error _ => 0
  | .ok .self => 1
  | .ok (.val v) => v + 2

-- `update(y)` with default arguments, then predict and cutoff: tuner = directly constructed forecaster
example : (runTuner demo (demoCfg true) (demoFitted true)
      ([UCall.update (fun up => if up then 3 else 2) none, .method 1, .cutoff 0,
        .update (fun up => if up then 3 else 2) (some false), .method 1].map UCall.toCall)).map code =
    (runMachine demo 100
      ([UCall.update (fun up => if up then 3 else 2) none, .method 1, .cutoff 0,
        .update (fun up => if up then 3 else 2) (some false), .method 1].map UCall.toCall)).map code := by
  decide +kernel

example : (fitTuner demo (demoCfg true) demoEv TState.initial () ()).2 = .ok () := by decide +kernel

/-- every call of the tuner class is guarded by `check_is_fitted("<method>")`, `cutoff` included -/
theorem tuner_call_named {Op : Type} (u : UCall Op) : u.toCall.named = true := by
  cases u <;> rfl

/-- After `fit` with `refit=False` EVERY call of the tuner class — predict, update, update_predict,
update_predict_single, compute_pred_int, transform, inverse_transform, get_fitted_params, score and `cutoff` —
raises NotFittedError and changes nothing, whatever the base forecaster is. -/
theorem no_refit_raises_NotFitted {S Op V A C Y : Type} {m : Machine S Op V A} {cfg : Config C}
    {ev : C → Y → Params → EvalOut} {st st' : TState S} {y : Y} {a : A}
    (h : fitTuner m cfg ev st y a = (st', .ok ())) (hrefit : cfg.refit = false) (u : UCall Op) :
    stepTuner m cfg st' u.toCall = (st', .error .notFitted) := by
  obtain ⟨_, r, _, _, _, hfit, _, hbest⟩ := fitTuner_ok_spec h
  have hb := hbest hrefit
  unfold stepTuner
  simp [hfit, hb, hrefit, tuner_call_named u]

example : (fitTuner demo (demoCfg false) demoEv TState.initial () ()).2 = .ok () ∧
    code (stepTuner demo (demoCfg false) (demoFitted false) (UCall.cutoff 0).toCall).2 = code (.error .notFitted) ∧
    code (stepTuner demo (demoCfg false) (demoFitted false) (UCall.method 1).toCall).2 = code (.error .notFitted) := by
  decide +kernel

/-- Before any successful `fit` every call on the tuner — `cutoff` included — raises NotFittedError. -/
theorem unfitted_tuner_raises_NotFitted {S Op V A C : Type} (m : Machine S Op V A) (cfg : Config C)
    (st : TState S) (hst : st.isFitted = false) (c : Call Op) :
    stepTuner m cfg st c = (st, .error .notFitted) := by
  unfold stepTuner
  simp [hst]

/-- A `fit` that raises (malformed grid, a failing candidate, an all-NaN score column, a failing refit)
never marks the tuner as fitted: a fresh tuner stays unfitted. -/
theorem failed_fit_leaves_unfitted {S Op V A C Y : Type} {m : Machine S Op V A} {cfg : Config C}
    {ev : C → Y → Params → EvalOut} {st' : TState S} {y : Y} {a : A} {e : Err}
    (h : fitTuner m cfg ev TState.initial y a = (st', .error e)) : st'.isFitted = false := by
  rw [fitTuner_error_isFitted h]; rfl

/-! ### Candidates of a composite: `clone(forecaster).set_params(**params)` with a component replaced AND nested
parameters of that component in the same parameter set (model: SkVerif/Model/TuneSetParams.lean of sktime/base/_meta.py).
For all composites, component names, replacement estimators, parameter names and values, in either dict order. -/

/-- what the statement requires of the component `name` of the candidate built from a parameter set that names the
estimator `c` for it and the value `v` for its parameter `sub`: it is `c` (its class, its other arguments) with `sub := v` -/
def ComponentIs (r : Composite) (name : String) (c : Comp) (sub : String) (v : Val) : Prop :=
  ∃ c', getStep name r.steps = some c' ∧ c'.cls = c.cls ∧ getArg sub c'.args = some v ∧
    ∀ k, k ≠ sub → getArg k c'.args = getArg k c.args

theorem replaced_component_receives_nested_params (m : Composite) (name sub : String) (c : Comp) (v : Val)
    (hname : (getStep name m.steps).isSome) (hsub : (getArg sub c.args).isSome) :
    (∃ r, setParams m [.step name c, .nested name sub v] = .ok r ∧ ComponentIs r name c sub v ∧ r.own = m.own) ∧
    (∃ r, setParams m [.nested name sub v, .step name c] = .ok r ∧ ComponentIs r name c sub v ∧ r.own = m.own) := by
  obtain ⟨a, ha, hg, ho⟩ := setArg_of_present sub v c.args hsub
  have hrep := getStep_replaceStep_self name c m.steps hname
  obtain ⟨st', h1, h2⟩ := applyNested_of_present name sub v c a ha _ hrep
  have hk : unknownStep m (.step name c) = false := by
    simp [unknownStep, hname]
  have hne : ¬ getStep name m.steps = none := by
    intro h; rw [h] at hname; simp at hname
  constructor
  · refine ⟨{ m with steps := st' }, ?_, ⟨_, h2, rfl, hg, ho⟩, rfl⟩
    simp [setParams, unknownStep, hne, phaseReplace, phaseRest, h1]
  · refine ⟨{ m with steps := st' }, ?_, ⟨_, h2, rfl, hg, ho⟩, rfl⟩
    simp [setParams, unknownStep, hne, phaseReplace, phaseRest, h1]

/-- a nested name the NEW component does not have is rejected (ValueError), whatever the old component accepted -/
theorem nested_param_unknown_to_new_component_rejected (m : Composite) (name sub : String) (c : Comp) (v : Val)
    (hname : (getStep name m.steps).isSome) (hsub : setArg sub v c.args = none) :
    setParams m [.step name c, .nested name sub v] = .error .value := by
  have hrep := getStep_replaceStep_self name c m.steps hname
  have hne : ¬ getStep name m.steps = none := by
    intro h; rw [h] at hname; simp at hname
  have h1 := applyNested_rejected name sub v c hsub _ hrep
  simp [setParams, unknownStep, hne, phaseReplace, phaseRest, h1]

def pipe : Composite :=
  ⟨[("t", ⟨"Shift", [("c", "1")]⟩), ("f", ⟨"Naive", [("strategy", "last"), ("sp", "1")]⟩)], []⟩

example : (setParams pipe [.nested "f" "strategy" "mean", .step "f" ⟨"Naive", [("strategy", "last"), ("sp", "4")]⟩]).toOption =
    some ⟨[("t", ⟨"Shift", [("c", "1")]⟩), ("f", ⟨"Naive", [("strategy", "mean"), ("sp", "4")]⟩)], []⟩ := by decide +kernel
example : (getStep "f" pipe.steps).isSome ∧ (getArg "strategy" [("strategy", "last"), ("sp", "4")]).isSome := by decide +kernel
end SkVerif.C08
