/- Property theorems for C08 (stub: not built yet). -/
namespace SkVerif.C08
end SkVerif.C08
