/- Property theorems for C03 (stub: not built yet). -/
namespace SkVerif.C03
end SkVerif.C03
