/-
C03  Forecasts are indexed by exactly the requested horizon from the true cutoff.
Theorems about the forecaster state machine SkVerif/Model/Forecaster.lean, for ANY `Core`
(concrete forecaster) unless stated otherwise.  Only theorems + non-vacuity examples here.
-/
import SkVerif.Lemmas.Forecaster
import SkVerif.Lemmas.ForecasterShift
namespace SkVerif.C03
open SkVerif SkVerif.Fc

/-- a valid out-of-sample relative horizon: strictly increasing, non-empty, all steps > 0 -/
structure OosSteps (steps : List Int) : Prop where
  sorted : steps.Pairwise (· < ·)
  nonempty : steps ≠ []
  pos : ∀ h ∈ steps, 0 < h

/-- relative horizon: whenever `predict` returns a forecast, it is labelled cutoff + step -/
theorem predict_index_relative (core : Core) (s : FState) (c : Int) (steps : List Int)
    (hfit : s.fitted = true) (hc : s.cutoff = some c) (hv : OosSteps steps) (out : Series)
    (h : (predict core .optional s (some (steps, true))).2 = .series out) :
    out.labels = steps.map (c + ·) := by
  obtain ⟨fitted, y0, cutoff, fh0, wlen⟩ := s
  simp only at hfit hc
  subst hfit; subst hc
  unfold predict at h
  simp only [ Bool.not_true, Bool.false_eq_true, ↓reduceIte, fhObjOf,
    Lem.checkFhArg_sorted steps true hv.sorted hv.nonempty, Except.map, setFh, predictStored] at h
  rw [Lem.predictAt_oos core _ c ⟨steps, true⟩ (by simpa using hv.pos)] at h
  simp only [↓reduceIte] at h
  cases hfc : fixedCutoff core ⟨true, y0, some c, some ⟨steps, true⟩, wlen⟩ c steps with
  | error e => rw [hfc] at h; simp [outOf] at h
  | ok o =>
    rw [hfc] at h; simp only [outOf, Out.series.injEq] at h; subst h
    exact (Lem.fixedCutoff_labels core _ c steps o hfc).1

/-- absolute horizon: the forecast carries exactly the requested time points -/
theorem predict_index_absolute (core : Core) (s : FState) (c : Int) (labels : List Int)
    (hfit : s.fitted = true) (hc : s.cutoff = some c)
    (hs : labels.Pairwise (· < ·)) (hne : labels ≠ []) (hafter : ∀ l ∈ labels, c < l) (out : Series)
    (h : (predict core .optional s (some (labels, false))).2 = .series out) :
    out.labels = labels := by
  obtain ⟨fitted, y0, cutoff, fh0, wlen⟩ := s
  simp only at hfit hc
  subst hfit; subst hc
  unfold predict at h
  simp only [ Bool.not_true, Bool.false_eq_true, ↓reduceIte, fhObjOf,
    Lem.checkFhArg_sorted labels false hs hne, Except.map, setFh, predictStored] at h
  have hpos : ∀ v ∈ (if (⟨labels, false⟩ : FH.FH).rel then (⟨labels, false⟩ : FH.FH).vals
      else (⟨labels, false⟩ : FH.FH).vals.map (· - c)), 0 < v := by
    simp only [Bool.false_eq_true, ↓reduceIte, List.mem_map]
    rintro v ⟨l, hl, rfl⟩; have := hafter l hl; omega
  rw [Lem.predictAt_oos core _ c ⟨labels, false⟩ hpos] at h
  simp only [Bool.false_eq_true, ↓reduceIte] at h
  cases hfc : fixedCutoff core ⟨true, y0, some c, some ⟨labels, false⟩, wlen⟩ c (labels.map (· - c)) with
  | error e => rw [hfc] at h; simp [outOf] at h
  | ok o =>
    rw [hfc] at h; simp only [outOf, Out.series.injEq] at h; subst h
    rw [(Lem.fixedCutoff_labels core _ c _ o hfc).1, List.map_map]
    have : ((fun x => c + x) ∘ fun x => x - c) = id := by funext x; simp
    rw [this, List.map_id]

/-- one value per requested step -/
theorem predict_length (core : Core) (s : FState) (c : Int) (steps : List Int)
    (hfit : s.fitted = true) (hc : s.cutoff = some c) (hv : OosSteps steps) (out : Series)
    (h : (predict core .optional s (some (steps, true))).2 = .series out) :
    out.length = steps.length := by
  have := predict_index_relative core s c steps hfit hc hv out h
  have h2 := congrArg List.length this
  simpa [Series.labels] using h2

/-- in increasing time order -/
theorem predict_increasing (core : Core) (s : FState) (c : Int) (steps : List Int)
    (hfit : s.fitted = true) (hc : s.cutoff = some c) (hv : OosSteps steps) (out : Series)
    (h : (predict core .optional s (some (steps, true))).2 = .series out) :
    out.labels.Pairwise (· < ·) := by
  rw [predict_index_relative core s c steps hfit hc hv out h, List.pairwise_map]
  exact hv.sorted.imp (by intro a b hab; omega)

/-- finite for finite data: the modelled cores return a number for every step whenever the last
window is non-empty and holds no missing value -/
theorem predict_finite (win : List ORat) (steps : List Int) (w : Int) (hne : win ≠ [])
    (hfin : ∀ v ∈ win, v.isSome = true) :
    (∀ vals, coreLast.plw w win steps = .ok vals → ∀ v ∈ vals, v.isSome = true) ∧
    (∀ wl vals, (coreMean wl).plw w win steps = .ok vals → ∀ v ∈ vals, v.isSome = true) ∧
    (∀ k vals, (coreProbe k).plw w win steps = .ok vals → ∀ v ∈ vals, v.isSome = true) := by
  obtain ⟨a, l, rfl⟩ : ∃ a l, win = a :: l := by
    cases win with | nil => exact absurd rfl hne | cons a l => exact ⟨a, l, rfl⟩
  have ha : a.isSome = true := hfin a (by simp)
  have hnotall : allNaN (a :: l) = false := by
    simp only [allNaN, List.all_cons, Bool.and_eq_false_iff]; left
    cases a with | none => simp at ha | some x => simp
  have hcount : countSome (a :: l) ≠ 0 := by
    simp only [countSome, List.filter_cons, ha, ↓reduceIte, List.length_cons]; omega
  refine ⟨?_, ?_, ?_⟩
  · intro vals h v hv
    simp only [coreLast, hnotall, List.isEmpty_cons, Bool.or_self, Bool.false_eq_true, ↓reduceIte,
      Except.ok.injEq] at h
    subst h
    obtain ⟨_, _, rfl⟩ := List.mem_map.mp hv
    have hl : (a :: l).getLast? = some ((a :: l).getLast (by simp)) := List.getLast?_eq_some_getLast _
    rw [hl]; simp only [Option.getD_some]
    exact hfin _ (List.getLast_mem _)
  · intro wl vals h v hv
    simp only [coreMean, hnotall, List.isEmpty_cons, Bool.or_self, Bool.false_eq_true, ↓reduceIte,
      Except.ok.injEq] at h
    subst h
    obtain ⟨_, _, rfl⟩ := List.mem_map.mp hv
    simp [nanmean, hcount]
  · intro k vals h v hv
    simp only [coreProbe, Except.ok.injEq] at h
    subst h
    obtain ⟨_, _, rfl⟩ := List.mem_map.mp hv
    rfl

/-- after a successful fit the cutoff is the last time point of the training series -/
theorem cutoff_after_fit (core : Core) (mode : FhMode) (s : FState) (y : Series) (fh : Option FhArg)
    (h : (fit core mode s y fh).2 = .done) :
    (fit core mode s y fh).1.cutoff = y.lastLabel? ∧ (fit core mode s y fh).1.fitted = true ∧
    (fit core mode s y fh).1.y = y :=
  Lem.fit_done core mode s y fh h

/-- after an update (without refitting) the cutoff is the last time point of the batch -/
theorem cutoff_after_update (core : Core) (mode : FhMode) (s : FState) (y : Series) (o : Obs)
    (hfit : s.fitted = true) (hlast : y.getLast? = some o) :
    (update core mode s y false).1.cutoff = some o.1 ∧ (update core mode s y false).2 = .done := by
  simp [update, hfit, hlast]

/-- an empty batch changes nothing -/
theorem cutoff_after_update_empty (core : Core) (mode : FhMode) (s : FState) (hfit : s.fitted = true) :
    update core mode s [] false = (s, .done) := by
  simp [update, hfit]

/-- FULL STATEMENT of the clause ("after EVERY update the cutoff is the last time point of the data
passed to update") for an update that refits:  `(update core mode s y true).1.cutoff = some o.1`
whenever the update succeeds.  It does NOT hold: the refit re-reads the cutoff from the end of the
merged series, so a batch of older / revised data leaves the cutoff at the end of what was known
(witness below, replayed on the real code: known finding `*:cutoff-after-update:refit-with-older-batch`).
What is proved is the statement for data arriving in time order (`horder`). -/
theorem cutoff_after_refit_update_partial (core : Core) (mode : FhMode) (s : FState) (y : Series) (o : Obs)
    (hfit : s.fitted = true) (hlast : y.getLast? = some o)
    (hsorted : y.Pairwise (fun a b => a.1 < b.1)) (hold : s.y.Pairwise (fun a b => a.1 < b.1))
    (horder : ∀ p ∈ s.y, p.1 ≤ o.1)
    (h : (update core mode s y true).2 = .done) :
    (update core mode s y true).1.cutoff = some o.1 :=
  Lem.update_refit_cutoff core mode s y o hfit hlast hsorted hold horder h

/-- the excluded point: fit on label 0, update(update_params=True) with the older label -1:
the update succeeds and the cutoff is 0, not -1 -/
theorem cutoff_after_refit_update_older_batch_witness :
    (update coreLast .optional ⟨true, [(0, some 1)], some 0, some ⟨[4], false⟩, 1⟩ [(-1, some 2)] true).2 = .done ∧
    (update coreLast .optional ⟨true, [(0, some 1)], some 0, some ⟨[4], false⟩, 1⟩ [(-1, some 2)] true).1.cutoff = some 0 := by
  refine ⟨by rfl, by rfl⟩

/-- update_predict_single: forecasts are labelled from the batch's last time point -/
theorem update_predict_single_index (core : Core) (s : FState) (y : Series) (o : Obs) (steps : List Int)
    (hfit : s.fitted = true) (hlast : y.getLast? = some o) (hv : OosSteps steps) (out : Series)
    (h : (updatePredictSingle core .optional s y (some (steps, true)) false).2 = .series out) :
    out.labels = steps.map (o.1 + ·) := by
  obtain ⟨fitted, y0, cutoff, fh0, wlen⟩ := s
  simp only at hfit
  subst hfit
  unfold updatePredictSingle at h
  simp only [ Bool.not_true, Bool.false_eq_true, ↓reduceIte, fhObjOf, updateThenPredict,
    Lem.checkFhArg_sorted steps true hv.sorted hv.nonempty, Except.map, setFh, update, hlast] at h
  rw [Lem.predictAt_oos core _ o.1 ⟨steps, true⟩ (by simpa using hv.pos)] at h
  simp only [↓reduceIte] at h
  cases hfc : fixedCutoff core ⟨true, Series.combineFirst y y0, some o.1, some ⟨steps, true⟩, wlen⟩ o.1 steps with
  | error e => rw [hfc] at h; simp [outOf] at h
  | ok r =>
    rw [hfc] at h; simp only [outOf, Out.series.injEq] at h; subst h
    exact (Lem.fixedCutoff_labels core _ o.1 steps r hfc).1

/-- shifting every time label of a history (training series, update batches, absolute horizons) by
`k` shifts every label in every output and in the state by `k` and changes no value: one step -/
theorem shift_equivariance_step (core : Core) (mode : FhMode) (k : Int) (s : FState) (op : Op) :
    step core mode (Lem.shiftState k s) (Lem.shiftOp k op) =
      (Lem.shiftState k (step core mode s op).1, Lem.shiftOut k (step core mode s op).2) :=
  Lem.step_shift core mode k s op

/-- … and whole histories: for every forecaster (core), both horizon mixins, every history of
fit / predict / update / update_predict / update_predict_single and every shift `k`.
(For the required-horizon mixin this holds for the repaired code, which compares the KIND of the
horizon as well as its values; the original values-only comparison confused a relative and an
absolute horizon with equal numbers, which is not shift-equivariant - see C20's fixed finding.) -/
theorem shift_equivariance (core : Core) (mode : FhMode) (k : Int) (s : FState) (ops : List Op) :
    run core mode (Lem.shiftState k s) (ops.map (Lem.shiftOp k)) =
      (Lem.shiftState k (run core mode s ops).1, (run core mode s ops).2.map (Lem.shiftOut k)) := by
  induction ops generalizing s with
  | nil => simp [run]
  | cons op ops ih =>
    simp only [List.map_cons, run]
    rw [shift_equivariance_step, ih]

/-- A forecaster object that is fitted AGAIN (on any series, with a horizon) and accepts the fit is
in the state a freshly constructed object reaches by that fit alone: nothing of its earlier history
(data, cutoff, horizon, window length) survives.  Optional-horizon forecasters, any earlier state. -/
theorem refit_forgets_history (core : Core) (s : FState) (y : Series) (a : FhArg)
    (h : (fit core .optional s y (some a)).2 = .done) :
    fit core .optional s y (some a) = fit core .optional {} y (some a) := by
  unfold fit at h ⊢
  cases hy : y.getLast? with
  | none => simp [hy] at h
  | some lo =>
    simp only [hy] at h ⊢
    cases hc : checkFhArg a with
    | error e => simp [hc] at h
    | ok f =>
      simp only [hc] at h ⊢
      unfold fitWith at h ⊢
      simp only [hy, setFh] at h ⊢
      cases hw : core.fitWl y.length with
      | error e => simp [hw] at h
      | ok w =>
        simp only [hw] at h ⊢
        by_cases hlen : w > (y.length : Int)
        · simp [hlen] at h
        · simp [hlen]

/-- the same for a horizon-dependent forecaster, which accepts a refit only with the horizon it has -/
theorem refit_forgets_history_required (core : Core) (s : FState) (y : Series) (a : FhArg)
    (h : (fit core .required s y (some a)).2 = .done) :
    (fit core .required s y (some a)).1.y = y ∧
    (fit core .required s y (some a)).1.cutoff = (y.getLast?).map (·.1) ∧
    (fit core .required s y (some a)).1.fitted = true ∧
    ((fit core .required s y (some a)).1.fh.map (fun g => (g.vals, g.rel))) =
      ((fit core .required {} y (some a)).1.fh.map (fun g => (g.vals, g.rel))) := by
  unfold fit at h ⊢
  cases hy : y.getLast? with
  | none => simp [hy] at h
  | some lo =>
    simp only [hy] at h ⊢
    cases hc : checkFhArg a with
    | error e => simp [hc] at h
    | ok f =>
      simp only [hc] at h ⊢
      unfold fitWith at h ⊢
      simp only [hy, setFh] at h ⊢
      by_cases hf : s.fitted = true
      · simp only [hf, ↓reduceIte] at h ⊢
        by_cases he : (s.fh.map (fun g => (g.vals, g.rel))) == some (f.vals, f.rel)
        · simp only [he, ↓reduceIte] at h ⊢
          cases hw : core.fitWl y.length with
          | error e => simp [hw] at h
          | ok w =>
            simp only [hw] at h ⊢
            by_cases hlen : w > (y.length : Int)
            · simp [hlen] at h
            · simp [hlen]; simpa using he
        · simp [he] at h
      · have hf' : s.fitted = false := by simpa using hf
        simp only [hf', Bool.false_eq_true, ↓reduceIte] at h ⊢
        cases hw : core.fitWl y.length with
        | error e => simp [hw] at h
        | ok w =>
          simp only [hw] at h ⊢
          by_cases hlen : w > (y.length : Int)
          · simp [hlen] at h
          · simp [hlen]

-- non-vacuity
example : (fit coreLast .optional ⟨true, [(0, some 1), (1, some 2)], some 1, some ⟨[2], false⟩, 1⟩ [(5, some 7), (6, some 8)]
    (some ([1, 2], true))).2 = .done := by
  simp [fit, fitWith, checkFhArg, FH.checkFh, FH.mk, FH.checkValues, sortInts, isortBy, insertBy, setFh, coreLast,
    Except.map, bind, Except.bind, pure, Except.pure]
example : OosSteps [1, 3] := ⟨by decide, by decide, by decide⟩
example : (predict coreLast .optional ⟨true, [(0, some 1), (1, some 2)], some 1, none, 1⟩ (some ([1, 2], true))).2 =
    .series [(2, some 2), (3, some 2)] := by
  simp [predict, fhObjOf, checkFhArg, FH.checkFh, FH.mk, FH.checkValues, sortInts, isortBy, insertBy, setFh,
    predictStored, predictAt, fixedCutoff, Series.locSlice, Series.values, coreLast, allNaN, outOf, Except.map,
    bind, Except.bind, pure, Except.pure]

end SkVerif.C03
