/- Property theorems for C20 (stub: not built yet). -/
namespace SkVerif.C20
end SkVerif.C20
