/-
C20  Malformed data, horizons and settings are rejected, never silently mis-handled.
Theorems about SkVerif/Model/Validate.lean: each validator rejects exactly its malformed classes,
every applicable fault makes each entry point reject before any fitted state exists, and valid
contexts are accepted.  Universally quantified over all the other arguments (the "randomised
otherwise-valid context" of the property is ANY context here).
-/
import SkVerif.Model.Validate
import SkVerif.Lemmas.Split
import SkVerif.Lemmas.FH
namespace SkVerif.C20
open SkVerif SkVerif.Val

/-- the malformed classes of a target series -/
def YMalformed (k : YKind) (allowEmpty : Bool) : Prop :=
  k = .unsorted ∨ k = .frame1 ∨ k = .frame2 ∨ k = .array ∨ k = .array2d ∨ k = .list ∨ k = .none ∨
  k = .floatidx ∨ (k = .empty ∧ allowEmpty = false)

instance (k : YKind) (a : Bool) : Decidable (YMalformed k a) := by unfold YMalformed; infer_instance

def XMalformed (x : XKind) : Prop :=
  x = .shifted ∨ x = .shorter ∨ x = .unsorted ∨ x = .array ∨ x = .interior ∨ x = .first ∨ x = .last ∨ x = .longer
instance (x : XKind) : Decidable (XMalformed x) := by unfold XMalformed; infer_instance

/-- `check_y` rejects exactly: unsorted or (unless allowed) empty index, multivariate or array-typed
or otherwise mistyped target, unsupported index type -/
theorem checkY_rejects_iff (k : YKind) (allowEmpty : Bool) :
    checkY k allowEmpty = rej ↔ YMalformed k allowEmpty := by
  cases k <;> cases allowEmpty <;> decide

/-- exogenous data are rejected exactly when array-typed or when their index differs from the
target's in ANY label (shifted, shorter, longer, differently ordered, only the first / only the last /
only one inner label different) -/
theorem checkX_rejects_iff (x : XKind) : checkXAgainst x = rej ↔ XMalformed x := by
  cases x <;> decide

theorem checkEqualIndex_rejects_iff (k : YKind) (x : XKind) (allowEmpty : Bool) :
    checkYX k x allowEmpty = rej ↔ YMalformed k allowEmpty ∨ XMalformed x := by
  cases k <;> cases x <;> cases allowEmpty <;> decide

/-- window / step / seasonal-period settings: `None` passes through, anything else must be a
non-bool integer ≥ 1 -/
theorem checkInt_rejects_iff (x : IntLike) :
    checkPosInt x = rej ↔ x ≠ .none ∧ (∀ v, isInt x = some v → v < 1) := by
  cases x with
  | int v =>
    simp only [checkPosInt, isInt, ne_eq, reduceCtorEq, not_false_eq_true, Option.some.injEq, forall_eq',
      true_and]
    by_cases h : v < 1 <;> simp [h, rej, pure, Except.pure]
  | float => simp [checkPosInt, isInt, rej]
  | str => simp [checkPosInt, isInt, rej]
  | bool => simp [checkPosInt, isInt, rej]
  | none => simp [checkPosInt, isInt, rej, pure, Except.pure]

/-- horizons: duplicates, empty, fractional and wrongly typed values are rejected; a list of integer
steps is rejected exactly when it has a duplicate or is empty -/
theorem checkFh_rejects_iff (vs : List Int) (enf : Bool) :
    (checkFh (.rel vs) enf = rej ↔ ¬ vs.Nodup ∨ vs = []) ∧
    checkFh .dup enf = rej ∧ checkFh .empty enf = rej ∧ checkFh .frac enf = rej ∧
    checkFh .str enf = rej ∧ checkFh .float enf = rej ∧ checkFh .none enf = rej := by
  refine ⟨?_, by cases enf <;> decide, by cases enf <;> decide, by cases enf <;> decide,
    by cases enf <;> decide, by cases enf <;> decide, by cases enf <;> decide⟩
  simp only [checkFh, fhRaw, FH.mk, Bool.not_true, Bool.false_eq_true, ↓reduceIte, FH.checkValues]
  by_cases hnd : vs.Nodup
  · simp only [hnd, ↓reduceIte, Except.map, FH.checkFh, bind, Except.bind, not_true_eq_false, false_or]
    have hlen : (sortInts vs).length = vs.length := (Lem.sortInts_perm vs).length_eq
    by_cases hne : vs = []
    · subst hne; simp [sortInts, isortBy, rej]
    · have : (sortInts vs).length ≠ 0 := by
        rw [hlen]; intro h; exact hne (List.length_eq_zero_iff.mp h)
      simp [this, hne, rej, pure, Except.pure]
  · simp [hnd, Except.map, FH.checkFh, bind, Except.bind, rej]

/-- an outcome is a rejection that leaves no fitted state -/
def Rejected (o : Outcome) : Prop := o.ok = false ∧ o.fitted ≠ some true
instance (o : Outcome) : Decidable (Rejected o) := by unfold Rejected; infer_instance

theorem finish_rej (hasEst : Bool) : Rejected (finish rej hasEst) := by
  cases hasEst <;> simp [Rejected, finish, rej]

theorem finish_of_error (r : R Unit) (hasEst : Bool) (h : r = rej) : Rejected (finish r hasEst) := by
  subst h; exact finish_rej hasEst

/-- bind in the rejection monad: if the first step rejects, so does the whole -/
theorem bind_rej {α β} (f : α → R β) : ((rej : R α) >>= f) = rej := rfl

/-- every entry point that takes a target series rejects a malformed one, whatever the other
arguments are, and ends unfitted -/
theorem entry_rejects_malformed_y (y : YDesc) (hy : YMalformed y.kind false) :
    (∀ x fh st sp wl, Rejected (naiveFit y x fh st sp wl)) ∧
    (∀ x cv sc so, Rejected (evaluateEntry y x cv sc so)) ∧
    (∀ x fh st wl step sok, Rejected (reduceEntry y x fh st wl step sok)) ∧
    (∀ k sh fh a p, Rejected (compositeEntry k sh y fh a p)) := by
  have hY : checkY y.kind false = rej := (checkY_rejects_iff _ _).mpr hy
  have hYX : ∀ x, checkYX y.kind x false = rej := by
    intro x; exact (checkEqualIndex_rejects_iff _ _ _).mpr (Or.inl hy)
  refine ⟨?_, ?_, ?_, ?_⟩
  · intro x fh st sp wl
    apply finish_of_error
    simp only [hYX x, bind_rej]
  · intro x cv sc so
    unfold evaluateEntry
    apply finish_of_error
    cases so <;> cases cv <;> cases sc <;> simp [hYX x, rej, bind, Except.bind, pure, Except.pure]
  · intro x fh st wl step sok
    unfold reduceEntry
    apply finish_of_error
    cases st <;> cases sok <;> simp [hYX x, rej, bind, Except.bind, pure, Except.pure]
  · intro k sh fh a p
    unfold compositeEntry
    have h1 : checkYX y.kind .none false = rej := hYX .none
    by_cases hsh : sh = .ok
    · subst hsh
      cases k <;> simp [hY, h1, rej, bind, Except.bind, pure, Except.pure, Rejected]
    · cases k <;> simp [hsh, rej, bind, Except.bind, pure, Except.pure, Rejected]

/-- … and exogenous data whose index differs from the target's (or array-typed X) -/
theorem entry_rejects_misaligned_X (y : YDesc) (x : XKind) (hx : XMalformed x) :
    (∀ fh st sp wl, Rejected (naiveFit y x fh st sp wl)) ∧
    (∀ cv sc so, Rejected (evaluateEntry y x cv sc so)) ∧
    (∀ fh st wl step sok, Rejected (reduceEntry y x fh st wl step sok)) ∧
    (naiveUpdate y.kind x).ok = false := by
  have hYX : ∀ a, checkYX y.kind x a = rej := by
    intro a; exact (checkEqualIndex_rejects_iff _ _ _).mpr (Or.inr hx)
  refine ⟨?_, ?_, ?_, ?_⟩
  · intro fh st sp wl
    apply finish_of_error
    simp only [hYX false, bind_rej]
  · intro cv sc so
    unfold evaluateEntry
    apply finish_of_error
    cases so <;> cases cv <;> cases sc <;> simp [hYX false, rej, bind, Except.bind, pure, Except.pure]
  · intro fh st wl step sok
    unfold reduceEntry
    apply finish_of_error
    cases st <;> cases sok <;> simp [hYX false, rej, bind, Except.bind, pure, Except.pure]
  · simp [naiveUpdate, hYX true, rej, Except.isOk, Except.toBool]

/-- a malformed horizon token -/
def FhMalformed (t : FhTok) : Prop := t = .dup ∨ t = .empty ∨ t = .frac ∨ t = .str ∨ t = .float
instance (t : FhTok) : Decidable (FhMalformed t) := by unfold FhMalformed; infer_instance

theorem checkFh_malformed (t : FhTok) (h : FhMalformed t) (enf : Bool) : checkFh t enf = rej := by
  rcases h with rfl | rfl | rfl | rfl | rfl <;> cases enf <;> decide

/-- a duplicate, empty, fractional or wrongly typed horizon is rejected by every entry point that
takes a horizon -/
theorem entry_rejects_bad_horizon (t : FhTok) (h : FhMalformed t) :
    (∀ y x st sp wl, Rejected (naiveFit y x t st sp wl)) ∧
    (∀ fitFh, (naivePredict fitFh t).ok = false) ∧
    (∀ k y wl step iw sww cut, Rejected (splitEntry k y t wl step iw sww cut)) ∧
    (∀ y x st wl step sok, Rejected (reduceEntry y x t st wl step sok)) ∧
    (∀ k sh y a p, Rejected (compositeEntry k sh y t a p)) ∧
    Rejected (requiredFit t) ∧
    (∀ enf, Rejected (fhEntry false t true true enf)) := by
  have hc : ∀ enf, checkFh t enf = rej := checkFh_malformed t h
  have hne : t ≠ .none := by rcases h with rfl | rfl | rfl | rfl | rfl <;> decide
  refine ⟨?_, ?_, ?_, ?_, ?_, ?_, ?_⟩
  · intro y x st sp wl
    unfold naiveFit
    apply finish_of_error
    cases hyx : checkYX y.kind x false with
    | error e => rfl
    | ok u =>
      rcases h with rfl | rfl | rfl | rfl | rfl <;>
        simp [hc false, rej, bind, Except.bind, pure, Except.pure]
  · intro fitFh
    rcases h with rfl | rfl | rfl | rfl | rfl <;>
      simp [naivePredict, hc false, rej, bind, Except.bind, Except.isOk, Except.toBool]
  · intro k y wl step iw sww cut
    unfold splitEntry
    apply finish_of_error
    have hsf : splitFhVals t = rej := by simp [splitFhVals, hc true, rej, bind, Except.bind]
    cases checkTimeIndex y.kind false with
    | error e => rfl
    | ok u =>
      cases k with
      | sliding | expanding =>
        simp only [bind, Except.bind]
        cases checkPosInt step with
        | error e => rfl
        | ok s =>
          cases checkPosInt wl with
          | error e => rfl
          | ok w =>
            cases checkPosInt iw with
            | error e => rfl
            | ok i => simp [hsf, rej]
      | single =>
        simp only [bind, Except.bind]
        cases checkPosInt wl with
        | error e => rfl
        | ok w => simp [hsf, rej]
      | cutoff =>
        cases cut <;> simp [hsf, rej, bind, Except.bind]
  · intro y x st wl step sok
    unfold reduceEntry
    apply finish_of_error
    cases hyx : checkYX y.kind x false with
    | error e => cases st <;> cases sok <;> simp [rej, bind, Except.bind, pure, Except.pure]
    | ok u =>
      rcases h with rfl | rfl | rfl | rfl | rfl <;> cases st <;> cases sok <;> cases x <;>
        simp [hc false, rej, bind, Except.bind, pure, Except.pure]
  · intro k sh y a p
    unfold compositeEntry
    by_cases hsh : sh = .ok
    · subst hsh
      cases hy1 : checkY y.kind false with
      | error e =>
        cases hy2 : checkYX y.kind .none false with
        | error e2 => cases k <;> simp [hy1, hy2, rej, bind, Except.bind, pure, Except.pure, Rejected]
        | ok u2 =>
          rcases h with rfl | rfl | rfl | rfl | rfl <;> cases k <;>
            simp [hy1, hy2, hc false, rej, bind, Except.bind, pure, Except.pure, Rejected]
      | ok u =>
        cases hy2 : checkYX y.kind .none false with
        | error e2 =>
          rcases h with rfl | rfl | rfl | rfl | rfl <;> cases k <;>
            simp [hy1, hy2, hc false, rej, bind, Except.bind, pure, Except.pure, Rejected]
        | ok u2 =>
          rcases h with rfl | rfl | rfl | rfl | rfl <;> cases k <;>
            simp [hy1, hy2, hc false, rej, bind, Except.bind, pure, Except.pure, Rejected]
    · cases k <;> simp [hsh, rej, bind, Except.bind, pure, Except.pure, Rejected]
  · apply finish_of_error
    rcases h with rfl | rfl | rfl | rfl | rfl <;> simp [hc false, rej, bind, Except.bind]
  · intro enf
    apply finish_of_error
    simp [hc enf, rej, bind, Except.bind]

/-- a missing horizon is rejected where one is needed -/
theorem entry_rejects_missing_horizon :
    (naivePredict .none .none).ok = false ∧ Rejected (requiredFit .none) ∧
    (∀ sh y a p, Rejected (compositeEntry .stacking sh y .none a p)) ∧
    (∀ y x st wl step sok, st ≠ .recursive → Rejected (reduceEntry y x .none st wl step sok)) := by
  refine ⟨by decide, by decide, ?_, ?_⟩
  · intro sh y a p
    unfold compositeEntry
    by_cases hsh : sh = .ok
    · subst hsh
      cases hy2 : checkYX y.kind .none false <;>
        simp [hy2, rej, bind, Except.bind, pure, Except.pure, Rejected]
    · simp [hsh, rej, bind, Except.bind, pure, Except.pure, Rejected]
  · intro y x st wl step sok hst
    unfold reduceEntry
    apply finish_of_error
    cases hyx : checkYX y.kind x false <;> cases st <;> cases sok <;> cases x <;>
      simp_all [rej, bind, Except.bind, pure, Except.pure]

/-- a horizon-dependent forecaster rejects at predict time any valid horizon that differs - in its
steps or in being relative / absolute - from the one it was fitted with (repaired code) -/
theorem required_rejects_different_horizon (fitFh fh : FhTok) (f g : FH.FH)
    (hf : checkFh fh false = .ok f) (hg : checkFh fitFh false = .ok g) (hfh : fh ≠ .none)
    (hdiff : f.vals ≠ g.vals ∨ f.rel ≠ g.rel) :
    (requiredPredict fitFh fh).ok = false := by
  unfold requiredPredict
  cases fh with
  | none => exact absurd rfl hfh
  | _ =>
    simp only [hf, hg, bind, Except.bind]
    rcases hdiff with h | h
    · have : (f.vals == g.vals) = false := by simpa using h
      simp [this, rej, Except.isOk, Except.toBool]
    · have : (f.rel == g.rel) = false := by simpa using h
      simp [this, rej, Except.isOk, Except.toBool]

/-- a setting that is not a positive integer -/
def BadInt (x : IntLike) : Prop := checkPosInt x = rej
instance (x : IntLike) : Decidable (BadInt x) := by unfold BadInt; infer_instance

/-- a non-positive or non-integer window, step or seasonal period is rejected wherever it is used -/
theorem entry_rejects_bad_window_step_sp (x : IntLike) (hx : BadInt x) :
    (∀ y fh step iw sww cut k, k ≠ .cutoff ∨ cut = .ok → Rejected (splitEntry k y fh x step iw sww cut)) ∧
    (∀ y fh wl iw sww cut, Rejected (splitEntry .sliding y fh wl x iw sww cut)) ∧
    (∀ y fh wl iw sww cut, Rejected (splitEntry .expanding y fh wl x iw sww cut)) ∧
    (∀ y fh wl step sww cut, Rejected (splitEntry .sliding y fh wl step x sww cut)) ∧
    (∀ sp n, naiveWindow .drift sp x n = rej) ∧
    (∀ n, naiveWindow .mean (.int 1) x n = rej) ∧
    (∀ wl n, spIsOne x = false → naiveWindow .last x wl n = rej) ∧
    (∀ y xx fh st step sok, Rejected (reduceEntry y xx fh st x step sok)) ∧
    (∀ y xx fh st wl sok, Rejected (reduceEntry y xx fh st wl x sok)) := by
  unfold BadInt at hx
  refine ⟨?_, ?_, ?_, ?_, ?_, ?_, ?_, ?_, ?_⟩
  · intro y fh step iw sww cut k hk
    unfold splitEntry
    apply finish_of_error
    cases checkTimeIndex y.kind false with
    | error e => rfl
    | ok u =>
      cases k with
      | sliding | expanding =>
        simp only [bind, Except.bind]
        cases checkPosInt step with
        | error e => rfl
        | ok s => simp [hx, rej]
      | single => simp [hx, rej, bind, Except.bind]
      | cutoff =>
        rcases hk with h | h
        · exact absurd rfl h
        · subst h
          simp only [bind, Except.bind]
          cases splitFhVals fh with
          | error e => rfl
          | ok v => simp [hx, rej]
  · intro y fh wl iw sww cut
    unfold splitEntry
    apply finish_of_error
    cases checkTimeIndex y.kind false with
    | error e => rfl
    | ok u => simp [hx, rej, bind, Except.bind]
  · intro y fh wl iw sww cut
    unfold splitEntry
    apply finish_of_error
    cases checkTimeIndex y.kind false with
    | error e => rfl
    | ok u => simp [hx, rej, bind, Except.bind]
  · intro y fh wl step sww cut
    unfold splitEntry
    apply finish_of_error
    cases checkTimeIndex y.kind false with
    | error e => rfl
    | ok u =>
      simp only [bind, Except.bind]
      cases checkPosInt step with
      | error e => rfl
      | ok s =>
        cases checkPosInt wl with
        | error e => rfl
        | ok w => simp [hx, rej]
  · intro sp n
    simp [naiveWindow, hx, rej, bind, Except.bind]
  · intro n
    cases x <;> simp_all [naiveWindow, spIsOne, rej, bind, Except.bind, pure, Except.pure, checkPosInt]
  · intro wl n hone
    simp [naiveWindow, hone, hx, rej, bind, Except.bind]
  · intro y xx fh st step sok
    unfold reduceEntry
    apply finish_of_error
    cases hyx : checkYX y.kind xx false with
    | error e => cases st <;> cases sok <;> simp [rej, bind, Except.bind, pure, Except.pure]
    | ok u =>
      cases hs : checkPosInt step <;> cases st <;> cases sok <;> cases xx <;> cases fh <;>
        simp [hx, rej, bind, Except.bind, pure, Except.pure] <;>
        (split <;> simp [hx, rej, bind, Except.bind, pure, Except.pure])
  · intro y xx fh st wl sok
    unfold reduceEntry
    apply finish_of_error
    cases hyx : checkYX y.kind xx false with
    | error e => cases st <;> cases sok <;> simp [rej, bind, Except.bind, pure, Except.pure]
    | ok u =>
      cases st <;> cases sok <;> cases xx <;> cases fh <;>
        simp [hx, rej, bind, Except.bind, pure, Except.pure] <;>
        (split <;> simp [hx, rej, bind, Except.bind, pure, Except.pure])

/-- a window that does not fit the series is rejected -/
theorem entry_rejects_window_not_fitting :
    (∀ st sp (w : Int) (n : Nat), (n : Int) < w → st ≠ .last → spIsOne sp = true →
        naiveWindow st sp (.int w) n = rej) ∧
    (∀ (n w : Int) (fh : List Int), fh.Pairwise (· < ·) → fh ≠ [] → w + Split.fhMax fh > n →
        Split.singleSplit n fh (some w) = .error .value) ∧
    (∀ k (n w s : Int) (fh : List Int) iw sww, fh.Pairwise (· < ·) → fh ≠ [] → w + Split.fhMax fh > n →
        Split.windowSplit k n fh w s iw sww = .error .value) := by
  refine ⟨?_, ?_, ?_⟩
  · intro st sp w n hlt hst hone
    cases st with
    | last => exact absurd rfl hst
    | unknown => simp [naiveWindow, rej, bind, Except.bind]
    | mean =>
      have hsp : sp = .int 1 ∨ sp = .bool := by
        cases sp with
        | int v =>
          by_cases hv : v = 1
          · left; rw [hv]
          · exfalso
            have : spIsOne (.int v) = false := by
              unfold spIsOne; split <;> simp_all
            rw [this] at hone; exact absurd hone (by decide)
        | bool => right; rfl
        | float => exact absurd hone (by decide)
        | str => exact absurd hone (by decide)
        | none => exact absurd hone (by decide)
      rcases hsp with rfl | rfl
      · by_cases hw : w < 1
        · simp [naiveWindow, spIsOne, checkPosInt, hw, rej, bind, Except.bind, pure, Except.pure]
        · have : w > (n : Int) := by omega
          simp [naiveWindow, spIsOne, checkPosInt, hw, this, rej, bind, Except.bind, pure, Except.pure]
      · by_cases hw : w < 1
        · simp [naiveWindow, spIsOne, checkPosInt, hw, rej, bind, Except.bind, pure, Except.pure]
        · simp [naiveWindow, spIsOne, checkPosInt, hw, rej, bind, Except.bind, pure, Except.pure]
    | drift =>
      by_cases hw : w < 1
      · simp [naiveWindow, checkPosInt, hw, rej, bind, Except.bind, pure, Except.pure]
      · by_cases h1 : w = 1
        · simp [naiveWindow, checkPosInt, hw, h1, rej, bind, Except.bind, pure, Except.pure]
        · simp [naiveWindow, checkPosInt, hw, h1, rej, bind, Except.bind, pure, Except.pure]
          omega
  · intro n w fh hs hne hbad
    unfold Split.singleSplit Split.singleSplitRaw
    by_cases hw : w < 1
    · simp [hw, bind, Except.bind, throw, throwThe, MonadExceptOf.throw, Except.map]
    · simp [hw, hbad, bind, Except.bind, pure, Except.pure, throw, throwThe, MonadExceptOf.throw, Except.map,
        Lem.checkFh_sorted fh hs hne]
  · intro k n w s fh iw sww hs hne hbad
    unfold Split.windowSplit Split.windowSplitRaw Split.validate
    simp only [bind, Except.bind, pure, Except.pure, throw, throwThe, MonadExceptOf.throw,
      Lem.checkFh_sorted fh hs hne]
    by_cases h1 : s < 1
    · simp [h1, Except.map]
    · by_cases h2 : w < 1
      · simp [h1, h2, Except.map]
      · cases iw with
        | none => simp [h1, h2, hbad, Except.map]
        | some i =>
          by_cases h4 : i < 1
          · simp [h1, h2, h4, Except.map]
          · simp [h1, h2, hbad, h4, Except.map]

/-- the step of a reduction forecaster (an argument of the reduction classes) is validated like every
other step: a non-positive or non-integer one is rejected by fit whatever the series, exogenous data,
horizon, strategy and window are, and no fitted state results -/
theorem reducer_rejects_bad_step (step : IntLike) (hs : BadInt step) (y : YDesc) (x : XKind) (fh : FhTok)
    (st : RedStrategy) (wl : IntLike) (sok : Bool) : Rejected (reduceEntry y x fh st wl step sok) :=
  (entry_rejects_bad_window_step_sp step hs).2.2.2.2.2.2.2.2 y x fh st wl sok

/-- ... and only such a step: a valid step (None, or an integer ≥ 1) never changes the outcome -/
theorem reducer_valid_step_irrelevant (step : IntLike) (hs : ¬ BadInt step) (y : YDesc) (x : XKind) (fh : FhTok)
    (st : RedStrategy) (wl : IntLike) (sok : Bool) :
    reduceEntry y x fh st wl step sok = reduceEntry y x fh st wl (.int 1) sok := by
  unfold BadInt at hs
  unfold reduceEntry
  cases h : checkPosInt step with
  | error e => exact absurd h hs
  | ok v =>
    have h1 : checkPosInt (.int 1) = .ok (some 1) := by decide
    simp only [h1, bind, Except.bind]

/-- exogenous data whose index differs from the target's in ANY label - every label, the first only, the
last only, a single inner one (same length, same end points), or by its length - are rejected by the
tuner and by the train/test split as well (the other entry points: `entry_rejects_misaligned_X`) -/
theorem misaligned_X_rejected_by_tuner_and_split (y : YDesc) (x : XKind) (hx : XMalformed x) :
    (∀ cv sc g fh so, Rejected (gridSearchEntry y x cv sc g fh so)) ∧
    (∀ fh test train, fh ≠ .none → Rejected (ttsEntry y x fh test train)) := by
  have hYX : checkYX y.kind x false = rej := (checkEqualIndex_rejects_iff _ _ _).mpr (Or.inr hx)
  have hX : checkXAgainst x = rej := (checkX_rejects_iff x).mpr hx
  refine ⟨?_, ?_⟩
  · intro cv sc g fh so
    unfold gridSearchEntry
    apply finish_of_error
    simp only [hYX, bind_rej]
  · intro fh test train hfh
    unfold ttsEntry
    apply finish_of_error
    cases fh with
    | none => exact absurd rfl hfh
    | _ =>
      by_cases hsz : (test != IntLike.none || train != IntLike.none) = true
      · simp [hsz, rej, bind, Except.bind]
      · cases hser : checkSeries y.kind false false false <;>
          simp [hsz, hser, hX, rej, bind, Except.bind, pure, Except.pure]

/-- unknown strategy names are rejected -/
theorem entry_rejects_unknown_strategy :
    (∀ y x fh sp wl, Rejected (naiveFit y x fh .unknown sp wl)) ∧
    (∀ y x fh wl step sok, Rejected (reduceEntry y x fh .unknown wl step sok)) ∧
    (∀ y x fh st wl step, Rejected (reduceEntry y x fh st wl step false)) ∧
    (∀ y x cv sc, Rejected (evaluateEntry y x cv sc false)) := by
  refine ⟨?_, ?_, ?_, ?_⟩
  · intro y x fh sp wl
    unfold naiveFit
    apply finish_of_error
    cases checkYX y.kind x false with
    | error e => rfl
    | ok u =>
      cases fh <;> simp [naiveWindow, rej, bind, Except.bind, pure, Except.pure] <;>
        (split <;> simp [rej])
  · intro y x fh wl step sok
    apply finish_of_error; simp [rej, bind, Except.bind]
  · intro y x fh st wl step
    apply finish_of_error
    cases st <;> simp [rej, bind, Except.bind, pure, Except.pure]
  · intro y x cv sc
    apply finish_of_error; simp [rej, bind, Except.bind]

/-- ... also when the name only reaches `evaluate` through a tuner (and a name is known only if it IS
one of the documented names: the drivers compare whole strings, so a part of a name is unknown) -/
theorem tuner_rejects_unknown_strategy (y : YDesc) (x : XKind) (cv : CvTok) (sc : ScoreTok) (g : GridTok) (fh : FhTok) :
    Rejected (gridSearchEntry y x cv sc g fh false) := by
  unfold gridSearchEntry
  apply finish_of_error
  cases checkYX y.kind x false with
  | error e => rfl
  | ok u => simp [rej, bind, Except.bind]

/-- every ill-formed composite (duplicate or reserved names, `__` in a name, no list, empty list,
non-forecaster members, all members dropped, wrong step types, unknown selection) is rejected at
fit, for every composite kind, series and horizon -/
theorem entry_rejects_ill_formed_composite (k : CompKind) (sh : Shape) (hsh : sh ≠ .ok)
    (y : YDesc) (fh : FhTok) (a p : Bool) : Rejected (compositeEntry k sh y fh a p) := by
  unfold compositeEntry
  cases k <;> simp [hsh, rej, bind, Except.bind, pure, Except.pure, Rejected]

/-- whenever a fit-type entry point rejects, no fitted state results -/
theorem rejection_leaves_unfitted (r : R Unit) (h : (finish r true).ok = false) :
    (finish r true).fitted = some false := by
  cases r with
  | error e => rfl
  | ok u => simp [finish] at h

/-- valid inputs are accepted (near-miss side of every fault): a sorted non-empty univariate
series, aligned or absent exogenous data, a valid or absent horizon, settings that fit -/
theorem valid_context_accepted (n : Nat) (hn : 2 ≤ n) (x : XKind) (hx : x = .none ∨ x = .ok)
    (vs : List Int) (hvs : vs.Nodup) (hne : vs ≠ []) :
    naiveFit ⟨.ok, n⟩ x (.rel vs) .last (.int 1) .none = ⟨true, some true⟩ ∧
    naiveFit ⟨.ok, n⟩ x .none .mean (.int 1) .none = ⟨true, some true⟩ ∧
    naiveFit ⟨.ok, n⟩ x .none .drift (.int 1) .none = ⟨true, some true⟩ ∧
    naivePredict .none (.rel vs) = ⟨true, some true⟩ ∧
    evaluateEntry ⟨.ok, n⟩ x .ok .none true = ⟨true, none⟩ ∧
    compositeEntry .ensemble .ok ⟨.ok, n⟩ (.rel vs) true false = ⟨true, some true⟩ := by
  have hfh : ∀ enf, ∃ f, checkFh (.rel vs) enf = .ok f := by
    intro enf
    have h := ((checkFh_rejects_iff vs enf).1).not.mpr (by simp [hvs, hne])
    cases hc : checkFh (.rel vs) enf with
    | ok f => exact ⟨f, rfl⟩
    | error e => exact absurd (by rw [hc]; rfl) h
  obtain ⟨f, hf⟩ := hfh false
  have h1 : ¬ (1 : Int) > n := by omega
  have h2 : ¬ ((n : Int) > n) := by omega
  have h3 : ¬ ((n : Int) = 1) := by omega
  rcases hx with rfl | rfl <;>
    simp [naiveFit, naivePredict, evaluateEntry, compositeEntry, checkYX, checkY, checkSeries, checkTimeIndex,
      checkXAgainst, hf, naiveWindow, spIsOne, checkPosInt, finish, h1, h2, h3, bind, Except.bind, pure,
      Except.pure, Except.isOk, Except.toBool, rej]

-- non-vacuity
example : YMalformed .unsorted false := by decide
example : FhMalformed .dup := by decide
example : XMalformed .interior ∧ checkYX .gapped .interior false = rej ∧ checkYX .gapped .ok false = .ok () := by decide
example : BadInt (.int 0) ∧ ¬ BadInt .none ∧ ¬ BadInt (.int 2) := by decide
example : BadInt (.int 0) ∧ BadInt .float ∧ BadInt .bool ∧ BadInt .str := by decide
example : checkFh (.rel [1, 2]) false = .ok ⟨[1, 2], true⟩ := by decide

end SkVerif.C20
