/- Property theorems for C18 (stub: not built yet). -/
namespace SkVerif.C18
end SkVerif.C18
