/-
C18  Time-series files round-trip and all file formats parse to the same panel.
Property theorems about SkVerif/Model/TsFile.lean (writer, .ts/.arff/.tsv parsers, `_load_dataset`).
Only theorems + non-vacuity examples here; lemmas live in Lemmas/Ts*.lean.

Text is `Str = List Char`.  A series is the list of tokens pandas printed for it (number formatting is
data); `tokVal t` is the number the token denotes (`float(t)`), labels come back as `lower (strip l)`.

FULL STATEMENT (property text): for every panel, every label list or no labels, every writer option,
`parseTs (write o panel vals)` returns the panel: `parse_write_roundtrip` (labelled and label-free; the
label-free half holds since fix 8439410 made the writer emit `@classLabel false`).
One exclusion remains: a class value containing `?` is rewritten by the parser's missing-value
substitution (`label_with_question_mark_is_rewritten`, open finding), so class values are taken free of
`?` (hypothesis `ValidLabel.noQ`); `:` and newline are excluded because the format delimits with them.
-/
import SkVerif.Lemmas.TsRoundTrip
import SkVerif.Lemmas.TsReject
import SkVerif.Lemmas.TsFormats
namespace SkVerif.C18
open SkVerif.TsFile SkVerif.TsFile.Lem SkVerif.TsFile.Spec

/-! ### round trip -/

/-- **parse ∘ write = id, labelled panels.**  For every univariate panel of printed number tokens, every
list of class values (one per instance, free of `:`, `?`, newline), every writer option (problem name,
comment block, `@equalLength`, `@seriesLength`, class label set): loading the written file returns one
dimension holding the instances in order, each series with its values in order (the numbers the printed
tokens denote), and the class values lower-cased and stripped. -/
theorem parse_write_roundtrip_labelled (o : WOpts) (panel : List (List Str)) (vals : List Str)
    (ho : ValidOpts o) (hcl : o.classLabel ≠ []) (hJ : strip (join [' '] o.classLabel) ≠ [])
    (hne : panel ≠ []) (hlen : vals.length = panel.length)
    (hp : ∀ s ∈ panel, ValidSeries s) (hl : ∀ l ∈ vals, ValidLabel l) :
    (write o panel vals).bind parseTs
      = .ok ⟨[panel.map (·.map tokVal)], some (vals.map (fun l => lower (strip l)))⟩ := by
  have hw : write o panel vals = .ok (unlines (headerLines noLabelLine o ++ caseLines o.univariate panel vals)) := by
    have h1 : ¬ (panel.length ≠ vals.length ∧ vals.length > 0) := by omega
    simp only [write, writeWith, h1, ho.eqsl, if_false]
  rw [hw, ho.uni]
  simp only [Except.bind]
  have hstep : step s3 (normLine (clLine noLabelLine o))
      = .ok { s3 with classLabels := true, hasCL := true } := by
    simp only [clLine, hcl, ne_eq, not_false_eq_true, if_true]
    exact step_written_classLabel s3 _ hJ rfl
  have hH := run_header noLabelLine o ho true true hstep
  obtain ⟨st', hrun, hL⟩ := run_all_cases_two panel vals (hdrSt true true) hne hlen hp hl (fresh_hdrSt true)
  have hnl : ∀ l ∈ headerLines noLabelLine o ++ caseLines true panel vals, '\n' ∉ l := by
    intro l hm
    rcases List.mem_append.mp hm with h | h
    · exact header_no_nl noLabelLine o ho (by decide) l h
    · exact caseLines_two_no_nl panel vals hp hl l h
  have hrun' : run {} ((headerLines noLabelLine o ++ caseLines true panel vals).map normLine) = .ok st' := by
    rw [List.map_append, run_append_ok _ hH, hrun]
  rw [parseTs_unlines_ok _ st' hnl hrun']
  simpa using finish_loaded _ st' true _ _ (written_length_ne_zero _ _ _) hL

/-- **parse ∘ write = id, label-free panels** (`class_label=None`): the frame alone comes back. -/
theorem parse_write_roundtrip_nolabels (o : WOpts) (panel : List (List Str))
    (ho : ValidOpts o) (hcl : o.classLabel = []) (hne : panel ≠ []) (hp : ∀ s ∈ panel, ValidSeries s) :
    (write o panel []).bind parseTs = .ok ⟨[panel.map (·.map tokVal)], none⟩ := by
  have hw : write o panel [] = .ok (unlines (headerLines noLabelLine o ++ caseLines o.univariate panel [])) := by
    simp only [write, writeWith, ho.eqsl, if_false]
    simp
  rw [hw, ho.uni]
  simp only [Except.bind]
  have hstep : step s3 (normLine (clLine noLabelLine o))
      = .ok { s3 with classLabels := false, hasCL := true } := by
    simp only [clLine, hcl, ne_eq, not_true_eq_false, if_false]
    exact step_written_classLabel_false s3 rfl
  have hH := run_header noLabelLine o ho true false hstep
  obtain ⟨st', hrun, hL⟩ := run_all_cases_one panel (hdrSt true false) hne hp (fresh_hdrSt false)
  have hnl : ∀ l ∈ headerLines noLabelLine o ++ caseLines true panel [], '\n' ∉ l := by
    intro l hm
    rcases List.mem_append.mp hm with h | h
    · exact header_no_nl noLabelLine o ho (by decide) l h
    · exact caseLines_two_no_nl panel [] hp (by simp) l h
  have hrun' : run {} ((headerLines noLabelLine o ++ caseLines true panel []).map normLine) = .ok st' := by
    rw [List.map_append, run_append_ok _ hH, hrun]
  rw [parseTs_unlines_ok _ st' hnl hrun']
  simpa using finish_loaded _ st' false _ _ (written_length_ne_zero _ _ _) hL

/-- **parse ∘ write = id** (the property's first clause, labelled AND label-free).  For every univariate
panel of printed number tokens and every writer option, either without class labels (`class_label=None`,
no class values) or with a class value per instance (free of `:`, `?`, newline): loading the written file
returns one dimension holding the instances in order, each series with its values in order (the numbers
the printed tokens denote), and the class values lower-cased and stripped (none when none were written). -/
theorem parse_write_roundtrip (o : WOpts) (panel : List (List Str)) (vals : List Str)
    (ho : ValidOpts o) (hne : panel ≠ []) (hp : ∀ s ∈ panel, ValidSeries s) (hl : ∀ l ∈ vals, ValidLabel l)
    (hcase : (o.classLabel = [] ∧ vals = []) ∨
      (o.classLabel ≠ [] ∧ strip (join [' '] o.classLabel) ≠ [] ∧ vals.length = panel.length)) :
    (write o panel vals).bind parseTs
      = .ok ⟨[panel.map (·.map tokVal)],
             if o.classLabel = [] then none else some (vals.map (fun l => lower (strip l)))⟩ := by
  rcases hcase with ⟨h1, h2⟩ | ⟨h1, h2, h3⟩
  · subst h2
    rw [if_pos h1]
    exact parse_write_roundtrip_nolabels o panel ho h1 hne hp
  · rw [if_neg h1]
    exact parse_write_roundtrip_labelled o panel vals ho h1 h2 hne h3 hp hl

/-- **Open finding, at a witness**: the class value `what?` is loaded as `whatNaN` (the parser applies
`replace("?", "NaN")` to the whole case line). -/
theorem label_with_question_mark_is_rewritten :
    (match (write { problemName := "p".toList, classLabel := ["what?".toList] } [["1".toList]] ["what?".toList]).bind parseTs with
     | .ok p => p.labels == some ["whatNaN".toList]
     | .error _ => false) = true := by rfl

/-- what the round trip says about shape: as many instances as written, each with as many values -/
theorem roundtrip_preserves_instances_and_lengths (o : WOpts) (panel : List (List Str)) (vals : List Str)
    (ho : ValidOpts o) (hcl : o.classLabel ≠ []) (hJ : strip (join [' '] o.classLabel) ≠ [])
    (hne : panel ≠ []) (hlen : vals.length = panel.length)
    (hp : ∀ s ∈ panel, ValidSeries s) (hl : ∀ l ∈ vals, ValidLabel l) :
    ∃ loaded labels, (write o panel vals).bind parseTs = .ok ⟨[loaded], some labels⟩ ∧
      loaded.length = panel.length ∧ loaded.map List.length = panel.map List.length ∧
      labels.length = panel.length := by
  refine ⟨_, _, parse_write_roundtrip_labelled o panel vals ho hcl hJ hne hlen hp hl, ?_, ?_, ?_⟩
  · simp
  · simp [List.map_map, Function.comp_def]
  · simp [hlen]

/-! ### all file formats parse to the same panel -/

/-- One labelled univariate data set rendered as `.ts` (by the writer), as non-relational `.arff` and as UCR
`.tsv` (canonical renderings, Spec/TsFormats.lean): the three parsers return the SAME instances, lengths,
order and values; `.arff` and `.tsv` return the same labels and `.ts` returns them lower-cased.
Hypotheses beyond those of the round trip: tokens and labels contain no tab, labels no comma; no `.arff`
line mentions `@data` / `relational` other than the `@data` line (such a line would be taken for a tag). -/
theorem all_formats_parse_to_same_panel (o : WOpts) (header : List Str) (panel : List (List Str))
    (vals : List Str) (ho : ValidOpts o) (hcl : o.classLabel ≠ [])
    (hJ : strip (join [' '] o.classLabel) ≠ []) (hne : panel ≠ []) (hlen : vals.length = panel.length)
    (hp : ∀ s ∈ panel, ValidSeries s ∧ ∀ t ∈ s, PlainTok t)
    (hl : ∀ l ∈ vals, ValidLabel l ∧ PlainLabel l)
    (hH : ∀ l ∈ header, ArffQuiet l ∧ '\n' ∉ l)
    (hq : ∀ p ∈ List.zip panel vals, ArffQuiet (join [','] (p.1 ++ [p.2]))) :
    ∃ X yTs yArff yTsv,
      (write o panel vals).bind parseTs = .ok ⟨[X], some yTs⟩ ∧
      parseArff true (renderArff header panel vals) = .ok ⟨[X], some yArff⟩ ∧
      parseTsv (renderTsv panel vals) = .ok ⟨[X], some yTsv⟩ ∧
      yArff = yTsv ∧ yTs = yArff.map lower ∧ X.length = panel.length := by
  refine ⟨panel.map (·.map tokVal), vals.map (fun l => lower (strip l)), vals.map strip, vals.map strip,
    parse_write_roundtrip_labelled o panel vals ho hcl hJ hne hlen (fun s hs => (hp s hs).1)
      (fun l h => (hl l h).1), ?_, parseTsv_render panel vals hlen hp (fun l h => (hl l h).2), rfl, ?_, by simp⟩
  · apply parseArff_render header panel vals hne hlen hH
    intro p hpz
    have h1 := List.of_mem_zip hpz
    exact ⟨(hp p.1 h1.1).1, (hl p.2 h1.2).2, hq p hpz⟩
  · simp [List.map_map, Function.comp_def]

/-! ### rejection of malformed files -/

/-- an empty file is rejected -/
theorem parser_rejects_empty_file : parseTs [] = .error .parse := by rfl

/-- A file in which no line (after `strip().lower()`) starts with `@classlabel` is never loaded, whatever
else it contains.  (The writer's label-free output is such a file.) -/
theorem parser_rejects_missing_classlabel_tag (text : Str)
    (h : ∀ l ∈ (lines text).map normLine, startsWith kwClassLabel l = false) :
    ∃ e, parseTs text = .error e :=
  parseTs_missing (·.hasCL) kwClassLabel rfl (fun st st' l hs => (step_flags st st' l hs).2.2.2.1)
    (fun _ hf => hf.2.2.2.1) text h

theorem parser_rejects_missing_problemname_tag (text : Str)
    (h : ∀ l ∈ (lines text).map normLine, startsWith kwProblemName l = false) :
    ∃ e, parseTs text = .error e :=
  parseTs_missing (·.hasPN) kwProblemName rfl (fun st st' l hs => (step_flags st st' l hs).1)
    (fun _ hf => hf.1) text h

theorem parser_rejects_missing_timestamps_tag (text : Str)
    (h : ∀ l ∈ (lines text).map normLine, startsWith kwTimestamps l = false) :
    ∃ e, parseTs text = .error e :=
  parseTs_missing (·.hasTS) kwTimestamps rfl (fun st st' l hs => (step_flags st st' l hs).2.1)
    (fun _ hf => hf.2.1) text h

theorem parser_rejects_missing_univariate_tag (text : Str)
    (h : ∀ l ∈ (lines text).map normLine, startsWith kwUnivariate l = false) :
    ∃ e, parseTs text = .error e :=
  parseTs_missing (·.hasUni) kwUnivariate rfl (fun st st' l hs => (step_flags st st' l hs).2.2.1)
    (fun _ hf => hf.2.2.1) text h

theorem parser_rejects_missing_data_tag (text : Str)
    (h : ∀ l ∈ (lines text).map normLine, startsWith kwData l = false) :
    ∃ e, parseTs text = .error e :=
  parseTs_missing (·.hasData) kwData rfl (fun st st' l hs => (step_flags st st' l hs).2.2.2.2.1)
    (fun _ hf => hf.2.2.2.2) text h

/-- a case line with a token that is not a number raises `ValueError` -/
theorem parser_rejects_non_numeric_token (seg t : Str) (hne : strip seg ≠ [])
    (ht : t ∈ splitOn ',' (strip seg)) (hf : floatOf t = none) : seriesOf seg = .error .value := by
  simp only [seriesOf, hne, if_false]
  exact floats_error ht hf

/-- a case line whose number of `:`-separated dimensions differs from the first case's is rejected -/
theorem parser_rejects_dimension_mismatch (st : St) (line : Str) (n : Nat) (cl : Bool) (hr : Ready st cl)
    (hn : st.numDims = some n)
    (h : (splitOn ':' (replaceQ line)).length - (if cl then 1 else 0) ≠ n) :
    dataLine st line = .error .parse := by
  have h' := h
  cases cl <;>
    simp_all [dataLine, hr.hPN, hr.hTS, hr.hUni, hr.hCL, hr.hData, hr.hts, hr.hcl]

/-! ### bundled loaders: `split=None` = train followed by test -/

/-- column by column, `_load_dataset(name, None, …)` returns the training instances followed by the test
instances, labels likewise; `train`/`test` return the respective file's panel.  (The single-frame form
carries the same columns plus the label column: `toFrame`.) -/
theorem load_none_eq_train_append_test (tr te : Panel) (a b : List Str)
    (ha : tr.labels = some a) (hb : te.labels = some b) :
    (loadSplit .none tr te).dims = List.zipWith (· ++ ·) tr.dims te.dims ∧
    (loadSplit .none tr te).labels = some (a ++ b) ∧
    loadSplit .train tr te = tr ∧ loadSplit .test tr te = te ∧
    (∀ sp, toFrame (loadSplit sp tr te) = ((loadSplit sp tr te).dims, (loadSplit sp tr te).labels)) := by
  refine ⟨?_, by simp [loadSplit, ha, hb], rfl, rfl, fun _ => rfl⟩
  simp only [loadSplit]
  generalize tr.dims = x
  generalize te.dims = y
  induction x generalizing y with
  | nil => cases y <;> rfl
  | cons p ps ih =>
    cases y with
    | nil => rfl
    | cons q qs => simp [concatDims, ih]

/-! ### non-vacuity: concrete inputs meeting the hypotheses -/

/-- writer options with a wrapped comment, `@equalLength`, `@seriesLength` and two class labels -/
def exOpts : WOpts :=
  { problemName := "My Problem".toList, classLabel := ["a".toList, "B".toList], equalLength := true,
    seriesLength := 3, seriesLengthStr := "3".toList,
    commentLines := ["# first line".toList, "second line".toList] }

/-- the tokens pandas prints for `[1.5, -2.25, 10.0]` and `[1e-06, 123456.789, 3.0]` -/
def exPanel : List (List Str) :=
  [[" 1.50".toList, "-2.25".toList, "10.00".toList],
   ["     0.000001".toList, "123456.789000".toList, "     3.000000".toList]]

def exVals : List Str := ["a".toList, "B".toList]

theorem exOpts_valid : ValidOpts exOpts :=
  { ts := rfl, uni := rfl, name := by decide, nameNl := by decide, slNl := by decide,
    comNl := by decide,
    comHash := by
      intro c cs h
      have h' : ["# first line".toList, "second line".toList] = c :: cs := h
      injection h' with h1 _
      exact ⟨" first line".toList, by rw [← h1]; rfl⟩
    eqsl := by decide, clNl := by decide }

theorem validTok_of_decide (t : Str) (h1 : ',' ∉ t) (h2 : ':' ∉ t) (h3 : '?' ∉ t) (h4 : '\n' ∉ t)
    (h5 : (floatOf t).isSome = true) : ValidTok t := ⟨h1, h2, h3, h4, h5⟩

theorem exPanel_valid : ∀ s ∈ exPanel, ValidSeries s := by
  intro s hs
  simp only [exPanel, List.mem_cons, List.not_mem_nil, or_false] at hs
  rcases hs with rfl | rfl
  · refine ⟨by simp, ?_⟩
    intro t ht
    simp only [List.mem_cons, List.not_mem_nil, or_false] at ht
    rcases ht with rfl | rfl | rfl <;>
      exact validTok_of_decide _ (by decide) (by decide) (by decide) (by decide) (by decide)
  · refine ⟨by simp, ?_⟩
    intro t ht
    simp only [List.mem_cons, List.not_mem_nil, or_false] at ht
    rcases ht with rfl | rfl | rfl <;>
      exact validTok_of_decide _ (by decide) (by decide) (by decide) (by decide) (by decide)

theorem exVals_valid : ∀ l ∈ exVals, ValidLabel l := by
  intro l hl
  simp only [exVals, List.mem_cons, List.not_mem_nil, or_false] at hl
  rcases hl with rfl | rfl <;> exact ⟨by decide, by decide, by decide⟩

/-- what "the number a printed token denotes" means, on the token shapes pandas prints (fixed, padded,
scientific, missing) and on non-numbers: `floatOf` is Python's `float()` as an exact rational -/
theorem float_tokens_denote_decimal_values :
    floatOf "-2.25".toList = some (.fin (-9/4)) ∧
    floatOf "     0.000001".toList = some (.fin (1/1000000)) ∧
    floatOf "123456.789000".toList = some (.fin (123456789/1000)) ∧
    floatOf "1.5E+3".toList = some (.fin 1500) ∧
    floatOf "-1.234568e-07".toList = some (.fin (-1234568/10000000000000)) ∧
    floatOf " NaN ".toList = some .nan ∧ floatOf "-inf".toList = some (.inf true) ∧
    floatOf "1.2.3".toList = none ∧ floatOf "".toList = none ∧ floatOf "1e".toList = none := by
  decide +kernel

/-- the round trip evaluated on the running example, values included -/
theorem roundtrip_concrete_values :
    (match (write exOpts exPanel exVals).bind parseTs with
     | .ok p => decide (p = ⟨[[[.fin (3/2), .fin (-9/4), .fin 10],
                               [.fin (1/1000000), .fin (123456789/1000), .fin 3]]],
                             some ["a".toList, "b".toList]⟩)
     | .error _ => false) = true := by
  decide +kernel

/-- the hypotheses of `parse_write_roundtrip_labelled` are met by a concrete, non-trivial input … -/
example : (write exOpts exPanel exVals).bind parseTs
    = .ok ⟨[exPanel.map (·.map tokVal)], some ["a".toList, "b".toList]⟩ :=
  parse_write_roundtrip_labelled exOpts exPanel exVals exOpts_valid (by decide) (by decide) (by decide) rfl
    exPanel_valid exVals_valid

/-- … and of the label-free half, through the unified theorem -/
example : (write { exOpts with classLabel := [] } exPanel []).bind parseTs
    = .ok ⟨[exPanel.map (·.map tokVal)], none⟩ :=
  parse_write_roundtrip _ exPanel [] { exOpts_valid with clNl := by decide } (by decide) exPanel_valid
    (by simp) (Or.inl ⟨rfl, rfl⟩)

example : (write exOpts exPanel exVals).bind parseTs
    = .ok ⟨[exPanel.map (·.map tokVal)], some ["a".toList, "b".toList]⟩ :=
  parse_write_roundtrip exOpts exPanel exVals exOpts_valid (by decide) exPanel_valid exVals_valid
    (Or.inr ⟨by decide, by decide, rfl⟩)

/-- … and of the three-format theorem (tokens of `exPanel` with the header of a bundled `.arff` file) -/
example : ∃ X yTs yArff yTsv,
    (write exOpts exPanel exVals).bind parseTs = .ok ⟨[X], some yTs⟩ ∧
    parseArff true (renderArff ["%comment".toList, "@relation r".toList, "@attribute a0 numeric".toList] exPanel exVals)
      = .ok ⟨[X], some yArff⟩ ∧
    parseTsv (renderTsv exPanel exVals) = .ok ⟨[X], some yTsv⟩ ∧
    yArff = yTsv ∧ yTs = yArff.map lower ∧ X.length = exPanel.length :=
  all_formats_parse_to_same_panel exOpts _ exPanel exVals exOpts_valid (by decide) (by decide) (by decide) rfl
    (fun s hs => ⟨exPanel_valid s hs, by
      intro t ht
      simp only [exPanel, List.mem_cons, List.not_mem_nil, or_false] at hs
      rcases hs with rfl | rfl <;>
        (simp only [List.mem_cons, List.not_mem_nil, or_false] at ht
         rcases ht with rfl | rfl | rfl <;> exact ⟨by decide⟩)⟩)
    (fun l hl => ⟨exVals_valid l hl, by
      simp only [exVals, List.mem_cons, List.not_mem_nil, or_false] at hl
      rcases hl with rfl | rfl <;> exact ⟨by decide, by decide, by decide, by decide⟩⟩)
    (by decide) (by decide)

/-- the missing-tag theorem applies to what the writer emitted for label-free data before fix 8439410 -/
example : ∃ e, parseTs ("@problemName p\n@timeStamps false\n@univariate true\n@class_label false\n@data\n1,2\n".toList)
    = .error e :=
  parser_rejects_missing_classlabel_tag _ (by decide)

/-- a line with the wrong number of dimensions / a non-number -/
example : seriesOf "1,x,3".toList = .error .value :=
  parser_rejects_non_numeric_token _ "x".toList (by decide) (by decide) (by decide)

end SkVerif.C18
