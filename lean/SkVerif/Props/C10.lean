/-
C10  Updating with new data is equivalent to having observed it, for every history.
Theorems about the forecaster state machine (SkVerif/Model/Forecaster.lean, Series.lean), for
ANY `Core` and both horizon mixins unless stated.  Only theorems + non-vacuity examples here.
-/
import SkVerif.Lemmas.Update
import SkVerif.Lemmas.PredInt
namespace SkVerif.C10
open SkVerif SkVerif.Fc

/-- `combine_first` on sorted series: a later finite observation wins, a later NaN keeps the older
value, labels present in only one of the two are kept -/
theorem lookup_combineFirst (new old : Series) (l : Int)
    (hn : Lem.SSorted new) (ho : Lem.SSorted old) :
    Series.lookup (Series.combineFirst new old) l = Lem.merged new old l :=
  Lem.lookup_combineFirst new old l hn ho

/-- a history of updates (with or without refitting, succeeding or not) after a successful fit -/
def updates (bs : List (Series × Bool)) : List Op := bs.map (fun b => Op.update b.1 b.2)

/-- For every sequence of updates the forecaster remembers the union of all observations it was
given, folded batch by batch with later values winning (see `lookup_combineFirst`), and stays
fitted.  (An update that raises - e.g. refit without a stored horizon - has still merged its
batch: see `update_half_applied_without_fh`.) -/
theorem remembered_eq_union_later_wins (core : Core) (mode : FhMode) (s : FState)
    (hfit : s.fitted = true) (bs : List (Series × Bool)) :
    (run core mode s (updates bs)).1.y = bs.foldl (fun acc b => Series.combineFirst b.1 acc) s.y ∧
    (run core mode s (updates bs)).1.fitted = true := by
  induction bs generalizing s with
  | nil => simp [updates, run, hfit]
  | cons b bs ih =>
    have h1 := Lem.update_y_fitted core mode s b.1 b.2 hfit
    simp only [updates, List.map_cons, run, step, List.foldl_cons]
    have := ih (update core mode s b.1 b.2).1 h1.2
    simp only [updates] at this
    rw [h1.1] at this
    exact this

/-- … and the remembered series stays sorted by time -/
theorem remembered_sorted (core : Core) (mode : FhMode) (s : FState)
    (hfit : s.fitted = true) (hs : Lem.SSorted s.y) (bs : List (Series × Bool)) :
    Lem.SSorted (run core mode s (updates bs)).1.y := by
  rw [(remembered_eq_union_later_wins core mode s hfit bs).1]
  induction bs generalizing s with
  | nil => exact hs
  | cons b bs ih =>
    simp only [List.foldl_cons]
    have : ∀ (acc : Series), Lem.SSorted acc →
        Lem.SSorted (bs.foldl (fun acc b => Series.combineFirst b.1 acc) acc) := by
      intro acc hacc
      exact ih { s with y := acc } hfit hacc
    exact this _ (Lem.combineFirst_sorted b.1 s.y hs)

/-- A forecaster that refits on update is, after `fit(y1, fh); update(y2)`, in exactly the state of
a fresh forecaster fitted on `y2.combine_first(y1)` with the same horizon … -/
theorem refit_update_equiv_fresh_fit (core : Core) (mode : FhMode) (s : FState) (y2 : Series) (f : FH.FH)
    (hfit : s.fitted = true) (hfh : s.fh = some f)
    (hdone : (update core mode s y2 true).2 = .done) :
    (update core mode s y2 true).1 = (fitWith core mode {} (Series.combineFirst y2 s.y) (some f)).1 ∧
    (fitWith core mode {} (Series.combineFirst y2 s.y) (some f)).2 = .done :=
  Lem.refit_equiv core mode s y2 f hfit hfh hdone

/-- … hence indistinguishable under every continuation of the history -/
theorem refit_update_equiv_fresh_fit_continuation (core : Core) (mode : FhMode) (s : FState) (y2 : Series)
    (f : FH.FH) (hfit : s.fitted = true) (hfh : s.fh = some f)
    (hdone : (update core mode s y2 true).2 = .done) (ops : List Op) :
    (run core mode (update core mode s y2 true).1 ops).2 =
      (run core mode (fitWith core mode {} (Series.combineFirst y2 s.y) (some f)).1 ops).2 := by
  rw [(refit_update_equiv_fresh_fit core mode s y2 f hfit hfh hdone).1]

/-- with parameter updating disabled the fitted parameters (here: the resolved window length),
the stored horizon and the fitted flag stay those of the last fit; only the remembered data
and the cutoff move -/
theorem no_param_update_keeps_params_moves_cutoff (core : Core) (mode : FhMode) (s : FState) (y : Series)
    (o : Obs) (hfit : s.fitted = true) (hlast : y.getLast? = some o) :
    (update core mode s y false).1 =
      { s with y := Series.combineFirst y s.y, cutoff := some o.1 } ∧
    (update core mode s y false).2 = .done := by
  simp [update, hfit, hlast]

/-- `update_predict` leaves the forecaster's own cutoff where it was before the call -/
theorem update_predict_restores_cutoff (core : Core) (mode : FhMode) (s : FState) (y : Series)
    (cv : Option CvSpec) (up : Bool) :
    (updatePredict core mode s y cv up).1.cutoff = s.cutoff :=
  Lem.updatePredict_cutoff core mode s y cv up

/-- `update_predict` returns exactly the forecasts that the corresponding sequence of single
updates and predicts returns: with `statesAfter'` = the states reached by feeding the training
windows one after the other through `update`, the k-th forecast is `_predict(fh)` made in the k-th
of those states at that state's cutoff, and the k-th recorded cutoff is that state's cutoff -/
theorem update_predict_eq_iterated_single (core : Core) (mode : FhMode) (y : Series) (fh : FH.FH) (up : Bool)
    (ws : List (List Int)) (st : FState) (preds : List Series) (cuts : List Int) (sEnd : FState)
    (h : movingCutoff.go core mode y fh up ws st [] [] = (sEnd, .ok (preds, cuts))) :
    cuts = (Lem.statesAfter' core mode y up st ws).filterMap (·.cutoff) ∧
    preds.map some = (Lem.statesAfter' core mode y up st ws).map (Lem.predOf core fh) ∧
    preds.length = ws.length := by
  obtain ⟨preds', cuts', e1, e2, e3, e4, e5⟩ := Lem.movingGo_gen core mode y fh up ws st [] [] preds cuts sEnd h
  simp only [List.nil_append] at e1 e2
  subst e1; subst e2
  exact ⟨e3, e4, e5⟩

/-- a multi-step `update_predict` labels its columns by the cutoffs of those single steps -/
theorem update_predict_labels_are_cutoffs (preds : List Series) (cuts cols : List Int)
    (rows : List (Int × List ORat)) (h : formatMoving preds cuts = .frame cols rows) : cols = cuts := by
  unfold formatMoving at h
  cases preds with
  | nil => simp at h
  | cons p0 rest =>
    simp only at h
    split at h
    · simp at h
    · cases rest with
      | nil => simp at h
      | cons p1 r => simp only [Out.frame.injEq] at h; exact h.1.symm

/-- observed behaviour (not demanded by the property): `update(update_params=True)` on a forecaster
that never got a horizon raises ValueError AFTER having merged the batch and moved the cutoff -/
theorem update_half_applied_without_fh (core : Core) (s : FState) (y : Series) (o : Obs)
    (hfit : s.fitted = true) (hfh : s.fh = none) (hlast : y.getLast? = some o) :
    update core .optional s y true =
      ({ s with y := Series.combineFirst y s.y, cutoff := some o.1 }, .err .value) := by
  simp [update, hfit, hfh, hlast]

/-! ### Prediction intervals: `return_pred_int` / `alpha` through the single-step entry point -/

/-- `update_predict_single(y_new, fh, …, return_pred_int, alpha)` returns exactly what `update(y_new)`
followed by `predict(return_pred_int=…, alpha=…)` returns — point forecasts AND interval tables, for
every interval-capable or plain forecaster, every level argument (valid or not) and both mixins -/
theorem update_predict_single_intervals_eq_update_then_predict (ic : ICore) (mode : FhMode) (s s2 : FState)
    (y : Series) (fh : Option FhArg) (fo : Option FH.FH) (f : FH.FH) (up : Bool) (a : IArgs)
    (hfit : s.fitted = true) (hobj : fhObjOf fh = .ok fo) (hset : setFh mode s fo = .ok (some f))
    (hupd : update ic.toCore mode { s with fh := some f } y up = (s2, .done)) :
    updatePredictSingleI ic mode s y fh up a = predictI ic mode s2 none a := by
  obtain ⟨h2fit, h2fh⟩ := Lem.update_done_fh ic.toCore mode { s with fh := some f } y up f s2 hfit rfl hupd
  obtain ⟨fitted, y0, cutoff, fh0, wlen⟩ := s
  obtain ⟨fitted2, y2, cutoff2, fh2, wlen2⟩ := s2
  simp only at hfit h2fit h2fh
  subst hfit h2fit h2fh
  have hset2 : setFh mode ⟨true, y2, cutoff2, some f, wlen2⟩ none = .ok (some f) := by
    cases mode <;> simp [setFh]
  have hnone : fhObjOf none = .ok none := rfl
  simp only [updatePredictSingleI, predictI, Bool.not_true, Bool.false_eq_true, ↓reduceIte,
    hobj, hset, hnone, hset2, updateThenPredictI, hupd, predictStoredI]
  cases cutoff2 <;> rfl

/-- with `return_pred_int=False` the level argument is never looked at (not even validated):
the interval entry point IS the plain `predict` -/
theorem predict_without_intervals_ignores_alpha (ic : ICore) (mode : FhMode) (s : FState)
    (fh : Option FhArg) (al : AlphaArg) :
    predictI ic mode s fh ⟨false, al⟩ =
      ((predict ic.toCore mode s fh).1, .plain (predict ic.toCore mode s fh).2) := by
  unfold predictI predict
  cases hf : s.fitted with
  | false => rfl
  | true =>
    simp only [Bool.not_true, Bool.false_eq_true, ↓reduceIte]
    cases h1 : fhObjOf fh with
    | error e => rfl
    | ok fo =>
      dsimp only
      cases h2 : setFh mode s fo with
      | error e => rfl
      | ok fh' =>
        dsimp only [predictStoredI, predictStored]
        cases fh' <;> cases s.cutoff <;> simp [atI]

/-- asking for intervals never changes the point forecasts nor the forecaster's state -/
theorem point_forecasts_independent_of_interval_arguments (ic : ICore) (mode : FhMode) (s : FState)
    (fh : Option FhArg) (a : IArgs) (p : Series) (ts : List (List IRow)) (b : Bool)
    (h : (predictI ic mode s fh a).2 = .withInt p ts b) :
    (predict ic.toCore mode s fh).2 = .series p ∧ (predictI ic mode s fh a).1 = (predict ic.toCore mode s fh).1 := by
  unfold predictI at h
  unfold predictI predict
  cases hf : s.fitted with
  | false => simp [hf] at h
  | true =>
    simp only [hf, Bool.not_true, Bool.false_eq_true, ↓reduceIte] at h ⊢
    cases h1 : fhObjOf fh with
    | error e => simp [h1] at h
    | ok fo =>
      simp only [h1] at h
      cases h2 : setFh mode s fo with
      | error e => simp [h2] at h
      | ok fh' =>
        simp only [h2] at h
        simp only [predictStoredI, predictStored] at h ⊢
        cases fh' with
        | none => simp at h
        | some f =>
          cases hc : s.cutoff with
          | none => simp [hc] at h
          | some c =>
            simp only [hc] at h
            unfold atI at h
            obtain ⟨rpi, al⟩ := a
            cases rpi with
            | false => simp at h
            | true =>
              simp only [Bool.not_true, Bool.false_eq_true, ↓reduceIte] at h
              cases hs : ic.supports with
              | false => simp [hs] at h
              | true =>
                simp only [hs, Bool.not_true, Bool.false_eq_true, ↓reduceIte] at h
                cases hp : predictAt ic.toCore ⟨true, s.y, some c, some f, s.wlen⟩ c f with
                | error e => simp [hp] at h
                | ok p' =>
                  simp only [hp] at h
                  cases hks : checkAlpha al with
                  | error e => simp [hks] at h
                  | ok ks =>
                    simp only [hks, IOut.withInt.injEq] at h
                    obtain ⟨rfl, _, _⟩ := h
                    simp [h2, hp, outOf]

/-- every interval table has one row per forecast, under the forecast's own labels, and
`lower + upper = 2 · forecast` (NaN forecasts give NaN bounds) -/
theorem interval_rows_follow_forecasts (ic : ICore) (c k : Int) (p : Series) :
    (bounds ic c k p).map (·.1) = p.labels ∧
    ∀ r ∈ bounds ic c k p, ∃ o ∈ p, r.1 = o.1 ∧
      (match o.2 with
       | none => r.2.1 = none ∧ r.2.2 = none
       | some v => r.2.1 = some (v - ic.predErr k (o.1 - c)) ∧ r.2.2 = some (v + ic.predErr k (o.1 - c))) := by
  constructor
  · simp [bounds, Series.labels, List.map_map, Function.comp_def]
  · intro r hr
    simp only [bounds, List.mem_map] at hr
    obtain ⟨o, ho, rfl⟩ := hr
    refine ⟨o, ho, rfl, ?_⟩
    cases o.2 <;> simp

/-- one table per requested level, in the order given; a float level is the one-element list -/
theorem one_table_per_level (ic : ICore) (s : FState) (c : Int) (f : FH.FH) (al : AlphaArg)
    (p : Series) (ts : List (List IRow)) (b : Bool)
    (h : atI ic s c f ⟨true, al⟩ = .withInt p ts b) :
    ∃ ks, checkAlpha al = .ok ks ∧ ts = ks.map (fun k => bounds ic c k p) ∧ b = al.isOne ∧
      ∀ k ∈ ks, 0 < k ∧ k < 1000 := by
  unfold atI at h
  simp only [Bool.not_true, Bool.false_eq_true, ↓reduceIte] at h
  cases hs : ic.supports with
  | false => simp [hs] at h
  | true =>
    simp only [hs, Bool.not_true, Bool.false_eq_true, ↓reduceIte] at h
    cases hp : predictAt ic.toCore s c f with
    | error e => simp [hp] at h
    | ok p' =>
      simp only [hp] at h
      cases hks : checkAlpha al with
      | error e => simp [hks] at h
      | ok ks =>
        simp only [hks, IOut.withInt.injEq] at h
        obtain ⟨h1, h2, h3⟩ := h
        subst h1
        refine ⟨ks, rfl, h2.symm, h3.symm, ?_⟩
        cases al with
        | one k0 =>
          simp only [checkAlpha] at hks
          split at hks
          · rename_i hk; simp only [Except.ok.injEq] at hks; subst hks
            intro k hk'; simp at hk'; subst hk'; exact hk
          · simp at hks
        | many ks0 =>
          simp only [checkAlpha] at hks
          split at hks
          · rename_i hk; simp only [Except.ok.injEq] at hks; subst hks
            intro k hk'
            have := List.all_eq_true.mp hk k hk'
            simpa using this
          · simp at hks

/-- (shared with C03) whenever `predict` answers with intervals, the forecast is the one plain `predict` gives — so
it carries the labels C03 proves for it — and EVERY interval table carries exactly the forecast's labels -/
theorem interval_tables_labelled_like_forecast (ic : ICore) (mode : FhMode) (s : FState)
    (fh : Option FhArg) (a : IArgs) (p : Series) (ts : List (List IRow)) (b : Bool)
    (h : (predictI ic mode s fh a).2 = .withInt p ts b) :
    (predict ic.toCore mode s fh).2 = .series p ∧ ∀ t ∈ ts, t.map (·.1) = p.labels := by
  refine ⟨(point_forecasts_independent_of_interval_arguments ic mode s fh a p ts b h).1, ?_⟩
  unfold predictI at h
  cases hf : s.fitted with
  | false => simp [hf] at h
  | true =>
    simp only [hf, Bool.not_true, Bool.false_eq_true, ↓reduceIte] at h
    cases h1 : fhObjOf fh with
    | error e => simp [h1] at h
    | ok fo =>
      simp only [h1] at h
      cases h2 : setFh mode s fo with
      | error e => simp [h2] at h
      | ok fh' =>
        simp only [h2, predictStoredI] at h
        cases fh' with
        | none => simp at h
        | some f =>
          cases hc : s.cutoff with
          | none => simp [hc] at h
          | some c =>
            simp only [hc] at h
            obtain ⟨rpi, al⟩ := a
            cases rpi with
            | false => simp [atI] at h
            | true =>
              obtain ⟨ks, _, hts, _, _⟩ := one_table_per_level ic _ c f al p ts b h
              intro t ht
              rw [hts] at ht
              obtain ⟨k, _, rfl⟩ := List.mem_map.mp ht
              exact (interval_rows_follow_forecasts ic c k p).1

/-- `update_predict` refuses prediction intervals before it reads or changes anything -/
theorem update_predict_refuses_intervals_untouched (ic : ICore) (mode : FhMode) (s : FState) (y : Series)
    (cv : Option CvSpec) (up : Bool) (al : AlphaArg) :
    (updatePredictI ic mode s y cv up ⟨true, al⟩).1 = s ∧
    ∃ e, (updatePredictI ic mode s y cv up ⟨true, al⟩).2 = .plain (.err e) := by
  unfold updatePredictI
  split
  · exact ⟨rfl, _, rfl⟩
  · exact ⟨rfl, _, rfl⟩

-- non-vacuity: a fitted interval probe, one update, intervals at two levels
example :
    ((runI (icoreProbe 2) .optional {}
      [.base (.fit [(0, some 1), (1, some 2), (2, some 3)] (some ([1, 2], true))),
       .updatePredictSingle [(3, some 4)] none false ⟨true, .many [200, 500]⟩]).2.getLast?.bind IOut.intervals?) =
    some [[(4, some 190, some 240), (5, some 166, some 266)],
          [(4, some (305/2), some (555/2)), (5, some 91, some 341)]] := by decide +kernel

-- non-vacuity
example : Lem.merged [(1, some 5), (2, none)] [(0, some 1), (1, some 2), (2, some 3)] 1 = some (some 5) := by decide
example : Lem.merged [(1, some 5), (2, none)] [(0, some 1), (1, some 2), (2, some 3)] 2 = some (some 3) := by decide
example : Series.combineFirst [(1, some 5), (2, none), (4, some 9)] [(0, some 1), (1, some 2), (2, some 3)] =
    [(0, some 1), (1, some 5), (2, some 3), (4, some 9)] := by decide

end SkVerif.C10
