/- Property theorems for C10 (stub: not built yet). -/
namespace SkVerif.C10
end SkVerif.C10
