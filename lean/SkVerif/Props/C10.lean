/-
C10  Updating with new data is equivalent to having observed it, for every history.
Theorems about the forecaster state machine (SkVerif/Model/Forecaster.lean, Series.lean), for
ANY `Core` and both horizon mixins unless stated.  Only theorems + non-vacuity examples here.
-/
import SkVerif.Lemmas.Update
namespace SkVerif.C10
open SkVerif SkVerif.Fc

/-- `combine_first` on sorted series: a later finite observation wins, a later NaN keeps the older
value, labels present in only one of the two are kept -/
theorem lookup_combineFirst (new old : Series) (l : Int)
    (hn : Lem.SSorted new) (ho : Lem.SSorted old) :
    Series.lookup (Series.combineFirst new old) l = Lem.merged new old l :=
  Lem.lookup_combineFirst new old l hn ho

/-- a history of updates (with or without refitting, succeeding or not) after a successful fit -/
def updates (bs : List (Series × Bool)) : List Op := bs.map (fun b => Op.update b.1 b.2)

/-- For every sequence of updates the forecaster remembers the union of all observations it was
given, folded batch by batch with later values winning (see `lookup_combineFirst`), and stays
fitted.  (An update that raises - e.g. refit without a stored horizon - has still merged its
batch: see `update_half_applied_without_fh`.) -/
theorem remembered_eq_union_later_wins (core : Core) (mode : FhMode) (s : FState)
    (hfit : s.fitted = true) (bs : List (Series × Bool)) :
    (run core mode s (updates bs)).1.y = bs.foldl (fun acc b => Series.combineFirst b.1 acc) s.y ∧
    (run core mode s (updates bs)).1.fitted = true := by
  induction bs generalizing s with
  | nil => simp [updates, run, hfit]
  | cons b bs ih =>
    have h1 := Lem.update_y_fitted core mode s b.1 b.2 hfit
    simp only [updates, List.map_cons, run, step, List.foldl_cons]
    have := ih (update core mode s b.1 b.2).1 h1.2
    simp only [updates] at this
    rw [h1.1] at this
    exact this

/-- … and the remembered series stays sorted by time -/
theorem remembered_sorted (core : Core) (mode : FhMode) (s : FState)
    (hfit : s.fitted = true) (hs : Lem.SSorted s.y) (bs : List (Series × Bool)) :
    Lem.SSorted (run core mode s (updates bs)).1.y := by
  rw [(remembered_eq_union_later_wins core mode s hfit bs).1]
  induction bs generalizing s with
  | nil => exact hs
  | cons b bs ih =>
    simp only [List.foldl_cons]
    have : ∀ (acc : Series), Lem.SSorted acc →
        Lem.SSorted (bs.foldl (fun acc b => Series.combineFirst b.1 acc) acc) := by
      intro acc hacc
      exact ih { s with y := acc } hfit hacc
    exact this _ (Lem.combineFirst_sorted b.1 s.y hs)

/-- A forecaster that refits on update is, after `fit(y1, fh); update(y2)`, in exactly the state of
a fresh forecaster fitted on `y2.combine_first(y1)` with the same horizon … -/
theorem refit_update_equiv_fresh_fit (core : Core) (mode : FhMode) (s : FState) (y2 : Series) (f : FH.FH)
    (hfit : s.fitted = true) (hfh : s.fh = some f)
    (hdone : (update core mode s y2 true).2 = .done) :
    (update core mode s y2 true).1 = (fitWith core mode {} (Series.combineFirst y2 s.y) (some f)).1 ∧
    (fitWith core mode {} (Series.combineFirst y2 s.y) (some f)).2 = .done :=
  Lem.refit_equiv core mode s y2 f hfit hfh hdone

/-- … hence indistinguishable under every continuation of the history -/
theorem refit_update_equiv_fresh_fit_continuation (core : Core) (mode : FhMode) (s : FState) (y2 : Series)
    (f : FH.FH) (hfit : s.fitted = true) (hfh : s.fh = some f)
    (hdone : (update core mode s y2 true).2 = .done) (ops : List Op) :
    (run core mode (update core mode s y2 true).1 ops).2 =
      (run core mode (fitWith core mode {} (Series.combineFirst y2 s.y) (some f)).1 ops).2 := by
  rw [(refit_update_equiv_fresh_fit core mode s y2 f hfit hfh hdone).1]

/-- with parameter updating disabled the fitted parameters (here: the resolved window length),
the stored horizon and the fitted flag stay those of the last fit; only the remembered data
and the cutoff move -/
theorem no_param_update_keeps_params_moves_cutoff (core : Core) (mode : FhMode) (s : FState) (y : Series)
    (o : Obs) (hfit : s.fitted = true) (hlast : y.getLast? = some o) :
    (update core mode s y false).1 =
      { s with y := Series.combineFirst y s.y, cutoff := some o.1 } ∧
    (update core mode s y false).2 = .done := by
  simp [update, hfit, hlast]

/-- `update_predict` leaves the forecaster's own cutoff where it was before the call -/
theorem update_predict_restores_cutoff (core : Core) (mode : FhMode) (s : FState) (y : Series)
    (cv : Option CvSpec) (up : Bool) :
    (updatePredict core mode s y cv up).1.cutoff = s.cutoff :=
  Lem.updatePredict_cutoff core mode s y cv up

/-- `update_predict` returns exactly the forecasts that the corresponding sequence of single
updates and predicts returns: with `statesAfter'` = the states reached by feeding the training
windows one after the other through `update`, the k-th forecast is `_predict(fh)` made in the k-th
of those states at that state's cutoff, and the k-th recorded cutoff is that state's cutoff -/
theorem update_predict_eq_iterated_single (core : Core) (mode : FhMode) (y : Series) (fh : FH.FH) (up : Bool)
    (ws : List (List Int)) (st : FState) (preds : List Series) (cuts : List Int) (sEnd : FState)
    (h : movingCutoff.go core mode y fh up ws st [] [] = (sEnd, .ok (preds, cuts))) :
    cuts = (Lem.statesAfter' core mode y up st ws).filterMap (·.cutoff) ∧
    preds.map some = (Lem.statesAfter' core mode y up st ws).map (Lem.predOf core fh) ∧
    preds.length = ws.length := by
  obtain ⟨preds', cuts', e1, e2, e3, e4, e5⟩ := Lem.movingGo_gen core mode y fh up ws st [] [] preds cuts sEnd h
  simp only [List.nil_append] at e1 e2
  subst e1; subst e2
  exact ⟨e3, e4, e5⟩

/-- a multi-step `update_predict` labels its columns by the cutoffs of those single steps -/
theorem update_predict_labels_are_cutoffs (preds : List Series) (cuts cols : List Int)
    (rows : List (Int × List ORat)) (h : formatMoving preds cuts = .frame cols rows) : cols = cuts := by
  unfold formatMoving at h
  cases preds with
  | nil => simp at h
  | cons p0 rest =>
    simp only at h
    split at h
    · simp at h
    · cases rest with
      | nil => simp at h
      | cons p1 r => simp only [Out.frame.injEq] at h; exact h.1.symm

/-- observed behaviour (not demanded by the property): `update(update_params=True)` on a forecaster
that never got a horizon raises ValueError AFTER having merged the batch and moved the cutoff -/
theorem update_half_applied_without_fh (core : Core) (s : FState) (y : Series) (o : Obs)
    (hfit : s.fitted = true) (hfh : s.fh = none) (hlast : y.getLast? = some o) :
    update core .optional s y true =
      ({ s with y := Series.combineFirst y s.y, cutoff := some o.1 }, .err .value) := by
  simp [update, hfit, hfh, hlast]

-- non-vacuity
example : Lem.merged [(1, some 5), (2, none)] [(0, some 1), (1, some 2), (2, some 3)] 1 = some (some 5) := by decide
example : Lem.merged [(1, some 5), (2, none)] [(0, some 1), (1, some 2), (2, some 3)] 2 = some (some 3) := by decide
example : Series.combineFirst [(1, some 5), (2, none), (4, some 9)] [(0, some 1), (1, some 2), (2, some 3)] =
    [(0, some 1), (1, some 5), (2, some 3), (4, some 9)] := by decide

end SkVerif.C10
