/-
C19  Benchmark runs are exactly-once, resumable and store what was actually predicted.
Property theorems about SkVerif/Model/Orch.lean (`Orchestrator.fit_predict` over `HDDResults` / `RAMResults`),
stated against SkVerif/Spec/Orch.lean.  Only theorems + non-vacuity examples here.

Reading guide: `items` is ANY work list (what `_iter` yields), `cfg` ANY store naming scheme (`cfg.disk = true`:
a store with existence checks such as `HDDResults`), `L` ANY deterministic estimator, `o` ANY option combination,
`fail` ANY failure point (the k-th fit-or-predict call raises; `none` = no failure), histories are ANY lists of
runs.  `KeyInj cfg items`: distinct (strategy, dataset, fold, part) have distinct keys; proved for BOTH the HDD and
the RAM naming scheme from distinct names in `mkWork_keys_injective`, so every theorem below applies to the real
work list over either store.  The model is the code AFTER the fixes 027a939 (a skipped iteration re-registers its
names) and 23c2285 (RAM keys are tuples); what failed before them is kept in `corpus/C19/witnesses.json` and in
`original_ram_key_collision` below.
-/
import SkVerif.Lemmas.OrchApi
import SkVerif.Lemmas.OrchWork
import SkVerif.Lemmas.OrchOwed
set_option linter.unusedSectionVars false
namespace SkVerif.C19
open SkVerif.Orch SkVerif.Orch.Spec SkVerif.Orch.Lem

variable {N K W : Type} [DecidableEq N] [DecidableEq K]

/-- what a record says, without its time stamp -/
def Rec.data (r : Rec N) : Content × N × N := (r.c, r.s, r.d)

/-- **Exactly one record per key.**  An uninterrupted run over an empty store ends without error and its record
map has no duplicate keys and holds exactly the keys of (item, requested part): one record per strategy,
dataset, fold and requested train/test part, and nothing else.  (RAM stores: with `save_fitted_strategies`
off, which is the only mode `RAMResults` supports.) -/
theorem exactly_one_record_per_key (cfg : Cfg N K) (L : Learner W) (o : Opts) (items : List (Item N))
    (ho : Valid o) (hd : cfg.disk = true ∨ o.saveF = false) :
    let r := fitPredict cfg L o none items (St.empty : St N K W)
    r.err = none ∧ (keys r.st.recs).Nodup ∧
    ∀ k, k ∈ keys r.st.recs ↔ ∃ it ∈ items, ∃ p ∈ parts o, k = rk cfg it p := by
  intro r
  have hr : r = finish cfg (runItems cfg L o none items (Run.start St.empty)) := fitPredict_valid cfg L o none ho items _
  have herr : (runItems cfg L o none items (Run.start (St.empty : St N K W))).err = none :=
    runItems_noErr cfg L o items _ rfl hd
  refine ⟨by rw [hr]; simpa using herr, ?_, ?_⟩
  · rw [hr, finish_recs]
    exact runItems_nodupR cfg L o none items _ (by simp [Run.start, St.empty, keys])
  · intro k
    rw [hr, finish_recs, ← has_iff_mem_keys]
    constructor
    · intro hk
      exact runItems_withinR cfg L o none items (Run.start St.empty) (good_empty cfg L o items).withinR k hk
    · rintro ⟨it, hit, p, hp, rfl⟩
      have hc := runItems_complete cfg L o none items _ herr it hit
      unfold parts at hp
      cases p
      · split at hp
        · rename_i hpot; exact hc.2.1 hpot
        · simp at hp
      · exact hc.1

/-- **Every stored record is the honest one.**  After ANY history of runs (any options, failure points, new or
reused results objects) starting from an empty store, a record stored under the key of (item, part) has
exactly the instance index, the true values and the predictions of fitting a fresh clone on the item's
training instances and predicting the part's instances, and carries the item's names; a saved fitted strategy
holds exactly that fit.  (`KeyInj` holds for `HDDResults` and `RAMResults` alike: `mkWork_keys_injective`.) -/
theorem record_eq_honest_fold (cfg : Cfg N K) (L : Learner W) (items : List (Item N)) (hk : KeyInj cfg items)
    (history : List RunSpec) :
    ∀ r ∈ runHistory cfg L items (St.empty : St N K W) history, ∀ it ∈ items,
      (∀ p rec, get? (rk cfg it p) r.st.recs = some rec →
        rec.c = honest L it p ∧ rec.s = it.s ∧ rec.d = it.d) ∧
      (∀ sr, get? (sk cfg it) r.st.strats = some sr → sr.w = honestFit L it) := by
  intro r hr it hit
  have h := honest_runHistory cfg L items hk history St.empty
    ⟨(good_empty cfg L ⟨false, false, false, false⟩ items).honestR,
     (good_empty cfg L ⟨false, false, false, false⟩ items).honestS⟩ r hr
  exact ⟨fun p rec hg => h.1 it hit p rec hg, fun sr hg => h.2 it hit sr hg⟩

/-- **Reading back = what is stored.**  `load_predictions(fold, part)` succeeds iff a record exists for every
registered (strategy, dataset) pair, and then returns, pair by pair in registry order, exactly the stored
record (labelled with the pair's names on disk; with the names it was saved under in memory).
The csv / pickle round trip itself is NOT modelled: it is observed by the correspondence only. -/
theorem load_eq_saved (cfg : Cfg N K) (st : St N K W) (fold : Nat) (p : Part) :
    (∀ rs, loadPredictions cfg st fold p = .ok rs →
      rs.length = (pairs st).length ∧
      ∀ sdx ∈ (pairs st).zip rs, get? (cfg.rkey sdx.1.1 sdx.1.2 p fold) st.recs = some sdx.2.2.2 ∧
        (sdx.2.1, sdx.2.2.1) = (if cfg.disk then sdx.1 else (sdx.2.2.2.s, sdx.2.2.2.d))) ∧
    ((∀ sd ∈ pairs st, has (cfg.rkey sd.1 sd.2 p fold) st.recs = true) →
      ∃ rs, loadPredictions cfg st fold p = .ok rs) := by
  unfold loadPredictions
  generalize pairs st = ps
  constructor
  · induction ps with
    | nil => intro rs h; simp [loadAll] at h; subst h; simp
    | cons a t ih =>
      intro rs h
      obtain ⟨s, d⟩ := a
      unfold loadAll at h
      split at h
      · cases h
      · rename_i rr hg
        split at h
        · cases h
        · rename_i rs' hl
          cases h
          obtain ⟨il, ih2⟩ := ih rs' hl
          refine ⟨by simp [il], ?_⟩
          intro sdx hm
          rw [List.zip_cons_cons] at hm
          rcases List.mem_cons.1 hm with e | hm
          · subst e
            cases hdk : cfg.disk <;> simp [hg]
          · exact ih2 sdx hm
  · induction ps with
    | nil => intro _; exact ⟨[], rfl⟩
    | cons a t ih =>
      intro h
      obtain ⟨s, d⟩ := a
      obtain ⟨rs', hrs'⟩ := ih (fun sd hsd => h sd (List.mem_cons_of_mem _ hsd))
      have hh := h (s, d) List.mem_cons_self
      simp only [has, Option.isSome_iff_exists] at hh
      obtain ⟨rr, hrr⟩ := hh
      exact ⟨_, by unfold loadAll; simp only [hrr, hrs']; rfl⟩

/-- **Resume completes to the uninterrupted store.**  On a store with existence checks, with overwriting
disabled: after ANY sequence of earlier runs with the same options (each failing at any call, or not at all,
each over a new or the reused results object) a run without failure ends without error, and its record map
and its saved-strategy map equal those of one uninterrupted run over an empty store (key by key; time stamps
aside).  Registry and master file: `resume_registry_complete`, `registry_names_only_items`. -/
theorem resume_completes_to_uninterrupted (cfg : Cfg N K) (L : Learner W) (o : Opts) (items : List (Item N))
    (hd : cfg.disk = true) (hk : KeyInj cfg items) (_hP : o.owP = false) (hF : o.owF = false)
    (earlier : List RunSpec) (hsame : ∀ rs ∈ earlier, rs.o = o) (fresh : Bool) :
    let r2 := runOne cfg L items (stateAfter cfg L items (St.empty : St N K W) earlier) ⟨o, none, fresh⟩
    let rU := fitPredict cfg L o none items (St.empty : St N K W)
    r2.err = none ∧
    (∀ k, (get? k r2.st.recs).map Rec.data = (get? k rU.st.recs).map Rec.data) ∧
    (∀ k, (get? k r2.st.strats).map (·.w) = (get? k rU.st.strats).map (·.w)) := by
  intro r2 rU
  have ho : Valid o := by simp [Valid, hF]
  -- both runs: no error, good store, complete
  have key : ∀ st : St N K W, Good cfg L o items st →
      let r := fitPredict cfg L o none items st
      r.err = none ∧ Good cfg L o items r.st ∧ ∀ it ∈ items, CompleteItem cfg o r.st it := by
    intro st hg r
    have hr : r = finish cfg (runItems cfg L o none items (Run.start st)) := fitPredict_valid cfg L o none ho items _
    have herr := (runItems_ok cfg L o items (keyInj_pairwise cfg items hk) (Run.start st) rfl (Or.inl hd)).1
    refine ⟨by rw [hr]; simpa using herr, good_fitPredict cfg L o none items hk st hg, ?_⟩
    intro it hit
    have hc := runItems_complete cfg L o none items _ herr it hit
    rw [hr]
    exact ⟨by simpa using hc.1, fun h => by simpa using hc.2.1 h, fun h => by simpa using hc.2.2 h⟩
  have g1 := good_stateAfter cfg L o items hk earlier hsame St.empty (good_empty cfg L o items)
  have k2 : r2.err = none ∧ Good cfg L o items r2.st ∧ ∀ it ∈ items, CompleteItem cfg o r2.st it := by
    show (runOne cfg L items _ ⟨o, none, fresh⟩).err = none ∧ _
    unfold runOne
    cases fresh
    · exact key _ g1
    · exact key _ (good_freshObj cfg L o items _ g1)
  have kU := key St.empty (good_empty cfg L o items)
  obtain ⟨e2, g2, c2⟩ := k2
  obtain ⟨_, gU, cU⟩ := kU
  -- two good complete stores agree key by key
  have agreeR : ∀ (a b : St N K W), Good cfg L o items a → (∀ it ∈ items, CompleteItem cfg o a it) →
      Good cfg L o items b → (∀ it ∈ items, CompleteItem cfg o b it) →
      ∀ k, (get? k a.recs).map Rec.data = (get? k b.recs).map Rec.data := by
    intro a b ga ca gb cb k
    have side : ∀ (x y : St N K W), Good cfg L o items x → Good cfg L o items y →
        (∀ it ∈ items, CompleteItem cfg o y it) → ∀ v, get? k x.recs = some v →
        ∃ v', get? k y.recs = some v' ∧ Rec.data v = Rec.data v' := by
      intro x y gx gy cy v hv
      obtain ⟨it, hit, p, hp, e⟩ := gx.withinR k (get?_some_has hv)
      subst e
      have hy : has (rk cfg it p) y.recs = true := by
        unfold parts at hp
        cases p
        · split at hp
          · rename_i hpot; exact (cy it hit).2.1 hpot
          · simp at hp
        · exact (cy it hit).1
      simp only [has, Option.isSome_iff_exists] at hy
      obtain ⟨v', hv'⟩ := hy
      refine ⟨v', hv', ?_⟩
      obtain ⟨a1, a2, a3⟩ := gx.honestR it hit p v hv
      obtain ⟨b1, b2, b3⟩ := gy.honestR it hit p v' hv'
      simp [Rec.data, a1, a2, a3, b1, b2, b3]
    cases ha : get? k a.recs with
    | some v =>
      obtain ⟨v', hv', e⟩ := side a b ga gb cb v ha
      simp [hv', e]
    | none =>
      cases hb : get? k b.recs with
      | none => rfl
      | some v' =>
        obtain ⟨v, hv, _⟩ := side b a gb ga ca v' hb
        rw [ha] at hv; cases hv
  have agreeS : ∀ (a b : St N K W), Good cfg L o items a → (∀ it ∈ items, CompleteItem cfg o a it) →
      Good cfg L o items b → (∀ it ∈ items, CompleteItem cfg o b it) →
      ∀ k, (get? k a.strats).map (·.w) = (get? k b.strats).map (·.w) := by
    intro a b ga ca gb cb k
    have side : ∀ (x y : St N K W), Good cfg L o items x → Good cfg L o items y →
        (∀ it ∈ items, CompleteItem cfg o y it) → ∀ v, get? k x.strats = some v →
        ∃ v', get? k y.strats = some v' ∧ v.w = v'.w := by
      intro x y gx gy cy v hv
      obtain ⟨hs, it, hit, e⟩ := gx.withinS k (get?_some_has hv)
      subst e
      have hy := (cy it hit).2.2 hs
      simp only [has, Option.isSome_iff_exists] at hy
      obtain ⟨v', hv'⟩ := hy
      exact ⟨v', hv', by rw [gx.honestS it hit v hv, gy.honestS it hit v' hv']⟩
    cases ha : get? k a.strats with
    | some v =>
      obtain ⟨v', hv', e⟩ := side a b ga gb cb v ha
      simp [hv', e]
    | none =>
      cases hb : get? k b.strats with
      | none => rfl
      | some v' =>
        obtain ⟨v, hv, _⟩ := side b a gb ga ca v' hb
        rw [ha] at hv; cases hv
  exact ⟨e2, agreeR _ _ g2 c2 gU cU, agreeS _ _ g2 c2 gU cU⟩

/-- **Completed work is neither modified ...**  On a store with existence checks, a run with
`overwrite_predictions` off (failing anywhere or not, new or reused results object) leaves every record that
existed before identical, time stamp included; with `overwrite_fitted_strategies` off the same holds for
every saved fitted strategy.  ("nor recomputed": `resume_produces_exactly_missing`.) -/
theorem resume_does_not_touch_completed (cfg : Cfg N K) (L : Learner W) (o : Opts) (items : List (Item N))
    (hd : cfg.disk = true) (fail : Option Nat) (fresh : Bool) (st : St N K W) :
    let r := runOne cfg L items st ⟨o, fail, fresh⟩
    (o.owP = false → ∀ k v, get? k st.recs = some v → get? k r.st.recs = some v) ∧
    (o.owF = false → ∀ k v, get? k st.strats = some v → get? k r.st.strats = some v) := by
  intro r
  have hst : ∀ st0 : St N K W, st0.recs = st.recs → st0.strats = st.strats →
      (o.owP = false → ∀ k v, get? k st.recs = some v → get? k (fitPredict cfg L o fail items st0).st.recs = some v) ∧
      (o.owF = false → ∀ k v, get? k st.strats = some v → get? k (fitPredict cfg L o fail items st0).st.strats = some v) := by
    intro st0 e1 e2
    by_cases ho : Valid o
    · rw [fitPredict_valid cfg L o fail ho]
      refine ⟨fun hP k v h => ?_, fun hF k v h => ?_⟩
      · rw [finish_recs]; exact runItems_keepR cfg L o fail hd hP items _ k v (by simpa [Run.start, e1] using h)
      · rw [finish_strats]; exact runItems_keepS cfg L o fail hd hF items _ k v (by simpa [Run.start, e2] using h)
    · rw [fitPredict_invalid cfg L o fail ho]
      exact ⟨fun _ k v h => by simpa [Run.start, e1] using h, fun _ k v h => by simpa [Run.start, e2] using h⟩
  show (_ → ∀ k v, _ → get? k (runOne cfg L items st ⟨o, fail, fresh⟩).st.recs = some v) ∧ _
  unfold runOne
  cases fresh
  · exact hst st rfl rfl
  · exact hst (freshObj cfg st) (freshObj_recs_disk cfg hd st) (freshObj_strats_disk cfg hd st)

/-- **... nor recomputed; exactly the missing ones are produced.**  On a store with existence checks, a run
with overwriting disabled in which no call fails makes, item by item in work-list order, exactly the calls the
store owes: nothing for an item whose requested records (and fitted strategy, if requested) all exist; else one
fit and one predict per requested part whose record is missing.  It writes exactly the missing records and
(if requested) the missing fitted strategies, and nothing else. -/
theorem resume_produces_exactly_missing (cfg : Cfg N K) (L : Learner W) (o : Opts) (items : List (Item N))
    (hd : cfg.disk = true) (hk : KeyInj cfg items) (hP : o.owP = false) (hF : o.owF = false) (st : St N K W) :
    let r := fitPredict cfg L o none items st
    r.err = none ∧
    r.log = items.flatMap (owedCalls cfg o st) ∧
    r.wrRecs = items.flatMap (owedRecs cfg o st) ∧
    r.wrStrats = items.flatMap (owedStrats cfg o st) := by
  intro r
  have ho : Valid o := by simp [Valid, hF]
  have hr : r = finish cfg (runItems cfg L o none items (Run.start st)) := fitPredict_valid cfg L o none ho items _
  obtain ⟨e1, e2, e3, e4⟩ := runItems_ok cfg L o items (keyInj_pairwise cfg items hk) (Run.start st) rfl (Or.inl hd)
  rw [hr]
  refine ⟨by simpa using e1, ?_, ?_, ?_⟩
  · rw [finish_log, e2]; simp only [Run.start, List.nil_append]
    exact flatMap_congr' items _ _ (fun it _ => (owed_eq cfg o hd hP hF st it).1)
  · rw [finish_wrRecs, e3]; simp only [Run.start, List.nil_append]
    exact flatMap_congr' items _ _ (fun it _ => (owed_eq cfg o hd hP hF st it).2.1)
  · rw [finish_wrStrats, e4]; simp only [Run.start, List.nil_append]
    exact flatMap_congr' items _ _ (fun it _ => (owed_eq cfg o hd hP hF st it).2.2)

/-- **A further identical run performs no fits.**  On a store with existence checks: after a run that ended
without error (any options, any earlier store), a run with the same `predict_on_train` /
`save_fitted_strategies` options and overwriting disabled makes no estimator call at all (so no failure point
can hit), writes nothing, and leaves records and saved strategies as they are. -/
theorem rerun_performs_no_fits (cfg : Cfg N K) (L : Learner W) (o1 : Opts) (items : List (Item N))
    (hd : cfg.disk = true) (ho1 : Valid o1) (fail1 fail2 : Option Nat) (fresh : Bool) (st : St N K W) :
    let r1 := fitPredict cfg L o1 fail1 items st
    let o2 : Opts := { o1 with owP := false, owF := false }
    let r2 := runOne cfg L items r1.st ⟨o2, fail2, fresh⟩
    r1.err = none →
      r2.err = none ∧ r2.log = [] ∧ r2.wrRecs = [] ∧ r2.wrStrats = [] ∧
      r2.st.recs = r1.st.recs ∧ r2.st.strats = r1.st.strats := by
  intro r1 o2 r2 herr
  have hr1 : r1 = finish cfg (runItems cfg L o1 fail1 items (Run.start st)) := fitPredict_valid cfg L o1 fail1 ho1 items _
  have herr' : (runItems cfg L o1 fail1 items (Run.start st)).err = none := by rw [hr1] at herr; simpa using herr
  have hc : ∀ it ∈ items, CompleteItem cfg o2 r1.st it := by
    intro it hit
    have := runItems_complete cfg L o1 fail1 items _ herr' it hit
    rw [hr1]
    exact ⟨by simpa using this.1, fun h => by simpa using this.2.1 h, fun h => by simpa using this.2.2 h⟩
  have ho2 : Valid o2 := by simp [Valid, o2]
  have main : ∀ st0 : St N K W, st0.recs = r1.st.recs → st0.strats = r1.st.strats →
      let r := fitPredict cfg L o2 fail2 items st0
      r.err = none ∧ r.log = [] ∧ r.wrRecs = [] ∧ r.wrStrats = [] ∧ r.st.recs = r1.st.recs ∧ r.st.strats = r1.st.strats := by
    intro st0 e1 e2 r
    have hc0 : ∀ it ∈ items, CompleteItem cfg o2 (Run.start st0).st it := by
      intro it hit
      have := hc it hit
      unfold CompleteItem at this ⊢
      simpa [Run.start, e1, e2] using this
    obtain ⟨n1, n2, _, n4, n5, n6, n7, _⟩ := runItems_noop cfg L o2 fail2 hd rfl rfl items (Run.start st0) hc0
    have hr : r = finish cfg (runItems cfg L o2 fail2 items (Run.start st0)) := fitPredict_valid cfg L o2 fail2 ho2 items _
    rw [hr]
    simp only [finish_err, finish_log, finish_wrRecs, finish_wrStrats, finish_recs, finish_strats]
    exact ⟨by rw [n7]; rfl, by rw [n4]; rfl, by rw [n5]; rfl, by rw [n6]; rfl, by rw [n1]; exact e1, by rw [n2]; exact e2⟩
  show (runOne cfg L items r1.st ⟨o2, fail2, fresh⟩).err = none ∧ _
  unfold runOne
  cases fresh
  · exact main r1.st rfl rfl
  · exact main (freshObj cfg r1.st) (freshObj_recs_disk cfg hd _) (freshObj_strats_disk cfg hd _)

/-- **Overwriting recomputes every record.**  With `overwrite_predictions` on, a run in which no call fails,
over ANY store, fits every item once and predicts every requested part once, in work-list order, and
(re)writes every requested record. -/
theorem overwrite_recomputes_all (cfg : Cfg N K) (L : Learner W) (o : Opts) (items : List (Item N))
    (hd : cfg.disk = true ∨ o.saveF = false) (hk : KeyInj cfg items) (ho : Valid o) (hP : o.owP = true)
    (st : St N K W) :
    let r := fitPredict cfg L o none items st
    r.err = none ∧
    r.log = items.flatMap (allCalls o) ∧
    r.wrRecs = items.flatMap (fun it => (parts o).map (rk cfg it)) := by
  intro r
  have hr : r = finish cfg (runItems cfg L o none items (Run.start st)) := fitPredict_valid cfg L o none ho items _
  obtain ⟨e1, e2, e3, _⟩ := runItems_ok cfg L o items (keyInj_pairwise cfg items hk) (Run.start st) rfl hd
  rw [hr]
  refine ⟨by simpa using e1, ?_, ?_⟩
  · rw [finish_log, e2]; simp only [Run.start, List.nil_append]
    exact flatMap_congr' items _ _ (fun it _ => (overwrite_eq cfg o hP _ it).1)
  · rw [finish_wrRecs, e3]; simp only [Run.start, List.nil_append]
    exact flatMap_congr' items _ _ (fun it _ => (overwrite_eq cfg o hP _ it).2)

/-- **Exactly once.**  An uninterrupted run over an empty store fits every item exactly once and predicts
every requested part exactly once, in work-list order (whatever the overwrite flags), and writes every
requested record exactly once. -/
theorem uninterrupted_log_exactly_once (cfg : Cfg N K) (L : Learner W) (o : Opts) (items : List (Item N))
    (hd : cfg.disk = true ∨ o.saveF = false) (hk : KeyInj cfg items) (ho : Valid o) :
    let r := fitPredict cfg L o none items (St.empty : St N K W)
    r.err = none ∧
    r.log = items.flatMap (allCalls o) ∧
    r.wrRecs = items.flatMap (fun it => (parts o).map (rk cfg it)) := by
  intro r
  have hr : r = finish cfg (runItems cfg L o none items (Run.start St.empty)) := fitPredict_valid cfg L o none ho items _
  obtain ⟨e1, e2, e3, _⟩ := runItems_ok cfg L o items (keyInj_pairwise cfg items hk) (Run.start St.empty) rfl hd
  rw [hr]
  refine ⟨by simpa using e1, ?_, ?_⟩
  · rw [finish_log, e2]; simp only [Run.start, List.nil_append]
    exact flatMap_congr' items _ _ (fun it _ => (empty_eq cfg o it).1)
  · rw [finish_wrRecs, e3]; simp only [Run.start, List.nil_append]
    exact flatMap_congr' items _ _ (fun it _ => (empty_eq cfg o it).2)

/-! ### the registry of strategy / dataset names (part of "the final store equals that of an uninterrupted run") -/

/-- **The registry is complete after every run that ends without error.**  On a store with existence checks,
over ANY earlier store and with a new or the reused results object alike, any failure point: if the run ends
without error, every strategy and dataset of the work list is named in the live registry
(`results.strategy_names / dataset_names`) and in the master file -- also those whose work was complete
before and is skipped now.  (Before fix 027a939 this failed after a crash + new results object:
`corpus/C19/witnesses.json[0]`.) -/
theorem resume_registry_complete (cfg : Cfg N K) (L : Learner W) (o : Opts) (items : List (Item N))
    (hd : cfg.disk = true) (ho : Valid o) (fail : Option Nat) (fresh : Bool) (st : St N K W) :
    let r := runOne cfg L items st ⟨o, fail, fresh⟩
    r.err = none → ∀ it ∈ items,
      it.s ∈ r.st.regS ∧ it.d ∈ r.st.regD ∧
      ∃ ms md, r.st.master = some (ms, md) ∧ it.s ∈ ms ∧ it.d ∈ md := by
  intro r
  have main : ∀ st0 : St N K W, (fitPredict cfg L o fail items st0).err = none → ∀ it ∈ items,
      it.s ∈ (fitPredict cfg L o fail items st0).st.regS ∧ it.d ∈ (fitPredict cfg L o fail items st0).st.regD ∧
      ∃ ms md, (fitPredict cfg L o fail items st0).st.master = some (ms, md) ∧ it.s ∈ ms ∧ it.d ∈ md := by
    intro st0
    rw [fitPredict_valid cfg L o fail ho items st0]
    intro herr it hit
    have herr' : (runItems cfg L o fail items (Run.start st0)).err = none := by simpa using herr
    have hreg := runItems_registers cfg L o fail ho items _ herr' it hit
    unfold finish
    simp only [herr', Option.isSome_none, Bool.false_eq_true, if_false]
    generalize (runItems cfg L o fail items (Run.start st0)).st = s1 at hreg
    unfold save
    simp only [hd, if_true]
    cases hm : s1.master with
    | none => exact ⟨hreg.1, hreg.2, s1.regS, s1.regD, rfl, hreg.1, hreg.2⟩
    | some m =>
      obtain ⟨ms, md⟩ := m
      have h1 : it.s ∈ dedup (s1.regS ++ ms) := (mem_dedup _ _).2 (List.mem_append_left _ hreg.1)
      have h2 : it.d ∈ dedup (s1.regD ++ md) := (mem_dedup _ _).2 (List.mem_append_left _ hreg.2)
      exact ⟨h1, h2, _, _, rfl, h1, h2⟩
  show (runOne cfg L items st ⟨o, fail, fresh⟩).err = none → _
  unfold runOne
  cases fresh
  · exact main st
  · exact main (freshObj cfg st)

/-- ... **and names nothing else**: along ANY history of runs over the same work list from an empty store, the
live registry and the master file only ever name strategies and datasets of the work list.  Together with
`resume_registry_complete`: after a resumed run that ends without error the registry and the master file name
exactly the work list's strategies and datasets, as after an uninterrupted run. -/
theorem registry_names_only_items (cfg : Cfg N K) (L : Learner W) (items : List (Item N)) (history : List RunSpec) :
    let st := stateAfter cfg L items (St.empty : St N K W) history
    (∀ x ∈ st.regS, ∃ it ∈ items, x = it.s) ∧ (∀ x ∈ st.regD, ∃ it ∈ items, x = it.d) ∧
    (∀ ms md, st.master = some (ms, md) →
      (∀ x ∈ ms, ∃ it ∈ items, x = it.s) ∧ (∀ x ∈ md, ∃ it ∈ items, x = it.d)) := by
  intro st
  exact regWithin_stateAfter cfg L items history St.empty
    ⟨fun x h => by simp [St.empty] at h, fun x h => by simp [St.empty] at h,
     fun ms md h => by simp [St.empty] at h⟩

/-! concrete configuration used by the examples -/

/-- a trivial estimator and a two-strategy, one-fold work list -/
def wL : Learner Unit := ⟨fun _ _ _ => (), fun _ X => X.map (fun _ => 0)⟩
def wData : Data := ⟨[[0, 0], [1, 1], [2, 0]], 1, none⟩
def wItems : List (Item Nat) := [⟨0, 0, 0, wData, 0, [0, 1], [2]⟩, ⟨1, 0, 0, wData, 0, [0, 1], [2]⟩]
def wOpts : Opts := ⟨false, false, false, false⟩

/-- About the ORIGINAL code only (before fix 23c2285; not the model): the joined-string key
`f"{strategy}_{dataset}_{part}_{fold}"` that `RAMResults` used is not injective -- strategy "a" on dataset
"b_c" and strategy "a_b" on dataset "c" share every key.  The tuple key of the fixed code is injective
(`mkWork_keys_injective`). -/
def originalRamKey (s d : String) (p : Part) (f : Nat) : String :=
  s ++ "_" ++ d ++ "_" ++ p.str ++ "_" ++ toString f

theorem original_ram_key_collision :
    ("a", "b_c") ≠ ("a_b", "c") ∧ ∀ p f, originalRamKey "a" "b_c" p f = originalRamKey "a_b" "c" p f := by
  refine ⟨by decide, ?_⟩
  intro p f
  unfold originalRamKey
  have : "a" ++ "_" ++ "b_c" = "a_b" ++ "_" ++ "c" := by decide
  rw [this]

/-- **The real work list has injective keys, on disk and in memory.**  For the work list `_iter` builds (datasets ×
strategies × folds) and the `HDDResults` as well as the `RAMResults` naming scheme, distinct strategy names
(checked by `Orchestrator.__init__`) and distinct dataset names (NOT checked by the code: an assumption) give
distinct keys for distinct (strategy, dataset, fold, part), and no item occurs twice.  So every theorem above
applies to `mkWork` over `hddCfg` and over `ramCfg`. -/
theorem mkWork_keys_injective (dss : List (DS N)) (strats : List (Strat N))
    (hd : (dss.map (·.name)).Nodup) (hs : (strats.map (·.name)).Nodup) :
    KeyInj (hddCfg N) (mkWork dss strats) ∧ KeyInj (ramCfg N) (mkWork dss strats) :=
  ⟨mkWork_keyInj dss strats hd hs, mkWork_keyInj_ram dss strats hd hs⟩

/-- `Orchestrator.__init__` accepts only duplicate-free strategy names (the hypothesis `hs` above) -/
theorem validate_ok_names_nodup (nt nd : Nat) (names : List String) (h : validate nt nd names = .ok ()) :
    (dedup names).length = names.length ∧ nt = nd := by
  unfold validate at h
  split at h
  · cases h
  · split at h
    · cases h
    · rename_i h1 h2
      exact ⟨by simpa using h2, by simpa using h1⟩

/-- **One prediction per recorded instance.**  For an estimator whose `predict` answers with one value per
instance it is handed (`hL`), after ANY history of runs every stored record has as many true values and as many
predictions as recorded instances, whatever the length of the part: a part of ONE instance is stored as a record
of length one (not as a scalar), an empty part as an empty record. -/
theorem record_one_prediction_per_instance (cfg : Cfg N K) (L : Learner W) (items : List (Item N))
    (hk : KeyInj cfg items) (hL : ∀ w X, (L.predict w X).length = X.length) (history : List RunSpec) :
    ∀ r ∈ runHistory cfg L items (St.empty : St N K W) history, ∀ it ∈ items, ∀ p rec,
      get? (rk cfg it p) r.st.recs = some rec →
      rec.c.idx = it.idx p ∧ rec.c.yTrue.length = (it.idx p).length ∧ rec.c.yPred.length = (it.idx p).length := by
  intro r hr it hit p rec hg
  obtain ⟨hc, _, _⟩ := (record_eq_honest_fold cfg L items hk history r hr it hit).1 p rec hg
  rw [hc]
  cases p <;> simp [honest, instances, Item.idx, hL]

/-- **The existence checks look at keys only.**  Whether a record / a saved fitted strategy "exists" (and with it
the skip decision, the fits performed and the files written by a run) does not depend on WHAT is stored under the
keys: two stores with the same record keys and the same saved-strategy keys give the same existence flags for
every work item, whatever the stored index, true values and predictions are (labels of any spelling, missing
values, records of any length). -/
theorem existence_checks_ignore_content (cfg : Cfg N K) (st st' : St N K W) (it : Item N)
    (hr : keys st.recs = keys st'.recs) (hs : keys st.strats = keys st'.strats) :
    flagsOf cfg st it = flagsOf cfg st' it ∧
    ∀ o, skip o (flagsOf cfg st it) = skip o (flagsOf cfg st' it) := by
  have hR : ∀ k, has k st.recs = has k st'.recs := fun k => by
    rw [Bool.eq_iff_iff, has_iff_mem_keys, has_iff_mem_keys, hr]
  have hS : ∀ k, has k st.strats = has k st'.strats := fun k => by
    rw [Bool.eq_iff_iff, has_iff_mem_keys, has_iff_mem_keys, hs]
  have h : flagsOf cfg st it = flagsOf cfg st' it := by simp [flagsOf, hR, hS]
  exact ⟨h, fun o => by rw [h]⟩

/-! ### non-vacuity: the hypotheses above are met by a concrete, non-trivial configuration -/

/-- `record_one_prediction_per_instance`: the witness estimator answers one value per instance, and the witness
items have a test part of exactly ONE instance, stored as a record of length one -/
example : (∀ w X, (wL.predict w X).length = X.length) ∧ ∀ it ∈ wItems, (it.idx .test).length = 1 := by
  refine ⟨fun _ X => by simp [wL], by decide⟩
/-- `existence_checks_ignore_content`: two stores with the same keys and different contents -/
example :
    let a : St Nat (Nat × Nat × Part × Nat) Unit := { (St.empty) with recs := [((0, 0, .test, 0), ⟨⟨[2], [0], [0]⟩, 0, 0, 0⟩)] }
    let b : St Nat (Nat × Nat × Part × Nat) Unit := { (St.empty) with recs := [((0, 0, .test, 0), ⟨⟨[2], [7], [5]⟩, 3, 0, 0⟩)] }
    keys a.recs = keys b.recs ∧ a.recs ≠ b.recs ∧ (flagsOf (hddCfg Nat) a (⟨0, 0, 0, wData, 0, [0, 1], [2]⟩ : Item Nat)).testEx = true := by
  decide

example : wItems = mkWork [⟨0, wData, [([0, 1], [2])]⟩] [⟨0, 0⟩, ⟨1, 0⟩] := by decide
/-- injective keys (hypothesis `hk`) -/
example : KeyInj (hddCfg Nat) wItems ∧ KeyInj (ramCfg Nat) wItems :=
  mkWork_keys_injective [⟨0, wData, [([0, 1], [2])]⟩] [⟨0, 0⟩, ⟨1, 0⟩] (by decide) (by decide)
/-- accepted options (`ho`), overwriting disabled (`hP`, `hF`) -/
example : Valid wOpts ∧ wOpts.owP = false ∧ wOpts.owF = false := by unfold Valid; decide
/-- failure points really interrupt: the 1st, 2nd, 3rd and 4th call raising each ends the run with the injected
error; a 5th call does not exist -/
example : ∀ k ∈ [1, 2, 3, 4], (fitPredict (hddCfg Nat) wL wOpts (some k) wItems (St.empty : St Nat _ Unit)).err = some .inject := by
  decide
example : (fitPredict (hddCfg Nat) wL wOpts (some 5) wItems (St.empty : St Nat _ Unit)).err = none := by decide
/-- the crashed run of `resume_completes_to_uninterrupted` leaves a partial store (1 of 2 records) -/
example : (keys (runOne (hddCfg Nat) wL wItems (St.empty : St Nat _ Unit) ⟨wOpts, some 3, true⟩).st.recs).length = 1 := by
  decide
/-- `rerun_performs_no_fits`: the first run does end without error and stores records -/
example : (fitPredict (hddCfg Nat) wL wOpts none wItems (St.empty : St Nat _ Unit)).err = none ∧
    (keys (fitPredict (hddCfg Nat) wL wOpts none wItems (St.empty : St Nat _ Unit)).st.recs).length = 2 := by decide
/-- `load_eq_saved`: after the uninterrupted run every registered pair has its record and loading succeeds -/
example : ((loadPredictions (hddCfg Nat) (fitPredict (hddCfg Nat) wL wOpts none wItems (St.empty : St Nat _ Unit)).st 0 .test).toOption.map
    List.length) = some 2 := by decide
/-- `resume_registry_complete` at the former defect's witness: the 3rd call (strategy 1's fit) raises after
strategy 0 is complete; a run over a NEW results object ends without error and registers both strategies, in
the live registry and in the master file, and `load_predictions` yields both records -/
example :
    let st1 := (runOne (hddCfg Nat) wL wItems (St.empty : St Nat _ Unit) ⟨wOpts, some 3, true⟩).st
    let r2 := runOne (hddCfg Nat) wL wItems st1 ⟨wOpts, none, true⟩
    st1.master = none ∧ r2.err = none ∧ r2.log.length = 2 ∧ r2.st.regS = [0, 1] ∧
    r2.st.master = some ([0, 1], [0]) ∧
    (loadPredictions (hddCfg Nat) r2.st 0 .test).toOption.map List.length = some 2 := by
  decide
/-- in-memory store with names that collided under the original joined-string key: 4 items, 4 records -/
example :
    let items : List (Item String) :=
      mkWork [⟨"b_c", wData, [([0, 1], [2])]⟩, ⟨"c", wData, [([0, 1], [2])]⟩] [⟨"a", 0⟩, ⟨"a_b", 0⟩]
    let r := fitPredict (ramCfg String) wL ⟨false, false, false, false⟩ none items (St.empty : St String _ Unit)
    r.err = none ∧ items.length = 4 ∧ (keys r.st.recs).length = 4 := by
  decide
/-- RAM store: `save_fitted_strategies=True` (the default) is refused with NotImplementedError after the first fit -/
example : (fitPredict (ramCfg String) wL ⟨false, false, true, false⟩ none
    [(⟨"a", 0, "d", wData, 0, [0, 1], [2]⟩ : Item String)] (St.empty : St String _ Unit)).err = some .notImpl := by decide
/-- the honest record of the first witness item: index [2], true value 0, prediction 0 -/
example : honest wL (⟨0, 0, 0, wData, 0, [0, 1], [2]⟩ : Item Nat) .test = ⟨[2], [0], [0]⟩ := by decide

end SkVerif.C19
