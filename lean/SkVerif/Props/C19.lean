/- Property theorems for C19 (stub: not built yet). -/
namespace SkVerif.C19
end SkVerif.C19
