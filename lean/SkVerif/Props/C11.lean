/- Property theorems for C11 (stub: not built yet). -/
namespace SkVerif.C11
end SkVerif.C11
