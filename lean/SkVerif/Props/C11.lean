/-
C11  Elementary forecasters compute the textbook forecast they document.
Property theorems about SkVerif/Model/Naive.lean and SkVerif/Model/Trend.lean against the independently written
SkVerif/Spec/Naive.lean.  Only theorems + non-vacuity examples here; proofs of the heavier steps are in Lemmas/.

Conventions: a series is `y : Int → Option Rat` on integer time labels (`none` = NaN); `T` = cutoff; `window y T w` =
the observations at `T-w+1 … T`; horizons are sorted lists of steps (which every constructed horizon is, C02).
All theorems quantify over every series, cutoff, seasonal period, window length and horizon.

Three clauses do NOT hold at full strength for the code as it is (known findings, see findings/C11.md); for each the
full statement is kept in the comment, the proved theorem is `…_partial`, and a second theorem proves the negation
at a concrete witness:
  (F1) seasonal mean, `window_length % sp ≠ 0`: the window is padded at the END, seasons are aligned with the window start;
  (F2) seasonal mean, in-sample step whose window is cut by the start of the series: reshape raises;
  (F3) drift, in-sample step whose window is cut by the start of the series: slope divided by `window_length_ - 1`.
-/
import SkVerif.Lemmas.Naive
import SkVerif.Lemmas.NaiveTop
import SkVerif.Lemmas.Trend
namespace SkVerif.C11
open SkVerif SkVerif.Naive SkVerif.Lem.Naive
open SkVerif.Spec.Naive (window windowTimes meanOf sameSeason NormalEqs sse powers)

/-- strictly increasing (every constructed horizon is: C02 `mk_sorted_nodup`) -/
abbrev Sorted (l : List Int) : Prop := l.Pairwise (· < ·)

/-- a handy series for witnesses: `y(t) = t` -/
def ramp : Int → Val := fun t => some (t : Rat)
/-- `y(t) = t²` -/
def squares : Int → Val := fun t => some ((t * t : Int) : Rat)

/-! ## `_predict_last_window` = textbook, per strategy (out-of-sample steps `h ≥ 1`) -/

/-- last value: `ŷ(T+h) = y(T)` (NaN when it is missing) -/
theorem last_eq_spec (y : Int → Val) (T : Int) (fh : List Int) :
    predictLastWindow .last 1 1 (window y T 1) fh = .ok (fh.map (Spec.Naive.last y T)) := by
  have hw : window y T 1 = [y T] := by simp [window, windowTimes]
  have hl : Spec.Naive.last y T = fun _ => y T := rfl
  rw [hw, hl]
  cases hy : y T with
  | none => simp [predictLastWindow, allNaN]
  | some v => simp [predictLastWindow, allNaN]

example : predictLastWindow .last 1 1 (window ramp 9 1) [1, 4] = .ok [some 9, some 9] := by decide +kernel

/-- seasonal last value: `ŷ(T+h) = y(T + h − sp·⌈h/sp⌉)`, for every period, every horizon (beyond one season too) -/
theorem seasonal_last_eq_spec (y : Int → Val) (T : Int) (sp : Nat) (hsp : 2 ≤ sp) (fh : List Int)
    (hs : Sorted fh) (hpos : ∀ h ∈ fh, 1 ≤ h) :
    predictLastWindow .last sp sp (window y T sp) fh = .ok (fh.map (Spec.Naive.seasonalLast y T sp)) := by
  have hsp0 : 0 < sp := by omega
  have hidx : ∀ h : Int, ((h - 1) % (sp : Int)).toNat < sp := by
    intro h
    have := Int.emod_lt_of_pos (h - 1) (show (0 : Int) < sp by exact_mod_cast hsp0)
    have := Int.emod_nonneg (h - 1) (show (sp : Int) ≠ 0 by omega)
    omega
  have hval : ∀ h : Int, (window y T sp)[((h - 1) % (sp : Int)).toNat]? = some (Spec.Naive.seasonalLast y T sp h) := by
    intro h
    rw [window_getElem? y T sp _ (hidx h)]
    unfold Spec.Naive.seasonalLast
    rw [seasonalLast_index T h sp hsp0]
    have := Int.emod_nonneg (h - 1) (show (sp : Int) ≠ 0 by omega)
    rw [Int.toNat_of_nonneg this]
  unfold predictLastWindow
  by_cases hall : allNaN (window y T sp) = true
  · simp only [hall, Bool.true_or, ↓reduceIte]
    congr 1
    apply List.map_congr_left
    intro h _
    exact ((allNaN_iff _).mp hall _ (List.mem_of_getElem? (hval h))).symm
  · have hsp1 : ¬ (sp = 1) := by omega
    simp only [hall, isEmpty_false_of_not_allNaN _ hall, Bool.or_self, Bool.false_eq_true, ↓reduceIte, hsp1]
    apply mapE_ok
    intro h hh
    exact npGet_tileIfNeeded _ sp (window_length y T sp) hsp0 _ h (hpos h hh) (le_getLast fh hs h hh) _ (hval h)

example : predictLastWindow .last 3 3 (window ramp 9 3) [1, 2, 3, 4, 8] = .ok [some 7, some 8, some 9, some 7, some 8] := by
  decide +kernel
example : Sorted [1, 2, 3, 4, 8] ∧ ∀ h ∈ [1, 2, 3, 4, (8 : Int)], 1 ≤ h := by decide

/-- mean: the mean of the non-missing observations of the window (NaN when all are missing), any window length -/
theorem mean_eq_spec (y : Int → Val) (T : Int) (wl L : Nat) (fh : List Int) :
    predictLastWindow .mean 1 wl (window y T L) fh = .ok (fh.map (Spec.Naive.mean y T L)) := by
  unfold predictLastWindow Spec.Naive.mean
  by_cases hall : allNaN (window y T L) = true
  · simp only [hall, Bool.true_or, ↓reduceIte]
    rw [meanOf_of_allNone _ ((allNaN_iff _).mp hall)]
  · simp only [hall, isEmpty_false_of_not_allNaN _ hall, Bool.or_self, Bool.false_eq_true, ↓reduceIte,
      nanmean_eq_meanOf]

example : predictLastWindow .mean 1 4 (window ramp 9 4) [1, 5] = .ok [some (15 / 2), some (15 / 2)] := by decide +kernel

/-- FULL STATEMENT (F1; does not hold for the code as it is, see `seasonal_mean_misaligned`):
    ∀ wl ≥ sp, predictLastWindow .mean sp wl (window y T wl) fh = .ok (fh.map (seasonalMean y T wl sp)).
Proved when the window holds whole seasons (`wl = rows · sp`): the forecast for step `h` is the mean of the non-missing
window observations at times `≡ T + h (mod sp)`. -/
theorem seasonal_mean_eq_spec_partial (y : Int → Val) (T : Int) (sp rows : Nat) (hsp : 2 ≤ sp)
    (fh : List Int) (hs : Sorted fh) (hpos : ∀ h ∈ fh, 1 ≤ h) :
    predictLastWindow .mean sp (rows * sp) (window y T (rows * sp)) fh
      = .ok (fh.map (Spec.Naive.seasonalMean y T (rows * sp) sp)) := by
  have hsp0 : 0 < sp := by omega
  unfold predictLastWindow Spec.Naive.seasonalMean
  by_cases hall : allNaN (window y T (rows * sp)) = true
  · simp only [hall, Bool.true_or, ↓reduceIte]
    congr 1
    apply List.map_congr_left
    intro h _
    symm
    apply meanOf_of_allNone
    intro v hv
    rw [sameSeason_column y T h rows sp hsp0] at hv
    simp only [column, List.mem_map, List.mem_range] at hv
    obtain ⟨r, _, rfl⟩ := hv
    cases hg : (window y T (rows * sp))[r * sp + ((h - 1) % (sp : Int)).toNat]? with
    | none => rfl
    | some v' =>
      simp
      exact (allNaN_iff _).mp hall _ (List.mem_of_getElem? hg)
  · have hsp1 : ¬ (sp = 1) := by omega
    have hrem : rows * sp % sp = 0 := Nat.mul_mod_left rows sp
    have hrows' : (rows * sp + sp - 1) / sp = rows := by
      have : rows * sp + sp - 1 = (sp - 1) + rows * sp := by omega
      rw [this, Nat.add_mul_div_right _ _ hsp0, Nat.div_eq_of_lt (by omega)]; omega
    simp only [hall, isEmpty_false_of_not_allNaN _ hall, Bool.or_self, Bool.false_eq_true, ↓reduceIte, hsp1,
      hrem, Nat.lt_irrefl, List.replicate_zero, List.append_nil, hrows', window_length, ne_eq, not_true_eq_false]
    apply mapE_ok
    intro h hh
    have hk : ((h - 1) % (sp : Int)).toNat < sp := by
      have := Int.emod_lt_of_pos (h - 1) (show (0 : Int) < sp by exact_mod_cast hsp0)
      have := Int.emod_nonneg (h - 1) (show (sp : Int) ≠ 0 by omega)
      omega
    apply npGet_tileIfNeeded _ sp (by simp) hsp0 _ h (hpos h hh) (le_getLast fh hs h hh)
    rw [List.getElem?_map, List.getElem?_range hk]
    simp only [Option.map_some]
    rw [nanmean_eq_meanOf, sameSeason_column y T h rows sp hsp0]

example : predictLastWindow .mean 3 (2 * 3) (window ramp 19 (2 * 3)) [1, 2, 3, 7]
    = .ok [some (31 / 2), some (33 / 2), some (35 / 2), some (31 / 2)] := by decide +kernel

/-- (F1) negation of the full statement at a witness: `y = 0 … 19`, `sp = 3`, `window_length = 7`, `h = 1`:
the code forecasts 16 (mean of 13, 16, 19: the season of the window START), the textbook value is 31/2 (mean of 14, 17). -/
theorem seasonal_mean_misaligned :
    predictLastWindow .mean 3 7 (window ramp 19 7) [1] = .ok [some 16] ∧
    Spec.Naive.seasonalMean ramp 19 7 3 1 = some (31 / 2) ∧
    predictLastWindow .mean 3 7 (window ramp 19 7) [1] ≠ .ok ([1].map (Spec.Naive.seasonalMean ramp 19 7 3)) := by
  refine ⟨by decide +kernel, by decide +kernel, by decide +kernel⟩

/-- FULL STATEMENT (F1): "seasons are aligned with the end of the training series whatever the window length":
    ∀ wl ≥ sp, two series that agree on the window times `≡ T + h (mod sp)` get the same forecast for step `h`.
Proved for windows of whole seasons. -/
theorem seasonal_alignment_any_window_partial (y y' : Int → Val) (T : Int) (sp rows : Nat) (hsp : 2 ≤ sp) (h : Int)
    (h1 : 1 ≤ h)
    (hagree : ∀ t ∈ windowTimes T (rows * sp), sameSeason T sp h t = true → y t = y' t) :
    predictLastWindow .mean sp (rows * sp) (window y T (rows * sp)) [h]
      = predictLastWindow .mean sp (rows * sp) (window y' T (rows * sp)) [h] := by
  have hs : Sorted [h] := by simp [Sorted]
  have hp : ∀ x ∈ [h], 1 ≤ x := by simp [h1]
  rw [seasonal_mean_eq_spec_partial y T sp rows hsp [h] hs hp, seasonal_mean_eq_spec_partial y' T sp rows hsp [h] hs hp]
  have hm : ((windowTimes T (rows * sp)).filter (sameSeason T sp h)).map y
      = ((windowTimes T (rows * sp)).filter (sameSeason T sp h)).map y' := by
    apply List.map_congr_left
    intro t ht
    rw [List.mem_filter] at ht
    exact hagree t ht.1 ht.2
  simp only [List.map_cons, List.map_nil, Spec.Naive.seasonalMean, hm]

/-- (F1) negation at a witness: two series that differ only at time 13 (not the season of `T + 1 = 20`) get different
forecasts for step 1 when `window_length = 7`, `sp = 3`. -/
theorem seasonal_alignment_fails_witness :
    (∀ t ∈ windowTimes 19 7, sameSeason 19 3 1 t = true → ramp t = (fun t => if t = 13 then some 100 else ramp t) t) ∧
    predictLastWindow .mean 3 7 (window ramp 19 7) [1]
      ≠ predictLastWindow .mean 3 7 (window (fun t => if t = 13 then some 100 else ramp t) 19 7) [1] := by
  refine ⟨by decide +kernel, by decide +kernel⟩

/-- drift: the straight line through the end points of the window, extrapolated `h` steps -/
theorem drift_eq_spec (y : Int → Val) (T : Int) (wl : Nat) (hwl : 2 ≤ wl) (fh : List Int)
    (hfirst : (y (T - (wl : Int) + 1)).isSome) (hlast : (y T).isSome) :
    predictLastWindow .drift 1 wl (window y T wl) fh = .ok (fh.map (Spec.Naive.drift y T wl)) := by
  obtain ⟨a, ha⟩ := Option.isSome_iff_exists.mp hfirst
  obtain ⟨b, hb⟩ := Option.isSome_iff_exists.mp hlast
  have hhead : (window y T wl).head? = some (some a) := by
    rw [List.head?_eq_getElem?, window_getElem? y T wl 0 (by omega)]; simp [ha]
  have hlst : (window y T wl).getLast? = some (some b) := by
    rw [List.getLast?_eq_getElem?, window_length, window_getElem? y T wl (wl - 1) (by omega)]
    have : T - (wl : Int) + 1 + ((wl - 1 : Nat) : Int) = T := by omega
    rw [this, hb]
  have hall : ¬ allNaN (window y T wl) = true := by
    intro hc
    have := (allNaN_iff _).mp hc (some b) (List.mem_of_getLast? hlst)
    cases this
  have hwl1 : ¬ (wl = 1) := by omega
  unfold predictLastWindow
  simp only [hall, isEmpty_false_of_not_allNaN _ hall, Bool.or_self, Bool.false_eq_true, ↓reduceIte, ne_eq, hwl1,
    not_false_eq_true, hhead, hlst]
  congr 1
  apply List.map_congr_left
  intro h _
  simp [Spec.Naive.drift, ha, hb]

example : predictLastWindow .drift 1 4 (window squares 4 4) [1, 2] = .ok [some 21, some 26] := by decide +kernel

/-- drift raises when an end point of the window is missing (and the window is not all missing) -/
theorem drift_rejects_missing_endpoint (y : Int → Val) (T : Int) (wl : Nat) (hwl : 2 ≤ wl) (fh : List Int)
    (hmiss : y (T - (wl : Int) + 1) = none ∨ y T = none) (hsome : ¬ allNaN (window y T wl) = true) :
    predictLastWindow .drift 1 wl (window y T wl) fh = .error .value := by
  have hhead : (window y T wl).head? = some (y (T - (wl : Int) + 1)) := by
    rw [List.head?_eq_getElem?, window_getElem? y T wl 0 (by omega)]; simp
  have hlst : (window y T wl).getLast? = some (y T) := by
    rw [List.getLast?_eq_getElem?, window_length, window_getElem? y T wl (wl - 1) (by omega)]
    have : T - (wl : Int) + 1 + ((wl - 1 : Nat) : Int) = T := by omega
    rw [this]
  have hwl1 : ¬ (wl = 1) := by omega
  unfold predictLastWindow
  simp only [hsome, isEmpty_false_of_not_allNaN _ hsome, Bool.or_self, Bool.false_eq_true, ↓reduceIte, ne_eq, hwl1,
    not_false_eq_true, hhead, hlst]
  rcases hmiss with h | h
  · rw [h]
  · rw [h]; cases y (T - (wl : Int) + 1) <;> rfl

/-! ## window-length resolution in `fit` -/

theorem fit_window_resolution (n : Nat) (hn : 1 ≤ n) :
    (∀ wl, fitWindow .last 1 wl n = .ok 1) ∧
    (∀ (sp : Nat) wl, 2 ≤ sp → sp ≤ n → fitWindow .last sp wl n = .ok sp) ∧
    (∀ (sp : Nat), 1 ≤ sp → fitWindow .mean sp none n = .ok n) ∧
    (∀ (sp w : Nat), 1 ≤ sp → 1 ≤ w → w ≤ n → (sp = 1 ∨ sp ≤ w) → fitWindow .mean sp (some w) n = .ok w) ∧
    (∀ sp, fitWindow .drift sp none n = .ok n) ∧
    (∀ sp (w : Nat), 2 ≤ w → w ≤ n → fitWindow .drift sp (some w) n = .ok w) := by
  have hn0 : ¬ (n = 0) := by omega
  refine ⟨?_, ?_, ?_, ?_, ?_, ?_⟩
  · intro wl
    have : ¬ ((1 : Int) > (n : Int)) := by omega
    simp [fitWindow, resolveWindow, hn0, this]
  · intro sp wl h2 hle
    have a : ¬ ((sp : Int) = 1) := by omega
    have b : ¬ ((sp : Int) < 1) := by omega
    have c : ¬ ((sp : Int) > (n : Int)) := by omega
    simp [fitWindow, resolveWindow, hn0, a, b, c]
  · intro sp h1
    have b : ¬ ((sp : Int) < 1) := by omega
    simp [fitWindow, resolveWindow, hn0, b]
  · intro sp w h1 hw hle hor
    have a : ¬ ((sp : Int) ≠ 1 ∧ (w : Int) < (sp : Int)) := by omega
    have b : ¬ ((w : Int) < 1) := by omega
    have c : ¬ ((sp : Int) < 1) := by omega
    have d : ¬ ((w : Int) > (n : Int)) := by omega
    simp only [fitWindow, resolveWindow, hn0, a, b, c, d, ↓reduceIte, Int.toNat_natCast]
  · intro sp
    simp [fitWindow, resolveWindow, hn0]
  · intro sp w h2 hle
    have b : ¬ ((w : Int) < 1) := by omega
    have c : ¬ ((w : Int) = 1) := by omega
    have d : ¬ ((w : Int) > (n : Int)) := by omega
    simp only [fitWindow, resolveWindow, hn0, b, c, d, ↓reduceIte, Int.toNat_natCast]

/-- configurations `fit` rejects -/
theorem fit_rejects (n : Nat) :
    (∀ sp wl, fitWindow .other sp wl n = .error .value) ∧
    (∀ sp, fitWindow .drift sp (some 1) n = .error .value) ∧
    (∀ (sp w : Int), sp ≠ 1 → w < sp → fitWindow .mean sp (some w) n = .error .value) ∧
    (∀ st sp (w : Int), st ≠ .last → (n : Int) < w → fitWindow st sp (some w) n = .error .value) ∧
    (∀ (sp : Int) wl, (n : Int) < sp → fitWindow .last sp wl n = .error .value) := by
  refine ⟨?_, ?_, ?_, ?_, ?_⟩
  · intro sp wl; unfold fitWindow resolveWindow; split <;> rfl
  · intro sp; unfold fitWindow resolveWindow; split <;> simp
  · intro sp w h1 h2
    have : sp ≠ 1 ∧ w < sp := ⟨h1, h2⟩
    unfold fitWindow resolveWindow; split
    · rfl
    · simp [this]
  · intro st sp w hst hw
    by_cases hn0 : n = 0
    · simp [fitWindow, hn0]
    cases st with
    | last => exact absurd rfl hst
    | other => simp [fitWindow, resolveWindow, hn0]
    | mean =>
      by_cases a : (sp ≠ 1 ∧ w < sp)
      · simp [fitWindow, resolveWindow, hn0, a]
      by_cases b : w < 1
      · simp [fitWindow, resolveWindow, hn0, a, b]
      by_cases c : sp < 1
      · simp [fitWindow, resolveWindow, hn0, a, b, c]
      simp only [fitWindow, resolveWindow, hn0, a, b, c, ↓reduceIte, gt_iff_lt, hw]
    | drift =>
      by_cases b : w < 1
      · simp [fitWindow, resolveWindow, hn0, b]
      by_cases c : w = 1
      · simp [fitWindow, resolveWindow, hn0, c]
      simp only [fitWindow, resolveWindow, hn0, b, c, ↓reduceIte, gt_iff_lt, hw]
  · intro sp wl hsp
    unfold fitWindow
    split
    · rfl
    · rename_i hn0
      have a : ¬ (sp = 1) := by omega
      have b : ¬ (sp < 1) := by omega
      simp [resolveWindow, a, b, hsp]

/-! ## in-sample steps: one-step-ahead forecasts from a moved cutoff -/

/-- `_predict_in_sample`: for sorted in-sample steps the moving-cutoff loop (splitter, `update`, label slicing) returns,
for every step `s` (time `t = T + s`), the forecast `_predict_last_window` makes ONE step ahead from the window of
the at most `wl` observations up to `t − 1`; before any observation the forecast is NaN. -/
theorem insample_eq_one_step_ahead_spec (st : Strategy) (sp wl : Nat) (y : List Val) (origin : Int) (steps : List Int)
    (hs : Sorted steps) (hne : steps ≠ []) (hle : ∀ s ∈ steps, s ≤ 0) :
    predictInSample st sp wl y origin steps = mapE (fun s =>
      let q := s + (y.length : Int) - 2
      if q < 0 then .ok (origin, none)
      else match predictLastWindow st sp wl (window (asFn y origin) (origin + q) (min wl (q.toNat + 1))) [1] with
        | .error e => .error e
        | .ok v => .ok (origin + q + 1, v.headD none)) steps := by
  rw [predictInSample_eq st sp wl y origin steps hs hne hle]
  apply mapE_congr
  intro s hsm
  have := hle s hsm
  by_cases hq : s + (y.length : Int) - 2 < 0
  · simp only [hq, ↓reduceIte]; exact oneStepAhead_before_start st sp wl y origin _ hq
  · simp only [hq, ↓reduceIte]
    exact oneStepAhead_eq st sp wl y origin _ (by omega) (by omega)

example : predictInSample .mean 1 2 [some 0, some 1, some 4, some 9, some 16] 5 [-5, -4, -1, 0]
    = .ok [(5, none), (5, none), (8, some (5 / 2)), (9, some (13 / 2))] := by decide +kernel

/-- in-sample, last value: the forecast for time `t` is the observation at `t − 1` -/
theorem insample_last_eq_spec (y : Int → Val) (c : Int) (k : Nat) :
    predictLastWindow .last 1 1 (window y c (min 1 (k + 1))) [1] = .ok [y c] := by
  have : min 1 (k + 1) = 1 := by omega
  rw [this]; exact last_eq_spec y c [1]

/-- in-sample, mean: the mean of the (at most `wl`) observations available up to `t − 1` -/
theorem insample_mean_eq_spec (y : Int → Val) (c : Int) (wl k : Nat) :
    predictLastWindow .mean 1 wl (window y c (min wl (k + 1))) [1] = .ok [meanOf (window y c (min wl (k + 1)))] :=
  mean_eq_spec y c wl (min wl (k + 1)) [1]

/-- FULL STATEMENT (F3; does not hold, see `insample_drift_truncated_witness`): for every number `k + 1 ≥ 2` of
observations available, the in-sample drift forecast is the line through the end points of the `min wl (k+1)`
observations in the window.  Proved when the window is not cut by the start of the series (`wl ≤ k + 1`). -/
theorem insample_drift_eq_spec_partial (y : Int → Val) (c : Int) (wl k : Nat) (hwl : 2 ≤ wl) (hfull : wl ≤ k + 1)
    (hfirst : (y (c - (wl : Int) + 1)).isSome) (hlast : (y c).isSome) :
    predictLastWindow .drift 1 wl (window y c (min wl (k + 1))) [1] = .ok [Spec.Naive.drift y c wl 1] := by
  have : min wl (k + 1) = wl := by omega
  rw [this]; exact drift_eq_spec y c wl hwl [1] hfirst hlast

/-- (F3) negation at a witness: `y = 0, 1, 4, 9, 16` (labels 0…4), `window_length_ = 5`, forecast for time 3 from the
three observations 0, 1, 4: the code returns 4 + (4 − 0)/(5 − 1) = 5, the line through (0,0) and (2,4) gives 6. -/
theorem insample_drift_truncated_witness :
    predictLastWindow .drift 1 5 (window squares 2 (min 5 (2 + 1))) [1] = .ok [some 5] ∧
    Spec.Naive.drift squares 2 (min 5 (2 + 1)) 1 = some 6 := by
  refine ⟨by decide +kernel, by decide +kernel⟩

/-- FULL STATEMENT (F2; does not hold, see `insample_seasonal_mean_raises_witness`): the in-sample seasonal-mean
forecast is the mean of the same-season observations among the `min wl (k+1)` available.
Proved when the window is whole (`wl = rows·sp ≤ k + 1`). -/
theorem insample_seasonal_mean_eq_spec_partial (y : Int → Val) (c : Int) (sp rows k : Nat) (hsp : 2 ≤ sp)
    (hfull : rows * sp ≤ k + 1) :
    predictLastWindow .mean sp (rows * sp) (window y c (min (rows * sp) (k + 1))) [1]
      = .ok [Spec.Naive.seasonalMean y c (rows * sp) sp 1] := by
  have : min (rows * sp) (k + 1) = rows * sp := by omega
  rw [this]
  exact seasonal_mean_eq_spec_partial y c sp rows hsp [1] (by simp [Sorted]) (by simp)

/-- (F2) negation at a witness: five observations, `sp = 2`, `window_length_ = 5` (the default: whole series), forecast
for the last time point (step 0) from the four earlier observations: `reshape` raises ValueError although the same-season
observations 0 and 4 (mean 2) are in the window. -/
theorem insample_seasonal_mean_raises_witness :
    predictLastWindow .mean 2 5 (window squares 3 (min 5 (3 + 1))) [1] = .error .value ∧
    Spec.Naive.seasonalMean squares 3 (min 5 (3 + 1)) 2 1 = some 2 := by
  refine ⟨by decide +kernel, by decide +kernel⟩

/-- in-sample, seasonal last, once a whole season has been observed: the observation one season before `t` -/
theorem insample_seasonal_last_eq_spec (y : Int → Val) (c : Int) (sp k : Nat) (hsp : 2 ≤ sp) (hfull : sp ≤ k + 1) :
    predictLastWindow .last sp sp (window y c (min sp (k + 1))) [1] = .ok [y (c + 1 - (sp : Int))] := by
  have : min sp (k + 1) = sp := by omega
  rw [this, seasonal_last_eq_spec y c sp hsp [1] (by simp [Sorted]) (by simp)]
  simp only [List.map_cons, List.map_nil, Spec.Naive.seasonalLast, Spec.Naive.seasonsBack]
  have : ((1 : Int) + (sp : Int) - 1) / (sp : Int) = 1 := by
    have : (1 : Int) + (sp : Int) - 1 = sp := by omega
    rw [this]; exact Int.ediv_self (by omega)
  rw [this]; congr 3; omega

/-! ## `fit(y).predict(fh)` end to end -/

/-- horizon handling of `predict`: sorted relative steps are split at 0 into the in-sample part (moving cutoff) and the
out-of-sample part (fixed cutoff); results are concatenated in that order -/
theorem predict_splits_horizon (st : Strategy) (sp : Int) (wl : Option Int) (y : List Val) (origin : Int) (fh : List Int)
    (hs : Sorted fh) (hne : fh ≠ []) (w : Nat) (hfit : fitWindow st sp wl y.length = .ok w) :
    fitPredict st sp wl y origin (.ints fh) true =
      (let ins := fh.filter (fun v => decide (v ≤ 0))
       let oos := fh.filter (fun v => decide (v > 0))
       if ins.isEmpty then predictOut st sp.toNat w y origin oos
       else if oos.isEmpty then predictInSample st sp.toNat w y origin ins
       else (predictInSample st sp.toNat w y origin ins).bind (fun a =>
              (predictOut st sp.toNat w y origin oos).bind (fun b => .ok (a ++ b)))) :=
  fitPredict_rel st sp wl y origin fh hs hne w hfit

/-- out-of-sample horizon: the forecasts are those of `_predict_last_window` on the last `window_length_` observations,
labelled `T + h` -/
theorem predict_out_of_sample (st : Strategy) (sp : Int) (wl : Option Int) (y : List Val) (origin : Int) (fh : List Int)
    (hs : Sorted fh) (hne : fh ≠ []) (hpos : ∀ h ∈ fh, 1 ≤ h) (w : Nat)
    (hfit : fitWindow st sp wl y.length = .ok w) :
    fitPredict st sp wl y origin (.ints fh) true =
      match predictLastWindow st sp.toNat w (window (asFn y origin) (origin + (y.length : Int) - 1) w) fh with
      | .ok vs => .ok ((fh.map (origin + (y.length : Int) - 1 + ·)).zip vs)
      | .error e => .error e :=
  fitPredict_out_of_sample st sp wl y origin fh hs hne hpos w hfit

/-- end to end: `NaiveForecaster("last", sp=sp).fit(y).predict(fh)` = seasonal naive forecasts `y(T+h−sp·⌈h/sp⌉)` at `T+h` -/
theorem naive_seasonal_last_end_to_end (y : List Val) (origin : Int) (sp : Nat) (hsp : 2 ≤ sp) (hn : sp ≤ y.length)
    (wl : Option Int) (fh : List Int) (hs : Sorted fh) (hne : fh ≠ []) (hpos : ∀ h ∈ fh, 1 ≤ h) :
    fitPredict .last sp wl y origin (.ints fh) true =
      .ok (fh.map (fun h => (origin + (y.length : Int) - 1 + h,
        Spec.Naive.seasonalLast (asFn y origin) (origin + (y.length : Int) - 1) sp h))) := by
  have hfit := (fit_window_resolution y.length (by omega)).2.1 sp wl hsp hn
  rw [predict_out_of_sample .last sp wl y origin fh hs hne hpos sp hfit]
  simp only [Int.toNat_natCast]
  rw [seasonal_last_eq_spec _ _ sp hsp fh hs hpos]
  simp only [List.zip_map']

example : fitPredict .last 3 none [some 1, some 2, some 3, some 4, some 5] 10 (.ints [1, 2, 5]) true
    = .ok [(15, some 3), (16, some 4), (19, some 4)] := by decide +kernel

/-! ## polynomial trend -/

/-- the regressor is fitted on the Vandermonde rows `t^lo … t^d` of `t = 0 … n−1` and asked at `t = n − 1 + h`
(`lo = 0` with intercept, `1` without); forecasts are labelled `T + h` -/
theorem trend_design_matrix_eq_spec (deg : Nat) (bias : Bool) (hv : ¬ (deg = 0 ∧ bias = false)) (n : Nat) (hn : 1 ≤ n)
    (origin : Int) (fh : List Int) (hs : Sorted fh) (hne : fh ≠ []) :
    Trend.designs deg bias n origin (.ints fh) true
      = .ok ((List.range n).map (fun (i : Nat) => powers (if bias then 0 else 1) deg (i : Int)),
             fh.map (fun h => powers (if bias then 0 else 1) deg ((n : Int) - 1 + h)),
             fh.map (fun h => origin + (n : Int) - 1 + h)) :=
  Lem.Trend.designs_rel deg bias hv n hn origin fh hs hne

example : Trend.designs 2 true 3 5 (.ints [-1, 2]) true
    = .ok ([[1, 0, 0], [1, 1, 1], [1, 2, 4]], [[1, 1, 1], [1, 4, 16]], [6, 9]) := by decide +kernel

/-- degree 1 with intercept, `n ≥ 2`: the forecast at step `h` is `a + b·(n−1+h)` where `(a, b)` solves the normal
equations of the straight-line fit on `t = 0 … n−1`, hence minimises the sum of squared residuals over all lines -/
theorem trend_deg1_eq_ols (ys : List Rat) (hn : 2 ≤ ys.length) (origin : Int) (fh : List Int) (hs : Sorted fh) (hne : fh ≠ []) :
    ∃ a b : Rat,
      NormalEqs (Trend.points ys) a b ∧
      (∀ a' b', sse (Trend.points ys) a b ≤ sse (Trend.points ys) a' b') ∧
      Trend.fitPredict 1 true (ys.map some) origin (.ints fh) true
        = .ok (fh.map (fun h => (origin + (ys.length : Int) - 1 + h, some (a + b * ((((ys.length : Int) - 1 + h : Int)) : Rat))))) := by
  refine ⟨(Trend.olsCoef 1 true ys).1, (Trend.olsCoef 1 true ys).2, Lem.Trend.olsCoef_deg1_normal ys hn,
    fun a' b' => Lem.Trend.sse_min_of_normal _ _ _ (Lem.Trend.olsCoef_deg1_normal ys hn) a' b', ?_⟩
  exact Lem.Trend.trend_fitPredict_rel 1 true (by simp) ys (by omega) origin fh hs hne

example : Trend.fitPredict 1 true [some 0, some 1, some 4, some 9, some 16] 5 (.ints [-5, 0, 2]) true
    = .ok [(4, some (-6)), (9, some 14), (11, some 22)] := by decide +kernel

/-- degree 0: every forecast is the constant minimising the squared error (the mean) -/
theorem trend_deg0_eq_mean (ys : List Rat) (hn : 1 ≤ ys.length) (origin : Int) (fh : List Int) (hs : Sorted fh) (hne : fh ≠ []) :
    ∃ a : Rat, (∀ a', sse (Trend.points ys) a 0 ≤ sse (Trend.points ys) a' 0) ∧
      Trend.fitPredict 0 true (ys.map some) origin (.ints fh) true
        = .ok (fh.map (fun h => (origin + (ys.length : Int) - 1 + h, some a))) := by
  refine ⟨(Trend.olsCoef 0 true ys).1, (Lem.Trend.olsCoef_deg0 ys hn).2, ?_⟩
  rw [Lem.Trend.trend_fitPredict_rel 0 true (by simp) ys hn origin fh hs hne, (Lem.Trend.olsCoef_deg0 ys hn).1]
  simp

/-- degree 1 without intercept: the least-squares line through the origin of the time axis -/
theorem trend_noicpt_eq_ols (ys : List Rat) (hn : 2 ≤ ys.length) (origin : Int) (fh : List Int) (hs : Sorted fh) (hne : fh ≠ []) :
    ∃ b : Rat, (∀ b', sse (Trend.points ys) 0 b ≤ sse (Trend.points ys) 0 b') ∧
      Trend.fitPredict 1 false (ys.map some) origin (.ints fh) true
        = .ok (fh.map (fun h => (origin + (ys.length : Int) - 1 + h, some (b * ((((ys.length : Int) - 1 + h : Int)) : Rat))))) := by
  refine ⟨(Trend.olsCoef 1 false ys).2, (Lem.Trend.olsCoef_noicpt ys hn).2, ?_⟩
  rw [Lem.Trend.trend_fitPredict_rel 1 false (by simp) ys (by omega) origin fh hs hne, (Lem.Trend.olsCoef_noicpt ys hn).1]
  simp

/-! ## statsmodels adapter -/

/-- whatever the wrapped fitted model `sm` (position ↦ prediction) is, the adapter returns for every requested step `h`
the wrapped model's prediction for that very time point `n − 1 + h`, labelled `T + h` — in-sample or out-of-sample,
with or without gaps in the horizon -/
theorem adapter_selects_requested_steps (sm : Int → Val) (n : Nat) (hn : 1 ≤ n) (origin : Int) (fh : List Int)
    (hs : Sorted fh) (hne : fh ≠ []) :
    Trend.adapterPredict sm n origin (.ints fh) true
      = .ok (fh.map (fun h => (origin + (n : Int) - 1 + h, sm ((n : Int) - 1 + h)))) :=
  Lem.Trend.adapterPredict_rel sm n hn origin fh hs hne

example : Trend.adapterPredict (fun i => some ((10 * i : Int) : Rat)) 4 5 (.ints [-1, 2, 5]) true
    = .ok [(7, some 20), (10, some 50), (13, some 80)] := by decide +kernel

end SkVerif.C11
