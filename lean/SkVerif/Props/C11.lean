/-
C11  Elementary forecasters compute the textbook forecast they document.
Property theorems about SkVerif/Model/Naive.lean and SkVerif/Model/Trend.lean against the independently written
SkVerif/Spec/Naive.lean.  Only theorems + non-vacuity examples here; proofs of the heavier steps are in Lemmas/.

Conventions: a series is `y : Int → Option Rat` on integer time labels (`none` = NaN); `T` = cutoff; `window y T w` =
the observations at `T-w+1 … T`; horizons are sorted lists of steps (which every constructed horizon is, C02).
All theorems quantify over every series, cutoff, seasonal period, window length and horizon.

The model is the code after the fixes ab76aa2 (seasonal mean: NaN padding at the front, by the number of observations
in the window) and 3f305b4 (drift: slope over the observations actually in the window).  Before these commits three
clauses held only partially (findings/C11.md, F1–F3: seasons aligned with the window START when `window_length % sp ≠ 0`;
in-sample seasonal mean raised on a window cut by the start of the series; in-sample drift slope divided by
`window_length_ - 1`); their witnesses stay in corpus/C11 and are now checked at full strength by the theorems below.
-/
import SkVerif.Lemmas.Naive
import SkVerif.Lemmas.NaiveTop
import SkVerif.Lemmas.Trend
import SkVerif.Lemmas.History
import SkVerif.Model.Adapter
import SkVerif.Model.Exog
import SkVerif.Model.Theta
namespace SkVerif.C11
open SkVerif SkVerif.Naive SkVerif.Lem.Naive SkVerif.History
open SkVerif.Spec.Naive (window windowTimes meanOf sameSeason NormalEqs sse powers)

/-- strictly increasing (every constructed horizon is: C02 `mk_sorted_nodup`) -/
abbrev Sorted (l : List Int) : Prop := l.Pairwise (· < ·)

/-- a handy series for witnesses: `y(t) = t` -/
def ramp : Int → Val := fun t => some (t : Rat)
/-- `y(t) = t²` -/
def squares : Int → Val := fun t => some ((t * t : Int) : Rat)

/-! ## `_predict_last_window` = textbook, per strategy (out-of-sample steps `h ≥ 1`) -/

/-- last value: `ŷ(T+h) = y(T)` (NaN when it is missing) -/
theorem last_eq_spec (y : Int → Val) (T : Int) (fh : List Int) :
    predictLastWindow .last 1 1 (window y T 1) fh = .ok (fh.map (Spec.Naive.last y T)) := by
  have hw : window y T 1 = [y T] := by simp [window, windowTimes]
  have hl : Spec.Naive.last y T = fun _ => y T := rfl
  rw [hw, hl]
  cases hy : y T with
  | none => simp [predictLastWindow, allNaN]
  | some v => simp [predictLastWindow, allNaN]

example : predictLastWindow .last 1 1 (window ramp 9 1) [1, 4] = .ok [some 9, some 9] := by decide +kernel

/-- seasonal last value: `ŷ(T+h) = y(T + h − sp·⌈h/sp⌉)`, for every period, every horizon (beyond one season too) -/
theorem seasonal_last_eq_spec (y : Int → Val) (T : Int) (sp : Nat) (hsp : 2 ≤ sp) (fh : List Int)
    (hs : Sorted fh) (hpos : ∀ h ∈ fh, 1 ≤ h) :
    predictLastWindow .last sp sp (window y T sp) fh = .ok (fh.map (Spec.Naive.seasonalLast y T sp)) := by
  have hsp0 : 0 < sp := by omega
  have hidx : ∀ h : Int, ((h - 1) % (sp : Int)).toNat < sp := by
    intro h
    have := Int.emod_lt_of_pos (h - 1) (show (0 : Int) < sp by exact_mod_cast hsp0)
    have := Int.emod_nonneg (h - 1) (show (sp : Int) ≠ 0 by omega)
    omega
  have hval : ∀ h : Int, (window y T sp)[((h - 1) % (sp : Int)).toNat]? = some (Spec.Naive.seasonalLast y T sp h) := by
    intro h
    rw [window_getElem? y T sp _ (hidx h)]
    unfold Spec.Naive.seasonalLast
    rw [seasonalLast_index T h sp hsp0]
    have := Int.emod_nonneg (h - 1) (show (sp : Int) ≠ 0 by omega)
    rw [Int.toNat_of_nonneg this]
  unfold predictLastWindow
  by_cases hall : allNaN (window y T sp) = true
  · simp only [hall, Bool.true_or, ↓reduceIte]
    congr 1
    apply List.map_congr_left
    intro h _
    exact ((allNaN_iff _).mp hall _ (List.mem_of_getElem? (hval h))).symm
  · have hsp1 : ¬ (sp = 1) := by omega
    simp only [hall, isEmpty_false_of_not_allNaN _ hall, Bool.or_self, Bool.false_eq_true, ↓reduceIte, hsp1]
    apply mapE_ok
    intro h hh
    exact npGet_tileIfNeeded _ sp (window_length y T sp) hsp0 _ h (hpos h hh) (le_getLast fh hs h hh) _ (hval h)

example : predictLastWindow .last 3 3 (window ramp 9 3) [1, 2, 3, 4, 8] = .ok [some 7, some 8, some 9, some 7, some 8] := by
  decide +kernel
example : Sorted [1, 2, 3, 4, 8] ∧ ∀ h ∈ [1, 2, 3, 4, (8 : Int)], 1 ≤ h := by decide

/-- mean: the mean of the non-missing observations of the window (NaN when all are missing), any window length -/
theorem mean_eq_spec (y : Int → Val) (T : Int) (wl L : Nat) (fh : List Int) :
    predictLastWindow .mean 1 wl (window y T L) fh = .ok (fh.map (Spec.Naive.mean y T L)) := by
  unfold predictLastWindow Spec.Naive.mean
  by_cases hall : allNaN (window y T L) = true
  · simp only [hall, Bool.true_or, ↓reduceIte]
    rw [meanOf_of_allNone _ ((allNaN_iff _).mp hall)]
  · simp only [hall, isEmpty_false_of_not_allNaN _ hall, Bool.or_self, Bool.false_eq_true, ↓reduceIte,
      nanmean_eq_meanOf]

example : predictLastWindow .mean 1 4 (window ramp 9 4) [1, 5] = .ok [some (15 / 2), some (15 / 2)] := by decide +kernel

/-- seasonal mean, for EVERY number `L` of observations in the window (multiple of the period or not) and every fitted
`window_length_`: the forecast for step `h` is the mean of the non-missing window observations at times
`≡ T + h (mod sp)` (NaN when there is none) — seasons are aligned with the END of the window. -/
theorem seasonal_mean_eq_spec (y : Int → Val) (T : Int) (sp L wl : Nat) (hsp : 2 ≤ sp)
    (fh : List Int) (hs : Sorted fh) (hpos : ∀ h ∈ fh, 1 ≤ h) :
    predictLastWindow .mean sp wl (window y T L) fh = .ok (fh.map (Spec.Naive.seasonalMean y T L sp)) := by
  have hsp0 : 0 < sp := by omega
  unfold predictLastWindow Spec.Naive.seasonalMean
  by_cases hall : allNaN (window y T L) = true
  · simp only [hall, Bool.true_or, ↓reduceIte]
    congr 1
    apply List.map_congr_left
    intro h _
    symm
    apply meanOf_of_allNone
    intro v hv
    obtain ⟨t, ht, rfl⟩ := List.mem_map.mp hv
    exact (allNaN_iff _).mp hall _ (List.mem_map.mpr ⟨t, (List.mem_filter.mp ht).1, rfl⟩)
  · have hsp1 : ¬ (sp = 1) := by omega
    simp only [hall, isEmpty_false_of_not_allNaN _ hall, Bool.or_self, Bool.false_eq_true, ↓reduceIte, hsp1,
      window_length]
    obtain ⟨rows, hrows⟩ := pad_rows L sp hsp0
    generalize (if L % sp > 0 then sp - L % sp else 0) = P at hrows ⊢
    have hlen : (List.replicate P (none : Val) ++ window y T L).length / sp = rows := by
      simp only [List.length_append, List.length_replicate, window_length, hrows]
      exact Nat.mul_div_cancel rows hsp0
    rw [hlen, pad_front_eq_window, hrows]
    apply mapE_ok
    intro h hh
    have hk : ((h - 1) % (sp : Int)).toNat < sp := by
      have := Int.emod_lt_of_pos (h - 1) (show (0 : Int) < sp by exact_mod_cast hsp0)
      have := Int.emod_nonneg (h - 1) (show (sp : Int) ≠ 0 by omega)
      omega
    apply npGet_tileIfNeeded _ sp (by simp) hsp0 _ h (hpos h hh) (le_getLast fh hs h hh)
    rw [List.getElem?_map, List.getElem?_range hk]
    simp only [Option.map_some]
    rw [nanmean_eq_meanOf, ← sameSeason_column _ T h rows sp hsp0, ← hrows, seasonalMean_blank]


example : predictLastWindow .mean 3 7 (window ramp 19 7) [1, 2, 3, 7]
    = .ok [some (31 / 2), some (33 / 2), some 16, some (31 / 2)] := by decide +kernel
example : Spec.Naive.seasonalMean ramp 19 7 3 1 = some (31 / 2) := by decide +kernel

/-- "seasons are aligned with the end of the training series whatever the window length": two series that agree on the
window times `≡ T + h (mod sp)` get the same forecast for step `h`, for every window length -/
theorem seasonal_alignment_any_window (y y' : Int → Val) (T : Int) (sp L wl : Nat) (hsp : 2 ≤ sp) (h : Int)
    (h1 : 1 ≤ h)
    (hagree : ∀ t ∈ windowTimes T L, sameSeason T sp h t = true → y t = y' t) :
    predictLastWindow .mean sp wl (window y T L) [h] = predictLastWindow .mean sp wl (window y' T L) [h] := by
  have hs : Sorted [h] := by simp [Sorted]
  have hp : ∀ x ∈ [h], 1 ≤ x := by simp [h1]
  rw [seasonal_mean_eq_spec y T sp L wl hsp [h] hs hp, seasonal_mean_eq_spec y' T sp L wl hsp [h] hs hp]
  have hm : ((windowTimes T L).filter (sameSeason T sp h)).map y
      = ((windowTimes T L).filter (sameSeason T sp h)).map y' := by
    apply List.map_congr_left
    intro t ht
    rw [List.mem_filter] at ht
    exact hagree t ht.1 ht.2
  simp only [List.map_cons, List.map_nil, Spec.Naive.seasonalMean, hm]

/-- the pre-fix witness of F1 (window 13…19, sp = 3): changing the observation at time 13, which is not of the season of
`T + 1 = 20`, does not change the forecast for step 1 any more -/
example : predictLastWindow .mean 3 7 (window ramp 19 7) [1]
    = predictLastWindow .mean 3 7 (window (fun t => if t = 13 then some 100 else ramp t) 19 7) [1] := by decide +kernel

/-- drift: the straight line through the end points of the `L ≥ 2` observations in the window, extrapolated `h` steps
(whatever the fitted `window_length_ ≠ 1`) -/
theorem drift_eq_spec (y : Int → Val) (T : Int) (wl L : Nat) (hwl : wl ≠ 1) (hL : 2 ≤ L) (fh : List Int)
    (hfirst : (y (T - (L : Int) + 1)).isSome) (hlast : (y T).isSome) :
    predictLastWindow .drift 1 wl (window y T L) fh = .ok (fh.map (Spec.Naive.drift y T L)) := by
  obtain ⟨a, ha⟩ := Option.isSome_iff_exists.mp hfirst
  obtain ⟨b, hb⟩ := Option.isSome_iff_exists.mp hlast
  have hhead : (window y T L).head? = some (some a) := by
    rw [List.head?_eq_getElem?, window_getElem? y T L 0 (by omega)]; simp [ha]
  have hlst : (window y T L).getLast? = some (some b) := by
    rw [List.getLast?_eq_getElem?, window_length, window_getElem? y T L (L - 1) (by omega)]
    have : T - (L : Int) + 1 + ((L - 1 : Nat) : Int) = T := by omega
    rw [this, hb]
  have hall : ¬ allNaN (window y T L) = true := by
    intro hc
    have := (allNaN_iff _).mp hc (some b) (List.mem_of_getLast? hlst)
    cases this
  have hL1 : ¬ (L = 1) := by omega
  unfold predictLastWindow
  simp only [hall, isEmpty_false_of_not_allNaN _ hall, Bool.or_self, Bool.false_eq_true, ↓reduceIte, ne_eq, hwl,
    not_false_eq_true, hhead, hlst, window_length, hL1]
  congr 1
  apply List.map_congr_left
  intro h _
  simp [Spec.Naive.drift, ha, hb]

example : predictLastWindow .drift 1 4 (window squares 4 4) [1, 2] = .ok [some 21, some 26] := by decide +kernel

/-- drift with a single (non-missing) observation in the window: no line through one point, numpy's 0.0/0 → NaN -/
theorem drift_single_observation_nan (y : Int → Val) (T : Int) (wl : Nat) (hwl : wl ≠ 1) (fh : List Int)
    (hlast : (y T).isSome) :
    predictLastWindow .drift 1 wl (window y T 1) fh = .ok (fh.map (fun _ => none)) := by
  obtain ⟨b, hb⟩ := Option.isSome_iff_exists.mp hlast
  have hw : window y T 1 = [some b] := by simp [window, windowTimes, hb]
  rw [hw]
  simp [predictLastWindow, allNaN, hwl]

/-- drift raises when an end point of the window is missing (and the window is not all missing) -/
theorem drift_rejects_missing_endpoint (y : Int → Val) (T : Int) (wl L : Nat) (hwl : wl ≠ 1) (hL : 1 ≤ L) (fh : List Int)
    (hmiss : y (T - (L : Int) + 1) = none ∨ y T = none) (hsome : ¬ allNaN (window y T L) = true) :
    predictLastWindow .drift 1 wl (window y T L) fh = .error .value := by
  have hhead : (window y T L).head? = some (y (T - (L : Int) + 1)) := by
    rw [List.head?_eq_getElem?, window_getElem? y T L 0 (by omega)]; simp
  have hlst : (window y T L).getLast? = some (y T) := by
    rw [List.getLast?_eq_getElem?, window_length, window_getElem? y T L (L - 1) (by omega)]
    have : T - (L : Int) + 1 + ((L - 1 : Nat) : Int) = T := by omega
    rw [this]
  unfold predictLastWindow
  simp only [hsome, isEmpty_false_of_not_allNaN _ hsome, Bool.or_self, Bool.false_eq_true, ↓reduceIte, ne_eq, hwl,
    not_false_eq_true, hhead, hlst]
  rcases hmiss with h | h
  · rw [h]
  · rw [h]; cases y (T - (L : Int) + 1) <;> rfl

/-! ## window-length resolution in `fit` -/

theorem fit_window_resolution (n : Nat) (hn : 1 ≤ n) :
    (∀ wl, fitWindow .last 1 wl n = .ok 1) ∧
    (∀ (sp : Nat) wl, 2 ≤ sp → sp ≤ n → fitWindow .last sp wl n = .ok sp) ∧
    (∀ (sp : Nat), 1 ≤ sp → fitWindow .mean sp none n = .ok n) ∧
    (∀ (sp w : Nat), 1 ≤ sp → 1 ≤ w → w ≤ n → (sp = 1 ∨ sp ≤ w) → fitWindow .mean sp (some w) n = .ok w) ∧
    (∀ sp, fitWindow .drift sp none n = .ok n) ∧
    (∀ sp (w : Nat), 2 ≤ w → w ≤ n → fitWindow .drift sp (some w) n = .ok w) := by
  have hn0 : ¬ (n = 0) := by omega
  refine ⟨?_, ?_, ?_, ?_, ?_, ?_⟩
  · intro wl
    have : ¬ ((1 : Int) > (n : Int)) := by omega
    simp [fitWindow, resolveWindow, hn0, this]
  · intro sp wl h2 hle
    have a : ¬ ((sp : Int) = 1) := by omega
    have b : ¬ ((sp : Int) < 1) := by omega
    have c : ¬ ((sp : Int) > (n : Int)) := by omega
    simp [fitWindow, resolveWindow, hn0, a, b, c]
  · intro sp h1
    have b : ¬ ((sp : Int) < 1) := by omega
    simp [fitWindow, resolveWindow, hn0, b]
  · intro sp w h1 hw hle hor
    have a : ¬ ((sp : Int) ≠ 1 ∧ (w : Int) < (sp : Int)) := by omega
    have b : ¬ ((w : Int) < 1) := by omega
    have c : ¬ ((sp : Int) < 1) := by omega
    have d : ¬ ((w : Int) > (n : Int)) := by omega
    simp only [fitWindow, resolveWindow, hn0, a, b, c, d, ↓reduceIte, Int.toNat_natCast]
  · intro sp
    simp [fitWindow, resolveWindow, hn0]
  · intro sp w h2 hle
    have b : ¬ ((w : Int) < 1) := by omega
    have c : ¬ ((w : Int) = 1) := by omega
    have d : ¬ ((w : Int) > (n : Int)) := by omega
    simp only [fitWindow, resolveWindow, hn0, b, c, d, ↓reduceIte, Int.toNat_natCast]

/-- configurations `fit` rejects -/
theorem fit_rejects (n : Nat) :
    (∀ sp wl, fitWindow .other sp wl n = .error .value) ∧
    (∀ sp, fitWindow .drift sp (some 1) n = .error .value) ∧
    (∀ (sp w : Int), sp ≠ 1 → w < sp → fitWindow .mean sp (some w) n = .error .value) ∧
    (∀ st sp (w : Int), st ≠ .last → (n : Int) < w → fitWindow st sp (some w) n = .error .value) ∧
    (∀ (sp : Int) wl, (n : Int) < sp → fitWindow .last sp wl n = .error .value) := by
  refine ⟨?_, ?_, ?_, ?_, ?_⟩
  · intro sp wl; unfold fitWindow resolveWindow; split <;> rfl
  · intro sp; unfold fitWindow resolveWindow; split <;> simp
  · intro sp w h1 h2
    have : sp ≠ 1 ∧ w < sp := ⟨h1, h2⟩
    unfold fitWindow resolveWindow; split
    · rfl
    · simp [this]
  · intro st sp w hst hw
    by_cases hn0 : n = 0
    · simp [fitWindow, hn0]
    cases st with
    | last => exact absurd rfl hst
    | other => simp [fitWindow, resolveWindow, hn0]
    | mean =>
      by_cases a : (sp ≠ 1 ∧ w < sp)
      · simp [fitWindow, resolveWindow, hn0, a]
      by_cases b : w < 1
      · simp [fitWindow, resolveWindow, hn0, a, b]
      by_cases c : sp < 1
      · simp [fitWindow, resolveWindow, hn0, a, b, c]
      simp only [fitWindow, resolveWindow, hn0, a, b, c, ↓reduceIte, gt_iff_lt, hw]
    | drift =>
      by_cases b : w < 1
      · simp [fitWindow, resolveWindow, hn0, b]
      by_cases c : w = 1
      · simp [fitWindow, resolveWindow, hn0, c]
      simp only [fitWindow, resolveWindow, hn0, b, c, ↓reduceIte, gt_iff_lt, hw]
  · intro sp wl hsp
    unfold fitWindow
    split
    · rfl
    · rename_i hn0
      have a : ¬ (sp = 1) := by omega
      have b : ¬ (sp < 1) := by omega
      simp [resolveWindow, a, b, hsp]

/-! ## in-sample steps: one-step-ahead forecasts from a moved cutoff -/

/-- `_predict_in_sample`: for sorted in-sample steps the moving-cutoff loop (splitter, `update`, label slicing) returns,
for every step `s` (time `t = T + s`), the forecast `_predict_last_window` makes ONE step ahead from the window of
the at most `wl` observations up to `t − 1`; before any observation the forecast is NaN. -/
theorem insample_eq_one_step_ahead_spec (st : Strategy) (sp wl : Nat) (y : List Val) (origin : Int) (steps : List Int)
    (hs : Sorted steps) (hne : steps ≠ []) (hle : ∀ s ∈ steps, s ≤ 0) :
    predictInSample st sp wl y origin steps = mapE (fun s =>
      let q := s + (y.length : Int) - 2
      if q < 0 then .ok (origin, none)
      else match predictLastWindow st sp wl (window (asFn y origin) (origin + q) (min wl (q.toNat + 1))) [1] with
        | .error e => .error e
        | .ok v => .ok (origin + q + 1, v.headD none)) steps := by
  rw [predictInSample_eq st sp wl y origin steps hs hne hle]
  apply mapE_congr
  intro s hsm
  have := hle s hsm
  by_cases hq : s + (y.length : Int) - 2 < 0
  · simp only [hq, ↓reduceIte]; exact oneStepAhead_before_start st sp wl y origin _ hq
  · simp only [hq, ↓reduceIte]
    exact oneStepAhead_eq st sp wl y origin _ (by omega) (by omega)

example : predictInSample .mean 1 2 [some 0, some 1, some 4, some 9, some 16] 5 [-5, -4, -1, 0]
    = .ok [(5, none), (5, none), (8, some (5 / 2)), (9, some (13 / 2))] := by decide +kernel

/-- in-sample, last value: the forecast for time `t` is the observation at `t − 1` -/
theorem insample_last_eq_spec (y : Int → Val) (c : Int) (k : Nat) :
    predictLastWindow .last 1 1 (window y c (min 1 (k + 1))) [1] = .ok [y c] := by
  have : min 1 (k + 1) = 1 := by omega
  rw [this]; exact last_eq_spec y c [1]

/-- in-sample, mean: the mean of the (at most `wl`) observations available up to `t − 1` -/
theorem insample_mean_eq_spec (y : Int → Val) (c : Int) (wl k : Nat) :
    predictLastWindow .mean 1 wl (window y c (min wl (k + 1))) [1] = .ok [meanOf (window y c (min wl (k + 1)))] :=
  mean_eq_spec y c wl (min wl (k + 1)) [1]

/-- in-sample drift, for EVERY in-sample step (`k + 1` = number of observations before `t`, window possibly cut by the
start of the series): with at least two observations in the window the forecast is the line through the end points of
the `min wl (k+1)` observations actually in it, one step ahead; with a single observation it is NaN. -/
theorem insample_drift_eq_spec (y : Int → Val) (c : Int) (wl k : Nat) (hwl : 2 ≤ wl)
    (hfirst : (y (c - ((min wl (k + 1) : Nat) : Int) + 1)).isSome) (hlast : (y c).isSome) :
    predictLastWindow .drift 1 wl (window y c (min wl (k + 1))) [1]
      = .ok [if 2 ≤ min wl (k + 1) then Spec.Naive.drift y c (min wl (k + 1)) 1 else none] := by
  by_cases h2 : 2 ≤ min wl (k + 1)
  · simp only [h2, ↓reduceIte]
    exact drift_eq_spec y c wl _ (by omega) h2 [1] hfirst hlast
  · have h1 : min wl (k + 1) = 1 := by omega
    rw [h1]
    exact drift_single_observation_nan y c wl (by omega) [1] hlast

/-- the pre-fix witness of F3: `y = 0, 1, 4, 9, 16`, `window_length_ = 5`, forecast for time 3 from the three
observations 0, 1, 4 is now 6 (the line through (0,0) and (2,4)); it was 5 -/
example : predictLastWindow .drift 1 5 (window squares 2 (min 5 (2 + 1))) [1] = .ok [some 6] := by decide +kernel

/-- in-sample seasonal mean, for EVERY in-sample step (window possibly cut by the start of the series) and every
window length: the mean of the same-season observations among the `min wl (k+1)` available (NaN when there is none) -/
theorem insample_seasonal_mean_eq_spec (y : Int → Val) (c : Int) (sp wl k : Nat) (hsp : 2 ≤ sp) :
    predictLastWindow .mean sp wl (window y c (min wl (k + 1))) [1]
      = .ok [Spec.Naive.seasonalMean y c (min wl (k + 1)) sp 1] :=
  seasonal_mean_eq_spec y c sp (min wl (k + 1)) wl hsp [1] (by simp [Sorted]) (by simp)

/-- the pre-fix witness of F2: five observations, `sp = 2`, `window_length_ = 5`, step 0: raised ValueError, now 2 -/
example : predictLastWindow .mean 2 5 (window squares 3 (min 5 (3 + 1))) [1] = .ok [some 2] := by decide +kernel

/-- in-sample, seasonal last, once a whole season has been observed: the observation one season before `t` -/
theorem insample_seasonal_last_eq_spec (y : Int → Val) (c : Int) (sp k : Nat) (hsp : 2 ≤ sp) (hfull : sp ≤ k + 1) :
    predictLastWindow .last sp sp (window y c (min sp (k + 1))) [1] = .ok [y (c + 1 - (sp : Int))] := by
  have : min sp (k + 1) = sp := by omega
  rw [this, seasonal_last_eq_spec y c sp hsp [1] (by simp [Sorted]) (by simp)]
  simp only [List.map_cons, List.map_nil, Spec.Naive.seasonalLast, Spec.Naive.seasonsBack]
  have : ((1 : Int) + (sp : Int) - 1) / (sp : Int) = 1 := by
    have : (1 : Int) + (sp : Int) - 1 = sp := by omega
    rw [this]; exact Int.ediv_self (by omega)
  rw [this]; congr 3; omega

/-! ## `fit(y).predict(fh)` end to end -/

/-- horizon handling of `predict`: sorted relative steps are split at 0 into the in-sample part (moving cutoff) and the
out-of-sample part (fixed cutoff); results are concatenated in that order -/
theorem predict_splits_horizon (st : Strategy) (sp : Int) (wl : Option Int) (y : List Val) (origin : Int) (fh : List Int)
    (hs : Sorted fh) (hne : fh ≠ []) (w : Nat) (hfit : fitWindow st sp wl y.length = .ok w) :
    fitPredict st sp wl y origin (.ints fh) true =
      (let ins := fh.filter (fun v => decide (v ≤ 0))
       let oos := fh.filter (fun v => decide (v > 0))
       if ins.isEmpty then predictOut st sp.toNat w y origin oos
       else if oos.isEmpty then predictInSample st sp.toNat w y origin ins
       else (predictInSample st sp.toNat w y origin ins).bind (fun a =>
              (predictOut st sp.toNat w y origin oos).bind (fun b => .ok (a ++ b)))) :=
  fitPredict_rel st sp wl y origin fh hs hne w hfit

/-- out-of-sample horizon: the forecasts are those of `_predict_last_window` on the last `window_length_` observations,
labelled `T + h` -/
theorem predict_out_of_sample (st : Strategy) (sp : Int) (wl : Option Int) (y : List Val) (origin : Int) (fh : List Int)
    (hs : Sorted fh) (hne : fh ≠ []) (hpos : ∀ h ∈ fh, 1 ≤ h) (w : Nat)
    (hfit : fitWindow st sp wl y.length = .ok w) :
    fitPredict st sp wl y origin (.ints fh) true =
      match predictLastWindow st sp.toNat w (window (asFn y origin) (origin + (y.length : Int) - 1) w) fh with
      | .ok vs => .ok ((fh.map (origin + (y.length : Int) - 1 + ·)).zip vs)
      | .error e => .error e :=
  fitPredict_out_of_sample st sp wl y origin fh hs hne hpos w hfit

/-- end to end: `NaiveForecaster("last", sp=sp).fit(y).predict(fh)` = seasonal naive forecasts `y(T+h−sp·⌈h/sp⌉)` at `T+h` -/
theorem naive_seasonal_last_end_to_end (y : List Val) (origin : Int) (sp : Nat) (hsp : 2 ≤ sp) (hn : sp ≤ y.length)
    (wl : Option Int) (fh : List Int) (hs : Sorted fh) (hne : fh ≠ []) (hpos : ∀ h ∈ fh, 1 ≤ h) :
    fitPredict .last sp wl y origin (.ints fh) true =
      .ok (fh.map (fun h => (origin + (y.length : Int) - 1 + h,
        Spec.Naive.seasonalLast (asFn y origin) (origin + (y.length : Int) - 1) sp h))) := by
  have hfit := (fit_window_resolution y.length (by omega)).2.1 sp wl hsp hn
  rw [predict_out_of_sample .last sp wl y origin fh hs hne hpos sp hfit]
  simp only [Int.toNat_natCast]
  rw [seasonal_last_eq_spec _ _ sp hsp fh hs hpos]
  simp only [List.zip_map']

example : fitPredict .last 3 none [some 1, some 2, some 3, some 4, some 5] 10 (.ints [1, 2, 5]) true
    = .ok [(15, some 3), (16, some 4), (19, some 4)] := by decide +kernel

/-! ## polynomial trend -/

/-- the regressor is fitted on the Vandermonde rows `t^lo … t^d` of `t = 0 … n−1` and asked at `t = n − 1 + h`
(`lo = 0` with intercept, `1` without); forecasts are labelled `T + h` -/
theorem trend_design_matrix_eq_spec (deg : Nat) (bias : Bool) (hv : ¬ (deg = 0 ∧ bias = false)) (n : Nat) (hn : 1 ≤ n)
    (origin : Int) (fh : List Int) (hs : Sorted fh) (hne : fh ≠ []) :
    Trend.designs deg bias n origin (.ints fh) true
      = .ok ((List.range n).map (fun (i : Nat) => powers (if bias then 0 else 1) deg (i : Int)),
             fh.map (fun h => powers (if bias then 0 else 1) deg ((n : Int) - 1 + h)),
             fh.map (fun h => origin + (n : Int) - 1 + h)) :=
  Lem.Trend.designs_rel deg bias hv n hn origin fh hs hne

example : Trend.designs 2 true 3 5 (.ints [-1, 2]) true
    = .ok ([[1, 0, 0], [1, 1, 1], [1, 2, 4]], [[1, 1, 1], [1, 4, 16]], [6, 9]) := by decide +kernel

/-- degree 1 with intercept, `n ≥ 2`: the forecast at step `h` is `a + b·(n−1+h)` where `(a, b)` solves the normal
equations of the straight-line fit on `t = 0 … n−1`, hence minimises the sum of squared residuals over all lines -/
theorem trend_deg1_eq_ols (ys : List Rat) (hn : 2 ≤ ys.length) (origin : Int) (fh : List Int) (hs : Sorted fh) (hne : fh ≠ []) :
    ∃ a b : Rat,
      NormalEqs (Trend.points ys) a b ∧
      (∀ a' b', sse (Trend.points ys) a b ≤ sse (Trend.points ys) a' b') ∧
      Trend.fitPredict 1 true (ys.map some) origin (.ints fh) true
        = .ok (fh.map (fun h => (origin + (ys.length : Int) - 1 + h, some (a + b * ((((ys.length : Int) - 1 + h : Int)) : Rat))))) := by
  refine ⟨(Trend.olsCoef 1 true ys).1, (Trend.olsCoef 1 true ys).2, Lem.Trend.olsCoef_deg1_normal ys hn,
    fun a' b' => Lem.Trend.sse_min_of_normal _ _ _ (Lem.Trend.olsCoef_deg1_normal ys hn) a' b', ?_⟩
  exact Lem.Trend.trend_fitPredict_rel 1 true (by simp) ys (by omega) origin fh hs hne

example : Trend.fitPredict 1 true [some 0, some 1, some 4, some 9, some 16] 5 (.ints [-5, 0, 2]) true
    = .ok [(4, some (-6)), (9, some 14), (11, some 22)] := by decide +kernel

/-- degree 0: every forecast is the constant minimising the squared error (the mean) -/
theorem trend_deg0_eq_mean (ys : List Rat) (hn : 1 ≤ ys.length) (origin : Int) (fh : List Int) (hs : Sorted fh) (hne : fh ≠ []) :
    ∃ a : Rat, (∀ a', sse (Trend.points ys) a 0 ≤ sse (Trend.points ys) a' 0) ∧
      Trend.fitPredict 0 true (ys.map some) origin (.ints fh) true
        = .ok (fh.map (fun h => (origin + (ys.length : Int) - 1 + h, some a))) := by
  refine ⟨(Trend.olsCoef 0 true ys).1, (Lem.Trend.olsCoef_deg0 ys hn).2, ?_⟩
  rw [Lem.Trend.trend_fitPredict_rel 0 true (by simp) ys hn origin fh hs hne, (Lem.Trend.olsCoef_deg0 ys hn).1]
  simp

/-- degree 1 without intercept: the least-squares line through the origin of the time axis -/
theorem trend_noicpt_eq_ols (ys : List Rat) (hn : 2 ≤ ys.length) (origin : Int) (fh : List Int) (hs : Sorted fh) (hne : fh ≠ []) :
    ∃ b : Rat, (∀ b', sse (Trend.points ys) 0 b ≤ sse (Trend.points ys) 0 b') ∧
      Trend.fitPredict 1 false (ys.map some) origin (.ints fh) true
        = .ok (fh.map (fun h => (origin + (ys.length : Int) - 1 + h, some (b * ((((ys.length : Int) - 1 + h : Int)) : Rat))))) := by
  refine ⟨(Trend.olsCoef 1 false ys).2, (Lem.Trend.olsCoef_noicpt ys hn).2, ?_⟩
  rw [Lem.Trend.trend_fitPredict_rel 1 false (by simp) ys (by omega) origin fh hs hne, (Lem.Trend.olsCoef_noicpt ys hn).1]
  simp

/-! ## statsmodels adapter -/

/-- whatever the wrapped fitted model `sm` (position ↦ prediction) is, the adapter returns for every requested step `h`
the wrapped model's prediction for that very time point `n − 1 + h`, labelled `T + h` — in-sample or out-of-sample,
with or without gaps in the horizon -/
theorem adapter_selects_requested_steps (sm : Int → Val) (n : Nat) (hn : 1 ≤ n) (origin : Int) (fh : List Int)
    (hs : Sorted fh) (hne : fh ≠ []) :
    Trend.adapterPredict sm n origin (.ints fh) true
      = .ok (fh.map (fun h => (origin + (n : Int) - 1 + h, sm ((n : Int) - 1 + h)))) :=
  Lem.Trend.adapterPredict_rel sm n hn origin fh hs hne

example : Trend.adapterPredict (fun i => some ((10 * i : Int) : Rat)) 4 5 (.ints [-1, 2, 5]) true
    = .ok [(7, some 20), (10, some 50), (13, some 80)] := by decide +kernel

/-! ## object history: re-parameterised and re-fitted objects

`predict` has no state output in the model (Model/History.lean): asking twice gives the same answer and nothing the caller
holds is written; the harness checks both on the real code for every naive / trend case (flags `again`, `kept`). -/

/-- Object history: whatever an estimator object has been through before (any parameters, any fitted attributes, a
stale `sp_`), after `set_params(p)` and a successful `fit(y)` its `predict(fh)` is exactly what a newly constructed
`NaiveForecaster(p).fit(y).predict(fh)` returns — hence the textbook value for the NEW parameters and data. -/
theorem refit_forgets_history (o : NObj) (st : Strategy) (sp : Int) (wl : Option Int) (y : List Val) (origin : Int)
    (o' : NObj) (h : (o.setParams st sp wl).fit y origin = .ok o') (raw : FH.Raw) (rel : Bool) :
    o'.predict raw rel = fitPredict st sp wl y origin raw rel :=
  Lem.History.refit_predict o st sp wl y origin o' h raw rel

/-- … and the whole history `construct(p0); fit(y0); set_params(p); fit(y); predict(fh)` equals the fresh object's
answer, errors included (a rejected first fit, a rejected second fit). -/
theorem naive_history_eq_fresh (st0 : Strategy) (sp0 : Int) (wl0 : Option Int) (y0 : List Val) (o0 : Int)
    (st : Strategy) (sp : Int) (wl : Option Int) (y : List Val) (origin : Int) (raw : FH.Raw) (rel : Bool) :
    naiveHistory st0 sp0 wl0 y0 o0 st sp wl y origin raw rel = fitPredict st sp wl y origin raw rel := by
  unfold naiveHistory
  generalize (NObj.new st0 sp0 wl0).fitOrKeep y0 o0 = b
  cases hf : (b.setParams st sp wl).fit y origin with
  | ok c => simp only; exact Lem.History.refit_predict b st sp wl y origin c hf raw rel
  | error e =>
    unfold NObj.fit NObj.setParams at hf
    simp only at hf
    cases hw : fitWindow st sp wl y.length with
    | ok w => simp [hw] at hf
    | error e' =>
      simp only [hw, Except.error.injEq] at hf
      subst hf
      simp [fitPredict, hw, bind, Except.bind]

example : naiveHistory .mean 3 (some 6) [some 1, some 2, some 3, some 4, some 5, some 6, some 7] 5
    .drift 1 none [some 0, some 1, some 4, some 9, some 16] 0 (.ints [-1, 1]) true = .ok [(3, some 6), (5, some 20)] := by
  decide +kernel

/-- the same for `PolynomialTrendForecaster`: the pipeline is re-assembled from the current parameters by every fit -/
theorem trend_history_eq_fresh (d0 : Nat) (b0 : Bool) (y0 : List Val) (o0 : Int) (d : Nat) (b : Bool) (y : List Val)
    (origin : Int) (raw : FH.Raw) (rel : Bool) :
    (match trendHistory d0 b0 y0 o0 d b y origin with
     | .ok o => o.predict raw rel
     | .error e => .error e) = Trend.fitPredict d b y origin raw rel := by
  unfold trendHistory
  generalize (TObj.new d0 b0).fitOrKeep y0 o0 = a
  unfold TObj.fit TObj.setParams Trend.fitPredict
  simp only
  by_cases hl : y.length = 0
  · simp [hl, bind, Except.bind, throw, throwThe, MonadExceptOf.throw]
  · simp only [hl, ↓reduceIte]
    cases hc : Trend.checkPoly d b with
    | error e => simp [bind, Except.bind]
    | ok u =>
      by_cases hn : y.any (·.isNone) = true
      · simp [hn, bind, Except.bind, throw, throwThe, MonadExceptOf.throw]
      · simp only [hn, Bool.false_eq_true, ↓reduceIte, TObj.predict]
        unfold Trend.fitPredict
        simp [hl, hc, hn, bind, Except.bind]

/-! ## several objects alive at once (Model/History.lean, `World`)

Whatever calls are made on OTHER objects of the class in between — constructed with the same, default or other parameters,
fitted on other data, asked for forecasts — the answers an object gives and the state it ends in are those of the calls
made on that object alone.  (The harness interleaves a second object between fit and predict and between two predicts of the
case's object and compares with the object alone and with the textbook value; a static scan looks for class- or module-level
objects read by fit / predict.) -/

theorem other_object_does_not_interfere_naive (w : Nat → NObj) (ops : List (Nat × NOp)) (i : Nat) :
    ((World.run naiveMachine w ops).1 i, ((World.run naiveMachine w ops).2.filter (fun r => r.1 == i)).map (·.2))
      = World.runLocal naiveMachine (w i) ((ops.filter (fun r => r.1 == i)).map (·.2)) :=
  Lem.World.run_eq_runLocal naiveMachine w ops i

theorem other_object_does_not_interfere_trend (w : Nat → TObj) (ops : List (Nat × TOp)) (i : Nat) :
    ((World.run trendMachine w ops).1 i, ((World.run trendMachine w ops).2.filter (fun r => r.1 == i)).map (·.2))
      = World.runLocal trendMachine (w i) ((ops.filter (fun r => r.1 == i)).map (·.2)) :=
  Lem.World.run_eq_runLocal trendMachine w ops i

/-- the seeded scenario: `a.fit(y1); b.fit(y2); a.predict(fh)` with equal parameters — `a` answers from `y1` -/
example : ((World.run trendMachine (fun _ => TObj.new 1 true)
      [(0, .fit [some 0, some 1, some 2] 0), (1, .fit [some 5, some 3, some 1] 0), (0, .predict (.ints [1, 2]) true)]).2.filter
        (fun r => r.1 == 0)).map (·.2) = [.ok [], .ok [(3, some 3), (4, some 4)]] := by decide +kernel

/-! ## options handed to the wrapped statsmodels model (Model/Adapter.lean; tied to the code by recording the
keyword arguments the statsmodels constructor / fit actually receive) -/

open SkVerif.Adapter (Args esCtor esFit etsCtor etsFit thetaCtor smRejects)
local notation "get" => Adapter.get

/-- the statsmodels keyword that carries a forecaster parameter -/
def smName (k : String) : String := if k == "sp" then "seasonal_periods" else k

def esOptions : List String :=
  ["trend", "damped_trend", "seasonal", "sp", "use_boxcox", "initial_level", "initial_trend", "initial_seasonal",
   "initialization_method"]
def etsOptions : List String :=
  ["error", "trend", "damped_trend", "seasonal", "sp", "initialization_method", "initial_level", "initial_trend",
   "initial_seasonal", "bounds", "dates", "freq", "missing"]
def etsFitOptions : List String := ["start_params", "maxiter", "full_output", "disp", "callback", "return_params"]

/-- `ExponentialSmoothing`: every documented option reaches the statsmodels constructor keyword of the same meaning,
unchanged, whatever the values of the OTHER options (no option is dropped or rewritten depending on another), nothing
else is passed, and `fit` is called without options -/
theorem es_forwards_every_option (p : Args) :
    (∀ k ∈ esOptions, get (esCtor p) (smName k) = get p k) ∧
    (esCtor p).map (·.1) = esOptions.map smName ∧ esFit p = [] := by
  refine ⟨?_, rfl, rfl⟩
  intro k hk
  simp only [esOptions, List.mem_cons, List.not_mem_nil, or_false] at hk
  rcases hk with rfl | rfl | rfl | rfl | rfl | rfl | rfl | rfl | rfl <;> rfl

/-- `AutoETS(auto=False)`: the same for the constructor and for the options of `fit` -/
theorem ets_forwards_every_option (p : Args) :
    (∀ k ∈ etsOptions, get (etsCtor p) (smName k) = get p k) ∧
    (∀ k ∈ etsFitOptions, get (etsFit p) k = get p k) ∧
    (etsCtor p).map (·.1) = etsOptions.map smName ∧ (etsFit p).map (·.1) = etsFitOptions := by
  refine ⟨?_, ?_, rfl, rfl⟩
  · intro k hk
    simp only [etsOptions, List.mem_cons, List.not_mem_nil, or_false] at hk
    rcases hk with rfl | rfl | rfl | rfl | rfl | rfl | rfl | rfl | rfl | rfl | rfl | rfl | rfl <;> rfl
  · intro k hk
    simp only [etsFitOptions, List.mem_cons, List.not_mem_nil, or_false] at hk
    rcases hk with rfl | rfl | rfl | rfl | rfl | rfl <;> rfl

/-- the wrapped model of `ThetaForecaster` is simple exponential smoothing (no trend, no seasonal component) with the
period and the initial level of the forecaster; the initial level is taken as given ("known") exactly when one is given —
a given level of 0 included — and statsmodels never receives the combination it rejects -/
theorem theta_wraps_ses (p : Args) :
    get (thetaCtor p) "trend" = "None" ∧ get (thetaCtor p) "seasonal" = "None" ∧ get (thetaCtor p) "damped_trend" = "F" ∧
    get (thetaCtor p) "seasonal_periods" = get p "sp" ∧ get (thetaCtor p) "initial_level" = get p "initial_level" ∧
    get (thetaCtor p) "initialization_method" = (if get p "initial_level" = "None" then "estimated" else "known") ∧
    smRejects (thetaCtor p) = false := by
  refine ⟨rfl, rfl, rfl, rfl, rfl, ?_, ?_⟩
  · by_cases hn : Adapter.get p "initial_level" = "None"
    · simp only [thetaCtor, hn, beq_self_eq_true, ↓reduceIte]; rfl
    · have e : (Adapter.get p "initial_level" == "None") = false := by simp [hn]
      simp only [thetaCtor, e, hn, ↓reduceIte]; rfl
  · by_cases hn : Adapter.get p "initial_level" = "None"
    · simp only [smRejects, thetaCtor, hn, beq_self_eq_true, ↓reduceIte]; rfl
    · have e : (Adapter.get p "initial_level" == "None") = false := by simp [hn]
      simp only [smRejects, thetaCtor, e]; rfl

/-- the pre-fix witness (F4), now a regression: a given initial level of exactly 0 is "known" -/
example : get (thetaCtor [("initial_level", "0"), ("sp", "1")]) "initialization_method" = "known" ∧
    smRejects (thetaCtor [("initial_level", "0"), ("sp", "1")]) = false := by
  refine ⟨by decide, by decide⟩

/-- about the ORIGINAL code (before 636f889): it forwarded the level 0 together with "estimated", which statsmodels rejects -/
example : get (Adapter.thetaCtorOrig [("initial_level", "0"), ("sp", "1")]) "initialization_method" = "estimated" ∧
    smRejects (Adapter.thetaCtorOrig [("initial_level", "0"), ("sp", "1")]) = true := by
  refine ⟨by decide, by decide⟩

example : get (esCtor [("trend", "mul"), ("damped_trend", "T"), ("sp", "4")]) "damped_trend" = "T" := by decide

/-! ## Exogenous data next to `y` are ignored by the naive forecaster (`fit(y, X)`, `_get_last_window` returns both windows) -/
section Exog
open SkVerif.Exog

theorem getLastWindow_fst (y : List Val) (X : Option XRows) (origin : Int) (wl : Nat) (cutoff : Int) :
    (getLastWindow y X origin wl cutoff).1 = lastWindow y origin wl cutoff := rfl

theorem inSampleGoX_eq (st : Strategy) (sp wl : Nat) (y : List Val) (X : Option XRows) (origin : Int) (qs : List Int) (cut : Int) :
    inSampleGoX st sp wl y X origin qs cut = inSampleGo st sp wl y origin qs cut := by
  induction qs generalizing cut with
  | nil => rfl
  | cons q qs ih => simp only [inSampleGoX, inSampleGo, getLastWindow_fst, ih]; rfl

theorem predictInSampleX_eq (st : Strategy) (sp wl : Nat) (y : List Val) (X : Option XRows) (origin : Int) (steps : List Int) :
    predictInSampleX st sp wl y X origin steps = predictInSample st sp wl y origin steps := by
  simp only [predictInSampleX, predictInSample, inSampleGoX_eq]; rfl

theorem predictOutX_eq (st : Strategy) (sp wl : Nat) (y : List Val) (X : Option XRows) (origin : Int) (steps : List Int) :
    predictOutX st sp wl y X origin steps = predictOut st sp wl y origin steps := by
  simp only [predictOutX, predictOut, getLastWindow_fst]

/-- whatever exogenous rows are stored next to `y` (any number of columns, any values, missing or not — also inside the last
window), and whether or not future rows are handed to predict, `fit(y, X).predict(fh)` is `fit(y).predict(fh)`: every textbook
theorem above therefore holds unchanged for forecasters fitted with exogenous data -/
theorem naive_ignores_exog (X : Option XRows) (future : Bool) (st : Strategy) (sp : Int) (wl : Option Int) (y : List Val)
    (origin : Int) (raw : FH.Raw) (rel : Bool) (hX : xMatches y X = true) :
    fitPredictX X future st sp wl y origin raw rel = fitPredict st sp wl y origin raw rel := by
  simp only [fitPredictX, fitPredict, hX, Bool.not_true, Bool.false_eq_true, ↓reduceIte, predictInSampleX_eq, predictOutX_eq]

/-- exogenous rows that do not cover the time points of `y` are rejected by fit (ValueError), never used -/
theorem naive_rejects_foreign_exog (X : Option XRows) (future : Bool) (st : Strategy) (sp : Int) (wl : Option Int) (y : List Val)
    (origin : Int) (raw : FH.Raw) (rel : Bool) (hX : xMatches y X = false) :
    fitPredictX X future st sp wl y origin raw rel = .error .value := by
  simp [fitPredictX, hX]

example : xMatches [some 1, some 2, some 3] (some [[none], [some 5], [none]]) = true := by decide
example : fitPredictX (some [[none], [some 5], [none]]) false .mean 1 (some 2) [some 1, some 2, some 4] 0 (.ints [1]) true
    = .ok [(3, some 3)] := by decide +kernel

end Exog

/-! ## ThetaForecaster._predict: point forecasts with and without prediction intervals, re-seasonalisation -/
section ThetaPredict
open SkVerif.Theta

/-- the POINT forecasts returned together with prediction intervals are the point forecasts returned without them, for every
wrapped model, drift, seasonal indices, option `deseasonalize`, horizon and interval width -/
theorem theta_point_forecast_unaffected_by_intervals (sm : Int → Val) (n : Nat) (origin : Int) (raw : FH.Raw) (rel : Bool)
    (drift seas : List Rat) (deseason : Bool) (err : Int → Rat) :
    (Theta.predict sm n origin raw rel drift seas deseason true err).map Prod.fst
      = (Theta.predict sm n origin raw rel drift seas deseason false err).map Prod.fst ∧
    (Theta.predict sm n origin raw rel drift seas deseason false err).map Prod.fst
      = Theta.points sm n origin raw rel drift seas deseason := by
  unfold Theta.predict
  cases h : Theta.points sm n origin raw rel drift seas deseason with
  | error e => exact ⟨rfl, rfl⟩
  | ok p => exact ⟨rfl, rfl⟩

/-- without seasonal adjustment the point forecast is the wrapped model's forecast for the requested time point plus the drift -/
theorem theta_plain_eq_ses_plus_drift (sm : Int → Val) (n : Nat) (origin : Int) (raw : FH.Raw) (rel : Bool)
    (drift seas : List Rat) (ps : List (Int × Val)) (h : Trend.adapterPredict sm n origin raw rel = .ok ps) :
    Theta.points sm n origin raw rel drift seas false = .ok (addDrift ps drift) := by
  simp [Theta.points, h]

theorem reseasonGo_contiguous (seas : List Rat) (origin t0 : Int) :
    ∀ (ps : List (Int × Val)) (k : Nat), (∀ (i : Nat) (h : i < ps.length), ps[i].1 = t0 + (k : Int) + (i : Int)) →
      reseasonGo seas (t0 - origin) k ps
        = ps.map (fun p => (p.1, p.2.map (· * seas.getD (((p.1 - origin) % (seas.length : Int)).toNat) 1))) := by
  intro ps
  induction ps with
  | nil => intro k _; rfl
  | cons p ps ih =>
    intro k hc
    have h0 : p.1 = t0 + (k : Int) := by
      have := hc 0 (by simp)
      simp only [List.getElem_cons_zero] at this
      simpa using this
    have ht : ∀ (i : Nat) (h : i < ps.length), ps[i].1 = t0 + ((k + 1 : Nat) : Int) + (i : Int) := by
      intro i hi
      have := hc (i + 1) (by simpa using hi)
      simp only [List.getElem_cons_succ] at this
      rw [this]; push_cast; ring
    have ha : alignIdx (t0 - origin) k seas.length = ((p.1 - origin) % (seas.length : Int)).toNat := by
      unfold alignIdx; rw [h0]; congr 2; ring
    simp only [reseasonGo, List.map_cons, ha, ih (k + 1) ht]

/-- FULL clause (what the documentation says): every forecast is put back on the scale of the data with the seasonal index of
its OWN time point, `seas[(t - origin) mod sp]`, for every horizon.  Proved for horizons that are a run of consecutive time points
(`_partial`); for scattered horizons the code uses the index of the k-th time point after the first requested one (finding F5,
`theta_scattered_horizon_misaligned` below). -/
theorem theta_reseasonalised_own_season_partial (seas : List Rat) (origin : Int) (ps : List (Int × Val))
    (hc : ∀ (i : Nat) (h : i < ps.length), ps[i].1 = (ps.headD (0, none)).1 + (i : Int)) :
    reseason seas origin ps
      = ps.map (fun p => (p.1, p.2.map (· * seas.getD (((p.1 - origin) % (seas.length : Int)).toNat) 1))) := by
  cases ps with
  | nil => rfl
  | cons p ps =>
    have := reseasonGo_contiguous seas origin p.1 (p :: ps) 0 (by
      intro i hi; have := hc i hi; simpa using this)
    simpa [reseason] using this

/-- F5 witness: indices (2, 3) for two seasons, training series from label 0, forecasts for time points 5 and 7 (one step left
out): the second forecast is multiplied by the index of time point 6 (2), not by that of time point 7 (3) -/
theorem theta_scattered_horizon_misaligned :
    reseason [2, 3] 0 [(5, some 1), (7, some 1)] = [(5, some 3), (7, some 2)] ∧
    [(5, some 3), (7, some 2)] ≠
      [((5 : Int), (some 1 : Val)), (7, some 1)].map (fun p => (p.1, p.2.map (· * ([2, 3] : List Rat).getD (((p.1 - 0) % 2).toNat) 1))) := by
  refine ⟨by decide +kernel, by decide +kernel⟩

example : ∀ (i : Nat) (h : i < [((5 : Int), (some 1 : Val)), (6, some 1)].length),
    [((5 : Int), (some 1 : Val)), (6, some 1)][i].1 = (([((5 : Int), (some 1 : Val)), (6, some 1)]).headD (0, none)).1 + (i : Int) := by
  intro i hi
  match i, hi with
  | 0, _ => rfl
  | 1, _ => rfl

end ThetaPredict

end SkVerif.C11
