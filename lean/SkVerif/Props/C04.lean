/- Property theorems for C04 (stub: not built yet). -/
namespace SkVerif.C04
end SkVerif.C04
