/-
C04  Every estimator obeys the scikit-learn protocol: parameters, clone, fitted state.

Part A  theorems over ANY class table (SkVerif/Model/Params.lean, Layer A).  The table of the real
        package is regenerated from the source on every check and its per-class `Summary` is
        re-established by the kernel (`decide +kernel`); these theorems say what a summary means.
Part B  theorems over ANY parameter tree (Layer B: get_params / set_params / clone / _check_names).

Only theorems + non-vacuity examples here; proofs of the lemmas are in Lemmas/Params*.lean.
-/
import SkVerif.Model.Params
import SkVerif.Spec.Params
import SkVerif.Lemmas.Params
namespace SkVerif.C04
open SkVerif SkVerif.Params

variable {N : Type} [DecidableEq N]

/-! ## Part A : constructor contract, fitted-state guards, fit frame -/

/-- what `ctorOK` of a summary says about the primitive constructor trace -/
theorem ctorOK_unfold (tbl : Table N) (fa fn : N) (am : List N) (cls : N)
    (h : (summarize tbl fa fn am cls).ctorOK = true) :
    (∀ p ∈ ctorParams tbl cls, pstatus (ctorPrims tbl cls) p = .stored) ∧ mayRaise (ctorPrims tbl cls) = false := by
  simp only [Summary.ctorOK, summarize, Bool.and_eq_true, List.all_eq_true, List.mem_map,
    Bool.not_eq_true', beq_iff_eq, forall_exists_index, and_imp, forall_apply_eq_imp_iff₂] at h
  exact ⟨h.1.1.1, h.1.1.2⟩

/-- **get_params returns exactly what was passed.**  For a class whose regenerated summary is `ctorOK`,
construction never raises and afterwards every constructor parameter is stored under its own name
holding the argument itself -- for every argument tuple, every value of the constants / derived
expressions in the constructor chain and every outcome of its branches. -/
theorem wf_getParams_eq_args {V : Type} (tbl : Table N) (fa fn : N) (am : List N) (cls : N)
    (I : Interp N V) (args : N → V) (h : (summarize tbl fa fn am cls).ctorOK = true) :
    ∃ s, construct tbl I cls args = some s ∧ ∀ p ∈ ctorParams tbl cls, assocGet p s = some (args p) := by
  obtain ⟨hst, hnr⟩ := ctorOK_unfold tbl fa fn am cls h
  obtain ⟨s, hs⟩ := Lem.runPrims_total I args (ctorPrims tbl cls) 0 [] hnr
  refine ⟨s, hs, ?_⟩
  intro p hp
  have hrel := Lem.absFrom_sound I args p (ctorPrims tbl cls) 0 .absent [] s (by simp [AbsRel, assocGet]) hs
  have hstored := hst p hp
  unfold pstatus at hstored
  change AbsRel I args p (absOf p (ctorPrims tbl cls)) s at hrel
  cases habs : absOf p (ctorPrims tbl cls) with
  | absent => simp [habs] at hstored
  | unknown => simp [habs] at hstored
  | is e =>
    rw [habs] at hstored hrel
    by_cases he : e = .param p
    · subst he
      simpa [AbsRel, evalExpr] using hrel
    · simp [he] at hstored

/-- A parameter the table reports `missing` is really absent after construction (so `get_params`,
which does `getattr(self, name)`, raises AttributeError): the detector for `self.x_ = x`. -/
theorem ctor_missing_param_absent {V : Type} (tbl : Table N) (cls : N) (I : Interp N V) (args : N → V)
    (p : N) (s : List (N × V)) (hm : pstatus (ctorPrims tbl cls) p = .missing)
    (hs : construct tbl I cls args = some s) : assocGet p s = none := by
  have hrel := Lem.absFrom_sound I args p (ctorPrims tbl cls) 0 .absent [] s (by simp [AbsRel, assocGet]) hs
  change AbsRel I args p (absOf p (ctorPrims tbl cls)) s at hrel
  unfold pstatus at hm
  cases habs : absOf p (ctorPrims tbl cls) with
  | absent => rw [habs] at hrel; simpa [AbsRel] using hrel
  | unknown => simp [habs] at hm
  | is e =>
    rw [habs] at hm
    by_cases he : e = .param p <;> simp [he] at hm

/-- **A freshly constructed estimator is unfitted**: if the summary says so, the fitted flag holds
`False` after every successful construction. -/
theorem fresh_not_fitted {V : Type} (tbl : Table N) (fa fn : N) (am : List N) (cls : N)
    (I : Interp N V) (args : N → V) (s : List (N × V))
    (h : (summarize tbl fa fn am cls).freshUnfitted = true)
    (hs : construct tbl I cls args = some s) : assocGet fa s = some (I.ofBool false) := by
  have hrel := Lem.absFrom_sound I args fa (ctorPrims tbl cls) 0 .absent [] s (by simp [AbsRel, assocGet]) hs
  change AbsRel I args fa (absOf fa (ctorPrims tbl cls)) s at hrel
  have habs : absOf fa (ctorPrims tbl cls) = .is (.lit false) := by
    simpa [summarize] using h
  rw [habs] at hrel
  simpa [AbsRel, evalExpr] using hrel

/-- **A guarded method on an unfitted estimator raises NotFittedError** -- not another error, not a
result -- for every oracle (which conditionals run, which reads of missing state would fail). -/
theorem guarded_method_unfitted_raises_NotFitted (tbl : Table N) (fa cls m : N) (es : List (Eff N))
    (_hes : inlineMethod tbl fa cls m = some es) (hg : guardScan es = true)
    (choice : Nat → Bool) (i : Nat) : runEffects false choice i es = .notFitted :=
  Lem.guardScan_sound choice es i hg

/-- the same, read off the summary: entry `j` of `guards` is `guarded` -/
theorem summary_guarded_raises_NotFitted (tbl : Table N) (fa fn : N) (am : List N) (cls : N) (j : Nat) (m : N)
    (hm : am[j]? = some m) (h : (summarize tbl fa fn am cls).guardOK j = true) :
    ∃ es, inlineMethod tbl fa cls m = some es ∧ ∀ choice i, runEffects false choice i es = .notFitted := by
  simp only [Summary.guardOK, summarize, List.getElem?_map, hm, Option.map_some, beq_iff_eq,
    Option.some.injEq] at h
  cases hes : inlineMethod tbl fa cls m with
  | none => simp [hes] at h
  | some es =>
    refine ⟨es, rfl, ?_⟩
    intro choice i
    apply Lem.guardScan_sound
    simp only [hes] at h
    by_cases ha : effAbstract es = true
    · simp [ha] at h
    · by_cases hg : guardScan es = true
      · exact hg
      · simp [ha, hg] at h

/-- **fit leaves every constructor parameter unchanged** when the table finds no assignment to a
parameter in anything `fit` runs: whatever values the assignments store and whatever else happens. -/
theorem fit_frame {V : Type} (tbl : Table N) (fa fn : N) (am : List N) (cls : N)
    (h : (summarize tbl fa fn am cls).fitFrameOK = true)
    (val : Nat → V) (hav : Nat → List (N × V) → List (N × V)) (i : Nat) (s : List (N × V)) :
    ∀ p ∈ ctorParams tbl cls,
      assocGet p (runFit val hav i ((inlineMethod tbl fa cls fn).getD []) s) = assocGet p s := by
  intro p hp
  simp only [Summary.fitFrameOK, summarize, Bool.and_eq_true, List.isEmpty_iff, List.filter_eq_nil_iff,
    Bool.not_eq_true', Bool.not_eq_true] at h
  apply Lem.runFit_frame
  · exact h.2
  · intro hmem
    have := h.1 p hp
    simp [hmem] at this

/-! ### non-vacuity: a three-class table (Base sets the fitted flag; Good forwards to it and stores its
arguments; Bad stores `x + 1`, stores `y` as `y_`, forgets `super().__init__()`, and assigns `x` in fit) -/

namespace Ex
/- names: 0 Base, 1 Good, 2 Bad, 10 x, 11 y, 12 y_, 20 _is_fitted, 21 fit, 22 predict, 23 check_is_fitted, 24 coef_ -/
def base : ClassEntry Nat :=
  { name := 0, external := false, extPositional := [], extKnown := false, extNames := [], mro := [0],
    init := some { params := [], varargs := false, body := [.assign 20 (.lit false) false] },
    methods := [{ name := 23, isProp := false, events := [.check false] }],
    classAttrs := [], getImpl := .inherit, setImpl := .inherit, hooks := false }
def good : ClassEntry Nat :=
  { name := 1, external := false, extPositional := [], extKnown := false, extNames := [], mro := [1, 0],
    init := some { params := [(10, true), (11, true)], varargs := false,
                   body := [.assign 10 (.param 10) false, .assign 11 (.param 11) false, .superCall none [] [] false false] },
    methods := [{ name := 21, isProp := false, events := [.use 10, .write 24, .write 20, .ret false true] },
                { name := 22, isProp := false, events := [.callSelf 23, .use 24, .ret false false] }],
    classAttrs := [], getImpl := .inherit, setImpl := .inherit, hooks := false }
def bad : ClassEntry Nat :=
  { name := 2, external := false, extPositional := [], extKnown := false, extNames := [], mro := [2, 0],
    init := some { params := [(10, true), (11, true)], varargs := false,
                   body := [.raiseIf false, .assign 10 (.derived 1) false, .assign 12 (.param 11) false] },
    methods := [{ name := 21, isProp := false, events := [.write 10, .write 20, .ret false true] },
                { name := 22, isProp := false, events := [.use 24, .callSelf 23, .ret false false] }],
    classAttrs := [], getImpl := .inherit, setImpl := .inherit, hooks := false }
def tbl : Table Nat := [base, good, bad]
end Ex

example : (summarize Ex.tbl 20 21 [22] 1).ctorOK = true ∧ (summarize Ex.tbl 20 21 [22] 1).freshUnfitted = true ∧
    (summarize Ex.tbl 20 21 [22] 1).guardOK 0 = true ∧ (summarize Ex.tbl 20 21 [22] 1).fitFrameOK = true := by decide
example : (summarize Ex.tbl 20 21 [22] 2).ctor = [.unknown, .missing] ∧ (summarize Ex.tbl 20 21 [22] 2).mayRaise = true ∧
    (summarize Ex.tbl 20 21 [22] 2).freshUnfitted = false ∧ (summarize Ex.tbl 20 21 [22] 2).guards = [.unguarded] ∧
    (summarize Ex.tbl 20 21 [22] 2).fitWrites = [10] := by decide

end SkVerif.C04
