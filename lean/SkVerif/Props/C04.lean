/-
C04  Every estimator obeys the scikit-learn protocol: parameters, clone, fitted state.

Part A  theorems over ANY class table (SkVerif/Model/Params.lean, Layer A).  The table of the real
        package is regenerated from the source on every check and its per-class `Summary` is
        re-established by the kernel (`decide +kernel`); these theorems say what a summary means.
Part B  theorems over ANY parameter tree (Layer B: get_params / set_params / clone / _check_names).

Only theorems + non-vacuity examples here; proofs of the lemmas are in Lemmas/Params*.lean.
-/
import SkVerif.Model.Params
import SkVerif.Spec.Params
import SkVerif.Lemmas.Params
import SkVerif.Lemmas.ParamsTree
import SkVerif.Lemmas.ParamsDeep
namespace SkVerif.C04
open SkVerif SkVerif.Params

variable {N : Type} [DecidableEq N]

/-! ## Part A : constructor contract, fitted-state guards, fit frame -/

/-- what `ctorOK` of a summary says about the primitive constructor trace -/
theorem ctorOK_unfold (tbl : Table N) (fa fn : N) (am : List N) (cls : N)
    (h : (summarize tbl fa fn am cls).ctorOK = true) :
    (∀ p ∈ ctorParams tbl cls, pstatus (ctorPrims tbl cls) p = .stored) ∧ mayRaise (ctorPrims tbl cls) = false := by
  simp only [Summary.ctorOK, summarize, Bool.and_eq_true, List.all_eq_true, List.mem_map,
    Bool.not_eq_true', beq_iff_eq, forall_exists_index, and_imp, forall_apply_eq_imp_iff₂] at h
  exact ⟨h.1.1.1, h.1.1.2⟩

/-- **get_params returns exactly what was passed.**  For a class whose regenerated summary is `ctorOK`,
construction never raises and afterwards every constructor parameter is stored under its own name
holding the argument itself -- for every argument tuple, every value of the constants / derived
expressions in the constructor chain and every outcome of its branches. -/
theorem wf_getParams_eq_args {V : Type} (tbl : Table N) (fa fn : N) (am : List N) (cls : N)
    (I : Interp N V) (args : N → V) (h : (summarize tbl fa fn am cls).ctorOK = true) :
    ∃ s, construct tbl I cls args = some s ∧ ∀ p ∈ ctorParams tbl cls, assocGet p s = some (args p) := by
  obtain ⟨hst, hnr⟩ := ctorOK_unfold tbl fa fn am cls h
  obtain ⟨s, hs⟩ := Lem.runPrims_total I args (ctorPrims tbl cls) 0 [] hnr
  refine ⟨s, hs, ?_⟩
  intro p hp
  have hrel := Lem.absFrom_sound I args p (ctorPrims tbl cls) 0 .absent [] s (by simp [AbsRel, assocGet]) hs
  have hstored := hst p hp
  unfold pstatus at hstored
  change AbsRel I args p (absOf p (ctorPrims tbl cls)) s at hrel
  cases habs : absOf p (ctorPrims tbl cls) with
  | absent => simp [habs] at hstored
  | unknown => simp [habs] at hstored
  | is e =>
    rw [habs] at hstored hrel
    by_cases he : e = .param p
    · subst he
      simpa [AbsRel, evalExpr] using hrel
    · simp [he] at hstored

/-- A parameter the table reports `missing` is really absent after construction (so `get_params`,
which does `getattr(self, name)`, raises AttributeError): the detector for `self.x_ = x`. -/
theorem ctor_missing_param_absent {V : Type} (tbl : Table N) (cls : N) (I : Interp N V) (args : N → V)
    (p : N) (s : List (N × V)) (hm : pstatus (ctorPrims tbl cls) p = .missing)
    (hs : construct tbl I cls args = some s) : assocGet p s = none := by
  have hrel := Lem.absFrom_sound I args p (ctorPrims tbl cls) 0 .absent [] s (by simp [AbsRel, assocGet]) hs
  change AbsRel I args p (absOf p (ctorPrims tbl cls)) s at hrel
  unfold pstatus at hm
  cases habs : absOf p (ctorPrims tbl cls) with
  | absent => rw [habs] at hrel; simpa [AbsRel] using hrel
  | unknown => simp [habs] at hm
  | is e =>
    rw [habs] at hm
    by_cases he : e = .param p <;> simp [he] at hm

/-- **A freshly constructed estimator is unfitted**: if the summary says so, the fitted flag holds
`False` after every successful construction. -/
theorem fresh_not_fitted {V : Type} (tbl : Table N) (fa fn : N) (am : List N) (cls : N)
    (I : Interp N V) (args : N → V) (s : List (N × V))
    (h : (summarize tbl fa fn am cls).freshUnfitted = true)
    (hs : construct tbl I cls args = some s) : assocGet fa s = some (I.ofBool false) := by
  have hrel := Lem.absFrom_sound I args fa (ctorPrims tbl cls) 0 .absent [] s (by simp [AbsRel, assocGet]) hs
  change AbsRel I args fa (absOf fa (ctorPrims tbl cls)) s at hrel
  have habs : absOf fa (ctorPrims tbl cls) = .is (.lit false) := by
    simpa [summarize] using h
  rw [habs] at hrel
  simpa [AbsRel, evalExpr] using hrel

/-- **A guarded method on an unfitted estimator raises NotFittedError** -- not another error, not a
result -- for every oracle (which conditionals run, which reads of missing state would fail). -/
theorem guarded_method_unfitted_raises_NotFitted (tbl : Table N) (fa cls m : N) (es : List (Eff N))
    (_hes : inlineMethod tbl fa cls m = some es) (hg : guardScan es = true)
    (choice : Nat → Bool) (i : Nat) : runEffects false choice i es = .notFitted :=
  Lem.guardScan_sound choice es i hg

/-- the same, read off the summary: entry `j` of `guards` is `guarded` -/
theorem summary_guarded_raises_NotFitted (tbl : Table N) (fa fn : N) (am : List N) (cls : N) (j : Nat) (m : N)
    (hm : am[j]? = some m) (h : (summarize tbl fa fn am cls).guardOK j = true) :
    ∃ es, inlineMethod tbl fa cls m = some es ∧ ∀ choice i, runEffects false choice i es = .notFitted := by
  simp only [Summary.guardOK, summarize, List.getElem?_map, hm, Option.map_some, beq_iff_eq,
    Option.some.injEq] at h
  cases hes : inlineMethod tbl fa cls m with
  | none => simp [hes] at h
  | some es =>
    refine ⟨es, rfl, ?_⟩
    intro choice i
    apply Lem.guardScan_sound
    simp only [hes] at h
    by_cases ha : effAbstract es = true
    · simp [ha] at h
    · by_cases hg : guardScan es = true
      · exact hg
      · simp [ha, hg] at h

/-- **fit leaves every constructor parameter unchanged** when the table finds no assignment to a
parameter in anything `fit` runs: whatever values the assignments store and whatever else happens. -/
theorem fit_frame {V : Type} (tbl : Table N) (fa fn : N) (am : List N) (cls : N)
    (h : (summarize tbl fa fn am cls).fitFrameOK = true)
    (val : Nat → V) (hav : Nat → List (N × V) → List (N × V)) (i : Nat) (s : List (N × V)) :
    ∀ p ∈ ctorParams tbl cls,
      assocGet p (runFit val hav i ((inlineMethod tbl fa cls fn).getD []) s) = assocGet p s := by
  intro p hp
  simp only [Summary.fitFrameOK, summarize, Bool.and_eq_true, List.isEmpty_iff, List.filter_eq_nil_iff,
    Bool.not_eq_true', Bool.not_eq_true] at h
  apply Lem.runFit_frame
  · exact h.2
  · intro hmem
    have := h.1 p hp
    simp [hmem] at this

/-! ### non-vacuity: a three-class table (Base sets the fitted flag; Good forwards to it and stores its
arguments; Bad stores `x + 1`, stores `y` as `y_`, forgets `super().__init__()`, and assigns `x` in fit) -/

namespace Ex
/- names: 0 Base, 1 Good, 2 Bad, 10 x, 11 y, 12 y_, 20 _is_fitted, 21 fit, 22 predict, 23 check_is_fitted, 24 coef_ -/
def base : ClassEntry Nat :=
  { name := 0, external := false, extPositional := [], extKnown := false, extNames := [], mro := [0],
    init := some { params := [], varargs := false, body := [.assign 20 (.lit false) false] },
    methods := [{ name := 23, isProp := false, events := [.check false] }],
    classAttrs := [], getImpl := .inherit, setImpl := .inherit, hooks := false }
def good : ClassEntry Nat :=
  { name := 1, external := false, extPositional := [], extKnown := false, extNames := [], mro := [1, 0],
    init := some { params := [(10, true), (11, true)], varargs := false,
                   body := [.assign 10 (.param 10) false, .assign 11 (.param 11) false, .superCall none [] [] false false] },
    methods := [{ name := 21, isProp := false, events := [.use 10, .write 24, .write 20, .ret false true] },
                { name := 22, isProp := false, events := [.callSelf 23, .use 24, .ret false false] }],
    classAttrs := [], getImpl := .inherit, setImpl := .inherit, hooks := false }
def bad : ClassEntry Nat :=
  { name := 2, external := false, extPositional := [], extKnown := false, extNames := [], mro := [2, 0],
    init := some { params := [(10, true), (11, true)], varargs := false,
                   body := [.raiseIf false, .assign 10 (.derived 1) false, .assign 12 (.param 11) false] },
    methods := [{ name := 21, isProp := false, events := [.write 10, .write 20, .ret false true] },
                { name := 22, isProp := false, events := [.use 24, .callSelf 23, .ret false false] }],
    classAttrs := [], getImpl := .inherit, setImpl := .inherit, hooks := false }
def tbl : Table Nat := [base, good, bad]
end Ex

example : (summarize Ex.tbl 20 21 [22] 1).ctorOK = true ∧ (summarize Ex.tbl 20 21 [22] 1).freshUnfitted = true ∧
    (summarize Ex.tbl 20 21 [22] 1).guardOK 0 = true ∧ (summarize Ex.tbl 20 21 [22] 1).fitFrameOK = true := by decide
example : (summarize Ex.tbl 20 21 [22] 2).ctor = [.unknown, .missing] ∧ (summarize Ex.tbl 20 21 [22] 2).mayRaise = true ∧
    (summarize Ex.tbl 20 21 [22] 2).freshUnfitted = false ∧ (summarize Ex.tbl 20 21 [22] 2).guards = [.unguarded] ∧
    (summarize Ex.tbl 20 21 [22] 2).fitWrites = [10] := by decide

/-! ## Part B : parameter trees (get_params / set_params / clone / _check_names / fitted flag)

`Val.est id cls impl fitted ps` : an estimator with parameters `ps`; `impl = .plain` is sklearn's
`BaseEstimator` protocol, `impl = .viaMeta attr store` sktime's `_HeterogenousMetaEstimator` protocol with
the named components held in parameter `store`.  Keys `a__b__c` are paths `[a,b,c]`.  Hypotheses
`ps.keys.Nodup` hold for every real estimator (the names of a signature are distinct). -/

/-- **get_params returns what is stored**: the shallow result has exactly one entry per parameter, holding
the stored value (with `wf_getParams_eq_args`: the value that was passed). -/
theorem getParams_shallow_returns_params (i : Nat) (c : N) (impl : Impl N) (f : Bool) (ps : PList N) (k : N)
    (hk : ps.keys.Nodup) :
    dictGet [k] (getVal false (.est i c impl f ps)) = ps.lookup k := by
  rw [Tree.getVal_shallow, Tree.dictGet_getPList_shallow, Tree.lookupLast_eq_lookup k ps hk]

/-- ... and the deep result still has every parameter under its own name -/
theorem getParams_deep_has_params (i : Nat) (c : N) (f : Bool) (ps : PList N) (k : N) (hk : ps.keys.Nodup) :
    dictGet [k] (getVal true (.est i c .plain f ps)) = ps.lookup k := by
  simpa [getVal] using Tree.dictGet_getPList_deep_bare k ps hk

/-- **nested read** `a__q` of a composite = `q` of the component stored in parameter `a` -/
theorem nested_get_reads_component (i : Nat) (c : N) (f : Bool) (ps : PList N) (a : N) (q : Path N)
    (ci : Nat) (cc : N) (cimpl : Impl N) (cf : Bool) (cps : PList N)
    (hk : ps.keys.Nodup) (hq : q ≠ []) (hl : ps.lookup a = some (.est ci cc cimpl cf cps)) :
    dictGet (a :: q) (getVal true (.est i c .plain f ps)) = dictGet q (getVal true (.est ci cc cimpl cf cps)) :=
  Tree.nested_get_param i c f ps a q ci cc cimpl cf cps hk hq hl

/-- **nested read through a named component** of a pipeline / ensemble / multiplexer / column ensemble -/
theorem nested_get_reads_named_component (i : Nat) (c : N) (f : Bool) (ps : PList N) (attr store : N)
    (items : PList N) (n : N) (q : Path N) (ci : Nat) (cc : N) (cimpl : Impl N) (cf : Bool) (cps : PList N)
    (hk : ps.keys.Nodup) (hi : items.keys.Nodup) (hq : q ≠ []) (hn : n ∉ ps.keys)
    (hs : ps.lookup store = some (.named items)) (hl : items.lookup n = some (.est ci cc cimpl cf cps)) :
    dictGet (n :: q) (getVal true (.est i c (.viaMeta attr store) f ps))
      = dictGet q (getVal true (.est ci cc cimpl cf cps)) :=
  Tree.nested_get_component i c f ps attr store items n q ci cc cimpl cf cps hk hi hq hn hs hl

/-- a whole component is readable under its name -/
theorem component_readable_by_name (i : Nat) (c : N) (f : Bool) (ps : PList N) (attr store : N) (items : PList N)
    (n : N) (v : Val N) (hk : ps.keys.Nodup) (hi : items.keys.Nodup) (hn : n ∉ ps.keys)
    (hs : ps.lookup store = some (.named items)) (hl : items.lookup n = some v) :
    dictGet [n] (getVal true (.est i c (.viaMeta attr store) f ps)) = some v :=
  Tree.get_component_by_name i c f ps attr store items n v hk hi hn hs hl

/-- **set_params(\*\*get_params(deep=False)) = identity** (plain estimators, any fuel ≥ 1) -/
theorem wf_setParams_getParams_id (fuel i : Nat) (c : N) (f : Bool) (ps : PList N) (hk : ps.keys.Nodup) :
    setVal (fuel + 1) (.est i c .plain f ps) (getVal false (.est i c .plain f ps)) = .ok (.est i c .plain f ps) :=
  Tree.set_get_roundtrip_plain fuel i c f ps hk

/-- the same for heterogeneous meta-estimators whose component names clash with no parameter name -/
theorem wf_setParams_getParams_id_meta (fuel i : Nat) (c : N) (f : Bool) (ps : PList N) (attr : N) (items : PList N)
    (hk : ps.keys.Nodup) (hs : ps.lookup attr = some (.named items)) (hclash : ∀ n ∈ items.keys, n ∉ ps.keys) :
    setVal (fuel + 1) (.est i c (.viaMeta attr attr) f ps) (getVal false (.est i c (.viaMeta attr attr) f ps))
      = .ok (.est i c (.viaMeta attr attr) f ps) :=
  Tree.set_get_roundtrip_meta fuel i c f ps attr items hk hs hclash

/-- **set_params(\*\*get_params()) = identity at every nesting depth** (`deep=True`, the default), for every
tree built the way real estimators are (`wfTree`: distinct parameter names, component lists of pairs with
distinct names that clash with no parameter name, recursively) and any fuel ≥ its depth -/
theorem wf_setParams_getParams_id_deep (fuel i : Nat) (c : N) (impl : Impl N) (f : Bool) (ps : PList N)
    (hwf : wfTree (.est i c impl f ps) = true) (hfuel : depthVal (.est i c impl f ps) ≤ fuel) :
    setVal fuel (.est i c impl f ps) (getVal true (.est i c impl f ps)) = .ok (.est i c impl f ps) :=
  Deep.set_get_roundtrip_deep fuel i c impl f ps hwf hfuel

/-- **a bare key writes that parameter and only it** -/
theorem setParams_bare_writes_only_that_param (fuel i : Nat) (c : N) (f : Bool) (ps : PList N) (k : N) (v : Val N)
    (hk : ps.keys.Nodup) (hin : k ∈ ps.keys) :
    setVal (fuel + 1) (.est i c .plain f ps) [([k], v)] = .ok (.est i c .plain f (ps.replace k v)) ∧
    (ps.replace k v).lookup k = some v ∧ (∀ k', k' ≠ k → (ps.replace k v).lookup k' = ps.lookup k') ∧
    (ps.replace k v).keys = ps.keys :=
  ⟨Tree.set_bare_plain fuel i c f ps k v hk hin, Tree.lookup_replace_same ps k v hin,
   fun k' h => Tree.lookup_replace_ne ps k k' v h, Tree.keys_replace ps k v⟩

/-- **unknown parameter names are rejected** (ValueError), also as a prefix `unknown__x` -/
theorem setParams_unknown_rejected (fuel i : Nat) (c : N) (f : Bool) (ps : PList N) (k : N) (rest : Path N) (v : Val N)
    (hnot : k ∉ ps.keys) :
    setVal (fuel + 1) (.est i c .plain f ps) [(k :: rest, v)] = .error .value :=
  Tree.set_unknown_rejected_plain fuel i c f ps k rest v hnot

theorem setParams_unknown_rejected_meta (fuel i : Nat) (c : N) (f : Bool) (ps : PList N) (attr store : N)
    (k : N) (rest : Path N) (v : Val N)
    (hnot : k ∉ ps.keys) (hattr : k ≠ attr) (hcomp : k ∉ componentNames store ps) :
    setVal (fuel + 1) (.est i c (.viaMeta attr store) f ps) [(k :: rest, v)] = .error .value :=
  Tree.set_unknown_rejected_meta fuel i c f ps attr store k rest v hnot hattr hcomp

/-- **nested write** `a__q = v`: the component stored in parameter `a` receives `q = v`, the composite
changes in parameter `a` only (`PList.replace`), an error inside the component is the error of the call -/
theorem nested_set_writes_component (fuel i : Nat) (c : N) (f : Bool) (ps : PList N) (a : N) (q : Path N) (v : Val N)
    (comp : Val N) (hk : ps.keys.Nodup) (hq : q ≠ []) (hl : ps.lookup a = some comp) :
    setVal (fuel + 1) (.est i c .plain f ps) [(a :: q, v)]
      = (setVal fuel comp [(q, v)]).map (fun comp' => .est i c .plain f (ps.replace a comp')) :=
  Tree.nested_set_param fuel i c f ps a q v comp hk hq hl

/-- **nested write through a named component**: only that component of the list changes -/
theorem nested_set_writes_named_component (fuel i : Nat) (c : N) (f : Bool) (ps : PList N) (attr store : N)
    (items : PList N) (n : N) (q : Path N) (v : Val N) (comp : Val N)
    (hk : ps.keys.Nodup) (hi : items.keys.Nodup) (hq : q ≠ []) (hn : n ∉ ps.keys) (hattr : n ≠ attr)
    (hs : ps.lookup store = some (.named items)) (hl : items.lookup n = some comp) :
    setVal (fuel + 1) (.est i c (.viaMeta attr store) f ps) [(n :: q, v)]
      = (setVal fuel comp [(q, v)]).map
          (fun comp' => .est i c (.viaMeta attr store) f (ps.replace store (.named (items.replace n comp')))) :=
  Tree.nested_set_component fuel i c f ps attr store items n q v comp hk hi hq hn hattr hs hl

/-- **whole components can be replaced by name** -/
theorem replace_component_by_name (fuel i : Nat) (c : N) (f : Bool) (ps : PList N) (attr store : N) (items : PList N)
    (n : N) (new : Val N) (hk : ps.keys.Nodup) (hattr : n ≠ attr)
    (hs : ps.lookup store = some (.named items)) (hin : n ∈ items.keys) :
    setVal (fuel + 1) (.est i c (.viaMeta attr store) f ps) [([n], new)]
      = .ok (.est i c (.viaMeta attr store) f (ps.replace store (.named (items.replace n new)))) :=
  Tree.replace_component fuel i c f ps attr store items n new hk hattr hs hin

/-- **replacing one member by name leaves every other member alone**: the call succeeds, every parameter other than
the member list is untouched, the list keeps the same names in the same order (so no member is lost and none moves
to another position), the new value reads back under `n`, and every other name -- whether it holds an estimator or a
placeholder such as `'drop'` (an atom) -- still reads exactly what it held before. -/
theorem replace_component_leaves_others (fuel i : Nat) (c : N) (f : Bool) (ps : PList N) (attr store : N)
    (items : PList N) (n : N) (new : Val N) (hk : ps.keys.Nodup) (hi : items.keys.Nodup) (hattr : n ≠ attr)
    (hclash : ∀ m ∈ items.keys, m ∉ ps.keys)
    (hs : ps.lookup store = some (.named items)) (hin : n ∈ items.keys) :
    ∃ ps', setVal (fuel + 1) (.est i c (.viaMeta attr store) f ps) [([n], new)]
          = .ok (.est i c (.viaMeta attr store) f ps') ∧
      ps'.keys = ps.keys ∧ (∀ p, p ≠ store → ps'.lookup p = ps.lookup p) ∧
      componentNames store ps' = items.keys ∧
      dictGet [n] (getVal true (.est i c (.viaMeta attr store) f ps')) = some new ∧
      ∀ m w, m ≠ n → items.lookup m = some w →
        dictGet [m] (getVal true (.est i c (.viaMeta attr store) f ps')) = some w := by
  have hstore : store ∈ ps.keys := Tree.mem_keys_of_lookup ps hs
  have hs' : (ps.replace store (.named (items.replace n new))).lookup store = some (.named (items.replace n new)) :=
    Tree.lookup_replace_same ps store _ hstore
  have hk' : (ps.replace store (.named (items.replace n new))).keys.Nodup := by rw [Tree.keys_replace]; exact hk
  have hi' : (items.replace n new).keys.Nodup := by rw [Tree.keys_replace]; exact hi
  refine ⟨_, Tree.replace_component fuel i c f ps attr store items n new hk hattr hs hin, Tree.keys_replace _ _ _,
    fun p hp => Tree.lookup_replace_ne ps store p _ hp, ?_, ?_, ?_⟩
  · rw [Tree.componentNames_of_lookup store _ _ hs', Tree.keys_replace]
  · exact Tree.get_component_by_name i c f _ attr store _ n new hk' hi'
      (by rw [Tree.keys_replace]; exact hclash n hin) hs' (Tree.lookup_replace_same items n new hin)
  · intro m w hne hl
    have hm : m ∈ items.keys := Tree.mem_keys_of_lookup items hl
    exact Tree.get_component_by_name i c f _ attr store _ m w hk' hi'
      (by rw [Tree.keys_replace]; exact hclash m hm) hs'
      (by rw [Tree.lookup_replace_ne items n m new hne]; exact hl)

/-- **order of sktime `_set_params`** (1 → 2): the whole list is installed first, then the component of the
NEW list is replaced by name -/
theorem setParams_order_list_then_component (fuel i : Nat) (c : N) (f : Bool) (ps : PList N) (attr : N)
    (items' : PList N) (n : N) (new : Val N)
    (hk : ps.keys.Nodup) (hin : attr ∈ ps.keys) (hn : n ∈ items'.keys) (hne : n ≠ attr) :
    setVal (fuel + 1) (.est i c (.viaMeta attr attr) f ps) [([attr], .named items'), ([n], new)]
      = .ok (.est i c (.viaMeta attr attr) f (ps.replace attr (.named (items'.replace n new)))) :=
  Tree.set_order_list_then_component fuel i c f ps attr items' n new hk hin hn hne

/-- **order of sklearn `set_params`**: a bare key and a nested key with the same prefix in one call: the
nested key is applied to the NEW value -/
theorem setParams_order_bare_then_nested (fuel i : Nat) (c : N) (f : Bool) (ps : PList N) (a : N) (new : Val N)
    (q : Path N) (v : Val N) (hk : ps.keys.Nodup) (hin : a ∈ ps.keys) (hq : q ≠ []) :
    setVal (fuel + 1) (.est i c .plain f ps) [([a], new), (a :: q, v)]
      = (setVal fuel new [(q, v)]).map (fun new' => .est i c .plain f (ps.replace a new')) :=
  Tree.set_bare_then_nested_same_prefix fuel i c f ps a new q v hk hin hq

/-- **clone reproduces an estimator with equal parameters** (the trees agree once fitted flags are erased) -/
theorem wf_clone_params_eq (v : Val N) : eraseFitted (cloneVal v) = eraseFitted v := Tree.clone_params_eq v

/-- **... and nothing in a clone is fitted** -/
theorem clone_unfitted (v : Val N) : anyFitted (cloneVal v) = false := Tree.clone_unfitted v

/-- a clone answers `get_params` with the same keys -/
theorem clone_same_keys (v : Val N) (deep : Bool) :
    (getVal deep (cloneVal v)).map (·.1) = (getVal deep v).map (·.1) := Tree.clone_getParams_keys v deep

/-- **`_check_names`** rejects duplicate names, names that are constructor arguments, names containing `__` … -/
theorem checkNames_rejects (dunder : N → Bool) (names params : List N) :
    (¬ names.Nodup → checkNames dunder names params = .error .value) ∧
    (∀ n, n ∈ names → n ∈ params → checkNames dunder names params = .error .value) ∧
    (∀ n, n ∈ names → dunder n = true → checkNames dunder names params = .error .value) :=
  ⟨Tree.checkNames_rejects_duplicates dunder names params,
   fun n h1 h2 => Tree.checkNames_rejects_param_clash dunder names params n h1 h2,
   fun n h1 h2 => Tree.checkNames_rejects_dunder dunder names params n h1 h2⟩

/-- … and accepts everything else -/
theorem checkNames_accepts (dunder : N → Bool) (names params : List N)
    (h1 : names.Nodup) (h2 : ∀ n ∈ names, n ∉ params) (h3 : ∀ n ∈ names, dunder n = false) :
    checkNames dunder names params = .ok () := Tree.checkNames_accepts dunder names params h1 h2 h3

/-- **fit returns the estimator itself, sets is_fitted, leaves every parameter unchanged** (tree model; the
frame condition for real classes is `fit_frame` + the regenerated FitWrites table) -/
theorem fit_returns_self_sets_fitted (i : Nat) (c : N) (impl : Impl N) (f : Bool) (ps : PList N) :
    fitVal (.est i c impl f ps) = .est i c impl true ps ∧
    (fitVal (.est i c impl f ps)).isFitted = true ∧
    getVal true (fitVal (.est i c impl f ps)) = getVal true (.est i c impl f ps) := by
  refine ⟨rfl, rfl, ?_⟩
  cases impl <;> simp [fitVal, getVal]

omit [DecidableEq N] in
/-- **a fresh or cloned estimator raises NotFittedError from a guarded method, also a clone of a fitted one** -/
theorem apply_unfitted_raises (i : Nat) (c : N) (impl : Impl N) (f : Bool) (ps : PList N) :
    applyGuarded (.est i c impl false ps) = .error .notFitted ∧
    applyGuarded (cloneVal (fitVal (.est i c impl f ps))) = .error .notFitted ∧
    applyGuarded (fitVal (.est i c impl f ps)) = .ok () := by
  refine ⟨rfl, ?_, rfl⟩
  simp [fitVal, cloneVal, applyGuarded]

/-! ### non-vacuity: a pipeline `steps=[("t", Detrender(forecaster=Naive(sp=1))), ("f", Naive(sp=2))]`
(names: 1 sp, 2 forecaster, 3 steps, 4 "t", 5 "f", 9 unknown; classes 10 Naive, 11 Detrender, 12 Pipe) -/
namespace ExB
def naive (id sp : Nat) : Val Nat := .est id 10 .plain false (.cons 1 (.atom sp) .nil)
def detr : Val Nat := .est 2 11 .plain true (.cons 2 (naive 3 1) .nil)
def pipe : Val Nat :=
  .est 1 12 (.viaMeta 3 3) false (.cons 3 (.named (.cons 4 detr (.cons 5 (naive 4 2) .nil))) .nil)
def dropEns : Val Nat :=
  .est 1 12 (.viaMeta 3 3) false
    (.cons 3 (.named (.cons 6 (.atom 900) (.cons 4 (naive 3 1) (.cons 5 (naive 4 2) .nil)))) .nil)
def atomOf : Option (Val Nat) → Option Nat
  | some (.atom i) => some i
  | _ => none
def errOf : Except Err (Val Nat) → Option Err
  | .error e => some e
  | .ok _ => none
end ExB

section
open ExB
set_option linter.unusedSimpArgs false
local macro "evalTree" : tactic =>
  `(tactic| simp [pipe, dropEns, detr, naive, atomOf, errOf, getVal, getPList, nestedOf, compsOfPList, compsOfVal, itemsTop,
      itemsNested, pre, dictGet, setVal, dedupKw, metaPre, metaStep1, metaStep2, componentNames, replaceComponent,
      invalidKey, setBare, groupOf, isBare, isCompKey, PList.lookup, PList.lookupLast, PList.keys, PList.replace,
      PList.mapM, PList.mapLastM, cloneVal, clonePList, anyFitted, anyFittedP, checkNames, hasDup])

example : (getVal true pipe).map (·.1) = [[3], [4], [5], [4, 2, 1], [4, 2], [5, 1]] := by evalTree
example : atomOf (dictGet [4, 2, 1] (getVal true pipe)) = some 1 := by evalTree
example : (match setVal 9 pipe [([4, 2, 1], .atom 7)] with
    | .ok v => atomOf (dictGet [4, 2, 1] (getVal true v)) = some 7 ∧ atomOf (dictGet [5, 1] (getVal true v)) = some 2
    | .error _ => False) := by evalTree
example : errOf (setVal 9 pipe [([9], .atom 7)]) = some .value := by evalTree
/- a column ensemble `estimators=[("s", 'drop'), ("t", Naive(sp=1)), ("f", Naive(sp=2))]` (6 "s", atom 900 = 'drop'):
the placeholder is listed under its name, replacing "t" keeps the three names in order and 'drop' under "s",
and the placeholder itself can be replaced by name -/
example : (getVal true dropEns).map (·.1) = [[3], [6], [4], [5], [4, 1], [5, 1]] ∧
    atomOf (dictGet [6] (getVal true dropEns)) = some 900 := by evalTree
example : (match setVal 9 dropEns [([4], naive 7 5)] with
    | .ok v => (getVal true v).map (·.1) = [[3], [6], [4], [5], [4, 1], [5, 1]] ∧
        atomOf (dictGet [6] (getVal true v)) = some 900 ∧ atomOf (dictGet [4, 1] (getVal true v)) = some 5 ∧
        atomOf (dictGet [5, 1] (getVal true v)) = some 2
    | .error _ => False) := by evalTree
example : (match setVal 9 dropEns [([6], naive 7 5)] with
    | .ok v => (getVal true v).map (·.1) = [[3], [6], [4], [5], [6, 1], [4, 1], [5, 1]]
    | .error _ => False) := by evalTree
example : errOf (setVal 9 pipe [([3, 9], .atom 7)]) = some .attr := by evalTree
example : anyFitted pipe = true ∧ anyFitted (cloneVal pipe) = false := by evalTree
example : wfTree pipe = true ∧ depthVal pipe = 4 := by
  simp [pipe, detr, naive, wfTree, wfP, depthVal, depthP, hasDup, PList.keys, PList.lookup]
example : checkNames (fun n => n == 99) [4, 5] [3] = .ok () ∧ checkNames (fun n => n == 99) [4, 4] [3] = .error .value ∧
    checkNames (fun n => n == 99) [3] [3] = .error .value ∧ checkNames (fun n => n == 99) [99] [3] = .error .value := by
  evalTree
end

end SkVerif.C04
