/-
C12  Applying an estimator is pure, reproducible and independent of scheduling.

Property text: "predict, predict_proba, transform and inverse_transform never modify the caller's
data and never change the estimator: repeating the call, or calling other apply-type methods in
between, returns the same result.  Fitting never modifies the caller's data either, and two
estimators with equal parameters (including random_state) fitted on equal data return equal results
whatever n_jobs is, as does a pickled and restored copy of a fitted estimator."

What is PROVED here (for the models; the tie to /repo is the correspondence of harness/corr/C12.py):
  * forecaster state machine (Model/Forecaster.lean, ANY core, both horizon mixins): `predict`
    changes nothing a later apply-type call can depend on except that it may store the horizon it
    was given; a `predict` with given arguments returns the same result after ANY interleaving of
    other `predict` calls; `update_predict` has the net effect "windows merged, cutoff restored";
    equal parameters + equal data + any two apply histories ⇒ equal results;
  * any estimator seen as a `Machine` (state, observation, apply): the ONE-STEP condition
    `WellBehaved` (writes to `self` inside an apply-type method are invisible to later calls) implies
    the statement for every history; the mutation "cache the result on self" is shown to break it;
  * a transformer machine (fit / transform / inverse_transform / predict / predict_proba as functions
    of the fitted state) with the same theorems;
  * `Parallel`: results placed by submission index do not depend on the completion order, for every
    permutation; collecting in completion order does.
What the functional models CANNOT exhibit and is therefore only OBSERVED on the real code and
compared with the model's prediction "nothing changes" (partial by nature): in-place mutation of the
caller's objects, thread interleavings, pickling.  How a call treats the caller's object is modelled
as an `Effect`; the table of sites that do not copy (`P12.effectOf`) is EMPTY since the fix commits
b0033b3 / c56874f / 6cfe0ff, so `args_preserved` holds at full strength for the model; the behaviour of the
ORIGINAL code is kept, labelled as such, in `original_code_hampel_mutated_caller`.
Only theorems + non-vacuity examples here.
-/
import SkVerif.Lemmas.C12
namespace SkVerif.C12
open SkVerif SkVerif.Fc SkVerif.P12 SkVerif.Par

-- =============================================================================================
-- forecaster state machine

/-- `predict(fh)` (any core, either mixin, fitted or not, valid horizon or not) leaves everything a
later apply-type call can depend on unchanged; the only thing it may do is store the horizon it was
given. -/
theorem apply_preserves_observation (core : Core) (mode : FhMode) (s : FState) (a : Option FhArg) :
    observe (predict core mode s a).1 = observe s ∧
    ((predict core mode s a).1.fh = s.fh ∨
      ∃ f, fhObjOf a = .ok (some f) ∧ (predict core mode s a).1.fh = some f) := by
  obtain ⟨fh', h, hor⟩ := L12.predict_fst core mode s a
  refine ⟨L12.predict_observe core mode s a, ?_⟩
  rw [h]
  exact hor

/-- … and the stored horizon does not influence a `predict` that is given its horizon: the result is
a function of the observation and the arguments. -/
theorem apply_result_function_of_observation (core : Core) (s s' : FState) (a : FhArg)
    (h : observe s = observe s') :
    (predict core .optional s (some a)).2 = (predict core .optional s' (some a)).2 :=
  L12.predict_snd_congr core s s' a h

/-- with the required-horizon mixin, and for a call without arguments, `predict` changes nothing at all -/
theorem apply_changes_nothing_required_or_default (core : Core) (mode : FhMode) (s : FState) (a : Option FhArg)
    (h : mode = .required ∨ a = none) : (predict core mode s a).1 = s := by
  rcases h with rfl | rfl
  · exact L12.predict_required_fst core s a
  · exact L12.predict_none_fst core mode s

/-- Repeating `predict` with the same arguments - after ANY interleaving of other `predict` calls
(with or without horizons, valid or raising) - returns the same result.  Holds for every call that
states its horizon, and for every call at all under the required-horizon mixin.
(`predict()` WITHOUT a horizon under the optional mixin means "the horizon given last", by design of
`_OptionalForecastingHorizonMixin._set_fh`; its effective argument is that horizon - see
`default_horizon_is_last_given`.) -/
theorem apply_idempotent_under_interleaving (core : Core) (mode : FhMode) (s : FState) (a : Option FhArg)
    (others : List (Option FhArg)) (h : mode = .required ∨ a.isSome = true) :
    (predict core mode (predicts core mode s others).1 a).2 = (predict core mode s a).2 := by
  rcases h with rfl | h
  · rw [L12.predicts_required_fst]
  · cases a with
    | none => simp at h
    | some x =>
      cases mode with
      | required => rw [L12.predicts_required_fst]
      | optional => exact L12.predict_snd_congr core _ _ x (L12.predicts_observe core .optional s others)

/-- the whole result sequence of an interleaving equals the results of the calls made in isolation -/
theorem interleaved_results_eq_isolated (core : Core) (s : FState) (as : List FhArg) :
    (predicts core .optional s (as.map some)).2 = as.map (fun a => (predict core .optional s (some a)).2) := by
  rw [L12.predicts_eq_runCalls]
  have := (L12.runCalls_spec (fcMachine core) (L12.fcMachine_wellBehaved core) s (as.map (fun a => ((), a)))).1
  rw [this, List.map_map]
  rfl

/-- the effective argument of `predict()`: after a successful `predict(fh)` a call without
arguments returns what `predict(fh)` returned (the state was not changed in between) -/
theorem default_horizon_is_last_given (core : Core) (s : FState) (a : FhArg) (f : FH.FH)
    (hfit : s.fitted = true) (hok : checkFhArg a = .ok f) :
    (predict core .optional (predict core .optional s (some a)).1 none).2 =
      (predict core .optional s (some a)).2 := by
  obtain ⟨fitted, y0, cutoff, fh0, wlen⟩ := s
  simp only at hfit
  subst hfit
  simp only [predict, fhObjOf, hok, Except.map, setFh, Bool.not_true, Bool.false_eq_true, ↓reduceIte]
  rw [L12.predictStored_fst]
  simp

/-- `update_predict(y, cv, update_params)`: (1) whatever happens, the forecaster's cutoff is where it
was; (2) when forecasts come back (update_params=False) the forecaster is EXACTLY as before except
that the training windows fed were merged into the remembered series (later values win): fitted flag,
stored horizon, fitted window length and cutoff are untouched. -/
theorem update_predict_net_effect (core : Core) (mode : FhMode) (s : FState) (y : Series) (cv : Option CvSpec) :
    (∀ up, (updatePredict core mode s y cv up).1.cutoff = s.cutoff) ∧
    (s.fitted = true → (∀ e, (updatePredict core mode s y cv false).2 ≠ .err e) →
      (updatePredict core mode s y cv false).1 =
        { s with y := (upWindows s y cv).foldl (fun acc w => Series.combineFirst (Series.iloc y w) acc) s.y }) :=
  ⟨fun up => Lem.updatePredict_cutoff core mode s y cv up,
   fun hfit hok => L12.updatePredict_net core mode s y cv hfit hok⟩

/-- The model is a function of (parameters, data): two forecasters with equal parameters (`core`,
`mode`) fitted on equal data return equal results for equal calls - whatever apply-type calls each
of them has served before. -/
theorem equal_params_equal_data_equal_result (core : Core) (y : Series) (fh : Option FhArg)
    (hist1 hist2 : List (Option FhArg)) (a : FhArg) :
    (predict core .optional (predicts core .optional (fit core .optional {} y fh).1 hist1).1 (some a)).2 =
    (predict core .optional (predicts core .optional (fit core .optional {} y fh).1 hist2).1 (some a)).2 := by
  rw [apply_idempotent_under_interleaving core .optional _ (some a) hist1 (Or.inr rfl),
      apply_idempotent_under_interleaving core .optional _ (some a) hist2 (Or.inr rfl)]

-- =============================================================================================
-- any estimator as a machine

/-- one-step purity ⇒ every result in every history is the result of that call in isolation, and the
observation never changes -/
theorem machine_results_determined_by_call {σ ω μ α ρ : Type} (M : Machine σ ω μ α ρ) (h : M.WellBehaved)
    (s : σ) (calls : List (μ × α)) :
    (M.runCalls s calls).2 = calls.map (fun c => (M.apply s c.1 c.2).2) ∧
    M.observe (M.runCalls s calls).1 = M.observe s :=
  L12.runCalls_spec M h s calls

theorem machine_apply_idempotent_under_interleaving {σ ω μ α ρ : Type} (M : Machine σ ω μ α ρ)
    (h : M.WellBehaved) (s : σ) (others : List (μ × α)) (m : μ) (a : α) :
    (M.apply (M.runCalls s others).1 m a).2 = (M.apply s m a).2 :=
  h.reads _ _ m a (L12.runCalls_spec M h s others).2

/-- the forecaster machine meets the one-step condition (this is what the static tie checks on the
source for every other estimator: apply-type methods write no attribute a later call reads) -/
theorem forecaster_machine_wellBehaved (core : Core) :
    (fcMachine core).WellBehaved ∧ (fcMachineReq core).WellBehaved :=
  ⟨L12.fcMachine_wellBehaved core, L12.fcMachineReq_wellBehaved core⟩

/-- the aimed mutation "cache the result on `self` inside `transform`" violates the one-step condition,
and the violation is visible: transform(1), transform(2) returns (1, 1) -/
theorem caching_machine_breaks_purity :
    ¬ (cachingMachine (fun (x : Nat) => x)).WellBehaved ∧
    ((cachingMachine (fun (x : Nat) => x)).runCalls none [((), 1), ((), 2)]).2 = [1, 1] := by
  refine ⟨fun h => ?_, by decide⟩
  have := (L12.runCalls_spec _ h none [((), 1), ((), 2)]).1
  revert this
  decide

-- =============================================================================================
-- transformer machine

/-- transform / inverse_transform / predict / predict_proba never change the estimator -/
theorem transformer_apply_preserves_state {P D σ α ρ : Type} (core : TCore P D σ α ρ) (s : TState P σ)
    (m : Method) (a : α) : (tstep core s (.call m a)).1 = s := by
  unfold tstep
  cases s.fitted with
  | none => rfl
  | some st => simp only; cases core.app st m a <;> rfl

theorem transformer_machine_wellBehaved {P D σ α ρ : Type} (core : TCore P D σ α ρ) :
    (tMachine core).WellBehaved where
  keeps s m a := transformer_apply_preserves_state core s m a
  reads s s' m a h := by
    have : s = s' := h
    subst this; rfl

/-- … so a call returns the same result after any interleaving of other apply-type calls -/
theorem transformer_apply_idempotent_under_interleaving {P D σ α ρ : Type} (core : TCore P D σ α ρ)
    (s : TState P σ) (others : List (Method × α)) (m : Method) (a : α) :
    (tstep core ((tMachine core).runCalls s others).1 (.call m a)).2 = (tstep core s (.call m a)).2 :=
  machine_apply_idempotent_under_interleaving (tMachine core) (transformer_machine_wellBehaved core) s others m a

/-- equal parameters (random_state included), equal data ⇒ equal results, whatever each copy served
before (n_jobs is not a parameter of the function computed: `parallel_result_independent_of_completion_order`) -/
theorem transformer_equal_params_equal_data_equal_result {P D σ α ρ : Type} (core : TCore P D σ α ρ)
    (p : P) (d : D) (hist1 hist2 : List (Method × α)) (m : Method) (a : α) :
    (tstep core ((tMachine core).runCalls (tstep core ⟨p, none⟩ (.fit d)).1 hist1).1 (.call m a)).2 =
    (tstep core ((tMachine core).runCalls (tstep core ⟨p, none⟩ (.fit d)).1 hist2).1 (.call m a)).2 := by
  rw [transformer_apply_idempotent_under_interleaving, transformer_apply_idempotent_under_interleaving]

-- =============================================================================================
-- scheduling

/-- `Parallel` with results written into slot = submission index: for EVERY completion order (every
permutation of the task numbers) the caller receives `[f t₀, f t₁, …]` -/
theorem parallel_result_independent_of_completion_order {α β : Type} (f : α → β) (tasks : List α)
    (order : List Nat) (hperm : order.Perm (List.range tasks.length)) :
    parallelMap f tasks order = some (tasks.map f) := by
  unfold parallelMap
  rw [L12.runSchedule_perm f tasks order hperm, L12.collect_map_some]

/-- hence any two schedules agree -/
theorem parallel_two_schedules_agree {α β : Type} (f : α → β) (tasks : List α) (o1 o2 : List Nat)
    (h1 : o1.Perm (List.range tasks.length)) (h2 : o2.Perm (List.range tasks.length)) :
    parallelMap f tasks o1 = parallelMap f tasks o2 := by
  rw [parallel_result_independent_of_completion_order f tasks o1 h1,
      parallel_result_independent_of_completion_order f tasks o2 h2]

/-- the aimed mutation "collect results in completion order" does depend on the schedule -/
theorem completion_order_collection_depends_on_schedule :
    collectInCompletionOrder (fun (x : Nat) => x) [10, 20] [1, 0] ≠
    collectInCompletionOrder (fun (x : Nat) => x) [10, 20] [0, 1] := by decide

-- =============================================================================================
-- the caller's object

/-- FULL STRENGTH: for every estimator, method and container the caller's object after the call is the
caller's object before the call (the table of in-place sites is empty since /repo commits b0033b3,
c56874f, 6cfe0ff; what makes this true of the CODE is the harness's snapshot comparison on every call) -/
theorem args_preserved {V : Type} (estimator method container : String) (arg : ArgSnap V) (result : V) :
    callerAfter (effectOf estimator method container) arg result = arg := rfl

/-- … for ALL the arguments of a call at once (`fit(y, X, fh)`, `predict(fh, X)`, `fit(X, y)`): whatever the
estimator, the method, the number of arguments, their containers and contents, and whatever the call returns,
every one of the caller's objects is afterwards what it was before -/
theorem all_args_preserved {V : Type} (estimator method : String) (args : List (String × ArgSnap V)) (result : V) :
    callerAfterAll estimator method args result = args := by
  unfold callerAfterAll
  induction args with
  | nil => rfl
  | cons a as ih => rw [List.map_cons, ih]; rfl

example : callerAfterAll "RecursiveTabularRegressionForecaster" "predict"
    [("fh", (⟨[1, 2], [], true⟩ : ArgSnap (List Int))), ("DataFrame", ⟨[7, 8], [5, 6], true⟩)] [3, 4] =
    [("fh", ⟨[1, 2], [], true⟩), ("DataFrame", ⟨[7, 8], [5, 6], true⟩)] := by decide

/-- the comparison over all arguments is not blind to the later ones: a site that works on the caller's object
through ANY ONE of the arguments (here: the table `tbl` marks container `c` as worked on in place, e.g. an
exogenous frame filled through a numpy view) leaves a list that differs from the one passed in, whenever the
value written differs from the value that was there -/
theorem in_place_site_on_any_argument_is_visible {V : Type} (tbl : String → Effect) (c : String)
    (pre post : List (String × ArgSnap V)) (arg : ArgSnap V) (result : V)
    (hc : tbl c = .returnsArgMutated ∨ tbl c = .writesResultIntoArg) (hne : result ≠ arg.values) :
    callerAfterAllWith tbl (pre ++ (c, arg) :: post) result ≠ pre ++ (c, arg) :: post := by
  intro h
  unfold callerAfterAllWith at h
  rw [List.map_append, List.map_cons] at h
  have hl : (pre.map (fun a => (a.1, callerAfter (tbl a.1) a.2 result))).length = pre.length := List.length_map _
  have h2 := (List.append_inj h hl).2
  rw [List.cons.injEq] at h2
  have h3 := h2.1
  simp only [Prod.mk.injEq, true_and] at h3
  rcases hc with hc | hc <;> rw [hc] at h3 <;> simp only [callerAfter] at h3 <;>
    exact hne (by have := congrArg ArgSnap.values h3; simpa using this)

/-- `HampelFilter.transform` on a Series: whatever the filter finds, the caller's series afterwards is
the series passed in -/
theorem hampel_caller_unchanged (cfg : ST.HampelCfg) (z r after : ST.Series)
    (h : hampelInPlace cfg z = .ok (r, after)) : after = z := by
  unfold hampelInPlace at h
  cases hh : ST.hampel cfg z with
  | error e => rw [hh] at h; cases h
  | ok x => rw [hh] at h; simp only [Except.map, Except.ok.injEq, Prod.mk.injEq] at h; exact h.2.symm

/-- HISTORICAL, about the ORIGINAL code (before fix b0033b3), not about /repo as it stands: there
`HampelFilter(window_length=3, n_sigma=3, k=1).transform(z)` with z = (1, 90, 2, 3, 4) returned
(1, NaN, 2, 3, 4) AND left the caller's series as (1, NaN, 2, 3, 4); the repaired code returns the same
value and leaves the caller's series alone -/
theorem original_code_hampel_mutated_caller :
    hampelInPlaceOriginal ⟨3, 3, 1⟩ [(0, some 1), (1, some 90), (2, some 2), (3, some 3), (4, some 4)] =
      .ok ([(0, some 1), (1, none), (2, some 2), (3, some 3), (4, some 4)],
           [(0, some 1), (1, none), (2, some 2), (3, some 3), (4, some 4)]) ∧
    effectOfOriginal "HampelFilter" "transform" "Series" = .returnsArgMutated ∧
    hampelInPlace ⟨3, 3, 1⟩ [(0, some 1), (1, some 90), (2, some 2), (3, some 3), (4, some 4)] =
      .ok ([(0, some 1), (1, none), (2, some 2), (3, some 3), (4, some 4)],
           [(0, some 1), (1, some 90), (2, some 2), (3, some 3), (4, some 4)]) := by
  refine ⟨by decide +kernel, by decide, by decide +kernel⟩

/-- an index replacement (what the ORIGINAL adapters' fit did; now a mutation) keeps values and labels -/
theorem replaces_index_keeps_data {V : Type} (arg : ArgSnap V) (result : V) :
    (callerAfter .replacesIndex arg result).values = arg.values ∧
    (callerAfter .replacesIndex arg result).labels = arg.labels := ⟨rfl, rfl⟩

-- =============================================================================================
-- non-vacuity

example : [2, 0, 1].Perm (List.range [7, 8, 9].length) := by decide
example : parallelMap (fun (x : Nat) => x + 1) [7, 8, 9] [2, 0, 1] = some [8, 9, 10] := by decide
example : parallelMap (fun (x : Nat) => x + 1) [7, 8, 9] [2, 0] = none := by decide   -- not a permutation: a slot stays empty
example : effectOf "BoxCoxTransformer" "transform" "Series" = .copies := by decide
example : (predict coreLast .optional ⟨true, [(0, some 1), (1, some 2)], some 1, none, 1⟩ (some ([1, 2], true))).1.fh
    = some ⟨[1, 2], true⟩ := by
  simp [predict, fhObjOf, checkFhArg, FH.checkFh, FH.mk, FH.checkValues, sortInts, isortBy, insertBy, setFh,
    predictStored, Except.map, bind, Except.bind, pure, Except.pure]
example : checkFhArg ([1, 2], true) = .ok ⟨[1, 2], true⟩ :=
  Lem.checkFhArg_sorted [1, 2] true (by decide) (by decide)

end SkVerif.C12
