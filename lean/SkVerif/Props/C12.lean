/- Property theorems for C12 (stub: not built yet). -/
namespace SkVerif.C12
end SkVerif.C12
