/- Property theorems for C07 (stub: not built yet). -/
namespace SkVerif.C07
end SkVerif.C07
