/-
C07  evaluate() reports what an honest per-fold fit, predict and score would give.

Property theorems about SkVerif/Model/Evaluate.lean (the code's fold loop with an abstract
forecaster machine `m`, an abstract metric and the C01 splitter model) against
SkVerif/Spec/Evaluate.lean (the honest per-fold computation).  Helper lemmas live in
SkVerif/Lemmas/Evaluate*.lean.  Everything is quantified over all series `y` (values of any type
`α`), exogenous data `X`, splitter configurations `cv`, strategies, forecaster machines (any state
type `σ`, operations may raise), metrics (any score type `β`) and fit parameters.

Hypotheses used:
* `CVValid y.length cv`  a valid splitter configuration in the sense of C01 (out-of-sample strictly
  increasing horizon, window/step ≥ 1, window + max(fh) ≤ n, …) with `start_with_window = True`;
* `InputOK y X`          distinct ordered time points, exogenous rows on the same time points;
* `resolveScoring … = .ok mt`, `mt.name = some nm`   the metric object `check_scoring` returns
  and its name (the score column is `test_<name>`);
* `FitResets m`          (refit only) `fit` does not depend on the forecaster's earlier state, so
  that refitting the same object is the same as fitting a fresh one.

FIXED FINDING (`evaluate:score-args-swapped`, /repo commit 0f68875): the code used to call
`scoring(y_pred, y_test)`.  The argument order is ONE definition of the model
(`Evaluate.applyMetric`); the row theorems are stated with `applyMetric μ`, and `score_arg_order`
proves, for every metric, that this is `μ y_true y_pred`, i.e. the rows are the honest rows.
-/
import SkVerif.Lemmas.EvaluateCols
namespace SkVerif.C07
open SkVerif SkVerif.Split SkVerif.Evaluate SkVerif.Evaluate.Spec SkVerif.Lem.Ev

variable {σ α ξ β : Type}

/-- the data of the folds the splitter yields on the series -/
def foldDatas (cv : CV) (y : Series α) (X : Option (Series ξ)) (fs : List Fold) : List (FoldData α ξ) :=
  fs.map (foldData y X (fhMin cv.fh))

/-! ### one row per split -/

/-- Whenever `evaluate` returns a table (any forecaster, metric, splitter, strategy), the splitter
split the series and the table has exactly one row per split. -/
theorem rows_eq_splits (m : Machine σ α ξ) (dflt : Metric α β) (st0 : σ) (cv : CV) (y : Series α)
    (X : Option (Series ξ)) (strategy : Strategy) (scoring : Scoring α β) (fp : Option Int) (rd : Bool)
    (tr : List (Call α ξ)) (t : Table α β)
    (h : evaluate m dflt st0 cv y X strategy scoring fp rd = (tr, .ok t)) :
    ∃ fs, cv.split y.length = .ok fs ∧ t.rows.length = fs.length := by
  obtain ⟨mt, nm, fs, _, _, _, _, _, hsp, hl, _, _⟩ := evaluate_ok_inv m dflt st0 cv y X strategy scoring fp rd tr t h
  exact ⟨fs, hsp, loop_length _ fs 0 st0 t.rows (by rw [hl])⟩

/-! ### each row is the honest fold -/

/-- Strategy refit: the result of `evaluate` (table or exception) is exactly the table of the
honest folds — for each split, a FRESH forecaster fitted on exactly the split's training window
(and exogenous training rows, horizon = the split's test time points, the given fit parameters),
asked to predict exactly the split's test time points; the row holds that forecast's score, the
window length, the forecaster's cutoff and (with `return_data`) the data.  The score is
`applyMetric μ y_true y_pred`, which `score_arg_order` shows to be `μ y_true y_pred`. -/
theorem row_eq_honest_fold_refit (m : Machine σ α ξ) (dflt : Metric α β) (st0 : σ) (cv : CV) (y : Series α)
    (X : Option (Series ξ)) (scoring : Scoring α β) (fp : Option Int) (rd : Bool) (mt : Metric α β) (nm : String)
    (fs : List Fold) (hcv : CVValid y.length cv) (hin : InputOK y X) (hr : FitResets m)
    (hm : resolveScoring dflt scoring = .ok mt) (hn : mt.name = some nm) (hsp : cv.split y.length = .ok fs) :
    (evaluate m dflt st0 cv y X .refit scoring fp rd).2 =
      tableOf nm (collect ((foldDatas cv y X fs).map
        (fun d => rowE m (applyMetric mt.fn) rd (honestRefit m st0 fp d)))) := by
  obtain ⟨_, _, he⟩ := evaluate_valid_eq m dflt st0 cv y X .refit scoring fp rd mt nm fs hcv hin (by decide) hm hn hsp
  rw [he]
  simp only
  rw [loopD_refit ⟨m, mt.fn, .refit, rd, fp, y, X, cv.fh⟩ st0 hr rfl]
  rfl

/-- Strategy update: the result of `evaluate` is exactly the table of the honest histories — row
`i` comes from a fresh forecaster fitted once on the first split's window and then, after
predicting each split, updated with exactly the next split's window, up to split `i`, whose test
time points it then predicts (`prefixes` = the histories: first `i+1` splits). -/
theorem row_eq_honest_fold_update (m : Machine σ α ξ) (dflt : Metric α β) (st0 : σ) (cv : CV) (y : Series α)
    (X : Option (Series ξ)) (scoring : Scoring α β) (fp : Option Int) (rd : Bool) (mt : Metric α β) (nm : String)
    (fs : List Fold) (hcv : CVValid y.length cv) (hin : InputOK y X)
    (hm : resolveScoring dflt scoring = .ok mt) (hn : mt.name = some nm) (hsp : cv.split y.length = .ok fs) :
    (evaluate m dflt st0 cv y X .update scoring fp rd).2 =
      tableOf nm (collect ((prefixes (foldDatas cv y X fs)).map
        (fun hist => rowE m (applyMetric mt.fn) rd (honestUpdate m st0 fp hist)))) := by
  obtain ⟨_, _, he⟩ := evaluate_valid_eq m dflt st0 cv y X .update scoring fp rd mt nm fs hcv hin (by decide) hm hn hsp
  rw [he]
  simp only
  rw [loopD_update ⟨m, mt.fn, .update, rd, fp, y, X, cv.fh⟩ st0 rfl]
  rfl

/-- the `i`-th history is the first `i+1` splits -/
theorem history_is_first_splits {γ : Type} (l : List γ) (i : Nat) (hi : i < l.length) :
    (prefixes l)[i]? = some (l.take (i + 1)) := prefixes_getElem? l i hi

/-- Row by row (refit): if `evaluate` returns a table, then for every split `i` the honest fold
succeeds and row `i` is its row. -/
theorem row_eq_honest_fold_refit_each (m : Machine σ α ξ) (dflt : Metric α β) (st0 : σ) (cv : CV) (y : Series α)
    (X : Option (Series ξ)) (scoring : Scoring α β) (fp : Option Int) (rd : Bool) (mt : Metric α β) (nm : String)
    (fs : List Fold) (hcv : CVValid y.length cv) (hin : InputOK y X) (hr : FitResets m)
    (hm : resolveScoring dflt scoring = .ok mt) (hn : mt.name = some nm) (hsp : cv.split y.length = .ok fs)
    (t : Table α β) (ht : (evaluate m dflt st0 cv y X .refit scoring fp rd).2 = .ok t)
    (i : Nat) (f : Fold) (hf : fs[i]? = some f) :
    ∃ h, honestRefit m st0 fp (foldData y X (fhMin cv.fh) f) = .ok h ∧
      t.rows[i]? = some (rowOf m (applyMetric mt.fn) rd h) := by
  rw [row_eq_honest_fold_refit m dflt st0 cv y X scoring fp rd mt nm fs hcv hin hr hm hn hsp] at ht
  cases hc : collect ((foldDatas cv y X fs).map (fun d => rowE m (applyMetric mt.fn) rd (honestRefit m st0 fp d))) with
  | error e => rw [hc] at ht; simp [tableOf] at ht
  | ok rows =>
    rw [hc] at ht
    simp only [tableOf] at ht
    split at ht
    · simp at ht
    · simp only [Except.ok.injEq] at ht
      subst ht
      obtain ⟨r, hr1, hr2⟩ := collect_ok_getElem? _ rows hc i
        (rowE m (applyMetric mt.fn) rd (honestRefit m st0 fp (foldData y X (fhMin cv.fh) f)))
        (by simp [foldDatas, hf])
      cases hh : honestRefit m st0 fp (foldData y X (fhMin cv.fh) f) with
      | error e => rw [hh] at hr1; simp [rowE] at hr1
      | ok h =>
        rw [hh] at hr1
        simp only [rowE, Except.ok.injEq] at hr1
        exact ⟨h, rfl, by rw [hr1]; exact hr2⟩

/-! ### the forecaster's prior state does not matter -/

/-- `evaluate` does not depend on what the forecaster handed in has seen before (a fresh
instance, one fitted earlier on any data, the same instance evaluated a moment ago): with a
forecaster whose `fit` resets it (`FitResets`), for BOTH strategies, every splitter, series and
metric, the result AND the calls received are the same from any two prior states — the first fold
always calls `fit`, never `update`.  Together with `row_eq_honest_fold_*` (whose right-hand sides
may thus be read with a FRESH clone as `st0`): the rows are the fresh-clone honest folds whatever
the prior state. -/
theorem evaluate_independent_of_prior_state (m : Machine σ α ξ) (hr : FitResets m) (dflt : Metric α β) (st0 st0' : σ)
    (cv : CV) (y : Series α) (X : Option (Series ξ)) (strategy : Strategy) (scoring : Scoring α β) (fp : Option Int)
    (rd : Bool) :
    evaluate m dflt st0 cv y X strategy scoring fp rd = evaluate m dflt st0' cv y X strategy scoring fp rd := by
  have key : ∀ (c : Ctx σ α ξ β) (fs : List Fold), c.m = m → loop c 0 st0 fs = loop c 0 st0' fs := by
    intro c fs hc
    exact loop_zero_indep c (hc ▸ hr) st0 st0' fs
  unfold evaluate
  split
  · rfl
  · split
    · rfl
    · split
      · rfl
      · split
        · rfl
        · split
          · rfl
          · split
            · rfl
            · rw [key]
              rfl

/-- the honest folds do not depend on the prior state either: a fresh clone may be used -/
theorem honest_folds_independent_of_prior_state (m : Machine σ α ξ) (hr : FitResets m) (st0 st0' : σ) (fp : Option Int) :
    (∀ d : FoldData α ξ, honestRefit m st0 fp d = honestRefit m st0' fp d) ∧
    (∀ hist : List (FoldData α ξ), honestUpdate m st0 fp hist = honestUpdate m st0' fp hist) := by
  refine ⟨?_, ?_⟩
  · intro d; simp only [honestRefit, hr st0 st0']
  · intro hist
    cases hist with
    | nil => rfl
    | cons d ds => simp only [honestUpdate, hr st0 st0']

/-! ### the metric's argument order -/

/-- The metric is called as `metric(y_true, y_pred)` — for EVERY metric function `μ` (symmetric or
not): the score `evaluate` puts in a row is `μ y_true y_pred`, and hence the rows of
`row_eq_honest_fold_refit` / `row_eq_honest_fold_update` are exactly the honest rows, score
included. -/
theorem score_arg_order (m : Machine σ α ξ) (μ : Series α → Series α → β) (rd : Bool) (h : Honest σ α) :
    applyMetric μ h.yTest h.yPred = μ h.yTest h.yPred ∧ rowOf m (applyMetric μ) rd h = honestRow m μ rd h ∧
    (∀ yTest yPred : Series α, applyMetric μ yTest yPred = μ yTest yPred) :=
  ⟨rfl, rfl, fun _ _ => rfl⟩

/-- a forecaster that forecasts the last value it was fitted on / updated with -/
def naive : Machine (Int × Int) Int Unit where
  fit _ y _ _ _ := .ok (match y.getLast? with | some e => (e.2, e.1) | none => (0, 0))
  update s y _ := .ok (match y.getLast? with | some e => (e.2, e.1) | none => s)
  predict s fh _ := .ok (s, fh.map (fun l => (l, s.1)))
  cutoff s := s.2

/-- the asymmetric metric `Σ (2·y_true − y_pred)` -/
def asym (a b : Series Int) : Int := ((a.map Prod.snd).zipWith (fun x y => 2 * x - y) (b.map Prod.snd)).sum

/-- The former counterexample, now a regression witness: series 1,2,3,4, expanding window
(initial 2, fh = 1), last-value forecaster, asymmetric metric `Σ(2·y_true − y_pred)`: `evaluate`
reports 4 and 5, exactly the honest folds' scores (the code before 0f68875 reported 1 and 2). -/
theorem score_arg_order_witness :
    (match (evaluate naive ⟨some "d", asym⟩ (0, 0) (.expanding [1] 2 1 true) [(0, 1), (1, 2), (2, 3), (3, 4)]
        (none : Option (Series Unit)) .refit (.some ⟨some "asym", asym⟩) none false).2 with
      | .ok t => t.rows.map (·.score)
      | .error _ => []) = [4, 5] ∧
    (foldDatas (.expanding [1] 2 1 true) [(0, (1 : Int)), (1, 2), (2, 3), (3, 4)] (none : Option (Series Unit))
        [([0, 1], [2]), ([0, 1, 2], [3])]).map
      (fun d => match honestRefit naive (0, 0) none d with
        | .ok h => (honestRow naive asym false h).score
        | .error _ => 0) = [4, 5] ∧
    asym [(2, 3)] [(2, 2)] ≠ asym [(2, 2)] [(2, 3)] := by
  refine ⟨by decide, by decide, by decide⟩

/-! ### the len_train_window, cutoff and return_data columns -/

/-- `len_train_window` of row `i` is the number of training positions of split `i`, and the
`cutoff` column is what the forecaster reports after the fold (`rowOf` in the row theorems). -/
theorem cutoff_and_len_columns (m : Machine σ α ξ) (dflt : Metric α β) (st0 : σ) (cv : CV) (y : Series α)
    (X : Option (Series ξ)) (strategy : Strategy) (scoring : Scoring α β) (fp : Option Int) (rd : Bool)
    (fs : List Fold) (hcv : CVValid y.length cv) (hin : InputOK y X) (hsp : cv.split y.length = .ok fs)
    (tr : List (Call α ξ)) (t : Table α β)
    (h : evaluate m dflt st0 cv y X strategy scoring fp rd = (tr, .ok t)) :
    t.rows.map (·.lenTrain) = fs.map (fun f => f.1.length) ∧
    ∀ (sc : Series α → Series α → β) (hh : Honest σ α), (rowOf m sc rd hh).cutoff = m.cutoff hh.st := by
  obtain ⟨mt, nm, _, _, _, hok, _, hl⟩ := evaluate_ok_valid m dflt st0 cv y X strategy scoring fp rd fs hcv hin hsp tr t h
  refine ⟨?_, fun _ _ => rfl⟩
  rw [rows_lenTrain _ _ 0 st0 t.rows (by rw [hl]), List.map_map]
  apply List.map_congr_left
  intro f hf
  exact sel_length y f.1 (hok.each f hf).train_range

/-- For a forecaster whose cutoff is the last time point it was trained on or updated with
(`CutoffTracks`), the `cutoff` column of row `i` is the time point of the last observation of
split `i`'s training window — under both strategies. -/
theorem cutoff_column_is_last_train_label (m : Machine σ α ξ) (hct : CutoffTracks m) (dflt : Metric α β) (st0 : σ)
    (cv : CV) (y : Series α) (X : Option (Series ξ)) (strategy : Strategy) (scoring : Scoring α β) (fp : Option Int)
    (rd : Bool) (fs : List Fold) (hcv : CVValid y.length cv) (hin : InputOK y X) (hsp : cv.split y.length = .ok fs)
    (tr : List (Call α ξ)) (t : Table α β)
    (h : evaluate m dflt st0 cv y X strategy scoring fp rd = (tr, .ok t)) :
    t.rows.map (·.cutoff) = fs.map (fun f => ((labels (sel y f.1)).getLast?).getD 0) := by
  obtain ⟨mt, nm, _, _, _, hok, _, hl⟩ := evaluate_ok_valid m dflt st0 cv y X strategy scoring fp rd fs hcv hin hsp tr t h
  rw [rows_cutoff ⟨m, mt.fn, strategy, rd, fp, y, X, cv.fh⟩ hct _ ?_ 0 st0 t.rows (by rw [hl]), List.map_map]
  · rfl
  · intro d hd
    obtain ⟨f, hf, rfl⟩ := List.mem_map.mp hd
    exact sel_ne_nil y f.1 (hok.each f hf).train_range (hok.each f hf).train_nonempty

/-- With `return_data` the three extra columns of row `i` hold exactly split `i`'s training window,
its test observations and the very forecast the row's score was computed from; without it they
are absent. -/
theorem return_data_columns (m : Machine σ α ξ) (dflt : Metric α β) (st0 : σ) (cv : CV) (y : Series α)
    (X : Option (Series ξ)) (strategy : Strategy) (scoring : Scoring α β) (fp : Option Int) (rd : Bool)
    (fs : List Fold) (hcv : CVValid y.length cv) (hin : InputOK y X) (hsp : cv.split y.length = .ok fs)
    (tr : List (Call α ξ)) (t : Table α β)
    (h : evaluate m dflt st0 cv y X strategy scoring fp rd = (tr, .ok t)) :
    ∃ mt, resolveScoring dflt scoring = .ok mt ∧
    List.Forall₂ (fun f row => ∃ p, row.score = applyMetric mt.fn (sel y f.2) p ∧
      row.data = if rd then some (sel y f.1, sel y f.2, p) else none) fs t.rows := by
  obtain ⟨mt, nm, hm, _, _, _, _, hl⟩ := evaluate_ok_valid m dflt st0 cv y X strategy scoring fp rd fs hcv hin hsp tr t h
  refine ⟨mt, hm, ?_⟩
  have := rows_data ⟨m, mt.fn, strategy, rd, fp, y, X, cv.fh⟩ _ 0 st0 t.rows (by rw [hl])
  rw [List.forall₂_map_left_iff] at this
  exact this

/-! ### the calls the forecaster receives -/

/-- The calls the forecaster receives are, in order, the honest calls — for split `i`:
`fit(window_i, X-rows of window_i, fh = test time points_i, fit_params)` (first split, or
refit) or `update(window_i, X-rows of window_i)`, then `predict(test time points_i, X test rows_i)` —
all of them if `evaluate` returns a table, an initial segment if a call raised. -/
theorem trace_eq_honest_calls (m : Machine σ α ξ) (dflt : Metric α β) (st0 : σ) (cv : CV) (y : Series α)
    (X : Option (Series ξ)) (strategy : Strategy) (scoring : Scoring α β) (fp : Option Int) (rd : Bool)
    (mt : Metric α β) (nm : String) (fs : List Fold) (hcv : CVValid y.length cv) (hin : InputOK y X)
    (hs : strategy ≠ .invalid) (hm : resolveScoring dflt scoring = .ok mt) (hn : mt.name = some nm)
    (hsp : cv.split y.length = .ok fs) :
    (evaluate m dflt st0 cv y X strategy scoring fp rd).1 <+: honestTrace strategy fp 0 (foldDatas cv y X fs) ∧
    (∀ t, (evaluate m dflt st0 cv y X strategy scoring fp rd).2 = .ok t →
      (evaluate m dflt st0 cv y X strategy scoring fp rd).1 = honestTrace strategy fp 0 (foldDatas cv y X fs)) := by
  obtain ⟨_, _, he⟩ := evaluate_valid_eq m dflt st0 cv y X strategy scoring fp rd mt nm fs hcv hin hs hm hn hsp
  rw [he]
  obtain ⟨h1, h2⟩ := loopD_trace ⟨m, mt.fn, strategy, rd, fp, y, X, cv.fh⟩ (fs.map (foldData y X (fhMin cv.fh))) 0 st0
  refine ⟨h1, ?_⟩
  intro t ht
  simp only at ht
  cases hr : (loopD ⟨m, mt.fn, strategy, rd, fp, y, X, cv.fh⟩ 0 st0 (fs.map (foldData y X (fhMin cv.fh)))).2 with
  | error e => rw [hr] at ht; simp [tableOf] at ht
  | ok rows => exact h2 rows hr

/-- NO LEAKAGE.  Whatever the forecaster does (also when it raises), whatever the metric and the
strategy: for every split `k`, every call among those made up to and including split `k`'s
`predict` (each split makes two calls) carries, as training data (`y`/`X` of `fit`/`update`), only
time points strictly before every test time point of split `k`.  From C01's `train_lt_test`,
`positions_in_range` and cutoff progression via `folds_ordered_*`. -/
theorem no_future_in_trace (m : Machine σ α ξ) (dflt : Metric α β) (st0 : σ) (cv : CV) (y : Series α)
    (X : Option (Series ξ)) (strategy : Strategy) (scoring : Scoring α β) (fp : Option Int) (rd : Bool)
    (fs : List Fold) (hcv : CVValid y.length cv) (hin : InputOK y X) (hsp : cv.split y.length = .ok fs)
    (k : Nat) (f : Fold) (hf : fs[k]? = some f)
    (c : Call α ξ) (hc : c ∈ ((evaluate m dflt st0 cv y X strategy scoring fp rd).1).take (2 * (k + 1)))
    (l : Int) (hl : l ∈ obsLabels c) (lt : Int) (hlt : lt ∈ labels (sel y f.2)) : l < lt := by
  rcases evaluate_trace_or m dflt st0 cv y X strategy scoring fp rd with hnil | ⟨mt, nm, fs', hs, _, hm, _, hn, hsp'⟩
  · rw [hnil] at hc; simp at hc
  · rw [hsp] at hsp'; cases hsp'
    obtain ⟨hok, _, _⟩ := evaluate_valid_eq m dflt st0 cv y X strategy scoring fp rd mt nm fs hcv hin hs hm hn hsp
    have hpre := (trace_eq_honest_calls m dflt st0 cv y X strategy scoring fp rd mt nm fs hcv hin hs hm hn hsp).1
    exact no_future_core y X hin.strict hin.xlabels (fhMin cv.fh) fs hok strategy fp _ hpre k f hf c hc l hl lt hlt

/-- the exogenous rows handed to `predict` for a fold `test = cutoff + fh` are the rows at the
positions `cutoff + 1 … cutoff + max(fh)`: every step up to the last requested one -/
theorem xtest_rows_are_steps_after_cutoff (fh : List Int) (hne : fh ≠ []) (c a : Int) :
    xRows (fhMin fh) (arange a (c + 1), fh.map (c + ·)) = arange (c + 1) (c + fhMax fh + 1) :=
  xRows_shape fh hne c a

/-! ### the folds of every valid splitter are ordered (from C01) -/

/-- sliding / expanding window splitters started with a full window -/
theorem folds_ordered_window {k n wl step fh iw} (v : Split.Spec.Valid k n wl step fh iw true) (fs : List Fold)
    (h : windowSplit k n fh wl step iw true = .ok fs) : FoldsOK n (fhMin fh) fs := foldsOK_window v fs h

/-- the single-window splitter -/
theorem folds_ordered_single (n : Int) (fh : List Int) (wl : Option Int)
    (hs : fh.Pairwise (· < ·)) (hne : fh ≠ []) (hpos : ∀ h ∈ fh, 0 < h)
    (hwl : ∀ w, wl = some w → 1 ≤ w ∧ w + fhMax fh ≤ n) (hfit : fhMax fh ≤ n - 1) (fs : List Fold)
    (h : singleSplit n fh wl = .ok fs) : FoldsOK n (fhMin fh) fs := foldsOK_single n fh wl hs hne hpos hwl hfit fs h

/-- the cutoff splitter -/
theorem folds_ordered_cutoff {n wl cs fh} (v : C01.CutoffValid n wl cs fh) (fs : List Fold)
    (h : cutoffSplit n cs fh wl = .ok fs) : FoldsOK n (fhMin fh) fs := foldsOK_cutoff v fs h

/-! ### what is rejected, what is accepted -/

/-- Invalid arguments are rejected before any call reaches the forecaster: an unknown strategy
(ValueError), something that is not a splitter (TypeError), a splitter with
`start_with_window=False` (ValueError), a scoring argument that is not callable (TypeError), an
infeasible window configuration (ValueError). -/
theorem evaluate_rejects (m : Machine σ α ξ) (dflt : Metric α β) (st0 : σ) (cv : CV) (y : Series α)
    (X : Option (Series ξ)) (strategy : Strategy) (scoring : Scoring α β) (fp : Option Int) (rd : Bool) :
    (strategy = .invalid → evaluate m dflt st0 cv y X strategy scoring fp rd = ([], .error .value)) ∧
    (strategy ≠ .invalid → cv = .notSplitter → evaluate m dflt st0 cv y X strategy scoring fp rd = ([], .error .type)) ∧
    (strategy ≠ .invalid → (∃ fh wl step iw, cv = .sliding fh wl step iw false) ∨ (∃ fh wl step, cv = .expanding fh wl step false) →
      evaluate m dflt st0 cv y X strategy scoring fp rd = ([], .error .value)) ∧
    (strategy ≠ .invalid → checkCv cv = .ok () → scoring = .notCallable →
      evaluate m dflt st0 cv y X strategy scoring fp rd = ([], .error .type)) ∧
    (∀ k fh wl step iw mt nm, strategy ≠ .invalid → resolveScoring dflt scoring = .ok mt → mt.name = some nm →
      (cv = .sliding fh wl step iw true ∧ k = Kind.sliding ∨ cv = .expanding fh wl step true ∧ k = Kind.expanding ∧ iw = none) →
      fh.Pairwise (· < ·) → fh ≠ [] → (step < 1 ∨ wl < 1 ∨ wl + fhMax fh > y.length) →
      evaluate m dflt st0 cv y X strategy scoring fp rd = ([], .error .value)) := by
  refine ⟨?_, ?_, ?_, ?_, ?_⟩
  · intro h; subst h; simp [evaluate]
  · intro hs h; subst h
    have : (strategy == Strategy.invalid) = false := by cases strategy <;> simp_all
    simp [evaluate, this, checkCv]
  · intro hs h
    have : (strategy == Strategy.invalid) = false := by cases strategy <;> simp_all
    rcases h with ⟨fh, wl, step, iw, rfl⟩ | ⟨fh, wl, step, rfl⟩ <;> simp [evaluate, this, checkCv]
  · intro hs hcv h; subst h
    have : (strategy == Strategy.invalid) = false := by cases strategy <;> simp_all
    simp [evaluate, this, hcv, resolveScoring]
  · intro k fh wl step iw mt nm hs hm hn hcv hsort hne hbad
    have hs' : (strategy == Strategy.invalid) = false := by cases strategy <;> simp_all
    have hrej := C01.window_rejects_infeasible k y.length wl step fh iw true hsort hne hbad
    have hck : checkCv cv = .ok () := by
      rcases hcv with ⟨rfl, _⟩ | ⟨rfl, _, _⟩ <;> rfl
    have hsp : cv.split y.length = .error .value := by
      rcases hcv with ⟨rfl, rfl⟩ | ⟨rfl, rfl, rfl⟩ <;> exact hrej
    cases hyx : checkYX y X with
    | error e =>
      have he : e = .value := by
        unfold checkYX at hyx
        split at hyx
        · cases hyx; rfl
        · split at hyx
          · cases hyx
          · split at hyx
            · cases hyx; rfl
            · split at hyx
              · cases hyx; rfl
              · cases hyx
      subst he
      simp [evaluate, hs', hck, hm, hyx]
    | ok u => simp [evaluate, hs', hck, hm, hyx, hn, hsp, ofSplitErr]

/-- A valid call with a forecaster that never raises returns a table with one row per split, and
the forecaster received exactly the honest calls. -/
theorem evaluate_accepts (m : Machine σ α ξ) (htot : Total m) (dflt : Metric α β) (st0 : σ) (cv : CV) (y : Series α)
    (X : Option (Series ξ)) (strategy : Strategy) (scoring : Scoring α β) (fp : Option Int) (rd : Bool)
    (mt : Metric α β) (nm : String) (hcv : CVValid y.length cv) (hin : InputOK y X)
    (hs : strategy ≠ .invalid) (hm : resolveScoring dflt scoring = .ok mt) (hn : mt.name = some nm) :
    ∃ fs t, cv.split y.length = .ok fs ∧ fs ≠ [] ∧
      evaluate m dflt st0 cv y X strategy scoring fp rd = (honestTrace strategy fp 0 (foldDatas cv y X fs), .ok t) ∧
      t.scoreName = "test_" ++ nm ∧ t.rows.length = fs.length := by
  obtain ⟨fs, hsp, _, hne, _, _⟩ := cv_split_ok hcv
  obtain ⟨_, _, he⟩ := evaluate_valid_eq m dflt st0 cv y X strategy scoring fp rd mt nm fs hcv hin hs hm hn hsp
  obtain ⟨rows, hr⟩ := loopD_total ⟨m, mt.fn, strategy, rd, fp, y, X, cv.fh⟩ htot (fs.map (foldData y X (fhMin cv.fh))) 0 st0
  have hlen := loopD_length _ _ 0 st0 rows hr
  have hrne : rows.isEmpty = false := by
    cases rows with
    | nil =>
      simp only [List.length_nil, List.length_map] at hlen
      exact absurd (List.length_eq_zero_iff.mp hlen.symm) hne
    | cons a l => rfl
  have htr := (loopD_trace ⟨m, mt.fn, strategy, rd, fp, y, X, cv.fh⟩ (fs.map (foldData y X (fhMin cv.fh))) 0 st0).2 rows hr
  refine ⟨fs, ⟨"test_" ++ nm, rows⟩, hsp, hne, ?_, rfl, by simpa using hlen⟩
  rw [he, hr, htr]
  simp only [tableOf, hrne, Bool.false_eq_true, ↓reduceIte]
  rfl

/-! ### non-vacuity: concrete inputs meeting the hypotheses -/

example : CVValid 10 (.sliding [1, 2] 3 2 none true) :=
  .sliding ⟨by decide, by decide, by decide, by decide, by decide, by decide, by intro i h; cases h⟩
example : CVValid 10 (.sliding [2] 3 1 (some 5) true) :=
  .sliding ⟨by decide, by decide, by decide, by decide, by decide, by decide,
    by intro i h; cases h; exact ⟨rfl, rfl, by decide, by decide⟩⟩
example : CVValid 4 (.expanding [1] 2 1 true) :=
  .expanding ⟨by decide, by decide, by decide, by decide, by decide, by decide, by intro i h; cases h⟩
example : CVValid 10 (.single [1, 3] (some 4)) :=
  .single (by decide) (by decide) (by decide) (by intro w h; cases h; decide) (by decide)
example : CVValid 10 (.cutoff [7, 3] [2] 3) :=
  .cutoff ⟨by decide, by decide, by decide, by decide, by decide, by decide, by decide⟩
example : InputOK [(0, (1 : Int)), (1, 2), (2, 3), (3, 4)] (some [(0, ()), (1, ()), (2, ()), (3, ())]) :=
  ⟨by unfold StrictLabels labels; decide, by intro X' h; cases h; rfl⟩
example : FitResets naive := by intro s s' y X fh p; rfl
example : Total naive := ⟨fun _ _ _ _ _ => ⟨_, rfl⟩, fun _ _ _ => ⟨_, rfl⟩, fun _ _ _ => ⟨_, rfl⟩⟩
example : CutoffTracks naive := by
  refine ⟨?_, ?_, ?_⟩
  · intro s y X fh p s' h l hl
    simp only [naive, Except.ok.injEq] at h
    subst h
    simp only [labels, List.getLast?_map, Option.map_eq_some_iff] at hl
    obtain ⟨e, he, rfl⟩ := hl
    simp [naive, he]
  · intro s y X s' h l hl
    simp only [naive, Except.ok.injEq] at h
    subst h
    simp only [labels, List.getLast?_map, Option.map_eq_some_iff] at hl
    obtain ⟨e, he, rfl⟩ := hl
    simp [naive, he]
  · intro s fh X s' p h
    simp only [naive, Except.ok.injEq, Prod.mk.injEq] at h
    rw [← h.1]
/-- the update strategy on the same series: one fit, then one update per later split -/
example : (evaluate naive ⟨some "d", asym⟩ (0, 0) (.expanding [1] 2 1 true) [(0, 1), (1, 2), (2, 3), (3, 4)]
      (none : Option (Series Unit)) .update (.some ⟨some "asym", asym⟩) none false).1 =
    [.fit [(0, 1), (1, 2)] none [2] none, .predict [2] none,
     .update [(0, 1), (1, 2), (2, 3)] none, .predict [3] none] := by decide
end SkVerif.C07
