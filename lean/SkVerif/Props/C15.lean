/- Property theorems for C15 (stub: not built yet). -/
namespace SkVerif.C15
end SkVerif.C15
