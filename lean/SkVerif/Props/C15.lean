/-
C15  Panel data container conversions are lossless and mutually consistent.
Property theorems about SkVerif/Model/Panel.lean (the executable model of
sktime/utils/data_processing.py and check_X).  Only theorems + non-vacuity examples here;
specifications are in Spec/Panel.lean, lemmas in Lemmas/Panel*.lean.

All theorems are polymorphic in the value type `α` (conversions never look at values) and in the
type `ν` of column names; shapes `n × c × t` are arbitrary with `n, c ≥ 1` (and `t ≥ 1` where a
multi-index frame is involved), names are arbitrary pairwise distinct labels.
-/
import SkVerif.Lemmas.PanelPath
import SkVerif.Lemmas.PanelNames
import SkVerif.Lemmas.Panel2d
import SkVerif.Lemmas.PanelLong
import SkVerif.Lemmas.PanelPath5
import SkVerif.Lemmas.PanelLabels
import SkVerif.Lemmas.PanelRowTime
namespace SkVerif.C15
open SkVerif SkVerif.Panel SkVerif.Panel.Spec SkVerif.Panel.Lem

variable {ν α : Type}

/-! ### the canonical containers determine the panel (so "the same result" is meaningful) -/

/-- two nested frames of the same names / cell kind hold the same panel only if they are equal, and
conversely: the frame determines the panel -/
theorem nestedOf_injective {n c t : Nat} {X Y : Arr3 α} (hX : Rect3 n c t X) (hY : Rect3 n c t Y)
    (hn : 0 < n) (hc : 0 < c) (names : List ν) (hl : names.length = c) (k : Bool)
    (h : nestedOf names k X = nestedOf names k Y) : X = Y := by
  have h1 := fromNestedTo3d_ok hX hn hc names hl k
  have h2 := fromNestedTo3d_ok hY hn hc names hl k
  rw [h] at h1
  exact Except.ok.inj (h1.symm.trans h2)

theorem miOf_injective {n c t : Nat} {X Y : Arr3 α} (hX : Rect3 n c t X) (hY : Rect3 n c t Y)
    (hn : 0 < n) (hc : 0 < c) (ht : 0 < t) (names : List ν) (hl : names.length = c)
    (h : miOf "i" "t" names X = miOf "i" "t" names Y) : X = Y := by
  have h1 := fromMITo3d_ok hX hn hc ht "i" "t" (by decide) names hl
  have h2 := fromMITo3d_ok hY hn hc ht "i" "t" (by decide) names hl
  rw [h] at h1
  exact Except.ok.inj (h1.symm.trans h2)

/-! ### round trips (values, shape, instance order, time order, variable order, names) -/

/-- 3-D array → nested (any distinct names, Series or array cells) → 3-D array is the identity -/
theorem arr3_nested_arr3 [DecidableEq ν] (ops : NameOps ν) {n c t : Nat} {X : Arr3 α}
    (hX : Rect3 n c t X) (hn : 0 < n) (hc : 0 < c) (names : List ν) (hl : names.length = c)
    (hnd : names.Nodup) (k : Bool) :
    (from3dToNested ops X (some names) k).bind fromNestedTo3d = .ok X := by
  rw [from3dToNested_ok ops hX hn names hl hnd k]
  exact fromNestedTo3d_ok hX hn hc names hl k

/-- … also with the default names `var_0 … var_{c-1}` -/
theorem arr3_nested_arr3_default [DecidableEq ν] (ops : NameOps ν) {n c t : Nat} {X : Arr3 α}
    (hX : Rect3 n c t X) (hn : 0 < n) (hc : 0 < c) (hd : (defaultNames ops c).Nodup) (k : Bool) :
    (from3dToNested ops X none k).bind fromNestedTo3d = .ok X := by
  rw [from3dToNested_default_ok ops hX hn hd k]
  exact fromNestedTo3d_ok hX hn hc _ (by simp [defaultNames]) k

/-- nested → 3-D array → nested (given the frame's own names and cell kind) is the identity,
for every well-formed nested frame: values, shape, row order, column order and column names -/
theorem nested_arr3_nested [DecidableEq ν] (ops : NameOps ν) {n c t : Nat} {k : Bool}
    {N : Nested ν α} (hN : WFNested n c t k N) (hn : 0 < n) (hc : 0 < c) :
    (fromNestedTo3d N).bind (fun X => from3dToNested ops X (some N.names) k) = .ok N := by
  obtain ⟨hrect, heq⟩ := wfNested_eq_nestedOf hN hn hc
  have hl : N.names.length = c := by simp [Nested.names, hN.2.1]
  conv => lhs; rw [heq]
  rw [fromNestedTo3d_ok hrect hn hc N.names hl k]
  simp only [Except.bind]
  rw [nestedOf_names hrect hn N.names hl k, from3dToNested_ok ops hrect hn N.names hl hN.1 k, ← heq]

/-- the 3-D array obtained from a well-formed nested frame is the panel it holds -/
theorem nested_to_arr3_eq_panel {n c t : Nat} {k : Bool} {N : Nested ν α}
    (hN : WFNested n c t k N) (hn : 0 < n) (hc : 0 < c) :
    fromNestedTo3d N = .ok (panelOfNested N) ∧ Rect3 n c t (panelOfNested N) := by
  obtain ⟨hrect, heq⟩ := wfNested_eq_nestedOf hN hn hc
  have hl : N.names.length = c := by simp [Nested.names, hN.2.1]
  refine ⟨?_, hrect⟩
  conv => lhs; rw [heq]
  exact fromNestedTo3d_ok hrect hn hc N.names hl k

/-- 3-D array → multi-index → 3-D array is the identity (any level names, any column names) -/
theorem arr3_mi_arr3 (ops : NameOps ν) {n c t : Nat} {X : Arr3 α} (hX : Rect3 n c t X)
    (hn : 0 < n) (hc : 0 < c) (ht : 0 < t) (i tm : String) (hne : i ≠ tm) (names : List ν)
    (hl : names.length = c) :
    (from3dToMI ops X (some i) (some tm) (some names)).bind
      (fun M => fromMITo3d M (some i) (some tm)) = .ok X := by
  rw [from3dToMI_ok ops hX hn hc (some i) (some tm) names hl]
  exact fromMITo3d_ok hX hn hc ht i tm hne names hl

/-- multi-index → 3-D array → multi-index (same level names, the frame's names) is the identity -/
theorem mi_arr3_mi (ops : NameOps ν) {n c t : Nat} {X : Arr3 α} (hX : Rect3 n c t X)
    (hn : 0 < n) (hc : 0 < c) (ht : 0 < t) (i tm : String) (hne : i ≠ tm) (names : List ν)
    (hl : names.length = c) :
    (fromMITo3d (miOf i tm names X) (some i) (some tm)).bind
      (fun Y => from3dToMI ops Y (some i) (some tm) (some names)) = .ok (miOf i tm names X) := by
  rw [fromMITo3d_ok hX hn hc ht i tm hne names hl]
  exact from3dToMI_ok ops hX hn hc (some i) (some tm) names hl

/-- nested → multi-index → nested is the identity: values, orders, names and cell kind -/
theorem nested_mi_nested [DecidableEq ν] {n c t : Nat} {k : Bool} {N : Nested ν α}
    (hN : WFNested n c t k N) (hn : 0 < n) (hc : 0 < c) (ht : 0 < t) (i tm : String)
    (hne : i ≠ tm) :
    (fromNestedToMI N (some i) (some tm)).bind (fun M => fromMIToNested M (some i) k) = .ok N := by
  obtain ⟨hrect, heq⟩ := wfNested_eq_nestedOf hN hn hc
  have hl : N.names.length = c := by simp [Nested.names, hN.2.1]
  conv => lhs; rw [heq]
  rw [fromNestedToMI_ok hrect hn hc N.names hl k (some i) (some tm)]
  simp only [Except.bind, Option.getD]
  rw [fromMIToNested_ok hrect hn hc ht i tm hne N.names hl hN.1 k, ← heq]

/-- multi-index → nested → multi-index is the identity -/
theorem mi_nested_mi [DecidableEq ν] {n c t : Nat} {X : Arr3 α} (hX : Rect3 n c t X)
    (hn : 0 < n) (hc : 0 < c) (ht : 0 < t) (i tm : String) (hne : i ≠ tm) (names : List ν)
    (hl : names.length = c) (hnd : names.Nodup) (k : Bool) :
    (fromMIToNested (miOf i tm names X) (some i) k).bind
      (fun N => fromNestedToMI N (some i) (some tm)) = .ok (miOf i tm names X) := by
  rw [fromMIToNested_ok hX hn hc ht i tm hne names hl hnd k]
  exact fromNestedToMI_ok hX hn hc names hl k (some i) (some tm)

/-! ### every path between two of {nested, 3-D array, multi-index} -/

/-- A conversion path of ANY length whose bookkeeping (`pathShape`: names kept while every
container on the way carries names, defaults / explicit names after a 3-D array, options of each
converter) is defined returns the canonical container of the resulting shape holding the SAME
panel: values, shape, instance order, time order, variable order are those of the input. -/
theorem path_preserves_panel [DecidableEq ν] (ops : NameOps ν) (reserved : ν → Bool)
    {n c t : Nat} {X : Arr3 α} (hX : Rect3 n c t X) (hn : 0 < n) (hc : 0 < c) (ht : 0 < t)
    (hd : (defaultNames ops c).Nodup) (hs : List (Hop ν)) (s s' : Shape ν) (hok : s.ok c)
    (hp : pathShape ops c hs s = some s') :
    applyPath ops reserved hs (holds s X) = .ok (holds s' X) :=
  applyPath_holds ops reserved hX hn hc ht hd hs s s' hok hp

/-- path independence: two paths (of any lengths) from the same container whose bookkeeping ends
in the same shape return the same result; in particular a path equals the direct conversion. -/
theorem path_independence [DecidableEq ν] (ops : NameOps ν) (reserved : ν → Bool)
    {n c t : Nat} {X : Arr3 α} (hX : Rect3 n c t X) (hn : 0 < n) (hc : 0 < c) (ht : 0 < t)
    (hd : (defaultNames ops c).Nodup) (p q : List (Hop ν)) (s s' : Shape ν) (hok : s.ok c)
    (hp : pathShape ops c p s = some s') (hq : pathShape ops c q s = some s') :
    applyPath ops reserved p (holds s X) = applyPath ops reserved q (holds s X) := by
  rw [applyPath_holds ops reserved hX hn hc ht hd p s s' hok hp,
    applyPath_holds ops reserved hX hn hc ht hd q s s' hok hq]

/-- nested → multi-index → 3-D array equals the direct nested → 3-D array -/
theorem nested_mi_arr3_eq_direct {n c t : Nat} {k : Bool} {N : Nested ν α}
    (hN : WFNested n c t k N) (hn : 0 < n) (hc : 0 < c) (ht : 0 < t) :
    (fromNestedToMI N none none).bind (fun M => fromMITo3d M (some "instance") (some "timepoints"))
      = fromNestedTo3d N := by
  obtain ⟨hrect, heq⟩ := wfNested_eq_nestedOf hN hn hc
  have hl : N.names.length = c := by simp [Nested.names, hN.2.1]
  conv => lhs; rw [heq]
  conv => rhs; rw [heq]
  rw [fromNestedToMI_ok hrect hn hc N.names hl k none none, fromNestedTo3d_ok hrect hn hc N.names hl k]
  exact fromMITo3d_ok hrect hn hc ht "instance" "timepoints" (by decide) N.names hl

/-- 3-D array → nested → multi-index equals the direct 3-D array → multi-index up to the default
level name (`instance` vs `instances`), with the same explicit level names literally -/
theorem arr3_nested_mi_eq_direct [DecidableEq ν] (ops : NameOps ν) {n c t : Nat} {X : Arr3 α}
    (hX : Rect3 n c t X) (hn : 0 < n) (hc : 0 < c) (names : List ν) (hl : names.length = c)
    (hnd : names.Nodup) (k : Bool) (i tm : String) :
    (from3dToNested ops X (some names) k).bind (fun N => fromNestedToMI N (some i) (some tm))
      = from3dToMI ops X (some i) (some tm) (some names) := by
  rw [from3dToNested_ok ops hX hn names hl hnd k, from3dToMI_ok ops hX hn hc (some i) (some tm) names hl]
  exact fromNestedToMI_ok hX hn hc names hl k (some i) (some tm)

/-- nested → 3-D array → multi-index: values as the direct nested → multi-index, names replaced
by the defaults (a 3-D array carries no names) -/
theorem nested_arr3_mi_defaults_names [DecidableEq ν] (ops : NameOps ν) {n c t : Nat} {k : Bool}
    {N : Nested ν α} (hN : WFNested n c t k N) (hn : 0 < n) (hc : 0 < c) (i tm : String) :
    (fromNestedTo3d N).bind (fun X => from3dToMI ops X (some i) (some tm) none)
      = .ok (miOf i tm (defaultNames ops c) (panelOfNested N)) ∧
    fromNestedToMI N (some i) (some tm) = .ok (miOf i tm N.names (panelOfNested N)) := by
  obtain ⟨hrect, heq⟩ := wfNested_eq_nestedOf hN hn hc
  have hl : N.names.length = c := by simp [Nested.names, hN.2.1]
  constructor
  · conv => lhs; rw [heq]
    rw [fromNestedTo3d_ok hrect hn hc N.names hl k]
    exact from3dToMI_default_ok ops hrect hn hc (some i) (some tm)
  · conv => lhs; rw [heq]
    exact fromNestedToMI_ok hrect hn hc N.names hl k (some i) (some tm)

/-! ### nestedness predicates -/


/-- `is_nested_dataframe` is True exactly for frames that contain a series-valued cell -/
theorem nested_predicates_iff (N : Nested ν α) :
    isNestedDataframe N = true ↔ ∃ p ∈ N.cols, ∃ cell ∈ p.2, cell.isNested = true := by
  simp [isNestedDataframe, areColumnsNested, List.any_eq_true]

/-- `are_columns_nested` reports, column by column, whether the column contains a series-valued cell -/
theorem are_columns_nested_iff (N : Nested ν α) (j : Nat) (hj : j < N.cols.length) :
    (areColumnsNested N)[j]'(by simpa [areColumnsNested] using hj) = true ↔
      ∃ cell ∈ (N.cols[j]).2, cell.isNested = true := by
  simp [areColumnsNested, List.any_eq_true]

theorem are_columns_nested_length (N : Nested ν α) : (areColumnsNested N).length = N.cols.length := by
  simp [areColumnsNested]

/-- a cell is series-valued iff it is a Series or an array (not a primitive) -/
theorem cell_isNested_iff (cell : Cell α) :
    cell.isNested = true ↔ (∃ vs, cell = .ser vs) ∨ (∃ vs, cell = .arr vs) := by
  cases cell <;> simp [Cell.isNested]

/-! ### container coercion at estimator boundaries (check_X) -/


theorem wf_nRows {n c t : Nat} {k : Bool} {N : Nested ν α} (h : WFNested n c t k N) (hc : 0 < c) :
    N.nRows = n := by
  obtain ⟨_, hlen, hcols⟩ := h
  unfold Nested.nRows
  cases hC : N.cols with
  | nil => rw [hC] at hlen; simp at hlen; omega
  | cons p rest => exact (hcols p (by rw [hC]; simp)).1

/-- `check_X(X, coerce_to_numpy=True)` on a well-formed nested frame that passes the size checks
returns the 3-D array holding the same panel -/
theorem checkX_coerce_numpy [DecidableEq ν] (ops : NameOps ν) {n c t : Nat} {k : Bool}
    {N : Nested ν α} (hN : WFNested n c t k N) (hn : 0 < n) (hc : 0 < c) (uni : Bool)
    (minInst minCols : Nat) (h1 : minCols ≤ c) (h2 : uni = true → c = 1) (h3 : minInst ≤ n) :
    checkX ops (.frame N) uni minInst minCols true false = .ok (.arr3 (panelOfNested N)) := by
  obtain ⟨hrect, heq⟩ := wfNested_eq_nestedOf hN hn hc
  have hl : N.names.length = c := by simp [Nested.names, hN.2.1]
  have hisn : isNestedDataframe N = true := by rw [heq]; exact isNested_nestedOf hrect hn hc N.names hl k
  have h3d := (nested_to_arr3_eq_panel hN hn hc).1
  have hu : ¬ (uni = true ∧ c > 1) := by intro ⟨a, b⟩; have := h2 a; omega
  have hi : ¬ (minInst > 0 ∧ n < minInst) := by omega
  simp [checkX, hN.2.1, wf_nRows hN hc, Nat.not_lt.mpr h1, hu, hi, hisn, h3d, bind, Except.bind,
    pure, Except.pure]

/-- `check_X(X, coerce_to_pandas=True)` on a 3-D array returns the nested frame (Series cells,
default names) holding the same panel -/
theorem checkX_coerce_pandas [DecidableEq ν] (ops : NameOps ν) {n c t : Nat} {X : Arr3 α}
    (hX : Rect3 n c t X) (hn : 0 < n) (hc : 0 < c) (hd : (defaultNames ops c).Nodup) (uni : Bool)
    (minInst minCols : Nat) (h1 : minCols ≤ c) (h2 : uni = true → c = 1) (h3 : minInst ≤ n) :
    checkX ops (.arr3 X) uni minInst minCols false true =
      .ok (.frame (nestedOf (defaultNames ops c) false X)) := by
  have hl : (defaultNames ops c).length = c := by simp [defaultNames]
  have hisn := isNested_nestedOf hX hn hc (defaultNames ops c) hl false
  have hu : ¬ (uni = true ∧ c > 1) := by intro ⟨a, b⟩; have := h2 a; omega
  have hi : ¬ (minInst > 0 ∧ n < minInst) := by omega
  have hcl : (nestedOf (defaultNames ops c) false X).cols.length = c := by
    have := congrArg List.length (nestedOf_names hX hn (defaultNames ops c) hl false)
    simpa [Nested.names, hl] using this
  simp [checkX, from3dToNested_default_ok ops hX hn hd false, hcl,
    nRows_nestedOf hX hn hc (defaultNames ops c) hl false, Nat.not_lt.mpr h1, hu, hi, hisn, bind,
    Except.bind, pure, Except.pure]

/-- without coercion `check_X` returns its argument unchanged -/
theorem checkX_identity_arr3 [DecidableEq ν] (ops : NameOps ν) {n c t : Nat} {X : Arr3 α}
    (hX : Rect3 n c t X) (hn : 0 < n) (uni : Bool)
    (minInst minCols : Nat) (h1 : minCols ≤ c) (h2 : uni = true → c = 1) (h3 : minInst ≤ n) :
    checkX (α := α) ops (.arr3 X) uni minInst minCols false false = .ok (.arr3 X) := by
  have hu : ¬ (uni = true ∧ c > 1) := by intro ⟨a, b⟩; have := h2 a; omega
  have hi : ¬ (minInst > 0 ∧ n < minInst) := by omega
  simp [checkX, rect_nCols hX hn, nInst, hX.1, Nat.not_lt.mpr h1, hu, hi, bind, Except.bind, pure,
    Except.pure]

/-- asking for both coercions is rejected; so is anything that is not a DataFrame or a 3-D array -/
theorem checkX_rejects [DecidableEq ν] (ops : NameOps ν) (X : XIn ν α) (uni : Bool) (a b : Nat) :
    checkX ops X uni a b true true = .error .value ∧
    (∀ tn tp, checkX (α := α) ops .other uni a b tn tp = .error .value) ∧
    (∀ tn tp, checkX (α := α) ops .arrOther uni a b tn tp = .error .value) := by
  refine ⟨by simp [checkX, bind, Except.bind, throw, throwThe, MonadExceptOf.throw], ?_, ?_⟩ <;>
  · intro tn tp
    cases tn <;> cases tp <;> simp [checkX, bind, Except.bind, throw, throwThe, MonadExceptOf.throw]

/-- coercing a 3-D array to pandas and back to numpy at two estimator boundaries is the identity -/
theorem checkX_pandas_numpy_roundtrip [DecidableEq ν] (ops : NameOps ν) {n c t : Nat} {X : Arr3 α}
    (hX : Rect3 n c t X) (hn : 0 < n) (hc : 0 < c) (hd : (defaultNames ops c).Nodup) :
    (checkX ops (.arr3 X) false 1 1 false true).bind (fun r => match r with
      | .frame N => checkX ops (.frame N) false 1 1 true false
      | .arr3 Y => .ok (.arr3 Y)) = .ok (.arr3 X) := by
  rw [checkX_coerce_pandas ops hX hn hc hd false 1 1 hc (by simp) hn]
  simp only [Except.bind]
  have hl : (defaultNames ops c).length = c := by simp [defaultNames]
  have hisn := isNested_nestedOf hX hn hc (defaultNames ops c) hl false
  have hcl : (nestedOf (defaultNames ops c) false X).cols.length = c := by
    have := congrArg List.length (nestedOf_names hX hn (defaultNames ops c) hl false)
    simpa [Nested.names, hl] using this
  have hc1 : ¬ c < 1 := by omega
  have hn1 : ¬ n < 1 := by omega
  simp [checkX, hcl, nRows_nestedOf hX hn hc (defaultNames ops c) hl false, hisn, hc1, hn1,
    fromNestedTo3d_ok hX hn hc (defaultNames ops c) hl false, bind, Except.bind, pure, Except.pure]

/-! ### 2-D tables -/

/-- nested → 2-D table: one row per instance, the variables' series laid side by side in column
order, labelled `name__q` (pandas) or unlabelled (numpy) -/
theorem nested_to_tab2 (ops : NameOps ν) {n c t : Nat} {k : Bool} {N : Nested ν α}
    (hN : WFNested n c t k N) (hn : 0 < n) (hc : 0 < c) (rn : Bool) :
    fromNestedTo2d ops N rn =
      .ok ⟨if rn then none else some (tab2Labels ops N.names t), tab2Rows (panelOfNested N)⟩ := by
  obtain ⟨hrect, heq⟩ := wfNested_eq_nestedOf hN hn hc
  have hl : N.names.length = c := by simp [Nested.names, hN.2.1]
  conv => lhs; rw [heq]
  exact fromNestedTo2d_ok ops hrect hn hc N.names hl k rn

/-- path independence towards the 2-D table: 3-D array → nested → 2-D (numpy) equals the direct
3-D array → 2-D reshape -/
theorem arr3_nested_tab2_eq_direct [DecidableEq ν] (ops : NameOps ν) {n c t : Nat} {X : Arr3 α}
    (hX : Rect3 n c t X) (hn : 0 < n) (hc : 0 < c) (names : List ν) (hl : names.length = c)
    (hnd : names.Nodup) (k : Bool) :
    (from3dToNested ops X (some names) k).bind (fun N => fromNestedTo2d ops N true)
      = .ok (from3dTo2d X) := by
  rw [from3dToNested_ok ops hX hn names hl hnd k]
  exact fromNestedTo2d_ok ops hX hn hc names hl k true

/-- nested → 3-D array → 2-D equals nested → 2-D (numpy) -/
theorem nested_arr3_tab2_eq_direct (ops : NameOps ν) {n c t : Nat} {k : Bool} {N : Nested ν α}
    (hN : WFNested n c t k N) (hn : 0 < n) (hc : 0 < c) :
    (fromNestedTo3d N).map from3dTo2d = fromNestedTo2d ops N true := by
  rw [(nested_to_arr3_eq_panel hN hn hc).1, nested_to_tab2 ops hN hn hc true]
  rfl

/-- 2-D table → nested (Series or array cells): ONE variable whose series is the whole row (the
code has no way to know where one variable ends), named `0` or by the name given -/
theorem tab2_to_nested (ops : NameOps ν) (T : Tab2 α) (hne : T.rows ≠ []) (k : Bool) :
    from2dToNested ops T none k = .ok (nestedOf [ops.zero] k (panelOfRows T.rows)) ∧
    ∀ name, from2dToNested ops T (some [name]) k =
      .ok (nestedOf [name] k (panelOfRows T.rows)) :=
  from2dToNested_ok ops T hne k

/-- univariate panels survive the trip through the 2-D table: 3-D array (c = 1) → 2-D → nested
(Series or array cells) → 3-D array is the identity -/
theorem arr3_tab2_nested_arr3_univariate (ops : NameOps ν) {n t : Nat} {X : Arr3 α}
    (hX : Rect3 n 1 t X) (hn : 0 < n) (k : Bool) :
    (from2dToNested ops (from3dTo2d X) none k).bind fromNestedTo3d = .ok X := by
  have hne : (from3dTo2d X).rows ≠ [] := by
    intro h
    have : X.length = 0 := by simpa [from3dTo2d] using congrArg List.length h
    rw [hX.1] at this; omega
  rw [(from2dToNested_ok ops (from3dTo2d X) hne k).1]
  have hP : panelOfRows (from3dTo2d X).rows = X := by
    unfold panelOfRows from3dTo2d
    simp only [List.map_map]
    conv => rhs; rw [← List.map_id X]
    apply List.map_congr_left
    intro inst hinst
    have h1 := (hX.2 inst hinst).1
    match inst, h1 with
    | [s], _ => simp
  rw [hP]
  exact fromNestedTo3d_ok hX hn (by omega) [ops.zero] rfl k

/-- multivariate panels: the trip through the 2-D table returns the column-concatenated panel
(values and order kept, column boundaries and names lost) -/
theorem arr3_tab2_nested_concat (ops : NameOps ν) {n c t : Nat} {X : Arr3 α}
    (hX : Rect3 n c t X) (hn : 0 < n) (k : Bool) :
    from2dToNested ops (from3dTo2d X) none k =
      .ok (nestedOf [ops.zero] k (X.map (fun inst => [inst.flatten]))) := by
  have hne : (from3dTo2d X).rows ≠ [] := by
    intro h
    have : X.length = 0 := by simpa [from3dTo2d] using congrArg List.length h
    rw [hX.1] at this; omega
  rw [(from2dToNested_ok ops (from3dTo2d X) hne k).1]
  simp [panelOfRows, from3dTo2d, List.map_map, Function.comp_def]

/-- regression witness of the fixed defect 9d494a8 (`cells_as_numpy=True` used to raise TypeError):
array cells are now produced -/
theorem tab2_to_nested_array_cells_witness :
    from2dToNested nameOps (⟨none, [[1, 2]]⟩ : Tab2 Nat) none true
      = .ok ⟨[(Name.i 0, [Cell.arr [1, 2]])]⟩ := by
  rfl

/-! ### long tables -/

/-- nested → long: the long table `from_nested_to_long` builds is the molten multi-index frame of
the same panel, under the id-column names asked for -/
theorem nested_to_long (reserved : ν → Bool) {n c t : Nat} {k : Bool} {N : Nested ν α}
    (hN : WFNested n c t k N) (hn : 0 < n) (hc : 0 < c) (hres : N.names.any reserved = false)
    (i tm d : Option String) :
    fromNestedToLong reserved N i tm d =
      .ok ⟨i.getD "index", tm.getD "time_index", d.getD "column",
        longRowsM N.names (panelOfNested N)⟩ := by
  obtain ⟨hrect, heq⟩ := wfNested_eq_nestedOf hN hn hc
  have hl : N.names.length = c := by simp [Nested.names, hN.2.1]
  conv => lhs; rw [heq]
  exact fromNestedToLong_ok reserved hrect hn hc N.names hl k hres i tm d

/-- every cell of the panel is one row of the long table: for instance `i`, time `q` and the
variable named `d` with value `v` in the multi-index row `(i, q)` there is the row `(i, q, d, v)` -/
theorem long_rows_complete (names : List ν) {n c t : Nat} {X : Arr3 α} (hX : Rect3 n c t X)
    (hn : 0 < n) (hc : 0 < c) (hl : names.length = c) (key : Int × Int) (vals : List α)
    (hr : (key, vals) ∈ miRows X) (d : ν) (v : α) (hd : (d, v) ∈ names.zip vals) :
    (key.1, key.2, d, v) ∈ longRowsM names X := by
  have := mem_melt names (miRows X) (by intro r hr; rw [hl]; exact miRows_rowsLen hX hn hc r hr)
    key vals hr d v hd
  unfold longRowsM
  exact List.mem_map.mpr ⟨((key, d), v), this, rfl⟩

/-- (the long table orders variables by their identifier) The variables that come back from a long
table are the original ones, each name with its own data, in sorted-name order. -/
theorem sortVars_spec (lt : ν → ν → Bool) (hnle : TotalLE (fun a b : ν => !lt b a)) {n c t : Nat}
    {X : Arr3 α} (hX : Rect3 n c t X) (hn : 0 < n) (names : List ν) (hl : names.length = c) :
    ((sortVarsNames lt names X).zip (transposeW c (sortVarsPanel lt names X))).Perm
      (names.zip (transposeW c X)) ∧
    (sortVarsNames lt names X).Pairwise (fun a b => (!lt b a) = true) ∧
    Rect3 n c t (sortVarsPanel lt names X) := by
  refine ⟨?_, ?_, rect_sortVarsPanel lt hX hn names hl⟩
  · rw [transposeW_sortVarsPanel lt hX hn names hl]
    unfold sortVarsNames
    rw [← List.zip_of_prod (xs := sortedVars lt names X) rfl rfl]
    exact sortedVars_perm lt hX hn names
  · have := TotalLE_pairLE_sorted lt hnle (names.zip (transposeW (nCols X) X))
    unfold sortVarsNames sortedVars
    rw [List.pairwise_map]
    exact this

/-- nested → long → nested (default call), FULL STRENGTH: for every well-formed nested frame (any
distinct, non-reserved names, Series or array cells) the result holds the original values, shape,
instance order and time order; its variables are the original ones in sorted-name order, each
under its own name with its own data (`sortVars_spec`); cells are Series. -/
theorem nested_long_nested [DecidableEq ν] (ops : NameOps ν)
    (hnle : TotalLE (fun a b : ν => !ops.lt b a)) (reserved : ν → Bool) {n c t : Nat} {k : Bool}
    {N : Nested ν α} (hN : WFNested n c t k N) (hn : 0 < n) (hc : 0 < c) (ht : 0 < t)
    (hres : N.names.any reserved = false) (i tm d : String) (hne : i ≠ tm) :
    (fromNestedToLong reserved N (some i) (some tm) (some d)).bind
      (fun L => fromLongToNested ops L i tm d none) =
      .ok (nestedOf (sortVarsNames ops.lt N.names (panelOfNested N)) false
        (sortVarsPanel ops.lt N.names (panelOfNested N))) := by
  obtain ⟨hrect, _⟩ := wfNested_eq_nestedOf hN hn hc
  have hl : N.names.length = c := by simp [Nested.names, hN.2.1]
  rw [nested_to_long reserved hN hn hc hres (some i) (some tm) (some d)]
  exact (fromLongToNested_ok ops hnle hrect hn hc ht N.names hl hN.1 i tm d hne).2

/-- … in particular, when the names are in sorted order, nested (Series cells) → long → nested is
the identity: values, shape, orders AND column names (the clause that failed before e35dbc7) -/
theorem nested_long_nested_identity [DecidableEq ν] (ops : NameOps ν)
    (hnle : TotalLE (fun a b : ν => !ops.lt b a)) (reserved : ν → Bool) {n c t : Nat}
    {N : Nested ν α} (hN : WFNested n c t false N) (hn : 0 < n) (hc : 0 < c) (ht : 0 < t)
    (hres : N.names.any reserved = false)
    (hns : N.names.Pairwise (fun a b => (!ops.lt b a) = true)) (i tm d : String) (hne : i ≠ tm) :
    (fromNestedToLong reserved N (some i) (some tm) (some d)).bind
      (fun L => fromLongToNested ops L i tm d none) = .ok N := by
  obtain ⟨hrect, heq⟩ := wfNested_eq_nestedOf hN hn hc
  have hl : N.names.length = c := by simp [Nested.names, hN.2.1]
  rw [nested_long_nested ops hnle reserved hN hn hc ht hres i tm d hne]
  have hs := sortVars_of_sorted ops.lt hrect hn N.names hl hns
  rw [hs.1, hs.2, ← heq]

/-- explicit `column_names=` relabel the (sorted) variables -/
theorem nested_long_nested_renamed [DecidableEq ν] (ops : NameOps ν)
    (hnle : TotalLE (fun a b : ν => !ops.lt b a)) (reserved : ν → Bool) {n c t : Nat} {k : Bool}
    {N : Nested ν α} (hN : WFNested n c t k N) (hn : 0 < n) (hc : 0 < c) (ht : 0 < t)
    (hres : N.names.any reserved = false) (i tm d : String) (hne : i ≠ tm) (names' : List ν)
    (hl' : names'.length = c) :
    (fromNestedToLong reserved N (some i) (some tm) (some d)).bind
      (fun L => fromLongToNested ops L i tm d (some names')) =
      .ok (nestedOf names' false (sortVarsPanel ops.lt N.names (panelOfNested N))) := by
  obtain ⟨hrect, _⟩ := wfNested_eq_nestedOf hN hn hc
  have hl : N.names.length = c := by simp [Nested.names, hN.2.1]
  rw [nested_to_long reserved hN hn hc hres (some i) (some tm) (some d)]
  exact (fromLongToNested_ok ops hnle hrect hn hc ht N.names hl hN.1 i tm d hne).1 names' hl'

/-- regression witnesses of the fixed defect e35dbc7 (the result used to be relabelled
`var_0, var_1, …` by position): columns `b = [1, 2]`, `a = [3, 4]` come back as `a = [3, 4]`,
`b = [1, 2]` … -/
theorem long_roundtrip_keeps_names_witness :
    (fromNestedToLong reservedName
        (nestedOf [Name.s "b", Name.s "a"] false ([[[1, 2], [3, 4]]] : Arr3 Nat)) none none none).bind
      (fun L => fromLongToNested nameOps L "index" "time_index" "column" none)
    = .ok (nestedOf [Name.s "a", Name.s "b"] false [[[3, 4], [1, 2]]]) := by
  rfl

/-- … and with 11 default-named variables `var_10` (which sorts before `var_2`) keeps its series:
the third column of the result is labelled `var_10` and holds `[10]`. -/
theorem long_roundtrip_default_names_witness :
    ((fromNestedToLong reservedName
        (nestedOf (defaultNames nameOps 11) false
          ([[[0], [1], [2], [3], [4], [5], [6], [7], [8], [9], [10]]] : Arr3 Nat)) none none none).bind
      (fun L => fromLongToNested nameOps L "index" "time_index" "column" none)).map
        (fun N => N.cols.take 4)
    = .ok [(Name.s "var_0", [Cell.ser [0]]), (Name.s "var_1", [Cell.ser [1]]),
           (Name.s "var_10", [Cell.ser [10]]), (Name.s "var_2", [Cell.ser [2]])] := by
  rfl

/-- shuffled long tables: `from_long_to_nested` does not depend on the order of the rows -/
theorem long_row_order_irrelevant [DecidableEq ν] (ops : NameOps ν)
    (hnle : TotalLE (fun a b : ν => !ops.lt b a)) (li ltm ld : String)
    (rows rows' : List (Int × Int × ν × α)) (hp : rows.Perm rows') (a b d : String)
    (cn : Option (List ν)) :
    fromLongToNested ops ⟨li, ltm, ld, rows⟩ a b d cn =
      fromLongToNested ops ⟨li, ltm, ld, rows'⟩ a b d cn :=
  fromLongToNested_perm ops hnle li ltm ld rows rows' hp a b d cn

/-- FINDING: a nested frame with a column called `index`, `time_index` or `value` cannot be
converted to a long table (the converter's own id / value columns collide with it) -/
theorem nested_to_long_reserved_name_rejected (reserved : ν → Bool) {n c t : Nat} {k : Bool}
    {N : Nested ν α} (hN : WFNested n c t k N) (hn : 0 < n) (hc : 0 < c)
    (hres : N.names.any reserved = true) (i tm d : Option String) :
    fromNestedToLong reserved N i tm d = .error .value := by
  obtain ⟨hrect, heq⟩ := wfNested_eq_nestedOf hN hn hc
  have hl : N.names.length = c := by simp [Nested.names, hN.2.1]
  have hmi := fromNestedToMI_ok hrect hn hc N.names hl k (some "index") (some "time_index")
  rw [← heq] at hmi
  unfold fromNestedToLong
  simp only [hmi, bind, Except.bind, miOf, hres, if_true]
  rfl

theorem nested_to_long_reserved_witness :
    fromNestedToLong reservedName
      (nestedOf [Name.s "index"] false ([[[1, 2]]] : Arr3 Nat)) none none none = .error .value := by
  rfl

/-- FINDING: duplicate column names make `from_3d_numpy_to_nested` drop columns silently
(`df[name] = …` overwrites): a `1 × 2 × 2` array comes back as a one-column frame holding only the
last variable.  (`arr3_nested_arr3` is the `_partial` form: it assumes `names.Nodup`.) -/
theorem arr3_nested_duplicate_names_drop_columns :
    from3dToNested nameOps ([[[1, 2], [3, 4]]] : Arr3 Nat) (some [Name.s "a", Name.s "a"]) false
      = .ok ⟨[(Name.s "a", [Cell.ser [3, 4]])]⟩ := by
  rfl

/-! ### instance order with arbitrary instance identifiers

The instance identifiers of a panel (row labels of the nested frame = instance level of the
multi-index frame) are arbitrary pairwise distinct labels in ANY order — shuffled, descending,
strings (mapped order-preservingly into the integers).  The panel's instance order is the order
of the rows. -/

/-- nested (row labels `labels`) → multi-index → nested returns the instances in the original row
order, whatever the identifiers (the result carries a fresh RangeIndex) -/
theorem nested_mi_nested_any_ids [DecidableEq ν] {n c t : Nat} {k : Bool} {N : Nested ν α}
    (hN : WFNested n c t k N) (hn : 0 < n) (hc : 0 < c) (ht : 0 < t) (i tm : String)
    (hne : i ≠ tm) (labels : List Int) (hll : labels.length = n) (hlnd : labels.Nodup) :
    (fromNestedToMIIx labels N (some i) (some tm)).bind (fun M => fromMIToNested M (some i) k)
      = .ok N := by
  obtain ⟨hrect, heq⟩ := wfNested_eq_nestedOf hN hn hc
  have hl : N.names.length = c := by simp [Nested.names, hN.2.1]
  conv => lhs; rw [heq]
  rw [fromNestedToMIIx_ok hrect hn hc N.names hl k (some i) (some tm) labels]
  simp only [Except.bind, Option.getD]
  rw [fromMIToNested_labelled hrect hn hc ht i tm hne N.names hl hN.1 k labels hll hlnd, ← heq]

/-- multi-index (any distinct instance identifiers in any order) → nested: row `p` of the result
is the `p`-th instance of the frame (order of appearance, NOT sorted identifiers) -/
theorem mi_to_nested_keeps_instance_order [DecidableEq ν] {n c t : Nat} {X : Arr3 α}
    (hX : Rect3 n c t X) (hn : 0 < n) (hc : 0 < c) (ht : 0 < t) (i tm : String) (hne : i ≠ tm)
    (names : List ν) (hl : names.length = c) (hnd : names.Nodup) (k : Bool) (labels : List Int)
    (hll : labels.length = n) (hlnd : labels.Nodup) :
    fromMIToNested (miOfL i tm names labels X) (some i) k = .ok (nestedOf names k X) :=
  fromMIToNested_labelled hX hn hc ht i tm hne names hl hnd k labels hll hlnd

/-- … and so does multi-index → 3-D array; hence both agree with the direct nested → 3-D array -/
theorem mi_to_arr3_keeps_instance_order {n c t : Nat} {X : Arr3 α} (hX : Rect3 n c t X)
    (hn : 0 < n) (hc : 0 < c) (ht : 0 < t) (i tm : String) (hne : i ≠ tm) (names : List ν)
    (hl : names.length = c) (labels : List Int) (hll : labels.length = n) (hlnd : labels.Nodup) :
    fromMITo3d (miOfL i tm names labels X) (some i) (some tm) = .ok X :=
  fromMITo3d_labelled hX hn hc ht i tm hne names hl labels hll hlnd

/-! ### what the canonical multi-index frame and long table contain (validation of the specs) -/

/-- the rows of the multi-index frame holding `X` are keyed `(0,0), (0,1), …, (n-1,t-1)` in
lexicographic order … -/
theorem mi_keys_spec {n c t : Nat} {X : Arr3 α} (hX : Rect3 n c t X) (hn : 0 < n) (hc : 0 < c) :
    (miRows X).map (·.1) = ((List.range n).map (fun i : Nat =>
      (List.range t).map (fun q : Nat => ((i : Int), (q : Int))))).flatten :=
  miRows_keys hX hn hc

/-- … and the frame, read column by column, is each variable's series instance after instance:
column `j` = `X[0][j] ++ X[1][j] ++ …` -/
theorem mi_columns_spec {n c t : Nat} {X : Arr3 α} (hX : Rect3 n c t X) (hn : 0 < n) (hc : 0 < c) :
    transposeW c ((miRows X).map (·.2)) = (transposeW c X).map List.flatten := by
  rw [miRows_vals, rect_nTime hX hn hc, cols_miRows hX]

/-- the long table has exactly one row per (instance, time, variable): `n·t·c` rows with pairwise
distinct keys (together with `long_rows_complete`: its rows are exactly the cells of the panel) -/
theorem long_rows_keys_nodup (names : List ν) {n c t : Nat} {X : Arr3 α} (hX : Rect3 n c t X)
    (hn : 0 < n) (hc : 0 < c) (hl : names.length = c) (hnd : names.Nodup) :
    ((longRowsM names X).map (fun r => (r.1, r.2.1, r.2.2.1))).Nodup ∧
    (longRowsM names X).length = (n * t) * c := by
  have hrows : ∀ r ∈ miRows X, r.2.length = names.length := by
    intro r hr; rw [hl]; exact miRows_rowsLen hX hn hc r hr
  have hk := melt_keys names (miRows X) hrows
  have hkn : ((miRows X).map (·.1)).Nodup :=
    (miRows_keys_sorted hX hn hc).imp (fun {a b} h => ne_of_keyLt a b h)
  have hnd2 := nodup_product_keys names _ hnd hkn
  rw [← hk] at hnd2
  constructor
  · unfold longRowsM
    rw [List.map_map]
    have : ((fun r : Int × Int × ν × α => (r.1, r.2.1, r.2.2.1)) ∘
        fun e : ((Int × Int) × ν) × α => (e.1.1.1, e.1.1.2, e.1.2, e.2))
        = (fun k : (Int × Int) × ν => (k.1.1, k.1.2, k.2)) ∘ (·.1) := rfl
    rw [this, ← List.map_map]
    unfold List.Nodup at hnd2 ⊢
    rw [List.pairwise_map]
    exact hnd2.imp (by
      intro a b h e
      apply h
      obtain ⟨⟨a1, a2⟩, a3⟩ := a
      obtain ⟨⟨b1, b2⟩, b3⟩ := b
      simp only [Prod.mk.injEq] at e ⊢
      exact ⟨⟨e.1, e.2.1⟩, e.2.2⟩)
  · unfold longRowsM
    rw [List.length_map]
    have h1 := congrArg List.length hk
    rw [List.length_map] at h1
    rw [h1]
    have hlen : (miRows X).length = n * t := by
      have := congrArg List.length (miRows_keys hX hn hc)
      rw [List.length_map] at this
      rw [this]
      simp [List.length_flatten, List.map_map, Function.comp_def, List.map_const']
    simp [List.length_flatten, List.map_map, Function.comp_def, List.map_const',
      hlen, hl, Nat.mul_comm]

/-! ### every path over all five containers -/

/-- A conversion path of ANY length over nested frame, 3-D array, multi-index frame, long table
and 2-D table whose bookkeeping `path5` is defined (arguments fit, names distinct and not
reserved) returns the canonical container of the final shape holding the panel the bookkeeping
predicts: the SAME panel, except that a long table hands the variables back in sorted-name order
(`sortVarsNames` / `sortVarsPanel`: every name with its own data) and a 2-D table read back is one variable of
length `c·t` (`panelOfRows`).  The invariant (rectangular panel of the recorded dimensions, fitting
names) holds at the end, so paths compose. -/
theorem path5_preserves_panel [DecidableEq ν] (ops : NameOps ν) (reserved : ν → Bool)
    (hd : ∀ c, (defaultNames ops c).Nodup) (hnle : TotalLE (fun a b : ν => !ops.lt b a))
    {n : Nat} (hn : 0 < n) (hs : List (Hop ν)) (st st' : PState ν α) (inv : Inv n st)
    (hp : path5 ops reserved hs st = some st') :
    applyPath ops reserved hs (holds5 st.shape st.X) = .ok (holds5 st'.shape st'.X) ∧ Inv n st' :=
  applyPath5_holds ops reserved hd hnle hn hs st st' inv hp

/-- path independence over all five containers: two paths of any lengths from the same container
whose bookkeeping ends in the same state return the same result -/
theorem path5_independence [DecidableEq ν] (ops : NameOps ν) (reserved : ν → Bool)
    (hd : ∀ c, (defaultNames ops c).Nodup) (hnle : TotalLE (fun a b : ν => !ops.lt b a))
    {n : Nat} (hn : 0 < n) (p q : List (Hop ν)) (st st1 st2 : PState ν α) (inv : Inv n st)
    (hp : path5 ops reserved p st = some st1) (hq : path5 ops reserved q st = some st2)
    (hs : st1.shape = st2.shape) (hx : st1.X = st2.X) :
    applyPath ops reserved p (holds5 st.shape st.X) = applyPath ops reserved q (holds5 st.shape st.X) := by
  rw [(applyPath5_holds ops reserved hd hnle hn p st st1 inv hp).1,
    (applyPath5_holds ops reserved hd hnle hn q st st2 inv hq).1, hs, hx]

/-! ### time labels of Series cells, row order of multi-index frames -/

/-- nested frame whose Series cells carry ANY time index `tl` (one label per reading, in any order) →
multi-index: the rows of every instance are the cells' readings in CELL order (the values and the
instance level are those of the positional conversion) and row `q` of every instance is keyed by the
cell's own label `tl[q]` — no re-ordering by label -/
theorem nested_mi_keeps_time_order {n c t : Nat} {X : Arr3 α} (hX : Rect3 n c t X) (hn : 0 < n)
    (hc : 0 < c) (names : List ν) (hl : names.length = c) (k : Bool) (i tm : Option String)
    (tl : List Int) (htl : tl.length = t) :
    ∃ M, fromNestedToMITx none tl (nestedOf names k X) i tm = .ok M ∧ M.names = names ∧
      M.rows.map (·.2) = (miRows X).map (·.2) ∧ M.rows.map (·.1.1) = (miRows X).map (·.1.1) ∧
      M.rows.map (·.1.2) = ((List.range n).map (fun _ => tl)).flatten :=
  ⟨_, fromNestedToMITx_ok hX hn hc names hl k i tm tl, rfl, relabelTimes_vals _ _,
    relabelTimes_inst _ _, relabelTimes_time hX hn hc tl htl⟩

/-- … hence nested (any distinct time labels, any order) → multi-index → 3-D array is the panel,
i.e. equals the direct nested → 3-D array conversion (`nested_to_arr3_eq_panel`) -/
theorem nested_mi_arr3_any_time_labels {n c t : Nat} {X : Arr3 α} (hX : Rect3 n c t X) (hn : 0 < n)
    (hc : 0 < c) (ht : 0 < t) (i tm : String) (hne : i ≠ tm) (names : List ν)
    (hl : names.length = c) (k : Bool) (tl : List Int) (htl : tl.length = t) (hnd : tl.Nodup) :
    (fromNestedToMITx none tl (nestedOf names k X) (some i) (some tm)).bind
      (fun M => fromMITo3d M (some i) (some tm)) = .ok X := by
  rw [fromNestedToMITx_ok hX hn hc names hl k (some i) (some tm) tl]
  simp only [Except.bind, Option.getD]
  exact fromMITo3d_timeLabelled hX hn hc ht i tm hne names hl tl htl hnd

/-- `from_multi_index_to_nested` reads the rows of an instance BY LABEL: two frames with the same level /
column names, the same instances in the same order of first appearance and, for every instance, the same
rows in the same order give the same nested frame, however the rows of different instances are
interleaved (time-major, woven, …).  With `M` the canonical instance-major frame of a panel
(`mi_to_nested_keeps_instance_order`) every such re-ordering converts to the panel's nested frame. -/
theorem mi_to_nested_row_order_irrelevant [DecidableEq ν] (M M' : MI ν α) (k : Bool)
    (h1 : M'.inst = M.inst) (h2 : M'.time = M.time) (h3 : M'.names = M.names)
    (hne : M.inst ≠ M.time)
    (hr : ∀ r ∈ M.rows.map (·.2), r.length = M.names.length)
    (hr' : ∀ r ∈ M'.rows.map (·.2), r.length = M.names.length)
    (hids : (M'.rows.map (·.1.1)).eraseDups = (M.rows.map (·.1.1)).eraseDups)
    (hxs : ∀ id, xsCol (M'.rows.map (·.1.1)) id (M'.rows.map (·.2))
                = xsCol (M.rows.map (·.1.1)) id (M.rows.map (·.2))) :
    fromMIToNested M' (some M.inst) k = fromMIToNested M (some M.inst) k :=
  fromMIToNested_rowOrder M M' k h1 h2 h3 hne hr hr' hids hxs

/-- `from_multi_index_to_3d_numpy` (since fix 319b294) does not depend on how the instances are interleaved
either: same instances in the same order of first appearance, same number of distinct time labels, every
instance's own rows in the same order ⇒ same array -/
theorem mi_to_arr3_row_order_irrelevant (M M' : MI ν α)
    (h1 : M'.inst = M.inst) (h2 : M'.time = M.time) (h3 : M'.names = M.names)
    (hne : M.inst ≠ M.time)
    (hids : (M'.rows.map (·.1.1)).eraseDups = (M.rows.map (·.1.1)).eraseDups)
    (hT : ((M'.rows.map (·.1.2)).eraseDups).length = ((M.rows.map (·.1.2)).eraseDups).length)
    (hxs : ∀ id, xsCol (M'.rows.map (·.1.1)) id (M'.rows.map (·.2))
                = xsCol (M.rows.map (·.1.1)) id (M.rows.map (·.2))) :
    fromMITo3d M' (some M.inst) (some M.time) = fromMITo3d M (some M.inst) (some M.time) :=
  fromMITo3d_rowOrder M M' h1 h2 h3 hne hids hT hxs

/-- every path yields the direct conversion, for ANY row order: a multi-index frame `M'` that holds the
panel `X` (instance identifiers `labels`: distinct, any order) with its rows interleaved in any way — same
level / column names as the canonical frame, instances first appearing in the panel's order, every
instance's rows in time order — converts to `X` directly, and multi-index → nested → 3-D array gives the
same `X` -/
theorem mi_any_row_order_nested_arr3_eq_direct [DecidableEq ν] {n c t : Nat} {X : Arr3 α}
    (hX : Rect3 n c t X) (hn : 0 < n) (hc : 0 < c) (ht : 0 < t) (i tm : String) (hne : i ≠ tm)
    (names : List ν) (hl : names.length = c) (hnd : names.Nodup) (k : Bool) (labels : List Int)
    (hll : labels.length = n) (hlnd : labels.Nodup) (M' : MI ν α)
    (h1 : M'.inst = i) (h2 : M'.time = tm) (h3 : M'.names = names)
    (hr' : ∀ r ∈ M'.rows.map (·.2), r.length = c)
    (hids : (M'.rows.map (·.1.1)).eraseDups = labels)
    (hT : ((M'.rows.map (·.1.2)).eraseDups).length = t)
    (hxs : ∀ id, xsCol (M'.rows.map (·.1.1)) id (M'.rows.map (·.2))
                = xsCol ((miOfL i tm names labels X).rows.map (·.1.1)) id ((miOfL i tm names labels X).rows.map (·.2))) :
    fromMITo3d M' (some i) (some tm) = .ok X ∧
    (fromMIToNested M' (some i) k).bind fromNestedTo3d = .ok X := by
  have hidsC : ((miOfL i tm names labels X).rows.map (·.1.1)).eraseDups = labels :=
    instIds_relabel hX hn hc ht labels hll hlnd
  have hTC : (((miOfL i tm names labels X).rows.map (·.1.2)).eraseDups).length = t := by
    show ((((relabelInstances labels (miRows X)).map (·.1.2))).eraseDups).length = t
    rw [relabel_time, timeIds_miRows hX hn hc]; simp
  have hrC : ∀ r ∈ (miOfL i tm names labels X).rows.map (·.2), r.length = (miOfL i tm names labels X).names.length := by
    intro r hr
    have hr2 : r ∈ (miRows X).map (·.2) := by
      have : (miOfL i tm names labels X).rows.map (·.2) = (miRows X).map (·.2) := relabel_vals _ _
      rw [this] at hr; exact hr
    obtain ⟨r0, hr0, rfl⟩ := List.mem_map.mp hr2
    show r0.2.length = names.length
    rw [hl]; exact miRows_rowsLen hX hn hc r0 hr0
  constructor
  · have := fromMITo3d_rowOrder (miOfL i tm names labels X) M' h1 h2 h3 hne (hids.trans hidsC.symm)
      (hT.trans hTC.symm) hxs
    rw [show (miOfL i tm names labels X).inst = i from rfl, show (miOfL i tm names labels X).time = tm from rfl] at this
    rw [this, fromMITo3d_labelled hX hn hc ht i tm hne names hl labels hll hlnd]
  · have := fromMIToNested_rowOrder (miOfL i tm names labels X) M' k h1 h2 h3 hne hrC
      (by intro r hr; show r.length = names.length; rw [hl]; exact hr' r hr) (hids.trans hidsC.symm) hxs
    rw [show (miOfL i tm names labels X).inst = i from rfl] at this
    rw [this, fromMIToNested_labelled hX hn hc ht i tm hne names hl hnd k labels hll hlnd]
    simp only [Except.bind]
    exact fromNestedTo3d_ok hX hn hc names hl k

/-! ### non-vacuity: concrete panels / frames meeting the hypotheses -/

-- countdown time labels: the rows keep the cells' order and carry the cells' labels
example : fromNestedToMITx none [2, 1, 0] (nestedOf [Name.s "a"] false ([[[5, 6, 7]], [[8, 9, 10]]] : Arr3 Nat))
    (some "i") (some "t")
    = .ok ⟨"i", "t", [Name.s "a"], [((0, 2), [5]), ((0, 1), [6]), ((0, 0), [7]), ((1, 2), [8]), ((1, 1), [9]), ((1, 0), [10])]⟩ := by rfl
-- a time-major frame and the instance-major frame of the same panel give the same nested frame
example : fromMIToNested (⟨"case", "t", [Name.s "a"], [((0, 0), [1]), ((1, 0), [3]), ((0, 1), [2]), ((1, 1), [4])]⟩ : MI Name Nat)
      (some "case") false
    = fromMIToNested (miOf "case" "t" [Name.s "a"] ([[[1, 2]], [[3, 4]]] : Arr3 Nat)) (some "case") false := by rfl
-- … and so does `from_multi_index_to_3d_numpy` since fix 319b294 (was [[[1, 3]], [[2, 4]]]: regression witness of m3:row-order-ignored)
example : fromMITo3d (⟨"case", "t", [Name.s "a"], [((0, 0), [1]), ((1, 0), [3]), ((0, 1), [2]), ((1, 1), [4])]⟩ : MI Name Nat)
      (some "case") (some "t") = .ok [[[1, 2]], [[3, 4]]] := by rfl


example : Rect3 2 2 3 ([[[1, 2, 3], [4, 5, 6]], [[7, 8, 9], [10, 11, 12]]] : Arr3 Nat) := by
  simp [Rect3]
example : WFNested 2 2 2 false (nestedOf ["b", "a"] false ([[[1, 2], [3, 4]], [[5, 6], [7, 8]]] : Arr3 Nat)) := by
  simp [WFNested, nestedOf, Nested.names, nCols, transposeW, mkCell]
example : (defaultNames nameOps 12).Nodup := nameOps_defaultNames_nodup 12
example : TotalLE (fun a b : Name => !nameOps.lt b a) := totalLE_nameOps
example : [Name.i 2, Name.i 10, Name.s "a", Name.s "b"].Pairwise (fun a b => (!nameOps.lt b a) = true) := by decide
example : [Name.s "b", Name.s "a"].any reservedName = false := by decide
example : pathShape nameOps 2 [Hop.nm none none, Hop.m3 (some "instance") (some "timepoints"),
    Hop.a3n none true] (Shape.nested [Name.s "b", Name.s "a"] false)
    = some (Shape.nested (defaultNames nameOps 2) true) := by
  simp [pathShape, hopShape]
example : fromNestedTo3d (nestedOf ["b", "a"] true ([[[1, 2], [3, 4]], [[5, 6], [7, 8]]] : Arr3 Nat))
    = .ok [[[1, 2], [3, 4]], [[5, 6], [7, 8]]] := by rfl

example : (path5 nameOps reservedName [Hop.nl none none none, Hop.ln "index" "time_index" "column" none,
    Hop.n2 true, Hop.t2n none false, Hop.n3]
    (⟨.tri (.nested [Name.s "b", Name.s "a"] true), 2, 2, [[[1, 2], [3, 4]]]⟩ : PState Name Nat)).map
      (fun st => (st.shape, st.c, st.t, st.X))
    = some (.tri .arr3, 1, 4, [[[3, 4, 1, 2]]]) := by rfl
example : Inv 1 (⟨.tri (.nested [Name.s "b", Name.s "a"] true), 2, 2, [[[1, 2], [3, 4]]]⟩ : PState Name Nat) :=
  ⟨by simp [Rect3], by decide, by decide, by simp [Shape5.ok, Shape.ok]⟩

example : fromMIToNested (miOfL "case" "t" [Name.s "a"] [2, 0, 3, 1]
    ([[[0, 1]], [[10, 11]], [[20, 21]], [[30, 31]]] : Arr3 Nat)) (some "case") false
    = .ok (nestedOf [Name.s "a"] false [[[0, 1]], [[10, 11]], [[20, 21]], [[30, 31]]]) := by rfl

end SkVerif.C15
