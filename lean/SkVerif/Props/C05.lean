/-
C05  Reduction feeds regressors exactly the lagged windows, never the future.
Property theorems about SkVerif/Model/Reduce.lean against SkVerif/Spec/Reduce.lean.
Only theorems + non-vacuity examples here; lemmas are in SkVerif/Lemmas/Reduce*.lean.

Conventions: `V : Vals α` are the three value operations of the code (padding zero, NaN, NaN/inf test),
`R : Regressor α` is an arbitrary regressor (any function from training data to a predictor),
`d : α` is an arbitrary default: every statement holds for every `d`, i.e. no position outside the
data is ever read.  `zf = ofLists d y X` is the series as a function (variable 0 = y).
-/
import SkVerif.Model.Reduce
import SkVerif.Spec.Reduce
import SkVerif.Lemmas.ReduceSwt
import SkVerif.Lemmas.ReducePredict
import SkVerif.Lemmas.ReduceRec
import SkVerif.Lemmas.ReduceFit
import SkVerif.Lemmas.ReduceRun
namespace SkVerif.C05
open SkVerif SkVerif.Reduce SkVerif.Spec.Reduce

variable {α : Type}

/-- the last `wl` observations of `y` hold no NaN/inf (otherwise the code forecasts NaN) -/
abbrev FiniteLastWindow (V : Vals α) (y : List α) (wl : Nat) : Prop :=
  ∀ v ∈ y.drop (y.length - wl), V.bad v = false

/-- **Training rows and targets.**  The sliding-window transform returns, for every start position
`r = 0 … n - wl - hmax`, the row `z[r .. r+wl)` (per variable; flattened variable-major for a
tabular regressor) and for each requested step `h` the target `y[r + wl + h - 1]`. -/
theorem swt_rows_eq_spec (V : Vals α) (d : α) (y : List α) (X : Option (List (List α))) (nc wl : Nat)
    (fh : List Int) (hm : Int) (sci : Scitype) (hv : ValidFit y X nc wl fh hm) :
    swt V y (.int wl) fh X sci = .ok
      (trainTargets (ofLists d y X) y.length wl hm.toNat (fh.map Int.toNat),
       trainRows (ofLists d y X) y.length (nc + 1) wl hm.toNat (sci == .tabular)) :=
  Lem.Reduce.swt_ok V d y X nc wl fh sci hm hv.rect hv.wl_pos hv.fh_pos
    (Lem.Reduce.le_last_of_sorted fh hm hv.fh_sorted hv.fh_last) hv.fh_last hv.long_enough

/-- **All full windows, each once.**  There are exactly `n - wl - hmax + 1 ≥ 1` training rows and
target rows, and row number `r` is the window that starts at position `r` (so every start position
`0 … n - wl - hmax` occurs exactly once, in time order). -/
theorem swt_row_count (V : Vals α) (d : α) (y : List α) (X : Option (List (List α))) (nc wl : Nat)
    (fh : List Int) (hm : Int) (sci : Scitype) (hv : ValidFit y X nc wl fh hm)
    (yt : List (List α)) (Xt : List (Inst α)) (h : swt V y (.int wl) fh X sci = .ok (yt, Xt)) :
    Xt.length = y.length - wl - hm.toNat + 1 ∧ yt.length = y.length - wl - hm.toNat + 1 ∧
    ∀ r, r < y.length - wl - hm.toNat + 1 →
      Xt[r]? = some (present (sci == .tabular) (window (ofLists d y X) (nc + 1) wl r)) ∧
      yt[r]? = some (fh.map fun h => target (ofLists d y X) wl r h.toNat) := by
  rw [swt_rows_eq_spec V d y X nc wl fh hm sci hv] at h
  injection h with h
  injection h with h1 h2
  subst h1; subst h2
  have hl := hv.long_enough
  have hR : nRows y.length wl hm.toNat = y.length - wl - hm.toNat + 1 := by unfold nRows; omega
  refine ⟨by simp [trainRows, hR], by simp [trainTargets, hR], ?_⟩
  intro r hr
  simp [trainRows, trainTargets, hR, hr]

/-- **No row contains its own target or any later value.**  Row `r` is a function of the observations
at positions `< r + wl` only: two series that agree before position `r + wl` produce the same row `r`,
whatever they hold from `r + wl` on — while every target of row `r` sits at a position `≥ r + wl`
(`target zf wl r h = zf (r + wl + h - 1) 0` with `h ≥ 1`, see `swt_row_count`). -/
theorem swt_no_future (V : Vals α) (d : α) (y y' : List α) (X X' : Option (List (List α))) (nc wl : Nat)
    (fh : List Int) (hm : Int) (sci : Scitype) (hv : ValidFit y X nc wl fh hm) (hv' : ValidFit y' X' nc wl fh hm)
    (hn : y.length = y'.length) (r : Nat)
    (hagree : ∀ t v, t < r + wl → ofLists d y X t v = ofLists d y' X' t v)
    (yt yt' : List (List α)) (Xt Xt' : List (Inst α))
    (h : swt V y (.int wl) fh X sci = .ok (yt, Xt)) (h' : swt V y' (.int wl) fh X' sci = .ok (yt', Xt')) :
    Xt[r]? = Xt'[r]? ∧
    ∀ h ∈ fh, r + wl ≤ r + wl + h.toNat - 1 := by
  rw [swt_rows_eq_spec V d y X nc wl fh hm sci hv] at h
  rw [swt_rows_eq_spec V d y' X' nc wl fh hm sci hv'] at h'
  injection h with h; injection h with _ h2
  injection h' with h'; injection h' with _ h2'
  subst h2; subst h2'
  constructor
  · have hwin : present (sci == .tabular) (window (ofLists d y X) (nc + 1) wl r) =
        present (sci == .tabular) (window (ofLists d y' X') (nc + 1) wl r) := by
      congr 1
      unfold window
      apply List.map_congr_left
      intro v _
      apply List.map_congr_left
      intro k hk
      have := List.mem_range.mp hk
      exact hagree _ _ (by omega)
    by_cases hr : r < nRows y'.length wl hm.toNat
    · simp [trainRows, hn, hr, hwin]
    · simp [trainRows, hn, hr]
  · intro h hh
    have := hv.fh_pos h hh
    omega

/-- **No padding leaks.**  The cube `Zt` is pre-filled with zeros; nothing of that padding survives
the slice: the result does not depend on what the padding value (or any other value operation) is. -/
theorem swt_no_padding_leak (V V' : Vals α) (y : List α) (X : Option (List (List α))) (nc wl : Nat)
    (fh : List Int) (hm : Int) (sci : Scitype) (hv : ValidFit y X nc wl fh hm) :
    swt V y (.int wl) fh X sci = swt V' y (.int wl) fh X sci := by
  rw [swt_rows_eq_spec V V.zero y X nc wl fh hm sci hv, swt_rows_eq_spec V' V.zero y X nc wl fh hm sci hv]

/-- **Too short a series is rejected** (ValueError) instead of being padded: when not even one full
window has its furthest target inside the series. -/
theorem swt_rejects_short_series (V : Vals α) (y : List α) (X : Option (List (List α))) (nc wl : Nat)
    (fh : List Int) (hm : Int) (sci : Scitype) (hr : Rect y X nc) (hwl : 1 ≤ wl) (hpos : ∀ h ∈ fh, 1 ≤ h)
    (hlast : fh.getLast? = some hm) (hshort : y.length < wl + hm.toNat) :
    swt V y (.int wl) fh X sci = .error .value :=
  Lem.Reduce.swt_short V y X nc wl fh sci hm hr hwl hpos hlast hshort

/-- **Fit-time and predict-time layout agree.**  The instance that the direct and multioutput
strategies build from `_get_last_window` (`X_pred[:,0,:] = y_last; X_pred[:,1:,:] = X_last.T`, then the
tabular reshape) is the specification's window at position `n - wl` presented exactly like a training
row (`trainRows` maps the same `present ∘ window` over the start positions). -/
theorem tabular_layout_consistent (V : Vals α) (d : α) (sci : Scitype) (wl : Nat) (t0 : Int) (y : List α)
    (X : Option (List (List α))) (nc : Nat) (hr : Rect y X nc) (hwl : 1 ≤ wl) (hlen : wl ≤ y.length) :
    predInst V sci (lastWindow t0 (t0 + y.length - 1) wl y X).1 (lastWindow t0 (t0 + y.length - 1) wl y X).2 nc =
      present (sci == .tabular) (window (ofLists d y X) (nc + 1) wl (y.length - wl)) := by
  rw [Lem.Reduce.lastWindow_eq t0 wl y X nc hr hlen hwl]
  exact Lem.Reduce.predInst_eq V d sci wl y X nc hr hlen

section strategies
open Lem.Reduce

/-- **Direct strategy, end to end.**  `make_reduction(R, "direct", wl).fit(y, X, fh).predict()`:
one regressor clone per requested step `h` is fitted on the lagged windows with the targets
`y[r + wl + h - 1]`; at prediction time every clone is fed the last `wl` observed values (laid out like
a training row) and the forecast returned for step `h`, labelled `cutoff + h`, is the output of the clone
trained on the step-`h` targets — for contiguous and gapped horizons alike. -/
theorem direct_predict_uses_last_window (V : Vals α) (R : Regressor α) (d : α) (sci : Scitype) (wl : Nat)
    (t0 : Int) (y : List α) (X Xp : Option (List (List α))) (nc : Nat) (fh : List Int) (hm : Int)
    (fhPred : Option (List Int)) (hv : ValidFit y X nc wl fh hm) (hp : FiniteLastWindow V y wl)
    (hfp : fhPred = none ∨ fhPred = some fh) :
    let zf := ofLists d y X
    let rows := trainRows zf y.length (nc + 1) wl hm.toNat (sci == .tabular)
    let tf := fun (h : Int) => targetsFor zf y.length wl hm.toNat h.toNat
    let x := lastInst zf y.length (nc + 1) wl (sci == .tabular)
    run V R .direct sci (.int wl) t0 y X (some fh) .no fhPred Xp =
      (fh.map (fun h => Call.fit rows (.vec (tf h))) ++
         List.zipWith (fun i h => Call.predict i x [R.train rows (tf h) x]) (List.range fh.length) fh,
       .ok (fh.map fun h => (t0 + y.length - 1 + h, R.train rows (tf h) x))) := by
  intro zf rows tf x
  have hm1 : 1 ≤ hm := hv.fh_pos hm (List.mem_of_getLast? hv.fh_last)
  have hne : fh ≠ [] := by intro h; have := hv.fh_last; simp [h] at this
  have hy : y ≠ [] := by
    intro h; have h1 := hv.long_enough; have h2 := hv.wl_pos; rw [h] at h1; simp at h1; omega
  have hck := checkFh_sorted fh hv.fh_sorted hne
  have hle := le_last_of_sorted fh hm hv.fh_sorted hv.fh_last
  have hset : setFh (requiredFh .direct) false none (some fh) = .ok (some fh) := by
    simp [setFh, requiredFh, hck, bind, Except.bind]
  have hjobs := fitJobs_direct V d y X nc wl (some wl) fh sci hm hv.rect hv.wl_pos hv.fh_pos hle hv.fh_last hv.long_enough
  have hfit := fit_ok V R .direct sci wl t0 y X (some fh) (some fh) _ hy hv.wl_pos hset hjobs
  have hpred := predict_direct V d sci wl t0 y X Xp nc fh fhPred
    (numbered 0 ((fh.map fun h => (rows, Target.vec (tf h))).map (trainJob R))) (fh.map fun h => (rows, Target.vec (tf h))).length
    hv.rect hv.wl_pos (by have := hv.long_enough; omega) hv.fh_pos hck hfp hp
  simp only [fittedFc, rows, tf, zf] at hpred
  simp only [run, hfit, hpred, rows, tf, zf, x]
  rw [List.map_map, numbered_map_snd, List.map_map, List.map_map, numbered_map, zipWith_map_self]
  simp [Function.comp_def, trainJob, applyEst]
end strategies
