/- Property theorems for C05 (stub: not built yet). -/
namespace SkVerif.C05
end SkVerif.C05
