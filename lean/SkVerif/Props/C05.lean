/-
C05  Reduction feeds regressors exactly the lagged windows, never the future.
Property theorems about SkVerif/Model/Reduce.lean against SkVerif/Spec/Reduce.lean.
Only theorems + non-vacuity examples here; lemmas are in SkVerif/Lemmas/Reduce*.lean.

Conventions: `V : Vals α` are the three value operations of the code (padding zero, NaN, NaN/inf test),
`R : Regressor α` is an arbitrary regressor (any function from training data to a predictor),
`d : α` is an arbitrary default: every statement holds for every `d`, i.e. no position outside the
data is ever read.  `zf = ofLists d y X` is the series as a function (variable 0 = y).
-/
import SkVerif.Model.Reduce
import SkVerif.Spec.Reduce
import SkVerif.Lemmas.ReduceSwt
import SkVerif.Lemmas.ReducePredict
import SkVerif.Lemmas.ReduceRec
import SkVerif.Lemmas.ReduceFit
import SkVerif.Lemmas.ReduceRun
namespace SkVerif.C05
open SkVerif SkVerif.Reduce SkVerif.Spec.Reduce

variable {α : Type}

/-- the last `wl` observations of `y` hold no NaN/inf (otherwise the code forecasts NaN) -/
abbrev FiniteLastWindow (V : Vals α) (y : List α) (wl : Nat) : Prop :=
  ∀ v ∈ y.drop (y.length - wl), V.bad v = false

/-- **Training rows and targets.**  The sliding-window transform returns, for every start position
`r = 0 … n - wl - hmax`, the row `z[r .. r+wl)` (per variable; flattened variable-major for a
tabular regressor) and for each requested step `h` the target `y[r + wl + h - 1]`. -/
theorem swt_rows_eq_spec (V : Vals α) (d : α) (y : List α) (X : Option (List (List α))) (nc wl : Nat)
    (fh : List Int) (hm : Int) (sci : Scitype) (hv : ValidFit y X nc wl fh hm) :
    swt V y (.int wl) fh X sci = .ok
      (trainTargets (ofLists d y X) y.length wl hm.toNat (fh.map Int.toNat),
       trainRows (ofLists d y X) y.length (nc + 1) wl hm.toNat (sci == .tabular)) :=
  Lem.Reduce.swt_ok V d y X nc wl fh sci hm hv.rect hv.wl_pos hv.fh_pos
    (Lem.Reduce.le_last_of_sorted fh hm hv.fh_sorted hv.fh_last) hv.fh_last hv.long_enough

/-- **All full windows, each once.**  There are exactly `n - wl - hmax + 1 ≥ 1` training rows and
target rows, and row number `r` is the window that starts at position `r` (so every start position
`0 … n - wl - hmax` occurs exactly once, in time order). -/
theorem swt_row_count (V : Vals α) (d : α) (y : List α) (X : Option (List (List α))) (nc wl : Nat)
    (fh : List Int) (hm : Int) (sci : Scitype) (hv : ValidFit y X nc wl fh hm)
    (yt : List (List α)) (Xt : List (Inst α)) (h : swt V y (.int wl) fh X sci = .ok (yt, Xt)) :
    Xt.length = y.length - wl - hm.toNat + 1 ∧ yt.length = y.length - wl - hm.toNat + 1 ∧
    ∀ r, r < y.length - wl - hm.toNat + 1 →
      Xt[r]? = some (present (sci == .tabular) (window (ofLists d y X) (nc + 1) wl r)) ∧
      yt[r]? = some (fh.map fun h => target (ofLists d y X) wl r h.toNat) := by
  rw [swt_rows_eq_spec V d y X nc wl fh hm sci hv] at h
  injection h with h
  injection h with h1 h2
  subst h1; subst h2
  have hl := hv.long_enough
  have hR : nRows y.length wl hm.toNat = y.length - wl - hm.toNat + 1 := by unfold nRows; omega
  refine ⟨by simp [trainRows, hR], by simp [trainTargets, hR], ?_⟩
  intro r hr
  simp [trainRows, trainTargets, hR, hr]

/-- **No row contains its own target or any later value.**  Row `r` is a function of the observations
at positions `< r + wl` only: two series that agree before position `r + wl` produce the same row `r`,
whatever they hold from `r + wl` on — while every target of row `r` sits at a position `≥ r + wl`
(`target zf wl r h = zf (r + wl + h - 1) 0` with `h ≥ 1`, see `swt_row_count`). -/
theorem swt_no_future (V : Vals α) (d : α) (y y' : List α) (X X' : Option (List (List α))) (nc wl : Nat)
    (fh : List Int) (hm : Int) (sci : Scitype) (hv : ValidFit y X nc wl fh hm) (hv' : ValidFit y' X' nc wl fh hm)
    (hn : y.length = y'.length) (r : Nat)
    (hagree : ∀ t v, t < r + wl → ofLists d y X t v = ofLists d y' X' t v)
    (yt yt' : List (List α)) (Xt Xt' : List (Inst α))
    (h : swt V y (.int wl) fh X sci = .ok (yt, Xt)) (h' : swt V y' (.int wl) fh X' sci = .ok (yt', Xt')) :
    Xt[r]? = Xt'[r]? ∧
    ∀ h ∈ fh, r + wl ≤ r + wl + h.toNat - 1 := by
  rw [swt_rows_eq_spec V d y X nc wl fh hm sci hv] at h
  rw [swt_rows_eq_spec V d y' X' nc wl fh hm sci hv'] at h'
  injection h with h; injection h with _ h2
  injection h' with h'; injection h' with _ h2'
  subst h2; subst h2'
  constructor
  · have hwin : present (sci == .tabular) (window (ofLists d y X) (nc + 1) wl r) =
        present (sci == .tabular) (window (ofLists d y' X') (nc + 1) wl r) := by
      congr 1
      unfold window
      apply List.map_congr_left
      intro v _
      apply List.map_congr_left
      intro k hk
      have := List.mem_range.mp hk
      exact hagree _ _ (by omega)
    by_cases hr : r < nRows y'.length wl hm.toNat
    · simp [trainRows, hn, hr, hwin]
    · simp [trainRows, hn, hr]
  · intro h hh
    have := hv.fh_pos h hh
    omega

/-- **No padding leaks.**  The cube `Zt` is pre-filled with zeros; nothing of that padding survives
the slice: the result does not depend on what the padding value (or any other value operation) is. -/
theorem swt_no_padding_leak (V V' : Vals α) (y : List α) (X : Option (List (List α))) (nc wl : Nat)
    (fh : List Int) (hm : Int) (sci : Scitype) (hv : ValidFit y X nc wl fh hm) :
    swt V y (.int wl) fh X sci = swt V' y (.int wl) fh X sci := by
  rw [swt_rows_eq_spec V V.zero y X nc wl fh hm sci hv, swt_rows_eq_spec V' V.zero y X nc wl fh hm sci hv]

/-- **Too short a series is rejected** (ValueError) instead of being padded: when not even one full
window has its furthest target inside the series. -/
theorem swt_rejects_short_series (V : Vals α) (y : List α) (X : Option (List (List α))) (nc wl : Nat)
    (fh : List Int) (hm : Int) (sci : Scitype) (hr : Rect y X nc) (hwl : 1 ≤ wl) (hpos : ∀ h ∈ fh, 1 ≤ h)
    (hlast : fh.getLast? = some hm) (hshort : y.length < wl + hm.toNat) :
    swt V y (.int wl) fh X sci = .error .value :=
  Lem.Reduce.swt_short V y X nc wl fh sci hm hr hwl hpos hlast hshort

/-- **Fit-time and predict-time layout agree.**  The instance that the direct and multioutput
strategies build from `_get_last_window` (`X_pred[:,0,:] = y_last; X_pred[:,1:,:] = X_last.T`, then the
tabular reshape) is the specification's window at position `n - wl` presented exactly like a training
row (`trainRows` maps the same `present ∘ window` over the start positions). -/
theorem tabular_layout_consistent (V : Vals α) (d : α) (sci : Scitype) (wl : Nat) (t0 : Int) (y : List α)
    (X : Option (List (List α))) (nc : Nat) (hr : Rect y X nc) (hwl : 1 ≤ wl) (hlen : wl ≤ y.length) :
    predInst V sci (lastWindow t0 (t0 + y.length - 1) wl y X).1 (lastWindow t0 (t0 + y.length - 1) wl y X).2 nc =
      present (sci == .tabular) (window (ofLists d y X) (nc + 1) wl (y.length - wl)) := by
  rw [Lem.Reduce.lastWindow_eq t0 wl y X nc hr hlen hwl]
  exact Lem.Reduce.predInst_eq V d sci wl y X nc hr hlen

section strategies
open Lem.Reduce

/-- **Direct strategy, end to end.**  `make_reduction(R, "direct", wl).fit(y, X, fh).predict()`:
one regressor clone per requested step `h` is fitted on the lagged windows with the targets
`y[r + wl + h - 1]`; at prediction time every clone is fed the last `wl` observed values (laid out like
a training row) and the forecast returned for step `h`, labelled `cutoff + h`, is the output of the clone
trained on the step-`h` targets — for contiguous and gapped horizons alike. -/
theorem direct_predict_uses_last_window (V : Vals α) (R : Regressor α) (d : α) (sci : Scitype) (wl : Nat)
    (t0 : Int) (y : List α) (X Xp : Option (List (List α))) (nc : Nat) (fh : List Int) (hm : Int)
    (fhPred : Option (List Int)) (hv : ValidFit y X nc wl fh hm) (hp : FiniteLastWindow V y wl)
    (hfp : fhPred = none ∨ fhPred = some fh) :
    let zf := ofLists d y X
    let rows := trainRows zf y.length (nc + 1) wl hm.toNat (sci == .tabular)
    let tf := fun (h : Int) => targetsFor zf y.length wl hm.toNat h.toNat
    let x := lastInst zf y.length (nc + 1) wl (sci == .tabular)
    run V R .direct sci (.int wl) t0 y X (some fh) .no fhPred Xp =
      (fh.map (fun h => Call.fit rows (.vec (tf h))) ++
         List.zipWith (fun i h => Call.predict i x [R.train rows (tf h) x]) (List.range fh.length) fh,
       .ok (fh.map fun h => (t0 + y.length - 1 + h, R.train rows (tf h) x))) := by
  intro zf rows tf x
  have hm1 : 1 ≤ hm := hv.fh_pos hm (List.mem_of_getLast? hv.fh_last)
  have hne : fh ≠ [] := by intro h; have := hv.fh_last; simp [h] at this
  have hy : y ≠ [] := by
    intro h; have h1 := hv.long_enough; have h2 := hv.wl_pos; rw [h] at h1; simp at h1; omega
  have hck := checkFh_sorted fh hv.fh_sorted hne
  have hle := le_last_of_sorted fh hm hv.fh_sorted hv.fh_last
  have hset : setFh (requiredFh .direct) false none (some fh) = .ok (some fh) := by
    simp [setFh, requiredFh, hck, bind, Except.bind]
  have hjobs := fitJobs_direct V d y X nc wl (some wl) fh sci hm hv.rect hv.wl_pos hv.fh_pos hle hv.fh_last hv.long_enough
  have hfit := fit_ok V R .direct sci wl t0 y X (some fh) (some fh) _ hy hv.wl_pos hset hjobs
  have hpred := predict_direct V d sci wl t0 y X Xp nc fh fhPred
    (numbered 0 ((fh.map fun h => (rows, Target.vec (tf h))).map (trainJob R))) (fh.map fun h => (rows, Target.vec (tf h))).length
    hv.rect hv.wl_pos (by have := hv.long_enough; omega) hv.fh_pos hck hfp hp
  simp only [fittedFc, rows, tf, zf] at hpred
  simp only [run, hfit, hpred, rows, tf, zf, x]
  simp only [List.map_map, numbered_map, Function.comp_def, trainJob, applyEst, zipWith_range_ignore,
    zipWith_map_self, List.append_nil, Nat.zero_add]

/-- **Multioutput strategy, end to end.**  A single clone is fitted on the lagged windows with one
target column per requested step (`column j` = `y[r + wl + fh[j] - 1]`); at prediction time it is fed
the last `wl` observed values once, and the forecast returned for step `fh[j]` is its `j`-th output. -/
theorem multioutput_predict_uses_last_window (V : Vals α) (R : Regressor α) (d : α) (sci : Scitype) (wl : Nat)
    (t0 : Int) (y : List α) (X Xp : Option (List (List α))) (nc : Nat) (fh : List Int) (hm : Int)
    (fhPred : Option (List Int)) (hv : ValidFit y X nc wl fh hm) (hp : FiniteLastWindow V y wl)
    (hfp : fhPred = none ∨ fhPred = some fh) :
    let zf := ofLists d y X
    let rows := trainRows zf y.length (nc + 1) wl hm.toNat (sci == .tabular)
    let tt := trainTargets zf y.length wl hm.toNat (fh.map Int.toNat)
    let x := lastInst zf y.length (nc + 1) wl (sci == .tabular)
    run V R .multioutput sci (.int wl) t0 y X (some fh) .no fhPred Xp =
      ([Call.fit rows (.mat tt), Call.predict 0 x ((List.range fh.length).map fun j => R.trainM rows tt x j)],
       .ok (List.zipWith (fun h j => (t0 + y.length - 1 + h, R.trainM rows tt x j)) fh (List.range fh.length))) := by
  intro zf rows tt x
  have hne : fh ≠ [] := by intro h; have := hv.fh_last; simp [h] at this
  have hy : y ≠ [] := by
    intro h; have h1 := hv.long_enough; have h2 := hv.wl_pos; rw [h] at h1; simp at h1; omega
  have hck := checkFh_sorted fh hv.fh_sorted hne
  have hle := le_last_of_sorted fh hm hv.fh_sorted hv.fh_last
  have hset : setFh (requiredFh .multioutput) false none (some fh) = .ok (some fh) := by
    simp [setFh, requiredFh, hck, bind, Except.bind]
  have hjobs := fitJobs_multioutput V d y X nc wl (some wl) fh sci hm hv.rect hv.wl_pos hv.fh_pos hle hv.fh_last hv.long_enough
  have hfit := fit_ok V R .multioutput sci wl t0 y X (some fh) (some fh) _ hy hv.wl_pos hset hjobs
  have hpred := predict_multioutput V d sci wl t0 y X Xp nc fh fhPred 0 (R.trainM rows tt) [] 1
    hv.rect hv.wl_pos (by have := hv.long_enough; omega) hv.fh_pos hck hfp hp
  simp only [fittedFc, rows, tt, zf] at hpred
  simp only [run, hfit, numbered, trainJob, List.map_cons, List.map_nil, List.length_cons, List.length_nil,
    List.range_one, List.zipWith_cons_cons, List.zipWith_nil_left, Nat.zero_add, hpred, rows, tt, zf, x]
  simp [List.zipWith_map_right]

/-- every requested step of the recursive strategy has its forecast among the `hmax` recursive outputs -/
theorem recForecast_length (f : List (List α) → α) (zf : Nat → Nat → α) (n nv wl : Nat) (flat : Bool) (d : α)
    (m : Nat) : (recForecast f zf n nv wl flat d m).length = m := by
  unfold recForecast
  suffices h : ∀ sofar, (recTraceFrom f zf n nv wl flat d sofar m).length = m by simp [h]
  induction m with
  | zero => intro sofar; simp [recTraceFrom]
  | succ m ih => intro sofar; simp [recTraceFrom, ih]

/-- **Recursive strategy, end to end.**  A single clone is fitted on the lagged windows with the next
observation as target.  At prediction time it is called once per step `1 … hmax`; at step `i` it is fed the
window ending at the newest value of (observed series ++ its own earlier outputs) — for exogenous columns:
(observed rows ++ the future rows passed to predict) — laid out like a training row, and the forecast
returned for a requested step `h` (contiguous or gapped horizon) is the `h`-th output. -/
theorem recursive_feedback_eq_spec (V : Vals α) (R : Regressor α) (d : α) (sci : Scitype) (wl : Nat)
    (t0 : Int) (y : List α) (X Xp : Option (List (List α))) (nc : Nat) (fh : List Int) (hm : Int)
    (fhFit fhPred : Option (List Int))
    (hr : Rect y X nc) (hwl : 1 ≤ wl) (hlen : wl + 1 ≤ y.length)
    (hpos : ∀ h ∈ fh, 1 ≤ h) (hs : fh.Pairwise (· < ·)) (hlast : fh.getLast? = some hm)
    (hf : FutureRect X Xp nc hm.toNat) (hp : FiniteLastWindow V y wl)
    (hF : fhFit = none ∨ fhFit = some fh) (hP : fhPred = none ∨ fhPred = some fh)
    (hFP : ¬ (fhFit = none ∧ fhPred = none)) :
    let zf := ofLists d y X
    let rows := trainRows zf y.length (nc + 1) wl 1 (sci == .tabular)
    let f := R.train rows (targetsFor zf y.length wl 1 1)
    let zfF := ofLists d y (fullX X Xp)
    run V R .recursive sci (.int wl) t0 y X fhFit .no fhPred Xp =
      (Call.fit rows (.vec (targetsFor zf y.length wl 1 1)) ::
         (recTraceFrom f zfF y.length (nc + 1) wl (sci == .tabular) d [] hm.toNat).map
           (fun (t : Inst α × α) => Call.predict 0 t.1 [t.2]),
       .ok (fh.map fun h => (t0 + y.length - 1 + h,
         (recForecast f zfF y.length (nc + 1) wl (sci == .tabular) d hm.toNat).getD (h - 1).toNat V.zero))) := by
  intro zf rows f zfF
  have hne : fh ≠ [] := by intro h; simp [h] at hlast
  have hy : y ≠ [] := by intro h; rw [h] at hlen; simp at hlen
  have hck := checkFh_sorted fh hs hne
  obtain ⟨stored, hset1, hset2⟩ : ∃ stored, setFh (requiredFh .recursive) false none fhFit = .ok stored ∧
      setFh false true stored fhPred = .ok (some fh) := by
    rcases hF with h | h <;> rcases hP with h' | h' <;> subst h <;> subst h'
    · exact absurd ⟨rfl, rfl⟩ hFP
    · exact ⟨none, by simp [setFh, requiredFh], by simp [setFh, hck, bind, Except.bind]⟩
    · exact ⟨some fh, by simp [setFh, requiredFh, hck, bind, Except.bind], by simp [setFh]⟩
    · exact ⟨some fh, by simp [setFh, requiredFh, hck, bind, Except.bind], by simp [setFh, hck, bind, Except.bind]⟩
  have hjobs := fitJobs_recursive V d y X nc wl (.int wl) stored sci hr hwl hlen
  have hfit := fit_ok V R .recursive sci wl t0 y X fhFit stored _ hy hwl hset1 hjobs
  have hpred := predict_recursive V d sci wl t0 y X Xp nc stored fh fhPred hm 0 (.single f) [] 1
    hr hf hwl (by omega) hpos hlast hset2 hp
  simp only [fittedFc, f, rows, zf, applyEst_single] at hpred
  simp only [run, hfit, numbered, trainJob, List.map_cons, List.map_nil, List.length_cons, List.length_nil,
    List.range_one, List.zipWith_cons_cons, List.zipWith_nil_left, Nat.zero_add, hpred, f, rows, zf, zfF,
    recForecast]
  simp [zipWith_map_self]

/-- **DirRec strategy, end to end.**  The clone for the `i`-th requested step is fitted on rows
"lagged window ++ the true values at the earlier requested steps" with the step's own observation as
target; at prediction time clone `i` is fed "last window ++ the forecasts of the earlier requested steps" —
the same row shape (`dirrecRow`) with each earlier value replaced by its forecast — and the forecast
returned for step `fh[i]` is clone `i`'s output. -/
theorem dirrec_feedback_matches_training_layout (V : Vals α) (R : Regressor α) (d : α) (sci : Scitype)
    (wl : Nat) (t0 : Int) (y : List α) (fh : List Int) (hm : Int) (fhPred : Option (List Int))
    (hv : ValidFit y none 0 wl fh hm) (hp : FiniteLastWindow V y wl)
    (hfp : fhPred = none ∨ fhPred = some fh) :
    let zf := ofLists d y none
    let rowsFor := fun i => dirrecTrainRows zf y.length wl hm.toNat (fh.map Int.toNat) i (sci == .tabular)
    let tf := fun i => targetsFor zf y.length wl hm.toNat (fh.getD i 0).toNat
    let fs := (List.range fh.length).map fun i => R.train (rowsFor i) (tf i)
    let tr := dirrecTrace (sci == .tabular) (y.drop (y.length - wl)) fs []
    run V R .dirrec sci (.int wl) t0 y none (some fh) .no fhPred none =
      ((List.range fh.length).map (fun i => Call.fit (rowsFor i) (.vec (tf i))) ++
         List.zipWith (fun i (t : Inst α × α) => Call.predict i t.1 [t.2]) (List.range fh.length) tr,
       .ok (List.zipWith (fun h (t : Inst α × α) => (t0 + y.length - 1 + h, t.2)) fh tr)) := by
  intro zf rowsFor tf fs tr
  have hne : fh ≠ [] := by intro h; have := hv.fh_last; simp [h] at this
  have hy : y ≠ [] := by
    intro h; have h1 := hv.long_enough; have h2 := hv.wl_pos; rw [h] at h1; simp at h1; omega
  have hck := checkFh_sorted fh hv.fh_sorted hne
  have hle := le_last_of_sorted fh hm hv.fh_sorted hv.fh_last
  have hset : setFh (requiredFh .dirrec) false none (some fh) = .ok (some fh) := by
    simp [setFh, requiredFh, hck, bind, Except.bind]
  have hjobs := fitJobs_dirrec V d y wl (some wl) fh sci hm hv.wl_pos hv.fh_pos hle hv.fh_last hv.long_enough
  have hfit := fit_ok V R .dirrec sci wl t0 y none (some fh) (some fh) _ hy hv.wl_pos hset hjobs
  have hpred := predict_dirrec V sci wl t0 y fh fhPred
    (numbered 0 (((List.range fh.length).map fun i => (rowsFor i, Target.vec (tf i))).map (trainJob R)))
    ((List.range fh.length).map fun i => (rowsFor i, Target.vec (tf i))).length
    hv.wl_pos (by have := hv.long_enough; omega) hv.fh_pos (by simp [numbered_length]) hck hfp hp
  simp only [fittedFc, rowsFor, tf, zf] at hpred
  simp only [run, hfit, hpred, rowsFor, tf, zf, fs, tr]
  rw [numbered_zipWith_fst 0 _ _ (fun i (t : Inst α × α) => Call.predict i t.1 [t.2])]
  simp only [List.map_map, numbered_map, Function.comp_def, trainJob, applyEst_single, zipWith_range_range,
    List.append_nil, Nat.zero_add, List.length_map, List.length_range, List.zipWith_map_right]

/-- **The forecast returned for step `h` is the regressor output for step `h`** (contiguous or gapped
horizon), read off the four end-to-end theorems position by position: the `j`-th returned pair carries
the label `cutoff + fh[j]` and
* direct: the output of the clone trained on the step-`fh[j]` targets,
* multioutput: output number `j` of the clone whose target column `j` holds the step-`fh[j]` targets,
* recursive: the `fh[j]`-th output of the feedback chain (which has exactly `hmax` outputs),
* dirrec: the output of clone `j` in the dirrec trace. -/
theorem returned_step_h_is_output_h (V : Vals α) (R : Regressor α) (d : α) (sci : Scitype) (wl : Nat)
    (t0 : Int) (y : List α) (X Xp : Option (List (List α))) (nc : Nat) (fh : List Int) (hm : Int)
    (hv : ValidFit y X nc wl fh hm) (hp : FiniteLastWindow V y wl) (j : Nat) (hj : j < fh.length) :
    let zf := ofLists d y X
    let rows := trainRows zf y.length (nc + 1) wl hm.toNat (sci == .tabular)
    let x := lastInst zf y.length (nc + 1) wl (sci == .tabular)
    let cutoff := t0 + (y.length : Int) - 1
    -- direct
    ((run V R .direct sci (.int wl) t0 y X (some fh) .no none Xp).2.toOption.bind (·[j]?) =
        some (cutoff + fh[j], R.train rows (targetsFor zf y.length wl hm.toNat fh[j].toNat) x)) ∧
    -- multioutput
    ((run V R .multioutput sci (.int wl) t0 y X (some fh) .no none Xp).2.toOption.bind (·[j]?) =
        some (cutoff + fh[j],
          R.trainM rows (trainTargets zf y.length wl hm.toNat (fh.map Int.toNat)) x j)) ∧
    -- recursive (needs the future exogenous rows when X is given)
    (FutureRect X Xp nc hm.toNat →
      let out := recForecast (R.train (trainRows zf y.length (nc + 1) wl 1 (sci == .tabular)) (targetsFor zf y.length wl 1 1))
        (ofLists d y (fullX X Xp)) y.length (nc + 1) wl (sci == .tabular) d hm.toNat
      (fh[j] - 1).toNat < out.length ∧
      (run V R .recursive sci (.int wl) t0 y X (some fh) .no none Xp).2.toOption.bind (·[j]?) =
        some (cutoff + fh[j], out.getD (fh[j] - 1).toNat V.zero)) ∧
    -- dirrec (no exogenous data)
    (X = none → Xp = none →
      let zf0 := ofLists d y none
      let fs := (List.range fh.length).map fun i =>
        R.train (dirrecTrainRows zf0 y.length wl hm.toNat (fh.map Int.toNat) i (sci == .tabular))
          (targetsFor zf0 y.length wl hm.toNat (fh.getD i 0).toNat)
      let tr := dirrecTrace (sci == .tabular) (y.drop (y.length - wl)) fs []
      (run V R .dirrec sci (.int wl) t0 y X (some fh) .no none Xp).2.toOption.bind (·[j]?) =
        (tr[j]?).map fun t => (cutoff + fh[j], t.2)) := by
  intro zf rows x cutoff
  have hle := le_last_of_sorted fh hm hv.fh_sorted hv.fh_last
  have hfj := hv.fh_pos fh[j] (List.getElem_mem hj)
  have hfj' := hle fh[j] (List.getElem_mem hj)
  refine ⟨?_, ?_, ?_, ?_⟩
  · rw [direct_predict_uses_last_window V R d sci wl t0 y X Xp nc fh hm none hv hp (Or.inl rfl)]
    simp [Except.toOption, hj, cutoff, rows, x, zf]
  · rw [multioutput_predict_uses_last_window V R d sci wl t0 y X Xp nc fh hm none hv hp (Or.inl rfl)]
    simp [Except.toOption, hj, cutoff, rows, x, zf]
  · intro hf out
    have hlen : wl + 1 ≤ y.length := by have := hv.long_enough; have := hv.fh_pos hm (List.mem_of_getLast? hv.fh_last); omega
    refine ⟨by simp only [out, recForecast_length]; omega, ?_⟩
    rw [recursive_feedback_eq_spec V R d sci wl t0 y X Xp nc fh hm (some fh) none hv.rect hv.wl_pos hlen
      hv.fh_pos hv.fh_sorted hv.fh_last hf hp (Or.inr rfl) (Or.inl rfl) (by simp)]
    simp [Except.toOption, hj, cutoff, out, zf]
  · intro hX hXp zf0 fs tr
    subst hX; subst hXp
    have hnc : nc = 0 := by have := hv.rect; simpa [Rect] using this
    subst hnc
    rw [dirrec_feedback_matches_training_layout V R d sci wl t0 y fh hm none hv hp (Or.inl rfl)]
    simp only [Except.toOption, Option.bind_some, List.getElem?_zipWith, hj, List.getElem?_eq_getElem, tr, fs, zf0, cutoff]
    cases h : (dirrecTrace (sci == Scitype.tabular) (List.drop (y.length - wl) y)
        (List.map (fun i => R.train (dirrecTrainRows (ofLists d y none) y.length wl hm.toNat (List.map Int.toNat fh) i (sci == Scitype.tabular))
          (targetsFor (ofLists d y none) y.length wl hm.toNat (fh.getD i 0).toNat)) (List.range fh.length)) [])[j]? <;> simp

/-- … and at fit level: every strategy refuses (ValueError, before any regressor call) a series too
short to yield one training row. -/
theorem fit_rejects_short_series (V : Vals α) (R : Regressor α) (s : Strategy) (sci : Scitype) (wl : Nat)
    (t0 : Int) (y : List α) (X Xp : Option (List (List α))) (nc : Nat) (fh : List Int) (hm : Int)
    (fhPred : Option (List Int)) (upd : Upd α)
    (hr : Rect y X nc) (hwl : 1 ≤ wl) (hpos : ∀ h ∈ fh, 1 ≤ h) (hs : fh.Pairwise (· < ·))
    (hlast : fh.getLast? = some hm) (hX : s = .dirrec → X = none)
    (hshort : y.length < wl + (if s = .recursive then 1 else hm.toNat)) :
    run V R s sci (.int wl) t0 y X (some fh) upd fhPred Xp = ([], .error (.value, .fit)) := by
  have hne : fh ≠ [] := by intro h; simp [h] at hlast
  have hck := checkFh_sorted fh hs hne
  have hwl' : ¬ ((wl : Int) < 1) := by omega
  have hset : ∀ req, setFh req false none (some fh) = .ok (some fh) := by
    intro req; cases req <;> simp [setFh, hck, bind, Except.bind]
  have hjobs : fitJobs V s sci (.int wl) (some wl) y X (some fh) = .error .value := by
    cases s with
    | direct =>
      simp only [fitJobs, allOut_of_pos fh hpos, Bool.not_true, Bool.false_eq_true, if_false,
        swt_short V y X nc wl fh sci hm hr hwl hpos hlast (by simpa using hshort), bind, Except.bind]
    | multioutput =>
      simp only [fitJobs, allOut_of_pos fh hpos, Bool.not_true, Bool.false_eq_true, if_false,
        swt_short V y X nc wl fh sci hm hr hwl hpos hlast (by simpa using hshort), bind, Except.bind]
    | recursive =>
      have := swt_short V y X nc wl [1] sci 1 hr hwl (by simp) (by simp) (by simpa using hshort)
      simp only [fitJobs, wlRawOf, this, bind, Except.bind]
    | dirrec =>
      have hXn := hX rfl
      subst hXn
      simp only [fitJobs, allOut_of_pos fh hpos, Bool.not_true, Bool.false_eq_true, if_false,
        swt_short V y none nc wl fh sci hm hr hwl hpos hlast (by simpa using hshort), bind, Except.bind]
  unfold run fit
  cases hy : y.isEmpty
  · simp only [Bool.false_eq_true, if_false, hset, checkWindowLength, hwl', Int.toNat_natCast, hjobs,
      bind, Except.bind]
  · simp [bind, Except.bind]

/-- **After `update` (no refit) with a block that continues the series, the window is taken from
everything observed so far.**  The cutoff moves to the block's last label and the fitted clones are
untouched, so the four prediction theorems apply verbatim to the extended series `y ++ yNew`
(`X ++ XNew`): the regressors are fed the last `wl` *observed* values, not the last `wl` training values. -/
theorem update_extends_observed_series (V : Vals α) (R : Regressor α) (s : Strategy) (sci : Scitype) (wl : Nat)
    (t0 : Int) (y yNew : List α) (X XNew : Option (List (List α))) (stored : Option (List Int))
    (ests : List (Nat × Est α)) (nfit : Nat) (hne : yNew ≠ []) (hX : ∀ a, X = some a → a.length = y.length) :
    update V R (fittedFc s sci wl t0 y X stored ests nfit) (t0 + y.length) yNew XNew false =
      .ok (fittedFc s sci wl t0 (y ++ yNew)
            (match X, XNew with
              | some a, some b => some (a ++ b)
              | a, _ => a) stored ests nfit, []) := by
  have h : yNew.isEmpty = false := by cases yNew <;> simp_all
  have hoff : (t0 + (y.length : Int) - t0).toNat = y.length := by omega
  have e : t0 + (y.length : Int) + (yNew.length : Int) - 1 = t0 + ((y ++ yNew).length : Int) - 1 := by
    simp only [List.length_append]; omega
  have hm : ∀ {β : Type} (pick : β → β → β) (a b : List β) (n : Nat), n = a.length →
      mergeAt pick n a b = a ++ b := by
    intro β pick a b n hn
    subst hn
    cases b <;> simp [mergeAt, mergeTail]
  unfold update updateMerge fittedFc
  simp only [h, Bool.false_and, Bool.false_eq_true, if_false, hoff, e, hm _ y yNew y.length rfl]
  cases X with
  | none => cases XNew <;> rfl
  | some a =>
    cases XNew with
    | none => rfl
    | some b =>
      have := hm (List.zipWith (pickNew V)) a b y.length (hX a rfl).symm
      simp only [this]

/-- **`update` with refit is `fit` on everything observed so far**: the refit hands the regressor the
lagged windows of the merged series (new values override re-stated ones), whatever block was passed. -/
theorem update_refit_eq_fit (V : Vals α) (R : Regressor α) (fc : Fc α) (u0 : Int) (yNew : List α)
    (XNew : Option (List (List α))) (fh : List Int) (hfh : fc.fh = some fh) (hne : yNew ≠ []) :
    let off := (u0 - fc.t0).toNat
    let y' := mergeAt (pickNew V) off fc.y yNew
    let X' := match fc.X, XNew with
      | some a, some b => some (mergeAt (List.zipWith (pickNew V)) off a b)
      | a, _ => a
    update V R fc u0 yNew XNew true =
      fit V R { fc with y := y', X := X', cutoff := u0 + yNew.length - 1 } fc.t0 y' X' (some fh) := by
  intro off y' X'
  have h : yNew.isEmpty = false := by cases yNew <;> simp_all
  unfold update updateMerge
  simp only [h, Bool.false_and, Bool.false_eq_true, if_false, if_true, hfh]
  rfl

/-- **The window ends at the cutoff, wherever the cutoff is.**  When the cutoff sits at the `m`-th stored
label — the last one after `fit`/refit, an earlier one after `update` with a late, re-stated block or
after `update_predict` (which restores the cutoff but keeps the data it was fed) — prediction behaves
exactly as if only the first `m` observations were stored: nothing observed after the cutoff reaches a
regressor.  (The four end-to-end prediction theorems then apply to `y.take m`.) -/
theorem predict_ignores_data_after_cutoff (V : Vals α) (fc : Fc α) (fh : Option (List Int))
    (Xp : Option (List (List α))) (m : Nat) (hm : fc.cutoff = fc.t0 + (m : Int) - 1) (h1 : 1 ≤ m) :
    predict V fc fh Xp =
      predict V { fc with y := fc.y.take m, X := fc.X.map fun rows => rows.take m } fh Xp := by
  have hk : (fc.cutoff - fc.t0 + 1).toNat = m := by omega
  have hls : ∀ {β : Type} (l : List β) (a : Int), locSlice fc.t0 (l.take m) a fc.cutoff = locSlice fc.t0 l a fc.cutoff := by
    intro β l a
    simp [locSlice, hk, List.take_take]
  have hx : xCols (fc.X.map fun rows => rows.take m) = xCols fc.X := by
    cases hX : fc.X with
    | none => rfl
    | some rows =>
      cases rows with
      | nil => simp [xCols, nCols]
      | cons r rs =>
        obtain ⟨k, rfl⟩ : ∃ k, m = k + 1 := ⟨m - 1, by omega⟩
        simp [xCols, nCols]
  unfold predict predictCore lastWindow
  simp only [hls, hx, Option.isSome_map]
  cases fc.X <;> simp [hls]

/-- **`update_predict` leaves the cutoff where it was — whether it returns or raises** (exogenous data
refused, new data too short for the splitter, empty data, no horizon, a regressor failing in the middle of
the moving-cutoff loop), while the remembered series may have grown: exactly the situation
`predict_ignores_data_after_cutoff` covers, so the next `predict` answers from the true cutoff. -/
theorem update_predict_restores_cutoff (V : Vals α) (R : Regressor α) (fc : Fc α) (u0 : Int) (yNew : List α)
    (Xup : Option (List (List α))) (refit : Bool) (b : Budget) :
    (updatePredict V R fc u0 yNew Xup refit b).2.2.1.cutoff = fc.cutoff := by
  unfold updatePredict
  split
  · rfl
  · split
    · rfl
    · split <;> rfl

/-- **A refused `predict` or a failed input validation changes nothing the window depends on**: whatever
one operation does — succeed, or fail at any point the model covers — the stored data, the cutoff and the
fitted clones afterwards are those the code's ordering leaves, and for `predict` they are untouched
(only the optional-horizon mixin may have stored the new horizon). -/
theorem predict_op_keeps_state (V : Vals α) (R : Regressor α) (fc : Fc α) (b : Budget) (fh : Option (List Int))
    (Xp : Option (List (List α))) :
    let fc' := (stepOp V R fc b (.predict fh Xp)).1
    fc'.y = fc.y ∧ fc'.X = fc.X ∧ fc'.cutoff = fc.cutoff ∧ fc'.t0 = fc.t0 ∧ fc'.ests = fc.ests ∧ fc'.wl_ = fc.wl_ := by
  simp only [stepOp]
  split
  · simp
  · split
    · simp
    · split <;> simp

/-- **Every public construction path builds the same forecaster**: `make_reduction`, the strategy classes
(any `step_length ≥ 1`, which is validated and otherwise unused) and the deprecated factories
`ReducedForecaster` / `ReducedRegressionForecaster` (which accept only `step_length = 1`) — so every clause
above holds for each of them with the `window_length` the caller passed. -/
theorem construction_path_irrelevant (V : Vals α) (R : Regressor α) (via : Via) (step st : Int) (s : Strategy)
    (sci : Scitype) (wl : WLRaw) (t0 : Int) (y : List α) (X : Option (List (List α))) (fhFit : Option (List Int))
    (b : Budget) (ops : List (Op α)) (hc : construct via step = .ok st) (hst : 1 ≤ st) :
    runHist V R via step s sci wl t0 y X fhFit b ops = runHist V R .make 1 s sci wl t0 y X fhFit b ops := by
  have h : ¬ st < 1 := by omega
  have h1 : construct .make 1 = .ok 1 := rfl
  unfold runHist
  simp only [hc, h1, h, if_false]
  simp

/-- the deprecated factories refuse a `step_length` other than 1 -/
theorem deprecated_factories_refuse_step (V : Vals α) (R : Regressor α) (step : Int) (s : Strategy)
    (sci : Scitype) (wl : WLRaw) (t0 : Int) (y : List α) (X : Option (List (List α))) (fhFit : Option (List Int))
    (b : Budget) (ops : List (Op α)) (hs : step ≠ 1) :
    runHist V R .reducedForecaster step s sci wl t0 y X fhFit b ops = ([], .error .value) ∧
    runHist V R .reducedRegressionForecaster step s sci wl t0 y X fhFit b ops = ([], .error .value) := by
  simp [runHist, construct, hs]

/-- **The order in which the user lists the steps is irrelevant**: `check_fh` stores the horizon
sorted, so every statement above (made for the stored, increasing order) covers any permutation. -/
theorem horizon_order_irrelevant (vs : List Int) : checkFh vs = checkFh (sortInts vs) := by
  have hperm := Lem.sortInts_perm vs
  have hnd : (sortInts vs).Nodup ↔ vs.Nodup := hperm.nodup_iff
  have hs : sortInts (sortInts vs) = sortInts vs := Lem.sortInts_of_sorted _ (Lem.sortInts_sorted vs)
  by_cases h : vs.Nodup
  · have h' := hnd.mpr h
    simp [checkFh, FH.checkFh, FH.mk, FH.checkValues, h, h', Except.map, bind, Except.bind, hs]
  · have h' : ¬ (sortInts vs).Nodup := fun hh => h (hnd.mp hh)
    simp [checkFh, FH.checkFh, FH.mk, FH.checkValues, h, h', Except.map, bind, Except.bind]
end strategies

/-! ### non-vacuity: concrete inputs meeting the hypotheses, and the model evaluated on them -/

example : ValidFit [10, 11, 12, 13, 14, 15, 16] (none : Option (List (List Int))) 0 2 [1, 3] 3 :=
  ⟨by simp [Rect], by decide, by decide, by decide, rfl, by decide⟩
example : ValidFit [10, 11, 12, 13, 14] (some [[100, 200], [101, 201], [102, 202], [103, 203], [104, 204]]) 2 2 [2] 2 :=
  ⟨by simp [Rect], by decide, by decide, by decide, rfl, by decide⟩
example : FutureRect (some [[100], [101]]) (some [[7], [8], [9]]) 1 3 := by simp [FutureRect]

/-- integer values; NaN is modelled by a sentinel the test recognises -/
def exVals : Vals Int := { zero := 0, nan := -1, bad := fun v => v == -1, isnan := fun v => v == -1 }
example : FiniteLastWindow exVals [10, 11, 12, 13, 14, 15, 16] 2 := by decide

/-- a toy regressor: weighted sum of the instance plus the sum of its training targets -/
def exReg : Regressor Int where
  train _ y := fun inst => (inst.flatten.zipIdx.map fun (p : Int × Nat) => p.1 * ((p.2 : Int) + 1)).sum + y.sum
  trainM _ Y := fun inst j => inst.flatten.sum + (Y.map fun r => r.getD j 0).sum

-- the transform on upstream's explicit example shape: rows are the lagged windows, targets h steps later
example : swt exVals [10, 11, 12, 13, 14, 15, 16] (.int 2) [1, 3] none .tabular =
    .ok ([[12, 14], [13, 15], [14, 16]], [[[10, 11]], [[11, 12]], [[12, 13]]]) := by rfl
example : swt exVals [10, 11, 12, 13, 14] (.int 2) [2]
      (some [[100, 200], [101, 201], [102, 202], [103, 203], [104, 204]]) .panel =
    .ok ([[13], [14]], [[[10, 11], [100, 101], [200, 201]], [[11, 12], [101, 102], [201, 202]]]) := by rfl
example : swt exVals [10, 11, 12] (.int 2) [2] none .tabular = .error .value := by rfl
-- the recursive chain feeds its own outputs back (gapped horizon [1,3], three regressor calls)
example : (run exVals exReg .recursive .tabular (.int 2) 5 [10, 11, 12, 13] none (some [1, 3]) .no none none).2 =
    .ok [(9, 63), (11, 416)] := by rfl
-- direct with one exogenous column, step 2 only; dirrec and multioutput on a gapped horizon
example : (run exVals exReg .direct .panel (.int 2) 0 [10, 11, 12, 13, 14]
    (some [[100], [101], [102], [103], [104]]) (some [2]) .no none none).2 = .ok [(6, 793)] := by rfl
example : (run exVals exReg .dirrec .tabular (.int 2) 0 [10, 11, 12, 13, 14, 15] none (some [1, 3]) .no none none).2 =
    .ok [(6, 69), (8, 280)] := by rfl
example : (run exVals exReg .multioutput .tabular (.int 2) 0 [10, 11, 12, 13, 14, 15] none (some [1, 3]) .no none none).2 =
    .ok [(6, 54), (8, 58)] := by rfl
-- after an update without refit the window is [20, 30] and the label is counted from the new cutoff 5
example : (run exVals exReg .direct .tabular (.int 2) 0 [10, 11, 12, 13] none (some [1])
    (.batch 4 [20, 30] none false) none none).2 = .ok [(6, 105)] := by rfl
-- a late block re-stating labels 1..2 moves the cutoff to 2: the window is [21, 22] (not the stored tail [14, 15])
example : (run exVals exReg .direct .tabular (.int 2) 0 [10, 11, 12, 13, 14, 15] none (some [1])
    (.batch 1 [21, 22] none false) none none).2 = .ok [(3, 119)] := by rfl
-- update_predict over new data restores the cutoff 3: the window is [12, 13], not the tail of the grown series
example : (run exVals exReg .direct .tabular (.int 2) 0 [10, 11, 12, 13] none (some [1])
    (.updPredict 4 [20, 30, 40] false) none none).2 = .ok [(4, 63)] := by rfl
-- built through the deprecated factory; update_predict over OVERLAPPING data is refused (X passed): the next predict
-- still answers from cutoff 5 with the window [14, 15]
example : (runHist exVals exReg .reducedForecaster 1 .direct .tabular (.int 2) 0 [10, 11, 12, 13, 14, 15] none (some [1]) none
    [.updPredict 2 [20, 30, 40] (some [[1], [2], [3]]) false, .predict none none]).2 =
    .ok [.err .notimpl, .forecast [(6, 98)]] := by rfl
-- built through the strategy class with step_length 3; the regressor raises on its 2nd predict call, in the middle
-- of update_predict's loop: label 4 has been merged, the cutoff is back at 3, the window is [12, 13]
example : (runHist exVals exReg .cls 3 .direct .tabular (.int 2) 0 [10, 11, 12, 13] none (some [1]) (some 1)
    [.updPredict 4 [20, 30, 40, 50] none false, .predict none none]).2 =
    .ok [.err .other, .forecast [(4, 63)]] := by rfl
example : construct .cls 3 = .ok 3 ∧ construct .reducedRegressionForecaster 1 = .ok 1 := ⟨rfl, rfl⟩
-- a non-finite last window forecasts NaN (outside `FiniteLastWindow`)
example : (run exVals exReg .direct .tabular (.int 2) 0 [10, 11, 12, -1] none (some [1]) .no none none).2 =
    .ok [(4, -1)] := by rfl
-- hypotheses of the rejection theorems are satisfiable
example : ([10, 11, 12] : List Int).length < 2 + (2 : Int).toNat := by decide

end SkVerif.C05
