/-
C17  Classifiers return well-formed probabilities consistent with their predictions.
Property theorems about SkVerif/Model/Proba.lean (sktime's own aggregation, arg-max, label decoding,
score, interval features and interval sampling; the ensemble members are arbitrary).
Only theorems + non-vacuity examples here.
-/
import SkVerif.Model.Proba
import SkVerif.Spec.Proba
import SkVerif.Lemmas.ProbaLabels
import SkVerif.Lemmas.ProbaArgmax
import SkVerif.Lemmas.ProbaAvg
import SkVerif.Lemmas.ProbaVotes
import SkVerif.Lemmas.ProbaFeat
import SkVerif.Lemmas.ProbaIntervals
import SkVerif.Lemmas.ProbaAlign
import Mathlib.Data.List.Basic
namespace SkVerif.C17
open SkVerif.C17 SkVerif.C17.Spec

/-! ## classes_ -/

/-- `classes_` is the set of training labels, strictly increasing (so: one column per class seen in
training, in sorted order, independent of the order of first appearance in `y`). -/
theorem classes_sorted_distinct_training_labels (y : List Label) :
    (classesOf y).Pairwise Lem.LabelLt ∧ (classesOf y).Nodup ∧ ∀ a, a ∈ classesOf y ↔ a ∈ y :=
  ⟨Lem.classesOf_sorted y, Lem.classesOf_nodup y, fun a => Lem.mem_classesOf y a⟩

example : classesOf [.str "b", .str "a", .str "b", .str "B"] = [.str "B", .str "a", .str "b"] := by decide +kernel
example : classesOf [.int 7, .int (-3), .int 7, .int 100] = [.int (-3), .int 7, .int 100] := by decide +kernel
example : classesOf [.str "10", .str "9", .str "2"] = [.str "10", .str "2", .str "9"] := by decide +kernel

/-! ## forests and the column ensemble: an average of distributions is a distribution -/

/-- TSF / RISE / STSF `predict_proba`: if every fitted tree returns, for each of the `n` instances, a
distribution over the `K` classes, then so does the forest (one row per instance, one column per
class, entries in [0,1], rows summing to 1) — for every number of trees, classes and instances. -/
theorem avg_of_distributions_is_distribution (K n : Nat) (m : Mat) (ms : List Mat)
    (h : ∀ M ∈ m :: ms, M.length = n ∧ ∀ r ∈ M, r.length = K ∧ IsDist r) :
    ∃ P, forestProba K (m :: ms) = .ok P ∧ P.length = n ∧ ∀ r ∈ P, r.length = K ∧ IsDist r := by
  have hs : ∀ M ∈ m :: ms, sameShape n K M = true := fun M hM =>
    Lem.sameShape_iff.mpr ⟨(h M hM).1, fun r hr => ((h M hM).2 r hr).1⟩
  have hok : ∀ M ∈ m :: ms, Lem.MatOK n K 1 M := fun M hM =>
    ⟨(h M hM).1, fun r hr => Lem.rowOK_of_isDist ((h M hM).2 r hr).1 ((h M hM).2 r hr).2⟩
  refine ⟨_, Lem.forestProba_eq m ms hs, ?_⟩
  have hsum := Lem.sumMats_ok m ms hok
  have hd : (0 : Rat) < ((m :: ms).length : Rat) := by
    simp only [List.length_cons]; exact_mod_cast Nat.succ_pos _
  have e : ((m :: ms).length : Rat) = (ms.length : Rat) + 1 := by simp
  rw [e] at hd ⊢
  exact Lem.scaleMat_dist hd hsum

example : forestProba 2 [[[1, 0], [1/2, 1/2]], [[0, 1], [1/2, 1/2]], [[0, 1], [1, 0]]] =
    .ok [[1/3, 2/3], [2/3, 1/3]] := by decide +kernel

/-- `ColumnEnsembleClassifier.predict_proba`: the same for `np.average` over the members. -/
theorem column_ensemble_avg_is_distribution (K n : Nat) (m : Mat) (ms : List Mat)
    (h : ∀ M ∈ m :: ms, M.length = n ∧ ∀ r ∈ M, r.length = K ∧ IsDist r) :
    ∃ P, avgProba (m :: ms) = .ok P ∧ P.length = n ∧ ∀ r ∈ P, r.length = K ∧ IsDist r := by
  have hs : ∀ M ∈ m :: ms, sameShape n K M = true := fun M hM =>
    Lem.sameShape_iff.mpr ⟨(h M hM).1, fun r hr => ((h M hM).2 r hr).1⟩
  have hok : ∀ M ∈ m :: ms, Lem.MatOK n K 1 M := fun M hM =>
    ⟨(h M hM).1, fun r hr => Lem.rowOK_of_isDist ((h M hM).2 r hr).1 ((h M hM).2 r hr).2⟩
  refine ⟨_, Lem.avgProba_eq m ms hs, ?_⟩
  have hsum := Lem.sumMats_ok m ms hok
  have hd : (0 : Rat) < ((m :: ms).length : Rat) := by
    simp only [List.length_cons]; exact_mod_cast Nat.succ_pos _
  have e : ((m :: ms).length : Rat) = (ms.length : Rat) + 1 := by simp
  rw [e] at hd ⊢
  exact Lem.scaleMat_dist hd hsum

example : avgProba [[[1/4, 3/4]], [[3/4, 1/4]]] = .ok [[1/2, 1/2]] := by decide +kernel

/-- closed form: entry `(i, c)` of the forest's matrix is the mean of the trees' entries `(i, c)` -/
theorem forest_proba_entry (n K : Nat) (m : Mat) (ms : List Mat) (h : ∀ M ∈ m :: ms, sameShape n K M = true) :
    ∃ P, forestProba K (m :: ms) = .ok P ∧
      ∀ i c, Lem.entry P i c = ((m :: ms).map (fun M => Lem.entry M i c)).sum / ((m :: ms).length : Rat) := by
  refine ⟨_, Lem.forestProba_eq m ms h, ?_⟩
  intro i c
  rw [Lem.scaleMat_entry, (Lem.sumMats_entry m ms h i c).1]

example : Lem.entry [[1/3, 2/3], [2/3, 1/3]] 1 0 = (([[[1, 0], [1/2, 1/2]], [[0, 1], [1/2, 1/2]], [[0, 1], [1, 0]]] : List Mat).map
    (fun M => Lem.entry M 1 0)).sum / 3 := by decide +kernel

/-- numpy refuses to add matrices of different widths: a forest whose members disagree on the number
of classes (and are not all single-column) cannot return probabilities -/
theorem forest_ragged_members_rejected (K : Nat) (m : Mat) (ms : List Mat)
    (h1 : ∃ M ∈ m :: ms, sameShape m.length K M = false) (h2 : ∃ M ∈ m :: ms, sameShape m.length 1 M = false) :
    forestProba K (m :: ms) = .error .value := by
  have e1 : (m :: ms).all (sameShape m.length K) = false := by
    rw [List.all_eq_false]; obtain ⟨M, hM, hf⟩ := h1; exact ⟨M, hM, by simp [hf]⟩
  have e2 : (m :: ms).all (sameShape m.length 1) = false := by
    rw [List.all_eq_false]; obtain ⟨M, hM, hf⟩ := h2; exact ⟨M, hM, by simp [hf]⟩
  simp only [forestProba, e1, e2, Bool.false_eq_true, if_false]

example : forestProba 2 [[[1, 0]], [[1]]] = .error .value := by decide +kernel

/-- ORIGINAL CODE (before fix 47093f5; kept as a statement about plain `forestProba`, which STSF no longer
calls on unaligned trees): trees fitted on bags that all miss a class return one column; numpy broadcasts it
against `np.ones(n_classes)` and the row sums to 2. -/
theorem forest_narrow_members_not_distribution :
    forestProba 2 [[[1]], [[1]], [[1]]] = .ok [[1, 1]] ∧ ¬ IsDist [1, 1] := by
  refine ⟨by decide +kernel, ?_⟩
  intro h
  have := h.2
  norm_num at this

/-- `SupervisedTimeSeriesForest.predict_proba` (fix 47093f5): every tree is fitted on a bootstrap bag and
may have seen only some of the classes (`mc` = its own `classes_`, duplicate-free, ⊆ `classes_`); its columns
are put where the ensemble's `classes_` expect them.  If each tree returns a distribution over ITS classes,
the forest returns a distribution over ALL classes — for every number of trees, instances, classes and every
choice of the classes each bag missed. -/
theorem stsf_aligned_avg_is_distribution (classes : List Label) (n : Nat) (members : List (List Label × Mat))
    (hne : members ≠ [])
    (h : ∀ m ∈ members, m.1.Nodup ∧ (∀ x ∈ m.1, x ∈ classes) ∧ m.2.length = n ∧
      ∀ r ∈ m.2, r.length = m.1.length ∧ IsDist r) :
    ∃ P, stsfProba classes members = .ok P ∧ P.length = n ∧ ∀ r ∈ P, r.length = classes.length ∧ IsDist r := by
  obtain ⟨ms, hms, hlen, hP⟩ := Lem.mapM_ok_of_forall (fun m : List Label × Mat => stsfAlign classes m.1 m.2)
    (fun M => M.length = n ∧ ∀ r ∈ M, r.length = classes.length ∧ IsDist r) members (by
      intro m hm
      obtain ⟨hnd, hsub, hn, hrows⟩ := h m hm
      obtain ⟨M, hM, hl, hr⟩ := Lem.mapM_ok_of_forall (alignRow classes m.1) (Lem.RowOK classes.length 1) m.2 (by
        intro r hr
        exact Lem.alignRow_ok classes m.1 r hnd hsub (hrows r hr).1 (hrows r hr).2)
      exact ⟨M, hM, by rw [hl, hn], fun r hr' => ⟨(hr r hr').1, Lem.isDist_of_rowOK (hr r hr')⟩⟩)
  cases ms with
  | nil =>
    have : members.length = 0 := by simpa using hlen.symm
    exact absurd (List.length_eq_zero_iff.mp this) hne
  | cons M0 ms =>
    obtain ⟨P, hPok, hres⟩ := avg_of_distributions_is_distribution classes.length n M0 ms hP
    exact ⟨P, by simp only [stsfProba, hms]; exact hPok, hres⟩

/-- a tree that saw classes 0 and 2 only, a full tree, and a tree that saw class 1 only -/
example : stsfProba [.int 0, .int 1, .int 2]
    [([.int 0, .int 2], [[1/4, 3/4]]), ([.int 0, .int 1, .int 2], [[0, 1, 0]]), ([.int 1], [[1]])] =
    .ok [[1/12, 2/3, 1/4]] := by decide +kernel

/-! ## dictionary ensembles: normalised votes -/

/-- vote counting normalised by the total weight is a distribution whenever the total weight is positive
(members' predictions are training labels, weights ≥ 0): for every number of members, classes, instances
and all weights. -/
theorem weighted_votes_is_distribution (classes : List Label) (n : Nat) (members : List (List Label × Rat))
    (hmem : ∀ m ∈ members, n ≤ m.1.length ∧ (∀ l ∈ m.1, l ∈ classes) ∧ 0 ≤ m.2)
    (hpos : 0 < (members.map (·.2)).sum) :
    ∃ P : Mat, cbossProba classes n members = .ok (P.map (fun r => r.map some)) ∧ P.length = n ∧
      ∀ r ∈ P, r.length = classes.length ∧ IsDist r := by
  let d := (members.map (·.2)).sum
  let g : Nat → Row := fun i => (Lem.votePure classes (Lem.votesPure members i) (zeros classes.length)).map (· / d)
  refine ⟨(List.range n).map g, ?_, by simp, ?_⟩
  · unfold cbossProba ensembleProba
    rw [Lem.mapM_ok _ (fun i => (g i).map some)]
    · simp [List.map_map, Function.comp_def]
    · intro i hi
      have hi' : i < n := List.mem_range.mp hi
      have h1 := Lem.votesFor_eq_pure members i (fun m hm => by have := (hmem m hm).1; omega)
      have hv := Lem.votesPure_mem members i classes (fun m hm =>
        ⟨by have := (hmem m hm).1; omega, (hmem m hm).2.1, (hmem m hm).2.2⟩)
      have h2 := Lem.voteRow_eq_pure classes (Lem.votesPure members i) (zeros classes.length) (fun v hv' => (hv v hv').1)
      simp only [h1, h2, bind, Except.bind, pure, Except.pure]
      rw [Lem.pyDiv_map _ _ (ne_of_gt hpos)]
  · intro r hr
    simp only [List.mem_map, List.mem_range] at hr
    obtain ⟨i, hi, rfl⟩ := hr
    have hv := Lem.votesPure_mem members i classes (fun m hm =>
      ⟨by have := (hmem m hm).1; omega, (hmem m hm).2.1, (hmem m hm).2.2⟩)
    have hok := Lem.votePure_ok classes rfl (Lem.votesPure members i) (Lem.zeros_ok classes.length) hv
    rw [Lem.votesPure_weights, zero_add] at hok
    exact Lem.scaleRow_dist hpos hok

/-- BOSSEnsemble is the case of unit weights: a distribution as soon as one member was retained (`fit`
retains one whenever its window check passes: see `window_check_iff_search_nonempty`) -/
theorem boss_votes_is_distribution (classes : List Label) (n : Nat) (preds : List (List Label))
    (hmem : ∀ p ∈ preds, n ≤ p.length ∧ ∀ l ∈ p, l ∈ classes) (hne : preds ≠ []) :
    ∃ P : Mat, bossProba classes n preds = .ok (P.map (fun r => r.map some)) ∧ P.length = n ∧
      ∀ r ∈ P, r.length = classes.length ∧ IsDist r := by
  have hsum : ((preds.map (fun p => (p, (1 : Rat)))).map (·.2)).sum = (preds.length : Rat) := by
    clear hmem hne
    induction preds with
    | nil => simp
    | cons p ps ih => simp only [List.map_cons, List.sum_cons, ih, List.length_cons]; push_cast; ring
  have hpos : 0 < ((preds.map (fun p => (p, (1 : Rat)))).map (·.2)).sum := by
    rw [hsum]; exact_mod_cast List.length_pos_iff.mpr hne
  have := weighted_votes_is_distribution classes n (preds.map (fun p => (p, (1 : Rat))))
    (by
      intro m hm
      simp only [List.mem_map] at hm
      obtain ⟨p, hp, rfl⟩ := hm
      exact ⟨(hmem p hp).1, (hmem p hp).2, by norm_num⟩) hpos
  unfold cbossProba at this
  unfold bossProba
  rw [← hsum]; exact this

example : bossProba [.str "a", .str "b"] 2 [[.str "a", .str "b"], [.str "a", .str "a"], [.str "b", .str "a"]] =
    .ok [[some (2/3), some (1/3)], [some (2/3), some (1/3)]] := by decide +kernel
example : cbossProba [.int 3, .int 8] 1 [([.int 8], 1/4), ([.int 3], 3/4)] = .ok [[some (3/4), some (1/4)]] := by decide +kernel

/-- cBOSS / TDE (fix 94648e4): a member's weight `accuracy⁴`, floored at 1e-9, is strictly positive for
every accuracy (0, k/n, and the −1 of an abandoned estimate alike) -/
theorem member_weight_pos (acc : Rat) : 0 < memberWeight acc := Lem.memberWeight_pos acc

/-- FULL STRENGTH: for every fitted cBOSS / TDE ensemble (at least one member, whatever the members'
train accuracies), `predict_proba` rows are distributions over `classes_`. -/
theorem votes_normalised_is_distribution (classes : List Label) (n : Nat) (members : List (List Label × Rat))
    (hne : members ≠ []) (hmem : ∀ m ∈ members, n ≤ m.1.length ∧ ∀ l ∈ m.1, l ∈ classes) :
    ∃ P : Mat, cbossProba classes n (cbossFitted members) = .ok (P.map (fun r => r.map some)) ∧ P.length = n ∧
      ∀ r ∈ P, r.length = classes.length ∧ IsDist r := by
  apply weighted_votes_is_distribution
  · intro m hm
    simp only [cbossFitted, List.mem_map] at hm
    obtain ⟨m0, hm0, rfl⟩ := hm
    exact ⟨(hmem m0 hm0).1, (hmem m0 hm0).2, le_of_lt (Lem.memberWeight_pos _)⟩
  · apply Lem.sum_pos_of_pos
    · simpa [cbossFitted] using hne
    · intro x hx
      simp only [cbossFitted, List.map_map, List.mem_map, Function.comp] at hx
      obtain ⟨m0, _, rfl⟩ := hx
      exact Lem.memberWeight_pos _

/-- every member with train accuracy 0 (the former NaN case) and one abandoned estimate (−1) -/
example : cbossProba [.int 0, .int 1] 1 (cbossFitted [([.int 1], 0), ([.int 0], 0)]) = .ok [[some (1/2), some (1/2)]] := by
  decide +kernel
example : memberWeight (-1) = 1 ∧ memberWeight 0 = 1 / 1000000000 ∧ memberWeight (1/2) = 1/16 := by decide +kernel

/-- BOSS / cBOSS / TDE `fit` (fix 94648e4) raises exactly when no window size can be searched, so a fitted
ensemble has searched at least one window size (and retains a member) -/
theorem window_check_iff_search_nonempty (minW maxW inc : Nat) :
    (windowCheck minW maxW = .ok () ↔ windowSizes minW maxW inc ≠ []) ∧
    (windowCheck minW maxW = .error .value ↔ maxW < minW) := by
  constructor
  · unfold windowCheck windowSizes
    by_cases h : minW > maxW
    · have : maxW + 1 - minW = 0 := by omega
      simp [h, this]
    · simp only [h, if_false, true_iff, ne_eq, List.map_eq_nil_iff]
      intro e
      have h0 : 0 ∈ (List.range (maxW + 1 - minW)).filter (fun k => k % inc == 0) := by
        simp only [List.mem_filter, List.mem_range, Nat.zero_mod, beq_self_eq_true, and_true]; omega
      rw [e] at h0; simp at h0
  · unfold windowCheck
    by_cases h : minW > maxW <;> simp [h]

example : windowCheck 10 9 = .error .value ∧ windowCheck 10 10 = .ok () ∧ windowSizes 10 14 2 = [10, 12, 14] := by
  decide +kernel

/-- ORIGINAL CODE (before fix 94648e4, when `fit` accepted series_length = min_window − 1; kept as a
statement about `predict_proba` alone): an ensemble without members returns NaN in every entry, for every
class set and number of instances.  `fit` can no longer produce such an ensemble. -/
theorem votes_empty_ensemble_not_distribution (classes : List Label) (n : Nat) :
    bossProba classes n [] = .ok ((List.range n).map (fun _ => List.replicate classes.length none)) := by
  unfold bossProba ensembleProba
  rw [Lem.mapM_ok _ (fun _ => List.replicate classes.length none)]
  intro i _
  simp only [List.map_nil, votesFor, List.mapM_nil, voteRow, bind, Except.bind, pure, Except.pure, List.length_nil,
    Nat.cast_zero]
  rw [Lem.pyDiv_map_zero]
  simp [zeros]

example : bossProba [.int 0, .int 1] 2 [] = .ok [[none, none], [none, none]] := by decide +kernel

/-- ORIGINAL CODE (before fix 94648e4, when a member's weight could be 0; kept as a statement about
`predict_proba` alone): a zero total weight gives NaN in every entry, whatever the members predict.
`fit` can no longer produce such weights (`member_weight_pos`). -/
theorem votes_zero_weight_not_distribution (classes : List Label) (n : Nat) (members : List (List Label × Rat))
    (hmem : ∀ m ∈ members, n ≤ m.1.length ∧ (∀ l ∈ m.1, l ∈ classes))
    (hzero : (members.map (·.2)).sum = 0) :
    cbossProba classes n members = .ok ((List.range n).map (fun _ => List.replicate classes.length none)) := by
  unfold cbossProba ensembleProba
  rw [Lem.mapM_ok _ (fun _ => List.replicate classes.length none)]
  intro i hi
  have hi' : i < n := List.mem_range.mp hi
  have h1 := Lem.votesFor_eq_pure members i (fun m hm => by have := (hmem m hm).1; omega)
  have hv : ∀ v ∈ Lem.votesPure members i, v.1 ∈ classes := by
    intro v hv
    simp only [Lem.votesPure, List.mem_map] at hv
    obtain ⟨m, hm, rfl⟩ := hv
    have hlt : i < m.1.length := by have := (hmem m hm).1; omega
    simp only [List.getElem?_eq_getElem hlt, Option.getD_some]
    exact (hmem m hm).2 _ (List.getElem_mem _)
  have h2 := Lem.voteRow_eq_pure classes (Lem.votesPure members i) (zeros classes.length) hv
  simp only [h1, h2, bind, Except.bind, pure, Except.pure, hzero]
  rw [Lem.pyDiv_map_zero]
  congr 2
  -- the vote loop keeps the row length
  have : ∀ (vs : List (Label × Rat)) (row : Row), (Lem.votePure classes vs row).length = row.length := by
    intro vs
    induction vs with
    | nil => intro row; rfl
    | cons v vs ih => intro row; obtain ⟨l, w⟩ := v; simp [Lem.votePure, ih, bump]
  rw [this]; simp [zeros]

example : cbossProba [.int 0, .int 1] 2 [([.int 1, .int 0], 0), ([.int 0, .int 0], 0)] =
    .ok [[none, none], [none, none]] := by decide +kernel

/-- `IndividualBOSS` / `IndividualTDE.predict_proba`: the one-hot row of the member's prediction -/
theorem indiv_one_hot_is_distribution (classes : List Label) (preds : List Label) (h : ∀ l ∈ preds, l ∈ classes) :
    ∃ P, indivProba classes preds = .ok P ∧ P.length = preds.length ∧ ∀ r ∈ P, r.length = classes.length ∧ IsDist r := by
  refine ⟨preds.map (fun l => Lem.votePure classes [(l, 1)] (zeros classes.length)), ?_, by simp, ?_⟩
  · unfold indivProba
    apply Lem.mapM_ok
    intro l hl
    exact Lem.voteRow_eq_pure classes [(l, 1)] _ (by intro v hv; simp at hv; subst hv; exact h l hl)
  · intro r hr
    simp only [List.mem_map] at hr
    obtain ⟨l, hl, rfl⟩ := hr
    have := Lem.votePure_ok classes rfl [(l, 1)] (Lem.zeros_ok classes.length)
      (by intro v hv; simp at hv; subst hv; exact ⟨h l hl, by norm_num⟩)
    have e : (0 : Rat) + ([(l, (1 : Rat))].map (·.2)).sum = 1 := by simp
    rw [e] at this
    exact ⟨this.1, Lem.isDist_of_rowOK this⟩

example : indivProba [.int 2, .int 5, .int 9] [.int 5, .int 2] = .ok [[0, 1, 0], [1, 0, 0]] := by decide +kernel

/-! ## predict -/

/-- `predict` (TSF, RISE, STSF, column ensemble, BaseClassifier): the returned label is the class
whose column holds the maximum of the instance's probability row. -/
theorem predict_attains_max_proba (classes : List Label) (r : Row) (lab : Label) (h : predictRow classes r = .ok lab) :
    ∃ (j : Nat) (v : Rat), classes[j]? = some lab ∧ r[j]? = some v ∧ ∀ x ∈ r, x ≤ v := by
  unfold predictRow at h
  cases ha : argmax? r with
  | none => rw [ha] at h; cases h
  | some j =>
    rw [ha] at h
    obtain ⟨v, hv, hmax, _⟩ := Lem.argmax?_spec ha
    exact ⟨j, v, (Lem.decode_mem h).1, hv, hmax⟩

/-- … and it is the FIRST such column (`np.argmax`): every earlier class has a strictly smaller probability -/
theorem predict_is_first_max (classes : List Label) (r : Row) (lab : Label) (h : predictRow classes r = .ok lab) :
    ∃ (j : Nat) (v : Rat), classes[j]? = some lab ∧ r[j]? = some v ∧ ∀ k, k < j → ∀ y, r[k]? = some y → y < v := by
  unfold predictRow at h
  cases ha : argmax? r with
  | none => rw [ha] at h; cases h
  | some j =>
    rw [ha] at h
    obtain ⟨v, hv, _, hfirst⟩ := Lem.argmax?_spec ha
    exact ⟨j, v, (Lem.decode_mem h).1, hv, hfirst⟩

example : predictRow [.str "a", .str "b", .str "c"] [1/4, 3/8, 3/8] = .ok (.str "b") := by decide +kernel

/-- BOSS / cBOSS / TDE `predict` (random choice among the maxima): whatever the generator draws, the
returned label attains the maximal probability. -/
theorem ensemble_predict_attains_max_proba (classes : List Label) (r : List (Option Rat)) (draw : Nat) (lab : Label)
    (h : ensemblePredictRow classes r draw = .ok lab) :
    ∃ (row : Row) (j : Nat) (v : Rat), allSome r = some row ∧ classes[j]? = some lab ∧ row[j]? = some v ∧ ∀ x ∈ row, x ≤ v := by
  unfold ensemblePredictRow at h
  cases hr : allSome r with
  | none => rw [hr] at h; cases h
  | some row =>
    rw [hr] at h
    simp only at h
    cases ht : (tiesOf row)[draw]? with
    | none => rw [ht] at h; cases h
    | some j =>
      rw [ht] at h
      obtain ⟨v, hv, hmax⟩ := Lem.mem_tiesOf (List.mem_of_getElem? ht)
      exact ⟨row, j, v, rfl, (Lem.decode_mem h).1, hv, hmax⟩

example : ensemblePredictRow [.int 4, .int 6, .int 9] [some (2/5), some (1/5), some (2/5)] 1 = .ok (.int 9) := by decide +kernel
example : ensemblePredictRow [.int 4, .int 6, .int 9] [some (2/5), some (1/5), some (2/5)] 0 = .ok (.int 4) := by decide +kernel

/-- the predicted label is one of the labels the user passed to `fit` — the very value, hence of the
user's label type (integers stay integers, strings stay strings, non-contiguous values are kept) —
and `predict` succeeds on every non-empty row with one entry per class. -/
theorem predict_in_training_labels_same_type (y : List Label) (r : Row) :
    (∀ lab, predictRow (classesOf y) r = .ok lab → lab ∈ y) ∧
    (r ≠ [] → r.length = (classesOf y).length → ∃ lab, predictRow (classesOf y) r = .ok lab) := by
  constructor
  · intro lab h
    obtain ⟨j, _, hj, _⟩ := predict_attains_max_proba _ _ _ h
    exact (Lem.mem_classesOf y lab).mp (List.mem_of_getElem? hj)
  · intro hne hlen
    obtain ⟨j, hj⟩ := Lem.argmax?_isSome hne
    have hlt : j < (classesOf y).length := hlen ▸ Lem.argmax?_lt hj
    obtain ⟨lab, hl⟩ := Lem.decode_ok hlt
    exact ⟨lab, by simp [predictRow, hj, hl]⟩

theorem ensemble_predict_in_training_labels_same_type (y : List Label) (r : List (Option Rat)) (draw : Nat) (lab : Label)
    (h : ensemblePredictRow (classesOf y) r draw = .ok lab) : lab ∈ y := by
  obtain ⟨_, j, _, _, hj, _⟩ := ensemble_predict_attains_max_proba _ _ _ _ h
  exact (Lem.mem_classesOf y lab).mp (List.mem_of_getElem? hj)

example : predictRow (classesOf [.int 300, .int (-2), .int 300, .int 7]) [1/4, 1/4, 1/2] = .ok (.int 300) := by decide +kernel

/-! ## score -/

/-- `score` = number of predictions equal to the true label, divided by the number of instances -/
theorem score_eq_fraction_matching (yTrue yPred : List Label) (q : Rat) (h : score yTrue yPred = .ok q) :
    yTrue.length = yPred.length ∧ 0 < yTrue.length ∧
    q = (((yTrue.zip yPred).filter (fun p => decide (p.1 = p.2))).length : Rat) / (yTrue.length : Rat) ∧
    0 ≤ q ∧ q ≤ 1 := by
  unfold score at h
  split at h
  · cases h
  · rename_i hl
    split at h
    · cases h
    · rename_i h0
      simp only [Except.ok.injEq] at h
      have hl' : yTrue.length = yPred.length := by simpa using hl
      have hpos : 0 < yTrue.length := Nat.pos_of_ne_zero h0
      have hposR : (0 : Rat) < (yTrue.length : Rat) := by exact_mod_cast hpos
      have hle : ((yTrue.zip yPred).filter (fun p => decide (p.1 = p.2))).length ≤ yTrue.length := by
        calc _ ≤ (yTrue.zip yPred).length := List.length_filter_le _ _
          _ ≤ yTrue.length := by simp [List.length_zip]
      refine ⟨hl', hpos, h.symm, ?_, ?_⟩
      · rw [← h]; apply div_nonneg <;> exact_mod_cast Nat.zero_le _
      · rw [← h, div_le_one hposR]; exact_mod_cast hle

example : score [.str "a", .str "b", .str "a", .str "c"] [.str "a", .str "a", .str "a", .str "c"] = .ok (3/4) := by decide +kernel

/-! ## time series forest: what the trees are asked, and the average of what they answer -/

/-- `_slope` as coded (`(mean(y·x) − mean(x)·mean(y)) / (mean(x²) − mean(x)²)`, `x = 1..n`) is the
ordinary-least-squares slope, for every series of at least two points -/
theorem slope_eq_ols (ys : Row) (h : 2 ≤ ys.length) : slope? ys = some (olsSlope ys) := Lem.slope?_eq ys h

example : slope? [1, 2, 4] = some (3/2) ∧ olsSlope [1, 2, 4] = 3/2 := by decide +kernel

/-- the value handed to the tree as "standard deviation" is `s` with `s ≥ 0`, `s·s = var`: `var` is
the population variance and is non-negative, so such an `s` is the standard deviation -/
theorem var_is_sqrt_radicand (xs : Row) (hx : xs ≠ []) :
    var? xs = some (variance xs) ∧ 0 ≤ variance xs ∧ ∀ s, IsSqrt s (variance xs) → s * s = variance xs ∧ 0 ≤ s := by
  exact ⟨Lem.var?_eq xs hx, Lem.variance_nonneg xs, fun s hs => ⟨hs.2, hs.1⟩⟩

example : var? [1, 2, 4] = some (14/9) := by decide +kernel
example : IsSqrt (3/2) (variance [1, 4, 1, 4]) := by unfold IsSqrt; decide +kernel

/-- `_transform`: the row handed to a tree has three entries per fitted interval `[a, b)`: the mean,
the variance (`np.std` squared) and the OLS slope of `X[i, a:b]` (intervals of at least two points) -/
theorem features_are_mean_var_slope (ivs : List (Nat × Nat)) (row : Row) (j a b : Nat)
    (hj : ivs[j]? = some (a, b)) (hab : a + 2 ≤ b) (hb : b ≤ row.length) :
    (transformRow ivs row).length = 3 * ivs.length ∧
    (transformRow ivs row)[3 * j]? = some (some (mean (slice row a b))) ∧
    (transformRow ivs row)[3 * j + 1]? = some (some (variance (slice row a b))) ∧
    (transformRow ivs row)[3 * j + 2]? = some (some (olsSlope (slice row a b))) := by
  have hlen : (slice row a b).length = b - a := Lem.slice_length row a b hb
  have hne : slice row a b ≠ [] := by
    intro e; rw [e] at hlen; simp at hlen; omega
  obtain ⟨h0, h1, h2⟩ := Lem.transformRow_getElem? ivs row j (a, b) hj
  refine ⟨Lem.transformRow_length ivs row, ?_, ?_, ?_⟩
  · rw [h0, Lem.mean?_eq _ hne]
  · rw [h1, Lem.var?_eq _ hne]
  · have h2len : 2 ≤ (slice row a b).length := by rw [hlen]; omega
    rw [h2, Lem.slope?_eq _ h2len]

example : transformRow [(0, 3), (1, 4)] [1, 2, 4, 8] =
    [some (7/3), some (14/9), some (3/2), some (14/3), some (56/9), some 3] := by decide +kernel

/-- `TimeSeriesForestClassifier.predict_proba`: entry `(i, c)` is the mean over the trees of tree `t`'s
probability of class `c` on the features of ITS OWN fitted intervals of instance `i`
(for all trees — arbitrary functions returning `K` columns —, intervals, panels). -/
theorem tsf_proba_eq_mean_of_trees_on_features (K : Nat) (trees : List Tree) (intervals : List (List (Nat × Nat)))
    (X : Mat) (hlen : trees.length = intervals.length) (hT : trees ≠ [])
    (hshape : ∀ t ∈ trees, ∀ f, (t f).length = K) :
    ∃ P, tsfProba K trees intervals X = .ok P ∧
      ∀ i (hi : i < X.length) c, Lem.entry P i c =
        (List.zipWith (fun (t : Tree) ivs => (t (transformRow ivs X[i])).getD c 0) trees intervals).sum / (trees.length : Rat) := by
  have hs : ∀ M ∈ List.zipWith (fun (t : Tree) ivs => (transform X ivs).map t) trees intervals,
      sameShape X.length K M = true := by
    intro M hM
    obtain ⟨k, hk, rfl⟩ := List.mem_iff_getElem.mp hM
    rw [List.getElem_zipWith, Lem.sameShape_iff]
    refine ⟨by simp [transform], ?_⟩
    intro r hr
    simp only [List.mem_map] at hr
    obtain ⟨f, _, rfl⟩ := hr
    exact hshape _ (List.getElem_mem _) f
  have hne : List.zipWith (fun (t : Tree) ivs => (transform X ivs).map t) trees intervals ≠ [] := by
    intro e
    have := congrArg List.length e
    simp only [List.length_zipWith, List.length_nil] at this
    have := List.length_pos_iff.mpr hT
    omega
  obtain ⟨P, hP, hE⟩ := Lem.forestProba_entry_list _ hne hs
  refine ⟨P, hP, ?_⟩
  intro i hi c
  rw [hE i c, List.map_zipWith]
  have hfun : ∀ (t : Tree) (ivs : List (Nat × Nat)),
      Lem.entry ((transform X ivs).map t) i c = (t (transformRow ivs X[i])).getD c 0 := by
    intro t ivs
    simp [Lem.entry, transform, List.getD_eq_getElem?_getD, List.getElem?_eq_getElem hi]
  simp only [hfun, List.length_zipWith, ← hlen, Nat.min_self]

/-- two stump-like trees on their own intervals: tree 1 looks at the mean of `[0,2)`, tree 2 at the slope of `[1,3)` -/
example : tsfProba 2
    [fun f => if f.head? = some (some (3/2)) then [1, 0] else [0, 1], fun f => if f[2]? = some (some 1) then [1/4, 3/4] else [1, 0]]
    [[(0, 2)], [(1, 3)]] [[1, 2, 3], [5, 5, 5]] = .ok [[5/8, 3/8], [1/2, 1/2]] := by decide +kernel

/-- `TimeSeriesForestRegressor.predict`: prediction `i` is the mean of the trees' predictions on the
features of their own intervals -/
theorem tsf_regressor_eq_mean_of_trees_on_features (trees : List RTree) (intervals : List (List (Nat × Nat)))
    (X : Mat) (hlen : trees.length = intervals.length) (hT : trees ≠ []) :
    ∃ p, tsfRegPredict trees intervals X = .ok p ∧ p.length = X.length ∧
      ∀ i (hi : i < X.length), p.getD i 0 =
        (List.zipWith (fun (t : RTree) ivs => t (transformRow ivs X[i])) trees intervals).sum / (trees.length : Rat) := by
  have hq : ∀ q ∈ List.zipWith (fun (t : RTree) ivs => (transform X ivs).map t) trees intervals, q.length = X.length := by
    intro q hq
    obtain ⟨k, hk, rfl⟩ := List.mem_iff_getElem.mp hq
    simp [transform]
  have hne : List.zipWith (fun (t : RTree) ivs => (transform X ivs).map t) trees intervals ≠ [] := by
    intro e
    have := congrArg List.length e
    simp only [List.length_zipWith, List.length_nil] at this
    have := List.length_pos_iff.mpr hT
    omega
  obtain ⟨p, hp, hl, hE⟩ := Lem.regPredict_list _ hne hq
  refine ⟨p, hp, hl, ?_⟩
  intro i hi
  rw [hE i hi, List.map_zipWith]
  have hfun : ∀ (t : RTree) (ivs : List (Nat × Nat)),
      ((transform X ivs).map t).getD i 0 = t (transformRow ivs X[i]) := by
    intro t ivs
    simp [transform, List.getD_eq_getElem?_getD, List.getElem?_eq_getElem hi]
  simp only [hfun, List.length_zipWith, ← hlen, Nat.min_self]

example : tsfRegPredict [fun f => (f.head?.getD none).getD 0, fun _ => 10] [[(0, 2)], [(1, 3)]] [[1, 2, 3], [5, 5, 5]] =
    .ok [23/4, 15/2] := by decide +kernel

/-! ## column ensemble -/

/-- `ColumnEnsembleClassifier.predict_proba`: entry `(i, c)` is the mean over the fitted members of
member `k`'s entry on the panel restricted to ITS OWN columns (members: arbitrary functions
returning `n × K` matrices) -/
theorem column_ensemble_eq_mean_of_members {α : Type} (n K : Nat) (members : List (Member α)) (columns : List (List Nat))
    (X : List (List α)) (hlen : members.length = columns.length) (hM : members ≠ [])
    (hshape : ∀ f ∈ members, ∀ Z, sameShape n K (f Z) = true) :
    ∃ P, colEnsProba members columns X = .ok P ∧
      ∀ i c, Lem.entry P i c =
        (List.zipWith (fun (f : Member α) cols => Lem.entry (f (selectColumns X cols)) i c) members columns).sum /
          (members.length : Rat) := by
  have hs : ∀ M ∈ List.zipWith (fun (f : Member α) cols => f (selectColumns X cols)) members columns,
      sameShape n K M = true := by
    intro M hM'
    obtain ⟨k, hk, rfl⟩ := List.mem_iff_getElem.mp hM'
    rw [List.getElem_zipWith]
    exact hshape _ (List.getElem_mem _) _
  have hne : List.zipWith (fun (f : Member α) cols => f (selectColumns X cols)) members columns ≠ [] := by
    intro e
    have := congrArg List.length e
    simp only [List.length_zipWith, List.length_nil] at this
    have := List.length_pos_iff.mpr hM
    omega
  obtain ⟨P, hP, hE⟩ := Lem.avgProba_entry_list _ hne hs
  refine ⟨P, hP, ?_⟩
  intro i c
  rw [hE i c, List.map_zipWith]
  simp only [List.length_zipWith, ← hlen, Nat.min_self]

/-- member 1 sees column 0 only, member 2 columns 2 and 0 (in that order) -/
example : colEnsProba (α := Nat)
    [fun Z => Z.map (fun inst => if inst = [7] then [1, 0] else [0, 1]), fun Z => Z.map (fun inst => if inst = [9, 7] then [1/2, 1/2] else [0, 1])]
    [[0], [2, 0]] [[7, 8, 9], [1, 2, 3]] = .ok [[3/4, 1/4], [0, 1]] := by decide +kernel

/-- `fit`: each fitted member gets exactly the positions its entry names; `'drop'` entries and empty
selections get no member; every position lies inside the panel; a column name is its position. -/
theorem column_ensemble_members_own_columns (cols : List String) (es : List Entry) (cs : List (List Nat))
    (h : ceMembers cols es = .ok cs) :
    (∃ rs, es.mapM (fun e => (resolveKey cols e.key).map (fun c => (e.drop, c))) = .ok rs ∧
      cs = (rs.filter (fun p => !p.1 && !p.2.isEmpty)).map (·.2)) ∧
    (∀ c ∈ cs, c ≠ [] ∧ ∀ i ∈ c, i < cols.length) ∧
    (∀ s i, resolveKey cols (.name s) = .ok [i] → cols[i]? = some s) := by
  unfold ceMembers at h
  cases hr : es.mapM (fun e => (resolveKey cols e.key).map (fun c => (e.drop, c))) with
  | error e => rw [hr] at h; cases h
  | ok rs =>
    rw [hr] at h
    simp only [bind, Except.bind, pure, Except.pure, Except.ok.injEq] at h
    subst h
    have hnorm : ∀ k i, normIdx cols.length k = .ok i → i < cols.length := by
      intro k i hk
      have aux : ∀ k' : Int, (if 0 ≤ k' ∧ k' < (cols.length : Int) then (Except.ok k'.toNat : Except Err Nat)
          else .error .index) = .ok i → i < cols.length := by
        intro k' hk'
        by_cases hc : 0 ≤ k' ∧ k' < (cols.length : Int)
        · rw [if_pos hc] at hk'; cases hk'; omega
        · rw [if_neg hc] at hk'; cases hk'
      exact aux _ hk
    have hname : ∀ s i, nameIdx cols s = .ok i → i < cols.length ∧ cols[i]? = some s := by
      intro s i hk
      by_cases hc : cols.idxOf s < cols.length
      · simp only [nameIdx, hc, if_true, Except.ok.injEq] at hk
        subst hk
        exact ⟨hc, by rw [List.getElem?_eq_getElem hc]; congr 1; exact List.getElem_idxOf hc⟩
      · simp [nameIdx, hc] at hk
    have hres : ∀ key is, resolveKey cols key = .ok is → ∀ i ∈ is, i < cols.length := by
      intro key is hk i hi
      cases key with
      | int k =>
        simp only [resolveKey] at hk
        cases hn : normIdx cols.length k with
        | error e => rw [hn] at hk; cases hk
        | ok j =>
          rw [hn] at hk; simp only [Except.map, Except.ok.injEq] at hk; subst hk
          simp at hi; rw [hi]; exact hnorm k j hn
      | ints ks =>
        simp only [resolveKey] at hk
        have := Lem.mapM_ok_inv _ _ _ hk
        obtain ⟨k, _, hki⟩ : ∃ k, k ∈ ks ∧ normIdx cols.length k = .ok i := by
          clear hk
          induction this with
          | nil => simp at hi
          | cons hab _ ih =>
            rcases List.mem_cons.mp hi with rfl | hi
            · exact ⟨_, by simp, hab⟩
            · obtain ⟨k, hk, hki⟩ := ih hi; exact ⟨k, List.mem_cons_of_mem _ hk, hki⟩
        exact hnorm k i hki
      | name s =>
        simp only [resolveKey] at hk
        cases hn : nameIdx cols s with
        | error e => rw [hn] at hk; cases hk
        | ok j =>
          rw [hn] at hk; simp only [Except.map, Except.ok.injEq] at hk; subst hk
          simp at hi; rw [hi]; exact (hname s j hn).1
      | names ss =>
        simp only [resolveKey] at hk
        have := Lem.mapM_ok_inv _ _ _ hk
        obtain ⟨s, _, hsi⟩ : ∃ s, s ∈ ss ∧ nameIdx cols s = .ok i := by
          clear hk
          induction this with
          | nil => simp at hi
          | cons hab _ ih =>
            rcases List.mem_cons.mp hi with rfl | hi
            · exact ⟨_, by simp, hab⟩
            · obtain ⟨k, hk, hki⟩ := ih hi; exact ⟨k, List.mem_cons_of_mem _ hk, hki⟩
        exact (hname s i hsi).1
    refine ⟨⟨rs, rfl, rfl⟩, ?_, ?_⟩
    · intro c hc
      simp only [List.mem_map, List.mem_filter] at hc
      obtain ⟨p, ⟨hp, hf⟩, rfl⟩ := hc
      have hall := Lem.mapM_ok_inv _ _ _ hr
      have : ∃ e ∈ es, (resolveKey cols e.key).map (fun c => (e.drop, c)) = .ok p := by
        clear hr hf
        induction hall with
        | nil => simp at hp
        | cons hab _ ih =>
          rcases List.mem_cons.mp hp with rfl | hp
          · exact ⟨_, by simp, hab⟩
          · obtain ⟨e, he, hk⟩ := ih hp; exact ⟨e, List.mem_cons_of_mem _ he, hk⟩
      obtain ⟨e, _, hk⟩ := this
      cases hk' : resolveKey cols e.key with
      | error er => rw [hk'] at hk; cases hk
      | ok is =>
        rw [hk'] at hk
        simp only [Except.map, Except.ok.injEq] at hk
        subst hk
        simp only [Bool.and_eq_true, Bool.not_eq_true', List.isEmpty_eq_false_iff] at hf
        exact ⟨hf.2, hres e.key is hk'⟩
    · intro s i hk
      simp only [resolveKey] at hk
      cases hn : nameIdx cols s with
      | error e => rw [hn] at hk; cases hk
      | ok j =>
        rw [hn] at hk; simp only [Except.map, Except.ok.injEq, List.cons.injEq, and_true] at hk; subst hk
        exact (hname s j hn).2

example : ceMembers ["a", "b", "c"] [⟨false, .int 0⟩, ⟨true, .name "b"⟩, ⟨false, .names []⟩, ⟨false, .names ["c", "a"]⟩,
    ⟨false, .int (-1)⟩] = .ok [[0], [2, 0], [2]] := by decide +kernel

/-! ## fitted intervals -/

/-- `_get_intervals`: whatever the generator draws, every sampled interval `[a, b)` lies within the
series, has at least `min_interval` points (hence is non-empty for `min_interval ≥ 1`), and the
right `randint` bounds were requested. -/
theorem intervals_within_series (m L k : Nat) (ds : List Nat) (ivs : List (Nat × Nat)) (hs rest : List Nat)
    (h : getIntervals m L k ds = .ok (ivs, hs, rest)) :
    ivs.length = k ∧ ∀ iv ∈ ivs, iv.1 + m ≤ iv.2 ∧ iv.2 ≤ L ∧ (1 ≤ m → iv.1 < iv.2) := by
  obtain ⟨h1, _, _, h4⟩ := Lem.getIntervals_ok k ds h
  refine ⟨h1, fun iv hiv => ?_⟩
  obtain ⟨a, b⟩ := h4 iv hiv
  exact ⟨a, by omega, by omega⟩

example : getIntervals 3 12 3 [0, 0, 8, 2, 3, 5] = .ok ([(0, 3), (8, 11), (3, 8)], [9, 11, 9, 3, 9, 8], []) := by decide +kernel

/-- TSF / TSF-regressor `fit`: one interval set per estimator, `max(1, ⌊√L⌋)` intervals each, all
within the series and of at least `min(min_interval, L)` points (the local effective bound; the
`min_interval` attribute itself keeps the constructor value: `minIntervalAttr`, fix 46b8bee) -/
theorem fit_intervals_within_series (L mi T : Nat) (ds : List Nat) (all : List (List (Nat × Nat))) (hs : List Nat)
    (h : fitIntervals L mi T ds = .ok (all, hs)) :
    all.length = T ∧ ∀ ivs ∈ all, ivs.length = nIntervals L ∧
      ∀ iv ∈ ivs, iv.1 + min mi L ≤ iv.2 ∧ iv.2 ≤ L ∧ (1 ≤ mi → iv.1 < iv.2) := by
  obtain ⟨h1, h2⟩ := Lem.fitIntervals_ok T ds h
  refine ⟨h1, fun ivs hivs => ?_⟩
  obtain ⟨g1, g2, g3⟩ := h2 ivs hivs
  refine ⟨g1, fun iv hiv => ?_⟩
  obtain ⟨a, b⟩ := g3 iv hiv
  have hm : minIntervalFit L mi = min mi L := by unfold minIntervalFit; split <;> omega
  rw [hm] at a g2
  refine ⟨a, by omega, fun h1m => ?_⟩
  have : 1 ≤ min mi L := by omega
  omega

example : fitIntervals 9 3 2 [0, 0, 5, 1, 2, 5, 3, 4, 1, 1, 0, 7] =
    .ok ([[(0, 3), (5, 8), (2, 7)], [(3, 7), (1, 4), (0, 7)]], [6, 8, 6, 3, 6, 6, 6, 5, 6, 7, 6, 8]) := by decide +kernel

/-- the code as it stands cannot fit a series of `min_interval` points or fewer (default: 3; `mi` is the
constructor parameter, the effective bound `min(mi, L)` then equals `L`):
`rng.randint(series_length − min_interval)` is asked for a number below 0 or 0 → ValueError,
whatever the generator -/
theorem fit_rejects_short_series (L mi T : Nat) (ds : List Nat) (h : L ≤ mi) :
    fitIntervals L mi (T + 1) ds = .error .value := Lem.fitIntervals_short h T ds

example : fitIntervals 3 3 1 [0, 0] = .error .value := by decide +kernel
example : minIntervalAttr 2 5 = 5 ∧ minIntervalFit 2 5 = 2 := by decide
example : (List.map nIntervals [0, 1, 3, 4, 8, 9, 15, 16, 17, 99, 100]) = [1, 1, 1, 2, 2, 3, 3, 4, 4, 9, 10] := by decide +kernel

end SkVerif.C17
