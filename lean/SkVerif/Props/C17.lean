/- Property theorems for C17 (stub: not built yet). -/
namespace SkVerif.C17
end SkVerif.C17
