/- Property theorems for C01 (stub: not built yet). -/
namespace SkVerif.C01
end SkVerif.C01
