/-
C01  Temporal CV splitters never leak the future and tile the series as documented.
Property theorems about SkVerif/Model/Split.lean against SkVerif/Spec/Split.lean.
Only theorems + non-vacuity examples here; helper lemmas live in SkVerif/Lemmas/Split*.lean.
`Valid` (Spec/Split.lean) = a valid choice of parameters for an out-of-sample horizon:
fh strictly increasing, non-empty, all steps > 0; window_length, step_length ≥ 1;
window_length + max(fh) ≤ n; an initial window only for the sliding splitter started with a
full window, longer than window_length and with initial_window + max(fh) ≤ n.
-/
import SkVerif.Lemmas.SplitProps
namespace SkVerif.C01
open SkVerif SkVerif.Split SkVerif.Split.Spec

/-- Every valid sliding/expanding splitter yields exactly the specified folds: the initial window
(if any), then one fold per cutoff of the progression, train = the window ending at the cutoff,
test = cutoff + fh (after the `>= 0` filter of `split`). -/
theorem window_fold_shape {k n wl step fh iw sww} (v : Valid k n wl step fh iw sww) :
    windowSplit k n fh wl step iw sww = .ok (folds k n wl step fh iw sww) :=
  Lem.windowSplit_valid v

/-- each yielded fold has a contiguous training window of non-negative positions ending at a
cutoff that the splitter reports -/
theorem train_contiguous_ends_at_cutoff {k n wl step fh iw sww} (v : Valid k n wl step fh iw sww)
    (fs : List Fold) (h : windowSplit k n fh wl step iw sww = .ok fs) (f : Fold) (hf : f ∈ fs) :
    ∃ c a, c ∈ allCutoffs n wl step fh iw sww ∧ 0 ≤ a ∧ f.1 = arange a (c + 1) := by
  rw [window_fold_shape v] at h; cases h
  obtain ⟨c, a, hc, ha, rfl⟩ := Lem.fold_mem_shape v f hf
  exact ⟨c, a, hc, ha, rfl⟩

/-- … and its test positions are exactly cutoff + fh for that same cutoff -/
theorem test_eq_cutoff_add_fh {k n wl step fh iw sww} (v : Valid k n wl step fh iw sww)
    (fs : List Fold) (h : windowSplit k n fh wl step iw sww = .ok fs) (f : Fold) (hf : f ∈ fs) :
    ∃ c a, f.1 = arange a (c + 1) ∧ f.2 = fh.map (c + ·) := by
  rw [window_fold_shape v] at h; cases h
  obtain ⟨c, a, _, _, rfl⟩ := Lem.fold_mem_shape v f hf
  exact ⟨c, a, rfl, rfl⟩

/-- every position of every fold lies inside the series -/
theorem positions_in_range {k n wl step fh iw sww} (v : Valid k n wl step fh iw sww)
    (fs : List Fold) (h : windowSplit k n fh wl step iw sww = .ok fs) (f : Fold) (hf : f ∈ fs)
    (p : Int) (hp : p ∈ f.1 ∨ p ∈ f.2) : 0 ≤ p ∧ p < n := by
  rw [window_fold_shape v] at h; cases h
  obtain ⟨c, a, hc, ha, rfl⟩ := Lem.fold_mem_shape v f hf
  have hb := Lem.allCutoffs_mem_bounds v c hc
  have hfm : 0 < fhMax fh := v.pos _ (Lem.fhMax_mem fh v.nonempty)
  rcases hp with hp | hp
  · have := (Lem.arange_mem a (c + 1) p).mp hp; omega
  · obtain ⟨h', hh, rfl⟩ := List.mem_map.mp hp
    have h1 := v.pos h' hh
    have h2 := Lem.le_fhMax fh v.sorted h' hh
    omega

/-- no training position is at or after a test position (no leakage of the future) -/
theorem train_lt_test {k n wl step fh iw sww} (v : Valid k n wl step fh iw sww)
    (fs : List Fold) (h : windowSplit k n fh wl step iw sww = .ok fs) (f : Fold) (hf : f ∈ fs)
    (p q : Int) (hp : p ∈ f.1) (hq : q ∈ f.2) : p < q := by
  rw [window_fold_shape v] at h; cases h
  obtain ⟨c, a, _, _, rfl⟩ := Lem.fold_mem_shape v f hf
  have := (Lem.arange_mem a (c + 1) p).mp hp
  obtain ⟨h', hh, rfl⟩ := List.mem_map.mp hq
  have := v.pos h' hh
  omega

/-- the cutoffs of the regular windows are exactly the arithmetic progression
first, first + step, … of feasible cutoffs (cutoff + max(fh) ≤ n − 1), in increasing order -/
theorem cutoffs_progression {k n wl step fh iw sww} (v : Valid k n wl step fh iw sww) :
    (cutoffs n wl step fh iw sww).Pairwise (· < ·) ∧
    ∀ c, c ∈ cutoffs n wl step fh iw sww ↔
      firstCutoff wl step iw sww ≤ c ∧ step ∣ (c - firstCutoff wl step iw sww) ∧ c + fhMax fh ≤ n - 1 :=
  ⟨Lem.cutoffs_sorted v, Lem.cutoffs_mem v⟩

/-- the progression starts at the first feasible cutoff: a full window (`window_length − 1`), the
window after the initial one, or the empty window (−1) -/
theorem first_cutoff_is_first_feasible {k n wl step fh iw sww} (v : Valid k n wl step fh iw sww)
    (hfeas : firstCutoff wl step iw sww + fhMax fh ≤ n - 1) :
    (cutoffs n wl step fh iw sww).head? = some (firstCutoff wl step iw sww) := by
  unfold cutoffs
  rw [Lem.pyRange_cons _ _ _ (by have := v.step_pos; omega) (by omega)]
  simp

/-- … and ends at the last feasible one: one more step would push the horizon past the end -/
theorem last_cutoff_is_last_feasible {k n wl step fh iw sww} (v : Valid k n wl step fh iw sww)
    (c : Int) (hc : (cutoffs n wl step fh iw sww).getLast? = some c) :
    c + fhMax fh ≤ n - 1 ∧ n - 1 < c + step + fhMax fh := by
  have hmem : c ∈ cutoffs n wl step fh iw sww := List.mem_of_getLast? hc
  have hm := (Lem.cutoffs_mem v c).mp hmem
  refine ⟨hm.2.2, ?_⟩
  by_contra hcon
  have hnext : c + step ∈ cutoffs n wl step fh iw sww := by
    rw [Lem.cutoffs_mem v]
    refine ⟨by have := v.step_pos; omega, ?_, by omega⟩
    obtain ⟨j, hj⟩ := hm.2.1
    exact ⟨j + 1, by rw [Int.mul_add]; omega⟩
  -- the last element of a strictly increasing list is its maximum
  have hsorted := Lem.cutoffs_sorted v
  obtain ⟨l, hl⟩ : ∃ l, cutoffs n wl step fh iw sww = l ++ [c] := by
    have hne : cutoffs n wl step fh iw sww ≠ [] := List.ne_nil_of_mem hmem
    refine ⟨(cutoffs n wl step fh iw sww).dropLast, ?_⟩
    have h1 := List.dropLast_append_getLast hne
    have h2 : (cutoffs n wl step fh iw sww).getLast hne = c := by
      have := List.getLast?_eq_some_getLast hne
      rw [this] at hc; exact Option.some.inj hc
    rw [h2] at h1; exact h1.symm
  rw [hl] at hsorted hnext
  rcases List.mem_append.mp hnext with h | h
  · have := (List.pairwise_append.mp hsorted).2.2 _ h c (by simp)
    have := v.step_pos; omega
  · simp at h; have := v.step_pos; omega

/-- sliding windows started with a full window have exactly the requested length -/
theorem sliding_length_exact {n wl step fh iw} (v : Valid .sliding n wl step fh iw true)
    (c : Int) (hc : c ∈ cutoffs n wl step fh iw true) : (train .sliding wl c).length = wl.toNat := by
  have hm := (Lem.cutoffs_mem v c).mp hc
  have hw := v.wl_pos
  have h1 : wl - 1 ≤ firstCutoff wl step iw true := by
    cases iw with
    | none => simp [firstCutoff]
    | some i => have := v.iw_ok i rfl; have := v.step_pos; simp [firstCutoff]; omega
  simp only [train, Lem.arange_length]
  omega

/-- started with an empty window (`start_with_window = False`) they grow to that length -/
theorem sliding_length_from_empty {n wl step fh} (v : Valid .sliding n wl step fh none false)
    (c : Int) (hc : c ∈ cutoffs n wl step fh none false) :
    (train .sliding wl c).length = (min wl (c + 1)).toNat := by
  have hm := (Lem.cutoffs_mem v c).mp hc
  have hw := v.wl_pos
  simp only [firstCutoff, Bool.false_eq_true, ↓reduceIte] at hm
  simp only [train, Lem.arange_length]
  omega

/-- expanding windows always start at the first observation and end at the cutoff -/
theorem expanding_starts_at_zero {n wl step fh sww} (v : Valid .expanding n wl step fh none sww)
    (fs : List Fold) (h : windowSplit .expanding n fh wl step none sww = .ok fs) (f : Fold) (hf : f ∈ fs) :
    ∃ c, c ∈ cutoffs n wl step fh none sww ∧ f = (arange 0 (c + 1), fh.map (c + ·)) := by
  rw [window_fold_shape v] at h; cases h
  simp only [folds, initialFold, List.nil_append, List.mem_map] at hf
  obtain ⟨c, hc, rfl⟩ := hf
  exact ⟨c, hc, rfl⟩

/-- with an initial window the first fold trains on the first `initial_window` observations -/
theorem initial_window_fold {n wl step fh} (i : Int) (v : Valid .sliding n wl step fh (some i) true) :
    (folds .sliding n wl step fh (some i) true).head? = some (arange 0 i, fh.map (i - 1 + ·)) := by
  simp [folds, initialFold]

/-- cutoff of a fold, recovered from its test window -/
def foldCutoff (fh : List Int) (f : Fold) : Int := f.2.head?.getD 0 - fhMin fh

/-- the cutoffs a splitter reports are exactly those of the folds it yields, in order -/
theorem reported_cutoffs_eq_yielded {k n wl step fh iw sww} (v : Valid k n wl step fh iw sww)
    (fs : List Fold) (h : windowSplit k n fh wl step iw sww = .ok fs) :
    windowCutoffs n fh wl step iw sww = .ok (fs.map (foldCutoff fh)) := by
  rw [window_fold_shape v] at h; cases h
  rw [Lem.windowCutoffs_valid v]
  congr 1
  obtain ⟨h0, t, hfh⟩ : ∃ h0 t, fh = h0 :: t := by
    cases hfh : fh with
    | nil => exact absurd hfh v.nonempty
    | cons a l => exact ⟨a, l, rfl⟩
  have key : ∀ c, foldCutoff fh (fold k wl fh c) = c := by
    intro c; subst hfh; simp [foldCutoff, fold, fhMin]
  unfold allCutoffs folds
  rw [List.map_append, List.map_map]
  congr 1
  · cases iw with
    | none => simp [initialFold]
    | some i => subst hfh; simp [initialFold, foldCutoff, fhMin]
  · symm
    calc List.map (foldCutoff fh ∘ fold k wl fh) (cutoffs n wl step fh iw sww)
        = List.map id (cutoffs n wl step fh iw sww) := by
          apply List.map_congr_left; intro c _; exact key c
      _ = cutoffs n wl step fh iw sww := List.map_id _

/-- the number of splits reported equals the number of folds yielded -/
theorem n_splits_eq_length {k n wl step fh iw sww} (v : Valid k n wl step fh iw sww)
    (fs : List Fold) (h : windowSplit k n fh wl step iw sww = .ok fs) :
    windowNSplits n fh wl step iw sww = .ok fs.length := by
  unfold windowNSplits
  rw [reported_cutoffs_eq_yielded v fs h]
  simp [Except.map]

/-- the single-window splitter: one fold, window of the requested length (or everything) ending
at the cutoff `n − max(fh) − 1`, test = cutoff + fh; the reported cutoff is that one -/
theorem single_window_fold (n : Int) (fh : List Int) (wl : Option Int)
    (hs : fh.Pairwise (· < ·)) (hne : fh ≠ []) (hpos : ∀ h ∈ fh, 0 < h)
    (hwl : ∀ w, wl = some w → 1 ≤ w ∧ w + fhMax fh ≤ n) (hfit : fhMax fh ≤ n) :
    singleSplit n fh wl =
      .ok [(arange (match wl with | none => 0 | some w => max (n - fhMax fh - w) 0) (n - fhMax fh),
            fh.map (n - fhMax fh - 1 + ·))] ∧
    singleCutoffs n fh = .ok [n - fhMax fh - 1] := by
  have hend : getEnd n fh = n - fhMax fh + 1 := by simp [getEnd, Lem.allIn_false_of_pos fh hne hpos]
  have e : n - fhMax fh + 1 - 1 = n - fhMax fh := by omega
  have e2 : n - fhMax fh + 1 - 2 = n - fhMax fh - 1 := by omega
  constructor
  · unfold singleSplit singleSplitRaw
    cases wl with
    | none =>
      simp only [bind, Except.bind, pure, Except.pure, Except.map, filterFolds, List.map_cons, List.map_nil,
        Lem.checkFh_sorted fh hs hne, hend, e]
      rw [Lem.nonneg_arange, Lem.nonneg_test fh hpos _ (by omega)]
      simp
    | some w =>
      have hw : ¬ w < 1 := by have := hwl w rfl; omega
      have hw2 : ¬ w + fhMax fh > n := by have := hwl w rfl; omega
      simp only [hw, hw2, ↓reduceIte, bind, Except.bind, pure, Except.pure, Except.map, filterFolds,
        List.map_cons, List.map_nil, Lem.checkFh_sorted fh hs hne, hend, e]
      rw [Lem.nonneg_arange, Lem.nonneg_test fh hpos _ (by omega)]
  · unfold singleCutoffs
    simp only [bind, Except.bind, pure, Except.pure, Lem.checkFh_sorted fh hs hne, hend, e2]

/-- a window that does not fit the series is rejected (repaired code; it used to be clipped) -/
theorem single_window_rejects_too_long (n w : Int) (fh : List Int)
    (hs : fh.Pairwise (· < ·)) (hne : fh ≠ []) (hbad : w + fhMax fh > n) :
    singleSplit n fh (some w) = .error .value := by
  unfold singleSplit singleSplitRaw
  by_cases hw : w < 1
  · simp [hw, bind, Except.bind, throw, throwThe, MonadExceptOf.throw, Except.map]
  · simp [hw, hbad, bind, Except.bind, pure, Except.pure, throw, throwThe, MonadExceptOf.throw, Except.map,
      Lem.checkFh_sorted fh hs hne]

/-- that cutoff is the last feasible one -/
theorem single_window_is_last_feasible (n : Int) (fh : List Int) :
    (n - fhMax fh - 1) + fhMax fh = n - 1 ∧ n - 1 < (n - fhMax fh - 1) + 1 + fhMax fh := by
  omega

/-- what makes a cutoff set valid for the cutoff splitter -/
structure CutoffValid (n wl : Int) (cs fh : List Int) : Prop where
  sorted : fh.Pairwise (· < ·)
  nonempty : fh ≠ []
  pos : ∀ h ∈ fh, 0 < h
  wl_pos : 1 ≤ wl
  cs_nonempty : cs ≠ []
  cs_nonneg : ∀ c ∈ cs, 0 ≤ c
  feasible : ∀ c ∈ cs, c + fhMax fh ≤ n - 1

/-- the cutoff splitter yields one fold per given cutoff, in increasing order of cutoff:
the window of `window_length` positions (clipped at 0) ending at the cutoff, test = cutoff + fh -/
theorem cutoff_splitter_uses_given_cutoffs {n wl cs fh} (v : CutoffValid n wl cs fh) :
    cutoffSplit n cs fh wl =
      .ok ((sortInts cs).map (fun c => (arange (max (c + 1 - wl) 0) (c + 1), fh.map (c + ·)))) ∧
    cutoffCutoffs cs = .ok (sortInts cs) := by
  have hne : (sortInts cs) ≠ [] := by
    intro h; have := (Lem.sortInts_perm cs).length_eq; rw [h] at this
    exact v.cs_nonempty (List.length_eq_zero_iff.mp this.symm)
  have hempty : cs.isEmpty = false := by
    cases cs with | nil => exact absurd rfl v.cs_nonempty | cons a l => rfl
  have hfm : 0 < fhMax fh := v.pos _ (Lem.fhMax_mem fh v.nonempty)
  have hmaxmem : listMax (sortInts cs) ∈ cs := (Lem.sortInts_mem cs _).mp (Lem.listMax_mem _ hne)
  have h1 : ¬ listMax (sortInts cs) ≥ n := by have := v.feasible _ hmaxmem; omega
  have h2 : ¬ listMax (sortInts cs) + listMax fh ≥ n := by
    have := v.feasible _ hmaxmem
    have := Lem.le_fhMax fh v.sorted _ (Lem.listMax_mem fh v.nonempty)
    omega
  have h3 : ¬ wl < 1 := by have := v.wl_pos; omega
  constructor
  · unfold cutoffSplit cutoffSplitRaw
    simp only [hempty, Bool.false_eq_true, ↓reduceIte, bind, Except.bind, pure, Except.pure, h1, h2, h3,
      Lem.checkFh_sorted fh v.sorted v.nonempty, Except.map, filterFolds, List.map_map]
    congr 1
    apply List.map_congr_left
    intro c hc
    have hc0 := v.cs_nonneg c ((Lem.sortInts_mem cs c).mp hc)
    simp only [Function.comp]
    rw [Lem.arange_map_succ, Lem.nonneg_arange, Lem.nonneg_id]
    · have : c - wl + 1 = c + 1 - wl := by omega
      rw [this]
    · intro x hx
      obtain ⟨h', hh, rfl⟩ := List.mem_map.mp hx
      have := v.pos h' hh; omega
  · simp [cutoffCutoffs, hempty]

/-- hence all its positions lie inside the series and training precedes test -/
theorem cutoff_splitter_positions_in_range {n wl cs fh} (v : CutoffValid n wl cs fh)
    (fs : List Fold) (h : cutoffSplit n cs fh wl = .ok fs) (f : Fold) (hf : f ∈ fs) :
    (∀ p ∈ f.1, 0 ≤ p ∧ p < n) ∧ (∀ q ∈ f.2, 0 ≤ q ∧ q < n) ∧ ∀ p ∈ f.1, ∀ q ∈ f.2, p < q := by
  rw [(cutoff_splitter_uses_given_cutoffs v).1] at h; cases h
  obtain ⟨c, hc, rfl⟩ := List.mem_map.mp hf
  have hcm := (Lem.sortInts_mem cs c).mp hc
  have hc0 := v.cs_nonneg c hcm
  have hfe := v.feasible c hcm
  have hfm : 0 < fhMax fh := v.pos _ (Lem.fhMax_mem fh v.nonempty)
  refine ⟨?_, ?_, ?_⟩
  · intro p hp; have := (Lem.arange_mem _ _ p).mp hp; omega
  · intro q hq
    obtain ⟨h', hh, rfl⟩ := List.mem_map.mp hq
    have := v.pos h' hh; have := Lem.le_fhMax fh v.sorted h' hh; omega
  · intro p hp q hq
    have := (Lem.arange_mem _ _ p).mp hp
    obtain ⟨h', hh, rfl⟩ := List.mem_map.mp hq
    have := v.pos h' hh; omega

/-- a cutoff whose horizon would reach past the end of the series is rejected -/
theorem cutoff_splitter_rejects_past_end (n wl : Int) (cs fh : List Int)
    (hs : fh.Pairwise (· < ·)) (hne : fh ≠ [])
    (c : Int) (hc : c ∈ cs) (hbad : c + fhMax fh ≥ n) :
    cutoffSplit n cs fh wl = .error .value := by
  have hempty : cs.isEmpty = false := by
    cases cs with | nil => simp at hc | cons a l => rfl
  have hge : c ≤ listMax (sortInts cs) := Lem.listMax_ge _ c ((Lem.sortInts_mem cs c).mpr hc)
  have hge2 : fhMax fh ≤ listMax fh := Lem.listMax_ge _ _ (Lem.fhMax_mem fh hne)
  unfold cutoffSplit cutoffSplitRaw
  simp only [hempty, Bool.false_eq_true, ↓reduceIte, bind, Except.bind, pure, Except.pure,
    Lem.checkFh_sorted fh hs hne]
  by_cases h1 : listMax (sortInts cs) ≥ n
  · simp [h1, Except.map, throw, throwThe, MonadExceptOf.throw]
  · have h2 : listMax (sortInts cs) + listMax fh ≥ n := by omega
    simp [h1, h2, Except.map, throw, throwThe, MonadExceptOf.throw]

/-- `temporal_train_test_split(y, fh=fh)` with a relative out-of-sample horizon: the training part
is everything up to `n − max(fh) − 1`, the test part is `(n − max(fh) − 1) + fh`; disjoint, ordered,
inside the series -/
theorem tts_by_fh_partition (n : Int) (fh : List Int)
    (hs : fh.Pairwise (· < ·)) (hne : fh ≠ []) (hpos : ∀ h ∈ fh, 0 < h) (hfit : fhMax fh < n) :
    ttsByFhRel n fh = .ok (arange 0 (n - fhMax fh), fh.map (fun h => n - fhMax fh + (h - 1))) ∧
    ∀ q ∈ fh.map (fun h => n - fhMax fh + (h - 1)), n - fhMax fh ≤ q ∧ q < n := by
  have hnd : fh.Nodup := Lem.nodup_of_strictSorted hs
  have hsort : sortInts fh = fh := Lem.sortInts_of_sorted fh (hs.imp (by intro a b h; omega))
  have hlen : fh.length ≠ 0 := by intro h; exact hne (List.length_eq_zero_iff.mp h)
  have hall : ∀ h ∈ fh, ¬ (n - fhMax fh + (h - 1) ≥ n) := by
    intro h hh; have := Lem.le_fhMax fh hs h hh; omega
  constructor
  · unfold ttsByFhRel
    have hm : ¬ fhMax fh ≥ n := by omega
    have hany : (fh.any fun h => decide (n - fhMax fh + (h - 1) ≥ n)) = false := by
      rw [List.any_eq_false]; intro h hh; simpa using hall h hh
    simp [FH.checkFh, FH.mk, FH.checkValues, hnd, hsort, Except.map, bind, Except.bind, pure, Except.pure,
      hlen, Lem.allOut_of_pos fh hpos, hm, hany]
  · intro q hq
    obtain ⟨h, hh, rfl⟩ := List.mem_map.mp hq
    have := hpos h hh; have := hall h hh; omega

/-- `temporal_train_test_split` by sizes: whenever it returns, the training part is the first `k`
positions and the test part the next `m` positions (order kept, no overlap, inside the series) -/
theorem tts_by_size_partition (n : Int) (te tr : Size) (a b : List Int)
    (h : ttsBySize n te tr = .ok (a, b)) :
    ∃ k m : Int, k ≠ 0 ∧ k + m ≤ n ∧ a = arange 0 k ∧ b = arange k (k + m) := by
  have key : ∃ k m, ttsFinish n k m = .ok (a, b) := by
    unfold ttsBySize at h
    split at h
    · simp at h
    · split at h
      · simp at h
      · exact ⟨_, _, h⟩
  obtain ⟨k, m, hkm⟩ := key
  unfold ttsFinish at hkm
  split at hkm
  · simp at hkm
  · split at hkm
    · simp at hkm
    · simp only [Except.ok.injEq, Prod.mk.injEq] at hkm
      exact ⟨k, m, by omega, by omega, hkm.1.symm, hkm.2.symm⟩

/-- integer sizes are honoured exactly: the first `k` observations train, the next `m` test -/
theorem tts_by_size_ints (n k m : Int) (hk : 0 < k) (hm : 0 < m) (hsum : k + m ≤ n) :
    ttsBySize n (.int m) (.int k) = .ok (arange 0 k, arange k (k + m)) := by
  have h1 : ¬ n < 1 := by omega
  have h2 : ¬ (k ≥ n) := by omega
  have h3 : ¬ (m ≥ n) := by omega
  have h4 : ¬ (k ≤ 0) := by omega
  have h5 : ¬ (m ≤ 0) := by omega
  have h6 : ¬ (k + m > n) := by omega
  have h7 : k ≠ 0 := by omega
  simp [ttsBySize, ttsFinish, sizeBad, sizeSumBad, h1, h2, h3, h4, h5, h6, h7]

/-- only a test size: everything before the last `m` observations trains -/
theorem tts_by_size_test_int (n m : Int) (hm : 0 < m) (hlt : m < n) :
    ttsBySize n (.int m) .none = .ok (arange 0 (n - m), arange (n - m) n) := by
  have h1 : ¬ n < 1 := by omega
  have h3 : ¬ (m ≥ n) := by omega
  have h5 : ¬ (m ≤ 0) := by omega
  have h7 : n - m ≠ 0 := by omega
  simp [ttsBySize, ttsFinish, sizeBad, sizeSumBad, h1, h3, h5, h7]

/-- infeasible window configurations are rejected (ValueError) -/
theorem window_rejects_infeasible (k : Kind) (n wl step : Int) (fh : List Int) (iw : Option Int) (sww : Bool)
    (hs : fh.Pairwise (· < ·)) (hne : fh ≠ [])
    (hbad : step < 1 ∨ wl < 1 ∨ wl + fhMax fh > n) :
    windowSplit k n fh wl step iw sww = .error .value := by
  unfold windowSplit windowSplitRaw validate
  simp only [bind, Except.bind, pure, Except.pure, throw, throwThe, MonadExceptOf.throw,
    Lem.checkFh_sorted fh hs hne]
  by_cases h1 : step < 1
  · simp [h1, Except.map]
  · by_cases h2 : wl < 1
    · simp [h1, h2, Except.map]
    · have h3 : wl + fhMax fh > n := by omega
      cases iw with
      | none => simp [h1, h2, h3, Except.map]
      | some i =>
        by_cases h4 : i < 1
        · simp [h1, h2, h4, Except.map]
        · simp [h1, h2, h3, h4, Except.map]

/-- feasible ones are accepted -/
theorem window_accepts_feasible {k n wl step fh iw sww} (v : Valid k n wl step fh iw sww) :
    ∃ fs, windowSplit k n fh wl step iw sww = .ok fs ∧ fs ≠ [] := by
  refine ⟨_, window_fold_shape v, ?_⟩
  have hfeasible : iw = none → firstCutoff wl step iw sww + fhMax fh ≤ n - 1 := by
    intro h; subst h
    have := v.fits
    have := v.wl_pos
    have hfm : 0 < fhMax fh := v.pos _ (Lem.fhMax_mem fh v.nonempty)
    cases sww <;> simp [firstCutoff] <;> omega
  cases hiw : iw with
  | some i => simp [folds, initialFold]
  | none =>
    subst hiw
    have := first_cutoff_is_first_feasible v (hfeasible rfl)
    intro hnil
    simp only [folds, initialFold, List.nil_append, List.map_eq_nil_iff] at hnil
    rw [hnil] at this; simp at this

-- non-vacuity: concrete valid configurations
example : Valid .sliding 10 3 2 [1, 2] none true :=
  ⟨by decide, by decide, by decide, by decide, by decide, by decide, by intro i h; cases h⟩
example : windowSplit .sliding 10 [1, 2] 3 2 none true =
    .ok [([0, 1, 2], [3, 4]), ([2, 3, 4], [5, 6]), ([4, 5, 6], [7, 8])] := by decide
example : Valid .sliding 10 3 1 [2] (some 5) true :=
  ⟨by decide, by decide, by decide, by decide, by decide, by decide,
   by intro i h; cases h; exact ⟨rfl, rfl, by decide, by decide⟩⟩
example : CutoffValid 10 3 [7, 3] [2] :=
  ⟨by decide, by decide, by decide, by decide, by decide, by decide, by decide⟩
example : cutoffSplit 10 [8] [2] 3 = .error .value := by decide
example : ttsBySize 10 (.int 3) .none = .ok (arange 0 7, arange 7 10) :=
  tts_by_size_test_int 10 3 (by decide) (by decide)

end SkVerif.C01
