/- Property theorems for C06 (stub: not built yet). -/
namespace SkVerif.C06
end SkVerif.C06
